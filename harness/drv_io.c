/* C12 harness: config_write_file under injected I/O faults.
 * line:  wfcase <cfg-text-hex> <fsync 0|1> <kind> <param>
 * kinds: none | fsize N (RLIMIT_FSIZE = N bytes) | devfull | nodir | isdir | readonly | fsyncfail | fclosefail
 * out:   <ret> <error_type> <bytes on disk as hex | -> <len of config_write output>
 * fsync() and fclose() as called by libconfig.c are interposed with -Wl,--wrap. */
#define _GNU_SOURCE
#include <stdio.h>
#include <stdlib.h>
#include <string.h>
#include <signal.h>
#include <unistd.h>
#include <errno.h>
#include <sys/stat.h>
#include <sys/resource.h>
#include "libconfig.h"

static int fail_fsync = 0, fail_fclose = 0, n_fsync = 0, n_fclose_failed = 0;
int __real_fsync(int fd);
int __wrap_fsync(int fd) { n_fsync++; if (fail_fsync) { errno = EIO; return -1; } return __real_fsync(fd); }
int __real_fclose(FILE *f);
int __wrap_fclose(FILE *f) { int r = __real_fclose(f); if (fail_fclose) { n_fclose_failed++; errno = EIO; return EOF; } return r; }

static char *unhex(const char *s, size_t *lenp)
{
  size_t n; char *r;
  if (!strcmp(s, "=")) { if (lenp) *lenp = 0; return strdup(""); }
  n = strlen(s) / 2; r = malloc(n + 1);
  for (size_t i = 0; i < n; i++) { unsigned v; sscanf(s + 2 * i, "%2x", &v); r[i] = (char)v; }
  r[n] = 0; if (lenp) *lenp = n; return r;
}

int main(int argc, char **argv)
{
  char *line = NULL; size_t cap = 0; ssize_t n;
  if (argc > 1 && chdir(argv[1]) != 0) { perror("chdir"); return 2; }
  signal(SIGXFSZ, SIG_IGN);
  mkdir("adir", 0777); mkdir("rodir", 0555);
  while ((n = getline(&line, &cap, stdin)) > 0) {
    char *w[8]; int nw = 0; char *tok, *save;
    while (n > 0 && (line[n - 1] == '\n' || line[n - 1] == '\r')) line[--n] = 0;
    for (tok = strtok_r(line, " ", &save); tok && nw < 8; tok = strtok_r(NULL, " ", &save)) w[nw++] = tok;
    if (nw == 5 && !strcmp(w[0], "wfcase")) {
      config_t cfg; char *text = unhex(w[1], NULL); const char *kind = w[3]; long param = atol(w[4]);
      const char *path = "out.cfg"; struct rlimit old, lim; int ret; char *mem = NULL; size_t memlen = 0; FILE *m;
      config_init(&cfg);
      config_read_string(&cfg, text);
      config_set_option(&cfg, CONFIG_OPTION_FSYNC, atoi(w[2]));
      m = open_memstream(&mem, &memlen); config_write(&cfg, m); __real_fclose(m);
      unlink("out.cfg");
      fail_fsync = fail_fclose = 0;
      getrlimit(RLIMIT_FSIZE, &old);
      if (!strcmp(kind, "fsize")) { lim = old; lim.rlim_cur = (rlim_t)param; setrlimit(RLIMIT_FSIZE, &lim); }
      else if (!strcmp(kind, "devfull")) path = "/dev/full";
      else if (!strcmp(kind, "nodir")) path = "nodir/out.cfg";
      else if (!strcmp(kind, "isdir")) path = "adir";
      else if (!strcmp(kind, "readonly")) path = geteuid() == 0 ? "nodir2/x/out.cfg" : "rodir/out.cfg";
      else if (!strcmp(kind, "existing")) {
        /* the target exists already and is longer than the new contents: on success the file is exactly the new contents */
        FILE *f = fopen("out.cfg", "wb"); size_t i; for (i = 0; i < memlen + 64 + (size_t)param; i++) fputc('Z', f); __real_fclose(f);
      }
      else if (!strcmp(kind, "fsyncfail")) fail_fsync = 1;
      else if (!strcmp(kind, "fclosefail")) fail_fclose = 1;
      ret = config_write_file(&cfg, path);
      setrlimit(RLIMIT_FSIZE, &old);
      fail_fsync = fail_fclose = 0;
      printf("%d %d ", ret, config_error_type(&cfg));
      if (ret && strcmp(path, "/dev/full")) {
        FILE *f = fopen(path, "rb"); char *b = malloc(memlen + 16); size_t k = f ? fread(b, 1, memlen + 16, f) : 0;
        if (f) __real_fclose(f);
        if (k == 0) printf("="); else for (size_t i = 0; i < k; i++) printf("%02x", (unsigned char)b[i]);
        free(b);
      } else printf("-");
      printf(" %zu\n", memlen);
      free(mem); free(text); config_destroy(&cfg);
    } else printf("bad-op\n");
    fflush(stdout);
  }
  free(line);
  return 0;
}
