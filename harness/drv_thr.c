/* C14 harness (built with -fsanitize=thread): N threads each run an independent workload on their
 * own configuration objects and files; every thread's transcript must equal the transcript of the
 * same workload run alone.  ThreadSanitizer reports any unsynchronised shared access on an executed path.
 * line: thrcase <threads> <rounds> <seed>      out: ok <transcript bytes compared>  |  DIFF <thread> */
#define _GNU_SOURCE
#include <stdio.h>
#include <stdlib.h>
#include <string.h>
#include <pthread.h>
#include <time.h>
#include <unistd.h>
#include "libconfig.h"

#include <setjmp.h>
#define MAXT 16
struct job { int id; int rounds; unsigned seed; char *out; size_t len; };

/* per-thread allocation faults: the next allocation the library requests in THIS thread fails once, the (process-wide)
 * fatal-error function jumps back into the thread that failed; other threads must be unaffected, also afterwards */
static __thread int tl_fail_next; static __thread jmp_buf tl_escape; static __thread int tl_armed;
void *__real_calloc(size_t, size_t); void *__real_malloc(size_t); char *__real_strdup(const char *); void *__real_realloc(void *, size_t);
void *__wrap_calloc(size_t a, size_t b) { if (tl_fail_next) { tl_fail_next = 0; return NULL; } return __real_calloc(a, b); }
void *__wrap_malloc(size_t a) { if (tl_fail_next) { tl_fail_next = 0; return NULL; } return __real_malloc(a); }
void *__wrap_realloc(void *p, size_t a) { if (tl_fail_next) { tl_fail_next = 0; return NULL; } return __real_realloc(p, a); }
char *__wrap_strdup(const char *s) { if (tl_fail_next) { tl_fail_next = 0; return NULL; } return __real_strdup(s); }
static void thr_fatal(const char *msg) { (void)msg; if (tl_armed) { tl_armed = 0; longjmp(tl_escape, 1); } abort(); }

static void emit(FILE *t, const config_setting_t *s, int depth)
{
  int i, n = config_setting_length(s);
  fprintf(t, "%*s%s:%d", depth, "", s->name ? s->name : "-", s->type);
  if (s->type == CONFIG_TYPE_INT) fprintf(t, "=%d", s->value.ival);
  if (s->type == CONFIG_TYPE_FLOAT) fprintf(t, "=%a", s->value.fval);
  if (s->type == CONFIG_TYPE_STRING) fprintf(t, "=%s", s->value.sval ? s->value.sval : "(null)");
  fprintf(t, "@%u\n", s->line);
  for (i = 0; i < n; i++) emit(t, config_setting_get_elem(s, i), depth + 1);
}

/* deep include chains held open by ALL threads at the same moment: the include function of the chain's last file waits
 * at a barrier (parallel phase only), so nt x 9 include frames exist at once - independent configurations must not count
 * against each other */
static pthread_mutex_t deep_mu = PTHREAD_MUTEX_INITIALIZER; static pthread_cond_t deep_cv = PTHREAD_COND_INITIALIZER;
static int deep_bar_on, deep_need, deep_arrived;
static const char **deep_inc(config_t *c, const char *dir, const char *path, const char **error)
{
  if (deep_bar_on && strstr(path, "_d9.cfg")) {
    /* wait until every thread is this deep (at most 3 s: a thread whose read failed earlier never arrives) */
    struct timespec ts; clock_gettime(CLOCK_REALTIME, &ts); ts.tv_sec += 3;
    pthread_mutex_lock(&deep_mu); deep_arrived++; pthread_cond_broadcast(&deep_cv);
    while (deep_arrived < deep_need) if (pthread_cond_timedwait(&deep_cv, &deep_mu, &ts) != 0) break;
    pthread_mutex_unlock(&deep_mu);
  }
  return config_default_include_func(c, dir, path, error);
}

static void *work(void *arg)
{
  struct job *j = arg; FILE *t = open_memstream(&j->out, &j->len); unsigned r = j->seed * 2654435761u + j->id * 40503u;
  char fname[64], inc[64], text[2048]; int round;
  snprintf(fname, sizeof fname, "thr%d.cfg", j->id); snprintf(inc, sizeof inc, "thr%d_inc.cfg", j->id);
  for (round = 0; round < j->rounds; round++) {
    config_t c; config_setting_t *root, *g, *a; int i, iv; double dv; const char *sv; FILE *f;
    r = r * 1103515245u + 12345u;
    config_init(&c);
    config_set_options(&c, (r >> 8) & 0x3f);
    config_set_float_precision(&c, (r >> 16) % 20);     /* also beyond the documented 15 */
    config_set_tab_width(&c, (r >> 20) % 9);
    f = fopen(inc, "w"); fprintf(f, "inc_%d = %u;\ninc_s = \"t%d\";\n", j->id, r % 1000, j->id); fclose(f);
    snprintf(text, sizeof text, "id = %d; pi = %d.%u; name = \"thread %d round %d\";\n@include \"%s\"\ngrp = { a = [1, 2, %u]; l = ( 1.5, \"x\", { y = 0x%X; } ); };\nhuge = %d.5e300; big = [ -%u.25e15, 1e22, %u.0e40 ];\n",
             j->id, j->id, r % 100000, j->id, round, inc, r % 77, r & 0xffff, j->id + 1, r % 9000 + 1000, r % 97 + 1);
    fprintf(t, "read_string %d\n", config_read_string(&c, text));
    if (round == 0) {
      config_t dc; char dn[64], dt[128]; int k, dv9 = -1;
      for (k = 1; k <= 9; k++) {
        snprintf(dn, sizeof dn, "thr%d_d%d.cfg", j->id, k); f = fopen(dn, "w");
        if (k < 9) fprintf(f, "lvl%d = %d;\n@include \"thr%d_d%d.cfg\"\n", k, k, j->id, k + 1); else fprintf(f, "deep = %d;\n", 9000 + j->id);
        fclose(f);
      }
      config_init(&dc); config_set_include_func(&dc, deep_inc);
      snprintf(dt, sizeof dt, "@include \"thr%d_d1.cfg\"\n", j->id);
      k = config_read_string(&dc, dt); config_lookup_int(&dc, "deep", &dv9);
      fprintf(t, "deep %d %d %s\n", k, dv9, config_error_text(&dc) ? config_error_text(&dc) : "-");
      config_destroy(&dc);
    }
    /* values whose short rendering rounds past DBL_MAX (the writer re-renders them exactly), different per thread */
    { config_setting_t *top = config_setting_add(config_root_setting(&c), "top", CONFIG_TYPE_FLOAT); char lit[48];
      snprintf(lit, sizeof lit, "1.797693134862%02de308", 10 + j->id); if (top) config_setting_set_float(top, (round & 1 ? -1 : 1) * strtod(lit, NULL)); }
    if (round % 3 == 1) { fprintf(t, "bad %d %s %d\n", config_read_string(&c, "a = 1;\na = ;"), config_error_text(&c), config_error_line(&c)); config_read_string(&c, text); }
    /* every kind of failing read, each thread with its own names; the error record is read only after more work,
     * so that a record living in shared storage would have been overwritten by another thread meanwhile */
    { config_t e1, e2, e3; char bad1[160], bad2[160]; const char *t1, *t2, *t3; int l1, l2, l3;
      config_init(&e1); config_init(&e2); config_init(&e3);
      snprintf(bad1, sizeof bad1, "x = 1;\n@include \"missing-%d-%d.cfg\"\n", j->id, round);
      snprintf(bad2, sizeof bad2, "d%d = 1;\nd%d = 2;\n", j->id, j->id);
      config_read_string(&e1, bad1); config_read_string(&e2, bad2); config_read_string(&e3, "m = [1, \"two\"];");
      config_read_string(&c, text);
      t1 = config_error_text(&e1); l1 = config_error_line(&e1); t2 = config_error_text(&e2); l2 = config_error_line(&e2);
      t3 = config_error_text(&e3); l3 = config_error_line(&e3);
      fprintf(t, "errors [%s] %d [%s] %d [%s] %d missing-file %d\n", t1 ? t1 : "-", l1, t2 ? t2 : "-", l2, t3 ? t3 : "-", l3,
              config_read_file(&e1, "no-such-dir/none.cfg"));
      config_destroy(&e1); config_destroy(&e2); config_destroy(&e3); }
    root = config_root_setting(&c);
    g = config_setting_add(root, "extra", CONFIG_TYPE_GROUP);
    for (i = 0; i < 20; i++) { char nm[16]; snprintf(nm, sizeof nm, "e%d", i); a = config_setting_add(g, nm, CONFIG_TYPE_INT); config_setting_set_int(a, i * j->id + round); }
    config_setting_remove(g, "e3"); config_setting_remove_elem(g, 0);
    iv = -1; dv = 0; sv = "(none)";
    { int r1 = config_lookup_int(&c, "extra.e7", &iv), r2 = config_lookup_float(&c, "pi", &dv), r3 = config_lookup_string(&c, "grp.l.[1]", &sv);
      fprintf(t, "lookup %d %d %d %a %d %s\n", r1, iv, r2, dv, r3, sv); }
    emit(t, root, 0);
    config_write(&c, t);
    { int o = config_get_options(&c); unsigned short pr = config_get_float_precision(&c);
      config_set_option(&c, CONFIG_OPTION_ALLOW_SCIENTIFIC_NOTATION, 1); config_set_float_precision(&c, 3 + round % 3);
      config_write(&c, t); config_set_options(&c, o); config_set_float_precision(&c, pr); }
    fprintf(t, "write_file %d\n", config_write_file(&c, fname));
    { config_t d; config_init(&d); fprintf(t, "read_file %d\n", config_read_file(&d, fname)); emit(t, config_root_setting(&d), 0); config_destroy(&d); }
    /* an allocation failure in this thread, handled by jumping out of the library; then the same again: the handler
     * still works for this and for every other thread */
    { int k; for (k = 0; k < 2; k++) {
        tl_armed = 1;
        if (setjmp(tl_escape) == 0) { tl_fail_next = 1; a = config_setting_add(config_root_setting(&c), k ? "zz2" : "zz1", CONFIG_TYPE_STRING); tl_fail_next = 0; tl_armed = 0; fprintf(t, "fault %d not-reached %d\n", k, a != NULL); }
        else fprintf(t, "fault %d recovered\n", k);
      } }
    config_destroy(&c);
  }
  fclose(t);
  return NULL;
}

/* thrstress <threads> <iterations>: every thread writes its own configuration of floats that take the writer's rare
 * paths (exact re-rendering near DBL_MAX, exponents, huge fixed notation, denormals) over and over and compares each
 * output with the text the same configuration gave before any other thread existed */
struct sjob { int id, iters, bad; char *expect; size_t elen; config_t cfg; };
static void swrite(config_t *c, char **out, size_t *len) { FILE *t = open_memstream(out, len); config_write(c, t); fclose(t); }
static void *stress(void *arg)
{
  struct sjob *j = arg; int i;
  for (i = 0; i < j->iters && !j->bad; i++) {
    char *o = NULL; size_t l = 0; swrite(&j->cfg, &o, &l);
    if (l != j->elen || memcmp(o, j->expect, l)) j->bad = 1;
    free(o);
  }
  return NULL;
}

int main(int argc, char **argv)
{
  char *line = NULL; size_t cap = 0; ssize_t n;
  if (argc > 1 && chdir(argv[1]) != 0) { perror("chdir"); return 2; }
  config_set_fatal_error_func(thr_fatal);          /* once, before any thread exists */
  while ((n = getline(&line, &cap, stdin)) > 0) {
    int nt, rounds, i, bad = -1, parfirst = 0; unsigned seed; struct job serial[MAXT], par[MAXT]; pthread_t th[MAXT]; size_t total = 0;
    { int snt, sit;
      if (sscanf(line, "thrstress %d %d", &snt, &sit) == 2 && snt >= 1 && snt <= MAXT) {
        struct sjob sj[MAXT]; pthread_t sth[MAXT]; int sbad = -1;
        for (i = 0; i < snt; i++) {
          char text[512];
          snprintf(text, sizeof text, "a = %s1.797693134862%02de308; b = 1.7976931348623157e308; c = [ 1.5e300, -2.5e-300, 4.9e-324 ]; d = %d.125e15; e = 1e%d;\n",
                   i & 1 ? "-" : "", 10 + i, 1000 + i, 20 + i);
          sj[i].id = i; sj[i].iters = sit; sj[i].bad = 0; config_init(&sj[i].cfg);
          config_set_option(&sj[i].cfg, CONFIG_OPTION_ALLOW_SCIENTIFIC_NOTATION, i % 3 != 2); config_set_float_precision(&sj[i].cfg, (unsigned short)(1 + i % 5));
          if (!config_read_string(&sj[i].cfg, text)) sbad = i;
          swrite(&sj[i].cfg, &sj[i].expect, &sj[i].elen);
        }
        for (i = 0; i < snt; i++) pthread_create(&sth[i], NULL, stress, &sj[i]);
        for (i = 0; i < snt; i++) pthread_join(sth[i], NULL);
        for (i = 0; i < snt; i++) { if (sj[i].bad && sbad < 0) sbad = i; free(sj[i].expect); config_destroy(&sj[i].cfg); }
        if (sbad >= 0) printf("DIFF %d\n", sbad); else printf("ok %d\n", snt * sit);
        fflush(stdout); continue;
      } }
    /* a 4th field "1" = run the threads BEFORE the serial reference runs (the very first use of the library is concurrent) */
    if (sscanf(line, "thrcase %d %d %u %d", &nt, &rounds, &seed, &parfirst) < 3 || nt < 1 || nt > MAXT) { printf("bad-op\n"); fflush(stdout); continue; }
    if (!parfirst) for (i = 0; i < nt; i++) { serial[i] = (struct job){ i, rounds, seed, NULL, 0 }; work(&serial[i]); }
    deep_need = nt; deep_arrived = 0; deep_bar_on = 1;
    for (i = 0; i < nt; i++) { par[i] = (struct job){ i, rounds, seed, NULL, 0 }; pthread_create(&th[i], NULL, work, &par[i]); }
    for (i = 0; i < nt; i++) pthread_join(th[i], NULL);
    deep_bar_on = 0;
    if (parfirst) for (i = 0; i < nt; i++) { serial[i] = (struct job){ i, rounds, seed, NULL, 0 }; work(&serial[i]); }
    for (i = 0; i < nt; i++) {
      if (serial[i].len != par[i].len || memcmp(serial[i].out, par[i].out, par[i].len)) { if (bad < 0) bad = i; }
      total += par[i].len; free(serial[i].out); free(par[i].out);
    }
    if (bad >= 0) printf("DIFF %d\n", bad); else printf("ok %zu\n", total);
    fflush(stdout);
  }
  free(line);
  return 0;
}
