/* C14, C++ part: threads that each construct, use and destroy their own libconfig::Config objects, under
 * ThreadSanitizer (halt_on_error=0: every report is collected from stderr by the check).
 * usage: drv_thr_cpp <threads> <rounds>; prints "done <n>" */
#include <libconfig.h++>
#include <pthread.h>
#include <cstdio>
#include <cstdlib>
#include <string>
using namespace libconfig;
static int rounds = 20;
static void *work(void *arg)
{
  long id = (long)arg; long sum = 0;
  for (int i = 0; i < rounds; i++) {
    Config c;
    char text[256];
    snprintf(text, sizeof text, "a = %ld; g = { s = \"t%ld\"; f = %ld.5; l = (1, 2, [3, 4]); };\n", id, id, id + i);
    c.readString(text);
    Setting &r = c.getRoot();
    r.add("x", Setting::TypeInt) = (int)(id * 1000 + i);
    int a = 0; std::string s; double f = 0;
    r.lookupValue("a", a); c.lookupValue("g.s", s); c.lookupValue("g.f", f);
    for (Setting::iterator it = r["g"]["l"].begin(); it != r["g"]["l"].end(); ++it) sum += it->getLength();
    try { (void)(int)r["nope"]; } catch (const SettingNotFoundException &e) { sum += e.getPath()[0]; }
    r.remove("x");
    try { c.readString("a = ;"); } catch (const ParseException &e) { sum += e.getLine(); }   /* r is gone now: a read clears the tree */
    sum += a + (long)s.size() + (long)f + c.getRoot().getLength();
  }
  return (void *)sum;
}
int main(int argc, char **argv)
{
  int n = argc > 1 ? atoi(argv[1]) : 4; pthread_t th[32]; long total = 0;
  if (argc > 2) rounds = atoi(argv[2]);
  if (n > 32) n = 32;
  for (long i = 0; i < n; i++) pthread_create(&th[i], 0, work, (void *)i);
  for (int i = 0; i < n; i++) { void *r; pthread_join(th[i], &r); total += (long)r; }
  printf("done %d %ld\n", n, total);
  return 0;
}
