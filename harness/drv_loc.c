/* C15 harness: reads and writes under process-wide / per-thread comma-decimal locales.
 * The comma locale "xx_XX.utf8" is synthesised by the check (LOCPATH).
 * line: loccase <global 0|1> <thread 0|1> <entry string|stream|file> <text-hex>
 * out:  <read ok> <config_write text hex> <write_file+read_file ok> <second write hex equal 0|1>
 *       <thread locale preserved 0|1> <global locale preserved 0|1> <radix before> <radix after> */
#define _GNU_SOURCE
#include <stdio.h>
#include <stdlib.h>
#include <string.h>
#include <locale.h>
#include <unistd.h>
#include <errno.h>
#include "libconfig.h"

static char *unhex(const char *s, size_t *lenp)
{
  size_t n; char *r;
  if (!strcmp(s, "=")) { if (lenp) *lenp = 0; return strdup(""); }
  n = strlen(s) / 2; r = malloc(n + 1);
  for (size_t i = 0; i < n; i++) { unsigned v; sscanf(s + 2 * i, "%2x", &v); r[i] = (char)v; }
  r[n] = 0; if (lenp) *lenp = n; return r;
}
/* a stream that delivers its data and then fails (EIO) */
struct failing { const char *data; size_t len, pos; };
static ssize_t failing_read(void *c, char *buf, size_t size)
{
  struct failing *k = c; size_t n = k->len - k->pos;
  if (n == 0) { errno = EIO; return -1; }
  if (n > size) n = size;
  memcpy(buf, k->data + k->pos, n); k->pos += n;
  return (ssize_t)n;
}
/* ---- two threads whose libconfig calls overlap in time (locoverlap): thread A is parked inside its include function
 * in the middle of a read while thread B reads and writes floats on its own configuration, under a comma locale ---- */
#include <pthread.h>
static pthread_mutex_t ov_mu = PTHREAD_MUTEX_INITIALIZER; static pthread_cond_t ov_cv = PTHREAD_COND_INITIALIZER;
static int ov_a_inside, ov_b_done; static locale_t ov_comma; static int ov_thread_locale;
static char ov_b_text[256]; static double ov_b_a, ov_b_b; static int ov_b_ok, ov_b_locale_kept;
static const char **ov_include(config_t *c, const char *dir, const char *path, const char **error)
{
  const char **l;
  (void)c; (void)dir; (void)path; *error = NULL;
  pthread_mutex_lock(&ov_mu); ov_a_inside = 1; pthread_cond_broadcast(&ov_cv);
  while (!ov_b_done) pthread_cond_wait(&ov_cv, &ov_mu);
  pthread_mutex_unlock(&ov_mu);
  l = malloc(sizeof *l); l[0] = NULL; return l;          /* expands to no file */
}
static void *ov_worker(void *arg)
{
  config_t b; char *m = NULL; size_t ml = 0; FILE *f; locale_t before;
  (void)arg;
  if (ov_thread_locale) uselocale(ov_comma);
  before = uselocale((locale_t)0);
  pthread_mutex_lock(&ov_mu); while (!ov_a_inside) pthread_cond_wait(&ov_cv, &ov_mu); pthread_mutex_unlock(&ov_mu);
  config_init(&b);
  ov_b_ok = config_read_string(&b, "a = 1.5; b = 2.25;");
  ov_b_a = ov_b_b = -1; config_lookup_float(&b, "a", &ov_b_a); config_lookup_float(&b, "b", &ov_b_b);
  f = open_memstream(&m, &ml); config_write(&b, f); fclose(f);
  snprintf(ov_b_text, sizeof ov_b_text, "%s", m ? m : ""); free(m); config_destroy(&b);
  ov_b_locale_kept = uselocale((locale_t)0) == before;
  pthread_mutex_lock(&ov_mu); ov_b_done = 1; pthread_cond_broadcast(&ov_cv); pthread_mutex_unlock(&ov_mu);
  return NULL;
}
static int radix(void) { char b[16]; snprintf(b, sizeof b, "%.1f", 1.5); return (unsigned char)b[1]; }

int main(int argc, char **argv)
{
  char *line = NULL; size_t cap = 0; ssize_t n; locale_t comma;
  if (argc > 1 && chdir(argv[1]) != 0) { perror("chdir"); return 2; }
  comma = newlocale(LC_ALL_MASK, "xx_XX.utf8", NULL);
  if (!comma) { printf("no-comma-locale\n"); return 3; }
  while ((n = getline(&line, &cap, stdin)) > 0) {
    char *w[8]; int nw = 0; char *tok, *save;
    while (n > 0 && (line[n - 1] == '\n' || line[n - 1] == '\r')) line[--n] = 0;
    for (tok = strtok_r(line, " ", &save); tok && nw < 8; tok = strtok_r(NULL, " ", &save)) w[nw++] = tok;
    if ((nw == 5 || nw == 7) && !strcmp(w[0], "loccase")) {
      int g = atoi(w[1]), t = atoi(w[2]); size_t len; char *text = unhex(w[4], &len);
      config_t cfg, cfg2; int ok, ok2, same, rb, ra, tp, gp; char *m1 = NULL, *m2 = NULL; size_t l1 = 0, l2 = 0; FILE *f;
      locale_t expect; char gbefore[256];
      if (!setlocale(LC_ALL, g ? "xx_XX.utf8" : "C")) { printf("setlocale-failed\n"); fflush(stdout); continue; }
      uselocale(t ? comma : LC_GLOBAL_LOCALE);
      expect = uselocale((locale_t)0);
      snprintf(gbefore, sizeof gbefore, "%s", setlocale(LC_ALL, NULL));
      rb = radix();
      config_init(&cfg); config_init(&cfg2);
      if (nw == 7) {   /* option word and float precision for both configurations */
        config_set_options(&cfg, atoi(w[5])); config_set_float_precision(&cfg, (unsigned short)atoi(w[6]));
        config_set_options(&cfg2, atoi(w[5])); config_set_float_precision(&cfg2, (unsigned short)atoi(w[6]));
      }
      if (!strcmp(w[3], "string")) ok = config_read_string(&cfg, text);
      else if (!strcmp(w[3], "stream")) { f = len ? fmemopen(text, len, "r") : fopen("/dev/null", "r"); ok = config_read(&cfg, f); fclose(f); }
      else if (!strcmp(w[3], "failstream")) {
        /* the caller's stream fails after delivering the text: the read fails with an I/O error */
        struct failing fk = { text, len, 0 }; cookie_io_functions_t io = { failing_read, NULL, NULL, NULL };
        f = fopencookie(&fk, "r", io); ok = config_read(&cfg, f); fclose(f);
      }
      else if (!strcmp(w[3], "badfile")) ok = config_read_file(&cfg, "/proc/self/mem");     /* opens, every read fails */
      else if (!strcmp(w[3], "missing")) ok = config_read_file(&cfg, "no-such-file.cfg");
      else { f = fopen("in.cfg", "wb"); fwrite(text, 1, len, f); fclose(f); ok = config_read_file(&cfg, "in.cfg"); }
      tp = uselocale((locale_t)0) == expect;
      /* a write that fails (the directory does not exist) must restore the locale too */
      (void)config_write_file(&cfg, "no-such-dir-c15/out.cfg");
      tp = tp && uselocale((locale_t)0) == expect;
      f = open_memstream(&m1, &l1); config_write(&cfg, f); fclose(f);
      tp = tp && uselocale((locale_t)0) == expect;
      ok2 = config_write_file(&cfg, "out.cfg") && config_read_file(&cfg2, "out.cfg");
      f = open_memstream(&m2, &l2); config_write(&cfg2, f); fclose(f);
      same = (l1 == l2 && !memcmp(m1, m2, l1));
      tp = tp && uselocale((locale_t)0) == expect;
      gp = !strcmp(gbefore, setlocale(LC_ALL, NULL));
      ra = radix();
      printf("%d ", ok);
      if (l1 == 0) printf("="); else for (size_t i = 0; i < l1; i++) printf("%02x", (unsigned char)m1[i]);
      printf(" %d %d %d %d %d %d\n", ok2, same, tp, gp, rb, ra);
      free(m1); free(m2); free(text); config_destroy(&cfg); config_destroy(&cfg2);
      uselocale(LC_GLOBAL_LOCALE); setlocale(LC_ALL, "C");
    } else if (nw == 3 && !strcmp(w[0], "locoverlap")) {
      /* locoverlap <global comma 0|1> <thread comma 0|1>: out "<A ok> <A value x1000> <B ok> <B a x1000> <B b x1000> <B text hex> <locales kept>" */
      int g = atoi(w[1]); pthread_t th; config_t a; double av = -1; int aok, kept; locale_t before; size_t i;
      if (!setlocale(LC_ALL, g ? "xx_XX.utf8" : "C")) { printf("setlocale-failed\n"); fflush(stdout); continue; }
      ov_comma = comma; ov_thread_locale = atoi(w[2]); ov_a_inside = ov_b_done = 0;
      if (ov_thread_locale) uselocale(comma);
      before = uselocale((locale_t)0);
      pthread_create(&th, NULL, ov_worker, NULL);
      config_init(&a); config_set_include_func(&a, ov_include);
      aok = config_read_string(&a, "x = 0.5;\n@include \"park\"\ny = 7.75;\n");
      config_lookup_float(&a, "y", &av);
      pthread_join(th, NULL);
      kept = (uselocale((locale_t)0) == before) && ov_b_locale_kept;
      printf("%d %ld %d %ld %ld ", aok, (long)(av * 1000), ov_b_ok, (long)(ov_b_a * 1000), (long)(ov_b_b * 1000));
      for (i = 0; ov_b_text[i]; i++) printf("%02x", (unsigned char)ov_b_text[i]);
      printf(" %d\n", kept);
      config_destroy(&a); uselocale(LC_GLOBAL_LOCALE); setlocale(LC_ALL, "C");
    } else printf("bad-op\n");
    fflush(stdout);
  }
  freelocale(comma);
  free(line);
  return 0;
}
