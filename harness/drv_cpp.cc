/* C17 line-protocol harness: every operation is performed through the public C++ API
 * (libconfig.h++) of the library compiled from /repo's working tree; after each C++ call
 * the corresponding C function is called on the SAME config_t / config_setting_t (reached
 * through Config::_config and Setting::_setting) and both results are printed:
 *
 *     <C++ result>[ freed <n>] | c <C result>
 *
 * The Lean driver prints the part before " | c " from the model (lean/LibconfigModel/Cpp.lean);
 * tools/props_c17.py compares the C++ halves with the model, and the two halves with each
 * other under the documented mapping (direct oracle).
 *
 * Exceptions are printed as E:<ClassName>:<hex of getPath()>, E:ParseException:<file>:<line>:<text>,
 * E:FileIOException, E:bad_alloc, E:unknown.
 * Settings are addressed by index path from the root ("/", "/0/3/1"); the harness reaches them
 * with Config::getRoot() and Setting::operator[](int) only.
 *
 * Wrapper life time: operator new/delete are replaced so that the harness knows which
 * allocations are live.  Around every operation the set of Setting wrappers hanging on the
 * tree (the hook pointers) is recorded; a wrapper whose setting disappeared must have been
 * deleted (else WRAPPER-LEAK), a wrapper still attached must be live (else WRAPPER-DANGLING).
 * ASan/LSan additionally see double frees and leaks.
 *
 * usage: drv_cpp <scratch-dir>     link with -Wl,--wrap=malloc,--wrap=calloc,--wrap=realloc,--wrap=strdup
 */
#ifndef _GNU_SOURCE
#define _GNU_SOURCE
#endif
#include <stdio.h>
#include <stdlib.h>
#include <string.h>
#include <stdint.h>
#include <limits.h>
#include <math.h>
#include <unistd.h>
#include <signal.h>
#include <sys/stat.h>
#include <sys/wait.h>
#include <exception>
#include <new>
#include <string>
#include <sstream>
#include <vector>
#include <algorithm>

#define private public
#define protected public
#include "libconfig.h++"
#undef private
#undef protected
#include "libconfig.h"

using namespace libconfig;

/* ------------------------------------------------------------------ allocation interposition */

static int in_lib = 0; static long counter = 0, fail_at = -1;
extern "C" {
/* resolved by -Wl,--wrap=...; when the harness is linked without the flags (tools/replay.py) they stay
   null, the library's C allocations are then not interposed and only operator new can be failed */
void *__real_malloc(size_t) __attribute__((weak)); void *__real_calloc(size_t, size_t) __attribute__((weak));
void *__real_realloc(void *, size_t) __attribute__((weak)); char *__real_strdup(const char *) __attribute__((weak));
#define HIT() (in_lib && counter++ == fail_at)
void *__wrap_malloc(size_t n) { if (HIT()) return NULL; return __real_malloc(n); }
void *__wrap_calloc(size_t a, size_t b) { if (HIT()) return NULL; return __real_calloc(a, b); }
void *__wrap_realloc(void *p, size_t n) { if (HIT()) return NULL; return __real_realloc(p, n); }
char *__wrap_strdup(const char *s) { if (HIT()) return NULL; return __real_strdup(s); }
}
static void *raw_malloc(size_t n) { return __real_malloc ? __real_malloc(n) : malloc(n); }
static void *raw_calloc(size_t a, size_t b) { return __real_calloc ? __real_calloc(a, b) : calloc(a, b); }

/* registry of live operator-new blocks: open addressing, never allocates through operator new */
struct Ent { void *p; unsigned long serial; };
static Ent *reg = NULL; static size_t regcap = 0, regused = 0; static unsigned long next_serial = 1;
#define TOMB ((void *)1)
static void reg_grow(void)
{
  size_t ncap = regcap ? regcap * 2 : 4096, i; Ent *old = reg; size_t ocap = regcap;
  size_t live = 0;
  for (i = 0; i < ocap; i++) if (old[i].p && old[i].p != TOMB) live++;
  if (regcap && live * 4 < regcap) ncap = regcap;          /* mostly tombstones: rehash in place size */
  reg = (Ent *)raw_calloc(ncap, sizeof(Ent)); regcap = ncap; regused = 0;
  for (i = 0; i < ocap; i++)
    if (old[i].p && old[i].p != TOMB) {
      size_t h = ((uintptr_t)old[i].p >> 4) % regcap;
      while (reg[h].p) h = (h + 1) % regcap;
      reg[h] = old[i]; regused++;
    }
  free(old);
}
static void reg_add(void *p)
{
  size_t h;
  if ((regused + 1) * 2 > regcap) reg_grow();
  h = ((uintptr_t)p >> 4) % regcap;
  while (reg[h].p && reg[h].p != TOMB) h = (h + 1) % regcap;
  if (!reg[h].p) regused++;
  reg[h].p = p; reg[h].serial = next_serial++;
}
static Ent *reg_find(void *p)
{
  size_t h, n;
  if (!regcap) return NULL;
  h = ((uintptr_t)p >> 4) % regcap;
  for (n = 0; n < regcap && reg[h].p; n++, h = (h + 1) % regcap) if (reg[h].p == p) return &reg[h];
  return NULL;
}
static void reg_del(void *p) { Ent *e = reg_find(p); if (e) e->p = TOMB; }

void *operator new(size_t n)
{
  void *p = HIT() ? NULL : raw_malloc(n ? n : 1);
  if (!p) throw std::bad_alloc();
  reg_add(p);
  return p;
}
void *operator new[](size_t n) { return operator new(n); }
void operator delete(void *p) noexcept { if (p) { reg_del(p); free(p); } }
void operator delete[](void *p) noexcept { operator delete(p); }
void operator delete(void *p, size_t) noexcept { operator delete(p); }
void operator delete[](void *p, size_t) noexcept { operator delete(p); }

/* ------------------------------------------------------------------ helpers */

static Config *cfg = NULL;

/* A user's subclass that overrides the virtual include hook (Config::evaluateIncludePath) with the harness's multi-path
 * function - the same function drv_api.c installs through config_set_include_func (id 1; includeFnEval in the model):
 * the path is split at '|', a leading '!' reports an error, a leading '?' returns NULL without error, "" gives no file. */
class MultiConfig : public Config
{
 protected:
  virtual const char **evaluateIncludePath(const char *path, const char **error)
  {
    const char *dir = getIncludeDir(); const char **files; int n = 0, cap = 4;
    *error = NULL;
    if (path[0] == '!') { *error = "custom include error"; return NULL; }
    if (path[0] == '?') return NULL;
    files = (const char **)malloc(sizeof(char *) * cap);
    if (path[0]) {
      const char *p = path;
      for (;;) {
        const char *q = strchr(p, '|'); size_t len = q ? (size_t)(q - p) : strlen(p); char *f;
        if (dir && !(len > 0 && p[0] == '/')) { f = (char *)malloc(strlen(dir) + len + 2); sprintf(f, "%s/%.*s", dir, (int)len, p); }
        else { f = (char *)malloc(len + 1); memcpy(f, p, len); f[len] = 0; }
        if (n + 2 > cap) { cap *= 2; files = (const char **)realloc(files, sizeof(char *) * cap); }
        files[n++] = f;
        if (!q) break;
        p = q + 1;
      }
    }
    files[n] = NULL;
    return files;
  }
};
static int use_str = 0;      /* call the std::string overloads where they exist */

static char *unhex(const char *s, size_t *lenp)
{
  size_t n; char *r;
  if (!strcmp(s, "-")) { if (lenp) *lenp = 0; return NULL; }
  if (!strcmp(s, "=")) { if (lenp) *lenp = 0; return strdup(""); }
  n = strlen(s) / 2; r = (char *)malloc(n + 1);
  for (size_t i = 0; i < n; i++) { unsigned v; sscanf(s + 2 * i, "%2x", &v); r[i] = (char)v; }
  r[n] = 0; if (lenp) *lenp = n; return r;
}
static void puthex(const char *s)
{
  if (!s) { fputs("-", stdout); return; }
  if (!*s) { fputs("=", stdout); return; }
  for (; *s; s++) printf("%02x", (unsigned char)*s);
}
static void puthexn(const char *s, size_t n)
{
  if (n == 0) { fputs("=", stdout); return; }
  for (size_t i = 0; i < n; i++) printf("%02x", (unsigned char)s[i]);
}
static void putdbl(double d) { uint64_t u; memcpy(&u, &d, 8); printf("%016llx", (unsigned long long)u); }
static double getdbl(const char *h) { uint64_t u = strtoull(h, NULL, 16); double d; memcpy(&d, &u, 8); return d; }

static config_setting_t *c_at(const char *p)
{
  config_setting_t *s = config_root_setting(cfg->_config);
  if (!strcmp(p, "/")) return s;
  if (*p != '/') return NULL;
  while (*p == '/' && s) { char *e; unsigned long i = strtoul(p + 1, &e, 10); if (e == p + 1) return NULL; s = config_setting_get_elem(s, (unsigned)i); p = e; }
  return *p ? NULL : s;
}
/* the same walk through the C++ API (wraps every setting on the way) */
static Setting &cpp_at(const char *p)
{
  Setting *s = &cfg->getRoot();
  if (!strcmp(p, "/")) return *s;
  while (*p == '/') { char *e; unsigned long i = strtoul(p + 1, &e, 10); s = &(*s)[(int)i]; p = e; }
  return *s;
}
static void putpath_rec(const config_setting_t *s)
{
  if (config_setting_is_root(s)) return;
  putpath_rec(config_setting_parent(s));
  printf("/%d", config_setting_index(s));
}
static void putpath(const config_setting_t *s)
{
  if (!s) { fputs("null", stdout); return; }
  if (config_setting_is_root(s)) { fputs("/", stdout); return; }
  putpath_rec(s);
}
/* the documented path text, built by the harness from the C API only */
static void cpath_rec(const config_setting_t *s, std::string &out)
{
  char tmp[32];
  if (config_setting_is_root(s)) return;
  cpath_rec(config_setting_parent(s), out);
  if (!out.empty()) out += '.';
  if (config_setting_name(s)) out += config_setting_name(s);
  else { snprintf(tmp, sizeof tmp, "[%d]", config_setting_index(s)); out += tmp; }
}

static void dump(const config_setting_t *s)
{
  printf("("); puthex(s->name); printf(",%d,%d,", s->type, s->format);
  switch (s->type) {
    case CONFIG_TYPE_INT: case CONFIG_TYPE_BOOL: printf("%d", s->value.ival); break;
    case CONFIG_TYPE_INT64: printf("%lld", s->value.llval); break;
    case CONFIG_TYPE_FLOAT: putdbl(s->value.fval); break;
    case CONFIG_TYPE_STRING: puthex(s->value.sval); break;
    case CONFIG_TYPE_GROUP: case CONFIG_TYPE_ARRAY: case CONFIG_TYPE_LIST: {
      int n = config_setting_length(s);
      printf("[");
      for (int i = 0; i < n; i++) { if (i) printf(","); dump(config_setting_get_elem(s, i)); }
      printf("]"); break; }
    default: printf("-");
  }
  printf(",%d,%u,", s->hook ? 1 : 0, s->line); puthex(s->file); printf(")");
}

static int autoc(void) { return config_get_auto_convert(cfg->_config); }
static int f_unspec32(double d) { return !(d > -2147483649.0 && d < 2147483648.0); }
static int f_unspec64(double d) { return !(d >= -9223372036854775808.0 && d < 9223372036854775808.0); }

/* what the C getters say about a setting: <path> <type> <auto> <get_int> <get_int64> <get_float> <get_bool> <get_string> */
static void cview(const config_setting_t *s)
{
  if (!s) { printf("null"); return; }
  putpath(s); printf(" %d %d ", s->type, autoc());
  if (s->type == CONFIG_TYPE_FLOAT && autoc() && f_unspec32(s->value.fval)) printf("unspec"); else printf("%d", config_setting_get_int(s));
  printf(" ");
  if (s->type == CONFIG_TYPE_FLOAT && autoc() && f_unspec64(s->value.fval)) printf("unspec"); else printf("%lld", config_setting_get_int64(s));
  printf(" "); putdbl(config_setting_get_float(s)); printf(" %d ", config_setting_get_bool(s)); puthex(config_setting_get_string(s));
}

/* ------------------------------------------------------------------ exceptions */

static void sexc(const char *cls, const SettingException &e)
{
  printf("E:%s:", cls); puthex(e.getPath());
  if (strcmp(e.what(), cls)) printf("!what=%s", e.what());
}
static void put_exc(void)
{
  try { throw; }
  catch (const SettingNotFoundException &e) { sexc("SettingNotFoundException", e); }
  catch (const SettingTypeException &e) { sexc("SettingTypeException", e); }
  catch (const SettingRangeException &e) { sexc("SettingRangeException", e); }
  catch (const SettingNameException &e) { sexc("SettingNameException", e); }
  catch (const SettingException &e) { sexc("SettingException", e); }
  catch (const ParseException &e) {
    printf("E:ParseException:"); puthex(e.getFile()); printf(":%d:", e.getLine()); puthex(e.getError());
    if (strcmp(e.what(), "ParseException")) printf("!what=%s", e.what());
  }
  catch (const FileIOException &e) { printf("E:FileIOException"); if (strcmp(e.what(), "FileIOException")) printf("!what=%s", e.what()); }
  catch (const ConfigException &) { printf("E:ConfigException"); }
  catch (const std::bad_alloc &) { printf("E:bad_alloc"); }
  catch (...) { printf("E:unknown"); }
}

/* ------------------------------------------------------------------ wrapper ledger */

struct Hk { void *p; unsigned long serial; int live; };
static void collect_hooks(const config_setting_t *s, std::vector<Hk> &out)
{
  int n = config_setting_length(s);
  if (s->hook) { Ent *e = reg_find(s->hook); Hk h = { s->hook, e ? e->serial : 0, e != NULL }; out.push_back(h); }
  for (int i = 0; i < n; i++) collect_hooks(config_setting_get_elem(s, i), out);
}
static bool hk_less(const Hk &a, const Hk &b) { return a.p < b.p; }

/* ------------------------------------------------------------------ typed lookupValue with sentinels */

enum { K_BOOL, K_INT, K_UINT, K_LONG, K_ULONG, K_INT64, K_UINT64, K_DOUBLE, K_FLOAT, K_CSTR, K_STRING, K_BAD };
static int kind_of(const char *k)
{
  static const char *names[] = { "bool", "int", "uint", "long", "ulong", "int64", "uint64", "double", "float", "cstr", "string" };
  for (int i = 0; i < K_BAD; i++) if (!strcmp(k, names[i])) return i;
  return K_BAD;
}
static int kind_is32(int k) { return k == K_INT || k == K_UINT; }
static int kind_is64(int k) { return k == K_LONG || k == K_ULONG || k == K_INT64 || k == K_UINT64; }
static int cast_unspec(int k, const config_setting_t *m)
{
  if (!m || m->type != CONFIG_TYPE_FLOAT || !autoc()) return 0;
  return (kind_is32(k) && f_unspec32(m->value.fval)) || (kind_is64(k) && f_unspec64(m->value.fval));
}

/* one lookupValue call of the right overload; `byname`: Setting::lookupValue(name) on `s`, else Config::lookupValue(path) */
template <class T> static bool lv(int byname, Setting *s, const char *key, T &v)
{
  if (use_str && key) { std::string k(key); return byname ? s->lookupValue(k, v) : cfg->lookupValue(k, v); }
  return byname ? s->lookupValue(key, v) : cfg->lookupValue(key, v);
}
static const char SENT[] = "sentinel";
static void do_lookup_value(int k, int byname, Setting *s, const char *key)
{
  bool ok = false, touched = false;
  switch (k) {
    case K_BOOL: { bool a = true, b = false; ok = lv(byname, s, key, a); bool ok2 = lv(byname, s, key, b);
      if (ok != ok2) { printf("INCONSISTENT"); return; }
      if (!ok) touched = (a != true || b != false); else if (a != b) { printf("INCONSISTENT"); return; }
      if (ok) printf("1 %d", a ? 1 : 0); break; }
    case K_INT: { int v = 0x5a5a5a5a; ok = lv(byname, s, key, v); touched = v != 0x5a5a5a5a; if (ok) printf("1 %d", v); break; }
    case K_UINT: { unsigned v = 0x5a5a5a5au; ok = lv(byname, s, key, v); touched = v != 0x5a5a5a5au; if (ok) printf("1 %u", v); break; }
    case K_INT64: { long long v = 0x5a5a5a5a5a5a5a5aLL; ok = lv(byname, s, key, v); touched = v != 0x5a5a5a5a5a5a5a5aLL; if (ok) printf("1 %lld", v); break; }
    case K_UINT64: { unsigned long long v = 0x5a5a5a5a5a5a5a5aULL; ok = lv(byname, s, key, v); touched = v != 0x5a5a5a5a5a5a5a5aULL; if (ok) printf("1 %llu", v); break; }
    case K_DOUBLE: { double v = 1234.5; ok = lv(byname, s, key, v); touched = !(v == 1234.5); if (ok) { printf("1 "); putdbl(v); } break; }
    case K_FLOAT: { float v = 1234.5f; ok = lv(byname, s, key, v); touched = !(v == 1234.5f); if (ok) { printf("1 "); putdbl((double)v); } break; }
    case K_CSTR: { const char *v = SENT; ok = lv(byname, s, key, v); touched = v != SENT; if (ok) { printf("1 "); puthex(v); } break; }
    case K_STRING: {
      std::string v;                       /* default-initialised */
      std::string w(SENT);
      ok = lv(byname, s, key, v); bool ok2 = lv(byname, s, key, w);
      if (ok != ok2) { printf("INCONSISTENT"); return; }
      if (!ok) touched = !v.empty() || w != SENT; else if (v != w) { printf("INCONSISTENT"); return; }
      if (ok) { printf("1 "); puthexn(v.data(), v.size()); } break; }
    default: printf("bad-op"); return;
  }
  if (!ok) printf(touched ? "0 OUTPUT-TOUCHED" : "0");
}

static void do_cast(int k, Setting &s)
{
  switch (k) {
    case K_BOOL: printf("%d", (bool)s ? 1 : 0); break;
    case K_INT: printf("%d", (int)s); break;
    case K_UINT: printf("%u", (unsigned int)s); break;
    case K_LONG: printf("%ld", (long)s); break;
    case K_ULONG: printf("%lu", (unsigned long)s); break;
    case K_INT64: printf("%lld", (long long)s); break;
    case K_UINT64: printf("%llu", (unsigned long long)s); break;
    case K_DOUBLE: putdbl((double)s); break;
    case K_FLOAT: putdbl((double)(float)s); break;
    case K_CSTR: { const char *v = use_str ? s.c_str() : (const char *)s; puthex(v); break; }
    case K_STRING: { std::string v = (std::string)s; puthexn(v.data(), v.size()); break; }
    default: printf("bad-op");
  }
}

static Setting::Type type_arg(const char *w) { return (Setting::Type)atoi(w); }

/* ------------------------------------------------------------------ allocation-failure scenario (C13, C++ part) */

static const char *TEXT = "name = \"a string value that is longer than sixty-four bytes so that the string buffer has to grow at least once\";\n"
  "grp = { a = 1; b = 2.5; c = [1, 2, 3]; l = ( \"x\", { y = true; }, (1, 2) ); };\n"
  "k0=0;k1=1;k2=2;k3=3;k4=4;k5=5;k6=6;k7=7;k8=8;k9=9;k10=10;k11=11;k12=12;k13=13;k14=14;k15=15;k16=16;k17=17;\n";

static unsigned long digest(const config_setting_t *s, unsigned long h)
{
  int i, n;
  h = h * 1000003UL + s->type;
  if (s->name) for (const char *p = s->name; *p; p++) h = h * 131 + (unsigned char)*p;
  if (s->type == CONFIG_TYPE_STRING && s->value.sval) for (const char *p = s->value.sval; *p; p++) h = h * 137 + (unsigned char)*p;
  if (s->type == CONFIG_TYPE_INT || s->type == CONFIG_TYPE_BOOL) h = h * 31 + (unsigned)s->value.ival;
  if (s->type == CONFIG_TYPE_INT64) h = h * 31 + (unsigned long)s->value.llval;
  n = config_setting_length(s);
  for (i = 0; i < n; i++) h = digest(config_setting_get_elem(s, i), h * 7 + 1);
  return h;
}
static unsigned long hstr(unsigned long h, const char *s) { for (; s && *s; s++) h = h * 139 + (unsigned char)*s; return h * 3 + 1; }

/* every statement between in_lib = 1 and in_lib = 0 is a library call (or the evaluation of its arguments) */
static int long_paths = 0;   /* badalloc_long: exception paths longer than std::string's internal buffer */
static unsigned long scenario(Config **out)
{
  unsigned long h = 0; char name[16]; int i;
  in_lib = 1;
  Config *c = new Config();
  *out = c;
  c->readString(TEXT);
  Setting &r = c->getRoot();
  Setting &g = r.add("g", Setting::TypeGroup);
  for (i = 0; i < 20; i++) { snprintf(name, sizeof name, "m%d", i); g.add(name, Setting::TypeInt) = i; }
  Setting &a = r.add("arr", Setting::TypeArray);
  for (i = 0; i < 18; i++) a.add(Setting::TypeInt) = i;
  Setting &l = r.add("lst", Setting::TypeList);
  for (i = 0; i < 5; i++) l.add(Setting::TypeString) = "elem";
  try { r.lookup(long_paths ? "grp.this_is_a_long_missing_member_name.and_even_more_text_here" : "grp.nope"); } catch (const SettingNotFoundException &e) { h = hstr(h, e.getPath()); }
  try { int v = r["name"]; h += v; } catch (const SettingTypeException &e) { h = hstr(h, e.getPath()); }
  try { r["grp"]["l"][2].add("x", Setting::TypeInt); } catch (const SettingTypeException &e) { h = hstr(h, e.getPath()); }
  try { c->readString("a = 1;\nb = ;"); } catch (const ParseException &e) { h = hstr(h, e.getError()) + e.getLine(); }
  c->readString(TEXT);
  { std::string sv; if (c->lookupValue("name", sv)) h = hstr(h, sv.c_str()); }
  { const char *cs = NULL; if (c->lookupValue("grp.l.[0]", cs)) h = hstr(h, cs); }
  /* Setting::lookupValue, every overload, on children that have no wrapper yet (the tree was just re-read): an
   * allocation failure inside them is std::bad_alloc too, not "no such member" */
  { Setting &rr = c->getRoot(); Setting &gg = rr["grp"];
    int iv = 0; unsigned int uv = 0; long long lv = 0; unsigned long long ulv = 0; double dv = 0; float fv = 0; bool bv = false;
    std::string sv; const char *cs = NULL;
    if (gg.lookupValue("a", iv)) h += (unsigned long)iv;           if (gg.lookupValue("a", uv)) h += uv;
    if (gg.lookupValue("a", lv)) h += (unsigned long)lv;           if (gg.lookupValue("a", ulv)) h += (unsigned long)ulv;
    if (gg.lookupValue("b", dv)) h += (unsigned long)(dv * 10);    if (gg.lookupValue("b", fv)) h += (unsigned long)(fv * 10);
    if (rr.lookupValue("name", sv)) h = hstr(h, sv.c_str());       if (rr.lookupValue("name", cs)) h = hstr(h, cs);
    if (gg["l"][1].lookupValue("y", bv)) h += bv ? 7 : 3;
    if (!rr.lookupValue("k17", iv)) h += 1000003;                  if (rr.lookupValue("missing", iv)) h += 99;
    if (rr.exists("k16")) h += 5; }
  c->getRoot().remove("grp");
  in_lib = 0;
  h = digest(config_root_setting(c->_config), h);
  return h;
}

/* ------------------------------------------------------------------ main loop */

int main(int argc, char **argv)
{
  char *line = NULL; size_t cap = 0; ssize_t n;
  unsigned long base_digest = 0; int have_base = 0;
  if (argc > 1 && chdir(argv[1]) != 0) { perror("chdir"); return 2; }
  cfg = new Config();
  while ((n = getline(&line, &cap, stdin)) > 0) {
    char *w[8]; int nw = 0; char *tok, *save;
    while (n > 0 && (line[n - 1] == '\n' || line[n - 1] == '\r')) line[--n] = 0;
    for (tok = strtok_r(line, " ", &save); tok && nw < 8; tok = strtok_r(NULL, " ", &save)) w[nw++] = tok;
    if (nw == 0) continue;
#define OP(name, k) (!strcmp(w[0], name) && nw == (k))
#define COP(name, k) (nw == (k) + 1 && !strcmp(w[0], "cpp") && !strcmp(w[1], name))
    /* ---- ops shared with drv_api (file system, dump) ---- */
    if (OP("mkfile", 3)) {
      size_t len; char *p = unhex(w[1], NULL); char *c = unhex(w[2], &len); FILE *f;
      char *slash = strrchr(p, '/'); if (slash && slash != p) { *slash = 0; mkdir(p, 0777); *slash = '/'; }
      rmdir(p); f = fopen(p, "wb");
      if (f) { if (len) fwrite(c, 1, len, f); fclose(f); printf("ok"); } else printf("mkfile-failed");
      free(p); free(c);
    }
    else if (OP("mkdir", 2)) { char *p = unhex(w[1], NULL); unlink(p); mkdir(p, 0777); printf("ok"); free(p); }
    else if (OP("rmfile", 2)) { char *p = unhex(w[1], NULL); if (unlink(p) != 0) rmdir(p); printf("ok"); free(p); }
    else if (OP("cat", 2)) {
      char *p = unhex(w[1], NULL); FILE *f = fopen(p, "rb"); struct stat st;
      if (!f || fstat(fileno(f), &st) != 0 || S_ISDIR(st.st_mode)) printf("null");
      else { char *b = (char *)malloc(st.st_size + 1); size_t k = fread(b, 1, st.st_size, f); puthexn(b, k); free(b); }
      if (f) fclose(f);
      free(p);
    }
    else if (OP("dump", 1)) {
      config_t *c = cfg->_config; const char **f;
      printf("cfg opts=%u tab=%d prec=%d dfmt=%d incdir=", (unsigned)config_get_options(c), config_get_tab_width(c), config_get_float_precision(c), config_get_default_format(c));
      puthex(config_get_include_dir(c)); printf(" dtor=%d hook=%d files=[", c->destructor ? 1 : 0, config_get_hook(c) ? 1 : 0);
      for (f = c->filenames; f && *f; f++) { if (f != c->filenames) printf(","); puthex(*f); }
      printf("] root="); dump(config_root_setting(c));
    }
    else if (COP("badalloc", 3) || COP("badalloc_long", 3)) {
      long k = atol(w[2]);
      long_paths = !strcmp(w[1], "badalloc_long");
      if (k < 0) {
        Config *sc = NULL;
        counter = 0; fail_at = -1;
        base_digest = scenario(&sc); have_base = 1;
        delete sc;
        printf("count %ld", counter);
      } else {
        pid_t pid; int st;
        fflush(stdout);
        pid = fork();
        if (pid == 0) {
          const char *res; Config *sc = NULL;
          counter = 0; fail_at = k;
          try { unsigned long h = scenario(&sc); res = (have_base && h == base_digest) ? "normal-same" : "normal-diff"; }
          catch (const std::bad_alloc &) { in_lib = 0; res = "bad_alloc"; }
          catch (const std::exception &e) { in_lib = 0; res = "other-exception"; }
          catch (...) { in_lib = 0; res = "unknown-exception"; }
          fputs(res, stdout); fflush(stdout);
          _exit(0);
        }
        waitpid(pid, &st, 0);
        if (WIFSIGNALED(st)) printf("crash %d", WTERMSIG(st));
        else if (WEXITSTATUS(st) != 0) printf("crash exit%d", WEXITSTATUS(st));
      }
    }
    else if (nw >= 2 && !strcmp(w[0], "cpp")) {
      /* ---- C++ operations ---- */
      std::vector<Hk> h0, h1;
      int show_freed = 0;                 /* append " freed <n>" */
      enum { C_NONE, C_ERR, C_ERRTYPE, C_PATH, C_VIEW, C_LEN, C_TEXT, C_INT, C_STR, C_INFO, C_CPATH } cmode = C_NONE;
      const config_setting_t *c_set = NULL, *c_this = NULL; long long c_int = 0; const char *c_str = NULL; std::string c_text;
      char *a1 = NULL, *a2 = NULL;        /* decoded arguments, freed at the end */
      int bad = 0;
      collect_hooks(config_root_setting(cfg->_config), h0);
      try {
        config_t *c = cfg->_config;
        if (COP("init", 1)) { show_freed = 1; delete cfg; cfg = NULL; cfg = new Config(); printf("ok"); }
        else if (COP("init_multi", 1)) { show_freed = 1; delete cfg; cfg = NULL; cfg = new MultiConfig(); printf("ok"); }
        else if (COP("overloads", 2)) { use_str = atoi(w[2]); printf("ok"); }
        else if (COP("clear", 1)) { show_freed = 1; cfg->clear(); printf("ok"); }
        else if (COP("read_string", 2)) {
          a1 = unhex(w[2], NULL); show_freed = 1; cmode = C_ERR;
          if (use_str) cfg->readString(std::string(a1 ? a1 : "")); else cfg->readString(a1 ? a1 : "");
          printf("ok");
        }
        else if (COP("read_string_ioerr", 3)) {
          /* a text that includes a file which opens but cannot be read; w[2] names it for the model only */
          a1 = unhex(w[3], NULL); show_freed = 1; cmode = C_ERR;
          cfg->readString(a1 ? a1 : "");
          printf("ok");
        }
        else if (COP("read_stream", 2)) {
          size_t len; a1 = unhex(w[2], &len); show_freed = 1; cmode = C_ERR;
          FILE *f = len ? fmemopen(a1, len, "r") : fopen("/dev/null", "r");
          try { cfg->read(f); } catch (...) { fclose(f); throw; }
          fclose(f); printf("ok");
        }
        else if (COP("read_file", 2)) {
          a1 = unhex(w[2], NULL); show_freed = 1; cmode = C_ERR;
          if (!a1) bad = 1;
          else { if (use_str) cfg->readFile(std::string(a1)); else cfg->readFile(a1); printf("ok"); }
        }
        else if (COP("write_file", 2)) {
          a1 = unhex(w[2], NULL); cmode = C_ERRTYPE;
          if (!a1) bad = 1;
          else { if (use_str) cfg->writeFile(std::string(a1)); else cfg->writeFile(a1); printf("ok"); }
        }
        else if (COP("write", 1)) {
          char *buf = NULL; size_t len = 0; FILE *m = open_memstream(&buf, &len);
          cfg->write(m); fclose(m); puthexn(buf, len); free(buf);
          buf = NULL; len = 0; m = open_memstream(&buf, &len); config_write(c, m); fclose(m); c_text.assign(buf, len); free(buf); cmode = C_TEXT;
        }
        else if (COP("clookup", 2)) {
          a1 = unhex(w[2], NULL);
          if (!a1) bad = 1;
          else { cmode = C_PATH; c_set = config_lookup(c, a1); Setting &r = use_str ? cfg->lookup(std::string(a1)) : cfg->lookup(a1); putpath(r._setting); }
        }
        else if (COP("cexists", 2)) {
          a1 = unhex(w[2], NULL);
          if (!a1) bad = 1;
          else { cmode = C_PATH; c_set = config_lookup(c, a1); printf("%d", (use_str ? cfg->exists(std::string(a1)) : cfg->exists(a1)) ? 1 : 0); }
        }
        else if (COP("clookup_value", 3)) {
          int k = kind_of(w[2]); a1 = unhex(w[3], NULL);
          if (!a1 || k == K_BAD || k == K_LONG || k == K_ULONG) bad = 1;
          else {
            cmode = C_VIEW; c_set = config_lookup(c, a1);
            if (cast_unspec(k, c_set)) printf("unspec"); else do_lookup_value(k, 0, NULL, a1);
          }
        }
        else if (COP("get_root", 1)) { cmode = C_PATH; c_set = config_root_setting(c); putpath(cfg->getRoot()._setting); }
        else if (COP("set_options", 2)) { cfg->setOptions((int)strtoul(w[2], NULL, 10)); printf("ok"); cmode = C_INT; c_int = (unsigned)config_get_options(c); }
        else if (COP("get_options", 1)) { printf("%u", (unsigned)cfg->getOptions()); cmode = C_INT; c_int = (unsigned)config_get_options(c); }
        else if (COP("set_option", 3)) { int o = atoi(w[2]); cfg->setOption((Config::Option)o, atoi(w[3]) != 0); printf("ok"); cmode = C_INT; c_int = config_get_option(c, o); }
        else if (COP("get_option", 2)) { int o = atoi(w[2]); printf("%d", cfg->getOption((Config::Option)o) ? 1 : 0); cmode = C_INT; c_int = config_get_option(c, o); }
        else if (COP("set_auto_convert", 2)) { cfg->setAutoConvert(atoi(w[2]) != 0); printf("ok"); cmode = C_INT; c_int = config_get_auto_convert(c); }
        else if (COP("get_auto_convert", 1)) { printf("%d", cfg->getAutoConvert() ? 1 : 0); cmode = C_INT; c_int = config_get_auto_convert(c); }
        else if (COP("set_tab_width", 2)) { cfg->setTabWidth((unsigned short)atoi(w[2])); printf("ok"); cmode = C_INT; c_int = config_get_tab_width(c); }
        else if (COP("get_tab_width", 1)) { printf("%d", cfg->getTabWidth()); cmode = C_INT; c_int = config_get_tab_width(c); }
        else if (COP("set_float_precision", 2)) { cfg->setFloatPrecision((unsigned short)atoi(w[2])); printf("ok"); cmode = C_INT; c_int = config_get_float_precision(c); }
        else if (COP("get_float_precision", 1)) { printf("%d", cfg->getFloatPrecision()); cmode = C_INT; c_int = config_get_float_precision(c); }
        else if (COP("set_default_format", 2)) { cfg->setDefaultFormat((Setting::Format)atoi(w[2])); printf("ok"); cmode = C_INT; c_int = config_get_default_format(c); }
        else if (COP("get_default_format", 1)) { printf("%d", (int)cfg->getDefaultFormat()); cmode = C_INT; c_int = config_get_default_format(c); }
        else if (COP("set_include_dir", 2)) { a1 = unhex(w[2], NULL); cfg->setIncludeDir(a1); if (a1) memset(a1, 'Z', strlen(a1)); printf("ok"); cmode = C_STR; c_str = config_get_include_dir(c); }
        else if (COP("get_include_dir", 1)) { puthex(cfg->getIncludeDir()); cmode = C_STR; c_str = config_get_include_dir(c); }
        else if (COP("wrappers", 1)) {
          int live = 0; for (size_t i = 0; i < h0.size(); i++) live += h0[i].live;
          printf("%d", live); cmode = C_INT; c_int = (long long)h0.size();
        }
        else {
          /* ---- Setting operations: cpp <op> [kind] <path> args ---- */
          const char *op = w[1];
          int has_kind = !strcmp(op, "cast") || !strcmp(op, "assign") || !strcmp(op, "lookup_value");
          const char *pth = nw > (has_kind ? 3 : 2) ? w[has_kind ? 3 : 2] : NULL;
          config_setting_t *cs = pth ? c_at(pth) : NULL;
          char **arg = w + (has_kind ? 4 : 3); int na = nw - (has_kind ? 4 : 3);
          c_this = cs;
          if (!cs) bad = 1;
          else if (!strcmp(op, "cast") && na == 0) {
            int k = kind_of(w[2]);
            if (k == K_BAD) bad = 1;
            else { Setting &s = cpp_at(pth); cmode = C_VIEW; c_set = cs; if (cast_unspec(k, cs)) printf("unspec"); else do_cast(k, s); }
          }
          else if (!strcmp(op, "assign") && na == 1) {
            int k = kind_of(w[2]);
            if (!(k == K_BOOL || k == K_INT || k == K_LONG || k == K_INT64 || k == K_DOUBLE || k == K_FLOAT || k == K_CSTR || (k == K_STRING && strcmp(arg[0], "-")))) bad = 1;
            else {
              Setting &s = cpp_at(pth);
              cmode = C_VIEW; c_set = cs;
              if (k == K_BOOL) { s = (atoi(arg[0]) != 0); printf("ok"); }
              else if (k == K_INT) { s = (int)atoll(arg[0]); printf("ok"); }
              else if (k == K_LONG) { s = (long)atoll(arg[0]); printf("ok"); }
              else if (k == K_INT64) { long long v = atoll(arg[0]); s = v; printf("ok"); }
              else if (k == K_DOUBLE || k == K_FLOAT) {
                double d = getdbl(arg[0]); float f = (float)d;
                if (k == K_FLOAT) d = (double)f;
                if (autoc() && ((cs->type == CONFIG_TYPE_INT && f_unspec32(d)) || (cs->type == CONFIG_TYPE_INT64 && f_unspec64(d)))) printf("unspec");
                else { if (k == K_FLOAT) s = f; else s = d; printf("ok"); }
              }
              else if (k == K_CSTR) { a1 = unhex(arg[0], NULL); s = (const char *)a1; if (a1) memset(a1, 'Z', strlen(a1)); printf("ok"); }
              else { a1 = unhex(arg[0], NULL); std::string v(a1); s = v; printf("ok"); }
            }
          }
          else if (!strcmp(op, "lookup") && na == 1) {
            a1 = unhex(arg[0], NULL);
            if (!a1) bad = 1;
            else {
              Setting &s = cpp_at(pth); cmode = C_PATH; c_set = config_setting_lookup(cs, a1);
              Setting &r = use_str ? s.lookup(std::string(a1)) : s.lookup(a1); putpath(r._setting);
            }
          }
          else if (!strcmp(op, "member") && na == 1) {
            a1 = unhex(arg[0], NULL);
            Setting &s = cpp_at(pth); cmode = C_PATH; c_set = config_setting_get_member(cs, a1);
            Setting &r = (use_str && a1) ? s[std::string(a1)] : s[(const char *)a1]; putpath(r._setting);
          }
          else if (!strcmp(op, "elem") && na == 1) {
            int i = (int)atoll(arg[0]);
            Setting &s = cpp_at(pth); cmode = C_PATH; c_set = config_setting_get_elem(cs, (unsigned)i);
            Setting &r = s[i]; putpath(r._setting);
          }
          else if (!strcmp(op, "lookup_value") && na == 1) {
            int k = kind_of(w[2]); a1 = unhex(arg[0], NULL);
            if (k == K_BAD || k == K_LONG || k == K_ULONG) bad = 1;
            else {
              Setting &s = cpp_at(pth); cmode = C_VIEW; c_set = config_setting_get_member(cs, a1);
              if (cast_unspec(k, c_set)) printf("unspec"); else do_lookup_value(k, 1, &s, a1);
            }
          }
          else if (!strcmp(op, "exists") && na == 1) {
            a1 = unhex(arg[0], NULL);
            Setting &s = cpp_at(pth); cmode = C_PATH; c_set = config_setting_get_member(cs, a1);
            printf("%d", ((use_str && a1) ? s.exists(std::string(a1)) : s.exists((const char *)a1)) ? 1 : 0);
          }
          else if (!strcmp(op, "add") && na == 2) {
            a1 = unhex(arg[0], NULL); show_freed = 1;
            Setting &s = cpp_at(pth); cmode = C_LEN; c_set = cs;
            Setting &r = (use_str && a1) ? s.add(std::string(a1), type_arg(arg[1])) : s.add((const char *)a1, type_arg(arg[1]));
            putpath(r._setting);
          }
          else if (!strcmp(op, "add_elem") && na == 1) {
            show_freed = 1;
            Setting &s = cpp_at(pth); cmode = C_LEN; c_set = cs;
            Setting &r = s.add(type_arg(arg[0])); putpath(r._setting);
          }
          else if (!strcmp(op, "remove") && na == 1) {
            a1 = unhex(arg[0], NULL); show_freed = 1;
            Setting &s = cpp_at(pth); cmode = C_LEN; c_set = cs;
            if (use_str && a1) s.remove(std::string(a1)); else s.remove((const char *)a1);
            printf("ok");
          }
          else if (!strcmp(op, "remove_idx") && na == 1) {
            show_freed = 1;
            Setting &s = cpp_at(pth); cmode = C_LEN; c_set = cs;
            s.remove((unsigned int)strtoul(arg[0], NULL, 10)); printf("ok");
          }
          else if (!strcmp(op, "info") && na == 0) {
            Setting &s = cpp_at(pth); cmode = C_INFO; c_set = cs;
            printf("%d ", s.getLength()); puthex(s.getName());
            printf(" %d %d %d %d %d %d %d %d %d %d %d %u ", s.getIndex(), (int)s.getType(), (int)s.getFormat(), s.isRoot() ? 1 : 0, s.isGroup() ? 1 : 0,
                   s.isArray() ? 1 : 0, s.isList() ? 1 : 0, s.isAggregate() ? 1 : 0, s.isScalar() ? 1 : 0, s.isNumber() ? 1 : 0, s.isString() ? 1 : 0, s.getSourceLine());
            puthex(s.getSourceFile());
          }
          else if (!strcmp(op, "get_path") && na == 0) {
            Setting &s = cpp_at(pth); cmode = C_CPATH; c_set = cs;
            std::string p = s.getPath(); puthexn(p.data(), p.size());
          }
          else if (!strcmp(op, "get_parent") && na == 0) {
            Setting &s = cpp_at(pth); cmode = C_PATH; c_set = config_setting_parent(cs);
            if (use_str) { const Setting &cs2 = s; putpath(cs2.getParent()._setting); } else putpath(s.getParent()._setting);
          }
          else if (!strcmp(op, "set_format") && na == 1) {
            Setting &s = cpp_at(pth); s.setFormat((Setting::Format)atoi(arg[0])); printf("ok");
            cmode = C_INT; c_int = config_setting_get_format(cs);
          }
          else if ((!strcmp(op, "iterate") || !strcmp(op, "citerate")) && na == 0) {
            Setting &s = cpp_at(pth); cmode = C_LEN; c_set = cs;
            std::vector<int> seen; int dist;
            /* every visit goes through an iterator that was first bound to ANOTHER aggregate (the root) and then
             * assigned; afterwards the rest of the iterator interface - decrement, post forms, arithmetic,
             * difference - must describe the same children (markers -3..-6 in the visit list otherwise) */
            if (!strcmp(op, "iterate")) {
              Setting &root = cfg->getRoot(); Setting::iterator it = root.begin();
              it = s.begin();
              for (; it != s.end(); ++it) {
                Setting &k = *it; int j, len = config_setting_length(cs);
                for (j = 0; j < len && config_setting_get_elem(cs, j) != k._setting; j++) ;
                seen.push_back(j < len ? j : -1);
                if (it->_setting != k._setting) seen.push_back(-2);
              }
              dist = s.end() - s.begin();
              { int len = config_setting_length(cs), n = len; Setting::iterator b = root.end(); b = s.end();
                while (b != s.begin()) { --b; --n; if (n < 0 || b->_setting != config_setting_get_elem(cs, n)) { seen.push_back(-3); break; } }
                if (n != 0 && n != -1) seen.push_back(-3);
                for (int q = 0; q < len; q++) {
                  Setting::iterator a = s.begin() + q, c = s.end() - (len - q), d = s.begin(); d += q;
                  if (a->_setting != config_setting_get_elem(cs, q) || c->_setting != a->_setting || d->_setting != a->_setting) { seen.push_back(-4); break; }
                  if ((a - s.begin()) != q || !(a == c) || (a != d)) { seen.push_back(-5); break; }
                  Setting::iterator e = a++; if (e->_setting != config_setting_get_elem(cs, q) || (a - s.begin()) != q + 1) { seen.push_back(-6); break; }
                  Setting::iterator f = a--; if ((f - s.begin()) != q + 1 || a->_setting != config_setting_get_elem(cs, q)) { seen.push_back(-6); break; }
                  /* SettingIterator::operator< is declared in libconfig.h++ but defined nowhere in the library: not used */
                }
              }
            } else {
              const Setting &cs2 = s; const Setting &croot = cfg->getRoot(); Setting::const_iterator it = croot.begin();
              it = cs2.begin();
              for (; it != cs2.end(); it++) {
                const Setting &k = *it; int j, len = config_setting_length(cs);
                for (j = 0; j < len && config_setting_get_elem(cs, j) != k._setting; j++) ;
                seen.push_back(j < len ? j : -1);
              }
              dist = cs2.end() - cs2.begin();
              { int len = config_setting_length(cs), n = len; Setting::const_iterator b = croot.end(); b = cs2.end();
                while (b != cs2.begin()) { --b; --n; if (n < 0 || b->_setting != config_setting_get_elem(cs, n)) { seen.push_back(-3); break; } }
                if (n != 0 && n != -1) seen.push_back(-3);
                for (int q = 0; q < len; q++) {
                  Setting::const_iterator a = cs2.begin() + q, c = cs2.end() - (len - q), d = cs2.begin(); d += q;
                  if (a->_setting != config_setting_get_elem(cs, q) || c->_setting != a->_setting || d->_setting != a->_setting) { seen.push_back(-4); break; }
                  if ((a - cs2.begin()) != q || !(a == c) || (a != d)) { seen.push_back(-5); break; }
                  Setting::const_iterator e = a++; if (e->_setting != config_setting_get_elem(cs, q) || (a - cs2.begin()) != q + 1) { seen.push_back(-6); break; }
                  Setting::const_iterator f = a--; if ((f - cs2.begin()) != q + 1 || a->_setting != config_setting_get_elem(cs, q)) { seen.push_back(-6); break; }
                }
              }
            }
            printf("iter ");
            if (seen.empty()) printf("-");
            for (size_t i = 0; i < seen.size(); i++) printf("%s%d", i ? "," : "", seen[i]);
            printf(" dist %d", dist);
          }
          else bad = 1;
        }
        if (bad) printf("bad-op");
      } catch (...) { put_exc(); }
      /* wrapper ledger */
      collect_hooks(config_root_setting(cfg->_config), h1);
      {
        std::vector<Hk> s1(h1); int freed = 0, leak = 0, dangling = 0;
        std::sort(s1.begin(), s1.end(), hk_less);
        for (size_t i = 0; i < h0.size(); i++) {
          Hk key = h0[i]; std::vector<Hk>::iterator it = std::lower_bound(s1.begin(), s1.end(), key, hk_less);
          if (it != s1.end() && it->p == key.p && it->serial == key.serial) continue;   /* still attached */
          freed++;
          { Ent *e = reg_find(key.p); if (e && e->serial == key.serial) leak++; }
        }
        for (size_t i = 0; i < h1.size(); i++) if (!h1[i].live) dangling++;
        if (show_freed && !bad) printf(" freed %d", freed);
        if (leak) printf(" WRAPPER-LEAK");
        if (dangling) printf(" WRAPPER-DANGLING");
      }
      if (!bad && cmode != C_NONE) {
        config_t *c = cfg->_config;
        printf(" | c ");
        /* for Setting operations: the documented path text of `this` (built from the C API) and its C type */
        if (c_this) { std::string p; cpath_rec(c_this, p); printf("@"); puthexn(p.data(), p.size()); printf(":%d ", config_setting_type(c_this)); }
        switch (cmode) {
          case C_ERR: printf("%d ", (int)config_error_type(c)); puthex(config_error_file(c)); printf(" %d ", config_error_line(c)); puthex(config_error_text(c)); break;
          case C_ERRTYPE: printf("%d", (int)config_error_type(c)); break;
          case C_PATH: putpath(c_set); break;
          case C_VIEW: cview(c_set); break;
          case C_LEN: printf("%d", config_setting_length(c_set)); break;
          case C_TEXT: puthexn(c_text.data(), c_text.size()); break;
          case C_INT: printf("%lld", c_int); break;
          case C_STR: puthex(c_str); break;
          case C_CPATH: { std::string p; cpath_rec(c_set, p); puthexn(p.data(), p.size()); break; }
          case C_INFO: {
            const config_setting_t *s = c_set;
            printf("%d ", config_setting_length(s)); puthex(config_setting_name(s));
            printf(" %d %d %d %d %d %d %d %d %d %d %d %u ", config_setting_index(s), config_setting_type(s), (int)config_setting_get_format(s), config_setting_is_root(s) ? 1 : 0,
                   config_setting_is_group(s) ? 1 : 0, config_setting_is_array(s) ? 1 : 0, config_setting_is_list(s) ? 1 : 0, config_setting_is_aggregate(s) ? 1 : 0,
                   config_setting_is_scalar(s) ? 1 : 0, config_setting_is_number(s) ? 1 : 0, config_setting_type(s) == CONFIG_TYPE_STRING ? 1 : 0, config_setting_source_line(s));
            puthex(config_setting_source_file(s)); break; }
          default: break;
        }
      }
      free(a1); free(a2);
    }
    else printf("bad-op");
    printf("\n");
    fflush(stdout);
  }
  fflush(stdout);
  delete cfg;
  free(line); free(reg);
  return 0;
}
