/* C13 harness: fail the k-th allocation requested by the library's own code, for every k.
 * malloc/calloc/realloc/strdup as called from the library objects are interposed (-Wl,--wrap);
 * only calls made while a library function is on the stack are counted.
 * line: alloccase <scenario> <k>      (k = -1: fault-free run, prints the number of allocations)
 * out:  count <N> <digest>  |  handler  |  normal-same | normal-diff | crash <signal>
 */
#define _GNU_SOURCE
#include <stdio.h>
#include <stdlib.h>
#include <string.h>
#include <unistd.h>
#include <signal.h>
#include <sys/wait.h>
#include <setjmp.h>
#include "libconfig.h"

static int in_lib = 0; static long counter = 0, fail_at = -1; static int handler_ran = 0;
void *__real_malloc(size_t); void *__real_calloc(size_t, size_t); void *__real_realloc(void *, size_t); char *__real_strdup(const char *);
#define HIT() (in_lib && counter++ == fail_at)
void *__wrap_malloc(size_t n) { if (HIT()) return NULL; return __real_malloc(n); }
void *__wrap_calloc(size_t a, size_t b) { if (HIT()) return NULL; return __real_calloc(a, b); }
void *__wrap_realloc(void *p, size_t n) { if (HIT()) return NULL; return __real_realloc(p, n); }
char *__wrap_strdup(const char *s) { if (HIT()) return NULL; return __real_strdup(s); }

static jmp_buf escape; static int use_longjmp = 0;
static void fatal(const char *msg)
{
  (void)msg; handler_ran++;
  if (use_longjmp) { in_lib = 0; longjmp(escape, 1); }      /* a handler that does not return, like the C++ API's throw */
  fputs("handler\n", stdout); fflush(stdout); _exit(0);
}

static unsigned long digest(const config_setting_t *s, unsigned long h)
{
  int i, n;
  h = h * 1000003UL + s->type;
  if (s->name) for (const char *p = s->name; *p; p++) h = h * 131 + (unsigned char)*p;
  if (s->type == CONFIG_TYPE_STRING && s->value.sval) for (const char *p = s->value.sval; *p; p++) h = h * 137 + (unsigned char)*p;
  if (s->type == CONFIG_TYPE_INT || s->type == CONFIG_TYPE_BOOL) h = h * 31 + (unsigned)s->value.ival;
  if (s->type == CONFIG_TYPE_INT64) h = h * 31 + (unsigned long)s->value.llval;
  n = config_setting_length(s);
  for (i = 0; i < n; i++) h = digest(config_setting_get_elem(s, i), h * 7 + 1);
  return h;
}

static const char *TEXT = "name = \"a string value that is longer than sixty-four bytes so that the string buffer has to grow at least once\";\n"
  "grp = { a = 1; b = 2.5; c = [1, 2, 3]; l = ( \"x\", { y = true; }, (1, 2) ); };\n@include \"alloc_inc.cfg\"\n"
  "k0=0;k1=1;k2=2;k3=3;k4=4;k5=5;k6=6;k7=7;k8=8;k9=9;k10=10;k11=11;k12=12;k13=13;k14=14;k15=15;k16=16;k17=17;\n"
  /* strings assembled from several pieces whose accumulated length crosses the 64-byte growth steps */
  "esc = \"aaaaaaaaaaaaaaaaaaaaaaaaaaaaaaaaaaaaaaaaaaaaaaaaaaaaaaaaaaaa\\nbbbbbbbbbbbbbbbbbbbbbbbbbbbbbbbbbbbbbbbbbbbbbbbbbbbbbbbbbbbbbbbbbbbbbbbbbbbbbbbbb\\tcccccccccccccccccccccccccccccccccccccccccccccccccccccccccccccccccccccccc\";\n"
  "cat = \"dddddddddddddddddddddddddddddddddddddddddddddddddd\" \"eeeeeeeeeeeeeeeeeeeeeeeeeeeeeeeeeeeeeeeeeeeeeeeeee\" \"ffffffffffffffffffffffffffffffffffffffffffffffffffffffffffffffffffffffff\";\n";

static unsigned long scenario(int sc, config_t *cfg)
{
  config_setting_t *r, *g, *a; int i; unsigned long h = 0; char name[16];
  in_lib = 1;
  config_init(cfg);
  switch (sc) {
    case 0: config_read_string(cfg, TEXT); break;
    case 1: config_read_file(cfg, "alloc_top.cfg"); break;
    case 2:
      r = config_root_setting(cfg);
      g = config_setting_add(r, "g", CONFIG_TYPE_GROUP);
      for (i = 0; i < 20; i++) { snprintf(name, sizeof name, "m%d", i); a = config_setting_add(g, name, CONFIG_TYPE_INT); if (a) config_setting_set_int(a, i); }
      a = config_setting_add(r, "arr", CONFIG_TYPE_ARRAY);
      for (i = 0; i < 18; i++) config_setting_set_int_elem(a, -1, i);
      a = config_setting_add(r, "lst", CONFIG_TYPE_LIST);
      for (i = 0; i < 5; i++) config_setting_set_string_elem(a, -1, "elem");
      break;
    case 3:
      r = config_root_setting(cfg); a = config_setting_add(r, "s", CONFIG_TYPE_STRING);
      config_setting_set_string(a, "first"); config_setting_set_string(a, "second value"); config_setting_set_string(a, NULL); config_setting_set_string(a, "third");
      break;
    case 4: config_set_include_dir(cfg, "some/dir"); config_set_include_dir(cfg, "other"); config_read_string(cfg, "@include \"alloc_inc.cfg\"\n"); break;
    case 5: {
      char *buf = NULL; size_t len = 0; FILE *m;
      config_read_string(cfg, TEXT);
      in_lib = 0; m = open_memstream(&buf, &len); in_lib = 1;
      config_write(cfg, m);
      in_lib = 0; fclose(m); for (size_t k = 0; k < len; k++) h = h * 33 + (unsigned char)buf[k]; free(buf); in_lib = 1;
      config_set_option(cfg, CONFIG_OPTION_ALLOW_OVERRIDES, 1);
      config_read_string(cfg, "a = 1; a = \"two\"; b = (1, (2, (3))); b = 4;");
      break; }
    case 6:
      /* removals across the chunk boundaries of the child vectors (49 -> 0 children: 48, 33, 32, 17, 16, 1), by name,
       * by index, from the front and from the back; every remaining API family once more on the shrunken tree */
      r = config_root_setting(cfg);
      g = config_setting_add(r, "g", CONFIG_TYPE_GROUP);
      for (i = 0; i < 49; i++) { snprintf(name, sizeof name, "m%d", i); config_setting_add(g, name, CONFIG_TYPE_INT); }
      a = config_setting_add(r, "lst", CONFIG_TYPE_LIST);
      for (i = 0; i < 34; i++) config_setting_set_int_elem(a, -1, i);
      for (i = 48; i >= 20; i--) { snprintf(name, sizeof name, "m%d", i); config_setting_remove(g, name); }
      for (i = 0; i < 20; i++) config_setting_remove_elem(g, 0);
      for (i = 0; i < 34; i++) config_setting_remove_elem(a, (unsigned)(i % 2 ? 0 : config_setting_length(a) - 1));
      config_setting_set_int_elem(a, -1, 7); config_setting_add(g, "again", CONFIG_TYPE_STRING);
      config_setting_remove(r, "lst"); config_setting_remove(r, "g");
      break;
  }
  in_lib = 0;
  if (config_include_dir_check(cfg)) h = h * 3 + 1;
  return digest(config_root_setting(cfg), h);
}

/* ---- hooks under an allocation failure with a handler that does not return (C16 x C13): whatever the failing call
 * had done when the handler jumped away, every hook ever attached is released exactly once by the time the
 * configuration has been destroyed ---- */
static int hk_released[16], hk_attached[16];
static void hk_destructor(void *h) { long id = (long)(size_t)h; if (id > 0 && id < 16) hk_released[id]++; }
static void hk_attach(config_setting_t *s, long id) { if (s) { config_setting_set_hook(s, (void *)(size_t)id); hk_attached[id] = 1; } }
static int hk_wf_bad;
static void hk_walk(const config_setting_t *s, const config_setting_t *parent)
{
  int n = config_setting_length(s), i;
  if (s->parent != parent) hk_wf_bad = 1;
  if (!config_setting_is_aggregate(s)) { if (n != 0) hk_wf_bad = 1; return; }
  for (i = 0; i < n; i++) {
    const config_setting_t *k = config_setting_get_elem(s, i);          /* reads elements[i]: ASan sees a length beyond the allocation */
    if (!k || config_setting_index(k) != i) { hk_wf_bad = 1; return; }
    if (s->type == CONFIG_TYPE_GROUP && (!k->name || config_setting_get_member(s, k->name) != k)) hk_wf_bad = 1;
    hk_walk(k, s);
  }
}
static long hooks_scenario(long k)
{
  config_t cfg; config_setting_t *r, *g, *l, *s; int i; long n = 0;
  memset(hk_released, 0, sizeof hk_released); memset(hk_attached, 0, sizeof hk_attached);
  in_lib = 0; fail_at = -1; use_longjmp = 1;
  config_init(&cfg); config_set_destructor(&cfg, hk_destructor); config_set_option(&cfg, CONFIG_OPTION_ALLOW_OVERRIDES, 1);
  r = config_root_setting(&cfg);
  hk_attach(config_setting_add(r, "a", CONFIG_TYPE_INT), 1); hk_attach(config_setting_add(r, "b", CONFIG_TYPE_STRING), 2);
  hk_attach(config_setting_add(r, "c", CONFIG_TYPE_INT), 3);
  g = config_setting_add(r, "g", CONFIG_TYPE_GROUP); hk_attach(g, 4);
  hk_attach(config_setting_add(g, "x", CONFIG_TYPE_INT), 5); hk_attach(config_setting_add(g, "y", CONFIG_TYPE_FLOAT), 6);
  l = config_setting_add(r, "l", CONFIG_TYPE_LIST); hk_attach(config_setting_add(l, NULL, CONFIG_TYPE_INT), 7);
  for (i = 0; i < 14; i++) config_setting_add(l, NULL, CONFIG_TYPE_INT);       /* the next additions cross a chunk boundary */
  if (setjmp(escape) == 0) {
    counter = 0; fail_at = k; in_lib = 1;
    s = config_setting_add(r, "a", CONFIG_TYPE_STRING);                        /* overrides a hooked member */
    in_lib = 0; hk_attach(s, 8); in_lib = 1;
    config_setting_add(g, "x", CONFIG_TYPE_GROUP);                             /* ... inside a group */
    config_setting_set_string_elem(l, -1, "tail"); config_setting_set_string_elem(l, -1, "tail2");
    config_setting_add(r, "g", CONFIG_TYPE_INT);                               /* overrides a hooked subtree */
    config_setting_remove(r, "c");
    config_read_string(&cfg, "b = 1; b = 2; n = (1, { m = 1; m = 2; });");     /* clears everything, overrides while parsing */
    in_lib = 0; n = counter;
  }
  in_lib = 0; fail_at = -1;
  hk_wf_bad = 0; hk_walk(config_root_setting(&cfg), NULL);               /* the tree an interrupted call leaves behind is well-formed */
  config_destroy(&cfg);
  return n;
}

int config_include_dir_check(config_t *cfg) { return config_get_include_dir(cfg) && !strcmp(config_get_include_dir(cfg), "other"); }

int main(int argc, char **argv)
{
  char *line = NULL; size_t cap = 0; ssize_t n; FILE *f;
  unsigned long base[8]; long counts[8]; int have[8] = {0};
  if (argc > 1 && chdir(argv[1]) != 0) { perror("chdir"); return 2; }
  f = fopen("alloc_inc.cfg", "w"); fputs("inc1 = \"included\";\ninc2 = ( 1, 2 );\n", f); fclose(f);
  f = fopen("alloc_top.cfg", "w"); fputs(TEXT, f); fclose(f);
  config_set_fatal_error_func(fatal);
  while ((n = getline(&line, &cap, stdin)) > 0) {
    int sc; long k;
    if (sscanf(line, "allocdouble %d %ld", &sc, &k) == 2 && sc >= 0 && sc <= 6) {
      /* two allocation failures in ONE process with a handler that does not return: both must reach the handler */
      pid_t pid; int st;
      fflush(stdout);
      pid = fork();
      if (pid == 0) {
        config_t cfg; volatile int round = 0;
        use_longjmp = 1; handler_ran = 0;
        if (setjmp(escape) == 0 || round < 2) {
          if (round < 2) { round++; counter = 0; fail_at = k; scenario(sc, &cfg); }
        }
        in_lib = 0;
        printf(handler_ran == 2 ? "handler handler\n" : (handler_ran == 1 ? "handler MISSING\n" : "MISSING\n")); fflush(stdout);
        _exit(0);
      }
      waitpid(pid, &st, 0);
      if (WIFSIGNALED(st)) printf("crash %d\n", WTERMSIG(st));
      else if (WEXITSTATUS(st) != 0) printf("crash exit%d\n", WEXITSTATUS(st));
      fflush(stdout);
      continue;
    }
    if (sscanf(line, "allochooks %ld", &k) == 1) {
      if (k < 0) { long n = hooks_scenario(-1); use_longjmp = 0; printf("count %ld\n", n); fflush(stdout); continue; }
      else {
        pid_t pid; int st;
        fflush(stdout);
        pid = fork();
        if (pid == 0) {
          int h, bad = 0;
          hooks_scenario(k);
          for (h = 1; h < 16; h++) if (hk_attached[h] && hk_released[h] != 1) { printf("hooks BAD hook=%d released=%d times\n", h, hk_released[h]); bad = 1; break; }
          if (!bad && hk_wf_bad) { printf("hooks BAD tree not well-formed after the interrupted call\n"); bad = 1; }
          if (!bad) printf("hooks ok\n");
          fflush(stdout); _exit(0);
        }
        waitpid(pid, &st, 0);
        if (WIFSIGNALED(st)) printf("crash %d\n", WTERMSIG(st));
        else if (WEXITSTATUS(st) != 0) printf("crash exit%d\n", WEXITSTATUS(st));
        fflush(stdout);
        continue;
      }
    }
    if (sscanf(line, "alloccase %d %ld", &sc, &k) != 2 || sc < 0 || sc > 6) { printf("bad-op\n"); fflush(stdout); continue; }
    if (k < 0) {
      config_t cfg; counter = 0; fail_at = -1;
      base[sc] = scenario(sc, &cfg); counts[sc] = counter; have[sc] = 1; config_destroy(&cfg);
      printf("count %ld\n", counts[sc]);
    } else {
      pid_t pid; int st;
      fflush(stdout);
      pid = fork();
      if (pid == 0) {
        config_t cfg; unsigned long h;
        counter = 0; fail_at = k;
        h = scenario(sc, &cfg);
        printf("%s\n", (have[sc] && h == base[sc]) ? "normal-same" : "normal-diff"); fflush(stdout);
        _exit(0);
      }
      waitpid(pid, &st, 0);
      if (WIFSIGNALED(st)) printf("crash %d\n", WTERMSIG(st));
      else if (WEXITSTATUS(st) != 0) printf("crash exit%d\n", WEXITSTATUS(st));
    }
    fflush(stdout);
  }
  free(line);
  return 0;
}
