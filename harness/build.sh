#!/bin/sh
# usage: build.sh <out-dir> <driver.c|driver.cc> [extra flags...]
# Compiles the library's translation units from /repo's working tree together with a
# harness driver, with the feature defines CMake derives, sanitizers on.
set -e
REPO=${VERIF_REPO:-/repo}
OUT=$1; DRV=$2; shift 2
HERE=$(cd "$(dirname "$0")" && pwd)
mkdir -p "$OUT"
DEFS="-DHAVE_USELOCALE -DHAVE_NEWLOCALE -DHAVE_FREELOCALE -DLIBCONFIG_STATIC -DLIBCONFIG_VERIF"
SAN=${VERIF_SAN:--fsanitize=address,undefined -fno-sanitize-recover=all}
CFLAGS="-O1 -g -w $SAN $DEFS -I$REPO/lib"
OBJS=""
for f in libconfig scanner grammar scanctx strbuf strvec util; do
  gcc $CFLAGS -c "$REPO/lib/$f.c" -o "$OUT/$f.o" &
  OBJS="$OBJS $OUT/$f.o"
done
wait
NAME=$(basename "$DRV" | sed 's/\.[a-z]*$//')
case "$DRV" in
  *.cc) g++ $CFLAGS -DLIBCONFIGXX_STATIC -c "$REPO/lib/libconfigcpp.c++" -o "$OUT/libconfigcpp.o"
        g++ $CFLAGS -DLIBCONFIGXX_STATIC "$HERE/$DRV" $OBJS "$OUT/libconfigcpp.o" "$@" -o "$OUT/$NAME" ;;
  *)    gcc $CFLAGS "$HERE/$DRV" $OBJS "$@" -lpthread -o "$OUT/$NAME" ;;
esac
echo "$OUT/$NAME"
