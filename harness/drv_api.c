/* Line-protocol harness: executes the operations of tools/gen_*.py on the real
 * library (compiled from /repo's working tree) and prints one canonical line per
 * operation.  The Lean driver (lean/Main.lean) prints the same lines from the
 * model; tools/check.py diffs the two streams.
 *
 * usage: drv_api <scratch-dir>      (files named by mkfile/mkdir live there)
 */
#define _GNU_SOURCE
#include <stdio.h>
#include <sys/stat.h>
#include <sys/wait.h>
#include <fcntl.h>
#include <signal.h>
#include <stdlib.h>
#include <string.h>
#include <errno.h>
#include <stdint.h>
#include <limits.h>
#include <math.h>
#include <unistd.h>
#include <sys/stat.h>
#include "libconfig.h"
#include "parsectx.h"
#include "scanctx.h"
#include "strbuf.h"
#include "strvec.h"
#include "grammar.h"
#include "scanner.h"

/* ---- BEGIN C03: traps and captures for "reading arbitrary bytes never kills the process" ----
 * - exit() called from library code is trapped (link with -Wl,--wrap=exit): the protocol line
 *   becomes "EXIT-CALLED <status>" and the process ends with status 77;
 * - whatever the library writes to stdout/stderr during a read is captured (the descriptors
 *   are pointed at scratch files for the duration of the call) and reported as
 *   "STRAY-STDOUT <hex>" / "STRAY-STDERR <hex>" after the result;
 * - every operation runs under alarm(): a hang becomes "TIMEOUT" and status 78;
 * - AddressSanitizer reports keep going to the original stderr (a UBSan report made while stderr
 *   is captured stays in the scratch file .c03-stderr, where tools/props_c03.py picks it up);
 * - with -fsanitize-coverage=trace-pc the basic blocks executed are counted (op "cov").
 */
#include <fcntl.h>
#include <signal.h>
int __lsan_do_recoverable_leak_check(void) __attribute__((weak));
void __sanitizer_set_report_fd(void *) __attribute__((weak));

static int c03_out = -1, c03_err = -1;          /* the real stdout / stderr */
static int c03_tmp_out = -1, c03_tmp_err = -1;  /* scratch files */
static int c03_capturing = 0;
static unsigned c03_deadline = 0;               /* seconds per operation; C03_ALARM overrides the defaults */
static char c03_stray[2][4096]; static size_t c03_stray_len[2];

static void c03_init(void)
{
  c03_out = dup(1); c03_err = dup(2);
  c03_tmp_out = open(".c03-stdout", O_RDWR | O_CREAT | O_TRUNC, 0600);
  c03_tmp_err = open(".c03-stderr", O_RDWR | O_CREAT | O_TRUNC, 0600);
  if (__sanitizer_set_report_fd) __sanitizer_set_report_fd((void *)(intptr_t)c03_err);
  if (getenv("C03_ALARM")) c03_deadline = (unsigned)atoi(getenv("C03_ALARM"));
}
static void cap_begin(void)
{
  if (c03_tmp_out < 0) return;
  fflush(stdout); fflush(stderr);
  if (ftruncate(c03_tmp_out, 0) != 0 || ftruncate(c03_tmp_err, 0) != 0) return;
  lseek(c03_tmp_out, 0, SEEK_SET); lseek(c03_tmp_err, 0, SEEK_SET);
  dup2(c03_tmp_out, 1); dup2(c03_tmp_err, 2);
  c03_capturing = 1;
}
static void cap_end(void)
{
  int k;
  if (!c03_capturing) return;
  fflush(stdout); fflush(stderr);
  dup2(c03_out, 1); dup2(c03_err, 2);
  c03_capturing = 0;
  for (k = 0; k < 2; k++) {
    int fd = k ? c03_tmp_err : c03_tmp_out; ssize_t n;
    lseek(fd, 0, SEEK_SET);
    n = read(fd, c03_stray[k], sizeof c03_stray[k]);
    c03_stray_len[k] = n > 0 ? (size_t)n : 0;
  }
}
/* appended to the result line of the operation that made the capture */
static void cap_report(void)
{
  int k;
  for (k = 0; k < 2; k++)
    if (c03_stray_len[k]) {
      size_t i;
      printf(" %s ", k ? "STRAY-STDERR" : "STRAY-STDOUT");
      for (i = 0; i < c03_stray_len[k]; i++) printf("%02x", (unsigned char)c03_stray[k][i]);
      c03_stray_len[k] = 0;
    }
}
void __wrap_exit(int status)
{
  if (c03_capturing) cap_end();
  printf("EXIT-CALLED %d", status); cap_report(); printf("\n"); fflush(stdout);
  _exit(77);
}
static void c03_alarm(int sig)
{
  static const char msg[] = "TIMEOUT\n";
  (void)sig;
  if (c03_capturing) { dup2(c03_out, 1); dup2(c03_err, 2); }
  if (write(1, msg, sizeof msg - 1) < 0) _exit(79);
  _exit(78);
}

static unsigned char c03_covmap[1 << 16]; static unsigned long c03_cov;
__attribute__((no_sanitize_coverage, no_sanitize("address", "undefined")))
void __sanitizer_cov_trace_pc(void)
{
  uintptr_t pc = (uintptr_t)__builtin_return_address(0);
  unsigned h = (unsigned)((pc * 0x9E3779B97F4A7C15ull) >> 45) & 0x7ffff;   /* 19 bits */
  if (!(c03_covmap[h >> 3] & (1u << (h & 7)))) { c03_covmap[h >> 3] |= (unsigned char)(1u << (h & 7)); c03_cov++; }
}

static uint64_t fnv1a(const char *p, size_t n)
{
  uint64_t h = 0xcbf29ce484222325ull; size_t i;
  for (i = 0; i < n; i++) { h ^= (unsigned char)p[i]; h *= 0x100000001b3ull; }
  return h;
}
/* ---- END C03 (support) ---- */

static config_t cfg;
static int dtor_on = 0;
static char *logbuf = NULL; static size_t loglen = 0, logcap = 0;

static void log_reset(void) { loglen = 0; if (logbuf) logbuf[0] = 0; }
static void log_add(unsigned long h)
{
  char tmp[32]; int n = snprintf(tmp, sizeof tmp, "%s%lu", loglen ? "," : "", h);
  if (loglen + n + 1 > logcap) { logcap = (loglen + n + 1) * 2; logbuf = realloc(logbuf, logcap); }
  memcpy(logbuf + loglen, tmp, n + 1); loglen += n;
}
static void destructor(void *hook) { log_add((unsigned long)(uintptr_t)hook); }
static const char *logstr(void) { return loglen ? logbuf : ""; }

/* ---- hex helpers: "-" = NULL, "=" = "", else hex ---- */
static char *unhex(const char *s, size_t *lenp)
{
  size_t n;
  char *r;
  if (!strcmp(s, "-")) { if (lenp) *lenp = 0; return NULL; }
  if (!strcmp(s, "=")) { if (lenp) *lenp = 0; return strdup(""); }
  n = strlen(s) / 2; r = malloc(n + 1);
  for (size_t i = 0; i < n; i++) { unsigned v; sscanf(s + 2 * i, "%2x", &v); r[i] = (char)v; }
  r[n] = 0; if (lenp) *lenp = n; return r;
}
static void puthex(const char *s)
{
  if (!s) { fputs("-", stdout); return; }
  if (!*s) { fputs("=", stdout); return; }
  for (; *s; s++) printf("%02x", (unsigned char)*s);
}
static void puthexn(const char *s, size_t n)
{
  if (n == 0) { fputs("=", stdout); return; }
  for (size_t i = 0; i < n; i++) printf("%02x", (unsigned char)s[i]);
}
static void putdbl(double d) { uint64_t u; memcpy(&u, &d, 8); printf("%016llx", (unsigned long long)u); }
static double getdbl(const char *h) { uint64_t u = strtoull(h, NULL, 16); double d; memcpy(&d, &u, 8); return d; }

/* ---- path <-> setting ---- */
static config_setting_t *at(const char *p)
{
  config_setting_t *s = config_root_setting(&cfg);
  if (!strcmp(p, "/")) return s;
  while (*p == '/' && s) { char *e; unsigned long i = strtoul(p + 1, &e, 10); s = config_setting_get_elem(s, (unsigned)i); p = e; }
  return s;
}
static void putpath_rec(const config_setting_t *s)
{
  if (config_setting_is_root(s)) return;
  putpath_rec(config_setting_parent(s));
  printf("/%d", config_setting_index(s));
}
static void putpath(const config_setting_t *s)
{
  if (!s) { fputs("null", stdout); return; }
  if (config_setting_is_root(s)) { fputs("/", stdout); return; }
  putpath_rec(s);
}

static void dump(const config_setting_t *s)
{
  printf("("); puthex(s->name); printf(",%d,%d,", s->type, s->format);
  switch (s->type) {
    case CONFIG_TYPE_INT: case CONFIG_TYPE_BOOL: printf("%d", s->value.ival); break;
    case CONFIG_TYPE_INT64: printf("%lld", s->value.llval); break;
    case CONFIG_TYPE_FLOAT: putdbl(s->value.fval); break;
    case CONFIG_TYPE_STRING: puthex(s->value.sval); break;
    case CONFIG_TYPE_GROUP: case CONFIG_TYPE_ARRAY: case CONFIG_TYPE_LIST: {
      int n = config_setting_length(s);
      printf("[");
      for (int i = 0; i < n; i++) { if (i) printf(","); dump(config_setting_get_elem(s, i)); }
      printf("]"); break; }
    default: printf("-");
  }
  printf(",%lu,%u,", (unsigned long)(uintptr_t)s->hook, s->line); puthex(s->file); printf(")");
}

/* ---- custom include function (id 1), mirrored by includeFnEval in the model ---- */
static const char **multi_include(config_t *c, const char *dir, const char *path, const char **error)
{
  const char **files; int n = 0, cap = 4;
  *error = NULL;
  if (path[0] == '!' && path[1] == '!') {
    /* reports an error AND hands back the (partial) list it had collected: the library must release that list
     * (observably the same as '!': the model's includeFnEval answers the error for every path starting with '!') */
    const char **l = malloc(sizeof(char *) * 3); l[0] = strdup(path + 2); l[1] = strdup("second-collected-name.cfg"); l[2] = NULL;
    *error = "custom include error"; return l;
  }
  if (path[0] == '!') { *error = "custom include error"; return NULL; }
  if (path[0] == '?') return NULL;
  files = malloc(sizeof(char *) * cap);
  if (path[0]) {
    const char *p = path;
    for (;;) {
      const char *q = strchr(p, '|'); size_t len = q ? (size_t)(q - p) : strlen(p);
      char *f;
      if (dir && !(len > 0 && p[0] == '/')) { f = malloc(strlen(dir) + len + 2); sprintf(f, "%s/%.*s", dir, (int)len, p); }
      else { f = malloc(len + 1); memcpy(f, p, len); f[len] = 0; }
      if (n + 2 > cap) { cap *= 2; files = realloc(files, sizeof(char *) * cap); }
      files[n++] = f;
      if (!q) break;
      p = q + 1;
    }
  }
  files[n] = NULL;
  (void)c;
  return files;
}

/* ---- well-formedness oracle on the real structs (C04) ---- */
static int valid_name(const char *n)
{
  if (!*n) return 0;
  if (!((*n >= 'A' && *n <= 'Z') || (*n >= 'a' && *n <= 'z') || *n == '*')) return 0;
  for (++n; *n; ++n)
    if (!((*n >= 'A' && *n <= 'Z') || (*n >= 'a' && *n <= 'z') || (*n >= '0' && *n <= '9') || *n == '*' || *n == '_' || *n == '-')) return 0;
  return 1;
}
static const char *wf(const config_setting_t *s, const config_setting_t *parent)
{
  int n, i, j;
  if (s->parent != parent) return "parent-pointer";
  if (s->config != &cfg) return "config-pointer";
  if (!parent) { if (s->name) return "root-has-name"; if (s->type != CONFIG_TYPE_GROUP) return "root-not-group"; }
  if (s->type > CONFIG_TYPE_LIST) return "type-range";
  n = config_setting_length(s);
  if (!config_setting_is_aggregate(s)) return n == 0 ? NULL : "scalar-with-length";
  if (config_setting_get_elem(s, n) != NULL) return "elem-past-end";
  for (i = 0; i < n; i++) {
    const config_setting_t *k = config_setting_get_elem(s, i);
    const char *r;
    if (!k) return "elem-null";
    if (config_setting_index(k) != i) return "index-disagrees";
    if (s->type == CONFIG_TYPE_GROUP) {
      if (!k->name) return "nameless-member";
      if (!valid_name(k->name)) return "invalid-name";
      if (config_setting_get_member(s, k->name) != k) return "member-lookup-disagrees";
      { /* a name no child has finds nothing: proper prefixes and extensions of this child's name */
        size_t L = strlen(k->name); char *q = malloc(L + 3); const config_setting_t *m; size_t cut[2]; int c;
        cut[0] = L - 1; cut[1] = 1;
        for (c = 0; c < 2; c++) if (cut[c] >= 1 && cut[c] < L) {
          memcpy(q, k->name, cut[c]); q[cut[c]] = 0; m = config_setting_get_member(s, q);
          if (m && strcmp(m->name, q) != 0) { free(q); return "member-lookup-returns-other-name"; }
        }
        memcpy(q, k->name, L); q[L] = '_'; q[L + 1] = 0; m = config_setting_get_member(s, q);
        if (m && strcmp(m->name, q) != 0) { free(q); return "member-lookup-returns-other-name"; }
        free(q);
      }
      for (j = 0; j < i; j++) if (!strcmp(config_setting_get_elem(s, j)->name, k->name)) return "duplicate-name";
    } else {
      if (k->name) return "named-element";
      if (s->type == CONFIG_TYPE_ARRAY) {
        if (!config_setting_is_scalar(k)) return "non-scalar-in-array";
        if (k->type != config_setting_get_elem(s, 0)->type) return "mixed-array";
      }
    }
    if ((r = wf(k, s)) != NULL) return r;
  }
  return NULL;
}

/* ---- lookup oracle (C06): every setting is found by every spelling of its path from every ancestor ---- */
static long lk_count; static const char *lk_fail;
static void lookup_all_from(const config_setting_t *base, const config_setting_t *s, char *buf, size_t len, int depth)
{
  static const char seps[3] = { '.', ':', '/' };
  int n = config_setting_length(s), i;
  for (i = 0; i < n; i++) {
    const config_setting_t *k = config_setting_get_elem(s, i);
    int variants = k->name ? 2 : 1, v, sp;
    for (v = 0; v < variants; v++)
      for (sp = 0; sp < (depth == 0 ? 4 : 3); sp++) {   /* sp==3: no leading separator at depth 0 */
        size_t l = len;
        if (sp < 3) buf[l++] = seps[(sp + depth) % 3];
        if (v == 1) l += sprintf(buf + l, "%s", k->name); else l += sprintf(buf + l, "[%d]", i);
        buf[l] = 0;
        lk_count++;
        if (config_setting_lookup((config_setting_t *)base, buf) != k && !lk_fail) lk_fail = strdup(buf);
        if (sp == 0 || (sp == 3)) if (l < 3500) lookup_all_from(base, k, buf, l, depth + 1);
      }
  }
}
static void lookup_all(const config_setting_t *base)
{
  static char buf[4096];
  int n = config_setting_length(base), i;
  lookup_all_from(base, base, buf, 0, 0);
  for (i = 0; i < n; i++) lookup_all(config_setting_get_elem(base, i));
}

static int float_unspec32(const config_setting_t *s, double *v)
{ double d = v ? *v : s->value.fval; return !(d > -2147483649.0 && d < 2147483648.0); }
static int float_unspec64(const config_setting_t *s, double *v)
{ double d = v ? *v : s->value.fval; return !(d >= -9223372036854775808.0 && d < 9223372036854775808.0); }

static void typed_print(const char *kind, int ok, const config_setting_t *m, int iv, long long llv, double dv, const char *sv)
{
  (void)m;
  if (!ok) { printf("0"); return; }
  if (!strcmp(kind, "int") || !strcmp(kind, "bool")) printf("1 %d", iv);
  else if (!strcmp(kind, "int64")) printf("1 %lld", llv);
  else if (!strcmp(kind, "float")) { printf("1 "); putdbl(dv); }
  else { printf("1 "); puthex(sv); }
}

static struct { const char *ptr; char *copy; } held[16];
struct chunked { const char *data; size_t len, pos, chunk; };
static ssize_t chunked_read(void *c, char *buf, size_t size)
{
  struct chunked *k = c; size_t n = k->len - k->pos;
  if (n > size) n = size;
  if (k->chunk && n > k->chunk) n = k->chunk;
  memcpy(buf, k->data + k->pos, n); k->pos += n;
  return (ssize_t)n;
}

/* a stream that delivers its data and then fails (C03: a failing fread must not kill the process) */
static ssize_t failing_read(void *c, char *buf, size_t size)
{
  struct chunked *k = c; size_t n = k->len - k->pos;
  if (n == 0) { errno = EIO; return -1; }
  if (n > size) n = size;
  if (k->chunk && n > k->chunk) n = k->chunk;
  memcpy(buf, k->data + k->pos, n); k->pos += n;
  return (ssize_t)n;
}

/* the same, but the failure is transient: one read fails with EIO, every later one reports end of file.  The failure
 * happened all the same: the text is truncated and the read must report the I/O error (C09/C03) */
static int failing_once_done;
static ssize_t failing_once_read(void *c, char *buf, size_t size)
{
  struct chunked *k = c;
  if (k->len == k->pos) { if (failing_once_done) return 0; failing_once_done = 1; errno = EIO; return -1; }
  return failing_read(c, buf, size);
}

/* a stream whose <at>-th read call is interrupted by a signal (EINTR) before transferring anything: depending on
 * where that falls inside an fread() the library sees a retry or a short read with the error indicator set */
struct eintr { const char *data; size_t len, pos, chunk; int calls, at; };
static ssize_t eintr_read(void *c, char *buf, size_t size)
{
  struct eintr *k = c; size_t n = k->len - k->pos;
  if (++k->calls == k->at) { errno = EINTR; return -1; }
  if (n > size) n = size;
  if (k->chunk && n > k->chunk) n = k->chunk;
  memcpy(buf, k->data + k->pos, n); k->pos += n;
  return (ssize_t)n;
}
/* the same with EAGAIN (a non-blocking descriptor with no data): must fail, not retry for ever */
static ssize_t eagain_read(void *c, char *buf, size_t size)
{
  struct chunked *k = c; size_t n = k->len - k->pos;
  if (n == 0) { errno = EAGAIN; return -1; }
  if (n > size) n = size;
  memcpy(buf, k->data + k->pos, n); k->pos += n;
  return (ssize_t)n;
}

/* ---- C1011: descriptor count and LeakSanitizer hook ---- */
#include <dirent.h>
extern int __lsan_do_recoverable_leak_check(void) __attribute__((weak));
static int fd_mark = 0;
static int count_fds(void)
{
  DIR *d = opendir("/proc/self/fd"); struct dirent *e; int n = 0;
  if (!d) return -1;
  while ((e = readdir(d)) != NULL) if (e->d_name[0] != '.') n++;
  closedir(d);
  return n;
}

static void do_read(int r)
{
  printf("%d [%s]", r, logstr()); cap_report();
}

/* ---- BEGIN C03 (ops) ---- */
static long c03_maxname;
static void c03_shape(const config_setting_t *s, long *nodes, long depth, long *maxdepth)
{
  int n = config_setting_length(s), i;
  (*nodes)++;
  if (depth > *maxdepth) *maxdepth = depth;
  if (s->name && (long)strlen(s->name) > c03_maxname) c03_maxname = (long)strlen(s->name);
  for (i = 0; i < n; i++) c03_shape(config_setting_get_elem(s, i), nodes, depth + 1, maxdepth);
}
/* nested text built from one rule shared with the model (Main.lean, deepNestText) */
static char *c03_deepnest(const char *kind, long levels, int closed)
{
  const char *pre, *open, *mid, *close, *post;
  size_t cap; char *t, *q; long i;
  if (!strcmp(kind, "list")) { pre = "a="; open = "("; mid = ""; close = ")"; post = ";"; }
  else if (!strcmp(kind, "group")) { pre = ""; open = "a={"; mid = ""; close = "}"; post = ""; }
  else if (!strcmp(kind, "array")) { pre = "a="; open = "([1,2],"; mid = "0"; close = ")"; post = ";"; }
  else if (!strcmp(kind, "mixed")) { pre = "a=("; open = "{b=("; mid = ""; close = ")}"; post = ");"; }
  else return NULL;
  cap = strlen(pre) + (strlen(open) + strlen(close)) * (size_t)levels + strlen(mid) + strlen(post) + 1;
  t = q = malloc(cap);
  q += sprintf(q, "%s", pre);
  for (i = 0; i < levels; i++) q += sprintf(q, "%s", open);
  q += sprintf(q, "%s", mid);
  if (closed) { for (i = 0; i < levels; i++) q += sprintf(q, "%s", close); q += sprintf(q, "%s", post); }
  return t;
}
static void c03_write_digest(long depth)
{
  char *buf = NULL; size_t len = 0; FILE *m = open_memstream(&buf, &len);
  config_write(&cfg, m); fclose(m);
  if (depth <= 64) printf("%lu:%016llx", (unsigned long)len, (unsigned long long)fnv1a(buf, len)); else printf("skip");
  free(buf);
}
static void print_dump_line(void);
/* after a read: traverse, look up, write, remove, modify, write again, re-read, clear */
static void c03_battery(void)
{
  config_setting_t *root = config_root_setting(&cfg), *s;
  long nodes = 0, depth = 0; int n, r1 = -1, r2 = -1, a1, a2, iv = -1, rr;
  c03_maxname = 0; c03_shape(root, &nodes, 0, &depth);
  printf("battery d=%ld n=%ld dump=", depth, nodes);
  { /* the text of the `dump` line, digested */
    char *buf = NULL; size_t len = 0; FILE *saved = stdout; FILE *m = open_memstream(&buf, &len);
    stdout = m; print_dump_line(); stdout = saved; fclose(m);
    printf("%016llx", (unsigned long long)fnv1a(buf, len)); free(buf);
  }
  { const char *r = wf(root, NULL); printf(" wf=%s", r ? r : "ok"); }
  if (depth <= 8 && nodes <= 400 && c03_maxname <= 200) {   /* lookup_all builds its paths in a 4 KiB buffer */
    lk_count = 0; lk_fail = NULL; lookup_all(root);
    printf(" lookup=%s", lk_fail ? "FAIL" : "ok");
    if (lk_fail) { free((char *)lk_fail); lk_fail = NULL; }
  } else printf(" lookup=skip");
  { /* the chain of first children, addressed from the root by one path */
    size_t cap = 64, len = 0; char *path = malloc(cap); const config_setting_t *k = root;
    path[0] = 0;
    while (config_setting_length(k) > 0) {
      const config_setting_t *c = config_setting_get_elem(k, 0);
      size_t need = (c->name ? strlen(c->name) : 3) + 2;
      if (len + need + 1 > cap) { cap = (len + need + 1) * 2; path = realloc(path, cap); }
      len += sprintf(path + len, "%s%s", len ? "." : "", c->name ? c->name : "[0]");
      k = c;
    }
    printf(" spine=%s", (len == 0 || config_setting_lookup(root, path) == k) ? "ok" : "FAIL");
    free(path);
  }
  printf(" w1="); c03_write_digest(depth);
  n = config_setting_length(root);
  if (n > 0) r1 = config_setting_remove_elem(root, 0);
  n = config_setting_length(root);
  if (n > 0) r2 = config_setting_remove_elem(root, (unsigned)(n - 1));
  printf(" rm=%d,%d", r1, r2);
  s = config_setting_add(root, "zz_c03", CONFIG_TYPE_INT);
  a1 = s ? config_setting_set_int(s, 42) : -1;
  s = config_setting_add(root, "zz_c03s", CONFIG_TYPE_STRING);
  a2 = s ? config_setting_set_string(s, "battery \"q\"\n") : -1;
  printf(" set=%d,%d", a1, a2);
  nodes = 0; depth = 0; c03_shape(root, &nodes, 0, &depth);
  printf(" w2="); c03_write_digest(depth);
  printf(" get=%d", config_lookup_int(&cfg, "zz_c03", &iv) ? iv : -1);
  cap_begin(); rr = config_read_string(&cfg, "x = 1; y = ( 1, \"two\", { z = 3.5; } );"); cap_end();
  nodes = 0; depth = 0; c03_shape(config_root_setting(&cfg), &nodes, 0, &depth);
  printf(" reread=%d:%ld", rr, nodes);
  config_clear(&cfg);
  printf(" clear=%d", config_setting_length(config_root_setting(&cfg)));
  cap_report();
}
/* ---- END C03 (ops) ---- */

static void print_dump_line(void)
{
  const char **f;
  printf("cfg opts=%u tab=%d prec=%d dfmt=%d incdir=", (unsigned)config_get_options(&cfg), config_get_tab_width(&cfg), config_get_float_precision(&cfg), config_get_default_format(&cfg));
  puthex(config_get_include_dir(&cfg)); printf(" dtor=%d hook=%lu files=[", dtor_on, (unsigned long)(uintptr_t)config_get_hook(&cfg));
  for (f = cfg.filenames; f && *f; f++) { if (f != cfg.filenames) printf(","); puthex(*f); }
  printf("] root="); dump(config_root_setting(&cfg));
}

/* The whole command loop runs on a thread with a 1 GiB stack: libconfig's writer, destructor and clear recurse once per
 * nesting level, and under ASan a 5000-level tree (the deepest the parser admits, and what the deep-nesting cases build
 * through the API) comes within a few per cent of the default 8 MiB main stack - a margin that depends on the
 * environment.  The stack limit of the process must not decide the verdict of a check. */
#include <pthread.h>
static int real_main(int argc, char **argv);
struct main_args { int argc; char **argv; int rc; };
static void *main_thread(void *p) { struct main_args *a = p; a->rc = real_main(a->argc, a->argv); return NULL; }
int main(int argc, char **argv)
{
  struct main_args a = { argc, argv, 0 }; pthread_t th; pthread_attr_t at;
  pthread_attr_init(&at); pthread_attr_setstacksize(&at, (size_t)1 << 30);
  if (pthread_create(&th, &at, main_thread, &a) != 0) return real_main(argc, argv);
  pthread_join(th, NULL);
  return a.rc;
}
static int real_main(int argc, char **argv)
{
  char *line = NULL; size_t cap = 0; ssize_t n;
  if (argc > 1 && chdir(argv[1]) != 0) { perror("chdir"); return 2; }
  c03_init(); signal(SIGALRM, c03_alarm);
  config_init(&cfg);
  while ((n = getline(&line, &cap, stdin)) > 0) {
    char *w[8]; int nw = 0; char *tok, *save;
    int autoc;
    while (n > 0 && (line[n - 1] == '\n' || line[n - 1] == '\r')) line[--n] = 0;
    for (tok = strtok_r(line, " ", &save); tok && nw < 8; tok = strtok_r(NULL, " ", &save)) w[nw++] = tok;
    if (nw == 0) continue;
    log_reset();
    alarm(c03_deadline ? c03_deadline : (!strcmp(w[0], "deepnest") || !strcmp(w[0], "battery")) ? 45 : 20);   /* C03: a hang is a failure */
    autoc = config_get_auto_convert(&cfg);
#define OP(name, k) (!strcmp(w[0], name) && nw == (k))
    if (OP("init", 1)) { config_destroy(&cfg); config_init(&cfg); dtor_on = 0; printf("ok"); }
    else if (OP("reset_world", 1)) { printf("ok"); }
    else if (OP("add", 4)) {
      config_setting_t *p = at(w[1]); char *name = unhex(w[2], NULL);
      if (!p) printf("bad-op"); else { config_setting_t *r = config_setting_add(p, name, atoi(w[3])); putpath(r); printf(" [%s]", logstr()); }
      free(name);
    }
    else if (OP("remove", 3)) {
      config_setting_t *p = at(w[1]); char *name = unhex(w[2], NULL);
      if (!p) printf("bad-op"); else { int r = config_setting_remove(p, name); printf("%d [%s]", r, logstr()); }
      free(name);
    }
    else if (OP("remove_elem", 3)) {
      config_setting_t *p = at(w[1]);
      if (!p) printf("bad-op"); else { int r = config_setting_remove_elem(p, (unsigned)strtoul(w[2], NULL, 10)); printf("%d [%s]", r, logstr()); }
    }
    else if (OP("set_int", 3)) { config_setting_t *p = at(w[1]); if (!p) printf("bad-op"); else printf("%d", config_setting_set_int(p, (int)atoll(w[2]))); }
    else if (OP("set_int64", 3)) { config_setting_t *p = at(w[1]); if (!p) printf("bad-op"); else printf("%d", config_setting_set_int64(p, atoll(w[2]))); }
    else if (OP("set_float", 3)) {
      config_setting_t *p = at(w[1]); double d = getdbl(w[2]);
      if (!p) printf("bad-op");
      else if (autoc && ((p->type == CONFIG_TYPE_INT && float_unspec32(p, &d)) || (p->type == CONFIG_TYPE_INT64 && float_unspec64(p, &d)))) printf("unspec");
      else printf("%d", config_setting_set_float(p, d));
    }
    else if (OP("set_bool", 3)) { config_setting_t *p = at(w[1]); if (!p) printf("bad-op"); else printf("%d", config_setting_set_bool(p, (int)atoll(w[2]))); }
    else if (OP("set_string", 3)) {
      config_setting_t *p = at(w[1]); char *v = unhex(w[2], NULL);
      if (!p) printf("bad-op"); else { int r = config_setting_set_string(p, v); if (v) memset(v, 'Z', strlen(v)); printf("%d", r); }
      free(v);
    }
    /* ---- C03: the real strbuf / strvec functions driven directly; length/capacity (and end offset) after every operation ---- */
    else if (OP("strbuf_seq", 2)) {
      /* ops separated by ',': sN = append a string of N bytes, c = append a char, r = release */
      strbuf_t b; char *tok, *save, *ops = strdup(w[1]); memset(&b, 0, sizeof b);
      for (tok = strtok_r(ops, ",", &save); tok; tok = strtok_r(NULL, ",", &save)) {
        if (tok[0] == 's') { size_t n = (size_t)atol(tok + 1); char *t = malloc(n + 1); memset(t, 'q', n); t[n] = 0; libconfig_strbuf_append_string(&b, t); free(t); }
        else if (tok[0] == 'c') libconfig_strbuf_append_char(&b, 'z');
        else if (tok[0] == 'r') { char *r = libconfig_strbuf_release(&b); free(r); }
        if (b.string && strlen(b.string) != b.length) { printf("TERMINATOR-MISSING "); }
        printf("%zu/%zu ", b.length, b.capacity);
      }
      free(libconfig_strbuf_release(&b)); free(ops); printf("end");
    }
    else if (OP("strvec_seq", 2)) {
      /* ops: a = append, r = release (the vector is deleted and starts again) */
      strvec_t v; const char *p; memset(&v, 0, sizeof v);
      for (p = w[1]; *p; p++) {
        if (*p == 'a') libconfig_strvec_append(&v, strdup("name"));
        else if (*p == 'r') { const char **r = libconfig_strvec_release(&v); libconfig_strvec_delete(r); memset(&v, 0, sizeof v); }
        printf("%zu/%zu/%ld ", v.length, v.capacity, v.strings ? (long)(v.end - v.strings) : 0L);
      }
      libconfig_strvec_delete(libconfig_strvec_release(&v)); printf("end");
    }
    /* ---- C01: a tree of <levels> nested lists or groups built through the API, written, read back ---- */
    else if (OP("c01deep", 3)) {
      long levels = atol(w[2]), i; int grp = !strcmp(w[1], "group");
      if (levels < 1 || levels > 20000) printf("bad-op");
      else {
        config_t a, b; config_setting_t *s; char *m1 = NULL, *m2 = NULL; size_t l1 = 0, l2 = 0; FILE *f; int ok;
        config_init(&a); config_init(&b);
        s = config_setting_add(config_root_setting(&a), "d", grp ? CONFIG_TYPE_GROUP : CONFIG_TYPE_LIST);
        for (i = 1; i < levels && s; i++) s = config_setting_add(s, grp ? "d" : NULL, grp ? CONFIG_TYPE_GROUP : CONFIG_TYPE_LIST);
        f = open_memstream(&m1, &l1); config_write(&a, f); fclose(f);
        ok = config_read_string(&b, m1);
        printf("%d ", ok); puthex(config_error_text(&b));
        f = open_memstream(&m2, &l2); config_write(&b, f); fclose(f);
        printf(" %d", ok && l1 == l2 && !memcmp(m1, m2, l1));
        free(m1); free(m2); config_destroy(&a); config_destroy(&b);
      }
    }
    /* ---- C16: library-owned strings passed back in (aliasing) and strings handed out (lifetime) ---- */
    else if (OP("set_string_self", 2)) {
      config_setting_t *p = at(w[1]);
      if (!p) printf("bad-op"); else printf("%d", config_setting_set_string(p, config_setting_get_string(p)));
    }
    else if (OP("set_include_dir_self", 1)) { config_set_include_dir(&cfg, config_get_include_dir(&cfg)); printf("ok"); }
    else if (OP("add_self", 3)) {
      /* add to the parent a setting with the very name string of an existing member (override or refusal) */
      config_setting_t *p = at(w[1]);
      if (!p || !p->parent) printf("bad-op");
      else { config_setting_t *r = config_setting_add(p->parent, config_setting_name(p), atoi(w[2])); putpath(r); printf(" [%s]", logstr()); }
    }
    else if (OP("add_alias", 5)) {
      /* add to <parent> a setting whose name argument is a string the library itself owns: the NAME or the string VALUE
         of another setting (possibly inside the member that the addition overrides) */
      config_setting_t *p = at(w[1]), *src = at(w[2]);
      if (!p || !src) printf("bad-op");
      else {
        const char *q = !strcmp(w[3], "name") ? config_setting_name(src) : config_setting_get_string(src);
        config_setting_t *r = config_setting_add(p, q, atoi(w[4])); putpath(r); printf(" [%s]", logstr());
      }
    }
    else if (OP("hold", 4)) {
      /* remember a string the library handed out: value | name of a setting, or the include directory */
      int k = atoi(w[1]); config_setting_t *p = at(w[3]); const char *q = NULL;
      if (k < 0 || k >= 16 || (!p && strcmp(w[2], "incdir"))) printf("bad-op");
      else {
        if (!strcmp(w[2], "value")) q = config_setting_get_string(p);
        else if (!strcmp(w[2], "name")) q = config_setting_name(p);
        else q = config_get_include_dir(&cfg);
        free(held[k].copy); held[k].ptr = q; held[k].copy = q ? strdup(q) : NULL; printf("ok");
      }
    }
    else if (OP("check_held", 2)) {
      int k = atoi(w[1]);
      if (k < 0 || k >= 16) printf("bad-op");
      else if (!held[k].ptr) printf("held ok");
      else printf(strcmp(held[k].ptr, held[k].copy) == 0 ? "held ok" : "held CHANGED");
    }
    else if (OP("drop_held", 2)) { int k = atoi(w[1]); if (k >= 0 && k < 16) { free(held[k].copy); held[k].copy = NULL; held[k].ptr = NULL; } printf("ok"); }
    else if (OP("set_format", 3)) { config_setting_t *p = at(w[1]); if (!p) printf("bad-op"); else printf("%d", config_setting_set_format(p, (unsigned short)atoi(w[2]))); }
    else if (OP("set_hook", 3)) { config_setting_t *p = at(w[1]); if (!p) printf("bad-op"); else { config_setting_set_hook(p, (void *)(uintptr_t)strtoul(w[2], NULL, 10)); printf("ok [%s]", logstr()); } }   /* replacing or detaching a hook never runs the destructor */
    else if (OP("set_int_elem", 4)) { config_setting_t *p = at(w[1]); if (!p) printf("bad-op"); else putpath(config_setting_set_int_elem(p, atoi(w[2]), (int)atoll(w[3]))); }
    else if (OP("set_int64_elem", 4)) { config_setting_t *p = at(w[1]); if (!p) printf("bad-op"); else putpath(config_setting_set_int64_elem(p, atoi(w[2]), atoll(w[3]))); }
    else if (OP("set_float_elem", 4)) {
      config_setting_t *p = at(w[1]); double d = getdbl(w[3]); int idx = atoi(w[2]);
      if (!p) printf("bad-op");
      else {
        config_setting_t *e = idx < 0 ? NULL : config_setting_get_elem(p, idx);
        if (e && autoc && ((e->type == CONFIG_TYPE_INT && float_unspec32(e, &d)) || (e->type == CONFIG_TYPE_INT64 && float_unspec64(e, &d)))) printf("unspec");
        else putpath(config_setting_set_float_elem(p, idx, d));
      }
    }
    else if (OP("set_bool_elem", 4)) { config_setting_t *p = at(w[1]); if (!p) printf("bad-op"); else putpath(config_setting_set_bool_elem(p, atoi(w[2]), (int)atoll(w[3]))); }
    else if (OP("set_string_elem", 4)) {
      config_setting_t *p = at(w[1]); char *v = unhex(w[3], NULL);
      if (!p) printf("bad-op"); else { config_setting_t *r = config_setting_set_string_elem(p, atoi(w[2]), v); if (v) memset(v, 'Z', strlen(v)); putpath(r); }
      free(v);
    }
    else if (OP("get", 3)) {
      config_setting_t *p = at(w[2]);
      if (!p) printf("bad-op");
      else if (!strcmp(w[1], "int")) { if (p->type == CONFIG_TYPE_FLOAT && autoc && float_unspec32(p, NULL)) printf("unspec"); else printf("%d", config_setting_get_int(p)); }
      else if (!strcmp(w[1], "int64")) { if (p->type == CONFIG_TYPE_FLOAT && autoc && float_unspec64(p, NULL)) printf("unspec"); else printf("%lld", config_setting_get_int64(p)); }
      else if (!strcmp(w[1], "float")) putdbl(config_setting_get_float(p));
      else if (!strcmp(w[1], "bool")) printf("%d", config_setting_get_bool(p));
      else if (!strcmp(w[1], "string")) puthex(config_setting_get_string(p));
      else printf("bad-op");
    }
    else if (OP("get_elem_val", 4)) {
      config_setting_t *p = at(w[2]); int idx = atoi(w[3]);
      if (!p) printf("bad-op");
      else {
        config_setting_t *e = config_setting_get_elem(p, (unsigned)idx);
        if (!strcmp(w[1], "int")) { if (e && e->type == CONFIG_TYPE_FLOAT && autoc && float_unspec32(e, NULL)) printf("unspec"); else printf("%d", config_setting_get_int_elem(p, idx)); }
        else if (!strcmp(w[1], "int64")) { if (e && e->type == CONFIG_TYPE_FLOAT && autoc && float_unspec64(e, NULL)) printf("unspec"); else printf("%lld", config_setting_get_int64_elem(p, idx)); }
        else if (!strcmp(w[1], "float")) putdbl(config_setting_get_float_elem(p, idx));
        else if (!strcmp(w[1], "bool")) printf("%d", config_setting_get_bool_elem(p, idx));
        else if (!strcmp(w[1], "string")) puthex(config_setting_get_string_elem(p, idx));
        else printf("bad-op");
      }
    }
    else if (OP("lookup_val", 4) || OP("clookup_val", 3)) {
      int byname = !strcmp(w[0], "lookup_val");
      config_setting_t *p = byname ? at(w[2]) : config_root_setting(&cfg);
      char *key = unhex(byname ? w[3] : w[2], NULL);
      const char *kind = w[1];
      if (!p) printf("bad-op");
      else {
        /* sentinels detect writes to the output variable on failure */
        int iv = 0x5a5a5a5a; long long llv = 0x5a5a5a5a5a5a5a5aLL; double dv = 1234.5; const char *sv = "sentinel"; int ok = 0;
        const config_setting_t *m = byname ? config_setting_get_member(p, key) : (key ? config_lookup(&cfg, key) : NULL);
        int unspec = m && m->type == CONFIG_TYPE_FLOAT && autoc &&
          ((!strcmp(kind, "int") && float_unspec32(m, NULL)) || (!strcmp(kind, "int64") && float_unspec64(m, NULL)));
        if (unspec) printf("unspec");
        else if (!byname && !key) printf("bad-op");
        else {
          if (!strcmp(kind, "int")) ok = byname ? config_setting_lookup_int(p, key, &iv) : config_lookup_int(&cfg, key, &iv);
          else if (!strcmp(kind, "int64")) ok = byname ? config_setting_lookup_int64(p, key, &llv) : config_lookup_int64(&cfg, key, &llv);
          else if (!strcmp(kind, "float")) ok = byname ? config_setting_lookup_float(p, key, &dv) : config_lookup_float(&cfg, key, &dv);
          else if (!strcmp(kind, "bool")) ok = byname ? config_setting_lookup_bool(p, key, &iv) : config_lookup_bool(&cfg, key, &iv);
          else if (!strcmp(kind, "string")) ok = byname ? config_setting_lookup_string(p, key, &sv) : config_lookup_string(&cfg, key, &sv);
          if (!ok && (iv != 0x5a5a5a5a || llv != 0x5a5a5a5a5a5a5a5aLL || dv != 1234.5 || (sv == NULL || strcmp(sv, "sentinel")))) printf("0 OUTPUT-TOUCHED");
          else typed_print(kind, ok, m, iv, llv, dv, sv);
        }
      }
      free(key);
    }
    else if (OP("lookup", 3)) {
      config_setting_t *p = at(w[1]); char *path = unhex(w[2], NULL);
      if (!p || !path) printf("bad-op"); else putpath(config_setting_lookup(p, path));
      free(path);
    }
    else if (OP("get_elem", 3)) { config_setting_t *p = at(w[1]); if (!p) printf("bad-op"); else putpath(config_setting_get_elem(p, (unsigned)strtoul(w[2], NULL, 10))); }
    else if (OP("get_member", 3)) { config_setting_t *p = at(w[1]); char *nm = unhex(w[2], NULL); if (!p) printf("bad-op"); else putpath(config_setting_get_member(p, nm)); free(nm); }
    else if (OP("length", 2)) { config_setting_t *p = at(w[1]); if (!p) printf("bad-op"); else printf("%d", config_setting_length(p)); }
    else if (OP("index", 2)) { config_setting_t *p = at(w[1]); if (!p) printf("bad-op"); else printf("%d", config_setting_index(p)); }
    else if (OP("get_format", 2)) { config_setting_t *p = at(w[1]); if (!p) printf("bad-op"); else printf("%d", config_setting_get_format(p)); }
    else if (OP("info", 2)) {
      config_setting_t *p = at(w[1]);
      if (!p) printf("bad-op");
      else { printf("%d ", config_setting_type(p)); puthex(config_setting_name(p)); printf(" %d %d %d %u ", config_setting_is_root(p), config_setting_is_scalar(p), config_setting_is_aggregate(p), config_setting_source_line(p)); puthex(config_setting_source_file(p)); printf(" %lu", (unsigned long)(uintptr_t)config_setting_get_hook(p)); }
    }
    else if (OP("set_options", 2)) { config_set_options(&cfg, (int)strtoul(w[1], NULL, 10)); printf("ok"); }
    else if (OP("set_option", 3)) { config_set_option(&cfg, (int)strtoul(w[1], NULL, 10), atoi(w[2])); printf("ok"); }
    else if (OP("get_option", 2)) { printf("%d", config_get_option(&cfg, (int)strtoul(w[1], NULL, 10))); }
    else if (OP("set_tab_width", 2)) { config_set_tab_width(&cfg, (unsigned short)atoi(w[1])); printf("ok"); }
    else if (OP("set_float_precision", 2)) { config_set_float_precision(&cfg, (unsigned short)atoi(w[1])); printf("ok"); }
    else if (OP("set_default_format", 2)) { config_set_default_format(&cfg, (unsigned short)atoi(w[1])); printf("ok"); }
    else if (OP("set_include_dir", 2)) { char *d = unhex(w[1], NULL); config_set_include_dir(&cfg, d); if (d) memset(d, 'Z', strlen(d)); free(d); printf("ok"); }
    else if (OP("set_include_fn", 2)) { config_set_include_func(&cfg, atoi(w[1]) ? multi_include : NULL); printf("ok"); }
    else if (OP("set_destructor", 2)) { dtor_on = atoi(w[1]); config_set_destructor(&cfg, dtor_on ? destructor : NULL); printf("ok"); }
    else if (OP("set_config_hook", 2)) { config_set_hook(&cfg, (void *)(uintptr_t)strtoul(w[1], NULL, 10)); printf("ok"); }
    else if (OP("clear", 1)) { config_clear(&cfg); printf("ok [%s]", logstr()); }
    else if (OP("destroy", 1)) { config_destroy(&cfg); printf("ok [%s]", logstr()); config_init(&cfg); dtor_on = 0; }
    else if (OP("read_string", 2)) { char *s = unhex(w[1], NULL); int r; cap_begin(); r = config_read_string(&cfg, s ? s : ""); cap_end(); do_read(r); free(s); }
    else if (OP("read_stream", 2)) {
      size_t len; char *s = unhex(w[1], &len); FILE *f = fmemopen(len ? s : (char *)"", len ? len : 1, "r");
      if (!len) { fclose(f); f = fopen("/dev/null", "r"); }
      { int r; cap_begin(); r = config_read(&cfg, f); cap_end(); do_read(r); } fclose(f); free(s);
    }
    else if (OP("read_chunked", 3)) {
      /* a stream that delivers its data in pieces of at most <chunk> bytes */
      size_t len; char *s = unhex(w[2], &len); struct chunked ck = { s, len, 0, (size_t)atol(w[1]) };
      cookie_io_functions_t io = { chunked_read, NULL, NULL, NULL };
      FILE *f = fopencookie(&ck, "r", io);
      if (ck.chunk % 2) setvbuf(f, NULL, _IONBF, 0);
      { int r; cap_begin(); r = config_read(&cfg, f); cap_end(); do_read(r); } fclose(f); free(s);
    }
    else if (OP("read_stream_fail", 3)) {
      /* config_read on a stream that delivers <data> (in pieces of <chunk>) and whose next read then fails */
      size_t len; char *s = unhex(w[2], &len); struct chunked ck = { s, len, 0, (size_t)atol(w[1]) };
      cookie_io_functions_t io = { failing_read, NULL, NULL, NULL };
      FILE *f = fopencookie(&ck, "r", io);
      if (ck.chunk % 2) setvbuf(f, NULL, _IONBF, 0);
      { int r; cap_begin(); r = config_read(&cfg, f); cap_end(); do_read(r); } fclose(f); free(s);
    }
    else if (OP("read_stream_fail1", 3)) {
      /* as read_stream_fail, but only ONE read fails (EIO); after it the stream reports end of file */
      size_t len; char *s = unhex(w[2], &len); struct chunked ck = { s, len, 0, (size_t)atol(w[1]) };
      cookie_io_functions_t io = { failing_once_read, NULL, NULL, NULL };
      FILE *f = fopencookie(&ck, "r", io);
      failing_once_done = 0;
      if (ck.chunk % 2) setvbuf(f, NULL, _IONBF, 0);
      { int r; cap_begin(); r = config_read(&cfg, f); cap_end(); do_read(r); } fclose(f); free(s);
    }
    else if (OP("read_eintr", 4)) {
      /* read_eintr <chunk> <at> <data>: the stream delivers all of <data> in pieces of <chunk>; its <at>-th read call is interrupted once */
      size_t len; char *s = unhex(w[3], &len); struct eintr ck = { s, len, 0, (size_t)atol(w[1]), 0, atoi(w[2]) };
      cookie_io_functions_t io = { eintr_read, NULL, NULL, NULL };
      FILE *f = fopencookie(&ck, "r", io);
      { int r; cap_begin(); r = config_read(&cfg, f); cap_end(); do_read(r); } fclose(f); free(s);
    }
    else if (OP("read_stream_eagain", 2)) {
      size_t len; char *s = unhex(w[1], &len); struct chunked ck = { s, len, 0, 0 };
      cookie_io_functions_t io = { eagain_read, NULL, NULL, NULL };
      FILE *f = fopencookie(&ck, "r", io);
      { int r; cap_begin(); r = config_read(&cfg, f); cap_end(); do_read(r); } fclose(f); free(s);
    }
    else if (OP("probe_badfile", 2)) {
      /* does this system have a file that opens but whose read fails?  (the I/O-error cases are skipped otherwise) */
      char *p = unhex(w[1], NULL); FILE *f = fopen(p, "rt"); int ok = 0;
      if (f) { char b[8]; size_t n = fread(b, 1, sizeof b, f); ok = (n == 0 && ferror(f)); fclose(f); }
      printf("%d", ok); free(p);
    }
    else if (OP("read_file_ioerr", 2)) {
      /* config_read_file of a file that opens but whose first read fails (e.g. /proc/self/mem) */
      char *p = unhex(w[1], NULL); int r; cap_begin(); r = config_read_file(&cfg, p); cap_end(); do_read(r); free(p);
    }
    else if (OP("read_string_ioerr", 3)) {
      /* a text that includes such a file; w[1] names it for the model only */
      char *s = unhex(w[2], NULL); int r; cap_begin(); r = config_read_string(&cfg, s ? s : ""); cap_end(); do_read(r); free(s);
    }
    else if (OP("read_alias", 3)) {
      /* a read whose argument is a string the configuration itself owns: file | string  x  errfile | srcfile | value */
      config_setting_t *p = strcmp(w[2], "errfile") ? at(w[2]) : NULL; const char *q = NULL; int r;
      if (!strcmp(w[2], "errfile")) q = config_error_file(&cfg);
      else if (p) q = config_setting_get_string(p);
      if (!q) printf("bad-op");
      else { cap_begin(); r = !strcmp(w[1], "file") ? config_read_file(&cfg, q) : config_read_string(&cfg, q); cap_end(); do_read(r); }
    }
    else if (OP("read_alias_src", 3)) {
      config_setting_t *p = at(w[2]); const char *q = p ? config_setting_source_file(p) : NULL; int r;
      if (!q) printf("bad-op");
      else { cap_begin(); r = !strcmp(w[1], "file") ? config_read_file(&cfg, q) : config_read_string(&cfg, q); cap_end(); do_read(r); }
    }
    else if (OP("read_fifo", 2)) {
      /* config_read_file on a path that is neither a regular file nor a directory: a FIFO fed by a child process */
      size_t len; char *s = unhex(w[1], &len); int r; pid_t pid;
      unlink("in.cfg");
      if (mkfifo("in.cfg", 0600) != 0) printf("bad-op");
      else {
        fflush(stdout); pid = fork();
        if (pid == 0) {
          int fd = open("in.cfg", O_WRONLY); size_t o = 0;
          while (fd >= 0 && o < len) { ssize_t k = write(fd, s + o, len - o); if (k <= 0) break; o += (size_t)k; }
          if (fd >= 0) close(fd);
          _exit(0);
        }
        cap_begin(); r = config_read_file(&cfg, "in.cfg"); cap_end();
        if (pid > 0) { kill(pid, SIGKILL); waitpid(pid, NULL, 0); }
        unlink("in.cfg"); do_read(r);
      }
      free(s);
    }
    else if (OP("read_file", 2)) { char *p = unhex(w[1], NULL); int r; cap_begin(); r = config_read_file(&cfg, p); cap_end(); do_read(r); free(p); }
    else if (OP("mkfile", 3)) {
      size_t len; char *p = unhex(w[1], NULL); char *c = unhex(w[2], &len); FILE *f;
      { char *q; for (q = p + 1; *q; q++) if (*q == '/') { *q = 0; mkdir(p, 0777); *q = '/'; } }   /* every missing directory level */
      rmdir(p); f = fopen(p, "wb");
      if (f) { if (len) fwrite(c, 1, len, f); fclose(f); printf("ok"); } else printf("mkfile-failed");
      free(p); free(c);
    }
    else if (OP("mkdir", 2)) { char *p = unhex(w[1], NULL); unlink(p); mkdir(p, 0777); printf("ok"); free(p); }
    else if (OP("rmfile", 2)) { char *p = unhex(w[1], NULL); if (unlink(p) != 0) rmdir(p); printf("ok"); free(p); }
    else if (OP("write", 1)) {
      char *buf = NULL; size_t len = 0; FILE *m = open_memstream(&buf, &len);
      config_write(&cfg, m); fclose(m); puthexn(buf, len); free(buf);
    }
    else if (OP("write_file", 2)) { char *p = unhex(w[1], NULL); printf("%d", config_write_file(&cfg, p)); free(p); }
    else if (OP("cat", 2)) {
      char *p = unhex(w[1], NULL); FILE *f = fopen(p, "rb"); struct stat st;
      if (!f || fstat(fileno(f), &st) != 0 || S_ISDIR(st.st_mode)) printf("null");
      else { char *b = malloc(st.st_size + 1); size_t n = fread(b, 1, st.st_size, f); puthexn(b, n); free(b); }
      if (f) fclose(f);
      free(p);
    }
    else if (OP("lex", 2)) {
      /* token stream of libconfig_yylex on a string: "<token>" or "<token>:<value>" per token */
      char *text = unhex(w[1], NULL); yyscan_t scanner; struct scan_context sctx; YYSTYPE lval; int t, k = 0;
      config_t tmp; config_init(&tmp);
      libconfig_scanctx_init(&sctx, NULL); sctx.config = &tmp;
      libconfig_yylex_init_extra(&sctx, &scanner);
      libconfig_yy_scan_string(text ? text : "", scanner);
      libconfig_yyset_lineno(1, scanner);
      while ((t = libconfig_yylex(&lval, scanner)) > 0 && k++ < 100000) {
        printf("%d", t);
        if (t == TOK_STRING) { printf(":"); puthex(lval.sval); free(lval.sval); }
        else if (t == TOK_NAME) { printf(":"); puthex(lval.sval); }
        else if (t == TOK_BOOLEAN || t == TOK_INTEGER || t == TOK_HEX) printf(":%d", lval.ival);
        else if (t == TOK_INTEGER64 || t == TOK_HEX64) printf(":%lld", lval.llval);
        else if (t == TOK_FLOAT) { printf(":"); putdbl(lval.fval); }
        printf("@%d ", libconfig_yyget_lineno(scanner));
      }
      printf("eof");
      { void *b; while ((b = libconfig_scanctx_pop_include(&sctx)) != NULL) libconfig_yy_delete_buffer((YY_BUFFER_STATE)b, scanner); }
      libconfig_yylex_destroy(scanner);
      libconfig_strvec_delete(libconfig_scanctx_cleanup(&sctx));
      config_destroy(&tmp); free(text);
    }
    else if (OP("lexx", 3)) {
      /* as lex, but over ALL bytes of the text (NUL bytes included: yy_scan_bytes) and with the include function
       * <fn> (0 default, 1 the custom one: "" expands to no file, "?..." to NULL without an error) */
      size_t len; char *text = unhex(w[2], &len); yyscan_t scanner; struct scan_context sctx; YYSTYPE lval; int t, k = 0;
      config_t tmp; config_init(&tmp); config_set_include_func(&tmp, atoi(w[1]) ? multi_include : NULL);
      libconfig_scanctx_init(&sctx, NULL); sctx.config = &tmp;
      libconfig_yylex_init_extra(&sctx, &scanner);
      libconfig_yy_scan_bytes(text ? text : "", (int)len, scanner);
      libconfig_yyset_lineno(1, scanner);
      while ((t = libconfig_yylex(&lval, scanner)) > 0 && k++ < 100000) {
        printf("%d", t);
        if (t == TOK_STRING) { printf(":"); puthex(lval.sval); free(lval.sval); }
        else if (t == TOK_NAME) { printf(":"); puthex(lval.sval); }
        else if (t == TOK_BOOLEAN || t == TOK_INTEGER || t == TOK_HEX) printf(":%d", lval.ival);
        else if (t == TOK_INTEGER64 || t == TOK_HEX64) printf(":%lld", lval.llval);
        else if (t == TOK_FLOAT) { printf(":"); putdbl(lval.fval); }
        printf("@%d ", libconfig_yyget_lineno(scanner));
      }
      printf("eof");
      { void *b; while ((b = libconfig_scanctx_pop_include(&sctx)) != NULL) libconfig_yy_delete_buffer((YY_BUFFER_STATE)b, scanner); }
      libconfig_yylex_destroy(scanner);
      libconfig_strvec_delete(libconfig_scanctx_cleanup(&sctx));
      config_destroy(&tmp); free(text);
    }
    else if (OP("err", 1) || OP("errio", 1)) { printf("%d ", config_error_type(&cfg)); puthex(config_error_text(&cfg)); printf(" "); puthex(config_error_file(&cfg)); printf(" %d", config_error_line(&cfg)); }
    else if (OP("dump", 1)) print_dump_line();
    else if (OP("wf", 1)) { const char *r = wf(config_root_setting(&cfg), NULL); printf("wf %s", r ? r : "ok"); }
    else if (OP("lookup_all", 1)) {
      lk_count = 0; lk_fail = NULL; lookup_all(config_root_setting(&cfg));
      if (lk_fail) { printf("lookup_all FAIL "); puthex(lk_fail); } else printf("lookup_all ok");
    }
    /* BEGIN C1011: resource observations (C10/C11) */
    else if (OP("fdmark", 1)) { fd_mark = count_fds(); printf("ok"); }
    else if (OP("fdcount", 1)) { printf("%d", count_fds() - fd_mark); }
    else if (OP("leakcheck", 1)) { printf("%d", __lsan_do_recoverable_leak_check ? (__lsan_do_recoverable_leak_check() ? 1 : 0) : 0); }
    else if (OP("read_stream_keep", 2)) {
      /* config_read on the caller's stream; afterwards the caller's FILE* must still be open and usable */
      size_t len; char *s = unhex(w[1], &len); FILE *f = fmemopen(len ? s : (char *)"", len ? len : 1, "r");
      int r, ok;
      if (!len) { fclose(f); f = fopen("/dev/null", "r"); }
      r = config_read(&cfg, f);
      ok = (ftell(f) >= 0);
      (void)fgetc(f);
      ok = ok && !ferror(f) && fileno(f) >= -1;
      ok = (fclose(f) == 0) && ok;
      do_read(r); printf(" %s", ok ? "stream-ok" : "stream-bad"); free(s);
    }
    /* END C1011 */
    /* ---- BEGIN C03 (dispatch) ---- */
    else if (OP("battery", 1)) c03_battery();
    else if (OP("leakcheck3", 1)) printf("leakcheck %d", __lsan_do_recoverable_leak_check ? __lsan_do_recoverable_leak_check() : 0);
    else if (OP("deepnest", 4)) {
      char *t = c03_deepnest(w[1], atol(w[2]), atoi(w[3]));
      if (!t || atol(w[2]) < 0 || atol(w[2]) > 100000) printf("bad-op");
      else { int r; cap_begin(); r = config_read_string(&cfg, t); cap_end(); do_read(r); }
      free(t);
    }
    else if (OP("cov", 1)) printf("cov %lu", c03_cov);
    /* ---- END C03 (dispatch) ---- */
    else printf("bad-op");
    alarm(0);
    printf("\n");
    fflush(stdout);
  }
  fflush(stdout);
  config_destroy(&cfg);
  free(line); free(logbuf);
  return 0;
}
