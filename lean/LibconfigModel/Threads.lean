import LibconfigModel.Step
/-
  Independent configurations used from different threads (property C14): every
  thread owns a `State` (its configuration objects and the files it writes)
  and runs its own program of API operations; a schedule decides which thread
  takes the next step.  A step of thread `t` reads and writes `t`'s state only —
  that the code has no other shared mutable state is the content of the static
  object and import inventories (Generated/Inventory.lean).
-/
namespace Libconfig

structure Threads where
  state : Nat → State
  prog : Nat → List Op
  /-- outputs produced so far, newest first -/
  outs : Nat → List Out

def Threads.init (progs : Nat → List Op) : Threads :=
  { state := fun _ => State.init, prog := progs, outs := fun _ => [] }

/-- thread `t` takes its next step (nothing happens if its program is finished) -/
def Threads.stepThread (T : Threads) (t : Nat) : Threads :=
  match T.prog t with
  | [] => T
  | op :: rest =>
    let r := step (T.state t) op
    { state := fun i => if i = t then r.1 else T.state i,
      prog := fun i => if i = t then rest else T.prog i,
      outs := fun i => if i = t then r.2 :: T.outs i else T.outs i }

def Threads.runSchedule (T : Threads) (sched : List Nat) : Threads := sched.foldl Threads.stepThread T

/-- a thread running alone: state and outputs (newest first) after its first `n` operations -/
def runAlone (s : State) (outs : List Out) : List Op → Nat → State × List Out
  | _, 0 => (s, outs)
  | [], _ + 1 => (s, outs)
  | op :: rest, n + 1 => let r := step s op; runAlone r.1 (r.2 :: outs) rest n

end Libconfig
