import LibconfigModel.Basic
/-
  Types of the data that `tools/translate.py` regenerates from
  lib/scanner.c and lib/grammar.c on every run.
-/
namespace Libconfig

/-- A table of small integers packed into one `Nat`: cell `i` occupies bits
`16·i … 16·i+15` and holds `value + 32768`.  (Bit-packed literals are what the
kernel evaluates fastest; see DESIGN.md §4.) -/
structure Tab where
  len : Nat
  bits : Nat
deriving Repr

def Tab.get (t : Tab) (i : Nat) : Int :=
  ((t.bits >>> (16 * i)) % 65536 : Nat) - 32768

/-- non-negative read (flex tables) -/
def Tab.getN (t : Tab) (i : Nat) : Nat :=
  (t.bits >>> (16 * i)) % 65536 - 32768

/-- Semantic action of a scanner rule, recognised from the text of its `case`
in the generated `switch(yy_act)`. -/
inductive ScanAct where
  | begin (sc : Nat)            -- BEGIN <start condition>
  | ignore                      -- empty action
  | appendText                  -- libconfig_scanctx_append_string(yyextra, yytext)
  | appendChar (c : Nat)        -- libconfig_scanctx_append_char(yyextra, 'c')
  | appendHexChar               -- \xHH
  | endString (tok : Nat)       -- take_string; BEGIN INITIAL; return TOK_STRING
  | includeDirective (errTok : Nat)  -- <INCLUDE>\" : push the include frame
  | tok (t : Nat)               -- return(TOK_x)
  | tokBool (t : Nat) (v : Int)
  | tokName (t : Nat)
  | tokFloat (t errTok : Nat)
  | tokInteger (t32 t64 errTok : Nat)
  | tokInteger64 (t errTok : Nat)
  | tokHex (t errTok : Nat)
  | tokHex64 (t errTok : Nat)
  | echo                        -- flex default rule
  | unknown                     -- text not in the catalogue
deriving Repr, DecidableEq, Inhabited

structure FlexTables where
  accept : Tab
  ec : Tab
  metaT : Tab
  base : Tab
  deflt : Tab
  nxt : Tab
  chk : Tab
  canMatchEol : Tab
  /-- the state the matching loop stops in (`while ( yy_current_state != N )`) -/
  jamState : Nat
  /-- `if ( yy_current_state >= N ) yy_c = yy_meta[yy_c]` -/
  metaThreshold : Nat
  numRules : Nat
  endOfBuffer : Nat
  /-- equivalence class used for a NUL byte inside the data (`yy_try_NUL_trans`) -/
  nulClass : Nat
  bufSize : Nat
  readBufSize : Nat
  /-- recognised text of the shared `<<EOF>>` action -/
  eofActionKnown : Bool
deriving Repr

/-- Semantic action of a grammar rule, recognised from the text of its `case`
in the generated `switch (yyn)`. -/
inductive ParseAct where
  | none
  | settingName        -- $@1: config_setting_add(parent, $1, NONE) / duplicate
  | arrayStart | listStart | groupStart
  | aggEnd             -- ctx->parent = ctx->parent->parent
  | stringFirst | stringNext
  | valBool | valInt | valInt64 | valHex | valHex64 | valFloat | valString
  | unknown
deriving Repr, DecidableEq, Inhabited

structure LalrTables where
  translate : Tab
  pact : Tab
  defact : Tab
  pgoto : Tab
  defgoto : Tab
  table : Tab
  check : Tab
  stos : Tab
  r1 : Tab
  r2 : Tab
  final : Nat
  last : Nat
  ntokens : Nat
  nstates : Nat
  nrules : Nat
  maxutok : Nat
  pactNinf : Int
  tableNinf : Int
  initDepth : Nat
  maxDepth : Nat
  /-- symbol kinds that have a `%destructor` (free) -/
  destructorSyms : List Nat
deriving Repr

/-- Token numbers (`enum yytokentype` of grammar.h). -/
structure TokenNums where
  boolean : Nat
  integer : Nat
  hex : Nat
  integer64 : Nat
  hex64 : Nat
  float : Nat
  string : Nat
  name : Nat
  equals : Nat
  newline : Nat
  arrayStart : Nat
  arrayEnd : Nat
  listStart : Nat
  listEnd : Nat
  comma : Nat
  groupStart : Nat
  groupEnd : Nat
  semicolon : Nat
  garbage : Nat
  error : Nat
deriving Repr

end Libconfig
