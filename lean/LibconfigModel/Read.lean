import LibconfigModel.Parser
/-
  `__config_read`, `config_read_string`, `config_read`, `config_read_file`
  (lib/libconfig.c).
-/
namespace Libconfig

inductive Source where
  | string (s : Bytes)
  | stream (content : Bytes)
  | file (path : Bytes)
deriving Repr, Inhabited

structure ReadOut where
  cfg : Config
  ok : Bool
  result : ParseResult
  /-- destructor calls (clearing the old tree, overrides during the parse) -/
  dtorLog : List Nat
  events : List IOEvent
deriving Repr, Inhabited

/-- `__config_set_error` -/
def Config.setError (c : Config) (ty : Nat) (text : Option Bytes) : Config :=
  { c with errType := ty, errText := text, errFile := none, errLine := 0 }

def theEnv (w : World) (c : Config) (fuel : Nat) : ParserEnv :=
  { P := Generated.parser, acts := Generated.parseActions, T := Generated.scanner,
    sacts := Generated.scanActions, w := w, ic := { fn := c.includeFn, dir := c.includeDir },
    lexFuel := fuel }

/-- `__config_read(config, stream, filename, str)` on input bytes `inp`. -/
def readCore (w : World) (c : Config) (filename : Option Bytes) (inp : Bytes) (fuel : Nat) : ReadOut :=
  let c := c.setError ERR_NONE none
  let (c, log0) := c.clear
  let s0 : ScanState :=
    { buf := { rest := inp }, topFile := filename,
      filenames := match filename with | some f => [f] | none => [] }
  let c := { c with root := { c.root with file := filename } }
  let (s, ctx, r) := yyparse (theEnv w c fuel) fuel s0 { cfg := c }
  let c := ctx.cfg
  let c := if r != .accept then { c with errFile := s.currentFilename, errType := ERR_PARSE } else c
  -- unwinding: close the stream of every frame left on the stack, delete their buffers
  let unwind : List IOEvent := s.stack.flatMap fun f =>
    (match f.files[f.cur]? with | some p => [IOEvent.fclose p] | none => []) ++ [IOEvent.delBuf]
  let c := { c with filenames := s.filenames }
  { cfg := c, ok := r == .accept, result := r, dtorLog := log0 ++ ctx.log, events := s.events ++ unwind }

def read (w : World) (c : Config) (src : Source) (fuel : Nat) : ReadOut :=
  match src with
  | .string s => readCore w c none (cstr s) fuel
  | .stream content => readCore w c none content fuel
  | .file path =>
    match w.open? path with
    | none =>
      { cfg := c.setError ERR_FILE_IO (some Generated.IO_ERROR_TEXT), ok := false, result := .abort,
        dtorLog := [], events := [.fopen path false] }
    | some content =>
      let r := readCore w c (some path) content fuel
      { r with events := [.fopen path true] ++ r.events ++ [.fclose path] }

/-! ### Resource ledger over the I/O events of a read (properties C10/C11)

Pure additions: nothing above refers to these definitions.  `ledger` replays an event list
(`IOEvent`, Scanner.lean): which streams the library currently holds open and how many
flex buffers it has created for included files and not yet deleted. -/
/-- State of the ledger.
* `opened` – paths of the streams opened by `fopen` and not yet closed, most recent
  first (a multiset: the same path may be open several times);
* `bufs`   – buffers created by `yy_create_buffer` for included files and not yet
  deleted (the top-level buffer, created by `__config_read` and deleted by
  `yylex_destroy`, is outside the event list);
* `stray`  – `fclose` events naming a path that is not open at that moment;
* `under`  – `yy_delete_buffer` events with no live include buffer. -/
structure Ledger where
  opened : List Bytes := []
  bufs : Nat := 0
  stray : List Bytes := []
  under : Nat := 0
deriving Repr, Inhabited, DecidableEq

def Ledger.step (L : Ledger) : IOEvent → Ledger
  | .fopen p true => { L with opened := p :: L.opened }
  | .fopen _ false => L
  | .fclose p =>
    if p ∈ L.opened then { L with opened := L.opened.erase p }
    else { L with stray := L.stray ++ [p] }
  | .newBuf => { L with bufs := L.bufs + 1 }
  | .delBuf =>
    match L.bufs with
    | 0 => { L with under := L.under + 1 }
    | n + 1 => { L with bufs := n }

def Ledger.run (L : Ledger) (es : List IOEvent) : Ledger := es.foldl Ledger.step L

/-- the ledger of an event list, from nothing open -/
def ledger (es : List IOEvent) : Ledger := Ledger.run {} es

/-- nothing open, no live include buffer, no buffer deleted twice -/
def Ledger.balanced (L : Ledger) : Bool := L.opened.isEmpty && L.bufs == 0 && L.under == 0

/-- the path an event names -/
def IOEvent.path : IOEvent → Option Bytes
  | .fopen p _ => some p
  | .fclose p => some p
  | .newBuf => none
  | .delBuf => none

/-- The current files of the frames on the include stack whose stream is open: the
file `files[cur]` of every frame for which that entry exists and can be opened in `w`
(a frame whose current file could not be opened has `current_stream == NULL`). -/
def openOf (w : World) : List Frame → List Bytes
  | [] => []
  | f :: fs =>
    (match f.files[f.cur]? with
     | some p => if (w.open? p).isSome then [p] else []
     | none => []) ++ openOf w fs


end Libconfig
