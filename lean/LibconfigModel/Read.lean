import LibconfigModel.Parser
/-
  `__config_read`, `config_read_string`, `config_read`, `config_read_file`
  (lib/libconfig.c).
-/
namespace Libconfig

inductive Source where
  | string (s : Bytes)
  | stream (content : Bytes)
  | file (path : Bytes)
deriving Repr, Inhabited

structure ReadOut where
  cfg : Config
  ok : Bool
  result : ParseResult
  /-- destructor calls (clearing the old tree, overrides during the parse) -/
  dtorLog : List Nat
  events : List IOEvent
deriving Repr, Inhabited

/-- `__config_set_error` -/
def Config.setError (c : Config) (ty : Nat) (text : Option Bytes) : Config :=
  { c with errType := ty, errText := text, errFile := none, errLine := 0 }

def theEnv (w : World) (c : Config) (fuel : Nat) : ParserEnv :=
  { P := Generated.parser, acts := Generated.parseActions, T := Generated.scanner,
    sacts := Generated.scanActions, w := w, ic := { fn := c.includeFn, dir := c.includeDir },
    lexFuel := fuel }

/-- `__config_read(config, stream, filename, str)` on input bytes `inp`. -/
def readCore (w : World) (c : Config) (filename : Option Bytes) (inp : Bytes) (fuel : Nat) : ReadOut :=
  let c := c.setError ERR_NONE none
  let (c, log0) := c.clear
  let s0 : ScanState :=
    { buf := { rest := inp }, topFile := filename,
      filenames := match filename with | some f => [f] | none => [] }
  let c := { c with root := { c.root with file := filename } }
  let (s, ctx, r) := yyparse (theEnv w c fuel) fuel s0 { cfg := c }
  let c := ctx.cfg
  let c := if r != .accept then { c with errFile := s.currentFilename, errType := ERR_PARSE } else c
  -- unwinding: close the stream of every frame left on the stack, delete their buffers
  let unwind : List IOEvent := s.stack.flatMap fun f =>
    (match f.files[f.cur]? with | some p => [IOEvent.fclose p] | none => []) ++ [IOEvent.delBuf]
  let c := { c with filenames := s.filenames }
  { cfg := c, ok := r == .accept, result := r, dtorLog := log0 ++ ctx.log, events := s.events ++ unwind }

def read (w : World) (c : Config) (src : Source) (fuel : Nat) : ReadOut :=
  match src with
  | .string s => readCore w c none (cstr s) fuel
  | .stream content => readCore w c none content fuel
  | .file path =>
    match w.open? path with
    | none =>
      { cfg := c.setError ERR_FILE_IO (some Generated.IO_ERROR_TEXT), ok := false, result := .abort,
        dtorLog := [], events := [.fopen path false] }
    | some content =>
      let r := readCore w c (some path) content fuel
      { r with events := [.fopen path true] ++ r.events ++ [.fclose path] }

end Libconfig
