import LibconfigModel.Scanner
import LibconfigModel.Api
/-
  `libconfig_yyparse`: the bison 3.8 LALR(1) skeleton (`yybackup`, `yydefault`,
  `yyreduce`, `yyerrlab`, stack limit) over the translated tables, with the
  semantic actions of lib/grammar.y operating on the API model.
-/
namespace Libconfig

/-- `struct parse_context` (+ the configuration being built and the destructor
log produced by overrides). -/
structure ParseCtx where
  cfg : Config
  parent : Option Path := some []
  setting : Option Path := some []
  /-- `ctx->string`: `none` = released / never written -/
  str : Option Bytes := none
  log : List Nat := []
deriving Repr, Inhabited

inductive ParseResult where
  | accept
  | abort          -- YYABORT or a syntax error (yyparse returns 1)
  | exhausted      -- "memory exhausted" (yyparse returns 2)
  | crash          -- the C code would dereference NULL here (never reached for this grammar)
  | echo (byte : Nat)
  | outOfFuel
deriving Repr, DecidableEq, Inhabited

/-- `libconfig_yyerror`: the first message of a read wins. -/
def ParseCtx.yyerror (ctx : ParseCtx) (line : Nat) (text : Bytes) : ParseCtx :=
  if ctx.cfg.errText.isSome then ctx
  else { ctx with cfg := { ctx.cfg with errLine := line, errText := some text } }

def ParseCtx.nodeAt (ctx : ParseCtx) (p : Option Path) : Option Node :=
  match p with
  | some q => ctx.cfg.root.get? q
  | none => none

def ParseCtx.inTy (ctx : ParseCtx) (ty : Nat) : Bool :=
  match ctx.nodeAt ctx.parent with
  | some n => n.ty == ty
  | none => false

def ParseCtx.modify (ctx : ParseCtx) (p : Path) (f : Node → Node) : ParseCtx :=
  { ctx with cfg := { ctx.cfg with root := ctx.cfg.root.modify f p } }

/-- CAPTURE_PARSE_POS -/
def ParseCtx.capture (ctx : ParseCtx) (p : Path) (line : Nat) (file : Option Bytes) : ParseCtx :=
  ctx.modify p (fun n => { n with line := line, file := file })

/-- result of a semantic action -/
inductive ActOut where
  | ok (ctx : ParseCtx)
  | abort (ctx : ParseCtx)
  | crash (ctx : ParseCtx)

/-- the shared shape of the `$@2/$@3/$@4` mid-rule actions -/
def actAggStart (ctx : ParseCtx) (ty : Nat) (line : Nat) (file : Option Bytes) : ActOut :=
  if ctx.inTy T_LIST then
    match ctx.parent, ctx.nodeAt ctx.parent with
    | some pp, some pn =>
      match pn.add ctx.cfg.destructor (ctx.cfg.opt OPT_ALLOW_OVERRIDES) none ty with
      | some (pn', i, log) =>
        let ctx := { (ctx.modify pp (fun _ => pn')) with parent := some (pp ++ [i]), log := ctx.log ++ log }
        .ok (ctx.capture (pp ++ [i]) line file)
      | none => .crash ctx     -- CAPTURE_PARSE_POS(NULL)
    | _, _ => .crash ctx
  else
    match ctx.setting with
    | some sp =>
      if (ctx.cfg.root.get? sp).isSome then
        .ok { (ctx.modify sp (fun n => { n with ty := ty })) with parent := some sp, setting := none }
      else .crash ctx
    | none => .crash ctx

/-- the shared shape of the `simple_value` actions: `setter` is the scalar
setter, `ty` the element type, `fmt` the format to set afterwards (if any) -/
def actValue (ctx : ParseCtx) (setter : Node → Option Node) (ty : Nat) (fmt : Option Nat)
    (line : Nat) (file : Option Bytes) (errText : Bytes) : ActOut :=
  let setFmt (n : Node) : Node :=
    match fmt with
    | some f => (n.setFormat f).getD n
    | none => n
  if ctx.inTy T_ARRAY || ctx.inTy T_LIST then
    match ctx.parent, ctx.nodeAt ctx.parent with
    | some pp, some pn =>
      match pn.setElem setter ty (-1) with
      | none => .abort (ctx.yyerror line errText)
      | some (pn', i) =>
        let ctx := ctx.modify pp (fun _ => pn')
        let ctx := ctx.modify (pp ++ [i]) setFmt
        .ok (ctx.capture (pp ++ [i]) line file)
    | _, _ => .crash ctx
  else
    match ctx.setting with
    | some sp =>
      if (ctx.cfg.root.get? sp).isSome then
        .ok (ctx.modify sp (fun n => setFmt ((setter n).getD n)))
      else .crash ctx
    | none => .crash ctx

/-- Semantic action of rule `act`; `v` is `yyvsp[0]`. -/
def runAction (act : ParseAct) (ctx : ParseCtx) (v : TokVal) (line : Nat) (file : Option Bytes) : ActOut :=
  let auto := ctx.cfg.opt OPT_AUTOCONVERT
  match act with
  | .none => .ok ctx
  | .settingName =>
    match ctx.parent, ctx.nodeAt ctx.parent with
    | some pp, some pn =>
      match pn.add ctx.cfg.destructor (ctx.cfg.opt OPT_ALLOW_OVERRIDES) (some v.sval) T_NONE with
      | some (pn', i, log) =>
        let ctx := { (ctx.modify pp (fun _ => pn')) with setting := some (pp ++ [i]), log := ctx.log ++ log }
        .ok (ctx.capture (pp ++ [i]) line file)
      | none => .abort ({ ctx with setting := none }.yyerror line Generated.ERR_DUPLICATE_SETTING)
    | _, _ => .abort ({ ctx with setting := none }.yyerror line Generated.ERR_DUPLICATE_SETTING)
  | .arrayStart => actAggStart ctx T_ARRAY line file
  | .listStart => actAggStart ctx T_LIST line file
  | .groupStart => actAggStart ctx T_GROUP line file
  | .aggEnd =>
    match ctx.parent with
    | some [] => .ok { ctx with parent := none }
    | some p => .ok { ctx with parent := some p.dropLast }
    | none => .ok ctx
  | .stringFirst => .ok { ctx with str := some (ctx.str.getD [] ++ v.sval) }
  | .stringNext => .ok { ctx with str := some (ctx.str.getD [] ++ v.sval) }
  | .valBool => actValue ctx (fun n => n.setBool v.ival) T_BOOL none line file Generated.ERR_ARRAY_ELEM_TYPE
  | .valInt => actValue ctx (fun n => n.setInt auto v.ival) T_INT (some FMT_DEFAULT) line file Generated.ERR_ARRAY_ELEM_TYPE
  | .valInt64 => actValue ctx (fun n => n.setInt64 auto v.ival) T_INT64 (some FMT_DEFAULT) line file Generated.ERR_ARRAY_ELEM_TYPE
  | .valHex => actValue ctx (fun n => n.setInt auto v.ival) T_INT (some FMT_HEX) line file Generated.ERR_ARRAY_ELEM_TYPE
  | .valHex64 => actValue ctx (fun n => n.setInt64 auto v.ival) T_INT64 (some FMT_HEX) line file Generated.ERR_ARRAY_ELEM_TYPE
  | .valFloat => actValue ctx (fun n => n.setFloat auto v.fval) T_FLOAT none line file Generated.ERR_ARRAY_ELEM_TYPE
  | .valString =>
    let s := ctx.str
    actValue { ctx with str := none } (fun n => n.setString s) T_STRING none line file Generated.ERR_ARRAY_ELEM_TYPE
  | .unknown => .crash ctx

/-- lookahead: `none` = YYEMPTY -/
abbrev Lookahead := Option (Nat × TokVal)

structure ParserEnv where
  P : LalrTables
  acts : List ParseAct
  T : FlexTables
  sacts : List ScanAct
  w : World
  ic : IncludeCfg
  lexFuel : Nat

/-- symbol kind of a token number (`YYTRANSLATE`), 0 for end of input -/
def translateTok (P : LalrTables) (t : Nat) : Nat :=
  if t == 0 then 0 else if t ≤ P.maxutok then (P.translate.get t).toNat else 2

/-- One call of `yyparse`: `stack` holds (state, value), top first. -/
def yyparseLoop (E : ParserEnv) :
    Nat → List (Nat × TokVal) → Lookahead → ScanState → ParseCtx → ScanState × ParseCtx × ParseResult
  | 0, _, _, s, ctx => (s, ctx, .outOfFuel)
  | fuel+1, stack, la, s, ctx =>
    let P := E.P
    match stack with
    | [] => (s, ctx, .crash)
    | (state, _) :: _ =>
    -- yysetstate: stack limit
    if stack.length ≥ P.maxDepth then
      (s, ctx.yyerror s.buf.lineno Generated.ERR_EXHAUSTED, .exhausted)
    else if state == P.final then (s, ctx, .accept)
    else
      let reduce (rule : Nat) (la : Lookahead) (s : ScanState) (ctx : ParseCtx) :=
        let len := (P.r2.get rule).toNat
        let v := (stack.headD (0, {})).2
        match runAction (E.acts.getD rule .unknown) ctx v s.buf.lineno s.currentFilename with
        | .abort ctx' => (s, ctx', ParseResult.abort)
        | .crash ctx' => (s, ctx', ParseResult.crash)
        | .ok ctx' =>
          let stack' := stack.drop len
          let top := (stack'.headD (0, {})).1
          let lhs := (P.r1.get rule).toNat - P.ntokens
          let yyi := P.pgoto.get lhs + top
          let st' : Nat :=
            if 0 ≤ yyi && yyi ≤ P.last && P.check.get yyi.toNat == top then (P.table.get yyi.toNat).toNat
            else (P.defgoto.get lhs).toNat
          -- `$$ = $1`: the value of the first right-hand-side symbol (garbage for empty rules)
          let yyval := if len == 0 then v else ((stack.drop (len - 1)).headD (0, {})).2
          yyparseLoop E fuel ((st', yyval) :: stack') la s ctx'
      let syntaxError (s : ScanState) (ctx : ParseCtx) :=
        (s, ctx.yyerror s.buf.lineno Generated.ERR_SYNTAX, ParseResult.abort)
      let dflt (la : Lookahead) (s : ScanState) (ctx : ParseCtx) :=
        let r := (P.defact.get state).toNat
        if r == 0 then syntaxError s ctx else reduce r la s ctx
      let yyn := P.pact.get state
      if yyn == P.pactNinf then dflt la s ctx
      else
        -- need a lookahead
        let fetched : ScanState × Option (Nat × TokVal) × Option ParseResult × ParseCtx :=
          match la with
          | some l => (s, some l, none, ctx)
          | none =>
            match yylex E.T E.sacts E.w E.ic E.lexFuel s with
            | (s', .tok t v) => (s', some (t, v), none, ctx)
            | (s', .eof) => (s', some (0, {}), none, ctx)
            | (s', .includeError t text file line) =>
              (s', some (t, {}), none,
               { ctx with cfg := { ctx.cfg with errText := some text, errFile := file, errLine := line } })
            | (s', .echo b) => (s', none, some (.echo b), ctx)
            | (s', .outOfFuel) => (s', none, some .outOfFuel, ctx)
        match fetched with
        | (s, _, some r, ctx) => (s, ctx, r)
        | (s, none, none, ctx) => (s, ctx, .crash)
        | (s, some (t, v), none, ctx) =>
          let tok := translateTok P t
          let idx := yyn + tok
          if idx < 0 || idx > P.last || P.check.get idx.toNat != tok then dflt (some (t, v)) s ctx
          else
            let a := P.table.get idx.toNat
            if a ≤ 0 then
              if a == P.tableNinf then syntaxError s ctx
              else reduce (-a).toNat (some (t, v)) s ctx
            else
              yyparseLoop E fuel ((a.toNat, v) :: stack) none s ctx

def yyparse (E : ParserEnv) (fuel : Nat) (s : ScanState) (ctx : ParseCtx) :
    ScanState × ParseCtx × ParseResult :=
  yyparseLoop E fuel [(0, {})] none s ctx

end Libconfig
