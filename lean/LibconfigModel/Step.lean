import LibconfigModel.Read
import LibconfigModel.Writer
import LibconfigModel.WriteFile
/-
  The whole public C API as one transition function over an operation alphabet:
  `step : State → Op → State × Out`.  Property theorems quantify over `Op`
  (C04, C05, C16) and the driver (Main.lean) is only a parser/printer around it.
-/
namespace Libconfig

inductive Kind where
  | int | int64 | float | bool | string
deriving Repr, DecidableEq, Inhabited

/-- a typed scalar handed to / returned by the API -/
inductive Val where
  | int (v : Int)
  | float (bits : Nat)
  | str (s : Option Bytes)
  /-- a float→integer cast outside the target range (undefined in C; never compared) -/
  | unspec
deriving Repr, DecidableEq, Inhabited

inductive Op where
  -- structure
  | add (p : Path) (name : Option Bytes) (ty : Int)
  | remove (p : Path) (name : Option Bytes)
  | removeElem (p : Path) (idx : Nat)
  -- values
  | setInt (p : Path) (v : Int)
  | setInt64 (p : Path) (v : Int)
  | setFloat (p : Path) (bits : Nat)
  | setBool (p : Path) (v : Int)
  | setString (p : Path) (s : Option Bytes)
  | setIntElem (p : Path) (idx : Int) (v : Int)
  | setInt64Elem (p : Path) (idx : Int) (v : Int)
  | setFloatElem (p : Path) (idx : Int) (bits : Nat)
  | setBoolElem (p : Path) (idx : Int) (v : Int)
  | setStringElem (p : Path) (idx : Int) (s : Option Bytes)
  | setFormat (p : Path) (f : Nat)
  | setHook (p : Path) (h : Nat)
  -- configuration attributes
  | setOptions (n : Nat)
  | setOption (o : Nat) (flag : Bool)
  | setTabWidth (w : Nat)
  | setFloatPrecision (n : Nat)
  | setDefaultFormat (n : Nat)
  | setIncludeDir (d : Option Bytes)
  | setIncludeFn (n : Nat)
  | setDestructor (on : Bool)
  | setConfigHook (h : Nat)
  | clear
  | destroy            -- config_destroy followed by config_init
  | read (src : Source)
  -- queries
  | get (k : Kind) (p : Path)
  | getElemVal (k : Kind) (p : Path) (idx : Int)
  | lookupVal (k : Kind) (p : Path) (name : Option Bytes)
  | clookupVal (k : Kind) (path : Bytes)
  | lookup (p : Path) (path : Bytes)
  | getElem (p : Path) (idx : Nat)
  | getMember (p : Path) (name : Option Bytes)
  | length (p : Path)
  | index (p : Path)
  | getFormat (p : Path)
  | getOption (o : Nat)
  | write
  | writeFile (path : Bytes)
  | cat (path : Bytes)
  -- the file system the reads see
  | mkfile (path content : Bytes)
  | mkdir (path : Bytes)
  | rmfile (path : Bytes)
deriving Repr, Inhabited

inductive Res where
  | badOp                       -- the operation addresses a setting that does not exist
  | unit
  | flag (b : Bool)             -- CONFIG_TRUE / CONFIG_FALSE
  | ptr (p : Option Path)       -- a setting (by index path) or NULL
  | val (v : Val)               -- plain getter
  | optVal (v : Option Val)     -- (ok, *value): `none` = failure, output untouched
  | nat (n : Int)
  | bytes (b : Bytes)
  | readResult (r : ParseResult)
deriving Repr, Inhabited

structure Out where
  res : Res
  /-- destructor calls made during the operation, in order -/
  log : List Nat := []
deriving Repr, Inhabited

structure State where
  cfg : Config := Config.init
  world : World := {}
deriving Repr, Inhabited

def State.init : State := {}

/-! ### composite accessors (the by-name, by-path and by-index families) -/

def floatUnspec32 (auto : Bool) (n : Node) : Bool := n.ty == T_FLOAT && auto && !floatCastOk32 n.fval
def floatUnspec64 (auto : Bool) (n : Node) : Bool := n.ty == T_FLOAT && auto && !floatCastOk64 n.fval

/-- `__config_setting_get_*`: `none` = CONFIG_FALSE (output untouched) -/
def typedGet (k : Kind) (auto : Bool) (n : Node) : Option Val :=
  match k with
  | .int => if floatUnspec32 auto n then some .unspec else (n.getInt auto).map .int
  | .int64 => if floatUnspec64 auto n then some .unspec else (n.getInt64 auto).map .int
  | .float => (n.getFloat auto).map .float
  | .bool => if n.ty == T_BOOL then some (.int n.ival) else none
  | .string => if n.ty == T_STRING then some (.str n.sval) else none

/-- `config_setting_get_*`: 0 / 0.0 / NULL on mismatch -/
def plainGet (k : Kind) (auto : Bool) (n : Node) : Val :=
  match k with
  | .int => if floatUnspec32 auto n then .unspec else .int ((n.getInt auto).getD 0)
  | .int64 => if floatUnspec64 auto n then .unspec else .int ((n.getInt64 auto).getD 0)
  | .float => .float ((n.getFloat auto).getD 0)
  | .bool => .int n.getBool
  | .string => .str n.getString

/-- `config_setting_get_*_elem(setting, idx)` (`idx` is an `int` converted to `unsigned`) -/
def getElemVal (k : Kind) (auto : Bool) (n : Node) (idx : Int) : Val :=
  let e := if idx < 0 then getElem n (idx + 4294967296).toNat else getElem n idx.toNat
  match e with
  | none => (match k with | .float => .float 0 | .string => .str none | _ => .int 0)
  | some e =>
    match k with
    | .bool => .int (if e.ty == T_BOOL then e.ival else 0)
    | .string => .str (if e.ty == T_STRING then e.sval else none)
    | _ => plainGet k auto e

/-- `config_setting_lookup_*(setting, name, &value)` -/
def lookupVal (k : Kind) (auto : Bool) (n : Node) (name : Option Bytes) : Option Val :=
  match name with
  | none => none
  | some nm =>
    match getMember n nm with
    | none => none
    | some (_, m) => typedGet k auto m

/-- `config_lookup_*(config, path, &value)` -/
def clookupVal (k : Kind) (c : Config) (path : Bytes) : Option Val :=
  match lookupFrom c.root path with
  | none => none
  | some q =>
    match c.root.get? q with
    | none => none
    | some m => typedGet k (c.opt OPT_AUTOCONVERT) m

def floatSetUnspec (auto : Bool) (n : Node) (bits : Nat) : Bool :=
  auto && ((n.ty == T_INT && !floatCastOk32 bits) || (n.ty == T_INT64 && !floatCastOk64 bits))

/-! ### the transition function -/

def State.withRoot (s : State) (r : Node) : State := { s with cfg := { s.cfg with root := r } }
def State.withCfg (s : State) (c : Config) : State := { s with cfg := c }

def setAt (s : State) (p : Path) (f : Node → Option Node) : State × Out :=
  match s.cfg.root.get? p with
  | none => (s, { res := .badOp })
  | some n =>
    match f n with
    | none => (s, { res := .flag false })
    | some n' => (s.withRoot (s.cfg.root.modify (fun _ => n') p), { res := .flag true })

def setElemAt (s : State) (p : Path) (idx : Int) (setter : Node → Option Node) (ty : Nat) : State × Out :=
  match s.cfg.root.get? p with
  | none => (s, { res := .badOp })
  | some n =>
    match n.setElem setter ty idx with
    | none => (s, { res := .ptr none })
    | some (n', i) => (s.withRoot (s.cfg.root.modify (fun _ => n') p), { res := .ptr (some (p ++ [i])) })

def query (s : State) (p : Path) (f : Node → Res) : State × Out :=
  match s.cfg.root.get? p with
  | none => (s, { res := .badOp })
  | some n => (s, { res := f n })

def readFuel : Nat := 100000000

def step (s : State) (op : Op) : State × Out :=
  let c := s.cfg
  let auto := c.opt OPT_AUTOCONVERT
  match op with
  | .add p name ty =>
    match c.root.get? p with
    | none => (s, { res := .badOp })
    | some n =>
      match n.add c.destructor (c.opt OPT_ALLOW_OVERRIDES) name ty with
      | none => (s, { res := .ptr none })
      | some (n', i, log) => (s.withRoot (c.root.modify (fun _ => n') p), { res := .ptr (some (p ++ [i])), log := log })
  | .remove p name =>
    match c.root.get? p with
    | none => (s, { res := .badOp })
    | some n =>
      match n.remove c.destructor name with
      | none => (s, { res := .flag false })
      | some (n', log) => (s.withRoot (c.root.modify (fun _ => n') p), { res := .flag true, log := log })
  | .removeElem p idx =>
    match c.root.get? p with
    | none => (s, { res := .badOp })
    | some n =>
      match n.removeElem c.destructor idx with
      | none => (s, { res := .flag false })
      | some (n', log) => (s.withRoot (c.root.modify (fun _ => n') p), { res := .flag true, log := log })
  | .setInt p v => setAt s p (fun n => n.setInt auto v)
  | .setInt64 p v => setAt s p (fun n => n.setInt64 auto v)
  | .setFloat p b =>
    match c.root.get? p with
    | none => (s, { res := .badOp })
    | some n => if floatSetUnspec auto n b then (s, { res := .val .unspec }) else setAt s p (fun n => n.setFloat auto b)
  | .setBool p v => setAt s p (fun n => n.setBool v)
  | .setString p v => setAt s p (fun n => n.setString v)
  | .setIntElem p idx v => setElemAt s p idx (fun n => n.setInt auto v) T_INT
  | .setInt64Elem p idx v => setElemAt s p idx (fun n => n.setInt64 auto v) T_INT64
  | .setFloatElem p idx b =>
    let unspec := match c.root.get? p with
      | some n =>
        if idx < 0 then false else
        match getElem n idx.toNat with
        | some e => floatSetUnspec auto e b
        | none => false
      | none => false
    if unspec then (s, { res := .val .unspec }) else setElemAt s p idx (fun n => n.setFloat auto b) T_FLOAT
  | .setBoolElem p idx v => setElemAt s p idx (fun n => n.setBool v) T_BOOL
  | .setStringElem p idx v => setElemAt s p idx (fun n => n.setString v) T_STRING
  | .setFormat p f => setAt s p (fun n => n.setFormat f)
  | .setHook p h =>
    match c.root.get? p with
    | none => (s, { res := .badOp })
    | some _ => (s.withRoot (c.root.modify (fun n => { n with hook := h }) p), { res := .unit })
  | .setOptions n => (s.withCfg { c with options := n % 4294967296 }, { res := .unit })
  | .setOption o f => (s.withCfg (c.setOption o f), { res := .unit })
  | .setTabWidth w => (s.withCfg (c.setTabWidth w), { res := .unit })
  | .setFloatPrecision n => (s.withCfg { c with floatPrecision := n }, { res := .unit })
  | .setDefaultFormat n => (s.withCfg { c with defaultFormat := n }, { res := .unit })
  | .setIncludeDir d => (s.withCfg { c with includeDir := d }, { res := .unit })
  | .setIncludeFn n => (s.withCfg { c with includeFn := n }, { res := .unit })
  | .setDestructor on => (s.withCfg { c with destructor := on }, { res := .unit })
  | .setConfigHook h => (s.withCfg { c with hook := h }, { res := .unit })
  | .clear =>
    let (c', log) := c.clear
    (s.withCfg c', { res := .unit, log := log })
  | .destroy => (s.withCfg Config.init, { res := .unit, log := destroyLog c.destructor c.root })
  | .read src =>
    let r := read s.world c src readFuel
    (s.withCfg r.cfg, { res := .readResult r.result, log := r.dtorLog })
  | .get k p => query s p (fun n => .val (plainGet k auto n))
  | .getElemVal k p idx => query s p (fun n => .val (getElemVal k auto n idx))
  | .lookupVal k p name => query s p (fun n => .optVal (lookupVal k auto n name))
  | .clookupVal k path => (s, { res := .optVal (clookupVal k c path) })
  | .lookup p path => query s p (fun n => .ptr ((lookupFrom n path).map (p ++ ·)))
  | .getElem p idx => query s p (fun n => .ptr ((getElem n idx).map fun _ => p ++ [idx]))
  | .getMember p name => query s p (fun n =>
      match name with
      | none => .ptr none
      | some nm => .ptr ((getMember n nm).map fun (i, _) => p ++ [i]))
  | .length p => query s p (fun n => .nat n.length)
  | .index p => query s p (fun _ => .nat (indexOfPath p))
  | .getFormat p => query s p (fun n => .nat (effFormat c n))
  | .getOption o => (s, { res := .flag (c.opt o) })
  | .write => (s, { res := .bytes (c.write Generated.FLOAT_BUF_SIZE) })
  | .writeFile path =>
    let r := writeFile Generated.FLOAT_BUF_SIZE c { openOk := s.world.canCreate path }
    let w' : World := match r.fileBytes with
      | some b => { files := (path, some b) :: s.world.files.filter (·.1 != path) }
      | none => s.world
    ({ cfg := r.cfg, world := w' }, { res := .flag r.ret })
  | .cat path => (s, { res := match s.world.open? path with | some b => .bytes b | none => .ptr none })
  | .mkfile p content => ({ s with world := { files := (p, some content) :: s.world.files.filter (·.1 != p) } }, { res := .unit })
  | .mkdir p => ({ s with world := { files := (p, none) :: s.world.files.filter (·.1 != p) } }, { res := .unit })
  | .rmfile p => ({ s with world := { files := s.world.files.filter (·.1 != p) } }, { res := .unit })

/-- run a history from the initial state -/
def run (ops : List Op) : State := ops.foldl (fun s o => (step s o).1) State.init

end Libconfig
