import LibconfigModel.Generated.ScannerTables
/-
  The input buffer of the generated scanner (lib/scanner.c, flex 2.6.4, reentrant,
  `%option never-interactive`, no REJECT / yymore / unput / input()), for a buffer
  that is backed by a `FILE *` — the kind libconfig creates with `yy_create_buffer`
  (`config_read` and `config_read_file` through `yyrestart`, `@include` directly).  The
  buffer of `config_read_string` (`yy_scan_string`) is never refilled: its
  `yy_fill_buffer == 0` makes `yy_get_next_buffer` return before any of this arithmetic.

  What is modelled, statement by statement:

  * `yy_create_buffer` + `yy_init_buffer` + `yy_flush_buffer` + `yy_load_buffer_state`
    (`create`): `yy_buf_size = YY_BUF_SIZE`, `yy_buf_size + 2` bytes allocated, the two
    end-of-buffer NULs at `[0]`, `[1]`, `yy_n_chars = 0`, `yy_buf_pos = &yy_ch_buf[0]`,
    `yy_buffer_status = YY_BUFFER_NEW`, `yy_fill_buffer = 1`;
  * `yy_get_next_buffer` (`getNextBuffer`): the "end of buffer missed" check,
    `number_to_move = yy_c_buf_p - yytext_ptr - 1`, the move loop, the
    `YY_BUFFER_EOF_PENDING` short cut, `num_to_read = yy_buf_size - number_to_move - 1`,
    the growth loop `while ( num_to_read <= 0 )` with its `yyrealloc( yy_buf_size + 2 )`,
    the clamp to `YY_READ_BUF_SIZE`, `YY_INPUT`, the three `EOB_ACT_*` results including
    the `yyrestart` of `EOB_ACT_END_OF_FILE`, the last `yyrealloc` (`yy_n_chars +
    number_to_move > yy_buf_size`), `yy_n_chars += number_to_move`, the two sentinel
    stores and `yytext_ptr = &yy_ch_buf[0]`;
  * the part of `yylex` that touches the buffer: `YY_DO_BEFORE_ACTION` (the hold
    character), the `case YY_END_OF_BUFFER:` action (`eobStep`) and the start of the next
    iteration of the `while ( 1 )` loop (`tokStep`).

  The matcher itself is NOT fixed here: an execution is a list of `Event`s — "a rule
  matched `l` bytes" for any `l` with `yytext_ptr + l ≤ yy_n_chars`, or "the matcher ran
  into the end-of-buffer sentinel" together with the number of bytes `k` that the next
  `fread` is willing to deliver (the chunk oracle).  Every behaviour of the real matcher
  is among these (it stops at the first sentinel because every state has a transition on
  the end-of-buffer class and the end-of-buffer state jams on everything); the theorems in
  `Properties/C20Buffer.lean` hold for all of them.  `Proofs/C20BufferFlex.lean` plugs the
  table-driven matcher of `Flex.lean` into this interface.

  Pointers into `yy_ch_buf` are offsets (`Nat`), `int` quantities that cannot be negative
  are `Nat`, `num_to_read` is an `Int` exactly as in the source.  Sizes do not wrap: the
  source doubles `yy_buf_size` unless `yy_buf_size * 2` overflows `int` (then it adds
  1/8); `growC` is that statement and `growC_eq_double` says it is the doubling of the
  model as long as `2 * yy_buf_size ≤ INT_MAX` — the no-overflow assumption, which
  `C20B_no_overflow` derives from a bound on the length of the stream (the buffer never
  exceeds twice that length, `C20B_size_bound`).  `yyrealloc` is assumed to
  succeed (otherwise the scanner calls `YY_FATAL_ERROR`); what it returns beyond the old
  contents is `Params.junk`, an arbitrary byte on which nothing depends.

  Cross-check (validation, not part of any proof): scanner.c compiled with
  `#define YY_USER_ACTION` printing `YY_START, yy_buf_size, yy_n_chars, yytext_ptr, yyleng,
  yy_c_buf_p` at every rule action, against `C20BP.lexBuf` (this model driven by the matcher
  of `Flex.lean`, reads offering unboundedly many bytes) on files of 60–198 KB with tokens of
  16383, 20000, 40000 and 70000 bytes and NUL bytes at offsets 8190–8193, 16382–16385,
  24574–24576: 98404 actions, all six numbers equal at every one of them.

  Not reachable for this kind of buffer and therefore left out: `yy_fill_buffer == 0`
  (only `yy_scan_buffer`), `yy_is_our_buffer == 0` (ditto), `yy_is_interactive`.
-/
namespace Libconfig
namespace FlexBuffer

/-- `yy_buffer_status` -/
inductive Status where
  | new          -- YY_BUFFER_NEW
  | normal       -- YY_BUFFER_NORMAL
  | eofPending   -- YY_BUFFER_EOF_PENDING
deriving Repr, DecidableEq, Inhabited

/-- result of `yy_get_next_buffer` -/
inductive Ret where
  | endOfFile      -- EOB_ACT_END_OF_FILE
  | continueScan   -- EOB_ACT_CONTINUE_SCAN
  | lastMatch      -- EOB_ACT_LAST_MATCH
  /-- `YY_FATAL_ERROR( "fatal flex scanner internal error--end of buffer missed" )` -/
  | fatal
deriving Repr, DecidableEq, Inhabited

/-- the test of the growth loop, as written in scanner.c: `num_to_read <= 0` -/
def growTestC : Int → Bool := fun n => decide (n ≤ 0)

/-- the seeded change: `num_to_read < 0` -/
def growTestSeeded : Int → Bool := fun n => decide (n < 0)

structure Params where
  /-- `YY_BUF_SIZE` -/
  B : Nat
  /-- `YY_READ_BUF_SIZE` -/
  R : Nat
  /-- content of freshly allocated memory -/
  junk : Nat := 0xAA
  /-- the test of `while ( num_to_read <= 0 )` -/
  test : Int → Bool := growTestC

/-- the assumptions of the theorems: positive constants, the growth test of scanner.c -/
structure Params.OK (P : Params) : Prop where
  B : 0 < P.B
  R : 0 < P.R
  test : P.test = growTestC

/-- the constants of lib/scanner.c (translated on every run) -/
def scannerParams : Params :=
  { B := Generated.scanner.bufSize, R := Generated.scanner.readBufSize }

/-- One memory access of the buffer code, with the size of the allocation it goes to. -/
inductive Access where
  /-- a load from `yy_ch_buf[idx]` -/
  | load (alloc idx : Nat)
  /-- a store to `yy_ch_buf[idx]` -/
  | store (alloc idx : Nat)
  /-- the move loop `for ( i = 0; i < n; ++i ) *(dest++) = *(source++)` with
  `source = &yy_ch_buf[src]`, `dest = &yy_ch_buf[dst]` -/
  | copy (alloc src dst n : Nat)
  /-- `YY_INPUT( &yy_ch_buf[dst], result, max )`: `fread` may store to all of
  `[dst, dst + max)` -/
  | input (alloc dst : Nat) (max : Int)
  /-- the matching loop (`yy_match`, `yy_get_previous_state`, the line count) accesses
  `yy_ch_buf[lo] … yy_ch_buf[hi - 1]`: it loads them, and when it backs up or meets a NUL
  byte in the data it stores a NUL and puts the hold character back at one of them -/
  | scan (alloc lo hi : Nat)
  /-- `yyrealloc( yy_ch_buf, new )` -/
  | realloc (old new : Nat)
deriving Repr, DecidableEq

/-- the access lies inside the allocation; `YY_INPUT` is asked for at least one byte; a
`yyrealloc` does not shrink the buffer -/
def Access.ok : Access → Prop
  | .load alloc idx => idx < alloc
  | .store alloc idx => idx < alloc
  | .copy alloc src dst n => src + n ≤ alloc ∧ dst + n ≤ alloc
  | .input alloc dst max => 1 ≤ max ∧ (dst : Int) + max ≤ alloc
  | .scan alloc lo hi => lo ≤ hi ∧ hi ≤ alloc
  | .realloc old new => old ≤ new

instance : DecidablePred Access.ok := fun a => by
  cases a <;> unfold Access.ok <;> infer_instance

/-- `yy_buffer_state` of the current buffer, the fields of `yyguts_t` that point into
it, the stream behind `yy_input_file`, and two ghost fields: the log of memory
accesses and the texts handed to the rule actions. -/
structure State where
  /-- contents of `yy_ch_buf`; `ch.length` bytes are allocated -/
  ch : Bytes
  /-- `yy_buf_size` -/
  bufSize : Nat
  /-- `yy_n_chars` (of `yyguts_t` and, copied, of the buffer) -/
  nChars : Nat
  /-- `yytext_ptr - yy_ch_buf` (= `yy_bp` while matching) -/
  textPtr : Nat
  /-- `yy_c_buf_p - yy_ch_buf` -/
  cBufP : Nat
  /-- `yy_hold_char` -/
  holdChar : Nat
  /-- `yy_buffer_status` -/
  status : Status
  /-- the bytes of the stream that `fread` has not delivered yet -/
  rest : Bytes
  /-- ghost: every access so far -/
  log : List Access := []
  /-- ghost: `yytext` of every rule action so far -/
  tokens : List Bytes := []
deriving Repr

/-! ### memory primitives -/

/-- the effect of the move loop: `n` bytes from offset `src` to offset 0 -/
def moveFront (ch : Bytes) (src n : Nat) : Bytes := (ch.drop src).take n ++ ch.drop n

/-- the move loop itself, `for ( i = 0; i < n; ++i ) *(dest++) = *(source++)`; it is
`moveFront` whenever `dest ≤ source` (`copyLoop_eq_moveFront`) -/
def copyLoop : Nat → Nat → Nat → Bytes → Bytes
  | 0, _, _, ch => ch
  | n + 1, dst, src, ch => copyLoop n (dst + 1) (src + 1) (ch.set dst (ch.getD src 0))

/-- `fread` storing `data` at offset `pos` -/
def writeAt (ch : Bytes) (pos : Nat) (data : Bytes) : Bytes :=
  ch.take pos ++ data ++ ch.drop (pos + data.length)

/-- `yyrealloc( ch, n )` -/
def resize (junk : Nat) (ch : Bytes) (n : Nat) : Bytes :=
  ch.take n ++ List.replicate (n - ch.length) junk

/-! ### creation -/

/-- `yy_load_buffer_state` for a buffer whose `yy_buf_pos` is `&yy_ch_buf[0]` (the only
place where the model needs `yy_buf_pos` is directly behind `yy_flush_buffer`, which sets it
so): `yy_n_chars = b->yy_n_chars; yytext_ptr = yy_c_buf_p = b->yy_buf_pos;
yy_hold_char = *yy_c_buf_p;` -/
def loadBufferState (s : State) : State :=
  { s with textPtr := 0, cBufP := 0, holdChar := s.ch.getD 0 0,
           log := s.log ++ [.load s.ch.length 0] }

/-- `yy_flush_buffer( b )` followed by a `yy_load_buffer_state` (for the current buffer
`yy_flush_buffer` ends with that call; for a new one the prologue of `yylex` makes it) -/
def flush (s : State) : State :=
  loadBufferState
    { s with
      nChars := 0                            -- b->yy_n_chars = 0
      ch := (s.ch.set 0 0).set 1 0           -- b->yy_ch_buf[0] = b->yy_ch_buf[1] = YY_END_OF_BUFFER_CHAR
      status := .new                         -- b->yy_buffer_status = YY_BUFFER_NEW
      log := s.log ++ [.store s.ch.length 0, .store s.ch.length 1] }

/-- `yyrestart( yyin )`: `yy_init_buffer( YY_CURRENT_BUFFER, yyin )` (= `yy_flush_buffer`, and
`yy_fill_buffer = 1`), then `yy_load_buffer_state` once more -/
def restart (s : State) : State := loadBufferState (flush s)

/-- `yy_create_buffer( yyin, YY_BUF_SIZE )` and `yy_load_buffer_state` in the prologue of
`yylex`; `stream` is what `yyin` will deliver -/
def create (P : Params) (stream : Bytes) : State :=
  flush { ch := List.replicate (P.B + 2) P.junk     -- yyalloc( b->yy_buf_size + 2 )
          bufSize := P.B                            -- b->yy_buf_size = size
          nChars := 0, textPtr := 0, cBufP := 0, holdChar := 0, status := .new
          rest := stream }

/-! ### `yy_get_next_buffer` -/

/-- `num_to_read = yy_buf_size - number_to_move - 1` -/
def numToRead (sz ntm : Nat) : Int := (sz : Int) - (ntm : Int) - 1

/-- `int new_size = b->yy_buf_size * 2; if ( new_size <= 0 ) b->yy_buf_size += b->yy_buf_size / 8;
else b->yy_buf_size *= 2;` for an `int` whose largest value is `M` (the multiplication
wraps to a non-positive value exactly when the product exceeds `M` or is 0) -/
def growC (M sz : Nat) : Nat := if 2 * sz > M ∨ 2 * sz = 0 then sz + sz / 8 else 2 * sz

theorem growC_eq_double (M sz : Nat) (h : 2 * sz ≤ M) : growC M sz = 2 * sz := by
  unfold growC
  split
  · omega
  · rfl

/-- the growth loop
```
while ( num_to_read <= 0 ) {
    b->yy_buf_size *= 2;
    b->yy_ch_buf = yyrealloc( b->yy_ch_buf, b->yy_buf_size + 2 );
    yy_c_buf_p = &b->yy_ch_buf[yy_c_buf_p_offset];
    num_to_read = b->yy_buf_size - number_to_move - 1;
}
```
(structural in `fuel`; `number_to_move + 2` iterations always suffice, see
`C20BP.growLoop_room`; from a reachable state it runs at most once, `C20BP.growLoop_eq`) -/
def growLoop (P : Params) : Nat → Nat → State → State
  | 0, _, s => s
  | fuel + 1, ntm, s =>
    if P.test (numToRead s.bufSize ntm) then
      let sz := 2 * s.bufSize
      growLoop P fuel ntm
        { s with bufSize := sz, ch := resize P.junk s.ch (sz + 2),
                 log := s.log ++ [.realloc s.ch.length (sz + 2)] }
    else s

/-- "First move last chars to start of buffer." -/
def moveStage (ntm : Nat) (s : State) : State :=
  { s with ch := moveFront s.ch s.textPtr ntm,
           log := s.log ++ [.copy s.ch.length s.textPtr 0 ntm] }

/-- the `if ( status == YY_BUFFER_EOF_PENDING ) … else { … YY_INPUT … }` part; `k` is the
number of bytes the stream is willing to deliver to this `fread` (fewer if fewer are asked
for or left).  Afterwards `nChars` is the `result` of `YY_INPUT`. -/
def readStage (P : Params) (k ntm : Nat) (s : State) : State :=
  match s.status with
  | .eofPending => { s with nChars := 0 }
  | _ =>
    let s1 := growLoop P (ntm + 2) ntm s
    let n0 := numToRead s1.bufSize ntm
    -- if ( num_to_read > YY_READ_BUF_SIZE ) num_to_read = YY_READ_BUF_SIZE;
    let n1 : Int := if n0 > (P.R : Int) then (P.R : Int) else n0
    -- YY_INPUT( &yy_ch_buf[number_to_move], yy_n_chars, num_to_read ): `fread` delivers the
    -- next `min k num_to_read` bytes of the stream, fewer if the stream ends first
    let data := s1.rest.take (min k n1.toNat)
    { s1 with ch := writeAt s1.ch ntm data
              nChars := data.length
              rest := s1.rest.drop data.length
              log := s1.log ++ [.input s1.ch.length ntm n1] }

/-- `ret_val` -/
def retVal (ntm : Nat) (s : State) : Ret :=
  if s.nChars = 0 then (if ntm = 0 then .endOfFile else .lastMatch) else .continueScan

/-- `if ( yy_n_chars == 0 ) { if ( number_to_move == YY_MORE_ADJ ) yyrestart( yyin ); else
status = YY_BUFFER_EOF_PENDING; }` -/
def statusStage (ntm : Nat) (s : State) : State :=
  if s.nChars = 0 then (if ntm = 0 then restart s else { s with status := .eofPending }) else s

/-- `if ( yy_n_chars + number_to_move > yy_buf_size ) { … yyrealloc( new_size ) …
yy_buf_size = new_size - 2; }` (never taken for this kind of buffer: `C20B_extend_dead`) -/
def extendStage (P : Params) (ntm : Nat) (s : State) : State :=
  if s.nChars + ntm > s.bufSize then
    let newSize := s.nChars + ntm + (s.nChars >>> 1)
    { s with ch := resize P.junk s.ch newSize, bufSize := newSize - 2,
             log := s.log ++ [.realloc s.ch.length newSize] }
  else s

/-- `yy_n_chars += number_to_move;` the two sentinels; `yytext_ptr = &yy_ch_buf[0]` -/
def sentinelStage (ntm : Nat) (s : State) : State :=
  let n := s.nChars + ntm
  { s with nChars := n, ch := (s.ch.set n 0).set (n + 1) 0, textPtr := 0,
           log := s.log ++ [.store s.ch.length n, .store s.ch.length (n + 1)] }

/-- `yy_get_next_buffer( yyscanner )` -/
def getNextBuffer (P : Params) (k : Nat) (s : State) : State × Ret :=
  if s.cBufP > s.nChars + 1 then (s, .fatal) else
  let ntm := s.cBufP - s.textPtr - 1
  let s2 := readStage P k ntm (moveStage ntm s)
  (sentinelStage ntm (extendStage P ntm (statusStage ntm s2)), retVal ntm s2)

/-! ### the buffer side of `yylex` -/

/-- `YY_DO_BEFORE_ACTION` with `yy_cp = &yy_ch_buf[p]`: `yy_hold_char = *yy_cp; *yy_cp = '\0';
yy_c_buf_p = yy_cp;` (`yytext_ptr = yy_bp` is the model's `textPtr` already) -/
def doBeforeAction (p : Nat) (s : State) : State :=
  { s with holdChar := s.ch.getD p 0, ch := s.ch.set p 0, cBufP := p,
           log := s.log ++ [.load s.ch.length p, .store s.ch.length p] }

/-- `*yy_cp = yy_hold_char;` with `yy_cp = yy_c_buf_p` -/
def restoreHold (s : State) : State :=
  { s with ch := s.ch.set s.cBufP s.holdChar, log := s.log ++ [.store s.ch.length s.cBufP] }

/-- A rule other than end-of-buffer matched `l` bytes (`yytext_ptr + l ≤ yy_n_chars`,
otherwise nothing happens): the matching loop has looked at bytes up to the first
sentinel at most, `YY_DO_BEFORE_ACTION`, the action sees `yytext`, and the next iteration of
`while ( 1 )` starts with `yy_cp = yy_c_buf_p; *yy_cp = yy_hold_char; yy_bp = yy_cp;`. -/
def tokStep (l : Nat) (s : State) : State :=
  if s.textPtr + l ≤ s.nChars then
    let s0 := { s with log := s.log ++ [.scan s.ch.length s.textPtr (s.nChars + 1)] }
    let s1 := doBeforeAction (s.textPtr + l) s0
    let s2 := { s1 with tokens := s1.tokens ++ [(s1.ch.drop s1.textPtr).take l] }
    let s3 := restoreHold s2
    { s3 with textPtr := s3.cBufP }
  else s

/-- The matching loop ran into the sentinel: it has loaded both NULs (the first takes every
state to the end-of-buffer state, the second jams it), `yy_cp = &yy_ch_buf[yy_n_chars + 1]`,
`YY_DO_BEFORE_ACTION`, then `case YY_END_OF_BUFFER:` — the hold character is put back,
a `YY_BUFFER_NEW` buffer becomes `YY_BUFFER_NORMAL`, `yy_c_buf_p <= &yy_ch_buf[yy_n_chars]`
is false, `yy_get_next_buffer`, and `yy_c_buf_p` is set according to its result. -/
def eobEnter (s : State) : State :=
  let s0 := { s with log := s.log ++ [.scan s.ch.length s.textPtr (s.nChars + 2)] }
  let s1 := restoreHold (doBeforeAction (s.nChars + 1) s0)
  match s1.status with
  | .new => { s1 with status := .normal }
  | _ => s1

/-- the `switch ( yy_get_next_buffer( yyscanner ) )` of `case YY_END_OF_BUFFER:`; `amount` is
`yy_amount_of_matched_text` -/
def eobExit (amount : Nat) (r : State × Ret) : State × Ret :=
  match r.2 with
  | .endOfFile => ({ r.1 with cBufP := r.1.textPtr }, r.2)          -- yywrap() is 1
  | .continueScan => ({ r.1 with cBufP := r.1.textPtr + amount }, r.2)
  | .lastMatch => ({ r.1 with cBufP := r.1.nChars }, r.2)
  | .fatal => r

def eobStep (P : Params) (k : Nat) (s : State) : State × Ret :=
  let s1 := eobEnter s
  eobExit (s1.cBufP - s1.textPtr - 1) (getNextBuffer P k s1)

/-- what the matcher does next, and how many bytes the stream offers to a read -/
inductive Event where
  | tok (l : Nat)
  | eob (k : Nat)
deriving Repr

def step (P : Params) (s : State) : Event → State
  | .tok l => tokStep l s
  | .eob k => (eobStep P k s).1

def run (P : Params) (es : List Event) (s : State) : State := es.foldl (step P) s

/-! ### what the theorems talk about -/

/-- the bytes between `yytext_ptr` and the sentinel: the token in progress and everything
buffered behind it -/
def window (s : State) : Bytes := (s.ch.drop s.textPtr).take (s.nChars - s.textPtr)

/-- the text still to be scanned: the window, then what the stream has not delivered -/
def pending (s : State) : Bytes := window s ++ s.rest

/-- What holds between two events. -/
structure Inv (P : Params) (s : State) : Prop where
  /-- the allocation is `yy_buf_size + 2` bytes -/
  alloc : s.ch.length = s.bufSize + 2
  /-- one byte of `yy_buf_size` is never used: `yy_n_chars < yy_buf_size` -/
  room : s.nChars < s.bufSize
  text : s.textPtr ≤ s.cBufP
  cur : s.cBufP ≤ s.nChars
  /-- the two end-of-buffer characters -/
  sentinel0 : s.ch[s.nChars]? = some 0
  sentinel1 : s.ch[s.nChars + 1]? = some 0
  /-- the buffer has only ever been doubled -/
  size : ∃ j, s.bufSize = P.B * 2 ^ j
  /-- every access so far was in bounds, every `YY_INPUT` asked for ≥ 1 byte -/
  safe : ∀ a ∈ s.log, a.ok

end FlexBuffer
end Libconfig
