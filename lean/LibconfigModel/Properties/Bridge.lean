import LibconfigModel.Step
import LibconfigModel.Writer
import LibconfigModel.Generated.FunctionTables
/-
  Bridges between hand-written model functions and the code, for functions whose domain is
  finite: tools/translate.py compiles a probe that #includes lib/libconfig.c and evaluates the
  REAL function over its whole domain on every run (Generated/FunctionTables.lean); the
  theorems below state that the model function takes the same value at EVERY argument.  For
  these functions the tie between model and code is therefore complete, not sampled: a change
  of the C function changes the table and breaks the theorem; a change of the model likewise.

  Used by: C04 (valid names, type classes, what an array accepts), C05 (which settings take
  a format), C19 (tab-width clamp, precision), C01/C19 (the writer's string escaping).
-/
namespace Libconfig.Bridge

/-- every `w` in `lo..hi` satisfies `p` (structural recursion on the length of the interval) -/
def allFrom (p : Nat → Bool) : Nat → Nat → Bool
  | _, 0 => true
  | lo, n + 1 => p lo && allFrom p (lo + 1) n

theorem allFrom_sound (p : Nat → Bool) : ∀ n lo, allFrom p lo n = true → ∀ w, lo ≤ w → w < lo + n → p w = true
  | 0, lo, _, w, h1, h2 => by omega
  | n + 1, lo, h, w, h1, h2 => by
    simp only [allFrom, Bool.and_eq_true] at h
    by_cases hw : w = lo
    · subst hw; exact h.1
    · exact allFrom_sound p n (lo + 1) h.2 w (by omega) (by omega)

/-- value of a segment table at `w` (`none` outside every segment) -/
def segLookup : List (Nat × Nat × Bool × Nat) → Nat → Option Nat
  | [], _ => none
  | (lo, hi, ident, v) :: rest, w => if lo ≤ w && w ≤ hi then some (if ident then w else v) else segLookup rest w

/-! ### names -/

/-- `__config_validate_name`, character by character: the first byte of a name and every
later byte are accepted by the model exactly when the real function accepts them (evaluated
on the one-byte string `c` and on the two-byte string `a c`, for every byte 1..255). -/
theorem name_table :
    allFrom (fun c => validName [c] == Generated.nameFirstTable.getD c false) 1 255 = true ∧
    allFrom (fun c => validName [97, c] == Generated.nameRestTable.getD c false) 1 255 = true := by
  decide +kernel

theorem name_first (c : Nat) (h1 : 1 ≤ c) (h2 : c < 256) :
    validName [c] = Generated.nameFirstTable.getD c false := by
  have := allFrom_sound _ 255 1 name_table.1 c h1 (by omega)
  exact beq_iff_eq.mp this

theorem name_rest (c : Nat) (h1 : 1 ≤ c) (h2 : c < 256) :
    validName [97, c] = Generated.nameRestTable.getD c false := by
  have := allFrom_sound _ 255 1 name_table.2 c h1 (by omega)
  exact beq_iff_eq.mp this

/-- the model's `validName` is the per-character test the tables describe -/
theorem validName_chars (c : Nat) (cs : Bytes) :
    validName (c :: cs) = (validName [c] && cs.all fun d => validName [97, d]) := by
  have h97 : (isUpper 97 || isLower 97) = true := by decide
  simp [validName, isAlpha, h97]

/-! ### type classes -/

theorem type_tables :
    allFrom (fun t => isScalarTy (t : Nat) == Generated.typeScalarTable.getD t false) 0 9 = true ∧
    allFrom (fun t => isAggregateTy t == Generated.typeAggregateTable.getD t false) 0 9 = true ∧
    allFrom (fun t => (t == T_INT || t == T_INT64 || t == T_FLOAT) == Generated.typeNumberTable.getD t false) 0 9 = true := by
  decide +kernel

/-! ### what an array accepts, which settings take a format -/

/-- the model's answer for `config_setting_add(array, NULL, t)` on an empty array (`a = 1`) or
an array whose first element has type `a` (2..6) -/
def modelArrayAdd (a t : Nat) : Bool :=
  let s0 := run ([.add [] (some [97]) (T_ARRAY : Nat)] ++ (if a ≥ 2 then [Op.add [0] none (a : Nat)] else []))
  match (step s0 (.add [0] none (t : Nat))).2.res with
  | .ptr (some _) => true
  | _ => false

theorem array_add_table :
    allFrom (fun i => modelArrayAdd (i / 9 + 1) (i % 9) == Generated.arrayAddTable.getD i false) 0 54 = true := by
  decide +kernel

/-- the model's answer for `config_setting_set_format(setting of type t, f)` -/
def modelFormatOk (t f : Nat) : Bool :=
  let s0 := run [.add [] (some [120]) (t : Nat)]
  match (step s0 (.setFormat [0] f)).2.res with
  | .flag b => b
  | _ => false

theorem format_table :
    allFrom (fun i => modelFormatOk (i / 4) (i % 4) == Generated.formatOkTable.getD i false) 0 36 = true := by
  decide +kernel

/-- the model's account of the whole life of a format: the default format is `d0` when
`config_setting_set_format(setting of type t, f)` is called and `d1` when the setting is
observed: 100·success + 10·(format stored in the setting) + effective format -/
def modelFormatEffect (t d0 f d1 : Nat) : Nat :=
  let s0 := run [.add [] (some [120]) (t : Nat), .setDefaultFormat d0]
  let r := step s0 (.setFormat [0] f)
  let s1 := (step r.1 (.setDefaultFormat d1)).1
  let ok := match r.2.res with | .flag true => 100 | _ => 0
  let stored := match s1.cfg.root.kids with | n :: _ => n.fmt | [] => 99
  let eff := match (step s1 (.getFormat [0])).2.res with | .nat e => e.toNat | _ => 99
  ok + 10 * stored + eff

/-- An explicitly assigned format is stored as given — whatever the default format is at that
moment — and the effective format follows the default exactly when nothing was assigned:
the model equals the real functions on the whole domain (9 types × 2 defaults × 4 requested
formats × 2 later defaults). -/
theorem format_effect_table :
    allFrom (fun i => modelFormatEffect (i / 16) (i / 8 % 2) (i / 2 % 4) (i % 2) == Generated.formatEffectTable.getD i 7777) 0 144 = true := by
  decide +kernel

/-! ### which typed lookups and assignments succeed (the success pattern of C07's conversion table)

For every stored type 0..8, every requested kind and both auto-convert settings, on the
canonical values 1 / 1.0 / "x" / true: whether the typed lookup succeeds, and for the typed
assignment the success flag together with the setting's type afterwards.  (The VALUES of the
conversions are C07's theorems and the boundary grid; this table makes the success pattern a
complete tie.) -/

def kindOf : Nat → Kind
  | 0 => .int | 1 => .int64 | 2 => .float | 3 => .bool | _ => .string

/-- `config_init`, auto-convert `a`, a member `x` of type `t` holding the canonical value -/
def cellState (t : Nat) (a : Bool) : State :=
  run ([.setOption OPT_AUTOCONVERT a, .add [] (some [120]) (t : Nat)] ++
       (if t == T_INT then [Op.setInt [0] 1] else if t == T_INT64 then [Op.setInt64 [0] 1]
        else if t == T_FLOAT then [Op.setFloat [0] 0x3FF0000000000000] else if t == T_STRING then [Op.setString [0] (some [120])]
        else if t == T_BOOL then [Op.setBool [0] 1] else []))

def modelGetOk (t k : Nat) (a : Bool) : Bool :=
  match (step (cellState t a) (.lookupVal (kindOf k) [] (some [120]))).2.res with
  | .optVal (some _) => true
  | _ => false

def modelSetResult (t k : Nat) (a : Bool) : Nat :=
  let s0 := run [.setOption OPT_AUTOCONVERT a, .add [] (some [120]) (t : Nat)]
  let op : Op := match k with
    | 0 => .setInt [0] 1 | 1 => .setInt64 [0] 1 | 2 => .setFloat [0] 0x3FF0000000000000
    | 3 => .setBool [0] 1 | _ => .setString [0] (some [120])
  let (s1, o) := step s0 op
  (match o.res with | .flag true => 100 | _ => 0) + (match s1.cfg.root.get? [0] with | some n => n.ty | none => 99)

theorem get_table :
    allFrom (fun i => modelGetOk (i / 10) (i / 2 % 5) (i % 2 == 1) == Generated.getOkTable.getD i false) 0 90 = true := by
  decide +kernel

theorem set_table :
    allFrom (fun i => modelSetResult (i / 10) (i / 2 % 5) (i % 2 == 1) == Generated.setResultTable.getD i 999) 0 90 = true := by
  decide +kernel

/-! ### presentation attributes over all `unsigned short` arguments

The probe evaluates the setter/getter pair for all 65536 arguments and compresses the answers
into maximal segments; the bridge pins the segment list to the documented behaviour ("widths
above 15 act as 15"; the precision is stored as given) and the model is proved equal to the
table at every argument. -/

theorem tab_width_segs : Generated.tabWidthSegs = [(0, 15, true, 0), (16, 65535, false, 15)] := by decide
theorem float_precision_segs : Generated.floatPrecisionSegs = [(0, 65535, true, 0)] := by decide

/-- `config_set_tab_width(w)` for every `unsigned short w`: the model's value is the real one -/
theorem tab_width (w : Nat) (h : w < 65536) :
    segLookup Generated.tabWidthSegs w = some (Config.init.setTabWidth w).tabWidth := by
  rw [tab_width_segs]
  unfold Config.setTabWidth
  by_cases h15 : w ≤ 15
  · simp [segLookup, h15]
  · have h16 : 16 ≤ w := by omega
    have h0 : ¬ (w ≤ 15) := h15
    simp [segLookup, h0, h16]; omega

/-- `config_set_float_precision(p)` for every `unsigned short p` -/
theorem float_precision (p : Nat) (h : p < 65536) :
    segLookup Generated.floatPrecisionSegs p =
      some (step State.init (.setFloatPrecision p)).1.cfg.floatPrecision := by
  rw [float_precision_segs]
  have : p ≤ 65535 := by omega
  simp [segLookup, this, step, State.withCfg]

/-! ### the scanner's `\xHH` escape and the option word -/

/-- the hex-digit alphabet of the probe: `0123456789abcdefABCDEF` -/
def hexDigitAt (i : Nat) : Nat :=
  if i < 10 then 48 + i else if i < 16 then 97 + (i - 10) else 65 + (i - 16)

/-- what the `.appendHexChar` action of Scanner.lean appends for the lexeme `\xHH`
(`digitsVal 16 (text.drop 2) % 256`), encoded like the probe's table: the byte, +1000 when
the rest of the literal is still visible behind it (a byte 0 ends the C string) -/
def modelHexEscape (x i j : Nat) : Int :=
  let text : Bytes := [92, if x == 1 then 88 else 120, hexDigitAt i, hexDigitAt j]
  let b := digitsVal 16 (text.drop 2) % 256
  if b == 0 then 0 else (b : Int) + 1000

theorem hex_escape_table :
    allFrom (fun n => modelHexEscape (n / 484) (n / 22 % 22) (n % 22) == Generated.hexEscapeTable.getD n (-1)) 0 968 = true := by
  decide +kernel

/-- `config_set_option(1 <<< bit, flag)` on the initial option word, every bit position -/
theorem option_set_table :
    allFrom (fun n => (Config.init.setOption (2 ^ (n / 2)) (n % 2 == 1)).options == Generated.optionSetTable.getD n 0) 0 64 = true := by
  decide +kernel

/-! ### the writer's string escaping -/

/-- what the writer prints for every one-byte string 1..255 is what `escapeString` gives;
`escapeString` is a `flatMap`, so this determines it on every string -/
theorem escape_table :
    allFrom (fun c => escapeString [c] == Generated.writerEscapeTable.getD (c - 1) []) 1 255 = true := by
  decide +kernel

theorem escape_byte (c : Nat) (h1 : 1 ≤ c) (h2 : c < 256) :
    escapeString [c] = Generated.writerEscapeTable.getD (c - 1) [] := by
  have := allFrom_sound _ 255 1 escape_table c h1 (by omega)
  exact beq_iff_eq.mp this

theorem escapeString_bytes (s : Bytes) : escapeString s = s.flatMap fun c => escapeString [c] := by
  unfold escapeString
  induction s with
  | nil => rfl
  | cons c cs ih => simp [List.flatMap_cons]

end Libconfig.Bridge
