import LibconfigModel.Properties.C10Splice
import LibconfigModel.Properties.C03Term
import LibconfigModel.Proofs.C10SpliceTotal
/-
  C10 (end) — "@include is textual inlining", TOTAL form: no fuel hypothesis is left.

  Properties/C10Splice.lean proves the splice equivalence (`C10_splice`, `C10_splice_config`)
  assuming that the read with includes does not end `.outOfFuel`, and proves the scanner half of
  that assumption (`C10_tokens_exist`: with `mu` iterations per `yylex` call both scans reach end
  of input).  Properties/C03Term.lean proves the parser half for any world (`C03_parse_fuel`:
  `8·|toks| + 10` iterations of the LALR loop suffice for `|toks|` tokens).  Here the two are put
  together.  The link: every token returned strictly lowers `mu` (`yylex_total`), so the scan
  returns FEWER THAN `mu` TOKENS (`C10_token_count`).  Hence the explicit bound

      spliceFuel w c top content  =  8 · mu + 10        (`mu` of the start state of the read)

  — `mu` is the bound of Proofs/C10SpliceSim.lean computed from the sizes of the files of the
  tree; it is computable (77 for the example tree below, so `spliceFuel` = 626).

  PROVED, for an include tree with `IncludeTreeOK' w ic 10 content` and the top file `top` with
  that content, for EVERY `fuel ≥ spliceFuel`:
  * `C10_read_with_includes_terminates` — the read of the top file does not end `.outOfFuel`;
  * `C10_spliced_read_terminates` — nor does the read of the spliced text;
  * `C10_splice_total` — neither read runs out of fuel and they agree on `ok`, on the
    `ParseResult` and on `stripPos root`;
  * `C10_splice_config_total` — … and on the whole configuration up to source positions
    (`erasePositions`) and on the destructor calls;
  * `C10_splice_total_exists` — the `∃ N, ∀ fuel ≥ N` form;
  * `C10_splice_total_toks` — the sharper bound `max mu (8·|toks| + 10)` for someone who knows
    the token sequence `toks` (from a scan with whatever fuel per call);
  * `C10_read_fuel_irrelevant`, `C10_spliced_read_fuel_irrelevant` — the fuel of the model is not
    observable above the bound: every `fuel ≥ spliceFuel` gives the same `ReadOut`, for the read
    with includes and for the read of the spliced text.  (Together with termination: each read
    has a definite outcome — which is what "terminates" means for the fuelled model.)

  Nothing asked for turned out false of the model.
-/
set_option autoImplicit false

namespace Libconfig.C10

open Libconfig.C10S Libconfig.C10T Libconfig.C09P

/-- the fuel that suffices for a read of the top file `top` (content `content`) of an include
tree into the configuration `c`: `8·mu + 10`, `mu` the bound of the scanner iterations of
`C10_tokens_exist` for the start state of that read -/
def spliceFuel (w : World) (c : Config) (top content : Bytes) : Nat :=
  8 * mu w { fn := c.includeFn, dir := c.includeDir } (scanStart (some top) content) + 10

/-- **The scan with includes returns fewer than `mu` tokens.**  `C10_tokens_exist` with a bound
for the length of the token sequence: with any fuel `≥ mu` per `yylex` call, both scans reach
end of input with exactly `toks`, and `|toks| < mu`. -/
theorem C10_token_count (w : World) (ic : IncludeCfg) (top : Option Bytes) (content : Bytes)
    (h : IncludeTreeOK' w ic 10 content) :
    ∃ toks : List (Nat × TokVal), toks.length < mu w ic (scanStart top content) ∧
      ∀ fuel, mu w ic (scanStart top content) ≤ fuel →
        Lexes w ic fuel (scanStart top content) toks ∧
        Lexes w ic fuel (scanStart none (splice w ic 11 content)) toks :=
  tokens_exist_len w ic top content h

/-- **A read with includes terminates (model level).**  For an include tree of at most 10
levels (`IncludeTreeOK'`), the read of the top file with `fuel ≥ 8·mu + 10` does not end
`.outOfFuel`: neither a `yylex` call (≤ `mu` iterations each) nor the parser loop
(≤ `8·|toks| + 10` iterations, `|toks| < mu`) runs out. -/
theorem C10_read_with_includes_terminates (w : World) (c : Config) (top content : Bytes)
    (hopen : w.open? top = some content)
    (htree : IncludeTreeOK' w { fn := c.includeFn, dir := c.includeDir } 10 content)
    (fuel : Nat) (hf : spliceFuel w c top content ≤ fuel) :
    (read w c (.file top) fuel).result ≠ .outOfFuel := by
  rw [read_file_result w c top content fuel hopen]
  exact parseOf_top_terminates w c (some top) content htree fuel hf

/-- **@include = textual inlining, total.**  For an include tree of at most 10 levels
(`IncludeTreeOK'`) and every `fuel ≥ spliceFuel = 8·mu + 10`: reading the top file and reading
the spliced text both terminate (no `.outOfFuel`), with the same outcome (`ok`, `ParseResult`)
and the same configuration up to the recorded source positions.  No fuel hypothesis. -/
theorem C10_splice_total (w : World) (c : Config) (top content : Bytes)
    (hopen : w.open? top = some content)
    (htree : IncludeTreeOK' w { fn := c.includeFn, dir := c.includeDir } 10 content)
    (fuel : Nat) (hf : spliceFuel w c top content ≤ fuel) :
    let a := read w c (.file top) fuel
    let b := read w c (.string (splice w { fn := c.includeFn, dir := c.includeDir } 11 content)) fuel
    a.result ≠ .outOfFuel ∧ b.result ≠ .outOfFuel ∧
    a.ok = b.ok ∧ a.result = b.result ∧ stripPos a.cfg.root = stripPos b.cfg.root := by
  intro a b
  have h1 : a.result ≠ .outOfFuel :=
    C10_read_with_includes_terminates w c top content hopen htree fuel hf
  have h := C10_splice w c top content fuel hopen htree h1
  exact ⟨h1, fun hb => h1 (h.2.1.trans hb), h⟩

/-- the read of the spliced text terminates too -/
theorem C10_spliced_read_terminates (w : World) (c : Config) (top content : Bytes)
    (hopen : w.open? top = some content)
    (htree : IncludeTreeOK' w { fn := c.includeFn, dir := c.includeDir } 10 content)
    (fuel : Nat) (hf : spliceFuel w c top content ≤ fuel) :
    (read w c (.string (splice w { fn := c.includeFn, dir := c.includeDir } 11 content)) fuel).result
      ≠ .outOfFuel :=
  (C10_splice_total w c top content hopen htree fuel hf).2.1

/-- **… and everything else agrees too, total**: for every `fuel ≥ spliceFuel` the two reads
terminate and leave the same configuration up to source positions — the same settings, the same
error text and error type, the same attributes — and make the same destructor calls. -/
theorem C10_splice_config_total (w : World) (c : Config) (top content : Bytes)
    (hopen : w.open? top = some content)
    (htree : IncludeTreeOK' w { fn := c.includeFn, dir := c.includeDir } 10 content)
    (fuel : Nat) (hf : spliceFuel w c top content ≤ fuel) :
    let a := read w c (.file top) fuel
    let b := read w c (.string (splice w { fn := c.includeFn, dir := c.includeDir } 11 content)) fuel
    a.result ≠ .outOfFuel ∧ b.result ≠ .outOfFuel ∧
    erasePositions a.cfg = erasePositions b.cfg ∧ a.dtorLog = b.dtorLog := by
  intro a b
  have h := C10_splice_total w c top content hopen htree fuel hf
  exact ⟨h.1, h.2.1, C10_splice_config w c top content fuel hopen htree h.1⟩

/-- the `∃ N, ∀ fuel ≥ N` form of `C10_splice_total` and `C10_splice_config_total` -/
theorem C10_splice_total_exists (w : World) (c : Config) (top content : Bytes)
    (hopen : w.open? top = some content)
    (htree : IncludeTreeOK' w { fn := c.includeFn, dir := c.includeDir } 10 content) :
    ∃ N, ∀ fuel, N ≤ fuel →
      let a := read w c (.file top) fuel
      let b := read w c (.string (splice w { fn := c.includeFn, dir := c.includeDir } 11 content)) fuel
      a.result ≠ .outOfFuel ∧ b.result ≠ .outOfFuel ∧
      a.ok = b.ok ∧ a.result = b.result ∧ stripPos a.cfg.root = stripPos b.cfg.root ∧
      erasePositions a.cfg = erasePositions b.cfg ∧ a.dtorLog = b.dtorLog := by
  refine ⟨spliceFuel w c top content, fun fuel hf => ?_⟩
  have h := C10_splice_total w c top content hopen htree fuel hf
  have h' := C10_splice_config_total w c top content hopen htree fuel hf
  exact ⟨h.1, h.2.1, h.2.2.1, h.2.2.2.1, h.2.2.2.2, h'.2.2.1, h'.2.2.2⟩

/-- **The bound in terms of the token count.**  Whoever knows the token sequence `toks` of the
scan with includes (from a scan with whatever fuel `f₀` per call that reaches end of input) may
take `fuel ≥ mu` (for the scanner) and `fuel ≥ 8·|toks| + 10` (for the parser loop). -/
theorem C10_splice_total_toks (w : World) (c : Config) (top content : Bytes)
    (hopen : w.open? top = some content)
    (htree : IncludeTreeOK' w { fn := c.includeFn, dir := c.includeDir } 10 content)
    (f₀ : Nat) (toks : List (Nat × TokVal))
    (h0 : Lexes w { fn := c.includeFn, dir := c.includeDir } f₀ (scanStart (some top) content) toks)
    (fuel : Nat)
    (hmu : mu w { fn := c.includeFn, dir := c.includeDir } (scanStart (some top) content) ≤ fuel)
    (hf : 8 * toks.length + 10 ≤ fuel) :
    let a := read w c (.file top) fuel
    let b := read w c (.string (splice w { fn := c.includeFn, dir := c.includeDir } 11 content)) fuel
    a.result ≠ .outOfFuel ∧ b.result ≠ .outOfFuel ∧
    a.ok = b.ok ∧ a.result = b.result ∧ stripPos a.cfg.root = stripPos b.cfg.root ∧
    erasePositions a.cfg = erasePositions b.cfg ∧ a.dtorLog = b.dtorLog := by
  intro a b
  have h1 : a.result ≠ .outOfFuel := by
    show (read w c (.file top) fuel).result ≠ .outOfFuel
    rw [read_file_result w c top content fuel hopen]
    exact parseOf_top_terminates_toks w c (some top) content htree f₀ toks h0 fuel hmu hf
  have h := C10_splice w c top content fuel hopen htree h1
  have h' := C10_splice_config w c top content fuel hopen htree h1
  exact ⟨h1, fun hb => h1 (h.2.1.trans hb), h.1, h.2.1, h.2.2, h'.1, h'.2⟩

/-! ### the fuel of the model is not observable -/

/-- **The read with includes has a definite outcome**: every `fuel ≥ spliceFuel` gives the same
`ReadOut` — configuration, error record, outcome, destructor log, I/O events.  (`mu` never grows
along a `yylex` call, so every call made during the read has enough fuel and returns the same
for any two such fuels; the parser loop by `C03_parse_fuel_stable`.) -/
theorem C10_read_fuel_irrelevant (w : World) (c : Config) (top content : Bytes)
    (hopen : w.open? top = some content)
    (htree : IncludeTreeOK' w { fn := c.includeFn, dir := c.includeDir } 10 content)
    (fuel fuel' : Nat) (hf : spliceFuel w c top content ≤ fuel)
    (hf' : spliceFuel w c top content ≤ fuel') :
    read w c (.file top) fuel = read w c (.file top) fuel' :=
  read_file_irrel w c top content hopen htree fuel fuel' hf hf'

/-- … and so has the read of the spliced text (in a world WITH readable files:
`C03_read_fuel_irrelevant` does not apply) -/
theorem C10_spliced_read_fuel_irrelevant (w : World) (c : Config) (top content : Bytes)
    (htree : IncludeTreeOK' w { fn := c.includeFn, dir := c.includeDir } 10 content)
    (fuel fuel' : Nat) (hf : spliceFuel w c top content ≤ fuel)
    (hf' : spliceFuel w c top content ≤ fuel') :
    read w c (.string (splice w { fn := c.includeFn, dir := c.includeDir } 11 content)) fuel =
      read w c (.string (splice w { fn := c.includeFn, dir := c.includeDir } 11 content)) fuel' :=
  read_spliced_irrel w c (some top) content htree fuel fuel' hf hf'

/-- one `yylex` call of the run with includes (from a state related to a state of the spliced
run): with at least `mu` iterations it does not run out of fuel and `mu` does not grow —
`yylex_total` of Proofs/C10SpliceSim.lean with the end-of-input case kept -/
theorem C10_yylex_mu_le (w : World) (ic : IncludeCfg) (s₁ s₂ : ScanState) (fuel : Nat)
    (hrel : Rel w ic s₁ s₂) (hf : mu w ic s₁ ≤ fuel) :
    (yylex Generated.scanner Generated.scanActions w ic fuel s₁).2 ≠ .outOfFuel ∧
    mu w ic (yylex Generated.scanner Generated.scanActions w ic fuel s₁).1 ≤ mu w ic s₁ :=
  yylex_total_le w ic (mu w ic s₁) s₁ s₂ fuel hrel (Nat.le_refl _) hf

/-! ### non-vacuity: the total theorem on the example trees of Properties/C10Splice.lean -/

/-- the bound for the three-level tree `wTree` (include directory, open comment before a nested
directive, last file without final newline, empty file): `mu` = 77, `spliceFuel` = 626 -/
example : spliceFuel wTree cTree (bytesOfString "t") topTree = 626 := by decide +kernel

/-- `C10_splice_total` applies to `wTree` with fuel 626 — every hypothesis is discharged by
evaluation, none mentions the outcome of a read — and its conclusion says something: the read
accepts, four settings, whose recorded positions differ between the two reads -/
example :
    let a := read wTree cTree (.file (bytesOfString "t")) 626
    let b := read wTree cTree (.string (splice wTree icTree 11 topTree)) 626
    (a.result ≠ .outOfFuel ∧ b.result ≠ .outOfFuel ∧
      a.ok = b.ok ∧ a.result = b.result ∧ stripPos a.cfg.root = stripPos b.cfg.root) ∧
    a.result = .accept ∧
    a.cfg.root.kids.map (fun k => (k.name, k.line, k.file)) =
      [(some (bytesOfString "a"), 1, some (bytesOfString "t")),
       (some (bytesOfString "b"), 1, some (bytesOfString "d/i")),
       (some (bytesOfString "g"), 1, some (bytesOfString "/j")),
       (some (bytesOfString "c"), 3, some (bytesOfString "t"))] ∧
    b.cfg.root.kids.map (fun k => (k.name, k.line, k.file)) =
      [(some (bytesOfString "a"), 1, none), (some (bytesOfString "b"), 2, none),
       (some (bytesOfString "g"), 3, none), (some (bytesOfString "c"), 6, none)] :=
  ⟨C10_splice_total wTree cTree (bytesOfString "t") topTree (by decide +kernel) wTree_ok 626
    (by decide +kernel), by decide +kernel, by decide +kernel, by decide +kernel⟩

/-- the conclusion "does not end `.outOfFuel`" is not vacuous: the model does report
`.outOfFuel` on this tree when the fuel is too small (the parser loop needs more than 40
iterations for the 21 tokens; the bound `8·21 + 10` of `C10_splice_total_toks` is 178) -/
example :
    (read wTree cTree (.file (bytesOfString "t")) 40).result = .outOfFuel ∧
    (read wTree cTree (.file (bytesOfString "t")) 178).result = .accept := by decide +kernel

/-- `C10_token_count` on `wTree`: 21 tokens, `mu` = 77 -/
example :
    (lexList wTree icTree 77 77 (scanStart (some (bytesOfString "t")) topTree)).map (·.length) = some 21 ∧
    mu wTree icTree (scanStart (some (bytesOfString "t")) topTree) = 77 := by decide +kernel

/-- `C10_splice_total_toks` on `wTree`: the token sequence from a scan with 50 iterations per
call, fuel `max 77 (8·21 + 10) = 178` -/
example :
    let a := read wTree cTree (.file (bytesOfString "t")) 178
    let b := read wTree cTree (.string (splice wTree icTree 11 topTree)) 178
    a.result ≠ .outOfFuel ∧ b.result ≠ .outOfFuel ∧
    a.ok = b.ok ∧ a.result = b.result ∧ stripPos a.cfg.root = stripPos b.cfg.root ∧
    erasePositions a.cfg = erasePositions b.cfg ∧ a.dtorLog = b.dtorLog := by
  have h : ∃ toks, lexList wTree icTree 50 50 (scanStart (some (bytesOfString "t")) topTree) = some toks ∧
      toks.length = 21 := by decide +kernel
  obtain ⟨toks, h1, h2⟩ := h
  exact C10_splice_total_toks wTree cTree (bytesOfString "t") topTree (by decide +kernel) wTree_ok 50
    toks (lexList_sound _ _ _ _ _ _ h1) 178 (by decide +kernel) (by rw [h2]; decide)

/-- `C10_read_fuel_irrelevant` on `wTree`: fuel 626 and fuel 100000 give the same read (the
second is not evaluated), and the events of the read show the four files (the top file and the three included ones) opened and closed -/
example :
    read wTree cTree (.file (bytesOfString "t")) 626 = read wTree cTree (.file (bytesOfString "t")) 100000 ∧
    (read wTree cTree (.file (bytesOfString "t")) 626).events.length = 14 :=
  ⟨C10_read_fuel_irrelevant wTree cTree (bytesOfString "t") topTree (by decide +kernel) wTree_ok
    626 100000 (by decide +kernel) (by decide +kernel), by decide +kernel⟩

/-- a FAILING read, total: the tree `wErr` (syntax error inside the included file).  Both reads
terminate with `.abort`, "syntax error", and the same two settings -/
example :
    let N := spliceFuel wErr Config.init (bytesOfString "t") topErr
    let a := read wErr Config.init (.file (bytesOfString "t")) N
    let b := read wErr Config.init (.string (splice wErr { fn := 0, dir := none } 11 topErr)) N
    (a.result ≠ .outOfFuel ∧ b.result ≠ .outOfFuel ∧
      erasePositions a.cfg = erasePositions b.cfg ∧ a.dtorLog = b.dtorLog) ∧
    a.result = .abort ∧ a.cfg.errText = some (bytesOfString "syntax error") ∧
    a.cfg.root.kids.map (·.name) = [some (bytesOfString "a"), some (bytesOfString "b")] :=
  ⟨C10_splice_config_total wErr Config.init (bytesOfString "t") topErr (by decide +kernel)
    (checkTree'_sound _ _ 10 _ (by decide +kernel)) _ (Nat.le_refl _),
    by decide +kernel, by decide +kernel, by decide +kernel⟩

end Libconfig.C10
