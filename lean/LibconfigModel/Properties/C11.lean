import LibconfigModel.Read
import LibconfigModel.Proofs.C11
import LibconfigModel.Proofs.C11Tree
/-
  C11 — reads release every file and buffer whatever point they fail at.
  Statements only; helper lemmas live in LibconfigModel/Proofs/C11.lean.

  The include machinery of the model (Scanner.lean / Read.lean) emits an `IOEvent` for
  every `fopen`, `fclose`, `yy_create_buffer` and `yy_delete_buffer` it performs for
  included files.  `ledger` (Ledger.lean) replays such an event list: the multiset of
  streams currently open, the number of live include buffers, and two error counters
  (`stray`: a close of something that is not open, `under`: a buffer deleted twice).
  The theorems quantify over every file system `w`, every configuration (include
  directory, include function), every input and every fuel — hence over every include
  tree and every place at which the read can fail — and have no hypothesis about the
  outcome of the read.

  Partial: absence of leaks inside the generated flex/bison code and inside libc is
  observed by LeakSanitizer in the dynamic part of the check, not proved.
-/
namespace Libconfig.C11

open Libconfig.C11P Libconfig.C09P

/-- **Every file opened is closed, every include buffer created is deleted** — for every
world, configuration, source and fuel, whatever the outcome (accept, abort, exhausted,
echo, crash, out-of-fuel): at return no stream is open, no include buffer is alive, no
buffer was deleted twice, and a close that does not match an open stream can only name a
path that cannot be opened at all (the model emits `fclose` for a frame whose current
file failed to open, where scanctx.c tests `current_stream` first — see the report). -/
theorem C11_balanced (w : World) (c : Config) (src : Source) (fuel : Nat) :
    (ledger (read w c src fuel).events).opened = [] ∧
    (ledger (read w c src fuel).events).bufs = 0 ∧
    (ledger (read w c src fuel).events).under = 0 ∧
    ∀ p ∈ (ledger (read w c src fuel).events).stray, w.open? p = none := by
  have core : ∀ fn inp, Good w [] (ledger (readCore w c fn inp fuel).events) [] 0 :=
    fun fn inp => readCore_good w c fn inp fuel [] (fun _ h => by cases h)
  cases src with
  | string s => exact ⟨(core _ _).opened, (core _ _).bufs, (core _ _).under, (core _ _).stray⟩
  | stream s => exact ⟨(core _ _).opened, (core _ _).bufs, (core _ _).under, (core _ _).stray⟩
  | file path =>
    simp only [read]
    cases hw : w.open? path with
    | none => exact ⟨rfl, rfl, rfl, fun _ h => by cases h⟩
    | some content =>
      simp only
      have hb : AllOpenable w [path] := fun p hp => by
        simp only [List.mem_singleton] at hp; subst hp; rw [hw]; rfl
      have hg := readCore_good w c (some path) content fuel [path] hb
      have hrun : ledger ([IOEvent.fopen path true] ++ (readCore w c (some path) content fuel).events ++
            [IOEvent.fclose path]) =
          (Ledger.run { opened := [path] } (readCore w c (some path) content fuel).events).step
            (.fclose path) := by
        unfold ledger
        rw [run_append, run_append]
        rfl
      rw [hrun]
      have hop : (Ledger.run { opened := [path] } (readCore w c (some path) content fuel).events).opened =
          [path] := by simpa using hg.opened
      have hmem : path ∈ (Ledger.run { opened := [path] }
          (readCore w c (some path) content fuel).events).opened := by rw [hop]; exact List.mem_cons_self
      simp only [Ledger.step, if_pos hmem]
      refine ⟨by rw [hop]; simp, hg.bufs, hg.under, hg.stray⟩

/-- the same as a single boolean, with the outcome named explicitly -/
theorem C11_balanced_every_outcome (w : World) (c : Config) (src : Source) (fuel : Nat)
    (r : ParseResult) (_h : (read w c src fuel).result = r) :
    (ledger (read w c src fuel).events).balanced = true := by
  obtain ⟨h1, h2, h3, _⟩ := C11_balanced w c src fuel
  simp [Ledger.balanced, h1, h2, h3]

/-- **The caller's stream is not touched.**  Reading from a string or from the caller's
`FILE*` performs no stream operation except on include files (every path an event names is
one of the names the include function returned, which the configuration owns afterwards);
`config_read_file` opens its file first, closes it last, and everything in between is
balanced on its own — no close in between refers to the top-level stream. -/
theorem C11_caller_stream_untouched (w : World) (c : Config) (fuel : Nat) :
    (∀ s, ∀ e ∈ (read w c (.string s) fuel).events, ∀ p, e.path = some p →
        p ∈ (read w c (.string s) fuel).cfg.filenames) ∧
    (∀ s, ∀ e ∈ (read w c (.stream s) fuel).events, ∀ p, e.path = some p →
        p ∈ (read w c (.stream s) fuel).cfg.filenames) ∧
    (∀ path content, w.open? path = some content →
      ∃ mid, (read w c (.file path) fuel).events = [IOEvent.fopen path true] ++ mid ++ [IOEvent.fclose path] ∧
        (ledger mid).balanced = true ∧ path ∉ (ledger mid).stray) ∧
    (∀ path, w.open? path = none → (read w c (.file path) fuel).events = [IOEvent.fopen path false]) := by
  refine ⟨fun s => readCore_events_named w c none _ fuel, fun s => readCore_events_named w c none _ fuel,
    fun path content hw => ?_, fun path hw => by simp [read, hw]⟩
  refine ⟨(readCore w c (some path) content fuel).events, by simp [read, hw], ?_, ?_⟩
  · have hg := readCore_good w c (some path) content fuel [] (fun _ h => by cases h)
    have h1 := hg.opened; have h2 := hg.bufs; have h3 := hg.under
    simp only [List.append_nil] at h1
    simp [Ledger.balanced, ledger, h1, h2, h3]
  · intro hm
    have hg := readCore_good w c (some path) content fuel [] (fun _ h => by cases h)
    have := hg.stray path hm
    rw [hw] at this; cases this

/-- **File names stay valid.**  The file name reported with an error is one of the strings
of the file-name vector that `__config_read` hands to the configuration
(`config->filenames`, released only by `config_clear` / `config_destroy` / the next read) —
never a string owned by a popped include frame or by the scan context. -/
theorem C11_names_live (w : World) (c : Config) (src : Source) (fuel : Nat) :
    ∀ p, (read w c src fuel).cfg.errFile = some p → p ∈ (read w c src fuel).cfg.filenames := by
  cases src with
  | string s => exact readCore_errFile_named w c none _ fuel
  | stream s => exact readCore_errFile_named w c none _ fuel
  | file path =>
    simp only [read]
    cases hw : w.open? path with
    | none => intro p hp; cases hp
    | some content => exact readCore_errFile_named w c (some path) content fuel

/-- … and so is the source file recorded on **every setting** of the resulting tree
(`config_setting_source_file`): whenever the input was actually parsed — whatever the
outcome, so also for the partial tree left by a failed read — each setting's file is a
string of `config->filenames`. -/
theorem C11_setting_names_live (w : World) (c : Config) (filename : Option Bytes) (inp : Bytes)
    (fuel : Nat) (path : Path) (m : Node) (p : Bytes)
    (hm : (readCore w c filename inp fuel).cfg.root.get? path = some m) (hp : m.file = some p) :
    p ∈ (readCore w c filename inp fuel).cfg.filenames :=
  C11T.readCore_files_named w c filename inp fuel path m hm p hp

/-- The same for the three entry points.  The hypothesis is needed only for
`config_read_file` on a file that cannot be opened: that call leaves the old tree and the
old file-name vector in place, so they must have been consistent before. -/
theorem C11_setting_names_live_read (w : World) (c : Config) (src : Source) (fuel : Nat)
    (hc : ∀ path m, c.root.get? path = some m → ∀ p, m.file = some p → p ∈ c.filenames)
    (path : Path) (m : Node) (p : Bytes)
    (hm : (read w c src fuel).cfg.root.get? path = some m) (hp : m.file = some p) :
    p ∈ (read w c src fuel).cfg.filenames :=
  C11T.read_files_named w c src fuel hc path m hm p hp

/-- the file-name vector is owned by the configuration until it is cleared: `config_clear`
is what releases it -/
theorem C11_names_released_by_clear (c : Config) : (c.clear).1.filenames = [] := rfl

/-- The two scanner actions that open and close files and create and delete buffers — the
`<INCLUDE>\"` directive action and the shared `<<EOF>>` action — are the catalogued ones in
the compiled scanner (texts re-read from lib/scanner.c on every run). -/
theorem C11_actions :
    Generated.scanActions.getD 27 .unknown = .includeDirective Generated.tokens.error ∧
    Generated.scanner.eofActionKnown = true := by decide

/-! ### the invariant behind the theorems (exported for inspection) -/

/-- Between any two scanner calls the open streams are exactly the current files of the
frames on the include stack (innermost first), and there is one include buffer per frame. -/
theorem C11_invariant (T : FlexTables) (acts : List ScanAct) (w : World) (ic : IncludeCfg) (fuel : Nat)
    (s : ScanState)
    (h : (ledger s.events).opened = openOf w s.stack ∧ (ledger s.events).bufs = s.stack.length ∧
      (ledger s.events).under = 0 ∧ ∀ p ∈ (ledger s.events).stray, w.open? p = none) :
    let s' := (yylex T acts w ic fuel s).1
    (ledger s'.events).opened = openOf w s'.stack ∧ (ledger s'.events).bufs = s'.stack.length ∧
      (ledger s'.events).under = 0 ∧ ∀ p ∈ (ledger s'.events).stray, w.open? p = none := by
  have hi : Inv w [] s := ⟨by simpa [ledger] using h.1, h.2.1, h.2.2.1, h.2.2.2⟩
  have := yylex_inv T acts w ic [] (fun _ h => by cases h) fuel s hi
  exact ⟨by simpa [ledger] using this.opened, this.bufs, this.under, this.stray⟩

/-! ### non-vacuity: a read that opens and closes a file, and one that fails inside it -/

private def wEx : World :=
  { files := [(bytesOfString "t", some (bytesOfString "@include \"i\"\nb = 2;\n")),
              (bytesOfString "i", some (bytesOfString "a = 1;\nq = ;\n"))] }

example : (read wEx Config.init (.file (bytesOfString "t")) 1000).events =
    [.fopen (bytesOfString "t") true, .fopen (bytesOfString "i") true, .newBuf,
     .fclose (bytesOfString "i"), .delBuf, .fclose (bytesOfString "t")] ∧
    (read wEx Config.init (.file (bytesOfString "t")) 1000).result = .abort := by
  decide +kernel

end Libconfig.C11
