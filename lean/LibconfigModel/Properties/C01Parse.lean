import LibconfigModel.RoundTrip
import LibconfigModel.Properties.C02
import LibconfigModel.Proofs.C01ParseDeep
import LibconfigModel.Proofs.C09
/-
  C01, parsing half — "the parser rebuilds the tree".

  `config_write` followed by `config_read` is a composition of three steps: the writer renders
  the tree as a sequence of lexical items (Properties/C19.lean), the scanner turns the bytes back
  into tokens (the lexing half, proved elsewhere), and the parser — the bison LALR(1) automaton
  over the TRANSLATED tables `Generated.parser`, with the semantic actions of lib/grammar.y —
  consumes the tokens.  This file states the third step: fed with the tokens that the written
  form of a configuration `c` denotes (`tokensOfConfig`, RoundTrip.lean), `libconfig_yyparse`
  accepts and has rebuilt exactly the tree the documentation promises (`expectedRoot`).

  Statements only; the proof is in LibconfigModel/Proofs/C01Parse*.lean:
    C01ParseStep    parser configurations, fuel-free reachability, shift / reduce iterations
    C01ParseStatic  the kernel-evaluated facts about the compiled tables (47 states)
    C01ParseSpec    token sequence / expected tree by recursion on the tree
    C01ParseSem     what each semantic action does to the tree under construction
    C01ParseSim     the simulation lemmas: scalar, array, list, group, setting, configuration
    C01ParseMain    the whole parse (partial and total correctness with respect to the fuel)
    C01ParseDeep    the counterexample to the statement without a bound on the nesting depth

  Contents: `expectedRoot`, `ParseOK` / `RoundTripOK`; the headline theorem `C01_parse_rebuilds`
  (+ `C01_parse_accepts`: the parse does return); the corollaries for `__config_read` and the
  three read functions (`C01_readCore_rebuilds`, `C01_read_rebuilds`, …), with the lexing half
  as an explicit hypothesis; a concrete instance evaluated by the kernel; the simulation lemmas
  of milestone M1 restated (`C01_value_simulation`, `C01_elements_simulation`,
  `C01_members_simulation`); the FINDING that the depth bound is necessary
  (`C01_deep_nesting_exhausts`, `C01_unbounded_statement_false`).
-/
namespace Libconfig.C01Parse
open Libconfig

/-! ### the expected result -/

mutual
/-- a tree without source positions (as in Properties/C10.lean) -/
def stripPos : Node → Node
  | .mk name ty fmt ival fval sval kids hook _ _ =>
    .mk name ty fmt ival fval sval (stripPosList kids) hook 0 none
def stripPosList : List Node → List Node
  | [] => []
  | k :: ks => stripPos k :: stripPosList ks
end

/-- What a written scalar is read back as: same name and type; booleans as 0/1; integers with
their value and the format the writer used (a hex literal sets `FMT_HEX`, a decimal one sets
the default); floats with the value `strtod` gives to the written text; strings with their
bytes (a NULL string comes back as the empty string); hook, position and everything else at the
defaults of a fresh setting. -/
def expectedScalar (bufLen : Nat) (c : Config) (n : Node) : Node :=
  if n.ty == T_BOOL then { name := n.name, ty := T_BOOL, ival := if n.ival != 0 then 1 else 0 }
  else if n.ty == T_INT then
    { name := n.name, ty := T_INT, ival := n.ival,
      fmt := if effFormat c n == FMT_HEX then FMT_HEX else FMT_DEFAULT }
  else if n.ty == T_INT64 then
    { name := n.name, ty := T_INT64, ival := n.ival,
      fmt := if effFormat c n == FMT_HEX then FMT_HEX else FMT_DEFAULT }
  else if n.ty == T_FLOAT then
    { name := n.name, ty := T_FLOAT,
      fval := F64.strtod (formatDouble bufLen n.fval c.floatPrecision (c.opt OPT_SCIENTIFIC)) }
  else if n.ty == T_STRING then { name := n.name, ty := T_STRING, sval := some (n.sval.getD []) }
  else { name := n.name, ty := n.ty }

mutual
/-- What a written setting is read back as: aggregates keep name, type and the order of their
children. -/
def expectedNode (bufLen : Nat) (c : Config) : Node → Node
  | .mk name ty fmt ival fval sval kids hook line file =>
    if isAggregateTy ty then { name := name, ty := ty, kids := expectedList bufLen c kids }
    else expectedScalar bufLen c (.mk name ty fmt ival fval sval [] hook line file)
def expectedList (bufLen : Nat) (c : Config) : List Node → List Node
  | [] => []
  | k :: ks => expectedNode bufLen c k :: expectedList bufLen c ks
end

/-- the tree that reading the written form of `c` is expected to build (positions apart) -/
def expectedRoot (bufLen : Nat) (c : Config) : Node := expectedNode bufLen c c.root

/-! ### the side conditions -/

mutual
/-- no setting of type NONE -/
def noNoneB : Node → Bool
  | .mk _ ty _ _ _ _ kids _ _ _ => ty != T_NONE && noNoneListB kids
def noNoneListB : List Node → Bool
  | [] => true
  | k :: ks => noNoneB k && noNoneListB ks
end

mutual
/-- the values of string settings contain no NUL byte -/
def nulFreeB : Node → Bool
  | .mk _ ty _ _ _ sval kids _ _ _ =>
    (ty != T_STRING || (sval.getD []).all (· != 0)) && nulFreeListB kids
def nulFreeListB : List Node → Bool
  | [] => true
  | k :: ks => nulFreeB k && nulFreeListB ks
end

mutual
/-- nesting depth below a setting: 0 for a scalar or an empty aggregate -/
def depth : Node → Nat
  | .mk _ _ _ _ _ _ kids _ _ _ => depthList kids
def depthList : List Node → Nat
  | [] => 0
  | k :: ks => max (depth k + 1) (depthList ks)
end

/-- The deepest nesting the parser's stack (`YYMAXDEPTH` = 10000 entries) can take for every
shape of tree.  The most expensive shape is a group nested as a second (or later) member of the
enclosing group: six stack entries per level (`setting_list NAME $@1 = { $@4`); a tree of depth
`D` never needs more than 6·`D` + 3 entries, and 6·1666 + 3 < 10000.
The bound is sharp: the tree of depth 1667 in which every group holds a boolean and then the next
group makes `yyparse` return "memory exhausted" (checked by running the compiled model; for lists,
which cost two entries per level, see `C01_deep_nesting_exhausts`). -/
def maxNesting : Nat := 1666

/-- What the parsing half needs of the configuration: the tree is well-formed in the sense of
WF.lean (root a nameless group, members of groups have distinct valid names, elements of lists
and arrays are nameless, arrays hold scalars of one type, scalars are childless, types are
in range), no setting has type NONE, and the nesting is not deeper than the parser's stack
allows (see `C01_deep_nesting_exhausts` for why this last condition cannot be dropped). -/
def ParseOK (c : Config) : Bool := c.wfb && noNoneB c.root && decide (depth c.root ≤ maxNesting)

/-- the side condition of the whole round trip: `ParseOK`, and string values are NUL-free
(which only the lexing half needs) -/
def RoundTripOK (c : Config) : Bool := ParseOK c && nulFreeB c.root

/-! ### agreement with the definitions the proofs use -/

mutual
theorem stripPos_pp : (n : Node) → stripPos n = C01PP.stripPos n
  | .mk _ _ _ _ _ _ kids _ _ _ => by rw [stripPos, C01PP.stripPos, stripPosList_pp kids]
theorem stripPosList_pp : (ks : List Node) → stripPosList ks = C01PP.stripPosList ks
  | [] => by rw [stripPosList, C01PP.stripPosList]
  | k :: ks => by rw [stripPosList, C01PP.stripPosList, stripPos_pp k, stripPosList_pp ks]
end

mutual
theorem expectedNode_pp (bufLen : Nat) (c : Config) :
    (n : Node) → expectedNode bufLen c n = C01PP.expNode bufLen c n
  | .mk _ _ _ _ _ _ kids _ _ _ => by
    rw [expectedNode, C01PP.expNode, expectedList_pp bufLen c kids]; rfl
theorem expectedList_pp (bufLen : Nat) (c : Config) :
    (ks : List Node) → expectedList bufLen c ks = C01PP.expList bufLen c ks
  | [] => by rw [expectedList, C01PP.expList]
  | k :: ks => by
    rw [expectedList, C01PP.expList, expectedNode_pp bufLen c k, expectedList_pp bufLen c ks]
end

mutual
theorem depth_pp : (n : Node) → depth n = C01PP.nodeDepth n
  | .mk _ _ _ _ _ _ kids _ _ _ => by rw [depth, C01PP.nodeDepth, depthList_pp kids]
theorem depthList_pp : (ks : List Node) → depthList ks = C01PP.listDepth ks
  | [] => by rw [depthList, C01PP.listDepth]
  | k :: ks => by rw [depthList, C01PP.listDepth, depth_pp k, depthList_pp ks]
end

mutual
theorem okNode_of_wfb : (n : Node) → n.wfb = true → noNoneB n = true → C01PP.okNode n = true
  | .mk name ty fmt ival fval sval kids hook line file => by
    intro hw hn
    rw [Node.wfb, Bool.and_eq_true] at hw
    rw [noNoneB, Bool.and_eq_true] at hn
    rw [C01PP.okNode]
    have hk := okList_of_wfb kids hw.2 hn.2
    have hl := hw.1
    have hne : ty ≠ 0 := by simpa [T_NONE] using hn.1
    simp only [Node.localWFb, Node.isAggregate, Bool.and_eq_true, decide_eq_true_eq] at hl
    obtain ⟨⟨⟨⟨h8, hsc⟩, hg⟩, hli⟩, har⟩ := hl
    simp only [Bool.and_eq_true, decide_eq_true_eq]
    refine ⟨⟨⟨by omega, h8⟩, ?_⟩, hk⟩
    unfold C01PP.kidsOKB
    by_cases h1 : ty = T_GROUP
    · subst h1
      rw [if_pos (by rfl)]
      simp only [bne_self_eq_false, Bool.false_or, Bool.and_eq_true, List.all_eq_true] at hg
      simp only [Bool.and_eq_true, List.all_eq_true]
      refine ⟨fun x hx => ?_, hg.2⟩
      have := hg.1 x hx
      unfold C01PP.nameOKB
      cases hx' : x.name with
      | none => rw [hx'] at this; exact this
      | some nm => rw [hx'] at this; exact this
    · by_cases h2 : ty = T_LIST
      · subst h2
        rw [if_neg (by decide), if_pos (by rfl)]
        simpa using hli
      · by_cases h3 : ty = T_ARRAY
        · subst h3
          rw [if_neg (by decide), if_neg (by decide), if_pos (by rfl)]
          cases kids with
          | nil => rfl
          | cons k0 tl => simpa using har
        · have : isAggregateTy ty = false := by
            unfold isAggregateTy
            simp [h1, h2, h3]
          rw [this] at hsc
          rw [if_neg (by simpa using h1), if_neg (by simpa using h2), if_neg (by simpa using h3)]
          simpa using hsc
theorem okList_of_wfb : (ks : List Node) → wfbList ks = true → noNoneListB ks = true →
    C01PP.okList ks = true
  | [] => by intro _ _; rw [C01PP.okList]
  | k :: ks => by
    intro hw hn
    rw [wfbList, Bool.and_eq_true] at hw
    rw [noNoneListB, Bool.and_eq_true] at hn
    rw [C01PP.okList, okNode_of_wfb k hw.1 hn.1, okList_of_wfb ks hw.2 hn.2]
    rfl
end

/-- `ParseOK` unpacked -/
theorem parseOK_spec {c : Config} (h : ParseOK c = true) :
    c.WF ∧ C01PP.okNode c.root = true ∧ c.root.name = none ∧ c.root.ty = T_GROUP ∧
      C01PP.nodeDepth c.root ≤ 1666 := by
  unfold ParseOK at h
  simp only [Bool.and_eq_true, decide_eq_true_eq] at h
  obtain ⟨⟨hw, hn⟩, hd⟩ := h
  have hwf := (C04.cfg_wfb_iff c).mp hw
  unfold Config.wfb at hw
  simp only [Bool.and_eq_true] at hw
  refine ⟨hwf, okNode_of_wfb c.root hw.2 hn, hwf.rootNameless, hwf.rootGroup, ?_⟩
  rw [← depth_pp]
  exact hd

/-- the scanner delivers the tokens `toks` and then end of input, as the proofs phrase it -/
theorem lexT_of_lexesTo {E : ParserEnv} {s s' : ScanState} {toks : List (Nat × TokVal)}
    (h : C02.LexesTo E s toks s') : C01PP.LexT E s (toks ++ [C01PP.tEOF]) := by
  induction h with
  | eof s s' hy => exact .eof s s' hy
  | tok s s₁ s' t v rest hy _ ih => exact .tok s s₁ t v _ hy ih
  | incl s s₁ s' t text file line rest hy _ ih => exact .incl s s₁ t text file line _ hy ih

/-! ### the theorem -/

/-- **The parser rebuilds the tree** (any environment over the compiled tables and actions).
`E` may have any scanner, world and include configuration: what matters is the token sequence
its scanner delivers. -/
theorem C01_parse_rebuilds_env (E : ParserEnv) (hP : E.P = Generated.parser)
    (hA : E.acts = Generated.parseActions) (bufLen : Nat) (c : Config) (hc : ParseOK c = true)
    (fuel : Nat) (s₀ s₁ s' : ScanState) (ctx₀ ctx' : ParseCtx) (r : ParseResult)
    (hlex : C02.LexesTo E s₀ (tokensOfConfig Generated.tokens bufLen c) s₁)
    (hroot : stripPos ctx₀.cfg.root = { ty := T_GROUP }) (hpar : ctx₀.parent = some [])
    (hstr : ctx₀.str = none)
    (h : yyparse E fuel s₀ ctx₀ = (s', ctx', r)) (hr : r ≠ .outOfFuel) :
    r = .accept ∧ stripPos ctx'.cfg.root = expectedRoot bufLen c := by
  obtain ⟨_, hok, hname, hty, hd⟩ := parseOK_spec hc
  rw [stripPos_pp] at hroot ⊢
  unfold expectedRoot
  rw [expectedNode_pp]
  exact C01PP.parse_rebuilds_core ⟨hP, hA⟩ bufLen c hok hname hty hd (lexT_of_lexesTo hlex)
    hroot hpar hstr h hr

/-- **C01_parse_rebuilds.**  Let `c` satisfy `ParseOK` (a fortiori: `RoundTripOK`).  Let the
scanner of the parser environment `theEnv w c₀ lexFuel` (compiled scanner and parser tables, any
world, any reading configuration `c₀` — its options, `ALLOW_OVERRIDES` and `AUTOCONVERT`
included, do not matter), started in `s₀`, deliver the tokens `tokensOfConfig Generated.tokens
bufLen c` denoted by the written form of `c` and then end of input.  Let `ctx₀` be a parse
context over a cleared configuration, as `__config_read` sets it up: the root is an empty group
(its source file may be set), `ctx->parent` is the root, `ctx->string` is empty; `ctx->setting`
and every other field of the reading configuration are arbitrary.  Then whatever `yyparse`
returns with enough fuel is: accept, with a tree that — source positions apart — is
`expectedRoot bufLen c`. -/
theorem C01_parse_rebuilds (w : World) (c₀ : Config) (lexFuel : Nat) (bufLen : Nat) (c : Config)
    (hc : ParseOK c = true) (fuel : Nat) (s₀ s₁ s' : ScanState) (ctx₀ ctx' : ParseCtx)
    (r : ParseResult)
    (hlex : C02.LexesTo (theEnv w c₀ lexFuel) s₀ (tokensOfConfig Generated.tokens bufLen c) s₁)
    (hroot : stripPos ctx₀.cfg.root = { ty := T_GROUP }) (hpar : ctx₀.parent = some [])
    (hstr : ctx₀.str = none)
    (h : yyparse (theEnv w c₀ lexFuel) fuel s₀ ctx₀ = (s', ctx', r)) (hr : r ≠ .outOfFuel) :
    r = .accept ∧ stripPos ctx'.cfg.root = expectedRoot bufLen c :=
  C01_parse_rebuilds_env (theEnv w c₀ lexFuel) rfl rfl bufLen c hc fuel s₀ s₁ s' ctx₀ ctx' r hlex
    hroot hpar hstr h hr

/-- the same under the side condition of the whole round trip -/
theorem C01_parse_rebuilds_roundTripOK (w : World) (c₀ : Config) (lexFuel : Nat) (bufLen : Nat)
    (c : Config) (hc : RoundTripOK c = true) (fuel : Nat) (s₀ s₁ s' : ScanState)
    (ctx₀ ctx' : ParseCtx) (r : ParseResult)
    (hlex : C02.LexesTo (theEnv w c₀ lexFuel) s₀ (tokensOfConfig Generated.tokens bufLen c) s₁)
    (hroot : stripPos ctx₀.cfg.root = { ty := T_GROUP }) (hpar : ctx₀.parent = some [])
    (hstr : ctx₀.str = none)
    (h : yyparse (theEnv w c₀ lexFuel) fuel s₀ ctx₀ = (s', ctx', r)) (hr : r ≠ .outOfFuel) :
    r = .accept ∧ stripPos ctx'.cfg.root = expectedRoot bufLen c := by
  unfold RoundTripOK at hc
  rw [Bool.and_eq_true] at hc
  exact C01_parse_rebuilds w c₀ lexFuel bufLen c hc.1 fuel s₀ s₁ s' ctx₀ ctx' r hlex hroot hpar hstr h hr

/-! ### `config_read_string` / `config_read` / `config_read_file` of the written form -/

/-- the scan state `__config_read` starts from: the input bytes, the name of the top-level file
(if any) as current file and as first entry of the file-name vector -/
def readScanStart (filename : Option Bytes) (inp : Bytes) : ScanState :=
  { buf := { rest := inp }, topFile := filename,
    filenames := match filename with | some f => [f] | none => [] }

theorem finish_root (p : ScanState × ParseCtx × ParseResult) :
    (C09P.finish p).root = p.2.1.cfg.root := by
  unfold C09P.finish; extract_lets c c'; simp only [c']; split <;> rfl

/-- **Reading back the written form**, with the lexing half as an explicit hypothesis, for
`__config_read` on arbitrary input bytes (the common core of the three read functions): if the
compiled scanner, started on the input, delivers the tokens the written form of `c` denotes and
then end of input, then the read — with enough fuel — succeeds and leaves the expected tree,
whatever the configuration `c₀` held before and whatever its options are. -/
theorem C01_readCore_rebuilds (w : World) (c₀ : Config) (filename : Option Bytes) (inp : Bytes)
    (bufLen : Nat) (c : Config) (hc : ParseOK c = true) (fuel : Nat) (s₁ : ScanState)
    (hlex : C02.LexesTo (theEnv w c₀ fuel) (readScanStart filename inp)
      (tokensOfConfig Generated.tokens bufLen c) s₁)
    (hfuel : (readCore w c₀ filename inp fuel).result ≠ .outOfFuel) :
    (readCore w c₀ filename inp fuel).ok = true ∧
      (readCore w c₀ filename inp fuel).result = .accept ∧
      stripPos (readCore w c₀ filename inp fuel).cfg.root = expectedRoot bufLen c := by
  rw [C09P.readCore_result] at hfuel
  rw [C09P.readCore_ok, C09P.readCore_result, C09P.readCore_cfg, finish_root]
  cases hp : C09P.parseOf w (C09P.start c₀ filename) filename inp fuel with
  | mk s' rest =>
    cases rest with
    | mk ctx' r =>
      rw [hp] at hfuel
      have h := C01_parse_rebuilds w c₀ fuel bufLen c hc fuel (readScanStart filename inp)
        s₁ s' { cfg := C09P.start c₀ filename } ctx' r hlex rfl rfl rfl hp hfuel
      simp only
      exact ⟨by rw [h.1]; rfl, h.1, h.2⟩

/-- `config_read_string(config_write(c))` -/
theorem C01_read_rebuilds (w : World) (c₀ : Config) (bufLen : Nat) (c : Config)
    (hc : ParseOK c = true) (fuel : Nat) (s₁ : ScanState)
    (hlex : C02.LexesTo (theEnv w c₀ fuel) (readScanStart none (cstr (c.write bufLen)))
      (tokensOfConfig Generated.tokens bufLen c) s₁)
    (hfuel : (read w c₀ (.string (c.write bufLen)) fuel).result ≠ .outOfFuel) :
    (read w c₀ (.string (c.write bufLen)) fuel).ok = true ∧
      (read w c₀ (.string (c.write bufLen)) fuel).result = .accept ∧
      stripPos (read w c₀ (.string (c.write bufLen)) fuel).cfg.root = expectedRoot bufLen c :=
  C01_readCore_rebuilds w c₀ none (cstr (c.write bufLen)) bufLen c hc fuel s₁ hlex hfuel

/-- `config_read` from a stream that holds the written form -/
theorem C01_read_stream_rebuilds (w : World) (c₀ : Config) (bufLen : Nat) (c : Config)
    (hc : ParseOK c = true) (fuel : Nat) (s₁ : ScanState)
    (hlex : C02.LexesTo (theEnv w c₀ fuel) (readScanStart none (c.write bufLen))
      (tokensOfConfig Generated.tokens bufLen c) s₁)
    (hfuel : (read w c₀ (.stream (c.write bufLen)) fuel).result ≠ .outOfFuel) :
    (read w c₀ (.stream (c.write bufLen)) fuel).ok = true ∧
      (read w c₀ (.stream (c.write bufLen)) fuel).result = .accept ∧
      stripPos (read w c₀ (.stream (c.write bufLen)) fuel).cfg.root = expectedRoot bufLen c :=
  C01_readCore_rebuilds w c₀ none (c.write bufLen) bufLen c hc fuel s₁ hlex hfuel

/-- `config_read_file` of a file that holds the written form -/
theorem C01_read_file_rebuilds (w : World) (c₀ : Config) (path : Bytes) (bufLen : Nat)
    (c : Config) (hc : ParseOK c = true) (fuel : Nat) (s₁ : ScanState)
    (hfile : w.open? path = some (c.write bufLen))
    (hlex : C02.LexesTo (theEnv w c₀ fuel) (readScanStart (some path) (c.write bufLen))
      (tokensOfConfig Generated.tokens bufLen c) s₁)
    (hfuel : (read w c₀ (.file path) fuel).result ≠ .outOfFuel) :
    (read w c₀ (.file path) fuel).ok = true ∧
      (read w c₀ (.file path) fuel).result = .accept ∧
      stripPos (read w c₀ (.file path) fuel).cfg.root = expectedRoot bufLen c := by
  have hread : read w c₀ (.file path) fuel =
      { readCore w c₀ (some path) (c.write bufLen) fuel with
        events := [.fopen path true] ++ (readCore w c₀ (some path) (c.write bufLen) fuel).events ++
          [.fclose path] } := by
    unfold read
    simp only [hfile]
  rw [hread] at hfuel ⊢
  exact C01_readCore_rebuilds w c₀ (some path) (c.write bufLen) bufLen c hc fuel s₁ hlex hfuel

/-! ### a concrete instance (evaluated by the kernel)

The hypotheses of `C01_parse_rebuilds` / `C01_read_rebuilds` are satisfiable and the conclusion
says something: for the configuration below — every kind of setting, a hexadecimal integer, a
boolean stored as 7, a string with characters that are escaped, a NULL string, an empty list,
nested aggregates — the compiled scanner does deliver the predicted tokens from the written
bytes, so the theorem applies and yields the tree; the kernel confirms the result independently
by running `read`. -/

/-- ```
a = 0x1F;
g :
{
  l = ( true, "x\"\n", ( ), 1.5 );
  v = [ 5L, -7L ];
};
z = "";
``` -/
def exampleConfig : Config :=
  { root := { ty := T_GROUP, kids := [
      { name := some [97], ty := T_INT, ival := 31, fmt := FMT_HEX },
      { name := some [103], ty := T_GROUP, kids := [
          { name := some [108], ty := T_LIST, kids := [
              { ty := T_BOOL, ival := 7 }, { ty := T_STRING, sval := some [120, 34, 10] },
              { ty := T_LIST }, { ty := T_FLOAT, fval := 0x3FF8000000000000 } ] },
          { name := some [118], ty := T_ARRAY, kids := [
              { ty := T_INT64, ival := 5 }, { ty := T_INT64, ival := -7 } ] } ] },
      { name := some [122], ty := T_STRING } ] } }

/-- run the scanner to end of input, collecting the tokens (`n` bounds their number) -/
def lexAll (E : ParserEnv) : Nat → ScanState → Option (List (Nat × TokVal))
  | 0, _ => none
  | n + 1, s =>
    match yylex E.T E.sacts E.w E.ic E.lexFuel s with
    | (_, .eof) => some []
    | (s', .tok t v) => (lexAll E n s').map ((t, v) :: ·)
    | _ => none

theorem lexAll_sound {E : ParserEnv} : ∀ (n : Nat) (s : ScanState) (toks : List (Nat × TokVal)),
    lexAll E n s = some toks → ∃ s', C02.LexesTo E s toks s'
  | 0, _, _, h => by cases h
  | n + 1, s, toks, h => by
    rw [lexAll] at h
    split at h
    · rename_i s' hy
      cases h
      exact ⟨s', .eof s s' hy⟩
    · rename_i s' t v hy
      cases hr : lexAll E n s' with
      | none => rw [hr] at h; cases h
      | some ts =>
        rw [hr] at h
        cases h
        obtain ⟨s'', hl⟩ := lexAll_sound n s' ts hr
        exact ⟨s'', .tok s s' s'' t v ts hy hl⟩
    · cases h

/-- one row per setting, in document order: a decidable view of a tree -/
structure Row where
  name : Option Bytes
  ty : Nat
  fmt : Nat
  ival : Int
  fval : Nat
  sval : Option Bytes
  nkids : Nat
  hook : Nat
  line : Nat
  file : Option Bytes
deriving DecidableEq, Repr

mutual
def rows : Node → List Row
  | .mk name ty fmt ival fval sval kids hook line file =>
    ⟨name, ty, fmt, ival, fval, sval, kids.length, hook, line, file⟩ :: rowsList kids
def rowsList : List Node → List Row
  | [] => []
  | k :: ks => rows k ++ rowsList ks
end

/-- the side condition holds -/
example : RoundTripOK exampleConfig = true := by decide +kernel

/-- the written form -/
example : exampleConfig.write Generated.FLOAT_BUF_SIZE = bytesOfString
    "a = 0x1F;\ng : \n{\n  l = ( true, \"x\\\"\\n\", ( ), 1.5 );\n  v = [ 5L, -7L ];\n};\nz = \"\";\n" := by
  decide +kernel

/-- the lexing hypothesis holds: the compiled scanner, on the written bytes, delivers exactly
`tokensOfConfig` (34 tokens) and then end of input -/
theorem example_lexes : ∃ s₁, C02.LexesTo (theEnv {} Config.init 1000)
    (readScanStart none (cstr (exampleConfig.write Generated.FLOAT_BUF_SIZE)))
    (tokensOfConfig Generated.tokens Generated.FLOAT_BUF_SIZE exampleConfig) s₁ :=
  lexAll_sound 100 _ _ (by decide +kernel)

/-- so `C01_read_rebuilds` applies: reading the written form back succeeds with the expected
tree -/
example :
    (read {} Config.init (.string (exampleConfig.write Generated.FLOAT_BUF_SIZE)) 1000).ok = true ∧
    (read {} Config.init (.string (exampleConfig.write Generated.FLOAT_BUF_SIZE)) 1000).result = .accept ∧
    stripPos (read {} Config.init (.string (exampleConfig.write Generated.FLOAT_BUF_SIZE)) 1000).cfg.root =
      expectedRoot Generated.FLOAT_BUF_SIZE exampleConfig := by
  obtain ⟨s₁, h⟩ := example_lexes
  exact C01_read_rebuilds {} Config.init Generated.FLOAT_BUF_SIZE exampleConfig (by decide +kernel)
    1000 s₁ h (by decide +kernel)

/-- … which is this tree (the hexadecimal format kept, `true` read back as 1, the NULL string as
the empty string, the float as 1.5), different from the empty root the parse started from; the
kernel, running `read` itself, finds the same (with the source lines 1, 2, 4, 5, 7 that
`stripPos` erases) -/
example :
    rows (expectedRoot Generated.FLOAT_BUF_SIZE exampleConfig) =
      [⟨none, 1, 0, 0, 0, none, 3, 0, 0, none⟩,
       ⟨some [97], 2, 1, 31, 0, none, 0, 0, 0, none⟩,
       ⟨some [103], 1, 0, 0, 0, none, 2, 0, 0, none⟩,
       ⟨some [108], 8, 0, 0, 0, none, 4, 0, 0, none⟩,
       ⟨none, 6, 0, 1, 0, none, 0, 0, 0, none⟩,
       ⟨none, 5, 0, 0, 0, some [120, 34, 10], 0, 0, 0, none⟩,
       ⟨none, 8, 0, 0, 0, none, 0, 0, 0, none⟩,
       ⟨none, 4, 0, 0, 0x3FF8000000000000, none, 0, 0, 0, none⟩,
       ⟨some [118], 7, 0, 0, 0, none, 2, 0, 0, none⟩,
       ⟨none, 3, 0, 5, 0, none, 0, 0, 0, none⟩,
       ⟨none, 3, 0, -7, 0, none, 0, 0, 0, none⟩,
       ⟨some [122], 5, 0, 0, 0, some [], 0, 0, 0, none⟩] ∧
    rows (stripPos (read {} Config.init
        (.string (exampleConfig.write Generated.FLOAT_BUF_SIZE)) 1000).cfg.root) =
      rows (expectedRoot Generated.FLOAT_BUF_SIZE exampleConfig) ∧
    (rows (read {} Config.init
        (.string (exampleConfig.write Generated.FLOAT_BUF_SIZE)) 1000).cfg.root).map (·.line) =
      [0, 1, 2, 4, 4, 4, 4, 4, 5, 5, 5, 7] := by
  decide +kernel

/-- The same for the reading configuration's options: with `ALLOW_OVERRIDES` and `AUTOCONVERT`
set and other presentation attributes in the written configuration (no semicolons, `=` for
groups, scientific notation, hexadecimal default format) the theorem applies just the same. -/
def exampleConfig' : Config :=
  { exampleConfig with options := OPT_COLON_NONGROUPS ||| OPT_SCIENTIFIC, defaultFormat := FMT_HEX }

example : RoundTripOK exampleConfig' = true := by decide +kernel

theorem example_lexes' : ∃ s₁, C02.LexesTo
    (theEnv {} { Config.init with options := OPT_ALLOW_OVERRIDES ||| OPT_AUTOCONVERT } 1000)
    (readScanStart none (cstr (exampleConfig'.write Generated.FLOAT_BUF_SIZE)))
    (tokensOfConfig Generated.tokens Generated.FLOAT_BUF_SIZE exampleConfig') s₁ :=
  lexAll_sound 100 _ _ (by decide +kernel)

example :
    (read {} { Config.init with options := OPT_ALLOW_OVERRIDES ||| OPT_AUTOCONVERT }
      (.string (exampleConfig'.write Generated.FLOAT_BUF_SIZE)) 1000).ok = true ∧
    (rows (expectedRoot Generated.FLOAT_BUF_SIZE exampleConfig')).map (·.fmt) =
      [0, 1, 0, 0, 0, 0, 0, 0, 0, 1, 1, 0] := by
  obtain ⟨s₁, h⟩ := example_lexes'
  exact ⟨(C01_read_rebuilds {} _ Generated.FLOAT_BUF_SIZE exampleConfig' (by decide +kernel)
    1000 s₁ h (by decide +kernel)).1, by decide +kernel⟩

/-! ### … and it does return -/

/-- Termination: under the hypotheses of `C01_parse_rebuilds` there is a bound `N` such that
with any fuel ≥ `N` the parser returns (so the proviso "not the out-of-fuel outcome" of
`C01_parse_rebuilds` is met by all sufficiently large fuels): it accepts with the expected tree. -/
theorem C01_parse_accepts (w : World) (c₀ : Config) (lexFuel : Nat) (bufLen : Nat) (c : Config)
    (hc : ParseOK c = true) (s₀ s₁ : ScanState) (ctx₀ : ParseCtx)
    (hlex : C02.LexesTo (theEnv w c₀ lexFuel) s₀ (tokensOfConfig Generated.tokens bufLen c) s₁)
    (hroot : stripPos ctx₀.cfg.root = { ty := T_GROUP }) (hpar : ctx₀.parent = some [])
    (hstr : ctx₀.str = none) :
    ∃ N s' ctx', (∀ fuel, N ≤ fuel →
        yyparse (theEnv w c₀ lexFuel) fuel s₀ ctx₀ = (s', ctx', .accept)) ∧
      stripPos ctx'.cfg.root = expectedRoot bufLen c := by
  obtain ⟨_, hok, hname, hty, hd⟩ := parseOK_spec hc
  rw [stripPos_pp] at hroot
  obtain ⟨N, s', ctx', h1, h2⟩ := C01PP.parse_accepts_core (C01PP.compiled_theEnv w c₀ lexFuel)
    bufLen c hok hname hty hd (lexT_of_lexesTo hlex) hroot hpar hstr
  refine ⟨N, s', ctx', h1, ?_⟩
  rw [stripPos_pp]
  unfold expectedRoot
  rw [expectedNode_pp]
  exact h2

/-! ### the simulation lemma for values (milestone M1)

The proof of `C01_parse_rebuilds` is a simulation of `yyparseLoop` by recursion on the tree.  Its
central statement, for a single value, reads as follows (`C01PP.all_values`; the analogous
statements for the elements of arrays and lists and for the members of groups are
`C01PP.sim_arr_rest`, `C01PP.sim_list_rest`, `C01PP.sim_list_body`, `C01PP.sim_member`,
`C01PP.sim_mem_rest`, `C01PP.sim_members`, `C01PP.sim_group_body`, `C01PP.sim_config`).

Vocabulary (Proofs/C01ParseStep.lean, C01ParseSem.lean): a parser configuration `⟨stack,
lookahead, scanner state, parse context⟩`; `Reaches E a b` — from `a` the loop arrives in `b`
after finitely many iterations, or runs out of fuel before; `Inp E la sc toks` — the lookahead
and what the scanner will deliver are the tokens `toks`; `ValCtx q qv` — `q` is a state that
expects a value (8 after `NAME $@1 =`, 26 after `( $@3`, 42 after `value_list ,`) and `qv` its
goto on `value`; `View ctx K pp pn none st` — `ctx->parent` is at index path `pp`, the node there
is `pn`, the whole tree is `K pn`, `ctx->string` is empty, `ctx->setting` is `st`; `Slot st pp pn
pre nm` — the next value goes behind the finished children `pre` of `pn` (into the fresh member
named `nm` that `$@1` created, resp. as a new element of a list); `Built … n ctx'` — the parent
now has the children `pre ++ [n']` with `stripPos n' =` the expected form of `n`. -/
theorem C01_value_simulation (E : ParserEnv) (hP : E.P = Generated.parser)
    (hA : E.acts = Generated.parseActions) (bufLen : Nat) (c : Config) (n : Node)
    (hok : C01PP.okNode n = true) (q qv : Nat) (hq : C01PP.ValCtx q qv) (vq : TokVal)
    (rest : List (Nat × TokVal)) (la : Lookahead) (sc : ScanState) (ctx : ParseCtx)
    (K : Node → Node) (pp : Path) (pn : Node) (st : Option Path) (pre : List Node) (t : Nat)
    (v : TokVal) (ks : List (Nat × TokVal))
    (hdepth : rest.length + 6 * C01PP.nodeDepth n + 5 < 10000)
    (hview : C01PP.View ctx K pp pn none st) (hslot : C01PP.Slot st pp pn pre n.name)
    (hparent : pn.ty ≠ T_ARRAY) (hfollow : translateTok Generated.parser t ≠ Grammar.STRING)
    (hinp : C01PP.Inp E la sc (C01PP.tokValue bufLen c n ++ (t, v) :: ks)) :
    ∃ la' sc' ctx' vv,
      C01PP.Reaches E ⟨(q, vq) :: rest, la, sc, ctx⟩ ⟨(qv, vv) :: (q, vq) :: rest, la', sc', ctx'⟩ ∧
      C01PP.Inp E la' sc' ((t, v) :: ks) ∧ C01PP.Built bufLen c K pp pn pre n ctx' :=
  C01PP.all_values bufLen c ⟨hP, hA⟩ n hok q qv hq vq rest la sc ctx K pp pn st pre t v ks hdepth
    hview hslot hparent hfollow hinp

/-- ELEMENTS (of a list; arrays are analogous with states 25 / 33 / 40 / 34, see
`C01PP.sim_array`): in state 26 (after `( $@3`), with `ctx->parent` at a list `a`, in front of the
tokens of the elements `kids` (commas between them) followed by `)`, the loop arrives in state 37
(`value_list_optional` pushed) in front of the `)`, and `a` has the expected elements appended. -/
theorem C01_elements_simulation (E : ParserEnv) (hP : E.P = Generated.parser)
    (hA : E.acts = Generated.parseActions) (bufLen : Nat) (c : Config) (kids : List Node)
    (hok : ∀ k ∈ kids, C01PP.okNode k = true) (hnameless : ∀ k ∈ kids, k.name = none)
    (v26 : TokVal) (rest : List (Nat × TokVal)) (la : Lookahead) (sc : ScanState) (ctx : ParseCtx)
    (K : Node → Node) (pp : Path) (a : Node) (st : Option Path) (t : Nat) (v : TokVal)
    (ks : List (Nat × TokVal))
    (hdepth : rest.length + 6 * C01PP.listDepth kids + 1 < 10000)
    (hview : C01PP.View ctx K pp a none st) (hlist : a.ty = T_LIST)
    (hinp : C01PP.Inp E la sc (C01PP.tokElems bufLen c kids ++ C01PP.tLE :: (t, v) :: ks)) :
    ∃ la' sc' ctx' vv ks2 st',
      C01PP.Reaches E ⟨(26, v26) :: rest, la, sc, ctx⟩ ⟨(37, vv) :: (26, v26) :: rest, la', sc', ctx'⟩ ∧
      C01PP.Inp E la' sc' (C01PP.tLE :: (t, v) :: ks) ∧
      C01PP.View ctx' K pp { a with kids := a.kids ++ ks2 } none st' ∧
      C01PP.stripPosList ks2 = C01PP.expList bufLen c kids :=
  C01PP.sim_list_body bufLen c ⟨hP, hA⟩ kids (fun k _ => C01PP.all_values bufLen c ⟨hP, hA⟩ k) hok
    hnameless hdepth hview hlist hinp

/-- MEMBERS: in a state `q0` in which a list of settings may start (0 at top level, 27 after
`{ $@4`; `q1` = 3 resp. 38 is the state after `setting_list`), with `ctx->parent` at a group `pn`
that is still empty, in front of the tokens of the settings `k :: ks` (`name = value`, each
followed by `;` if the writer's options say so) followed by a token that is not a string, comma
or semicolon, the loop arrives in `q1` in front of that token, and the group has the expected
members. -/
theorem C01_members_simulation (E : ParserEnv) (hP : E.P = Generated.parser)
    (hA : E.acts = Generated.parseActions) (bufLen : Nat) (c : Config) (q0 q1 : Nat)
    (hq : C01PP.MemCtx q0 q1) (k : Node) (ks : List Node)
    (hok : ∀ x ∈ k :: ks, C01PP.okNode x = true) (hnames : ∀ x ∈ k :: ks, C01PP.nameOKB x = true)
    (hdistinct : ((k :: ks).map (·.name)).Nodup) (v0 : TokVal) (rest : List (Nat × TokVal))
    (la : Lookahead) (sc : ScanState) (ctx : ParseCtx) (K : Node → Node) (pp : Path) (pn : Node)
    (st : Option Path) (t : Nat) (v : TokVal) (ks' : List (Nat × TokVal))
    (hdepth : rest.length + 6 * C01PP.listDepth (k :: ks) + 3 < 10000)
    (hview : C01PP.View ctx K pp pn none st) (hgroup : pn.ty = T_GROUP) (hempty : pn.kids = [])
    (hfollow : C01PP.MemFollow t)
    (hinp : C01PP.Inp E la sc (C01PP.tokMembers bufLen c (k :: ks) ++ (t, v) :: ks')) :
    ∃ la' sc' ctx' vv ks2 st',
      C01PP.Reaches E ⟨(q0, v0) :: rest, la, sc, ctx⟩ ⟨(q1, vv) :: (q0, v0) :: rest, la', sc', ctx'⟩ ∧
      C01PP.Inp E la' sc' ((t, v) :: ks') ∧
      C01PP.View ctx' K pp { pn with kids := pn.kids ++ ks2 } none st' ∧
      C01PP.stripPosList ks2 = C01PP.expList bufLen c (k :: ks) :=
  C01PP.sim_members bufLen c ⟨hP, hA⟩ hq k ks (fun x _ => C01PP.all_values bufLen c ⟨hP, hA⟩ x) hok
    hnames hdistinct hdepth hview hgroup hempty hfollow hinp

/-- the two member contexts of the compiled automaton -/
theorem C01_member_contexts : C01PP.MemCtx 0 3 ∧ C01PP.MemCtx 27 38 := ⟨C01PP.mem_0, C01PP.mem_27⟩

/-- the three value contexts of the compiled automaton -/
theorem C01_value_contexts : C01PP.ValCtx 8 21 ∧ C01PP.ValCtx 26 35 ∧ C01PP.ValCtx 42 46 :=
  ⟨C01PP.val_8, C01PP.val_26, C01PP.val_42⟩

/-! ### FINDING: the statement is false without the bound on the nesting depth

The statement as first posed (well-formed, no NONE, NUL-free strings — no bound on the depth) is
false of the model, because it is false of the C code: `libconfig_yyparse` has a stack limit
(`YYMAXDEPTH` = 10000) and gives up with "memory exhausted" (return value 2) when an input nests
too deeply.  `config_write` happily writes such a tree, `config_read` of the result fails.  The
counterexample is `a = ( ( … ( ) … ) )` with 4998 nested lists (`deepConfig 4997`): each `(` costs
two stack entries (`LIST_START $@3`), on top of the four of the bottom and `NAME $@1 =`; after the
4998-th the stack has 10000 entries.  (Groups nested as second members cost six entries per
level and reach the limit at depth 1667 — hence `maxNesting` = 1666.)  The kernel cannot evaluate
a parse of that size in reasonable time (a depth of 300 already takes minutes), so the
counterexample is proved — by the same simulation technique — rather than decided:
`C01_deep_nesting_exhausts`; running the compiled model (`#eval`) on `deepConfig 4997` confirms
both the lexing hypothesis and the outcome `exhausted`. -/

/-- the statement without the depth bound -/
def UnboundedStatement : Prop :=
  ∀ (w : World) (c₀ : Config) (lexFuel bufLen : Nat) (c : Config),
    (c.wfb && noNoneB c.root && nulFreeB c.root) = true →
    ∀ (fuel : Nat) (s₀ s₁ s' : ScanState) (ctx₀ ctx' : ParseCtx) (r : ParseResult),
      C02.LexesTo (theEnv w c₀ lexFuel) s₀ (tokensOfConfig Generated.tokens bufLen c) s₁ →
      stripPos ctx₀.cfg.root = { ty := T_GROUP } → ctx₀.parent = some [] → ctx₀.str = none →
      yyparse (theEnv w c₀ lexFuel) fuel s₀ ctx₀ = (s', ctx', r) → r ≠ .outOfFuel →
      r = .accept ∧ stripPos ctx'.cfg.root = expectedRoot bufLen c

/-- `d + 1` nested lists, the innermost empty: `( ( … ( ) … ) )` -/
def nestedLists : Nat → Node
  | 0 => { ty := T_LIST }
  | d + 1 => { ty := T_LIST, kids := [nestedLists d] }

/-- the configuration `a = ( ( … ( ) … ) )` with `d + 1` nested lists -/
def deepConfig (d : Nat) : Config :=
  { root := { ty := T_GROUP, kids := [{ nestedLists d with name := some [97] }] } }

theorem nestedLists_pp (d : Nat) : nestedLists d = C01PP.nestedLists d := by
  induction d with
  | zero => rfl
  | succ d ih => rw [nestedLists, C01PP.nestedLists, ih]

theorem deepConfig_pp (d : Nat) : deepConfig d = C01PP.deepConfig d := by
  unfold deepConfig C01PP.deepConfig
  rw [nestedLists_pp]

theorem nestedLists_ok (d : Nat) :
    (nestedLists d).wfb = true ∧ noNoneB (nestedLists d) = true ∧
      nulFreeB (nestedLists d) = true ∧ (nestedLists d).name = none ∧
      (nestedLists d).ty = T_LIST := by
  induction d with
  | zero => exact ⟨by decide, by decide, by decide, rfl, rfl⟩
  | succ d ih =>
    obtain ⟨h1, h2, h3, h4, h5⟩ := ih
    refine ⟨?_, ?_, ?_, rfl, rfl⟩
    · rw [nestedLists, Node.wfb, wfbList, wfbList, h1]
      simp [Node.localWFb, Node.isAggregate, isAggregateTy, h4, T_LIST, T_GROUP, T_ARRAY]
    · rw [nestedLists, noNoneB, noNoneListB, noNoneListB, h2]
      rfl
    · rw [nestedLists, nulFreeB, nulFreeListB, nulFreeListB, h3]
      rfl

/-- the deep configurations satisfy every side condition but the depth bound … -/
theorem deepConfig_ok (d : Nat) :
    ((deepConfig d).wfb && noNoneB (deepConfig d).root && nulFreeB (deepConfig d).root) = true := by
  obtain ⟨h1, h2, h3, h4, h5⟩ := nestedLists_ok d
  have e : ∀ n : Node, ({ n with name := some [97] } : Node).wfb = n.wfb ∧
      noNoneB { n with name := some [97] } = noNoneB n ∧
      nulFreeB { n with name := some [97] } = nulFreeB n := by
    intro n; cases n
    exact ⟨by simp [Node.wfb, Node.localWFb, Node.isAggregate], by simp [noNoneB],
      by simp [nulFreeB]⟩
  simp only [Bool.and_eq_true]
  refine ⟨⟨?_, ?_⟩, ?_⟩
  · unfold Config.wfb
    show (_ && _ && Node.wfb (Node.mk _ _ _ _ _ _ _ _ _ _)) = true
    rw [Node.wfb, wfbList, wfbList, (e _).1, h1]
    simp [Node.localWFb, Node.isAggregate, isAggregateTy, T_LIST, T_GROUP, T_ARRAY, nodupB, deepConfig]
    decide
  · show noNoneB (Node.mk _ _ _ _ _ _ _ _ _ _) = true
    rw [noNoneB, noNoneListB, noNoneListB, (e _).2.1, h2]
    rfl
  · show nulFreeB (Node.mk _ _ _ _ _ _ _ _ _ _) = true
    rw [nulFreeB, nulFreeListB, nulFreeListB, (e _).2.2, h3]
    rfl

/-- … but not `ParseOK`: the depth of `deepConfig d` is `d + 1` -/
theorem depth_deepConfig (d : Nat) : depth (deepConfig d).root = d + 1 := by
  have h : ∀ d, depth (nestedLists d) = d := by
    intro d
    induction d with
    | zero => rfl
    | succ d ih => rw [nestedLists, depth, depthList, depthList, ih]; simp
  have e : ∀ n : Node, depth { n with name := some [97] } = depth n := by
    intro n; cases n; simp [depth]
  show depth (Node.mk _ _ _ _ _ _ _ _ _ _) = _
  rw [depth, depthList, depthList, e, h]
  simp

/-- **The counterexample.**  For `a = ( ( … ( ) … ) )` with at least 4998 nested lists, under
exactly the hypotheses of `C01_parse_rebuilds` (except the depth bound), whatever `yyparse`
returns with enough fuel is `exhausted` ("memory exhausted", `yyparse` returns 2) — not
acceptance. -/
theorem C01_deep_nesting_exhausts (d : Nat) (hd : 4997 ≤ d) (w : World) (c₀ : Config)
    (lexFuel bufLen fuel : Nat) (s₀ s₁ s' : ScanState) (ctx₀ ctx' : ParseCtx) (r : ParseResult)
    (hlex : C02.LexesTo (theEnv w c₀ lexFuel) s₀
      (tokensOfConfig Generated.tokens bufLen (deepConfig d)) s₁)
    (hroot : stripPos ctx₀.cfg.root = { ty := T_GROUP }) (hpar : ctx₀.parent = some [])
    (hstr : ctx₀.str = none)
    (h : yyparse (theEnv w c₀ lexFuel) fuel s₀ ctx₀ = (s', ctx', r)) (hr : r ≠ .outOfFuel) :
    r = .exhausted := by
  rw [stripPos_pp] at hroot
  rw [deepConfig_pp] at hlex
  exact C01PP.deep_exhausts bufLen (C01PP.compiled_theEnv w c₀ lexFuel) d hd
    (lexT_of_lexesTo hlex) hroot hpar hstr h hr

/-- … and with enough fuel it does return that. -/
theorem C01_deep_nesting_exhausts_total (d : Nat) (hd : 4997 ≤ d) (w : World) (c₀ : Config)
    (lexFuel bufLen : Nat) (s₀ s₁ : ScanState) (ctx₀ : ParseCtx)
    (hlex : C02.LexesTo (theEnv w c₀ lexFuel) s₀
      (tokensOfConfig Generated.tokens bufLen (deepConfig d)) s₁)
    (hroot : stripPos ctx₀.cfg.root = { ty := T_GROUP }) (hpar : ctx₀.parent = some [])
    (hstr : ctx₀.str = none) :
    ∃ N, ∀ fuel, N ≤ fuel → (yyparse (theEnv w c₀ lexFuel) fuel s₀ ctx₀).2.2 = .exhausted := by
  rw [stripPos_pp] at hroot
  rw [deepConfig_pp] at hlex
  exact C01PP.deep_exhausts_total bufLen (C01PP.compiled_theEnv w c₀ lexFuel) d hd
    (lexT_of_lexesTo hlex) hroot hpar hstr

/-- Hence: as soon as some scanner run delivers the tokens of the written form of `deepConfig
4997` (which is what the lexing half of C01 establishes for every written form), the statement
without the depth bound is refuted. -/
theorem C01_unbounded_statement_false (w : World) (c₀ : Config) (lexFuel bufLen : Nat)
    (s₀ s₁ : ScanState)
    (hlex : C02.LexesTo (theEnv w c₀ lexFuel) s₀
      (tokensOfConfig Generated.tokens bufLen (deepConfig 4997)) s₁) :
    ¬ UnboundedStatement := by
  intro H
  obtain ⟨N, hN⟩ := C01_deep_nesting_exhausts_total 4997 (Nat.le_refl _) w c₀ lexFuel bufLen s₀ s₁
    { cfg := {} } hlex rfl rfl rfl
  have hres := hN N (Nat.le_refl _)
  cases hp : yyparse (theEnv w c₀ lexFuel) N s₀ { cfg := {} } with
  | mk s' rest =>
    cases rest with
    | mk ctx' r =>
      rw [hp] at hres
      simp only at hres
      have := H w c₀ lexFuel bufLen (deepConfig 4997) (deepConfig_ok 4997) N s₀ s₁ s'
        { cfg := {} } ctx' r hlex rfl rfl rfl hp (by rw [hres]; decide)
      rw [hres] at this
      exact absurd this.1 (by decide)

end Libconfig.C01Parse
