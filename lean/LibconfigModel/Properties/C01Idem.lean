import LibconfigModel.Properties.C01RoundTrip
import LibconfigModel.Proofs.C01IdemTree
import LibconfigModel.Proofs.C01IdemSciOK
import LibconfigModel.Proofs.C01IdemSciTree
/-
  C01F — idempotence of the written text.

  "Writing the configuration that was read back from a written configuration gives the same bytes
  again": `config_write ∘ config_read ∘ config_write = config_write`.

  G1 (float level)  `C01_float_idem`: with scientific notation off, precision ≤ 26 and the
      library's buffer (FLOAT_BUF_SIZE = 341), the text `libconfig_format_double` writes for a
      finite double is a fixed point of `text ↦ strtod ↦ libconfig_format_double`.
      (`C01_float_readback`: the double read back is finite, has the same sign — also for ±0 and
      for values that print as zero — and `%.{p}f` rounds it to the same integer;
      `C01_reround`: the arithmetic core.)
  G2 (tree level)   `C01_rewrite_expected`: the configuration `c` with its tree replaced by the
      expected result of the round trip (`C01Parse.expectedRoot`) writes the same bytes as `c`;
      `C01_rewrite_same`: so does the configuration that `config_read_string` actually builds
      from the written form, when the reader has `c`'s options / tab width / float precision /
      default format.
      FINDING: the statement needs a hypothesis on the `format` field of integer settings that
      `LexOK` / `ParseOK` do not supply (`FmtOK`); without it it is false of the model
      (`C01_rewrite_unrestricted_false`).

  G3 (scientific notation, `%.{p}g` and the 17-digit re-rendering)
      FINDING: the float lemma is false as it stands (`C01_float_idem_sci_unrestricted_false`):
      at precision 16 (`C01_sci_p16`) and for denormals from precision 2 on (`C01_sci_denormal`).
      Side conditions of `floatOK` discharged: `C01_sci_length` (the rendering is not cut),
      `C01_sci_no_overflow` (the text does not read back as an infinity), hence
      `C01_floatOK_sci`, `C01_roundtrip_sci` (the round trip with finiteness as the only
      condition on floats, either notation).  On the way: `C01_floorLog10_spec`
      (`F64.floorLog10` is correct), `C01_sci_digits`, `C01_sci_value`.
      The float lemma with the hypotheses the findings call for: `C01_float_idem_sci`
      (precision ≤ 15 on normal doubles and zeros; precision ≥ 17 — `C01_sci_exact`: the double
      itself comes back; the re-rendered case), resting on `C01_ofRat_err` and `C01_spacing`.
      Tree level: `C01_rewrite_same_general`, `C01_rewrite_same_sci`.

  Helpers: Proofs/C01IdemFloat.lean, C01IdemTree.lean (G1, G2); C01IdemLog.lean,
  C01IdemSciDigits.lean, C01IdemSciLen.lean, C01IdemSciText.lean, C01IdemSciVal.lean,
  C01IdemSciOK.lean, C01IdemSciErr.lean, C01IdemSciCore.lean, C01IdemSciIdem.lean,
  C01IdemSciTree.lean (G3).
-/
namespace Libconfig.C01Idem
open Libconfig C01L C01Parse

/-! ## G1 — the float lemma -/

/-- **the arithmetic core.**  `divRoundEven n d` is `n/d` rounded to the nearest integer, ties to
even.  If `S·P/T` rounds to `N` and `S'` is at least as close to `N·T/P` as `S` is, then `S'·P/T`
rounds to `N` too.  (`S`, `S'`: magnitudes of two doubles scaled by `T = 2^1074`; `P = 10^p`.) -/
theorem C01_reround (S S' P T : Nat) (hT : 0 < T)
    (hnear : F64R.dist (F64.divRoundEven (S * P) T * T) (S' * P) ≤
      F64R.dist (F64.divRoundEven (S * P) T * T) (S * P)) :
    F64.divRoundEven (S' * P) T = F64.divRoundEven (S * P) T :=
  C01I.reround S S' P T hT hnear

/-- `F64R.dist` is the distance of two natural numbers -/
example (a b : Nat) : F64R.dist a b = Int.natAbs ((a : Int) - (b : Int)) := rfl

/-- `%.{p}f` prints the integer `round-half-even(|b|·10^p)`, `|b| = sMag b / 2^1074` -/
theorem C01_scaledRound (b p : Nat) :
    F64.scaledRound b p = F64.divRoundEven (F64R.sMag b * 10 ^ p) (2 ^ 1074) :=
  C01I.scaledRound_eq b p

/-- **what is read back.**  For a finite double `b` (any sign, zero and denormals included) and a
precision `p ≤ 26`, the double `strtod` makes of the written text is finite, has the sign of `b`
(so `-0.0`, and a negative value that prints as `-0.0`, come back as `-0.0`), and `%.{p}f` rounds
it to the same integer as `b`. -/
theorem C01_float_readback (b p : Nat) (hfin : F64.isFinite b = true) (hp : p ≤ 26) :
    let b' := F64.strtod (formatDouble 341 b p false)
    F64.isFinite b' = true ∧ F64.signBit b' = F64.signBit b ∧
      F64.scaledRound b' p = F64.scaledRound b p :=
  C01I.readback b p hfin hp

/-- **C01_float_idem** (G1).  Scientific notation off, precision at most 26, the buffer of
`__config_write_value` (FLOAT_BUF_SIZE = 341, so that `snprintf` cuts nothing): for every finite
double `b` — no bound on the bit pattern is needed; the sign bit, exponent and fraction fields are
read off `b` by division — the text written for the double that is read back from the text written
for `b` is that same text. -/
theorem C01_float_idem (b p : Nat) (hfin : F64.isFinite b = true) (hp : p ≤ 26) :
    formatDouble 341 (F64.strtod (formatDouble 341 b p false)) p false = formatDouble 341 b p false :=
  C01I.formatDouble_idem b p hfin hp

/-- … with the constant of the library -/
theorem C01_float_idem_lib (b p : Nat) (hfin : F64.isFinite b = true) (hp : p ≤ 26) :
    formatDouble Generated.FLOAT_BUF_SIZE
        (F64.strtod (formatDouble Generated.FLOAT_BUF_SIZE b p false)) p false =
      formatDouble Generated.FLOAT_BUF_SIZE b p false :=
  C01I.formatDouble_idem b p hfin hp

/-- the post-processing of `libconfig_format_double` (append `.0`, strip trailing zeros) does not
get in the way: the value `strtod` reads off the written text is decided by the digits
`N = scaledRound b p` alone — the written text is sign, integer digits, point, fraction digits,
and its digit string denotes `N` up to a power of ten -/
theorem C01_float_text (b p : Nat) (hfin : F64.isFinite b = true) (hp : p ≤ 26) :
    ∃ ip fq z y, formatDouble 341 b p false = signBytes (F64.signBit b) ++ ip ++ 46 :: fq ∧
      ip ≠ [] ∧ AllDigits ip ∧ AllDigits fq ∧ fq ≠ [] ∧
      digitsVal 10 (ip ++ fq) * 10 ^ z = F64.scaledRound b p * 10 ^ y ∧ fq.length + z = p + y ∧
      F64.strtod (formatDouble 341 b p false) =
        (if digitsVal 10 (ip ++ fq) = 0 then F64.mkBits (F64.signBit b) 0 0
         else F64.ofRat (F64.signBit b) (digitsVal 10 (ip ++ fq)) (10 ^ fq.length)) := by
  obtain ⟨ip, fq, z, y, h1, h2, h3, h4, h5, h6, h7, h8, h9⟩ := C01I.fixed_text' b p hfin hp
  refine ⟨ip, fq, z, y, h1, h2, h3, h4, h5, h7, h8, ?_⟩
  rw [h1]
  exact C01I.strtod_form' _ ip fq h2 h3 h4 h6 (by omega)

/-! ### instances, evaluated by the kernel

Each line: the text written for `b`, the double read back from it, and the text written for that
double. -/

/-- writes, reads back, writes again -/
def trip (b p : Nat) : Bytes × Nat × Bytes :=
  (formatDouble 341 b p false, F64.strtod (formatDouble 341 b p false),
   formatDouble 341 (F64.strtod (formatDouble 341 b p false)) p false)

/-- 0.1 at the default precision 6: `0.1` → 0.1 → `0.1` -/
example : F64.isFinite 0x3FB999999999999A = true ∧
    trip 0x3FB999999999999A 6 = (bytesOfString "0.1", 0x3FB999999999999A, bytesOfString "0.1") := by
  decide +kernel

/-- 0.1 at precision 20: all 20 digits of the binary value are written; the same double comes back -/
example : trip 0x3FB999999999999A 20 =
    (bytesOfString "0.10000000000000000555", 0x3FB999999999999A,
     bytesOfString "0.10000000000000000555") := by
  decide +kernel

/-- 1/3 at precision 6: `0.333333` reads back as a DIFFERENT double (the one nearest to
0.333333), which is written as `0.333333` again -/
example : trip 0x3FD5555555555555 6 =
    (bytesOfString "0.333333", 0x3FD55553EF6B5D46, bytesOfString "0.333333") := by
  decide +kernel

/-- 2^53 + 2 (the successor of 2^53; 2^53 + 1 is not a double) -/
example : trip 0x4340000000000001 6 =
    (bytesOfString "9007199254740994.0", 0x4340000000000001, bytesOfString "9007199254740994.0") := by
  decide +kernel

/-- DBL_MAX at precision 0: 309 digits, `.0` appended; comes back as DBL_MAX -/
example : (trip 0x7FEFFFFFFFFFFFFF 0).1.length = 311 ∧ (trip 0x7FEFFFFFFFFFFFFF 0).2.1 = 0x7FEFFFFFFFFFFFFF ∧
    (trip 0x7FEFFFFFFFFFFFFF 0).2.2 = (trip 0x7FEFFFFFFFFFFFFF 0).1 := by
  decide +kernel

/-- DBL_MAX at precision 15 and at precision 26 -/
example : (trip 0x7FEFFFFFFFFFFFFF 15).2.1 = 0x7FEFFFFFFFFFFFFF ∧
    (trip 0x7FEFFFFFFFFFFFFF 15).2.2 = (trip 0x7FEFFFFFFFFFFFFF 15).1 ∧
    (trip 0x7FEFFFFFFFFFFFFF 26).2.2 = (trip 0x7FEFFFFFFFFFFFFF 26).1 := by
  decide +kernel

/-- the smallest denormal 2^-1074 prints as `0.0`, which reads back as +0.0 — another double, the
same text -/
example : trip 1 6 = (bytesOfString "0.0", 0, bytesOfString "0.0") ∧
    trip 1 26 = (bytesOfString "0.0", 0, bytesOfString "0.0") := by
  decide +kernel

/-- −0.0: the sign is written and comes back -/
example : trip (2 ^ 63) 6 = (bytesOfString "-0.0", 2 ^ 63, bytesOfString "-0.0") := by
  decide +kernel

/-- −1e-10 at precision 6 rounds to zero but keeps its sign: `-0.0` → −0.0 → `-0.0` -/
example : trip 0xBDDB7CDFD9D7BDBB 6 = (bytesOfString "-0.0", 2 ^ 63, bytesOfString "-0.0") := by
  decide +kernel

/-- ties go to the even neighbour, on both passes: 0.5 → `0.0`, 1.5 → `2.0`, 2.5 → `2.0` at
precision 0; 0.125 → `0.12`, 0.375 → `0.38` at precision 2 -/
example : trip 0x3FE0000000000000 0 = (bytesOfString "0.0", 0, bytesOfString "0.0") ∧
    trip 0x3FF8000000000000 0 = (bytesOfString "2.0", 0x4000000000000000, bytesOfString "2.0") ∧
    trip 0x4004000000000000 0 = (bytesOfString "2.0", 0x4000000000000000, bytesOfString "2.0") ∧
    trip 0x3FC0000000000000 2 = (bytesOfString "0.12", 0x3FBEB851EB851EB8, bytesOfString "0.12") ∧
    trip 0x3FD8000000000000 2 = (bytesOfString "0.38", 0x3FD851EB851EB852, bytesOfString "0.38") := by
  decide +kernel

/-- the hypothesis `isFinite` is needed: an infinity is written as `inf.0`, which `strtod` (on the
language of float literals) does not read as a number — the text is not a fixed point -/
example : F64.isFinite F64.posInf = false ∧
    trip F64.posInf 6 = (bytesOfString "inf.0", 0, bytesOfString "0.0") := by
  decide +kernel

/-! ## G2 — the tree -/

/-- the presentation attributes `config_write` looks at: options, tab width, float precision,
default format -/
example (c c' : Config) : C01I.SameAttrs c c' ↔
    (c'.options = c.options ∧ c'.tabWidth = c.tabWidth ∧ c'.floatPrecision = c.floatPrecision ∧
      c'.defaultFormat = c.defaultFormat) := Iff.rfl

/-- **the format condition.**  Every INT / INT64 setting has a `format` that
`config_setting_set_format` accepts (`CONFIG_FORMAT_DEFAULT` = 0 or `CONFIG_FORMAT_HEX` = 1) —
or the configuration's default format is not HEX.  (The API cannot break it: see
`C01_setFormat_ok`; the model's `Node` type can.) -/
def FmtOK (c : Config) : Bool := C01I.nodeFmt c c.root

/-- what `FmtOK` asks of one integer setting -/
example (c : Config) (fmt : Nat) :
    C01I.intFmtOK c fmt = (decide (fmt ≤ 1) || c.defaultFormat != FMT_HEX) := rfl

/-- `config_setting_set_format` stores nothing but 0 or 1 -/
theorem C01_setFormat_ok (n n' : Node) (f : Nat) (h : n.setFormat f = some n') : n'.fmt ≤ 1 := by
  unfold Node.setFormat at h
  split at h
  · cases h
  · rename_i hc
    simp only [Bool.or_eq_true, Bool.and_eq_true, bne_iff_ne, ne_eq, not_or, not_and,
      Decidable.not_not] at hc
    cases h
    show f ≤ 1
    by_cases h0 : f = FMT_DEFAULT
    · rw [h0]; decide
    · rw [hc.2 h0]; decide

/-- **the tree lemma, general form.**  Any buffer size, any notation: if every float setting's text
is a fixed point of read-then-write (`floatIdem`, a decidable check) and every integer setting's
format survives (`intFmtOK`), then a configuration `c'` that holds the expected result of the
round trip and has the presentation attributes of `c` writes exactly the bytes `c` wrote. -/
theorem C01_rewrite_expected_general (bufLen : Nat) (c c' : Config) (ha : C01I.SameAttrs c c')
    (hroot : c'.root = expectedRoot bufLen c) (h : C01I.nodeIdem bufLen c c.root = true) :
    c'.write bufLen = c.write bufLen :=
  C01I.write_expected bufLen c c' ha hroot h

/-- **C01_rewrite_expected** (G2).  Default notation (scientific off, precision ≤ 26, the
library's buffer): for a configuration whose floats are finite (`LexOKfin` — which also asks for
readable names, integer ranges and NUL-free strings; only the finiteness is used) and whose
integer formats are sane (`FmtOK`),
`c' := { c with root := expectedRoot … c }` writes the same bytes as `c`.
Integers keep value and effective format; booleans are written `true` for any non-zero value and
come back as 1; a NULL string and the empty string are both written `""`; floats: G1; the order of
children is kept.  (`ParseOK` is not needed for this step: children of scalar settings are
ignored by the writer and by `expectedRoot` alike.) -/
theorem C01_rewrite_expected (c : Config) (hsci : c.opt OPT_SCIENTIFIC = false)
    (hprec : c.floatPrecision ≤ 26) (hl : LexOKfin c = true) (hfmt : FmtOK c = true) :
    ({ c with root := expectedRoot Generated.FLOAT_BUF_SIZE c } : Config).write Generated.FLOAT_BUF_SIZE =
      c.write Generated.FLOAT_BUF_SIZE :=
  C01I.write_expected 341 c _ ⟨rfl, rfl, rfl, rfl⟩ rfl
    (C01I.nodeIdem_of_fin c hsci hprec c.root hl hfmt)

/-- source positions (`line`, `file`) are not written -/
theorem C01_write_ignores_positions (bufLen : Nat) (c c' : Config) (ha : C01I.SameAttrs c c')
    (hroot : c.root = stripPos c'.root) : c'.write bufLen = c.write bufLen :=
  C01I.write_of_stripPos bufLen c c' ha hroot

/-- **C01_rewrite_same** (G2, corollary).  `config_write(c)`, then `config_read_string` into a
configuration `c₀` that has `c`'s options, tab width, float precision and default format (any old
tree, include directory, error record, hooks; any world; enough fuel), then `config_write` again:
the same bytes.  Hypotheses: those of the round trip under the default notation
(`C01_roundtrip_default`) and `FmtOK`. -/
theorem C01_rewrite_same (c : Config) (hsci : c.opt OPT_SCIENTIFIC = false)
    (hprec : c.floatPrecision ≤ 26) (hl : LexOKfin c = true) (hp : ParseOK c = true)
    (hfmt : FmtOK c = true) (w : World) (c₀ : Config) (ha : C01I.SameAttrs c c₀) (fuel : Nat)
    (hfuel : fuel ≥ 8 * (c.write Generated.FLOAT_BUF_SIZE).length + 10) :
    (read w c₀ (.string (c.write Generated.FLOAT_BUF_SIZE)) fuel).cfg.write Generated.FLOAT_BUF_SIZE =
      c.write Generated.FLOAT_BUF_SIZE := by
  have hrt := (C01RoundTrip.C01_roundtrip_default c hsci hprec hl hp w c₀ fuel hfuel).2.2
  have hattr := C05P.read_attrs w c₀ (.string (c.write Generated.FLOAT_BUF_SIZE)) fuel
  generalize (read w c₀ (.string (c.write Generated.FLOAT_BUF_SIZE)) fuel).cfg = cr at hrt hattr
  unfold C05P.cfgAttrs at hattr
  simp only [Prod.mk.injEq] at hattr
  obtain ⟨a1, -, a2, a3, a4, -⟩ := hattr
  obtain ⟨b1, b2, b3, b4⟩ := ha
  have hcr : C01I.SameAttrs c cr := ⟨a1.trans b1, a2.trans b2, a3.trans b3, a4.trans b4⟩
  rw [← C01_rewrite_expected c hsci hprec hl hfmt]
  exact C01I.write_of_stripPos 341 _ cr hcr hrt.symm

/-- … for the other two read functions -/
theorem C01_rewrite_same_stream (c : Config) (hsci : c.opt OPT_SCIENTIFIC = false)
    (hprec : c.floatPrecision ≤ 26) (hl : LexOKfin c = true) (hp : ParseOK c = true)
    (hfmt : FmtOK c = true) (w : World) (c₀ : Config) (ha : C01I.SameAttrs c c₀) (fuel : Nat)
    (hfuel : fuel ≥ 8 * (c.write Generated.FLOAT_BUF_SIZE).length + 10) :
    (read w c₀ (.stream (c.write Generated.FLOAT_BUF_SIZE)) fuel).cfg.write Generated.FLOAT_BUF_SIZE =
      c.write Generated.FLOAT_BUF_SIZE := by
  have hrt := (C01RoundTrip.C01_roundtrip_default_stream c hsci hprec hl hp w c₀ fuel hfuel).2.2
  have hattr := C05P.read_attrs w c₀ (.stream (c.write Generated.FLOAT_BUF_SIZE)) fuel
  generalize (read w c₀ (.stream (c.write Generated.FLOAT_BUF_SIZE)) fuel).cfg = cr at hrt hattr
  unfold C05P.cfgAttrs at hattr
  simp only [Prod.mk.injEq] at hattr
  obtain ⟨a1, -, a2, a3, a4, -⟩ := hattr
  obtain ⟨b1, b2, b3, b4⟩ := ha
  have hcr : C01I.SameAttrs c cr := ⟨a1.trans b1, a2.trans b2, a3.trans b3, a4.trans b4⟩
  rw [← C01_rewrite_expected c hsci hprec hl hfmt]
  exact C01I.write_of_stripPos 341 _ cr hcr hrt.symm

theorem C01_rewrite_same_file (c : Config) (hsci : c.opt OPT_SCIENTIFIC = false)
    (hprec : c.floatPrecision ≤ 26) (hl : LexOKfin c = true) (hp : ParseOK c = true)
    (hfmt : FmtOK c = true) (w : World) (c₀ : Config) (ha : C01I.SameAttrs c c₀) (path : Bytes)
    (hfile : w.open? path = some (c.write Generated.FLOAT_BUF_SIZE)) (fuel : Nat)
    (hfuel : fuel ≥ 8 * (c.write Generated.FLOAT_BUF_SIZE).length + 10) :
    (read w c₀ (.file path) fuel).cfg.write Generated.FLOAT_BUF_SIZE =
      c.write Generated.FLOAT_BUF_SIZE := by
  have hrt := (C01RoundTrip.C01_roundtrip_default_file c hsci hprec hl hp w c₀ path hfile fuel hfuel).2.2
  have hattr := C05P.read_attrs w c₀ (.file path) fuel
  generalize (read w c₀ (.file path) fuel).cfg = cr at hrt hattr
  unfold C05P.cfgAttrs at hattr
  simp only [Prod.mk.injEq] at hattr
  obtain ⟨a1, -, a2, a3, a4, -⟩ := hattr
  obtain ⟨b1, b2, b3, b4⟩ := ha
  have hcr : C01I.SameAttrs c cr := ⟨a1.trans b1, a2.trans b2, a3.trans b3, a4.trans b4⟩
  rw [← C01_rewrite_expected c hsci hprec hl hfmt]
  exact C01I.write_of_stripPos 341 _ cr hcr hrt.symm

/-! ### FINDING: without `FmtOK` the statement is false of the model

`config_setting_get_format` returns the setting's own format when it is non-zero and the
configuration's default format otherwise; the writer prints hexadecimal exactly when the result
is `CONFIG_FORMAT_HEX` = 1.  A setting whose own format is neither 0 nor 1 (say 2) is therefore
written in decimal even when the default format is HEX; the decimal literal reads back with
format 0, and format 0 under a HEX default is written in hexadecimal.  Such a format cannot be
stored through `config_setting_set_format` (`C01_setFormat_ok`), and the parser stores 0 or 1
only, so this is a gap between the model's state space and the reachable states, not a defect of
the library; the hypothesis `FmtOK` closes it. -/

/-- the statement as first asked for: no condition on the formats -/
def C01_rewrite_unrestricted : Prop :=
  ∀ c : Config, c.opt OPT_SCIENTIFIC = false → c.floatPrecision ≤ 26 → LexOKfin c = true →
    ParseOK c = true →
    ({ c with root := expectedRoot Generated.FLOAT_BUF_SIZE c } : Config).write Generated.FLOAT_BUF_SIZE =
      c.write Generated.FLOAT_BUF_SIZE

/-- `a = 10;` with the setting's format 2 under a HEX default -/
def oddFormat : Config :=
  { root := { ty := T_GROUP, kids := [{ name := some [97], ty := T_INT, ival := 10, fmt := 2 }] },
    defaultFormat := FMT_HEX }

/-- the counterexample: every other hypothesis holds, the first writing is `a = 10;`, the second
`a = 0xA;` -/
theorem C01_oddFormat : oddFormat.opt OPT_SCIENTIFIC = false ∧ oddFormat.floatPrecision ≤ 26 ∧
    LexOKfin oddFormat = true ∧ ParseOK oddFormat = true ∧ FmtOK oddFormat = false ∧
    oddFormat.write Generated.FLOAT_BUF_SIZE = bytesOfString "a = 10;\n" ∧
    ({ oddFormat with root := expectedRoot Generated.FLOAT_BUF_SIZE oddFormat } : Config).write
      Generated.FLOAT_BUF_SIZE = bytesOfString "a = 0xA;\n" := by
  decide +kernel

theorem C01_rewrite_unrestricted_false : ¬ C01_rewrite_unrestricted := by
  intro h
  obtain ⟨h1, h2, h3, h4, -, h6, h7⟩ := C01_oddFormat
  have := h oddFormat h1 h2 h3 h4
  rw [h6, h7] at this
  revert this
  decide +kernel

/-! ### instances, evaluated by the kernel -/

/-- ```
a = 0x1F;          (own format HEX)
b = 0xFF;          (format 0, the configuration's default format is HEX)
n = 0xFFFFFFFFFFFFFFFFL;   (−1 as INT64 under the HEX default)
g :
{
  l = ( true, "x\"\n", ( ), 0.1, 0.333333, -0.0, 0.0 );
  v = [ 1.5, 0.0 ];
};
z = "";            (a NULL string)
```
floats: 0.1, 1/3, −1e-10, the smallest denormal; 1.5, 2^-1074; the boolean holds 7 -/
def sample : Config :=
  { root := { ty := T_GROUP, kids := [
      { name := some [97], ty := T_INT, ival := 31, fmt := FMT_HEX },
      { name := some [98], ty := T_INT, ival := 255 },
      { name := some [110], ty := T_INT64, ival := -1 },
      { name := some [103], ty := T_GROUP, kids := [
          { name := some [108], ty := T_LIST, kids := [
              { ty := T_BOOL, ival := 7 }, { ty := T_STRING, sval := some [120, 34, 10] },
              { ty := T_LIST }, { ty := T_FLOAT, fval := 0x3FB999999999999A },
              { ty := T_FLOAT, fval := 0x3FD5555555555555 },
              { ty := T_FLOAT, fval := 0xBDDB7CDFD9D7BDBB }, { ty := T_FLOAT, fval := 1 } ] },
          { name := some [118], ty := T_ARRAY, kids := [
              { ty := T_FLOAT, fval := 0x3FF8000000000000 }, { ty := T_FLOAT, fval := 1 } ] } ] },
      { name := some [122], ty := T_STRING } ] },
    defaultFormat := FMT_HEX }

/-- the written form -/
example : sample.write Generated.FLOAT_BUF_SIZE = bytesOfString
    ("a = 0x1F;\nb = 0xFF;\nn = 0xFFFFFFFFFFFFFFFFL;\ng : \n{\n" ++
     "  l = ( true, \"x\\\"\\n\", ( ), 0.1, 0.333333, -0.0, 0.0 );\n  v = [ 1.5, 0.0 ];\n};\nz = \"\";\n") := by
  decide +kernel

/-- the hypotheses of `C01_rewrite_expected` / `C01_rewrite_same` hold of it; the written form has
139 bytes -/
example : sample.opt OPT_SCIENTIFIC = false ∧ sample.floatPrecision ≤ 26 ∧ LexOKfin sample = true ∧
    ParseOK sample = true ∧ FmtOK sample = true ∧
    (sample.write Generated.FLOAT_BUF_SIZE).length = 139 := by
  decide +kernel

/-- the expected tree is NOT the written tree (so the conclusion is not trivial): the boolean 7
became 1, the NULL string the empty string, 1/3 and −1e-10 and the denormals other doubles, the
format of `b` stayed 0 -/
example :
    rows (expectedRoot 341 sample) =
      [⟨none, 1, 0, 0, 0, none, 5, 0, 0, none⟩,
       ⟨some [97], 2, 1, 31, 0, none, 0, 0, 0, none⟩,
       ⟨some [98], 2, 1, 255, 0, none, 0, 0, 0, none⟩,
       ⟨some [110], 3, 1, -1, 0, none, 0, 0, 0, none⟩,
       ⟨some [103], 1, 0, 0, 0, none, 2, 0, 0, none⟩,
       ⟨some [108], 8, 0, 0, 0, none, 7, 0, 0, none⟩,
       ⟨none, 6, 0, 1, 0, none, 0, 0, 0, none⟩,
       ⟨none, 5, 0, 0, 0, some [120, 34, 10], 0, 0, 0, none⟩,
       ⟨none, 8, 0, 0, 0, none, 0, 0, 0, none⟩,
       ⟨none, 4, 0, 0, 0x3FB999999999999A, none, 0, 0, 0, none⟩,
       ⟨none, 4, 0, 0, 0x3FD55553EF6B5D46, none, 0, 0, 0, none⟩,
       ⟨none, 4, 0, 0, 0x8000000000000000, none, 0, 0, 0, none⟩,
       ⟨none, 4, 0, 0, 0, none, 0, 0, 0, none⟩,
       ⟨some [118], 7, 0, 0, 0, none, 2, 0, 0, none⟩,
       ⟨none, 4, 0, 0, 0x3FF8000000000000, none, 0, 0, 0, none⟩,
       ⟨none, 4, 0, 0, 0, none, 0, 0, 0, none⟩,
       ⟨some [122], 5, 0, 0, 0, some [], 0, 0, 0, none⟩] := by
  decide +kernel

/-- **`C01_rewrite_expected` applied** -/
example : ({ sample with root := expectedRoot Generated.FLOAT_BUF_SIZE sample } : Config).write
    Generated.FLOAT_BUF_SIZE = sample.write Generated.FLOAT_BUF_SIZE :=
  C01_rewrite_expected sample (by decide +kernel) (by decide +kernel) (by decide +kernel)
    (by decide +kernel)

/-- a reading configuration with `sample`'s presentation attributes that is not fresh otherwise: an
old tree, an include directory, an old error record -/
def reader : Config :=
  { root := { ty := T_GROUP, kids := [{ name := some [97], ty := T_STRING, sval := some [120] }] },
    defaultFormat := FMT_HEX, includeDir := some [47, 116, 109, 112], errType := ERR_PARSE,
    errLine := 3, errText := some [120] }

/-- **`C01_rewrite_same` applied** (fuel 8·139 + 10 = 1122) -/
example : (read {} reader (.string (sample.write Generated.FLOAT_BUF_SIZE)) 1122).cfg.write
    Generated.FLOAT_BUF_SIZE = sample.write Generated.FLOAT_BUF_SIZE :=
  C01_rewrite_same sample (by decide +kernel) (by decide +kernel) (by decide +kernel)
    (by decide +kernel) (by decide +kernel) {} reader ⟨rfl, rfl, rfl, rfl⟩ 1122 (by decide +kernel)

/-- … and the kernel, running the reader and the writer themselves, finds the same bytes; the
tree it read is the expected one, positions apart -/
example : (read {} reader (.string (sample.write 341)) 1122).cfg.write 341 = sample.write 341 ∧
    rows (stripPos (read {} reader (.string (sample.write 341)) 1122).cfg.root) =
      rows (expectedRoot 341 sample) := by
  decide +kernel

/-- the reader's presentation attributes matter (that is why `SameAttrs` is a hypothesis): read
into a configuration whose float precision is 2, `0.333333` is written `0.33` the second time -/
example : (read {} { Config.init with floatPrecision := 2 } (.string (sample.write 341)) 1122).cfg.write 341 ≠
    sample.write 341 := by
  decide +kernel

/-! ## G3 — scientific notation (`CONFIG_OPTION_ALLOW_SCIENTIFIC_NOTATION`): findings

With `%.{p}g` the written text is NOT always a fixed point of read-then-write.  Two families of
counterexamples, both evaluated by the kernel (and both reproduce with glibc's `printf` /
`strtod`, of which `F64.fmtG` / `F64.strtod` are exact models):

* precision 16 — one digit short of the 17 that identify a double.  The successor of the double
  nearest to 10^23 is written `1e+23`; `1e+23` reads back as the double nearest to 10^23, which
  lies below 10^23 and is written `9.999999999999999e+22`.  (At precision ≤ 15 the spacing of the
  doubles is fine enough, at precision ≥ 17 the double itself comes back.)
* denormals, already at precision 2 — the spacing 2^-1074 of the doubles is coarser than the
  decimal grid.  21·2^-1074 = 1.0375…e-322 is written `1e-322`, which reads back as 20·2^-1074 =
  9.88…e-323, written `9.9e-323`.
-/

/-- writes, reads back, writes again — scientific notation allowed -/
def tripSci (b p : Nat) : Bytes × Nat × Bytes :=
  (formatDouble 341 b p true, F64.strtod (formatDouble 341 b p true),
   formatDouble 341 (F64.strtod (formatDouble 341 b p true)) p true)

/-- the statement of G1 for `%.{p}g` -/
def C01_float_idem_sci_unrestricted : Prop :=
  ∀ b p : Nat, F64.isFinite b = true → p ≤ 26 →
    formatDouble 341 (F64.strtod (formatDouble 341 b p true)) p true = formatDouble 341 b p true

/-- precision 16, near 10^23 -/
theorem C01_sci_p16 : F64.isFinite 0x44B52D02C7E14AF7 = true ∧
    tripSci 0x44B52D02C7E14AF7 16 =
      (bytesOfString "1e+23", 0x44B52D02C7E14AF6, bytesOfString "9.999999999999999e+22") := by
  decide +kernel

/-- precision 2, a denormal -/
theorem C01_sci_denormal : F64.isFinite 21 = true ∧
    tripSci 21 2 = (bytesOfString "1e-322", 20, bytesOfString "9.9e-323") := by
  decide +kernel

theorem C01_float_idem_sci_unrestricted_false : ¬ C01_float_idem_sci_unrestricted := by
  intro h
  have := h 21 2 (by decide +kernel) (by omega)
  revert this
  decide +kernel

/-- the same values at neighbouring precisions, and ordinary values at the default precision 6,
are fixed points; DBL_MAX at precision 5 takes the 17-digit re-rendering (`1.7977e+308` would
read back as an infinity) and comes back exactly -/
example :
    tripSci 0x44B52D02C7E14AF7 15 = (bytesOfString "1e+23", 0x44B52D02C7E14AF6, bytesOfString "1e+23") ∧
    tripSci 0x44B52D02C7E14AF7 17 = (bytesOfString "1.0000000000000001e+23", 0x44B52D02C7E14AF7,
      bytesOfString "1.0000000000000001e+23") ∧
    tripSci 21 17 = (bytesOfString "1.0375378562666177e-322", 21,
      bytesOfString "1.0375378562666177e-322") ∧
    tripSci 0x3FB999999999999A 6 = (bytesOfString "0.1", 0x3FB999999999999A, bytesOfString "0.1") ∧
    tripSci 0x412E848000000000 6 = (bytesOfString "1e+06", 0x412E848000000000, bytesOfString "1e+06") ∧
    tripSci 0x7FEFFFFFFFFFFFFF 5 = (bytesOfString "1.7976931348623157e+308", 0x7FEFFFFFFFFFFFFF,
      bytesOfString "1.7976931348623157e+308") := by
  decide +kernel

/-! ## G3 — scientific notation: the two side conditions of `floatOK` discharged

`C01L.floatOK` (Properties/C01Lex.lean) keeps two executable side conditions as hypotheses when
`CONFIG_OPTION_ALLOW_SCIENTIFIC_NOTATION` is on: the `%.{p}g` rendering (or its 17-digit
re-rendering) is not cut by the `snprintf` limit, and the written text does not read back as an
infinity.  Both hold for every finite double (precision ≤ 70); the proof needs the correctness of
`F64.floorLog10` and an error analysis of 17-digit rounding. -/

/-- **`F64.floorLog10` is correct**: for a positive ratio whose bit lengths differ by less than
1040 (every finite double: between −1074 and 1023), `10^x0 ≤ num/den < 10^(x0+1)`
(cross-multiplied: negative exponents move to the other side) -/
theorem C01_floorLog10_spec (num den : Nat) (hn : 0 < num) (hd : 0 < den)
    (h1 : -1080 ≤ (F64.bitLen num : Int) - (F64.bitLen den : Int))
    (h2 : (F64.bitLen num : Int) - (F64.bitLen den : Int) < 1040) :
    den * 10 ^ (F64.floorLog10 num den).toNat ≤ num * 10 ^ (-F64.floorLog10 num den).toNat ∧
    num * 10 ^ (-(F64.floorLog10 num den + 1)).toNat <
      den * 10 ^ (F64.floorLog10 num den + 1).toNat :=
  ⟨(C01I.floorLog10_spec num den hn hd h1 h2).1, (C01I.floorLog10_spec num den hn hd h1 h2).2.1⟩

/-- instances: the smallest denormal 2^-1074 ≈ 4.94e-324 and DBL_MAX ≈ 1.797e308 (the extremes of
the range of bit-length differences: −1074 and 1023), and small ratios -/
example : F64.floorLog10 1 (2 ^ 1074) = -324 ∧
    F64.floorLog10 ((2 ^ 53 - 1) * 2 ^ 971) 1 = 308 ∧ F64.floorLog10 1 10 = -1 ∧
    F64.floorLog10 999 1000 = -1 ∧ F64.floorLog10 1000 1 = 3 ∧
    (F64.bitLen 1 : Int) - (F64.bitLen (2 ^ 1074) : Int) = -1074 ∧
    (F64.bitLen ((2 ^ 53 - 1) * 2 ^ 971) : Int) - (F64.bitLen 1 : Int) = 1023 := by
  decide +kernel

/-- the digits `d` and the decimal exponent `x` of `%.{p}g` (p ≥ 1) of a finite non-zero double:
`10^(p-1) ≤ d < 10^p`, and `x` is the decimal exponent `x0` of the magnitude or, after a carry,
`x0 + 1` -/
theorem C01_sci_digits (b p : Nat) (hfin : F64.isFinite b = true) (hm : F64.mant b ≠ 0) (hp : 1 ≤ p) :
    10 ^ (p - 1) ≤ (C01P.gDX b p).1 ∧ (C01P.gDX b p).1 < 10 ^ p ∧
      ((C01P.gDX b p).2 = C01I.gX0 b ∨ (C01P.gDX b p).2 = C01I.gX0 b + 1) ∧
      -330 ≤ C01I.gX0 b ∧ C01I.gX0 b ≤ 320 :=
  have h := C01I.gDX_spec b p hfin hm hp
  ⟨h.dlo, h.dhi, h.xcase, h.x0lo, h.x0hi⟩

/-- **first side condition**: `%.{p}g` of a finite double has at most `max p 1 + 7` characters,
so with the library's buffer nothing is cut for precisions up to 330 -/
theorem C01_sci_length (b p : Nat) (hfin : F64.isFinite b = true) :
    (F64.fmtG b p).length ≤ (if p = 0 then 1 else p) + 7 ∧
    (p ≤ 330 → (C01P.rawText 341 b p true).length ≤ 341 - 4) :=
  ⟨C01I.fmtG_length b p hfin, C01I.rawText_sci_fits b p hfin⟩

/-- what `strtod` reads off the written text (`%.{P}g` of a finite non-zero double, post-processed):
the correctly rounded double of a positive ratio `N/Dn` equal to `d0·10^sh`, where
`sh = x0 - P + 1` and `d0` is `|b| / 10^sh` rounded half-even -/
theorem C01_sci_value (b P : Nat) (hfin : F64.isFinite b = true) (hm : F64.mant b ≠ 0) (hP : 1 ≤ P)
    (hP70 : P ≤ 70) :
    ∃ N Dn, 0 < N ∧ 0 < Dn ∧ F64.strtod (C01I.sciText b P) = F64.ofRat (F64.signBit b) N Dn ∧
      N * 10 ^ (-C01I.gSh b P).toNat = C01I.gQ b P * 10 ^ (C01I.gSh b P).toNat * Dn := by
  obtain ⟨N, Dn, h⟩ := C01I.sciText_value b P hfin hm hP hP70
  exact ⟨N, Dn, h.npos, h.dpos, h.value, h.ratio⟩

/-- **second side condition**: the text written for a finite double never reads back as an
infinity (a short rendering that would is replaced by the 17-digit one, which exceeds the
magnitude by a factor of at most 1 + 1/(2·10^16) and stays below the overflow threshold) -/
theorem C01_sci_no_overflow (b p : Nat) (hfin : F64.isFinite b = true) (hp : p ≤ 70) :
    F64.isInf (F64.strtod (formatDouble 341 b p true)) = false :=
  C01I.sci_no_overflow b p hfin hp

/-- **C01_floatOK_sci**: with scientific notation allowed, a precision of at most 70 and the
library's buffer, every finite double satisfies `floatOK` -/
theorem C01_floatOK_sci (c : Config) (b : Nat) (hfin : F64.isFinite b = true)
    (hsci : c.opt OPT_SCIENTIFIC = true) (hp : c.floatPrecision ≤ 70) : floatOK 341 c b = true :=
  C01I.floatOK_sci c b hfin hsci hp

/-- hence `LexOK` reduces to `LexOKfin` for either notation … -/
theorem C01_lexOK_of_fin_any (c : Config)
    (hp : c.floatPrecision ≤ 26 ∨ (c.opt OPT_SCIENTIFIC = true ∧ c.floatPrecision ≤ 70))
    (h : LexOKfin c = true) : LexOK 341 c = true :=
  C01I.lexOK_of_fin_any c hp h

/-- … and the round trip holds with finiteness as the only condition on floats, scientific
notation allowed (compare `C01RoundTrip.C01_roundtrip_default`) -/
theorem C01_roundtrip_sci (c : Config)
    (hprec : c.floatPrecision ≤ 26 ∨ (c.opt OPT_SCIENTIFIC = true ∧ c.floatPrecision ≤ 70))
    (hl : LexOKfin c = true) (hp : ParseOK c = true) (w : World) (c₀ : Config) (fuel : Nat)
    (hfuel : fuel ≥ 8 * (c.write Generated.FLOAT_BUF_SIZE).length + 10) :
    let r := read w c₀ (.string (c.write Generated.FLOAT_BUF_SIZE)) fuel
    r.ok = true ∧ r.result = .accept ∧
      stripPos r.cfg.root = expectedRoot Generated.FLOAT_BUF_SIZE c :=
  C01RoundTrip.C01_roundtrip_string 341 c (C01I.lexOK_of_fin_any c hprec hl) hp w c₀ fuel hfuel

/-- instances: DBL_MAX at precision 5 under scientific notation takes the re-rendering; the
smallest denormal is written `4.94066e-324`; both satisfy `floatOK` by the theorem, and the kernel
agrees -/
example : floatOK 341 { Config.init with options := OPT_SCIENTIFIC, floatPrecision := 5 }
      0x7FEFFFFFFFFFFFFF = true ∧
    formatDouble 341 1 6 true = bytesOfString "4.94066e-324" ∧
    floatOK 341 { Config.init with options := OPT_SCIENTIFIC } 1 = true := by
  decide +kernel

/-! ## G3 — scientific notation: the float lemma, with the hypotheses the findings call for -/

/-- **C01_float_idem_sci.**  `%.{p}g` (precision ≤ 70, the library's buffer): the written text is
a fixed point of read-then-write
* for precisions up to 15, when the double is normal (exponent field ≠ 0) or zero — the
  spacing of normal doubles, a relative 2^-52, is finer than the 15-digit decimal grid;
* for precisions from 17 on — the double read back IS the double written (sign and magnitude);
* whenever the 17-digit re-rendering is taken (the short rendering reads back as an infinity).
Precision 16 and denormals at low precision are excluded, and have to be: `C01_sci_p16`,
`C01_sci_denormal`. -/
theorem C01_float_idem_sci (b p : Nat) (hfin : F64.isFinite b = true) (hp : p ≤ 70)
    (hcase : (p ≤ 15 ∧ (F64.expField b ≠ 0 ∨ F64.mant b = 0)) ∨ 17 ≤ p ∨
      F64.isInf (F64.strtod (F64.fmtG b p)) = true) :
    formatDouble 341 (F64.strtod (formatDouble 341 b p true)) p true = formatDouble 341 b p true :=
  C01I.formatDouble_idem_sci b p hfin hp hcase

/-- seventeen digits and more: sign and magnitude of the double come back (hence, for bit
patterns below 2^64, the double itself) -/
theorem C01_sci_exact (b P : Nat) (hfin : F64.isFinite b = true) (hm : F64.mant b ≠ 0)
    (hP : 17 ≤ P) (hP70 : P ≤ 70) (hinf : F64.isInf (F64.strtod (C01I.sciText b P)) = false) :
    F64.isFinite (F64.strtod (C01I.sciText b P)) = true ∧
    F64.signBit (F64.strtod (C01I.sciText b P)) = F64.signBit b ∧
    F64R.sMag (F64.strtod (C01I.sciText b P)) = F64R.sMag b :=
  have hb := C01I.back_of b P hfin hm (by omega) hP70 hinf
  ⟨hb.fin, hb.sign, C01I.back_exact b P _ hfin hm hP hP70 hb⟩

/-- the two facts about doubles the proof rests on: the rounding error of `F64.ofRat` is at most
half a unit in the last place (relative 2^-53 for a normalised result, absolute 2^-1075
otherwise), and doubles of different magnitude are at least a relative 2^-53 apart -/
theorem C01_ofRat_err (neg : Bool) (num den : Nat) (hn : num > 0) (hd : den > 0)
    (hfinite : F64.isFinite (F64.ofRat neg num den) = true) :
    2 ^ 53 * F64R.errR num den (F64.ofRat neg num den) ≤ num * 2 ^ 1074 ∨
      2 * F64R.errR num den (F64.ofRat neg num den) ≤ den :=
  C01I.ofRat_err neg num den hn hd hfinite

theorem C01_spacing (b b' : Nat) (hne : F64R.sMag b' ≠ F64R.sMag b) :
    F64R.sMag b ≤ F64R.dist (F64R.sMag b') (F64R.sMag b) * 2 ^ 53 :=
  C01I.spacing b b' hne

/-- instances of `C01_float_idem_sci`, the hypotheses evaluated by the kernel: π at precision 6
(normal), DBL_MAX at precision 5 (re-rendered), the smallest denormal at precision 17 -/
example : formatDouble 341 (F64.strtod (formatDouble 341 0x400921FB54442D18 6 true)) 6 true =
    formatDouble 341 0x400921FB54442D18 6 true :=
  C01_float_idem_sci _ 6 (by decide +kernel) (by omega) (.inl ⟨by omega, .inl (by decide +kernel)⟩)

example : formatDouble 341 (F64.strtod (formatDouble 341 0x7FEFFFFFFFFFFFFF 5 true)) 5 true =
    formatDouble 341 0x7FEFFFFFFFFFFFFF 5 true :=
  C01_float_idem_sci _ 5 (by decide +kernel) (by omega) (.inr (.inr (by decide +kernel)))

example : formatDouble 341 (F64.strtod (formatDouble 341 1 17 true)) 17 true =
    formatDouble 341 1 17 true :=
  C01_float_idem_sci _ 17 (by decide +kernel) (by omega) (.inr (.inl (by omega)))

example : tripSci 0x400921FB54442D18 6 =
    (bytesOfString "3.14159", 0x400921F9F01B866E, bytesOfString "3.14159") := by decide +kernel

/-! ### … and the tree, for either notation -/

/-- **C01_rewrite_same_general.**  Any buffer size and notation: under the hypotheses of the
round trip (`LexOK`, `ParseOK`) and the leaf conditions of the tree lemma (`nodeIdem`: every float
text a fixed point, every integer format sane), reading the written form into a configuration
with the same presentation attributes and writing again gives the same bytes. -/
theorem C01_rewrite_same_general (bufLen : Nat) (c : Config) (hl : LexOK bufLen c = true)
    (hp : ParseOK c = true) (hid : C01I.nodeIdem bufLen c c.root = true) (w : World) (c₀ : Config)
    (ha : C01I.SameAttrs c c₀) (fuel : Nat) (hfuel : fuel ≥ 8 * (c.write bufLen).length + 10) :
    (read w c₀ (.string (c.write bufLen)) fuel).cfg.write bufLen = c.write bufLen := by
  have hrt := (C01RoundTrip.C01_roundtrip_string bufLen c hl hp w c₀ fuel hfuel).2.2
  have hattr := C05P.read_attrs w c₀ (.string (c.write bufLen)) fuel
  generalize (read w c₀ (.string (c.write bufLen)) fuel).cfg = cr at hrt hattr
  unfold C05P.cfgAttrs at hattr
  simp only [Prod.mk.injEq] at hattr
  obtain ⟨a1, -, a2, a3, a4, -⟩ := hattr
  obtain ⟨b1, b2, b3, b4⟩ := ha
  have hcr : C01I.SameAttrs c cr := ⟨a1.trans b1, a2.trans b2, a3.trans b3, a4.trans b4⟩
  have hexp : ({ c with root := expectedRoot bufLen c } : Config).write bufLen = c.write bufLen :=
    C01I.write_expected bufLen c _ ⟨rfl, rfl, rfl, rfl⟩ rfl hid
  rw [← hexp]
  exact C01I.write_of_stripPos bufLen _ cr hcr hrt.symm

/-- the condition on the floats of a configuration written with scientific notation: finite, and
normal or zero unless the precision is at least 17 -/
def SciFloatsOK (c : Config) : Bool := C01I.nodeFloats (C01I.sciFloatOK c.floatPrecision) c.root

example (p b : Nat) : C01I.sciFloatOK p b =
    (F64.isFinite b && (decide (17 ≤ p) || (decide (p ≤ 15) && (F64.expField b != 0 || F64.mant b == 0)))) :=
  rfl

/-- **C01_rewrite_same_sci.**  `CONFIG_OPTION_ALLOW_SCIENTIFIC_NOTATION` on, precision ≤ 70:
write, read, write gives the same bytes, for configurations that satisfy `LexOKfin`, `ParseOK`,
`FmtOK` and `SciFloatsOK`. -/
theorem C01_rewrite_same_sci (c : Config) (hsci : c.opt OPT_SCIENTIFIC = true)
    (hprec : c.floatPrecision ≤ 70) (hl : LexOKfin c = true) (hp : ParseOK c = true)
    (hfmt : FmtOK c = true) (hfl : SciFloatsOK c = true) (w : World) (c₀ : Config)
    (ha : C01I.SameAttrs c c₀) (fuel : Nat)
    (hfuel : fuel ≥ 8 * (c.write Generated.FLOAT_BUF_SIZE).length + 10) :
    (read w c₀ (.string (c.write Generated.FLOAT_BUF_SIZE)) fuel).cfg.write Generated.FLOAT_BUF_SIZE =
      c.write Generated.FLOAT_BUF_SIZE :=
  C01_rewrite_same_general 341 c (C01I.lexOK_of_fin_any c (.inr ⟨hsci, hprec⟩) hl) hp
    (C01I.nodeIdem_of 341 c _ (fun b hb => C01I.floatIdem_sci c b hsci hprec hb) c.root hfl hfmt)
    w c₀ ha fuel hfuel

/-- `sample` with scientific notation allowed, without its denormals:
```
… l = ( true, "x\"\n", ( ), 0.1, 0.333333, -1e-10, 1e+23 ); v = [ 1.5, 1.79769e+308 ]; …
``` -/
def sampleSci : Config :=
  { root := { ty := T_GROUP, kids := [
      { name := some [97], ty := T_INT, ival := 31, fmt := FMT_HEX },
      { name := some [103], ty := T_GROUP, kids := [
          { name := some [108], ty := T_LIST, kids := [
              { ty := T_BOOL, ival := 7 }, { ty := T_STRING, sval := some [120, 34, 10] },
              { ty := T_LIST }, { ty := T_FLOAT, fval := 0x3FB999999999999A },
              { ty := T_FLOAT, fval := 0x3FD5555555555555 },
              { ty := T_FLOAT, fval := 0xBDDB7CDFD9D7BDBB },
              { ty := T_FLOAT, fval := 0x44B52D02C7E14AF7 } ] },
          { name := some [118], ty := T_ARRAY, kids := [
              { ty := T_FLOAT, fval := 0x3FF8000000000000 },
              { ty := T_FLOAT, fval := 0x7FEFFFFFFFFFFFFF } ] } ] },
      { name := some [122], ty := T_STRING } ] },
    options := OPT_SEMICOLON ||| OPT_COLON_GROUPS ||| OPT_BRACE_SEPARATE ||| OPT_SCIENTIFIC }

example : sampleSci.write Generated.FLOAT_BUF_SIZE = bytesOfString
    ("a = 0x1F;\ng : \n{\n  l = ( true, \"x\\\"\\n\", ( ), 0.1, 0.333333, -1e-10, 1e+23 );\n" ++
     "  v = [ 1.5, 1.79769e+308 ];\n};\nz = \"\";\n") := by
  decide +kernel

/-- **`C01_rewrite_same_sci` applied** (all hypotheses by the kernel) -/
example : (read {} sampleSci (.string (sampleSci.write Generated.FLOAT_BUF_SIZE)) 1000).cfg.write
    Generated.FLOAT_BUF_SIZE = sampleSci.write Generated.FLOAT_BUF_SIZE :=
  C01_rewrite_same_sci sampleSci (by decide +kernel) (by decide +kernel) (by decide +kernel)
    (by decide +kernel) (by decide +kernel) (by decide +kernel) {} sampleSci ⟨rfl, rfl, rfl, rfl⟩
    1000 (by decide +kernel)

/-- `SciFloatsOK` is needed: with the denormal 21·2^-1074 at precision 2 the second writing
differs (`1e-322` / `9.9e-323`) -/
def sampleDenormal : Config :=
  { root := { ty := T_GROUP, kids := [{ name := some [97], ty := T_FLOAT, fval := 21 }] },
    options := OPT_SEMICOLON ||| OPT_SCIENTIFIC, floatPrecision := 2 }

example : LexOKfin sampleDenormal = true ∧ ParseOK sampleDenormal = true ∧
    FmtOK sampleDenormal = true ∧ SciFloatsOK sampleDenormal = false ∧
    sampleDenormal.write 341 = bytesOfString "a = 1e-322;\n" ∧
    (read {} sampleDenormal (.string (sampleDenormal.write 341)) 1000).cfg.write 341 =
      bytesOfString "a = 9.9e-323;\n" := by
  decide +kernel

end Libconfig.C01Idem
