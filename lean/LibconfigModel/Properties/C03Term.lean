import LibconfigModel.Properties.C03
import LibconfigModel.Properties.C02
import LibconfigModel.Proofs.C03TermFuel
import LibconfigModel.Proofs.C03TermLex
import LibconfigModel.Proofs.C03TermRun
import LibconfigModel.Proofs.C03TermStable
/-
  C03 (continued) — termination and stack discipline of the LALR parser loop over the
  translated tables.  Statements; helper lemmas live in Proofs/C03Term*.lean.

  `Parser.lean` totalises two things that the C skeleton does not have: a reduction pops
  `yyr2[r]` entries with `List.drop` and reads the uncovered state with `headD` (an underflow
  would go unnoticed), and the loop stops with `.outOfFuel` when its fuel runs out.  Here:

  G1  along every run from `yyparse`'s initial configuration, whenever the tables call for a
      reduction by rule `r` the stack holds MORE than `yyr2[r]` entries (`C03_no_underflow`):
      `drop` never truncates, `headD`'s default is never used, the goto lookup is made on a
      real state.  The invariant behind it: the state stack is a path of edges of the
      kernel-checked certificate `C02P.edges` from state 0 (`C03_stack_is_path`).
  G2  a kernel-checked ranking certificate `C03T.ranks` (one number ≤ 7 per state): every
      iteration that continues either consumes the lookahead token or strictly lowers the rank
      of the top state (`C03_step_dichotomy`); hence at most 7 consecutive iterations consume
      no token (`C03_reductions_bounded`), and 7 is attained (example below).
  G3  if the scanner delivers `n` tokens and then the end of input, `8·n + 10` units of fuel
      suffice: `yyparse` does not end with `.outOfFuel` (`C03_parse_fuel`) and its outcome is
      the same for every larger fuel (`C03_parse_fuel_stable`).  With the scanner bound
      (`C03_scanner_finite`, from the argument of `C03_lex_fuel`): a read of `len` bytes
      without readable include files, with fuel ≥ `8·len + 10`, terminates at model level
      (`C03_read_terminates`), and returns the same `ReadOut` for every such fuel
      (`C03_read_fuel_irrelevant`): the fuel of the model is not observable.

  Nothing asked for turned out false of the model.
-/
namespace Libconfig.C03

open Libconfig Libconfig.C03P Libconfig.C03T

/-! ## 0. The certificates -/

/-- the edge certificate of C02 (97 automaton edges, closed under every shift and every goto
of the translated tables; every reduction finds its right-hand side on every path) -/
theorem C03_edge_certificate : C02P.staticOK Generated.parser C02P.edges = true := C02P.edges_ok

/-- the ranking certificate: for every state but the final one, for its default reduction and
every explicit reduce entry of `yytable` (whatever the lookahead), for EVERY state that the pop
of `yyr2[r]` entries can uncover along certificate edges, the goto target has a strictly smaller
rank than the state reduced in; all ranks are ≤ 7 -/
theorem C03_rank_certificate : rankOK Generated.parser C02P.edges ranks 7 = true := ranks_ok

/-- shape of the ranking: one number per state, the initial state has rank 1, the states
entered by shifting a `STRING` token (15 and 31) have the largest rank -/
theorem C03_rank_shape :
    ranks.length = 47 ∧ (∀ s, s < 47 → rkOf ranks s ≤ 7) ∧ rkOf ranks 0 = 1 ∧
    rkOf ranks 15 = 7 ∧ rkOf ranks 31 = 7 := by decide

/-! ## 1. What one iteration does -/

/-- Every iteration of the loop that continues is made on a non-empty stack below the limit,
with a top state other than the final one, and is a shift (`Shifts`: the lookahead token —
fetched from the scanner if there was none — is consumed, its target state pushed, the
lookahead cleared) or a reduction (`Reduces`: the tables call for `rule` in the top state —
default reduction or explicit entry —, `yyr2[rule]` entries are dropped, the goto of the
uncovered state is pushed, the lookahead is kept or was fetched in this iteration). -/
theorem C03_step_cases (E : ParserEnv) (X Y : PState) (h : yystep E X = .inr Y) :
    X.stack ≠ [] ∧ X.stack.length < E.P.maxDepth ∧ topState X.stack ≠ E.P.final ∧
    (Shifts E X Y ∨ ∃ rule, Reduces E X Y rule) :=
  yystep_inr E X Y h

/-! ## 2. G1 — no stack underflow -/

/-- **The state stack is a path of the automaton**: bottom entry state 0, every entry above it
entered from the one below along an edge of the kernel-checked certificate. -/
theorem C03_stack_is_path (w : World) (c : Config) (fuel : Nat) (s : ScanState) (ctx : ParseCtx)
    (X : PState) (h : Reach (theEnv w c fuel) (initial s ctx) X) : StackPath C02P.edges X.stack :=
  reach_path (E := theEnv w c fuel) (C02P.facts_of_static C02P.edges_ok) s ctx X h

/-- **No underflow.**  Along every run from the initial configuration of `yyparse`, in every
configuration `X` the loop reaches: if the tables call for a reduction by `rule` in the top
state (which is how `yystep` comes to reduce: `ReduceBy`, see `C03_step_cases`), then the stack
has MORE than `yyr2[rule]` entries.  The pop uncovers a real entry `(p, v)`, `p` is a state of
the automaton, and the goto on the left-hand side of `rule` out of `p` is an edge of the
certificate into a state of the automaton other than the final one.  (The hypothesis on the
final state costs nothing: with the final state on top the loop accepts before it looks at the
tables, so every iteration that acts has another state on top — `C03_step_cases`.) -/
theorem C03_no_underflow (w : World) (c : Config) (fuel : Nat) (s : ScanState) (ctx : ParseCtx)
    (X : PState) (h : Reach (theEnv w c fuel) (initial s ctx) X)
    (hne : topState X.stack ≠ Generated.parser.final) (rule : Nat)
    (hr : ReduceBy Generated.parser (topState X.stack) rule) :
    (Generated.parser.r2.get rule).toNat < X.stack.length ∧
    ∃ p v rest, X.stack.drop (Generated.parser.r2.get rule).toNat = (p, v) :: rest ∧ p < 47 ∧
      (p, gotoTarget Generated.parser rule p) ∈ C02P.edges ∧
      gotoTarget Generated.parser rule p < 47 ∧
      gotoTarget Generated.parser rule p ≠ Generated.parser.final := by
  have F : C02P.Facts Generated.parser C02P.edges := C02P.facts_of_static C02P.edges_ok
  have hp := C03_stack_is_path w c fuel s ctx X h
  obtain ⟨hlt, p, v, rest, hd, _, hedge, hnf⟩ := no_underflow F hp hne hr
  have he := F.ed_ok _ _ hedge
  exact ⟨hlt, p, v, rest, hd, he.2.1, hedge, he.2.2, hnf⟩

/-- The same for the iteration itself: a reducing iteration `X → Y` along a run pops
`yyr2[rule]` entries that are there and pushes one — the new stack is exactly the old one with
its top `yyr2[rule]` entries replaced by the goto of the uncovered state. -/
theorem C03_no_underflow_step (w : World) (c : Config) (fuel : Nat) (s : ScanState) (ctx : ParseCtx)
    (X Y : PState) (h : Reach (theEnv w c fuel) (initial s ctx) X) (rule : Nat)
    (hs : yystep (theEnv w c fuel) X = .inr Y) (hr : Reduces (theEnv w c fuel) X Y rule) :
    (Generated.parser.r2.get rule).toNat < X.stack.length ∧
    Y.stack.length + (Generated.parser.r2.get rule).toNat = X.stack.length + 1 ∧
    ∃ p v rest yyval, X.stack.drop (Generated.parser.r2.get rule).toNat = (p, v) :: rest ∧
      Y.stack = (gotoTarget Generated.parser rule p, yyval) :: (p, v) :: rest := by
  obtain ⟨_, _, hnf, _⟩ := yystep_inr _ X Y hs
  obtain ⟨hrule, ⟨yyval, hst⟩, _⟩ := hr
  obtain ⟨hlt, p, v, rest, hd, _⟩ := C03_no_underflow w c fuel s ctx X h hnf rule hrule
  have hst' : Y.stack = (gotoTarget Generated.parser rule p, yyval) :: (p, v) :: rest := by
    rw [hst]
    show (gotoTarget Generated.parser rule
      (topState (X.stack.drop (Generated.parser.r2.get rule).toNat)), yyval) ::
      X.stack.drop (Generated.parser.r2.get rule).toNat = _
    rw [hd]
    rfl
  refine ⟨hlt, ?_, p, v, rest, yyval, hd, hst'⟩
  have hl := congrArg List.length hd
  rw [List.length_drop] at hl
  rw [hst']
  simp only [List.length_cons] at hl ⊢
  omega

/-! ## 3. G2 — consecutive iterations that consume no token -/

/-- **Dichotomy.**  Along a run, every iteration that continues either consumes the lookahead
token or strictly lowers the rank of the state on top of the stack. -/
theorem C03_step_dichotomy (w : World) (c : Config) (fuel : Nat) (s : ScanState) (ctx : ParseCtx)
    (X Y : PState) (h : Reach (theEnv w c fuel) (initial s ctx) X)
    (hs : yystep (theEnv w c fuel) X = .inr Y) :
    Shifts (theEnv w c fuel) X Y ∨ rkOf ranks (topState Y.stack) < rkOf ranks (topState X.stack) :=
  step_dichotomy (E := theEnv w c fuel) (C02P.facts_of_static C02P.edges_ok) (rankFacts_of ranks_ok)
    (C03_stack_is_path w c fuel s ctx X h) hs

/-- **At most 7 consecutive iterations consume no token.**  `Quiet E X k Y`: `k` consecutive
iterations lead from `X` to `Y`, none of which is a shift.  From a configuration the loop
reaches, such a run lowers the rank of the top state by at least `k`; ranks are at most 7. -/
theorem C03_reductions_bounded (w : World) (c : Config) (fuel : Nat) (s : ScanState) (ctx : ParseCtx)
    (X Y : PState) (k : Nat) (h : Reach (theEnv w c fuel) (initial s ctx) X)
    (hq : Quiet (theEnv w c fuel) X k Y) :
    k + rkOf ranks (topState Y.stack) ≤ rkOf ranks (topState X.stack) ∧ k ≤ 7 :=
  ⟨quiet_rank (E := theEnv w c fuel) (C02P.facts_of_static C02P.edges_ok) (rankFacts_of ranks_ok)
      (C03_stack_is_path w c fuel s ctx X h) hq,
   quiet_bound (E := theEnv w c fuel) (C02P.facts_of_static C02P.edges_ok) (rankFacts_of ranks_ok)
      (C03_stack_is_path w c fuel s ctx X h) hq⟩

/-! ## 4. G3 — fuel that suffices -/

theorem lexes_of_lexesTo {E : ParserEnv} {s s' : ScanState} {toks : List (Nat × TokVal)}
    (h : C02.LexesTo E s toks s') : C02P.Lexes E s toks s' := by
  induction h with
  | eof s s' hy => exact .eof s s' hy
  | tok s s₁ s' t v rest hy _ ih => exact .tok s s₁ s' t v rest hy ih
  | incl s s₁ s' t text file line rest hy _ ih => exact .incl s s₁ s' t text file line rest hy ih

theorem lexesTo_of_lexes {E : ParserEnv} {s s' : ScanState} {toks : List (Nat × TokVal)}
    (h : C02P.Lexes E s toks s') : C02.LexesTo E s toks s' := by
  induction h with
  | eof s s' hy => exact .eof s s' hy
  | tok s s₁ s' t v rest hy _ ih => exact .tok s s₁ s' t v rest hy ih
  | incl s s₁ s' t text file line rest hy _ ih => exact .incl s s₁ s' t text file line rest hy ih

/-- the fuel that suffices for `n` tokens: `(7 + 1)·(n + 1)` for the `n` tokens and the end
marker (each shift preceded by at most 7 reductions), `+ 1` for the rank of the initial state
(one reduction less before the first shift), `+ 1` for the accepting iteration -/
def parseFuel (n : Nat) : Nat := 8 * n + 10

/-- **Fuel that suffices for the parser loop.**  If the scanner (with whatever fuel `lexFuel`
it is given per call) delivers from `s₀` the tokens `toks` and then the end of input, then for
every `fuel ≥ 8·|toks| + 10` the parse does not end with `.outOfFuel`: it accepts, aborts
(syntax error or a semantic action), or reports memory exhaustion at the stack limit.  (No
hypothesis on the tokens: any sequence, derivable or not.) -/
theorem C03_parse_fuel (w : World) (c : Config) (lexFuel : Nat) (s₀ s' : ScanState) (ctx₀ : ParseCtx)
    (toks : List (Nat × TokVal)) (hl : C02.LexesTo (theEnv w c lexFuel) s₀ toks s')
    (fuel : Nat) (hf : parseFuel toks.length ≤ fuel) :
    (yyparse (theEnv w c lexFuel) fuel s₀ ctx₀).2.2 ≠ .outOfFuel := by
  refine yyparse_fuel (E := theEnv w c lexFuel) C02P.edges_ok ranks_ok fuel s₀ s' ctx₀ toks
    (lexes_of_lexesTo hl) ?_
  show (7 + 1) * (toks.length + 1) + 1 + 1 ≤ fuel
  unfold parseFuel at hf
  omega

/-- … and the loop's fuel is not observable beyond that: every `fuel ≥ 8·|toks| + 10` gives
the same scanner state, parse context and outcome. -/
theorem C03_parse_fuel_stable (w : World) (c : Config) (lexFuel : Nat) (s₀ s' : ScanState)
    (ctx₀ : ParseCtx) (toks : List (Nat × TokVal))
    (hl : C02.LexesTo (theEnv w c lexFuel) s₀ toks s')
    (fuel fuel' : Nat) (hf : parseFuel toks.length ≤ fuel) (hf' : parseFuel toks.length ≤ fuel') :
    yyparse (theEnv w c lexFuel) fuel s₀ ctx₀ = yyparse (theEnv w c lexFuel) fuel' s₀ ctx₀ := by
  unfold parseFuel at hf hf'
  refine yyparse_stable (E := theEnv w c lexFuel) C02P.edges_ok ranks_ok fuel fuel' s₀ s' ctx₀ toks
    (lexes_of_lexesTo hl) ?_ ?_
  · show (7 + 1) * (toks.length + 1) + 1 + 1 ≤ fuel
    omega
  · show (7 + 1) * (toks.length + 1) + 1 + 1 ≤ fuel'
    omega

/-- **The scanner delivers finitely many tokens.**  Under the hypotheses of `C03_lex_fuel` (no
readable file, bytes in the buffer, empty include stack, more fuel per call than bytes left):
every `yylex` call returns the end of input or consumes at least one byte, so the scanner
delivers at most one token per byte and then the end of input.  This is the hypothesis of
`C03_parse_fuel`. -/
theorem C03_scanner_finite (w : World) (hw : NoFiles w) (c : Config) (fuel : Nat) (s : ScanState)
    (hs : ScanOK s) (hstack : s.stack = []) (hfuel : s.buf.rest.length < fuel) :
    ∃ toks s', C02.LexesTo (theEnv w c fuel) s toks s' ∧ toks.length ≤ s.buf.rest.length := by
  obtain ⟨toks, s', hl, hlen⟩ := lexes_exists (theEnv w c fuel)
    (fun s hs hst hf => yylex_strict w hw _ fuel s hs hst hf) s.buf.rest.length s hs hstack
    (Nat.le_refl _) hfuel
  exact ⟨toks, s', lexesTo_of_lexes hl, hlen⟩

/-- one `yylex` call under these hypotheses: never `.outOfFuel`, never `.echo`, the invariant
is kept, and unless it reports the end of input it has consumed at least one byte -/
theorem C03_lex_progress_strict (w : World) (hw : NoFiles w) (ic : IncludeCfg) (fuel : Nat)
    (s : ScanState) (hs : ScanOK s) (hstack : s.stack = []) (hfuel : s.buf.rest.length < fuel) :
    LexStep s (yylex Generated.scanner Generated.scanActions w ic fuel s) :=
  yylex_strict w hw ic fuel s hs hstack hfuel

/-- `__config_read` on `inp` without readable include files terminates at model level: with
`fuel ≥ 8·|inp| + 10` (the model hands the same `fuel` to every `yylex` call and to the parser
loop) the outcome is not `.outOfFuel`. -/
theorem C03_readCore_terminates (w : World) (hw : NoFiles w) (c : Config) (filename : Option Bytes)
    (inp : Bytes) (hi : BytesOK inp) (fuel : Nat) (hf : parseFuel inp.length ≤ fuel) :
    (readCore w c filename inp fuel).result ≠ .outOfFuel := by
  rw [C09P.readCore_result]
  unfold C09P.parseOf
  unfold parseFuel at hf
  have hs : ScanOK (C09P.scan0 filename inp) := ⟨Nat.zero_lt_succ 4, hi, fun f hf => by cases hf⟩
  obtain ⟨toks, s', hl, hlen⟩ := C03_scanner_finite w hw (C09P.start c filename) fuel
    (C09P.scan0 filename inp) hs rfl (by show inp.length < fuel; omega)
  have hlen : toks.length ≤ inp.length := hlen
  exact C03_parse_fuel w _ fuel _ s' _ toks hl fuel (by unfold parseFuel; omega)

/-- the number of bytes a source hands to the scanner is at most this -/
def srcLen : Source → Nat
  | .string s => s.length
  | .stream s => s.length
  | .file _ => 0

/-- **A read terminates (model level).**  In a world without readable files — every `@include`
fails to open, as for `config_read_string` / `config_read` on self-contained text — a read of a
string or stream of `len` bytes with `fuel ≥ 8·len + 10` never ends with `.outOfFuel`:
neither a `yylex` call (`C03_lex_fuel`) nor the parser loop (`C03_parse_fuel`) runs out.
(`config_read_file` in such a world fails to open its file: the outcome is the I/O error.) -/
theorem C03_read_terminates (w : World) (hw : NoFiles w) (c : Config) (src : Source)
    (hs : SourceOK src) (fuel : Nat) (hf : parseFuel (srcLen src) ≤ fuel) :
    (read w c src fuel).result ≠ .outOfFuel := by
  cases src with
  | string b =>
    have hle : (cstr b).length ≤ b.length := (List.takeWhile_sublist _).length_le
    refine C03_readCore_terminates w hw c none (cstr b) (cstr_bytes hs) fuel ?_
    unfold parseFuel at hf ⊢
    have : 8 * b.length + 10 ≤ fuel := hf
    omega
  | stream b => exact C03_readCore_terminates w hw c none b hs fuel hf
  | file path =>
    unfold Libconfig.read
    simp only
    rw [hw path]
    intro h
    cases h

/-! ## 5. The model's fuel is not observable -/

/-- under the hypotheses of `C03_lex_fuel`, one `yylex` call returns the same for every fuel
above the number of bytes left -/
theorem C03_lex_fuel_irrelevant (w : World) (hw : NoFiles w) (ic : IncludeCfg) (fuel fuel' : Nat)
    (s : ScanState) (hs : ScanOK s) (hstack : s.stack = []) (hfuel : s.buf.rest.length < fuel)
    (hfuel' : s.buf.rest.length < fuel') :
    yylex Generated.scanner Generated.scanActions w ic fuel' s =
      yylex Generated.scanner Generated.scanActions w ic fuel s :=
  yylex_irrel w hw ic fuel fuel' s hs hstack hfuel hfuel'

/-- `__config_read` on `inp` without readable include files: every `fuel ≥ 8·|inp| + 10` gives
the same `ReadOut` — configuration, error record, outcome, destructor log, I/O events. -/
theorem C03_readCore_fuel_irrelevant (w : World) (hw : NoFiles w) (c : Config)
    (filename : Option Bytes) (inp : Bytes) (hi : BytesOK inp) (fuel fuel' : Nat)
    (hf : parseFuel inp.length ≤ fuel) (hf' : parseFuel inp.length ≤ fuel') :
    readCore w c filename inp fuel = readCore w c filename inp fuel' := by
  rw [readCore_eq, readCore_eq, parseOf_irrel w hw _ filename inp hi fuel fuel' hf hf']

/-- **The fuel of the model is not observable**: in a world without readable files, a read of
`len` bytes returns the same thing for every `fuel ≥ 8·len + 10`.  Together with
`C03_read_terminates` (that thing is not `.outOfFuel`): the read has a definite outcome, which is
what "terminates" means for the fuelled model. -/
theorem C03_read_fuel_irrelevant (w : World) (hw : NoFiles w) (c : Config) (src : Source)
    (hs : SourceOK src) (fuel fuel' : Nat) (hf : parseFuel (srcLen src) ≤ fuel)
    (hf' : parseFuel (srcLen src) ≤ fuel') : read w c src fuel = read w c src fuel' := by
  cases src with
  | string b =>
    have hle : (cstr b).length ≤ b.length := (List.takeWhile_sublist _).length_le
    have h1 : 8 * b.length + 10 ≤ fuel := hf
    have h2 : 8 * b.length + 10 ≤ fuel' := hf'
    exact C03_readCore_fuel_irrelevant w hw c none (cstr b) (cstr_bytes hs) fuel fuel'
      (by unfold parseFuel; omega) (by unfold parseFuel; omega)
  | stream b => exact C03_readCore_fuel_irrelevant w hw c none b hs fuel fuel' hf hf'
  | file path =>
    unfold Libconfig.read
    simp only
    rw [hw path]

/-! ## non-vacuity -/

/-- the text `a="x""y"` (8 bytes; tokens NAME EQUALS STRING STRING) -/
private def exText : Bytes := bytesOfString "a=\"x\"\"y\""
private def exEnv : ParserEnv := theEnv {} Config.init 100
private def exScan : ScanState := { buf := { rest := exText } }
private def exCtx : ParseCtx := { cfg := Config.init }

/-- the run of the loop on `a="x""y"`: the state stacks (top first) of the 15 iterations and
whether there is a lookahead.  After the second `STRING` is shifted (state 31 on top), seven
reductions follow before the end marker is shifted: `string`, `simple_value`, `value`, the empty
`setting_terminator` (the stack GROWS), `setting`, `setting_list`, `configuration`. -/
example : trace exEnv 30 (initial exScan exCtx) =
    [([0], false), ([1, 0], false), ([5, 1, 0], false), ([8, 5, 1, 0], false),
     ([15, 8, 5, 1, 0], false), ([22, 8, 5, 1, 0], false), ([31, 22, 8, 5, 1, 0], false),
     ([22, 8, 5, 1, 0], false), ([23, 8, 5, 1, 0], true), ([21, 8, 5, 1, 0], true),
     ([30, 21, 8, 5, 1, 0], true), ([4, 0], true), ([3, 0], true), ([2, 0], true),
     ([6, 2, 0], false)] := by decide +kernel

/-- `C03_reductions_bounded` is tight and its hypotheses are satisfiable: the configuration
reached after 6 iterations on that text starts a run of 7 iterations that consume no token. -/
example : ∃ X Y, Reach exEnv (initial exScan exCtx) X ∧ Quiet exEnv X 7 Y :=
  exists_quiet_of_run exEnv 6 7 _ (by decide +kernel)

/-- `C03_no_underflow`: in the configuration reached after 10 iterations (stack
`30 21 8 5 1 0`, six entries) the tables call for rule 12
(`setting: NAME $@1 EQUALS value setting_terminator`, five symbols): 5 < 6. -/
example : ∃ X, Reach exEnv (initial exScan exCtx) X ∧ X.stack.length = 6 ∧
    topState X.stack ≠ Generated.parser.final ∧ ReduceBy Generated.parser (topState X.stack) 12 ∧
    (Generated.parser.r2.get 12).toNat = 5 := by
  have h : ((stepsRun exEnv 10 (initial exScan exCtx)).map fun X =>
      (X.stack.map (·.1), (Generated.parser.defact.get 30).toNat, (Generated.parser.r2.get 12).toNat)) =
      some ([30, 21, 8, 5, 1, 0], 12, 5) := by decide +kernel
  cases hX : stepsRun exEnv 10 (initial exScan exCtx) with
  | none => rw [hX] at h; cases h
  | some X =>
    rw [hX] at h
    simp only [Option.map_some, Option.some.injEq, Prod.mk.injEq] at h
    obtain ⟨h1, h2, h3⟩ := h
    have hlen : X.stack.length = 6 := by
      have := congrArg List.length h1
      simpa using this
    have htop : topState X.stack = 30 := by
      rcases hs : X.stack with _ | ⟨e, tl⟩
      · rw [hs] at hlen; cases hlen
      · rw [hs] at h1
        simp only [List.map_cons, List.cons.injEq] at h1
        exact h1.1
    refine ⟨X, stepsRun_reach _ _ _ _ hX, hlen, ?_, ?_, h3⟩
    · rw [htop]; decide
    · rw [htop]; exact .inl ⟨h2.symm, by decide⟩

/-- `C03_parse_fuel` / `C03_read_terminates`: 8 bytes, fuel `8·8 + 10`: the read accepts … -/
example : (read {} Config.init (.string exText) (parseFuel exText.length)).result = .accept := by
  decide +kernel

/-- … the loop needs 15 iterations for these 4 tokens (the bound is `8·4 + 10 = 42`), and with
less the model reports `.outOfFuel`: the conclusion of the theorem is not vacuous -/
example : (yyparse exEnv 15 exScan exCtx).2.2 = .accept ∧
    (yyparse exEnv 14 exScan exCtx).2.2 = .outOfFuel := by decide +kernel

/-- the scanner hypothesis of `C03_parse_fuel` holds for this text, by `C03_scanner_finite` -/
example : ∃ toks s', C02.LexesTo exEnv exScan toks s' ∧ toks.length ≤ exText.length :=
  C03_scanner_finite {} (fun _ => rfl) Config.init 100 exScan
    ⟨by decide, by intro x hx; revert x; show ∀ x ∈ exText, x < 256; decide +kernel,
     by intro f hf; cases hf⟩ rfl (by show exText.length < 100; decide +kernel)

example : exText.length = 8 := by decide +kernel

/-- `C03_read_fuel_irrelevant` applies to this text: fuel 74 and fuel 100000 give the same read -/
example : read {} Config.init (.string exText) 74 = read {} Config.init (.string exText) 100000 :=
  C03_read_fuel_irrelevant {} (fun _ => rfl) Config.init (.string exText)
    (by show ∀ x ∈ exText, x < 256; decide +kernel) 74 100000
    (by show 8 * exText.length + 10 ≤ 74; decide +kernel)
    (by show 8 * exText.length + 10 ≤ 100000; decide +kernel)

end Libconfig.C03
