import LibconfigModel.Proofs.C01LexTree
import LibconfigModel.Proofs.C01LexItem
import LibconfigModel.Proofs.C01LexFinding
import LibconfigModel.Proofs.C01LexNul
import LibconfigModel.Proofs.C01LexFloatOK
import LibconfigModel.Proofs.C09
/-
  C01L — "the scanner cuts the writer's output at the item boundaries": the lexing half of the
  write → read round trip.

  `wtoksConfig bufLen c` (WriterSpec.lean) is the output of `config_write` as a sequence of
  lexical items (`C19_bytes`: the written bytes are the concatenation of the items' bytes);
  `WTok.token` (RoundTrip.lean) is the bison token and semantic value an item denotes
  (white space denotes nothing).  The headline theorem `C01_lex_items` says that for every
  configuration satisfying `LexOK`, repeated calls of `libconfig_yylex` (the table-driven
  matcher over the translated flex tables, with the translated rule actions) on the written
  bytes return exactly `tokensOfConfig` — the tokens of the items, in order, with their values —
  and then end of input.  No item is split, none is merged with its neighbour, every value
  survives.

  Statements only.  Proofs: LibconfigModel/Proofs/C01Lex*.lean
    C01LexAuto  — a small hand-written automaton for the writer's lexemes and the kernel-checked
                  certificate that the compiled flex automaton simulates it;
    C01LexSim   — what the certificate means for `Flex.scan` / `Flex.next`;
    C01LexTok   — M1: each kind of lexeme as a path of that automaton;
    C01LexYy    — M2: one call of `yylex` per item (all kinds but strings);
    C01LexStr   — M2 for string literals (several rules per literal);
    C01LexFloat — the text of `libconfig_format_double` is a float literal;
    C01LexSeq   — M2 summary (`yylex_item`) and M3 for item sequences;
    C01LexItem  — M1 summary, also for the documented regular expressions (via C18);
    C01LexTree  — `LexOK` and the induction over the setting tree;
    C01LexNul   — the written text has no NUL byte (so `config_read_string` sees all of it);
    C01LexFinding — names spelling `true` / `false` are read as booleans;
    C01LexFloatOK — the float side conditions hold for every finite double under the default
                  float settings (no scientific notation, precision ≤ 26, buffer 341).

  `WTok.token` needed no correction: the fields the scanner sets (`sval` for names and
  strings, `ival` for booleans and integers, `fval` for floats, nothing for punctuation) are
  the ones it names.
-/
namespace Libconfig.C01Lex
open C01L C02 Flex ScanSpec

/-- the scan state `readCore` builds for a string / stream source holding `inp` -/
def initScan (inp : Bytes) : ScanState := { buf := { rest := inp }, topFile := none, filenames := [] }

/-- … it is the state the parse of `readCore` starts from (`C09P.start c none` is the cleared
configuration handed to the parser; `config_read_string` passes `cstr` of its argument) -/
example (w : World) (c : Config) (inp : Bytes) (fuel : Nat) :
    (readCore w c none inp fuel).result =
      (yyparse (theEnv w (C09P.start c none) fuel) fuel (initScan inp) { cfg := C09P.start c none }).2.2 := rfl
example (w : World) (c : Config) (str : Bytes) (fuel : Nat) :
    read w c (.string str) fuel = readCore w c none (cstr str) fuel := rfl

/-! ## The hypothesis

`LexOK bufLen c` (Proofs/C01LexTree.lean) is an executable check:
* every setting name is valid (`validName`, i.e. `__config_validate_name`) and does not spell
  `true` / `false` in any mixture of cases (`isBoolWord`; see the finding below);
* a scalar setting has one of the types BOOL, INT, INT64, FLOAT, STRING (a setting of type NONE
  is written as `???`), an INT value fits 32 bits, an INT64 value fits 64 bits (in C they
  always do; the model's `ival` is an unbounded `Int`), a string value has no NUL byte
  (bytes 1 … 255), and a float value satisfies `floatOK`: it is finite, its `printf` rendering
  (`C01P.rawText`) is not cut by the `snprintf(buf, buflen - 3, …)` limit of
  `libconfig_format_double`, and the text does not read back as an infinity.
Nothing is required of the tree shape: lists, arrays and groups may contain anything
(well-formedness is needed by the parser, not by the scanner), the root need not be a group
and may even have a name (it is then written as `name = …` like any member). -/
example (bufLen : Nat) (c : Config) : LexOK bufLen c = nodeOK bufLen c c.root := rfl

example (bufLen : Nat) (c : Config) (name : Option Bytes) (ty fmt : Nat) (ival : Int) (fval : Nat)
    (sval : Option Bytes) (kids : List Node) (hook line : Nat) (file : Option Bytes) :
    nodeOK bufLen c (.mk name ty fmt ival fval sval kids hook line file) =
      (nameOK name &&
       (if ty == T_LIST then nodesOK bufLen c kids
        else if ty == T_ARRAY then nodesOK bufLen c kids
        else if ty == T_GROUP then nodesOK bufLen c kids
        else scalarOK bufLen c ty ival fval sval)) := by rw [nodeOK]
example (bufLen : Nat) (c : Config) (k : Node) (ks : List Node) :
    nodesOK bufLen c (k :: ks) = (nodeOK bufLen c k && nodesOK bufLen c ks) := by rw [nodesOK]
example (nm : Bytes) : nameOK (some nm) = (validName nm && !isBoolWord nm) := rfl
example (nm : Bytes) :
    isBoolWord nm = (nm.map lower == [116, 114, 117, 101] || nm.map lower == [102, 97, 108, 115, 101]) := rfl
example (bufLen : Nat) (c : Config) (ty : Nat) (ival : Int) (fval : Nat) (sval : Option Bytes) :
    scalarOK bufLen c ty ival fval sval =
      (if ty == T_BOOL then true
       else if ty == T_INT then fits32 ival
       else if ty == T_INT64 then fits64 ival
       else if ty == T_FLOAT then floatOK bufLen c fval
       else if ty == T_STRING then (sval.getD []).all (fun b => decide (1 ≤ b) && decide (b < 256))
       else false) := rfl

/-- The float condition.  Under the default float settings it reduces to finiteness
(`C01_floatOK_default` below).  With scientific notation allowed (`%.{p}g`, and the 17-digit
re-rendering of values whose short rendering overflows) the two extra conjuncts are kept as
explicit, executable hypotheses: discharging them needs the correctness of `F64.floorLog10`
and an error analysis of 17-digit rounding, which is not done here. -/
example (bufLen : Nat) (c : Config) (b : Nat) :
    floatOK bufLen c b =
      (F64.isFinite b &&
       decide ((C01P.rawText bufLen b c.floatPrecision (c.opt OPT_SCIENTIFIC)).length ≤ bufLen - 4) &&
       !F64.isInf (F64.strtod (formatDouble bufLen b c.floatPrecision (c.opt OPT_SCIENTIFIC)))) := rfl

/-! ## The vocabulary of the item-level statements (definitions in Proofs/C01LexSeq.lean,
C01LexTok.lean, C01LexYy.lean), spelled out -/

/-- `Ready K s rest`: the scanner is between two tokens of the top-level buffer -/
example (K : Ctx) (s : ScanState) (rest : Bytes) :
    Ready K s rest ↔ (s.sc = 0 ∧ s.str = [] ∧ s.stack = [] ∧ s.buf.rest = rest ∧
      (s.topFile, s.filenames, s.events) = K) :=
  ⟨fun h => ⟨h.sc, h.str, h.stack, h.rest, h.ctx⟩, fun ⟨a, b, c, d, e⟩ => ⟨a, b, c, d, e⟩⟩

/-- `FollowOK follow rest`: what follows is empty or starts with a byte (< 256) of `follow` -/
example (follow : Nat → Bool) (rest : Bytes) :
    FollowOK follow rest ↔ ∀ c, rest.head? = some c → c < 256 ∧ follow c = true := Iff.rfl

/-- `GoodTok t`: the side conditions per kind of item -/
example (nm : Bytes) : GoodTok (.name nm) ↔ (validName nm = true ∧ isBoolWord nm = false) := Iff.rfl
example (b : Bytes) : GoodTok (.ws b) ↔ (b = [10] ∨ (b ≠ [] ∧ ∀ x ∈ b, isBlank x = true)) := Iff.rfl
example (bits : Nat) (v : Int) (hex : Bool) :
    GoodTok (.int bits v hex) ↔ ((bits = 32 ∧ fits32 v = true) ∨ (bits = 64 ∧ fits64 v = true)) := Iff.rfl
example (b : Nat) (text : Bytes) :
    GoodTok (.float b text) ↔ (FloatLit text ∧ F64.isInf (F64.strtod text) = false) := Iff.rfl
example (x : Bytes) : GoodTok (.str x) ↔ ∀ b ∈ x, 1 ≤ b ∧ b < 256 := Iff.rfl
example : ¬ GoodTok .unknown := id

/-- the delimiters: after a name, a boolean or a number one of space, tab, newline, `;`, `,`
(what the writer puts there); after a run of blanks anything but a blank or `@`; after the other
items anything -/
example (x : Nat) : delim x = (x == 32 || x == 9 || x == 10 || x == 59 || x == 44) := rfl
example (x : Nat) : blankFollow x = (!(x == 32 || x == 9) && x != 64) := rfl
example (nm : Bytes) : itemFollow (.name nm) = delim := rfl
example (bits : Nat) (v : Int) (hex : Bool) : itemFollow (.int bits v hex) = delim := rfl
example : itemFollow (.ws [32, 32]) = blankFollow := by simp [itemFollow]
example (c : Nat) : itemFollow (.ws [10]) c = true := by simp [itemFollow]
example (x : Bytes) (c : Nat) : itemFollow (.str x) c = true := rfl

/-- `GoodSeq`: every item is good and is followed by one of its delimiters (or by nothing) -/
example (t : WTok) (ts : List WTok) :
    GoodSeq (t :: ts) ↔ (GoodTok t ∧ FollowOK (itemFollow t) (bytesOf ts) ∧ GoodSeq ts) := Iff.rfl

/-! ## M3 — the whole output -/

/-- **C01_lex_items.**  For every configuration `c` with `LexOK bufLen c`, every world, every
reading configuration `c₀` (only its include settings reach the scanner) and every fuel larger
than the number of bytes written: the scanner started on the buffer holding `c.write bufLen`
returns, call after call, exactly the tokens `tokensOfConfig` and then end of input; the final
scan state is back in INITIAL with an empty buffer, an empty string accumulator, an empty
include stack, and the fields `topFile`, `filenames`, `events` as they were (`Ready`).
(Each call of `yylex` spends one unit of fuel per rule matched, and every match consumes at
least one byte; `fuel > length` is therefore enough for every call.) -/
theorem C01_lex_items (bufLen : Nat) (c : Config) (hok : LexOK bufLen c = true)
    (w : World) (c₀ : Config) (fuel : Nat) (hfuel : (c.write bufLen).length < fuel) :
    ∃ s₁, LexesTo (theEnv w c₀ fuel) (initScan (c.write bufLen))
      (tokensOfConfig Generated.tokens bufLen c) s₁ ∧ Ready (none, [], []) s₁ [] := by
  have hseq : GoodSeq (wtoksConfig bufLen c) := config_good bufLen c hok
  have hbytes : c.write bufLen = bytesOf (wtoksConfig bufLen c) := C19.C19_bytes bufLen c
  rw [hbytes] at hfuel ⊢
  obtain ⟨s₁, h, hfin⟩ := lexes_seq w c₀ fuel (wtoksConfig bufLen c) hseq hfuel
    (initScan (bytesOf (wtoksConfig bufLen c))) ⟨rfl, rfl, rfl, rfl, rfl⟩ fuel hfuel
  exact ⟨s₁, h.lexes, hfin⟩

/-- The written text of such a configuration contains no NUL byte: `config_read_string`, which
reads the C string up to the first NUL (`cstr`, see `read` in Read.lean), sees all of it. -/
theorem C01_write_nul_free (bufLen : Nat) (c : Config) (hok : LexOK bufLen c = true) :
    cstr (c.write bufLen) = c.write bufLen :=
  write_cstr bufLen c hok

/-- `C01_lex_items` for the scan state `read w c₀ (.string (c.write bufLen)) fuel` starts from -/
theorem C01_lex_items_string (bufLen : Nat) (c : Config) (hok : LexOK bufLen c = true)
    (w : World) (c₀ : Config) (fuel : Nat) (hfuel : (c.write bufLen).length < fuel) :
    ∃ s₁, LexesTo (theEnv w c₀ fuel) (initScan (cstr (c.write bufLen)))
      (tokensOfConfig Generated.tokens bufLen c) s₁ ∧ Ready (none, [], []) s₁ [] := by
  rw [C01_write_nul_free bufLen c hok]
  exact C01_lex_items bufLen c hok w c₀ fuel hfuel

/-- **The float side conditions under the default float settings.**  With
`CONFIG_OPTION_ALLOW_SCIENTIFIC_NOTATION` off (as `config_init` leaves it), a precision of at
most 26 (default 6) and the buffer of `__config_write_value` (FLOAT_BUF_SIZE = 341), every
finite double satisfies `floatOK`: `%.{p}f` prints at most 311 + p ≤ 337 characters, and the
text — whose value is `round(|x|·10^p)/10^p` — stays below the overflow threshold of the
correctly rounded `strtod` (`F64.ofRat_nearest`). -/
theorem C01_floatOK_default (c : Config) (b : Nat) (hfin : F64.isFinite b = true)
    (hsci : c.opt OPT_SCIENTIFIC = false) (hp : c.floatPrecision ≤ 26) : floatOK 341 c b = true :=
  floatOK_fixed c b hfin hsci hp

/-- `C01_lex_items` for those settings: `LexOKfin` asks of a float value only that it is finite
(and is otherwise `LexOK`: readable names, integer ranges, NUL-free strings, no setting of
type NONE). -/
theorem C01_lex_items_default (c : Config) (hsci : c.opt OPT_SCIENTIFIC = false)
    (hp : c.floatPrecision ≤ 26) (hok : LexOKfin c = true)
    (w : World) (c₀ : Config) (fuel : Nat) (hfuel : (c.write 341).length < fuel) :
    ∃ s₁, LexesTo (theEnv w c₀ fuel) (initScan (c.write 341))
      (tokensOfConfig Generated.tokens 341 c) s₁ ∧ Ready (none, [], []) s₁ [] :=
  C01_lex_items 341 c (lexOK_of_fin c hsci hp hok) w c₀ fuel hfuel

/-- The same for any sequence of items that is "good" (`GoodSeq`: every item satisfies
`GoodTok` and is followed by a byte of `itemFollow`), from any scan state that is between two
tokens of the top-level buffer (`Ready`). -/
theorem C01_lex_seq {K : Ctx} (ts : List WTok) (hg : GoodSeq ts) (w : World) (c₀ : Config) (fuel : Nat)
    (hfuel : (bytesOf ts).length < fuel) (s : ScanState) (hs : Ready K s (bytesOf ts)) :
    ∃ s₁, LexesTo (theEnv w c₀ fuel) s (toksOf ts) s₁ ∧ Ready K s₁ [] := by
  obtain ⟨s₁, h, hfin⟩ := lexes_seq w c₀ fuel ts hg hfuel s hs fuel hfuel
  exact ⟨s₁, h.lexes, hfin⟩

/-- the item sequence of a configuration satisfying `LexOK` is good -/
theorem C01_items_good (bufLen : Nat) (c : Config) (hok : LexOK bufLen c = true) :
    GoodSeq (wtoksConfig bufLen c) :=
  config_good bufLen c hok

/-! ## M2 — one item, one call -/

/-- **C01_yylex_item.**  The buffer starts with a good item `t` followed by `rest`, whose first
byte (if any) is a delimiter for `t`.  A white-space item is skipped inside the call (the call
continues as the call on `rest` with `k` units of fuel less); any other item makes the call
return exactly the token `WTok.token` names, with its value.  In both cases the buffer is left
at `rest`, between two tokens. `k` is the number of rules matched: 1, except for a string
literal (opening quote, one per run of verbatim bytes, one per escape, closing quote). -/
theorem C01_yylex_item {K : Ctx} (w : World) (ic : IncludeCfg) (t : WTok) (hg : GoodTok t) (rest : Bytes)
    (hf : FollowOK (itemFollow t) rest) (s : ScanState) (hs : Ready K s (t.bytes ++ rest)) :
    ∃ k, 1 ≤ k ∧ k ≤ t.bytes.length ∧ ∃ s', Ready K s' rest ∧
      ∀ f, yylex Generated.scanner Generated.scanActions w ic (f + k) s =
        (match t.token Generated.tokens with
         | none => yylex Generated.scanner Generated.scanActions w ic f s'
         | some tv => (s', .tok tv.1 tv.2)) :=
  yylex_item w ic t hg rest hf s hs

/-- **C01_lex_string.**  A string literal as the writer prints it — quote, `escapeString s`,
quote — is read back as one TOK_STRING with exactly `s`, for every NUL-free `s`, whatever
follows.  (This is the rule-by-rule counterpart of `C01.C01_string`.) -/
theorem C01_lex_string {K : Ctx} (w : World) (ic : IncludeCfg) (x rest : Bytes) (hx : ∀ b ∈ x, 1 ≤ b ∧ b < 256)
    (hf : FollowOK (fun _ => true) rest) (s : ScanState)
    (hs : Ready K s ([34] ++ escapeString x ++ [34] ++ rest)) :
    ∃ k, 1 ≤ k ∧ k ≤ (escapeString x).length + 2 ∧ ∃ s', Ready K s' rest ∧
      ∀ f, yylex Generated.scanner Generated.scanActions w ic (f + k) s =
        (s', .tok Generated.tokens.string { sval := x }) := by
  obtain ⟨k, h1, h2, s', hr, hy⟩ := yylex_str w ic x rest hx hf s hs
  refine ⟨k, h1, ?_, s', hr, hy⟩
  simp only [WTok.bytes, List.length_append, List.length_cons, List.length_nil] at h2
  omega

/-! ## M1 — one item, one lexeme -/

/-- **C01_lex_item.**  For every good item other than a string literal: in the INITIAL start
condition, at or away from the beginning of a line, the compiled matcher selects the item's
rule (`itemRule`) and exactly the item's bytes — longest match — whenever what follows starts
with a delimiter of the item (or is empty). -/
theorem C01_lex_item (t : WTok) (hg : GoodTok t) (hns : isStr t = false) (rest : Bytes)
    (hf : FollowOK (itemFollow t) rest) (bol : Bool) :
    next Generated.scanner 0 bol (t.bytes ++ rest) = some (itemRule t, t.bytes.length) :=
  item_next t hg hns rest hf bol

/-- … and so do the documented token definitions (ScanSpec): `t.bytes` is the longest prefix
of `t.bytes ++ rest` matched by an active rule, `itemRule t` the earliest rule matching it. -/
theorem C01_lex_item_spec (t : WTok) (hg : GoodTok t) (hns : isStr t = false) (rest : Bytes)
    (hf : FollowOK (itemFollow t) rest) (hrest : ∀ b ∈ rest, b < 256) (bol : Bool) :
    Selects documented 0 bol (t.bytes ++ rest) (itemRule t) t.bytes.length :=
  item_selects t hg hns rest hf hrest bol

/-- names: `{name}`, rule 36, delimited by any byte that is not a name character -/
theorem C01_lex_name (nm rest : Bytes) (hv : validName nm = true) (hb : isBoolWord nm = false)
    (hf : FollowOK nameFollow rest) (bol : Bool) :
    next Generated.scanner 0 bol (nm ++ rest) = some (36, nm.length) :=
  (lex_name nm hv hb).next (by decide) bol rest hf

/-- integers: decimal (rule 38), decimal with `L` (39), `0x…` (40), `0x…L` (41), delimited by
space, tab, newline, `;` or `,` -/
theorem C01_lex_int (bits : Nat) (v : Int) (hex : Bool) (rest : Bytes) (hb : bits = 32 ∨ bits = 64)
    (hf : FollowOK delim rest) (bol : Bool) :
    next Generated.scanner 0 bol ((WTok.int bits v hex).bytes ++ rest) =
      some ((if bits == 64 then (if hex then 41 else 39) else (if hex then 40 else 38)),
        (WTok.int bits v hex).bytes.length) := by
  obtain ⟨neg, ds, hds, hne, hdig⟩ := intToDec_shape v
  rcases hb with rfl | rfl <;> cases hex
  · have e : (WTok.int 32 v false).bytes = signBytes neg ++ ds := by simp [WTok.bytes, hds]
    rw [e]; exact (lex_dec neg ds hne hdig).next (by decide) bol rest hf
  · have e : (WTok.int 32 v true).bytes = [48, 120] ++ hexOfInt 32 v := by simp [WTok.bytes]
    rw [e]
    exact (lex_hex _ (C01P.natToHex_ne_nil _) (C01P.natToHex_digits _)).next (by decide) bol rest hf
  · have e : (WTok.int 64 v false).bytes = signBytes neg ++ ds ++ [76] := by simp [WTok.bytes, hds]
    rw [e]; exact (lex_dec64 neg ds hne hdig).next (by decide) bol rest hf
  · have e : (WTok.int 64 v true).bytes = [48, 120] ++ hexOfInt 64 v ++ [76] := by simp [WTok.bytes]
    rw [e]
    exact (lex_hex64 _ (C01P.natToHex_ne_nil _) (C01P.natToHex_digits _)).next (by decide) bol rest hf

/-- floats: the text `libconfig_format_double` writes for a finite double, when the `snprintf`
limit does not cut it, is one `{float}` lexeme (rule 37) -/
theorem C01_lex_float (bufLen b prec : Nat) (sci : Bool) (rest : Bytes) (hfin : F64.isFinite b = true)
    (hfull : (C01P.rawText bufLen b prec sci).length ≤ bufLen - 4)
    (hf : FollowOK delim rest) (bol : Bool) :
    next Generated.scanner 0 bol (formatDouble bufLen b prec sci ++ rest) =
      some (37, (formatDouble bufLen b prec sci).length) := by
  obtain ⟨neg, ip, fp, ex, he, hne, hip, hfp, hex, hsome⟩ := formatDouble_lit bufLen b prec sci hfin hfull
  rw [he]
  exact (lex_float neg ip fp ex hne hip hfp hex hsome).next (by decide) bol rest hf

/-- … and that text has the shape `-?digits(.digits)?(e±digits)?` with a point or an exponent -/
theorem C01_float_literal (bufLen b prec : Nat) (sci : Bool) (hfin : F64.isFinite b = true)
    (hfull : (C01P.rawText bufLen b prec sci).length ≤ bufLen - 4) :
    FloatLit (formatDouble bufLen b prec sci) :=
  formatDouble_lit bufLen b prec sci hfin hfull

/-- the single-character tokens `= : , { } [ ] ( ) ;` and the newline: whatever follows -/
theorem C01_lex_punct (ch : Nat) (h : isPunct ch = true) (rest : Bytes)
    (hf : FollowOK (fun _ => true) rest) (bol : Bool) :
    next Generated.scanner 0 bol ([ch] ++ rest) = some (punctRule ch, 1) := by
  have hr : punctRule ch ≠ 0 := by
    simp only [isPunct, Bool.or_eq_true, beq_iff_eq] at h
    rcases h with (((((((((rfl | rfl) | rfl) | rfl) | rfl) | rfl) | rfl) | rfl) | rfl) | rfl) | rfl <;> decide
  exact (lex_punct ch h).next hr bol rest hf

/-- white space: a run of blanks and tabs is one lexeme of rule 29 (action: nothing), provided
the next byte is neither a blank nor `@` (at the beginning of a line `[ \t]*@include` competes) -/
theorem C01_lex_ws (b rest : Bytes) (hne : b ≠ []) (hb : ∀ x ∈ b, isBlank x = true)
    (hf : FollowOK blankFollow rest) (bol : Bool) :
    next Generated.scanner 0 bol (b ++ rest) = some (29, b.length) :=
  (lex_blank b hne hb).next (by decide) bol rest hf

/-! ## Finding: a member named `true` / `false` is not read back as a name

`config_setting_add` accepts the name `true` (it passes `__config_validate_name`), the writer
prints it verbatim, and the scanner reads it as a boolean literal (rule 34 precedes rule 36):
the written file does not parse back.  This is why `LexOK` excludes such names. -/

/-- **the finding, in general**: a valid name that spells `true` / `false` in any mixture of
cases, printed as a name item and followed by the blank the writer puts there, makes `yylex`
return TOK_BOOLEAN — whereas the item denotes TOK_NAME with that spelling -/
theorem C01_boolword_name_is_boolean {K : Ctx} (w : World) (ic : IncludeCfg) (nm rest : Bytes)
    (hv : validName nm = true) (hb : isBoolWord nm = true) (hf : FollowOK delim rest)
    (s : ScanState) (hs : Ready K s ((WTok.name nm).bytes ++ rest)) :
    (WTok.name nm).token Generated.tokens = some (Generated.tokens.name, { sval := nm }) ∧
    ∃ s' v, Ready K s' rest ∧ ∀ f, yylex Generated.scanner Generated.scanActions w ic (f + 1) s =
      (s', .tok Generated.tokens.boolean { ival := v }) :=
  ⟨rfl, yylex_boolword w ic nm rest hv hb hf s hs⟩

/-- the item `name "true"` is read as TOK_BOOLEAN with value 1, not as TOK_NAME -/
theorem C01_name_true_is_boolean {K : Ctx} (w : World) (ic : IncludeCfg) (rest : Bytes) (hf : FollowOK delim rest)
    (s : ScanState) (hs : Ready K s ((WTok.name [116, 114, 117, 101]).bytes ++ rest)) :
    ∃ s', ∀ f, yylex Generated.scanner Generated.scanActions w ic (f + 1) s =
      (s', .tok Generated.tokens.boolean { ival := 1 }) := by
  have e : (WTok.name [116, 114, 117, 101]).bytes = (WTok.bool true).bytes := by
    simp only [WTok.bytes, if_true, C01P.bytes_true]
  rw [e] at hs
  obtain ⟨s', _, hy⟩ := yylex_bool w ic true rest hf s hs
  exact ⟨s', hy⟩

/-! ## Non-vacuity: concrete instances, evaluated by the kernel -/

/-- a configuration with every kind of value: negative decimal int, hexadecimal 64-bit int, a
name that starts like a keyword (`truex`), a boolean, a string with a quote, a newline, a
control character, a byte ≥ 128 and a backslash, two floats (1.5 and DBL_MAX), a list holding
an int, an array and a group whose member `*-` has a NULL string -/
def sample : Config :=
  { root := { ty := T_GROUP, kids := [
      { name := some [97], ty := T_INT, ival := -255 },
      { name := some [116, 114, 117, 101, 120], ty := T_INT64, ival := 4294967296, fmt := FMT_HEX },
      { name := some [98], ty := T_BOOL, ival := 1 },
      { name := some [115], ty := T_STRING, sval := some [104, 105, 34, 10, 7, 200, 92] },
      { name := some [102], ty := T_FLOAT, fval := 0x3FF8000000000000 },
      { name := some [103], ty := T_FLOAT, fval := 0x7FEFFFFFFFFFFFFF },
      { name := some [108], ty := T_LIST, kids := [
          { ty := T_INT, ival := 0 },
          { ty := T_ARRAY, kids := [{ ty := T_BOOL, ival := 0 }, { ty := T_BOOL, ival := 1 }] },
          { ty := T_GROUP, kids := [{ name := some [42, 45], ty := T_STRING, sval := none }] } ] } ] } }

/-- the same tree written with scientific notation allowed, precision 3, tabs, no `;`, `=` only,
brace on the same line -/
def sample2 : Config := { sample with options := 0x20, tabWidth := 0, floatPrecision := 3 }

/-- repeated `yylex` until something other than a token is returned (at most `n` tokens) -/
def lexAll (w : World) (ic : IncludeCfg) (fuel : Nat) : Nat → ScanState → List (Nat × TokVal)
  | 0, _ => []
  | n + 1, s =>
    match yylex Generated.scanner Generated.scanActions w ic fuel s with
    | (s', .tok t v) => (t, v) :: lexAll w ic fuel n s'
    | _ => []

def tokBeq : List (Nat × TokVal) → List (Nat × TokVal) → Bool
  | [], [] => true
  | (t, v) :: a, (t', v') :: b =>
    Nat.beq t t' && decide (v.ival = v'.ival) && Nat.beq v.fval v'.fval && v.sval == v'.sval && tokBeq a b
  | _, _ => false

-- the hypothesis of `C01_lex_items` holds for both …
example : LexOK 341 sample = true := by decide +kernel
example : LexOK 341 sample2 = true := by decide +kernel
example : sample.opt OPT_SCIENTIFIC = false ∧ sample.floatPrecision ≤ 26 ∧ LexOKfin sample = true ∧
    Generated.FLOAT_BUF_SIZE = 341 := by decide +kernel
-- … the conclusion is about 43 tokens and 440 (resp. 214) bytes …
example : (tokensOfConfig Generated.tokens 341 sample).length = 43 ∧ (sample.write 341).length = 440 := by
  decide +kernel
-- … and running the scanner model on the written bytes gives exactly those tokens
example : tokBeq (lexAll {} { fn := 0, dir := none } 441 100 (initScan (sample.write 341)))
    (tokensOfConfig Generated.tokens 341 sample) = true := by decide +kernel
example : tokBeq (lexAll {} { fn := 0, dir := none } 441 100 (initScan (sample2.write 341)))
    (tokensOfConfig Generated.tokens 341 sample2) = true := by decide +kernel
-- a root that is not what `config_init` makes (a named list): still covered
def sampleOdd : Config :=
  { root := { name := some [114], ty := T_LIST, kids := [{ ty := T_INT, ival := 7 }, { ty := T_GROUP }] } }
example : LexOK 341 sampleOdd = true ∧
    sampleOdd.write 341 = [114, 32, 61, 32, 40, 32, 55, 44, 32, 10, 123, 10, 125, 32, 41] := by decide +kernel
example : tokBeq (lexAll {} { fn := 0, dir := none } 16 100 (initScan (sampleOdd.write 341)))
    (tokensOfConfig Generated.tokens 341 sampleOdd) = true ∧
    (tokensOfConfig Generated.tokens 341 sampleOdd).length = 8 := by decide +kernel
-- the first tokens: NAME `a`, `=`, INTEGER -255, `;`
example : (tokensOfConfig Generated.tokens 341 sample).take 4 =
    [(265, { sval := [97] }), (266, {}), (259, { ival := -255 }), (275, {})] := by decide +kernel

-- M1/M2 on single items: hypotheses satisfiable, conclusions as stated
example : GoodTok (.name [116, 114, 117, 101, 120]) := by
  refine ⟨?_, ?_⟩ <;> decide
example : next Generated.scanner 0 true ([116, 114, 117, 101, 120] ++ [32, 61]) = some (36, 5) := by
  decide +kernel
example : GoodTok (.int 64 (-1) true) := .inr ⟨rfl, by decide⟩
example : (WTok.int 64 (-1) true).bytes =
    [48, 120, 70, 70, 70, 70, 70, 70, 70, 70, 70, 70, 70, 70, 70, 70, 70, 70, 76] := by decide +kernel
example : next Generated.scanner 0 false ((WTok.int 64 (-1) true).bytes ++ [59, 10]) = some (41, 19) := by
  decide +kernel
example : F64.isFinite 0x3FF8000000000000 = true ∧
    (C01P.rawText 341 0x3FF8000000000000 6 false).length ≤ 341 - 4 ∧
    formatDouble 341 0x3FF8000000000000 6 false = [49, 46, 53] := by decide +kernel
example : next Generated.scanner 0 false ([49, 46, 53] ++ [44, 32]) = some (37, 3) := by decide +kernel
-- without a delimiter the lexeme would be longer: `1.5` followed by `e3` is one float
example : next Generated.scanner 0 false ([49, 46, 53] ++ [101, 51]) = some (37, 5) := by decide +kernel
-- a blank run at the beginning of a line followed by `@` is not delimited (hence `blankFollow`)
example : next Generated.scanner 0 true ([32, 32] ++ [64, 105]) = some (29, 2) := by decide +kernel
example : next Generated.scanner 0 true
    ([32, 32] ++ [64, 105, 110, 99, 108, 117, 100, 101, 32, 34]) = some (22, 12) := by decide +kernel
-- a string literal: `"a\"\x01b"` is read in 6 steps as the 4 bytes a " ^A b
example : (WTok.str [97, 34, 1, 98]).bytes = [34, 97, 92, 34, 92, 120, 48, 49, 98, 34] := by decide
example : tokBeq (lexAll {} { fn := 0, dir := none } 6 1 (initScan ((WTok.str [97, 34, 1, 98]).bytes ++ [59])))
    [(264, { sval := [97, 34, 1, 98] })] = true := by decide +kernel

-- the finding, end to end: a member named `true` is accepted by the API's name check and
-- written verbatim, `LexOK` rejects it, and the scanner returns BOOLEAN 1 where the writer's
-- item denotes NAME `true`
def sampleTrue : Config :=
  { root := { ty := T_GROUP, kids := [{ name := some [116, 114, 117, 101], ty := T_INT, ival := 1 }] } }
example : validName [116, 114, 117, 101] = true := by decide
example : sampleTrue.write 341 = [116, 114, 117, 101, 32, 61, 32, 49, 59, 10] := by decide +kernel
example : LexOK 341 sampleTrue = false := by decide +kernel
example : (tokensOfConfig Generated.tokens 341 sampleTrue).take 1 = [(265, { sval := [116, 114, 117, 101] })] := by
  decide +kernel
example : tokBeq ((lexAll {} { fn := 0, dir := none } 20 100 (initScan (sampleTrue.write 341))).take 1)
    [(258, { ival := 1 })] = true := by decide +kernel
-- `False`, `TRUE` … are excluded as well
example : isBoolWord [70, 97, 108, 115, 69] = true := by decide
example : next Generated.scanner 0 true ([70, 97, 108, 115, 69] ++ [32]) = some (35, 5) := by decide +kernel

end Libconfig.C01Lex
