import LibconfigModel.Generated.Constants
import LibconfigModel.Step
import LibconfigModel.Proofs.F64Exact
/-
  C07 — typed get/set follow the documented conversion rules.  For every stored
  type, stored value, requested type and setting of auto-convert, as equations.
-/
namespace Libconfig.C07

/-! ### getters: the complete table -/

theorem C07_get_int (auto : Bool) (n : Node) :
    n.getInt auto =
      if n.ty = T_INT then some n.ival
      else if n.ty = T_INT64 then (if fits32 n.ival then some n.ival else none)
      else if n.ty = T_FLOAT then
        (if auto then some (if floatCastOk32 n.fval then F64.trunc n.fval else INT_MIN) else none)
      else none := by
  unfold Node.getInt; simp only [beq_iff_eq]

theorem C07_get_int64 (auto : Bool) (n : Node) :
    n.getInt64 auto =
      if n.ty = T_INT64 then some n.ival
      else if n.ty = T_INT then some n.ival
      else if n.ty = T_FLOAT then
        (if auto then some (if floatCastOk64 n.fval then F64.trunc n.fval else LLONG_MIN) else none)
      else none := by
  unfold Node.getInt64; simp only [beq_iff_eq]

theorem C07_get_float (auto : Bool) (n : Node) :
    n.getFloat auto =
      if n.ty = T_FLOAT then some n.fval
      else if n.ty = T_INT ∨ n.ty = T_INT64 then (if auto then some (F64.ofInt n.ival) else none)
      else none := by
  unfold Node.getFloat; simp only [beq_iff_eq]
  by_cases h1 : n.ty = T_FLOAT <;> by_cases h2 : n.ty = T_INT <;> by_cases h3 : n.ty = T_INT64 <;> simp [h1, h2, h3]

/-- booleans and strings never convert -/
theorem C07_get_bool (n : Node) : n.getBool = if n.ty = T_BOOL then n.ival else 0 := by
  unfold Node.getBool; simp only [beq_iff_eq]

theorem C07_get_string (n : Node) : n.getString = if n.ty = T_STRING then n.sval else none := by
  unfold Node.getString; simp only [beq_iff_eq]

/-- a 64-bit value is readable as `int` exactly when it fits -/
theorem C07_int64_as_int (auto : Bool) (n : Node) (h : n.ty = T_INT64) :
    (n.getInt auto).isSome = fits32 n.ival := by
  rw [C07_get_int]; simp [h]; split <;> simp_all

/-- without auto-conversion floats and integers never convert -/
theorem C07_no_autoconvert (n : Node) :
    (n.ty = T_FLOAT → n.getInt false = none ∧ n.getInt64 false = none) ∧
    ((n.ty = T_INT ∨ n.ty = T_INT64) → n.getFloat false = none) := by
  constructor
  · intro h; simp [C07_get_int, C07_get_int64, h, T_FLOAT, T_INT, T_INT64]
  · intro h; rw [C07_get_float]; rcases h with h | h <;> simp [h, T_FLOAT, T_INT, T_INT64]

/-! ### setters: type never changes (except from NONE), mismatches fail -/

theorem C07_set_int (auto : Bool) (n : Node) (v : Int) :
    n.setInt auto v =
      if n.ty = T_NONE then some { n with ty := T_INT, ival := v }
      else if n.ty = T_INT ∨ n.ty = T_INT64 then some { n with ival := v }
      else if n.ty = T_FLOAT then (if auto then some { n with fval := F64.ofInt v } else none)
      else none := by
  unfold Node.setInt; simp only [beq_iff_eq]
  by_cases h0 : n.ty = T_NONE <;> by_cases h1 : n.ty = T_INT <;> by_cases h2 : n.ty = T_INT64 <;> simp [h0, h1, h2]

theorem C07_set_int64 (auto : Bool) (n : Node) (v : Int) :
    n.setInt64 auto v =
      if n.ty = T_NONE then some { n with ty := T_INT64, ival := v }
      else if n.ty = T_INT64 then some { n with ival := v }
      else if n.ty = T_INT then (if fits32 v then some { n with ival := v } else none)
      else if n.ty = T_FLOAT then (if auto then some { n with fval := F64.ofInt v } else none)
      else none := by
  unfold Node.setInt64; simp only [beq_iff_eq]

theorem C07_set_bool (n : Node) (v : Int) :
    n.setBool v =
      if n.ty = T_NONE then some { n with ty := T_BOOL, ival := v }
      else if n.ty = T_BOOL then some { n with ival := v } else none := by
  unfold Node.setBool; simp only [beq_iff_eq]

theorem C07_set_string (n : Node) (s : Option Bytes) :
    n.setString s =
      if n.ty = T_NONE then some { n with ty := T_STRING, sval := s }
      else if n.ty = T_STRING then some { n with sval := s } else none := by
  unfold Node.setString; simp only [beq_iff_eq]

/-- a successful set never changes the type of a typed setting -/
theorem C07_set_keeps_type (auto : Bool) (n n' : Node) (hty : n.ty ≠ T_NONE) :
    (∀ v, n.setInt auto v = some n' → n'.ty = n.ty) ∧
    (∀ v, n.setInt64 auto v = some n' → n'.ty = n.ty) ∧
    (∀ b, n.setFloat auto b = some n' → n'.ty = n.ty) ∧
    (∀ v, n.setBool v = some n' → n'.ty = n.ty) ∧
    (∀ s, n.setString s = some n' → n'.ty = n.ty) := by
  refine ⟨?_, ?_, ?_, ?_, ?_⟩ <;> intro v h
  · unfold Node.setInt at h; simp only [beq_iff_eq] at h
    split at h; · contradiction
    split at h; · cases h; rfl
    split at h; · cases h; rfl
    split at h
    · split at h <;> cases h; rfl
    · cases h
  · unfold Node.setInt64 at h; simp only [beq_iff_eq] at h
    split at h; · contradiction
    split at h; · cases h; rfl
    split at h; · split at h <;> cases h; rfl
    split at h
    · split at h <;> cases h; rfl
    · cases h
  · unfold Node.setFloat at h; simp only [beq_iff_eq] at h
    split at h; · contradiction
    split at h; · cases h; rfl
    split at h; · split at h <;> cases h; rfl
    split at h
    · split at h <;> cases h; rfl
    · cases h
  · unfold Node.setBool at h; simp only [beq_iff_eq] at h
    split at h; · contradiction
    split at h <;> cases h; rfl
  · unfold Node.setString at h; simp only [beq_iff_eq] at h
    split at h; · contradiction
    split at h <;> cases h; rfl

/-! ### a value that was stored is the value read back -/

theorem C07_set_get_int (auto : Bool) (n n' : Node) (v : Int)
    (hty : n.ty = T_NONE ∨ n.ty = T_INT ∨ n.ty = T_INT64)
    (h : n.setInt auto v = some n') : n'.getInt64 auto = some v ∧ (fits32 v = true → n'.getInt auto = some v) := by
  rw [C07_set_int] at h
  rcases hty with h0 | h1 | h2
  · simp [h0] at h; subst h; simp [C07_get_int, C07_get_int64]
  · simp [h1] at h; subst h; simp [C07_get_int, C07_get_int64, h1]
  · simp [h2] at h; subst h; simp [C07_get_int, C07_get_int64, h2]

theorem C07_set_get_int64 (auto : Bool) (n n' : Node) (v : Int)
    (hty : n.ty = T_NONE ∨ n.ty = T_INT ∨ n.ty = T_INT64)
    (h : n.setInt64 auto v = some n') : n'.getInt64 auto = some v := by
  rw [C07_set_int64] at h
  rcases hty with h0 | h1 | h2
  · simp [h0] at h; subst h; simp [C07_get_int64]
  · have hne : ¬ n.ty = T_INT64 := by rw [h1]; decide
    have hne0 : ¬ n.ty = T_NONE := by rw [h1]; decide
    rw [if_neg hne0, if_neg hne, if_pos h1] at h
    by_cases hf : fits32 v = true
    · rw [if_pos hf] at h; cases h; simp [C07_get_int64, h1, T_INT, T_INT64]
    · rw [if_neg hf] at h; cases h
  · simp [h2] at h; subst h; simp [C07_get_int64, h2]

theorem C07_set_get_float (auto : Bool) (n n' : Node) (b : Nat)
    (hty : n.ty = T_NONE ∨ n.ty = T_FLOAT) (h : n.setFloat auto b = some n') :
    n'.getFloat auto = some b := by
  unfold Node.setFloat at h; simp only [beq_iff_eq] at h
  rcases hty with h0 | h1
  · simp [h0] at h; subst h; simp [C07_get_float]
  · simp [h1] at h; subst h; simp [C07_get_float, h1]

theorem C07_set_get_bool (n n' : Node) (v : Int) (h : n.setBool v = some n') : n'.getBool = v := by
  rw [C07_set_bool] at h; split at h
  · cases h; simp [C07_get_bool]
  · split at h
    · cases h; simp_all [C07_get_bool]
    · cases h

theorem C07_set_get_string (n n' : Node) (s : Option Bytes) (h : n.setString s = some n') :
    n'.getString = s := by
  rw [C07_set_string] at h; split at h
  · cases h; simp [C07_get_string]
  · split at h
    · cases h; simp_all [C07_get_string]
    · cases h

/-- a 64-bit set into an `int` setting succeeds exactly when the value fits -/
theorem C07_int64_into_int (auto : Bool) (n : Node) (v : Int) (h : n.ty = T_INT) :
    (n.setInt64 auto v).isSome = fits32 v := by
  have hne : ¬ n.ty = T_INT64 := by rw [h]; decide
  have hne0 : ¬ n.ty = T_NONE := by rw [h]; decide
  rw [C07_set_int64, if_neg hne0, if_neg hne, if_pos h]
  by_cases hf : fits32 v = true
  · rw [if_pos hf, hf]; rfl
  · rw [if_neg hf]; simp at hf; rw [hf]; rfl

/-- a 32-bit integer converts to float exactly: after `set_int` on a float setting (with
auto-conversion) the stored double is finite, has the sign of `v`, and its mantissa and
exponent denote |v| exactly -/
theorem C07_int_to_float_exact (n n' : Node) (v : Int) (hty : n.ty = T_FLOAT) (hv : fits32 v = true)
    (h : n.setInt true v = some n') :
    n'.getFloat true = some (F64.ofInt v) ∧ F64.isFinite (F64.ofInt v) = true ∧
    ((F64.expo (F64.ofInt v) ≥ 0 ∧ F64.mant (F64.ofInt v) * 2 ^ (F64.expo (F64.ofInt v)).toNat = v.natAbs) ∨
     (F64.expo (F64.ofInt v) < 0 ∧ F64.mant (F64.ofInt v) = v.natAbs * 2 ^ (-(F64.expo (F64.ofInt v))).toNat)) := by
  have hx := F64.ofInt_exact v hv
  simp only at hx
  refine ⟨?_, hx.1, hx.2.2⟩
  rw [C07_set_int] at h
  have h0 : ¬ n.ty = T_NONE := by rw [hty]; decide
  have h1 : ¬ (n.ty = T_INT ∨ n.ty = T_INT64) := by rw [hty]; decide
  rw [if_neg h0, if_neg h1, if_pos hty] at h
  simp at h; subst h
  simp [C07_get_float, hty]

/-! ### a mismatching set leaves the setting unchanged; accessor families -/

/-- `step` leaves the whole state unchanged when a set reports failure -/
theorem C07_mismatch_atomic (s : State) (p : Path) (f : Node → Option Node) (n : Node)
    (hn : s.cfg.root.get? p = some n) (hf : f n = none) : (setAt s p f).1 = s := by
  unfold setAt; simp [hn, hf]

/-- by-name lookup = member lookup followed by the direct accessor -/
theorem C07_family_by_name (k : Kind) (auto : Bool) (n : Node) (nm : Bytes) :
    lookupVal k auto n (some nm) = (getMember n nm).bind (fun m => typedGet k auto m.2) := by
  unfold lookupVal
  cases h : getMember n nm with
  | none => simp [h]
  | some m => obtain ⟨i, m⟩ := m; simp [h]

/-- by-path lookup = path resolution followed by the direct accessor -/
theorem C07_family_by_path (k : Kind) (c : Config) (path : Bytes) :
    clookupVal k c path =
      (lookupFrom c.root path).bind (fun q => (c.root.get? q).bind (typedGet k (c.opt OPT_AUTOCONVERT))) := by
  unfold clookupVal; cases lookupFrom c.root path with
  | none => rfl
  | some q => cases hq : c.root.get? q <;> simp [hq]

/-- non-vacuity: an int64 setting holding 2^31 is not readable as int, 5 is -/
example : ({ ty := T_INT64, ival := 2147483648 } : Node).getInt true = none := by decide
example : ({ ty := T_INT64, ival := 5 } : Node).getInt true = some 5 := by decide

/-- Bridge: the auto-convert option bit and the type codes -/
theorem C07_constants :
    Generated.CONFIG_OPTION_AUTOCONVERT = OPT_AUTOCONVERT ∧ Generated.CONFIG_TYPE_INT = T_INT ∧
    Generated.CONFIG_TYPE_INT64 = T_INT64 ∧ Generated.CONFIG_TYPE_FLOAT = T_FLOAT ∧
    Generated.CONFIG_TYPE_STRING = T_STRING ∧ Generated.CONFIG_TYPE_BOOL = T_BOOL := by decide

end Libconfig.C07
