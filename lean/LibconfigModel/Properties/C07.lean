import LibconfigModel.WF
namespace Libconfig.C07
end Libconfig.C07
