import LibconfigModel.DenoteProv
import LibconfigModel.Properties.C09Line
import LibconfigModel.Properties.C10SpliceTotal
import LibconfigModel.Proofs.C10ProvName
import LibconfigModel.Proofs.C10ProvLex
/-
  C10P — "every setting reports the file and the line where it was written": the provenance of the
  tree of a SUCCESSFUL read, as a theorem over the TRANSLATED tables.

  `Properties/C02Denote.lean` proves that `libconfig_yyparse` builds the tree the reference
  interpreter `denote` computes — up to `stripPos`, which erases the fields `line` and `file` of
  every setting (`config_setting_source_line`, `config_setting_source_file`).
  `Properties/C10.lean` has the one-step law (what one grammar action records), and
  `Properties/C09Line.lean` the position of the error report of a read that fails.  This file says
  which positions the tree of a read that SUCCEEDS carries:

      denote o toks = .ok t  →
        after `yyparse`:  the tree is EXACTLY  denoteAt o σ root toks   (and that is `t` positions
                          apart), where  σ i = (line counter, current file) of the scan state right
                          after the token with index i was returned;
        path by path:     the setting at `p` has  line = (stateAfter ptoks s₁ i).buf.lineno  and
                          file = (stateAfter ptoks s₁ i).currentFilename  for  i = provIndex o toks p

  where `denoteAt` / `denoteProv` / `provIndex` (DenoteProv.lean) are the reference interpreter
  telling, for every setting it builds, WHICH token's position that setting reports:

    * a NAMED setting (a member of a group, whatever its value): its NAME token — proved to be a
      NAME token carrying that very name (`C10P_named_is_name_token`).  A setting whose name and
      value stand on different lines reports the line of the name;
    * an element of a list that is an array, a list or a group: its opening bracket;
    * a scalar element of a list or array that is BOOLEAN … FLOAT: its own token;
    * a STRING element: the token that FOLLOWS its last literal.  This is the successful-case twin
      of the project's recorded finding `C02:string-element-mismatch-line`: adjacent string
      literals are concatenated, so `simple_value: string` is reduced — and `CAPTURE_PARSE_POS`
      run — only when the parser has looked at the next token, and the scanner's line counter (and,
      across the end of an included file, its current file) has moved on to that token.  It is part
      of the specification here (`elemKey`), proved in general, with a kernel-evaluated witness
      that it really is another line (`C10P_string_element_finding`);
    * the root is not made by the parser: line 0 and the name of the file read (`readCore`).

  Why the positions come out like this (the proof follows the parser): the mid-rule actions `$@1`
  (behind NAME), `$@2`, `$@3`, `$@4` (behind `[`, `(`, `{`) and the actions of BOOLEAN … FLOAT are
  run by default reduction in the state entered by shifting that token — states 1, 16, 17, 18,
  9 … 14 reduce WITHOUT fetching a lookahead (`ninf_*`): the scanner stands right after the token.
  State 22 (`string`) needs the lookahead (`nn_22`).  The value actions of a member only fill in
  type and value: the position captured by `$@1` stays.

  "The scanner's line counter right after a token was returned" is the line on which the token
  ENDS: white space, comments and newlines in front of a token are consumed by the call of `yylex`
  that returns it, those behind it by the next call.  For every token but a string literal with
  embedded newlines that is the line the token stands on.

  The scanner's side is an explicit hypothesis, as in C09Line: `LexesToPos E s₀ ptoks s₁`.
  Successful `@include`s happen inside `yylex`: a token's recorded state then has the included
  file on top of the include stack and ITS buffer's line counter (one per buffer,
  `C10_lineno_per_buffer`) — so a setting written in an included file reports that file's name
  and its line within that file.  For include trees satisfying `IncludeTreeOK'` the hypothesis is
  discharged (`C10P_include_tree`).

  Statements and examples only; the proof is in LibconfigModel/Proofs/C10Prov*.lean:
    C10ProvSpec   unfolding lemmas for the stamped interpreter; NATURALITY in the stamps (one
                  induction that gives: forgetting the stamps is Denote.lean's interpreter, what is
                  consumed, only the stamps of the text's tokens matter, the provenance tree
                  determines every stamped tree)
    C10ProvStep   a successful reduction WITH the scan state its action runs in; `ninf_16/17/18`
    C10ProvSem    the creating actions with the exact node built (there: up to `stripPos`)
    C10ProvSim, C10ProvSim2, C10ProvSim3   the accepting half of the simulation of
                  Proofs/C09LineSim*.lean with the tree kept exactly
    C10ProvMain   the whole parse; from positions to token indices; path by path
    C10ProvName   what the token a setting reports is: a named setting's is its NAME token, …
    C10ProvLex    a token is returned by the iteration of `yylex` that matched it, from the buffer
                  that is current in the state recorded with it

  Found false: "a scalar element reports the position of a token of its own"
  (`C10P_string_element_finding`; `example5`: the position reported can even lie in another FILE
  than the element).  Nothing else asked for turned out false.
-/
namespace Libconfig.C10Provenance
open Libconfig Denote C02Denote
open C09L C09Line

/-! ### M1 — the specification

`denoteAt`, `denoteProv`, `provIndex`, `elemKey`, `Stamp` are defined in DenoteProv.lean. -/

/-- the position a grammar action records when it runs right after the token with index `i` of a
run: the line counter of the scanner's current buffer, and the file it is reading -/
def posStamp (ptoks : List ((Nat × TokVal) × ScanState)) (sEnd : ScanState) (i : Nat) : Stamp :=
  ((stateAfter ptoks sEnd i).buf.lineno, (stateAfter ptoks sEnd i).currentFilename)

/-- **`denoteAt` is `denote` with positions**: they agree on whether and why a text is rejected,
and on the tree, source positions apart — whatever the stamps. -/
theorem C10P_denoteAt_denote (o : Options) (σ : Nat → Stamp) (root : Stamp)
    (toks : List (Nat × TokVal)) :
    denote o toks =
      match denoteAt o σ root toks with
      | .ok T => .ok (stripPos T)
      | .error k => .error k := by
  rw [C10Prov.denoteAt_erase o σ root toks]
  cases denoteAt o σ root toks with
  | ok T => show Denote.Result.ok _ = Denote.Result.ok _; rw [← C01Parse.stripPos_pp]
  | error k => rfl

/-- in particular: a text that denotes a configuration has its positioned tree -/
theorem C10P_denoteAt_exists (o : Options) (σ : Nat → Stamp) (root : Stamp)
    (toks : List (Nat × TokVal)) (t : Node) (h : denote o toks = .ok t) :
    ∃ T, denoteAt o σ root toks = .ok T ∧ stripPos T = t := by
  obtain ⟨T, h1, h2⟩ := C10Prov.denoteAt_of_denote σ root h
  exact ⟨T, h1, by show C01Parse.stripPos T = t; rw [C01Parse.stripPos_pp]; exact h2⟩

/-- **Path by path**: in `denoteAt o σ root toks` the root carries `root`, and the setting at a
proper path `p` carries `σ i` for `i = provIndex o toks p` — the stamp of the token the provenance
tree names. -/
theorem C10P_denoteAt_path (o : Options) (σ : Nat → Stamp) (root : Stamp)
    (toks : List (Nat × TokVal)) (T : Node) (h : denoteAt o σ root toks = .ok T) :
    T.line = root.1 ∧ T.file = root.2 ∧
    ∀ (p : Path) (n : Node), p ≠ [] → T.get? p = some n →
      ∃ i, provIndex o toks p = some i ∧ n.line = (σ i).1 ∧ n.file = (σ i).2 :=
  C10Prov.denoteAt_path h

/-- `provIndex` is defined exactly on the proper paths of the tree the text denotes -/
theorem C10P_provIndex_paths (o : Options) (toks : List (Nat × TokVal)) (t : Node)
    (h : denote o toks = .ok t) (i : Nat) (p : Path) :
    (provIndex o toks (i :: p)).isSome = (t.get? (i :: p)).isSome :=
  C10Prov.provIndex_isSome h i p

/-! #### which token that is

Read off the provenance tree itself (`Proofs/C10ProvName.lean`): what the token with index
`provIndex o toks p` IS, for each kind of setting. -/

/-- the tree `denote` computes is the positioned tree without positions, path by path -/
theorem get?_stripPos (T : Node) (p : Path) : (stripPos T).get? p = (T.get? p).map stripPos := by
  show (C01Parse.stripPos T).get? p = (T.get? p).map C01Parse.stripPos
  have : (C01Parse.stripPos : Node → Node) = C01PP.stripPos := funext C01Parse.stripPos_pp
  rw [this, C10Prov.stripPos_restamp, C10Prov.get?_restamp]
  congr 1
  funext n
  rw [C10Prov.stripPos_restamp]

/-- **A named setting reports its NAME token**: if the setting at path `p` of the tree the text
denotes is called `nm`, the token with index `provIndex o toks p` is a NAME token, and the name it
carries is `nm`. -/
theorem C10P_named_is_name_token (o : Options) (toks : List (Nat × TokVal)) (t : Node)
    (h : denote o toks = .ok t) (p : Path) (m : Node) (nm : Bytes) (i : Nat)
    (hm : t.get? p = some m) (hname : m.name = some nm) (hi : provIndex o toks p = some i) :
    ∃ v, toks[i]? = some (Generated.tokens.name, v) ∧ v.sval = nm := by
  have hok := C10Prov.provIndex_ok h hm hi
  unfold C10Prov.NodeOK at hok
  simp only [hname] at hok
  rw [List.getElem?_map] at hok
  cases ht : toks[i]? with
  | none => rw [ht] at hok; cases hok
  | some tv =>
    obtain ⟨tk, v⟩ := tv
    rw [ht] at hok
    simp only [Option.map_some, Option.some.injEq] at hok
    obtain ⟨h1, h2⟩ := C02D.itemOf_name hok
    exact ⟨v, by rw [h1], h2⟩

/-- **An unnamed aggregate reports its opening bracket, a one-token scalar element its own
token**: if the setting at `p` has no name and is no string, the token with index
`provIndex o toks p` is the item it is made from (`C10Prov.ownItem`: `[`, `(`, `{` for an array,
list, group; the BOOLEAN / INTEGER / HEX / INTEGER64 / HEX64 / FLOAT literal with the element's
value). -/
theorem C10P_element_own_token (o : Options) (toks : List (Nat × TokVal)) (t : Node)
    (h : denote o toks = .ok t) (p : Path) (m : Node) (i : Nat)
    (hm : t.get? p = some m) (hname : m.name = none) (hty : m.ty ≠ T_STRING)
    (hi : provIndex o toks p = some i) (it : Denote.Item) (hown : C10Prov.ownItem m = some it) :
    (toks[i]?).map itemOf = some it := by
  have hok := C10Prov.provIndex_ok h hm hi
  unfold C10Prov.NodeOK at hok
  simp only [hname] at hok
  rw [if_neg hty, List.getElem?_map] at hok
  exact hok it hown

/-- **A string element reports the token BEHIND its last literal**: if the setting at `p` has no
name and is a string, the token with index `i = provIndex o toks p` is no string literal, and the
token in front of it is one. -/
theorem C10P_string_element_next_token (o : Options) (toks : List (Nat × TokVal)) (t : Node)
    (h : denote o toks = .ok t) (p : Path) (m : Node) (i : Nat)
    (hm : t.get? p = some m) (hname : m.name = none) (hty : m.ty = T_STRING)
    (hi : provIndex o toks p = some i) :
    1 ≤ i ∧ isStringAt toks (i - 1) = true ∧ isStringAt toks i = false := by
  have hok := C10Prov.provIndex_ok h hm hi
  unfold C10Prov.NodeOK at hok
  simp only [hname] at hok
  rw [if_pos hty] at hok
  obtain ⟨h1, ⟨s, h2⟩, h3⟩ := hok
  refine ⟨h1, (isStringAt_iff toks (i - 1)).mpr ⟨s, h2⟩, ?_⟩
  cases hs : isStringAt toks i with
  | false => rfl
  | true =>
    obtain ⟨s', hs'⟩ := (isStringAt_iff toks i).mp hs
    exact absurd hs' (h3 s')

/-! ### M2 — the theorem -/

/-- **The tree, positions included.**  Let `E` be a parser environment over the compiled parser
tables and actions (any scanner, world and include configuration).  Let its scanner, started in
`s₀`, deliver the tokens of `ptoks` — each recorded with the scan state right after it — and then
end of input in `s₁`, without include error (successful includes allowed).  Let `ctx₀` be a parse
context over a cleared configuration as `__config_read` sets it up, with no error message pending,
and `o` its options that matter.  If the reference interpreter reads the tokens as the tree `t`,
then whatever `yyparse` returns with enough fuel is: accept, with EXACTLY the tree
`denoteAt o (posStamp ptoks s₁) root toks` — which is `t` with every setting stamped with the line
counter and the current file of the scan state right after the token whose position it reports,
and the root left as it was. -/
theorem C10P_tree_env (E : ParserEnv) (hP : E.P = Generated.parser)
    (hA : E.acts = Generated.parseActions) (o : Options)
    (ptoks : List ((Nat × TokVal) × ScanState)) (h0 : NonZero (tokensOf ptoks))
    (hnames : NamesValid (tokensOf ptoks)) (hnest : nesting (tokensOf ptoks) ≤ maxNesting)
    (fuel : Nat) (s₀ s₁ s' : ScanState) (ctx₀ ctx' : ParseCtx) (r : ParseResult)
    (hlex : LexesToPos E s₀ ptoks s₁)
    (hroot : stripPos ctx₀.cfg.root = { ty := T_GROUP }) (hpar : ctx₀.parent = some [])
    (hstr : ctx₀.str = none) (hopt : ctx₀.cfg.opt OPT_ALLOW_OVERRIDES = o.allowOverrides)
    (herr : ctx₀.cfg.errText = none)
    (h : yyparse E fuel s₀ ctx₀ = (s', ctx', r)) (hr : r ≠ .outOfFuel) (t : Node)
    (hd : denote o (tokensOf ptoks) = .ok t) :
    r = .accept ∧ stripPos ctx'.cfg.root = t ∧
    denoteAt o (posStamp ptoks s₁) (ctx₀.cfg.root.line, ctx₀.cfg.root.file) (tokensOf ptoks) =
      .ok ctx'.cfg.root := by
  obtain ⟨T, hT, hst⟩ := C10P_denoteAt_exists o (posStamp ptoks s₁)
    (ctx₀.cfg.root.line, ctx₀.cfg.root.file) (tokensOf ptoks) t hd
  have := C10Prov.provenance_core (o := o) ⟨hP, hA⟩ ptoks (rawOK_of h0 hnames) hnest hlex
    (by rw [← C01Parse.stripPos_pp]; exact hroot) hpar hstr ⟨hopt, fun _ => herr⟩ h hr
    (T := T) hT
  rw [this.2]
  exact ⟨this.1, hst, hT⟩

/-- **C10P: every setting reports the position of the token `provIndex` names.**  Under the
hypotheses of `C10P_tree_env`: the parser accepts, the tree it leaves is `t` positions apart, the
root's position is untouched, and the setting at every proper path `p` of that tree has
`line` = the scanner's line counter and `file` = the file the scanner was reading right after the
token with index `provIndex o toks p` was returned: for a named setting its NAME token
(`C10P_named_is_name_token`), for an element see `elemKey`. -/
theorem C10P_provenance_env (E : ParserEnv) (hP : E.P = Generated.parser)
    (hA : E.acts = Generated.parseActions) (o : Options)
    (ptoks : List ((Nat × TokVal) × ScanState)) (h0 : NonZero (tokensOf ptoks))
    (hnames : NamesValid (tokensOf ptoks)) (hnest : nesting (tokensOf ptoks) ≤ maxNesting)
    (fuel : Nat) (s₀ s₁ s' : ScanState) (ctx₀ ctx' : ParseCtx) (r : ParseResult)
    (hlex : LexesToPos E s₀ ptoks s₁)
    (hroot : stripPos ctx₀.cfg.root = { ty := T_GROUP }) (hpar : ctx₀.parent = some [])
    (hstr : ctx₀.str = none) (hopt : ctx₀.cfg.opt OPT_ALLOW_OVERRIDES = o.allowOverrides)
    (herr : ctx₀.cfg.errText = none)
    (h : yyparse E fuel s₀ ctx₀ = (s', ctx', r)) (hr : r ≠ .outOfFuel) (t : Node)
    (hd : denote o (tokensOf ptoks) = .ok t) :
    r = .accept ∧ stripPos ctx'.cfg.root = t ∧
    ctx'.cfg.root.line = ctx₀.cfg.root.line ∧ ctx'.cfg.root.file = ctx₀.cfg.root.file ∧
    ∀ (p : Path) (n : Node), p ≠ [] → ctx'.cfg.root.get? p = some n →
      ∃ i, provIndex o (tokensOf ptoks) p = some i ∧
        n.line = (stateAfter ptoks s₁ i).buf.lineno ∧
        n.file = (stateAfter ptoks s₁ i).currentFilename := by
  obtain ⟨h1, h2, h3⟩ := C10P_tree_env E hP hA o ptoks h0 hnames hnest fuel s₀ s₁ s' ctx₀ ctx' r hlex
    hroot hpar hstr hopt herr h hr t hd
  obtain ⟨h4, h5, h6⟩ := C10P_denoteAt_path o _ _ _ _ h3
  exact ⟨h1, h2, h4, h5, h6⟩

/-- **C10P** for the compiled scanner and parser (`theEnv w c₀ lexFuel`, any world and reading
configuration): the tokens are never numbered 0. -/
theorem C10P_provenance (w : World) (c₀ : Config) (lexFuel : Nat) (o : Options)
    (ptoks : List ((Nat × TokVal) × ScanState)) (hnames : NamesValid (tokensOf ptoks))
    (hnest : nesting (tokensOf ptoks) ≤ maxNesting)
    (fuel : Nat) (s₀ s₁ s' : ScanState) (ctx₀ ctx' : ParseCtx) (r : ParseResult)
    (hlex : LexesToPos (theEnv w c₀ lexFuel) s₀ ptoks s₁)
    (hroot : stripPos ctx₀.cfg.root = { ty := T_GROUP }) (hpar : ctx₀.parent = some [])
    (hstr : ctx₀.str = none) (hopt : ctx₀.cfg.opt OPT_ALLOW_OVERRIDES = o.allowOverrides)
    (herr : ctx₀.cfg.errText = none)
    (h : yyparse (theEnv w c₀ lexFuel) fuel s₀ ctx₀ = (s', ctx', r)) (hr : r ≠ .outOfFuel)
    (t : Node) (hd : denote o (tokensOf ptoks) = .ok t) :
    r = .accept ∧ stripPos ctx'.cfg.root = t ∧
    ctx'.cfg.root.line = ctx₀.cfg.root.line ∧ ctx'.cfg.root.file = ctx₀.cfg.root.file ∧
    ∀ (p : Path) (n : Node), p ≠ [] → ctx'.cfg.root.get? p = some n →
      ∃ i, provIndex o (tokensOf ptoks) p = some i ∧
        n.line = (stateAfter ptoks s₁ i).buf.lineno ∧
        n.file = (stateAfter ptoks s₁ i).currentFilename :=
  C10P_provenance_env (theEnv w c₀ lexFuel) rfl rfl o ptoks
    (C02D_scanner_nonzero w c₀ lexFuel s₀ s₁ _ (LexesToPos.plain hlex).lexesTo) hnames hnest fuel
    s₀ s₁ s' ctx₀ ctx' r hlex hroot hpar hstr hopt herr h hr t hd

/-- … and the whole tree at once -/
theorem C10P_tree (w : World) (c₀ : Config) (lexFuel : Nat) (o : Options)
    (ptoks : List ((Nat × TokVal) × ScanState)) (hnames : NamesValid (tokensOf ptoks))
    (hnest : nesting (tokensOf ptoks) ≤ maxNesting)
    (fuel : Nat) (s₀ s₁ s' : ScanState) (ctx₀ ctx' : ParseCtx) (r : ParseResult)
    (hlex : LexesToPos (theEnv w c₀ lexFuel) s₀ ptoks s₁)
    (hroot : stripPos ctx₀.cfg.root = { ty := T_GROUP }) (hpar : ctx₀.parent = some [])
    (hstr : ctx₀.str = none) (hopt : ctx₀.cfg.opt OPT_ALLOW_OVERRIDES = o.allowOverrides)
    (herr : ctx₀.cfg.errText = none)
    (h : yyparse (theEnv w c₀ lexFuel) fuel s₀ ctx₀ = (s', ctx', r)) (hr : r ≠ .outOfFuel)
    (t : Node) (hd : denote o (tokensOf ptoks) = .ok t) :
    r = .accept ∧ stripPos ctx'.cfg.root = t ∧
    denoteAt o (posStamp ptoks s₁) (ctx₀.cfg.root.line, ctx₀.cfg.root.file) (tokensOf ptoks) =
      .ok ctx'.cfg.root :=
  C10P_tree_env (theEnv w c₀ lexFuel) rfl rfl o ptoks
    (C02D_scanner_nonzero w c₀ lexFuel s₀ s₁ _ (LexesToPos.plain hlex).lexesTo) hnames hnest fuel
    s₀ s₁ s' ctx₀ ctx' r hlex hroot hpar hstr hopt herr h hr t hd

/-- … and the parse does return: there is a bound `N` such that with any fuel ≥ `N` the parser
accepts, leaving exactly the positioned tree. -/
theorem C10P_tree_total (w : World) (c₀ : Config) (lexFuel : Nat) (o : Options)
    (ptoks : List ((Nat × TokVal) × ScanState)) (hnames : NamesValid (tokensOf ptoks))
    (hnest : nesting (tokensOf ptoks) ≤ maxNesting) (s₀ s₁ : ScanState) (ctx₀ : ParseCtx)
    (hlex : LexesToPos (theEnv w c₀ lexFuel) s₀ ptoks s₁)
    (hroot : stripPos ctx₀.cfg.root = { ty := T_GROUP }) (hpar : ctx₀.parent = some [])
    (hstr : ctx₀.str = none) (hopt : ctx₀.cfg.opt OPT_ALLOW_OVERRIDES = o.allowOverrides)
    (herr : ctx₀.cfg.errText = none) (t : Node) (hd : denote o (tokensOf ptoks) = .ok t) :
    ∃ N s' ctx', (∀ fuel, N ≤ fuel →
        yyparse (theEnv w c₀ lexFuel) fuel s₀ ctx₀ = (s', ctx', .accept)) ∧
      stripPos ctx'.cfg.root = t ∧
      denoteAt o (posStamp ptoks s₁) (ctx₀.cfg.root.line, ctx₀.cfg.root.file) (tokensOf ptoks) =
        .ok ctx'.cfg.root := by
  obtain ⟨T, hT, hst⟩ := C10P_denoteAt_exists o (posStamp ptoks s₁)
    (ctx₀.cfg.root.line, ctx₀.cfg.root.file) (tokensOf ptoks) t hd
  obtain ⟨N, s', ctx', h1, h2⟩ := C10Prov.provenance_total (o := o)
    (C01PP.compiled_theEnv w c₀ lexFuel) ptoks
    (rawOK_of (C02D_scanner_nonzero w c₀ lexFuel s₀ s₁ _ (LexesToPos.plain hlex).lexesTo) hnames)
    hnest hlex (by rw [← C01Parse.stripPos_pp]; exact hroot) hpar hstr ⟨hopt, fun _ => herr⟩
    (T := T) hT
  exact ⟨N, s', ctx', h1, by rw [h2]; exact hst, by rw [h2]; exact hT⟩

/-! ### `config_read_string` / `config_read` / `config_read_file` -/

/-- **What `__config_read` leaves** (the common core of the three read functions), with the lexing
as an explicit hypothesis: if the compiled scanner, started on the input, delivers the tokens of
`ptoks` (with their scan states) and then end of input, without include error, and the reference
interpreter reads them as the tree `t`, then the read — with enough fuel — succeeds, the tree is
`t` positions apart — exactly `denoteAt … (posStamp ptoks s₁) (0, filename)` —: the root has line 0
and the name of the file read (none for a string or a stream), and the setting at every proper path
has the line and the file of the scan state right after the token `provIndex` names: the
top-level file's name, or the name of the included file that token comes from. -/
theorem C10P_readCore (w : World) (c₀ : Config) (filename : Option Bytes) (inp : Bytes)
    (fuel : Nat) (ptoks : List ((Nat × TokVal) × ScanState)) (s₁ : ScanState)
    (hlex : LexesToPos (theEnv w c₀ fuel) (C01Parse.readScanStart filename inp) ptoks s₁)
    (hnames : NamesValid (tokensOf ptoks)) (hnest : nesting (tokensOf ptoks) ≤ maxNesting)
    (hfuel : (readCore w c₀ filename inp fuel).result ≠ .outOfFuel) (t : Node)
    (hd : denote { allowOverrides := c₀.opt OPT_ALLOW_OVERRIDES } (tokensOf ptoks) = .ok t) :
    (readCore w c₀ filename inp fuel).ok = true ∧
    stripPos (readCore w c₀ filename inp fuel).cfg.root = t ∧
    denoteAt { allowOverrides := c₀.opt OPT_ALLOW_OVERRIDES } (posStamp ptoks s₁) (0, filename)
      (tokensOf ptoks) = .ok (readCore w c₀ filename inp fuel).cfg.root ∧
    (readCore w c₀ filename inp fuel).cfg.root.line = 0 ∧
    (readCore w c₀ filename inp fuel).cfg.root.file = filename ∧
    ∀ (p : Path) (n : Node), p ≠ [] → (readCore w c₀ filename inp fuel).cfg.root.get? p = some n →
      ∃ i, provIndex { allowOverrides := c₀.opt OPT_ALLOW_OVERRIDES } (tokensOf ptoks) p = some i ∧
        n.line = (stateAfter ptoks s₁ i).buf.lineno ∧
        n.file = (stateAfter ptoks s₁ i).currentFilename := by
  rw [C09P.readCore_result] at hfuel
  rw [C09P.readCore_ok, C09P.readCore_cfg, C01Parse.finish_root]
  cases hp : C09P.parseOf w (C09P.start c₀ filename) filename inp fuel with
  | mk s' rest =>
    cases rest with
    | mk ctx' r =>
      rw [hp] at hfuel
      have h := C10P_tree w c₀ fuel { allowOverrides := c₀.opt OPT_ALLOW_OVERRIDES } ptoks
        hnames hnest fuel (C01Parse.readScanStart filename inp) s₁ s'
        { cfg := C09P.start c₀ filename } ctx' r hlex rfl rfl rfl rfl rfl hp hfuel t hd
      obtain ⟨h1, h2, h3⟩ := h
      have h3' : denoteAt { allowOverrides := c₀.opt OPT_ALLOW_OVERRIDES } (posStamp ptoks s₁)
          (0, filename) (tokensOf ptoks) = .ok ctx'.cfg.root := h3
      obtain ⟨h4, h5, h6⟩ := C10P_denoteAt_path _ _ _ _ _ h3'
      exact ⟨by show (r == ParseResult.accept) = true; rw [h1]; rfl, h2, h3', h4, h5, h6⟩

/-- **`__config_read` on bytes**: `C10P_readCore` with the side condition on the names replaced by
"the input and the files of the world hold bytes". -/
theorem C10P_readCore_bytes (w : World) (hw : C03P.WorldOK w) (c₀ : Config)
    (filename : Option Bytes) (inp : Bytes) (hb : C03P.BytesOK inp)
    (fuel : Nat) (ptoks : List ((Nat × TokVal) × ScanState)) (s₁ : ScanState)
    (hlex : LexesToPos (theEnv w c₀ fuel) (C01Parse.readScanStart filename inp) ptoks s₁)
    (hnest : nesting (tokensOf ptoks) ≤ maxNesting)
    (hfuel : (readCore w c₀ filename inp fuel).result ≠ .outOfFuel) (t : Node)
    (hd : denote { allowOverrides := c₀.opt OPT_ALLOW_OVERRIDES } (tokensOf ptoks) = .ok t) :
    (readCore w c₀ filename inp fuel).ok = true ∧
    stripPos (readCore w c₀ filename inp fuel).cfg.root = t ∧
    denoteAt { allowOverrides := c₀.opt OPT_ALLOW_OVERRIDES } (posStamp ptoks s₁) (0, filename)
      (tokensOf ptoks) = .ok (readCore w c₀ filename inp fuel).cfg.root ∧
    (readCore w c₀ filename inp fuel).cfg.root.line = 0 ∧
    (readCore w c₀ filename inp fuel).cfg.root.file = filename ∧
    ∀ (p : Path) (n : Node), p ≠ [] → (readCore w c₀ filename inp fuel).cfg.root.get? p = some n →
      ∃ i, provIndex { allowOverrides := c₀.opt OPT_ALLOW_OVERRIDES } (tokensOf ptoks) p = some i ∧
        n.line = (stateAfter ptoks s₁ i).buf.lineno ∧
        n.file = (stateAfter ptoks s₁ i).currentFilename :=
  C10P_readCore w c₀ filename inp fuel ptoks s₁ hlex
    (C02D_scanner_names w hw c₀ fuel _ _ _ (scanOK_start filename inp hb)
      (LexesToPos.plain hlex).lexesTo) hnest hfuel t hd

/-- outside included files the file a setting reports is the top-level one: for `__config_read`
with the file name `filename` (none for strings and streams), if the token a setting reports was
not read from an included file (the include stack is empty right after it), the file is
`filename` -/
theorem C10P_file_top (w : World) (c₀ : Config) (filename : Option Bytes) (inp : Bytes)
    (fuel : Nat) (ptoks : List ((Nat × TokVal) × ScanState)) (s₁ : ScanState)
    (hlex : LexesToPos (theEnv w c₀ fuel) (C01Parse.readScanStart filename inp) ptoks s₁)
    (i : Nat) (htop : (stateAfter ptoks s₁ i).stack = []) :
    (stateAfter ptoks s₁ i).currentFilename = filename :=
  C09L_readCore_file_top w c₀ filename inp fuel ptoks s₁ hlex i htop

/-- `config_read_string` -/
theorem C10P_read_string (w : World) (c₀ : Config) (text : Bytes) (fuel : Nat)
    (ptoks : List ((Nat × TokVal) × ScanState)) (s₁ : ScanState)
    (hlex : LexesToPos (theEnv w c₀ fuel) (C01Parse.readScanStart none (cstr text)) ptoks s₁)
    (hnames : NamesValid (tokensOf ptoks)) (hnest : nesting (tokensOf ptoks) ≤ maxNesting)
    (hfuel : (read w c₀ (.string text) fuel).result ≠ .outOfFuel) (t : Node)
    (hd : denote { allowOverrides := c₀.opt OPT_ALLOW_OVERRIDES } (tokensOf ptoks) = .ok t) :
    (read w c₀ (.string text) fuel).ok = true ∧
    stripPos (read w c₀ (.string text) fuel).cfg.root = t ∧
    denoteAt { allowOverrides := c₀.opt OPT_ALLOW_OVERRIDES } (posStamp ptoks s₁) (0, none)
      (tokensOf ptoks) = .ok (read w c₀ (.string text) fuel).cfg.root ∧
    (read w c₀ (.string text) fuel).cfg.root.line = 0 ∧
    (read w c₀ (.string text) fuel).cfg.root.file = none ∧
    ∀ (p : Path) (n : Node), p ≠ [] → (read w c₀ (.string text) fuel).cfg.root.get? p = some n →
      ∃ i, provIndex { allowOverrides := c₀.opt OPT_ALLOW_OVERRIDES } (tokensOf ptoks) p = some i ∧
        n.line = (stateAfter ptoks s₁ i).buf.lineno ∧
        n.file = (stateAfter ptoks s₁ i).currentFilename :=
  C10P_readCore w c₀ none (cstr text) fuel ptoks s₁ hlex hnames hnest hfuel t hd

/-- … for a string (or a stream) a setting has NO file — unless the token it reports was read from
an included file -/
theorem C10P_read_string_no_file (w : World) (c₀ : Config) (text : Bytes) (fuel : Nat)
    (ptoks : List ((Nat × TokVal) × ScanState)) (s₁ : ScanState)
    (hlex : LexesToPos (theEnv w c₀ fuel) (C01Parse.readScanStart none (cstr text)) ptoks s₁)
    (hnames : NamesValid (tokensOf ptoks)) (hnest : nesting (tokensOf ptoks) ≤ maxNesting)
    (hfuel : (read w c₀ (.string text) fuel).result ≠ .outOfFuel) (t : Node)
    (hd : denote { allowOverrides := c₀.opt OPT_ALLOW_OVERRIDES } (tokensOf ptoks) = .ok t)
    (hnoinc : ∀ i, (stateAfter ptoks s₁ i).stack = [])
    (p : Path) (n : Node) (hn : (read w c₀ (.string text) fuel).cfg.root.get? p = some n) :
    n.file = none := by
  obtain ⟨_, _, _, _, h5, h6⟩ :=
    C10P_read_string w c₀ text fuel ptoks s₁ hlex hnames hnest hfuel t hd
  cases p with
  | nil =>
    rw [C04.get?_nil] at hn
    injection hn with hn
    rw [← hn]
    exact h5
  | cons j q =>
    obtain ⟨i, _, _, hf⟩ := h6 (j :: q) n (fun h => by cases h) hn
    rw [hf]
    exact C10P_file_top w c₀ none (cstr text) fuel ptoks s₁ hlex i (hnoinc i)

/-- `config_read` from a stream -/
theorem C10P_read_stream (w : World) (c₀ : Config) (content : Bytes) (fuel : Nat)
    (ptoks : List ((Nat × TokVal) × ScanState)) (s₁ : ScanState)
    (hlex : LexesToPos (theEnv w c₀ fuel) (C01Parse.readScanStart none content) ptoks s₁)
    (hnames : NamesValid (tokensOf ptoks)) (hnest : nesting (tokensOf ptoks) ≤ maxNesting)
    (hfuel : (read w c₀ (.stream content) fuel).result ≠ .outOfFuel) (t : Node)
    (hd : denote { allowOverrides := c₀.opt OPT_ALLOW_OVERRIDES } (tokensOf ptoks) = .ok t) :
    (read w c₀ (.stream content) fuel).ok = true ∧
    stripPos (read w c₀ (.stream content) fuel).cfg.root = t ∧
    denoteAt { allowOverrides := c₀.opt OPT_ALLOW_OVERRIDES } (posStamp ptoks s₁) (0, none)
      (tokensOf ptoks) = .ok (read w c₀ (.stream content) fuel).cfg.root ∧
    (read w c₀ (.stream content) fuel).cfg.root.line = 0 ∧
    (read w c₀ (.stream content) fuel).cfg.root.file = none ∧
    ∀ (p : Path) (n : Node), p ≠ [] → (read w c₀ (.stream content) fuel).cfg.root.get? p = some n →
      ∃ i, provIndex { allowOverrides := c₀.opt OPT_ALLOW_OVERRIDES } (tokensOf ptoks) p = some i ∧
        n.line = (stateAfter ptoks s₁ i).buf.lineno ∧
        n.file = (stateAfter ptoks s₁ i).currentFilename :=
  C10P_readCore w c₀ none content fuel ptoks s₁ hlex hnames hnest hfuel t hd

/-- `config_read_file` of a readable file -/
theorem C10P_read_file (w : World) (c₀ : Config) (path content : Bytes) (fuel : Nat)
    (ptoks : List ((Nat × TokVal) × ScanState)) (s₁ : ScanState)
    (hfile : w.open? path = some content)
    (hlex : LexesToPos (theEnv w c₀ fuel) (C01Parse.readScanStart (some path) content) ptoks s₁)
    (hnames : NamesValid (tokensOf ptoks)) (hnest : nesting (tokensOf ptoks) ≤ maxNesting)
    (hfuel : (read w c₀ (.file path) fuel).result ≠ .outOfFuel) (t : Node)
    (hd : denote { allowOverrides := c₀.opt OPT_ALLOW_OVERRIDES } (tokensOf ptoks) = .ok t) :
    (read w c₀ (.file path) fuel).ok = true ∧
    stripPos (read w c₀ (.file path) fuel).cfg.root = t ∧
    denoteAt { allowOverrides := c₀.opt OPT_ALLOW_OVERRIDES } (posStamp ptoks s₁) (0, some path)
      (tokensOf ptoks) = .ok (read w c₀ (.file path) fuel).cfg.root ∧
    (read w c₀ (.file path) fuel).cfg.root.line = 0 ∧
    (read w c₀ (.file path) fuel).cfg.root.file = some path ∧
    ∀ (p : Path) (n : Node), p ≠ [] → (read w c₀ (.file path) fuel).cfg.root.get? p = some n →
      ∃ i, provIndex { allowOverrides := c₀.opt OPT_ALLOW_OVERRIDES } (tokensOf ptoks) p = some i ∧
        n.line = (stateAfter ptoks s₁ i).buf.lineno ∧
        n.file = (stateAfter ptoks s₁ i).currentFilename := by
  have hread : read w c₀ (.file path) fuel =
      { readCore w c₀ (some path) content fuel with
        events := [.fopen path true] ++ (readCore w c₀ (some path) content fuel).events ++
          [.fclose path] } := by
    unfold read
    simp only [hfile]
  rw [hread] at hfuel ⊢
  exact C10P_readCore w c₀ (some path) content fuel ptoks s₁ hlex hnames hnest hfuel t hd

/-! ### every named setting reports the file and the line where its name was written -/

/-- **Named settings** (the statement the property is named after), for `__config_read`: under the
hypotheses of `C10P_readCore`, every setting of the tree that has a name `nm` — at whatever depth,
whatever its value — has the line and the file of the scan state right after a NAME token of the
text that carries that name: the scanner's line counter for the buffer that token was read from,
and the name of the file that buffer belongs to. -/
theorem C10P_readCore_named (w : World) (c₀ : Config) (filename : Option Bytes) (inp : Bytes)
    (fuel : Nat) (ptoks : List ((Nat × TokVal) × ScanState)) (s₁ : ScanState)
    (hlex : LexesToPos (theEnv w c₀ fuel) (C01Parse.readScanStart filename inp) ptoks s₁)
    (hnames : NamesValid (tokensOf ptoks)) (hnest : nesting (tokensOf ptoks) ≤ maxNesting)
    (hfuel : (readCore w c₀ filename inp fuel).result ≠ .outOfFuel) (t : Node)
    (hd : denote { allowOverrides := c₀.opt OPT_ALLOW_OVERRIDES } (tokensOf ptoks) = .ok t)
    (p : Path) (n : Node) (nm : Bytes)
    (hn : (readCore w c₀ filename inp fuel).cfg.root.get? p = some n) (hname : n.name = some nm) :
    ∃ i v, (tokensOf ptoks)[i]? = some (Generated.tokens.name, v) ∧ v.sval = nm ∧
      provIndex { allowOverrides := c₀.opt OPT_ALLOW_OVERRIDES } (tokensOf ptoks) p = some i ∧
      n.line = (stateAfter ptoks s₁ i).buf.lineno ∧
      n.file = (stateAfter ptoks s₁ i).currentFilename := by
  obtain ⟨_, h2, h3, _, _, h6⟩ :=
    C10P_readCore w c₀ filename inp fuel ptoks s₁ hlex hnames hnest hfuel t hd
  have hne : p ≠ [] := by
    intro hp
    subst hp
    rw [C04.get?_nil] at hn
    injection hn with hn
    obtain ⟨members, _, hr⟩ := C10Prov.denoteAt_ok h3
    rw [← hn, hr] at hname
    cases hname
  obtain ⟨i, hi, hl, hf⟩ := h6 p n hne hn
  have hm : t.get? p = some (stripPos n) := by rw [← h2, get?_stripPos, hn]; rfl
  have hnm : (stripPos n).name = some nm := by
    show (C01Parse.stripPos n).name = some nm
    rw [C01Parse.stripPos_pp, C01PP.stripPos_eq]
    exact hname
  obtain ⟨v, hv1, hv2⟩ := C10P_named_is_name_token _ _ t hd p _ nm i hm hnm hi
  exact ⟨i, v, hv1, hv2, hi, hl, hf⟩

/-! ### M3 — include trees

For an include tree satisfying `IncludeTreeOK'` (Properties/C10Splice.lean) the hypothesis of the
theorems above — a scanner run without include error — need not be assumed: the scan of the top
file with the include machinery reaches end of input (`C10_tokens_exist`), and the read does not
run out of fuel (`C10_read_with_includes_terminates`).  So every named setting of the tree read
through the include machinery reports the position of its NAME token as the scanner stands right
after it: the name of the file whose buffer is current — the file that contains the token — and
that buffer's own line counter (`C10_lineno_per_buffer`: one per buffer, starting at 1; `C10_pop`:
the parent's counter is restored when the included file ends). -/

/-- **The scan state recorded with a token belongs to the buffer the token was matched in**: the
state right after the token with index `i` of a run is `sm` with the lexeme matched at the head of
its buffer consumed (`C10Prov.ConsumedFrom`), for the state `sm` in which the iteration of `yylex`
that returned the token started: the same include stack and top-level file — hence the same
current file —, that buffer behind the lexeme, its line counter advanced over the lexeme.  A
directive, or the end of an included file, is dealt with in an iteration that returns no token:
the file and the line a setting reports are those of the buffer — the file — its token was read
from.  (For any scanner tables.) -/
theorem C10P_token_in_current_buffer (E : ParserEnv) (s₀ s₁ : ScanState)
    (ptoks : List ((Nat × TokVal) × ScanState)) (h : LexesToPos E s₀ ptoks s₁) (i : Nat)
    (hi : i < ptoks.length) :
    ∃ sm, C10Prov.ConsumedFrom E.T sm (stateAfter ptoks s₁ i) ∧
      (stateAfter ptoks s₁ i).currentFilename = sm.currentFilename := by
  induction h generalizing i with
  | eof s s' hy => cases hi
  | tok s sa s' t v rest hy _ ih =>
    cases i with
    | zero =>
      obtain ⟨sm, hsm⟩ := C10Prov.yylex_tok_last hy
      exact ⟨sm, hsm, hsm.currentFilename⟩
    | succ j =>
      have := ih j (Nat.lt_of_succ_lt_succ hi)
      unfold stateAfter at this ⊢
      simp only [List.getElem?_cons_succ]
      exact this

/-- from the token-level relation of Properties/C10Splice.lean to a run with positions -/
theorem lexesToPos_of_lexes (w : World) (c : Config) (fuel : Nat) (s : ScanState)
    (toks : List (Nat × TokVal))
    (h : C10.Lexes w { fn := c.includeFn, dir := c.includeDir } fuel s toks) :
    ∃ ptoks s₁, tokensOf ptoks = toks ∧ LexesToPos (theEnv w c fuel) s ptoks s₁ := by
  induction h with
  | @eof s he =>
    exact ⟨[], (yylex Generated.scanner Generated.scanActions w
      { fn := c.includeFn, dir := c.includeDir } fuel s).1, rfl, .eof s _ (Prod.ext rfl he)⟩
  | @tok s s' t v rest ht _ ih =>
    obtain ⟨ptoks, s₁, h1, h2⟩ := ih
    exact ⟨((t, v), s') :: ptoks, s₁, by rw [← h1]; rfl, .tok s s' s₁ t v ptoks ht h2⟩

/-- **C10P for include trees.**  Let the world hold bytes, let `top` be a readable file whose
include tree is well-formed (`IncludeTreeOK'`: at most 10 levels, every named file exists, plain
lines, cut at line boundaries), and let `fuel ≥ spliceFuel`.  Then the scan of `top` with the
include machinery is a run with positions `ptoks` without include error; and if its tokens are
nested within the bound and denote the tree `t`, then `config_read_file` succeeds with `t`
positions apart, the root reports line 0 of `top`, every setting reports the position of the token
`provIndex` names — and every NAMED setting the line and the file of the scan state right after a
NAME token carrying its name: the file that contains that token, and the line within THAT file. -/
theorem C10P_include_tree (w : World) (hw : C03P.WorldOK w) (c₀ : Config) (top content : Bytes)
    (hopen : w.open? top = some content)
    (htree : C10.IncludeTreeOK' w { fn := c₀.includeFn, dir := c₀.includeDir } 10 content)
    (fuel : Nat) (hf : C10.spliceFuel w c₀ top content ≤ fuel) :
    ∃ ptoks s₁,
      LexesToPos (theEnv w c₀ fuel) (C01Parse.readScanStart (some top) content) ptoks s₁ ∧
      ∀ t, nesting (tokensOf ptoks) ≤ maxNesting →
        denote { allowOverrides := c₀.opt OPT_ALLOW_OVERRIDES } (tokensOf ptoks) = .ok t →
        (read w c₀ (.file top) fuel).ok = true ∧
        stripPos (read w c₀ (.file top) fuel).cfg.root = t ∧
        (read w c₀ (.file top) fuel).cfg.root.line = 0 ∧
        (read w c₀ (.file top) fuel).cfg.root.file = some top ∧
        ∀ (p : Path) (n : Node), p ≠ [] →
          (read w c₀ (.file top) fuel).cfg.root.get? p = some n →
          ∃ i, provIndex { allowOverrides := c₀.opt OPT_ALLOW_OVERRIDES } (tokensOf ptoks) p =
              some i ∧
            n.line = (stateAfter ptoks s₁ i).buf.lineno ∧
            n.file = (stateAfter ptoks s₁ i).currentFilename ∧
            ∀ nm, n.name = some nm →
              ∃ v, (tokensOf ptoks)[i]? = some (Generated.tokens.name, v) ∧ v.sval = nm := by
  obtain ⟨toks, _, hlexes⟩ := C10.C10_token_count w { fn := c₀.includeFn, dir := c₀.includeDir }
    (some top) content htree
  have hmu : C10S.mu w { fn := c₀.includeFn, dir := c₀.includeDir } (C10.scanStart (some top) content)
      ≤ fuel := by
    unfold C10.spliceFuel at hf
    omega
  obtain ⟨ptoks, s₁, hpt, hlex⟩ := lexesToPos_of_lexes w c₀ fuel _ toks (hlexes fuel hmu).1
  have hlex' : LexesToPos (theEnv w c₀ fuel) (C01Parse.readScanStart (some top) content) ptoks s₁ :=
    hlex
  refine ⟨ptoks, s₁, hlex', fun t hnest hd => ?_⟩
  have hfuel := C10.C10_read_with_includes_terminates w c₀ top content hopen htree fuel hf
  have hb : C03P.BytesOK content := by
    have h10 : C10.IncludeTreeOK' w { fn := c₀.includeFn, dir := c₀.includeDir } (9 + 1) content :=
      htree
    rw [C10.IncludeTreeOK'] at h10
    exact fun x hx => (h10.1 x hx).2
  have hnames : NamesValid (tokensOf ptoks) :=
    C02D_scanner_names w hw c₀ fuel _ _ _ (scanOK_start (some top) content hb)
      (LexesToPos.plain hlex').lexesTo
  have hread : read w c₀ (.file top) fuel =
      { readCore w c₀ (some top) content fuel with
        events := [.fopen top true] ++ (readCore w c₀ (some top) content fuel).events ++
          [.fclose top] } := by
    unfold read
    simp only [hopen]
  rw [hread] at hfuel ⊢
  obtain ⟨h1, h2, _, h4, h5, h6⟩ :=
    C10P_readCore w c₀ (some top) content fuel ptoks s₁ hlex' hnames hnest hfuel t hd
  refine ⟨h1, h2, h4, h5, fun p n hne hn => ?_⟩
  obtain ⟨i, hi, hl, hfl⟩ := h6 p n hne hn
  refine ⟨i, hi, hl, hfl, fun nm hname => ?_⟩
  obtain ⟨i', v, hv1, hv2, hi', _, _⟩ := C10P_readCore_named w c₀ (some top) content fuel ptoks s₁
    hlex' hnames hnest hfuel t hd p n nm hn hname
  rw [hi] at hi'
  injection hi' with hi'
  subst hi'
  exact ⟨v, hv1, hv2⟩

/-! ### M4 — the theorems at work (evaluated by the kernel)

The hypotheses of the theorems are satisfiable and their conclusions say something: for the inputs
below the compiled scanner does deliver tokens without include error (`lexAllPos` of
Properties/C09Line.lean runs it, keeping the scan state after every token), the tokens satisfy the
side conditions and denote a configuration, so `C10P_readCore` applies and PREDICTS the whole tree,
positions included, from the interpreter's reading and the scanner's states alone
(`predictTree`: the parser is not run); the kernel, running `read` itself, finds the same. -/

/-- name, type, line and file of every setting of a tree, in document order -/
def posRows (n : Node) : List (Option Bytes × Nat × Nat × Option Bytes) :=
  (C01Parse.rows n).map fun r => (r.name, r.ty, r.line, r.file)

/-- the tree `C10P_readCore` predicts for `__config_read` on an input whose scanning the kernel can
carry out (computed from the scanner's states and the interpreter's reading) -/
def predictTree (w : World) (c₀ : Config) (filename : Option Bytes) (inp : Bytes) : Option Node :=
  match lexAllPos (theEnv w c₀ 1000) 200 (C01Parse.readScanStart filename inp) with
  | none => none
  | some (ptoks, sEnd) =>
    if checkToks (tokensOf ptoks) then
      match denoteAt { allowOverrides := c₀.opt OPT_ALLOW_OVERRIDES } (posStamp ptoks sEnd)
          (0, filename) (tokensOf ptoks) with
      | .ok T => some T
      | .error _ => none
    else none

/-- how `C10P_readCore` applies: what `predictTree` says is the tree `__config_read` leaves -/
theorem readCore_of_predictTree (w : World) (c₀ : Config) (filename : Option Bytes) (inp : Bytes)
    (T : Node) (h : predictTree w c₀ filename inp = some T)
    (hfuel : (readCore w c₀ filename inp 1000).result ≠ .outOfFuel) :
    (readCore w c₀ filename inp 1000).ok = true ∧ (readCore w c₀ filename inp 1000).cfg.root = T := by
  unfold predictTree at h
  split at h
  · cases h
  · rename_i ptoks sEnd hl
    split at h
    · rename_i hck
      obtain ⟨hn, hd⟩ := checkToks_spec hck
      split at h
      · rename_i T' hT
        injection h with h
        subst h
        have hden := C10P_denoteAt_denote { allowOverrides := c₀.opt OPT_ALLOW_OVERRIDES }
          (posStamp ptoks sEnd) (0, filename) (tokensOf ptoks)
        rw [hT] at hden
        obtain ⟨h1, _, h3, _⟩ := C10P_readCore w c₀ filename inp 1000 ptoks sEnd
          (lexAllPos_sound 200 _ _ _ hl) hn hd hfuel _ hden
        rw [hT] at h3
        injection h3 with h3
        exact ⟨h1, h3.symm⟩
      · cases h
    · cases h

/-- … in terms of the rows -/
theorem readCore_of_predict (w : World) (c₀ : Config) (filename : Option Bytes) (inp : Bytes)
    (rows : List (Option Bytes × Nat × Nat × Option Bytes))
    (h : (predictTree w c₀ filename inp).map posRows = some rows)
    (hfuel : (readCore w c₀ filename inp 1000).result ≠ .outOfFuel) :
    (readCore w c₀ filename inp 1000).ok = true ∧
    posRows (readCore w c₀ filename inp 1000).cfg.root = rows := by
  cases hp : predictTree w c₀ filename inp with
  | none => rw [hp] at h; cases h
  | some T =>
    rw [hp] at h
    simp only [Option.map_some, Option.some.injEq] at h
    obtain ⟨h1, h2⟩ := readCore_of_predictTree w c₀ filename inp T hp hfuel
    exact ⟨h1, by rw [h2]; exact h⟩

/-- … for `config_read_string` -/
theorem read_string_of_predict (c₀ : Config) (text : Bytes)
    (rows : List (Option Bytes × Nat × Nat × Option Bytes))
    (h : (predictTree {} c₀ none (cstr text)).map posRows = some rows)
    (hfuel : (read {} c₀ (.string text) 1000).result ≠ .outOfFuel) :
    (read {} c₀ (.string text) 1000).ok = true ∧
    posRows (read {} c₀ (.string text) 1000).cfg.root = rows :=
  readCore_of_predict {} c₀ none (cstr text) rows h hfuel

/-- … for `config_read_file` -/
theorem read_file_of_predict (w : World) (c₀ : Config) (path content : Bytes)
    (hfile : w.open? path = some content)
    (rows : List (Option Bytes × Nat × Nat × Option Bytes))
    (h : (predictTree w c₀ (some path) content).map posRows = some rows)
    (hfuel : (read w c₀ (.file path) 1000).result ≠ .outOfFuel) :
    (read w c₀ (.file path) 1000).ok = true ∧
    posRows (read w c₀ (.file path) 1000).cfg.root = rows := by
  have hread : read w c₀ (.file path) 1000 =
      { readCore w c₀ (some path) content 1000 with
        events := [.fopen path true] ++ (readCore w c₀ (some path) content 1000).events ++
          [.fclose path] } := by
    unfold read
    simp only [hfile]
  rw [hread] at hfuel ⊢
  exact readCore_of_predict w c₀ (some path) content rows h hfuel

/-- 1. a three-file include tree: the file `top.cfg`
```
t1 = 1;
@include "a.cfg"
t2 = 2;
```
includes `a.cfg`
```

a1 = 1;
@include "b.cfg"
a2 = { x = 1; };
```
which includes `b.cfg`
```


b1 = 7;
```
Every setting reports ITS OWN file and its line within that file: `a1` line 2 of `a.cfg`, `b1`
line 3 of `b.cfg`, `a2` and its member `x` line 4 of `a.cfg` (the counter of `a.cfg` goes on where
it stood when `b.cfg` was included), `t2` line 3 of `top.cfg`; the root line 0 of `top.cfg`. -/
def top1 : Bytes := bytesOfString "t1 = 1;\n@include \"a.cfg\"\nt2 = 2;\n"
def world1 : World :=
  { files := [(bytesOfString "top.cfg", some top1),
              (bytesOfString "a.cfg",
                some (bytesOfString "\na1 = 1;\n@include \"b.cfg\"\na2 = { x = 1; };\n")),
              (bytesOfString "b.cfg", some (bytesOfString "\n\nb1 = 7;\n"))] }

def rows1 : List (Option Bytes × Nat × Nat × Option Bytes) :=
  [(none, T_GROUP, 0, some (bytesOfString "top.cfg")),
   (some (bytesOfString "t1"), T_INT, 1, some (bytesOfString "top.cfg")),
   (some (bytesOfString "a1"), T_INT, 2, some (bytesOfString "a.cfg")),
   (some (bytesOfString "b1"), T_INT, 3, some (bytesOfString "b.cfg")),
   (some (bytesOfString "a2"), T_GROUP, 4, some (bytesOfString "a.cfg")),
   (some (bytesOfString "x"), T_INT, 4, some (bytesOfString "a.cfg")),
   (some (bytesOfString "t2"), T_INT, 3, some (bytesOfString "top.cfg"))]

theorem example1 :
    (read world1 Config.init (.file (bytesOfString "top.cfg")) 1000).ok = true ∧
    posRows (read world1 Config.init (.file (bytesOfString "top.cfg")) 1000).cfg.root = rows1 :=
  read_file_of_predict world1 Config.init (bytesOfString "top.cfg") top1 (by decide +kernel) rows1
    (by decide +kernel) (by decide +kernel)

/-- … which the kernel confirms by running `read` -/
example : posRows (read world1 Config.init (.file (bytesOfString "top.cfg")) 1000).cfg.root = rows1 := by
  decide +kernel

/-- the files of a world hold bytes, decidably -/
def checkWorld (w : World) : Bool :=
  w.files.all fun e => match e.2 with
    | some c => c.all fun x => Nat.blt x 256
    | none => true

theorem checkWorld_sound {w : World} (h : checkWorld w = true) : C03P.WorldOK w := by
  intro p c hpc x hx
  have := List.all_eq_true.mp h (p, some c) hpc
  simp only at this
  exact Nat.le_of_ble_eq_true (List.all_eq_true.mp this x hx)

/-- … and `C10P_include_tree` applies to this tree: it is well-formed, the world holds bytes, the
fuel is enough (`spliceFuel` = 530 here) — no hypothesis about the scanner is left -/
example : ∃ ptoks s₁,
    LexesToPos (theEnv world1 Config.init 1000)
      (C01Parse.readScanStart (some (bytesOfString "top.cfg")) top1) ptoks s₁ ∧
    ∀ t, nesting (tokensOf ptoks) ≤ maxNesting →
      denote { allowOverrides := Config.init.opt OPT_ALLOW_OVERRIDES } (tokensOf ptoks) = .ok t →
      (read world1 Config.init (.file (bytesOfString "top.cfg")) 1000).ok = true ∧
      stripPos (read world1 Config.init (.file (bytesOfString "top.cfg")) 1000).cfg.root = t ∧
      (read world1 Config.init (.file (bytesOfString "top.cfg")) 1000).cfg.root.line = 0 ∧
      (read world1 Config.init (.file (bytesOfString "top.cfg")) 1000).cfg.root.file =
        some (bytesOfString "top.cfg") ∧
      ∀ (p : Path) (n : Node), p ≠ [] →
        (read world1 Config.init (.file (bytesOfString "top.cfg")) 1000).cfg.root.get? p = some n →
        ∃ i, provIndex { allowOverrides := Config.init.opt OPT_ALLOW_OVERRIDES } (tokensOf ptoks) p =
            some i ∧
          n.line = (stateAfter ptoks s₁ i).buf.lineno ∧
          n.file = (stateAfter ptoks s₁ i).currentFilename ∧
          ∀ nm, n.name = some nm →
            ∃ v, (tokensOf ptoks)[i]? = some (Generated.tokens.name, v) ∧ v.sval = nm :=
  C10P_include_tree world1 (checkWorld_sound (by decide +kernel)) Config.init
    (bytesOfString "top.cfg") top1 (by decide +kernel)
    (C10.checkTree'_sound _ _ 10 _ (by decide +kernel)) 1000 (by decide +kernel)

/-- the provenance tree of that read: the index of the token each setting reports (in the field
`line`) — `t1` token 0, `a1` token 4, `b1` token 8, `a2` token 12, `x` token 15 (its NAME, behind
`a2 = {`), `t2` token 21 — each the NAME token of that setting -/
example :
    (lexAllPos (theEnv world1 Config.init 1000) 200
      (C01Parse.readScanStart (some (bytesOfString "top.cfg")) top1)).map (fun p =>
        match denoteProv {} (tokensOf p.1) with
        | .ok T => (C01Parse.rows T).map (fun r => (r.name, r.line))
        | .error _ => []) =
    some [(none, 0), (some (bytesOfString "t1"), 0), (some (bytesOfString "a1"), 4),
      (some (bytesOfString "b1"), 8), (some (bytesOfString "a2"), 12), (some (bytesOfString "x"), 15),
      (some (bytesOfString "t2"), 21)] := by decide +kernel

/-- … as `C10P_named_is_name_token` says: the tokens with these indices are NAME tokens carrying
these names -/
example :
    (lexAllPos (theEnv world1 Config.init 1000) 200
      (C01Parse.readScanStart (some (bytesOfString "top.cfg")) top1)).map (fun p =>
        [0, 4, 8, 12, 15, 21].map fun i =>
          ((tokensOf p.1)[i]?).map fun tv => (tv.1 == Generated.tokens.name, tv.2.sval)) =
    some [some (true, bytesOfString "t1"), some (true, bytesOfString "a1"),
      some (true, bytesOfString "b1"), some (true, bytesOfString "a2"),
      some (true, bytesOfString "x"), some (true, bytesOfString "t2")] := by decide +kernel

/-- 2. a setting whose name and value stand on different lines, list elements, a string element, a
group and an array nested in a list — read from a string:
```
a
  =
    3;
l = ( 1,
      "x" "y"

      , { g = true; }
      , [ 2,
          3 ] );
```
`a` reports line 1, the line of its NAME (its `=` is on line 2, its value on line 3); `l` line 4;
its elements: `1` line 4 (its own token); the string `"x" "y"` line 7 — NOT line 5 where it stands:
the line of the comma behind it, which the parser has had to look at to know that the string is
complete; the group line 7 (its `{`) and its member `g` line 7 (its NAME); the array line 8 (its
`[`), `2` line 8, `3` line 9.  No setting has a file: the text was read from a string. -/
def text2 : Bytes := bytesOfString
  "a\n  =\n    3;\nl = ( 1,\n      \"x\" \"y\"\n\n      , { g = true; }\n      , [ 2,\n          3 ] );\n"

def rows2 (file : Option Bytes) : List (Option Bytes × Nat × Nat × Option Bytes) :=
  [(none, T_GROUP, 0, file),
   (some (bytesOfString "a"), T_INT, 1, file),
   (some (bytesOfString "l"), T_LIST, 4, file),
   (none, T_INT, 4, file),
   (none, T_STRING, 7, file),
   (none, T_GROUP, 7, file),
   (some (bytesOfString "g"), T_BOOL, 7, file),
   (none, T_ARRAY, 8, file),
   (none, T_INT, 8, file),
   (none, T_INT, 9, file)]

theorem example2 : (read {} Config.init (.string text2) 1000).ok = true ∧
    posRows (read {} Config.init (.string text2) 1000).cfg.root = rows2 none :=
  read_string_of_predict Config.init text2 (rows2 none) (by decide +kernel) (by decide +kernel)

example : posRows (read {} Config.init (.string text2) 1000).cfg.root = rows2 none := by
  decide +kernel

/-- the provenance tree of text 2: `a` token 0, `l` token 4, the element `1` token 7 (itself), the
string element token 11 (the comma behind `"y"`, which is token 10), the group token 12 (`{`), `g`
token 13, the array token 19 (`[`), `2` token 20, `3` token 22 -/
example :
    (lexText text2).map (fun toks =>
      match denoteProv {} toks with
      | .ok T => (C01Parse.rows T).map (fun r => r.line)
      | .error _ => []) = some [0, 0, 4, 7, 11, 12, 13, 19, 20, 22] := by decide +kernel

/-- … `provIndex` path by path: the member `g` of the group that is element 2 of the list `l` -/
example : (lexText text2).map (fun toks => provIndex {} toks [1, 2, 0]) = some (some 13) := by
  decide +kernel

/-- 3. the same text read from a file `f.cfg`: the same lines, and every setting reports
`f.cfg` -/
def world3 : World := { files := [(bytesOfString "f.cfg", some text2)] }

theorem example3 : (read world3 Config.init (.file (bytesOfString "f.cfg")) 1000).ok = true ∧
    posRows (read world3 Config.init (.file (bytesOfString "f.cfg")) 1000).cfg.root =
      rows2 (some (bytesOfString "f.cfg")) :=
  read_file_of_predict world3 Config.init (bytesOfString "f.cfg") text2 (by decide +kernel)
    (rows2 (some (bytesOfString "f.cfg"))) (by decide +kernel) (by decide +kernel)

example : posRows (read world3 Config.init (.file (bytesOfString "f.cfg")) 1000).cfg.root =
    rows2 (some (bytesOfString "f.cfg")) := by decide +kernel

/-- 4. with `ALLOW_OVERRIDES` the later setting of a name replaces the earlier one — and reports
its own NAME token:
```
a = 1;
b = 2;
a = 3;
``` -/
def text4 : Bytes := bytesOfString "a = 1;\nb = 2;\na = 3;\n"

theorem example4 :
    (read {} { Config.init with options := OPT_ALLOW_OVERRIDES } (.string text4) 1000).ok = true ∧
    posRows (read {} { Config.init with options := OPT_ALLOW_OVERRIDES } (.string text4)
      1000).cfg.root =
      [(none, T_GROUP, 0, none), (some (bytesOfString "b"), T_INT, 2, none),
       (some (bytesOfString "a"), T_INT, 3, none)] :=
  read_string_of_predict _ text4 _ (by decide +kernel) (by decide +kernel)

/-! ### the finding, as a theorem

The statement one would write down from the documentation alone — "a scalar element reports the
position of a token of its own" — is false of `libconfig_yyparse` for STRING elements: text 5
refutes it.  (This is why `elemKey` is part of the specification.) -/

/-- "a string element reports the line on which one of the string literals of the text ends" -/
def OwnTokenStatement : Prop :=
  ∀ (w : World) (c₀ : Config) (lexFuel : Nat) (o : Options)
    (ptoks : List ((Nat × TokVal) × ScanState)),
    NamesValid (tokensOf ptoks) → nesting (tokensOf ptoks) ≤ maxNesting →
    ∀ (fuel : Nat) (s₀ s₁ s' : ScanState) (ctx₀ ctx' : ParseCtx) (r : ParseResult),
      LexesToPos (theEnv w c₀ lexFuel) s₀ ptoks s₁ →
      stripPos ctx₀.cfg.root = { ty := T_GROUP } → ctx₀.parent = some [] → ctx₀.str = none →
      ctx₀.cfg.opt OPT_ALLOW_OVERRIDES = o.allowOverrides → ctx₀.cfg.errText = none →
      yyparse (theEnv w c₀ lexFuel) fuel s₀ ctx₀ = (s', ctx', r) → r ≠ .outOfFuel →
      ∀ t, denote o (tokensOf ptoks) = .ok t →
      ∀ (p : Path) (n : Node), ctx'.cfg.root.get? p = some n → n.name = none → n.ty = T_STRING →
        ∃ j, isStringAt (tokensOf ptoks) j = true ∧ n.line = (stateAfter ptoks s₁ j).buf.lineno

/-- text 5:
```
a = ( "x"

      , 1 );
```
-/
def text5 : Bytes := bytesOfString "a = ( \"x\"\n\n      , 1 );\n"

/-- **The counterexample** (the successful-case twin of finding
`C02:string-element-mismatch-line`): for text 5 all hypotheses hold, the only string literal of the
text — `"x"`, token 3 — stands on line 1, and the string element `a[0]` reports line 3: the line of
the comma (token 4), as `C10P_provenance` says (`provIndex … [0, 0] = some 4`). -/
theorem C10P_string_element_finding : ¬ OwnTokenStatement := by
  intro H
  cases hl : lexAllPos (theEnv {} Config.init 1000) 200
      (C01Parse.readScanStart none (cstr text5)) with
  | none =>
    have : (lexAllPos (theEnv {} Config.init 1000) 200
      (C01Parse.readScanStart none (cstr text5))).isSome = true := by decide +kernel
    rw [hl] at this
    cases this
  | some q =>
    obtain ⟨ptoks, sEnd⟩ := q
    have hall : (lexAllPos (theEnv {} Config.init 1000) 200
        (C01Parse.readScanStart none (cstr text5))).all (fun q =>
          checkToks (tokensOf q.1) &&
          (match denote {} (tokensOf q.1) with | .ok _ => true | .error _ => false) &&
          (List.range (tokensOf q.1).length).all (fun j =>
            !(isStringAt (tokensOf q.1) j) || ((stateAfter q.1 q.2 j).buf.lineno != 3))) = true := by
      decide +kernel
    rw [hl] at hall
    simp only [Option.all_some, Bool.and_eq_true] at hall
    obtain ⟨⟨hck, hden⟩, hnone⟩ := hall
    obtain ⟨hn, hd⟩ := checkToks_spec hck
    have hrun : (yyparse (theEnv {} Config.init 1000) 1000
          (C01Parse.readScanStart none (cstr text5)) { cfg := {} }).2.2 ≠ .outOfFuel ∧
        ((yyparse (theEnv {} Config.init 1000) 1000
          (C01Parse.readScanStart none (cstr text5)) { cfg := {} }).2.1.cfg.root.get? [0, 0]).map
            (fun n => (n.name, n.ty, n.line)) = some (none, T_STRING, 3) := by
      decide +kernel
    generalize hout : yyparse (theEnv {} Config.init 1000) 1000
      (C01Parse.readScanStart none (cstr text5)) { cfg := {} } = out at hrun
    obtain ⟨s', ctx', r⟩ := out
    obtain ⟨hr1, hr2⟩ := hrun
    cases hg : ctx'.cfg.root.get? [0, 0] with
    | none =>
      have hr2' : (ctx'.cfg.root.get? [0, 0]).map (fun n => (n.name, n.ty, n.line)) =
          some (none, T_STRING, 3) := hr2
      rw [hg] at hr2'
      cases hr2'
    | some n =>
      have hr2' : (ctx'.cfg.root.get? [0, 0]).map (fun n => (n.name, n.ty, n.line)) =
          some (none, T_STRING, 3) := hr2
      rw [hg] at hr2'
      simp only [Option.map_some, Option.some.injEq, Prod.mk.injEq] at hr2'
      obtain ⟨hname, hty, hline⟩ := hr2'
      cases hdn : denote {} (tokensOf ptoks) with
      | error k => rw [hdn] at hden; cases hden
      | ok t =>
        obtain ⟨j, hj1, hj2⟩ := H {} Config.init 1000 {} ptoks hn hd 1000 _ sEnd s' { cfg := {} }
          ctx' r (lexAllPos_sound 200 _ _ _ hl) rfl rfl rfl (by decide) rfl hout hr1 t hdn [0, 0] n
          hg hname hty
        have hjlt : j < (tokensOf ptoks).length := by
          unfold isStringAt at hj1
          cases hq : (tokensOf ptoks)[j]? with
          | none => rw [hq] at hj1; cases hj1
          | some tv => exact (List.getElem?_eq_some_iff.mp hq).1
        have := List.all_eq_true.mp hnone j (List.mem_range.mpr hjlt)
        rw [hj1, ← hj2, hline] at this
        exact absurd this (by decide)

/-- 5. … and it can be another FILE: the file `top.cfg`
```
l = (
@include "s.cfg"
, 2 );
```
includes `s.cfg`, which consists of an empty line and the string literal `"x"` (no final newline).
The string element `l[0]` is written on line 2 of `s.cfg`; it reports line 3 of `top.cfg` — the
position of the comma, token 4, that follows it: when the parser has seen that token the scanner has
left `s.cfg` and is back in `top.cfg`. -/
def top5 : Bytes := bytesOfString "l = (\n@include \"s.cfg\"\n, 2 );\n"
def world5 : World :=
  { files := [(bytesOfString "top.cfg", some top5),
              (bytesOfString "s.cfg", some (bytesOfString "\n\"x\""))] }

theorem example5 :
    (read world5 Config.init (.file (bytesOfString "top.cfg")) 1000).ok = true ∧
    posRows (read world5 Config.init (.file (bytesOfString "top.cfg")) 1000).cfg.root =
      [(none, T_GROUP, 0, some (bytesOfString "top.cfg")),
       (some (bytesOfString "l"), T_LIST, 1, some (bytesOfString "top.cfg")),
       (none, T_STRING, 3, some (bytesOfString "top.cfg")),
       (none, T_INT, 3, some (bytesOfString "top.cfg"))] :=
  read_file_of_predict world5 Config.init (bytesOfString "top.cfg") top5 (by decide +kernel) _
    (by decide +kernel) (by decide +kernel)

/-- … while the scanner, right after the string literal itself (token 3), stood on line 2 of
`s.cfg` -/
example :
    (lexAllPos (theEnv world5 Config.init 1000) 200
      (C01Parse.readScanStart (some (bytesOfString "top.cfg")) top5)).map (fun p =>
        (isStringAt (tokensOf p.1) 3, posStamp p.1 p.2 3, posStamp p.1 p.2 4)) =
    some (true, (2, some (bytesOfString "s.cfg")), (3, some (bytesOfString "top.cfg"))) := by
  decide +kernel

end Libconfig.C10Provenance
