import LibconfigModel.Read
/-
  C20 / C09 — a read does not depend on what an earlier call left behind.  The three entry
  points share `__config_read`, which first forgets the previous outcome and the previous
  tree; so the result, the error report, the I/O events and the configuration after a read
  are functions of the settings of the configuration (options, include function and
  directory, …), the world and the input only — not of the error state or the tree that an
  earlier (successful or failed) read or edit left in the object.
-/
namespace Libconfig.C20U

/-- the two configurations were set up alike (everything `config_clear` keeps) -/
def SameSettings (a b : Config) : Prop :=
  a.destructor = b.destructor ∧ a.options = b.options ∧ a.tabWidth = b.tabWidth ∧
  a.floatPrecision = b.floatPrecision ∧ a.defaultFormat = b.defaultFormat ∧
  a.includeDir = b.includeDir ∧ a.includeFn = b.includeFn ∧ a.hook = b.hook

theorem cleared_eq (a b : Config) (h : SameSettings a b) :
    ((a.setError ERR_NONE none).clear).1 = ((b.setError ERR_NONE none).clear).1 := by
  obtain ⟨h1, h2, h3, h4, h5, h6, h7, h8⟩ := h
  cases a; cases b
  simp only [Config.setError, Config.clear] at *
  subst h1 h2 h3 h4 h5 h6 h7 h8
  rfl

theorem readCore_used (w : World) (a b : Config) (f : Option Bytes) (inp : Bytes) (fuel : Nat)
    (h : SameSettings a b) :
    (readCore w a f inp fuel).cfg = (readCore w b f inp fuel).cfg ∧
    (readCore w a f inp fuel).ok = (readCore w b f inp fuel).ok ∧
    (readCore w a f inp fuel).result = (readCore w b f inp fuel).result ∧
    (readCore w a f inp fuel).events = (readCore w b f inp fuel).events := by
  have hc := cleared_eq a b h
  unfold readCore
  simp only [hc]
  simp

/-- **A read forgets the previous call.**  Through every entry point: same verdict, same
parser result, same I/O events, and the same error report (type, text, file, line) whatever
error state and tree the configuration had before — in particular after a *failed* read. -/
theorem C20_used_state (w : World) (a b : Config) (src : Source) (fuel : Nat) (h : SameSettings a b) :
    (read w a src fuel).ok = (read w b src fuel).ok ∧
    (read w a src fuel).result = (read w b src fuel).result ∧
    (read w a src fuel).events = (read w b src fuel).events ∧
    (read w a src fuel).cfg.errType = (read w b src fuel).cfg.errType ∧
    (read w a src fuel).cfg.errText = (read w b src fuel).cfg.errText ∧
    (read w a src fuel).cfg.errFile = (read w b src fuel).cfg.errFile ∧
    (read w a src fuel).cfg.errLine = (read w b src fuel).cfg.errLine := by
  cases src with
  | string s =>
    obtain ⟨h1, h2, h3, h4⟩ := readCore_used w a b none (cstr s) fuel h
    simp only [read]; rw [h1, h2, h3, h4]; simp
  | stream content =>
    obtain ⟨h1, h2, h3, h4⟩ := readCore_used w a b none content fuel h
    simp only [read]; rw [h1, h2, h3, h4]; simp
  | file path =>
    simp only [read]
    cases w.open? path with
    | none => simp [Config.setError]
    | some content =>
      obtain ⟨h1, h2, h3, h4⟩ := readCore_used w a b (some path) content fuel h
      simp only []; rw [h1, h2, h3, h4]; simp

/-- …and, except for a file that cannot be opened (which leaves the old tree in place), the
whole configuration after the read is the same. -/
theorem C20_used_state_cfg (w : World) (a b : Config) (src : Source) (fuel : Nat) (h : SameSettings a b)
    (hopen : ∀ p, src = .file p → (w.open? p).isSome) :
    (read w a src fuel).cfg = (read w b src fuel).cfg := by
  cases src with
  | string s => exact (readCore_used w a b none (cstr s) fuel h).1
  | stream content => exact (readCore_used w a b none content fuel h).1
  | file path =>
    simp only [read]
    cases ho : w.open? path with
    | none => have := hopen path rfl; simp [ho] at this
    | some content => exact (readCore_used w a b (some path) content fuel h).1

/-- Non-vacuity: a configuration whose previous read failed (error state set) and a fresh
one have the same settings; the next read reports no error on both. -/
example : SameSettings (read {} Config.init (.string [61]) 50).cfg Config.init := by
  unfold SameSettings; decide
example : (read {} Config.init (.string [61]) 50).cfg.errType = ERR_PARSE := by decide
example : (read {} (read {} Config.init (.string [61]) 50).cfg (.string [97, 61, 49, 59]) 50).cfg.errType = ERR_NONE := by decide

end Libconfig.C20U
