import LibconfigModel.Read
import LibconfigModel.Proofs.C10
import LibconfigModel.Writer
/-
  C10 — @include is equivalent to textual inlining, with provenance and a depth limit.
  Statements only; helper lemmas live in LibconfigModel/Proofs/C10.lean.

  What is proved here are the laws of the *mechanism* (the `<INCLUDE>\"` and `<<EOF>>`
  actions of lib/scanner.l with lib/scanctx.c, as modelled in Scanner.lean), each as an
  exact one-step equation of `yylex` over an arbitrary file system, include function,
  scanner table and input: the depth limit, the three error exits and where they point,
  the order in which the files of a frame are consumed, LIFO frames, path resolution, the
  line counter per buffer, and the provenance recorded by the parser action.  The
  end-to-end statement "read with includes = read of the spliced text" was first written
  down here as `C10_spliceStatement`.  The attempt to prove it showed that it is FALSE as
  stated (`C10_spliceStatement_false` in Properties/C10Splice.lean: a last file without a
  final newline followed by more text on the directive's line glues two tokens together in
  the spliced text; a NUL inside a path).  The statement is kept for the record; the
  theorem that holds — under `IncludeTreeOK'`, which adds exactly what "cut at line
  boundaries" and "paths are C strings" mean — is `C10_splice` / `C10_tokens` in
  Properties/C10Splice.lean.  The direct oracle of tools/props_c1011.py (`read_file top`
  against `read_string <spliced text>` on generated include trees) decides the same
  statement on the implementation.

  Documented values appear as literals (10 levels, the two error texts, the `/`
  separator); the bridge lemmas tie them to the constants re-extracted from the source.
-/
namespace Libconfig.C10

open Libconfig.C10P

/-! ### bridges: documented literals = values extracted from /repo -/

theorem bridge_max_depth : Generated.MAX_INCLUDE_DEPTH = 10 := by decide
theorem bridge_too_deep : Generated.ERR_INCLUDE_TOO_DEEP = bytesOfString "include file nesting too deep" := by
  decide +kernel
theorem bridge_bad_include : Generated.ERR_BAD_INCLUDE = bytesOfString "cannot open include file" := by
  decide +kernel
theorem bridge_separator : Generated.FILE_SEPARATOR = [47] := by decide

/-- The include machinery of the compiled scanner is the catalogued one: the translator
re-reads the `case N:` bodies of lib/scanner.c on every run; the `@include` rule (start of a
line only) switches to the INCLUDE start condition, the closing quote there runs the
directive action, and the `<<EOF>>` action shared by all start conditions (next file of the
frame, else pop, else end of input) has the catalogued text.  An edited action makes this
false. -/
theorem C10_actions :
    Generated.scanActions.getD 22 .unknown = .begin Generated.SC_INCLUDE ∧
    Generated.scanActions.getD 27 .unknown = .includeDirective Generated.tokens.error ∧
    Generated.scanner.eofActionKnown = true := by decide

/-! ### the depth limit -/

/-- **Depth limit, refusing side.**  An include directive met with 10 frames on the stack
fails with "include file nesting too deep", located at the file and line of the directive;
nothing is opened and the stack is unchanged. -/
theorem C10_depth_limit (T : FlexTables) (acts : List ScanAct) (w : World) (ic : IncludeCfg) (fuel : Nat)
    (s : ScanState) (rule len errTok : Nat) (h : AtDirective T acts s rule len errTok)
    (hd : s.stack.length = 10) :
    yylex T acts w ic (fuel + 1) s =
      (consumed T s rule len,
       .includeError errTok (bytesOfString "include file nesting too deep")
         s.currentFilename (consumed T s rule len).buf.lineno) := by
  rw [yylex, h.1, ← bridge_too_deep]
  have hdp : (s.stack.length == Generated.MAX_INCLUDE_DEPTH) = true := by
    rw [hd, bridge_max_depth]; rfl
  simp only [h.2, hdp, ↓reduceIte, consumed]
  rfl

/-- **Depth limit, accepting side.**  With fewer than 10 frames, when the include function
returns a non-empty list whose first file can be opened, a frame holding that list is
pushed (the parent buffer is remembered), the file names are recorded, and scanning
continues in a fresh buffer on the file's content, in the INITIAL start condition. -/
theorem C10_push (T : FlexTables) (acts : List ScanAct) (w : World) (ic : IncludeCfg) (fuel : Nat)
    (s : ScanState) (rule len errTok : Nat) (h : AtDirective T acts s rule len errTok)
    (hd : s.stack.length < 10) (p : Bytes) (ps : List Bytes) (content : Bytes)
    (hfn : includeFnEval ic.fn ic.dir (cstr s.str) = (some (p :: ps), none))
    (hopen : w.open? p = some content) :
    yylex T acts w ic (fuel + 1) s =
      yylex T acts w ic fuel
        { consumed T s rule len with
          sc := Generated.SC_INITIAL
          buf := { rest := content }
          filenames := s.filenames ++ (p :: ps)
          stack := { files := p :: ps, cur := 0, parent := (consumed T s rule len).buf } :: s.stack
          events := s.events ++ [.fopen p true, .newBuf] } := by
  rw [yylex, h.1]
  have hne : (s.stack.length == Generated.MAX_INCLUDE_DEPTH) = false := by
    rw [bridge_max_depth]; exact beq_false_of_ne (Nat.ne_of_lt hd)
  simp only [h.2, hne, hfn, nextIncludeFile, hopen, List.getElem?_cons_zero, Bool.false_eq_true,
    ↓reduceIte, List.append_nil, List.append_assoc, List.cons_append, List.nil_append, consumed]
  rfl

/-! ### the error exits -/

/-- **Missing target (first file of a directive).**  The error is "cannot open include
file"; the frame is popped again, so the error names the *including* file and the line of
the directive. -/
theorem C10_missing_first (T : FlexTables) (acts : List ScanAct) (w : World) (ic : IncludeCfg) (fuel : Nat)
    (s : ScanState) (rule len errTok : Nat) (h : AtDirective T acts s rule len errTok)
    (hd : s.stack.length < 10) (p : Bytes) (ps : List Bytes)
    (hfn : includeFnEval ic.fn ic.dir (cstr s.str) = (some (p :: ps), none))
    (hopen : w.open? p = none) :
    yylex T acts w ic (fuel + 1) s =
      ({ consumed T s rule len with
          filenames := s.filenames ++ (p :: ps)
          events := s.events ++ [.fopen p false] },
       .includeError errTok (bytesOfString "cannot open include file")
         s.currentFilename (consumed T s rule len).buf.lineno) := by
  rw [yylex, h.1]
  have hne : (s.stack.length == Generated.MAX_INCLUDE_DEPTH) = false := by
    rw [bridge_max_depth]; exact beq_false_of_ne (Nat.ne_of_lt hd)
  rw [← bridge_bad_include]
  simp only [h.2, hne, hfn, nextIncludeFile, hopen, List.getElem?_cons_zero, Bool.false_eq_true,
    ↓reduceIte, List.append_nil, consumed]
  rfl

/-- **Include-function error.**  The function's message becomes the error text, located at
the directive. -/
theorem C10_fn_error (T : FlexTables) (acts : List ScanAct) (w : World) (ic : IncludeCfg) (fuel : Nat)
    (s : ScanState) (rule len errTok : Nat) (h : AtDirective T acts s rule len errTok)
    (hd : s.stack.length < 10) (files : Option (List Bytes)) (e : Bytes)
    (hfn : includeFnEval ic.fn ic.dir (cstr s.str) = (files, some e)) :
    yylex T acts w ic (fuel + 1) s =
      (consumed T s rule len,
       .includeError errTok e s.currentFilename (consumed T s rule len).buf.lineno) := by
  rw [yylex, h.1]
  have hne : (s.stack.length == Generated.MAX_INCLUDE_DEPTH) = false := by
    rw [bridge_max_depth]; exact beq_false_of_ne (Nat.ne_of_lt hd)
  simp only [h.2, hne, hfn, Bool.false_eq_true, ↓reduceIte, consumed]
  rfl

/-- **NULL without error, or an empty list: the directive is skipped** — nothing is
pushed, opened or recorded; scanning continues behind the directive. -/
theorem C10_empty_list (T : FlexTables) (acts : List ScanAct) (w : World) (ic : IncludeCfg) (fuel : Nat)
    (s : ScanState) (rule len errTok : Nat) (h : AtDirective T acts s rule len errTok)
    (hd : s.stack.length < 10)
    (hfn : includeFnEval ic.fn ic.dir (cstr s.str) = (none, none) ∨
           includeFnEval ic.fn ic.dir (cstr s.str) = (some [], none)) :
    yylex T acts w ic (fuel + 1) s =
      yylex T acts w ic fuel { consumed T s rule len with sc := Generated.SC_INITIAL } := by
  rw [yylex, h.1]
  have hne : (s.stack.length == Generated.MAX_INCLUDE_DEPTH) = false := by
    rw [bridge_max_depth]; exact beq_false_of_ne (Nat.ne_of_lt hd)
  rcases hfn with hfn | hfn <;>
  · simp only [h.2, hne, hfn, Bool.false_eq_true, ↓reduceIte, consumed]
    rfl

/-! ### order of the files of a frame; frames are LIFO; one line counter per buffer -/

/-- `libconfig_scanctx_next_include_file`: the first call on a frame selects file 0, every
later call moves from file `cur` to file `cur + 1`; the content handed to the scanner is
that file's. -/
theorem C10_order (w : World) (s : ScanState) (first : Bool) (f : Frame) (fs : List Frame)
    (hst : s.stack = f :: fs) :
    (nextIncludeFile w s first).1.stack = { f with cur := if first then 0 else f.cur + 1 } :: fs ∧
    (nextIncludeFile w s first).2.1 =
      (f.files[if first then 0 else f.cur + 1]?).bind w.open? := by
  unfold nextIncludeFile
  rw [hst]
  simp only
  cases hf : f.files[if first then 0 else f.cur + 1]? with
  | none => exact ⟨rfl, rfl⟩
  | some p =>
    simp only [Option.bind_some]
    cases hw : w.open? p <;> exact ⟨rfl, rfl⟩

/-- **End of an included file, more files in the frame**: the next file of the list, in
list order, is scanned in a fresh buffer (line 1, beginning of line); the finished file is
closed and its buffer deleted. -/
theorem C10_next_file (T : FlexTables) (acts : List ScanAct) (w : World) (ic : IncludeCfg) (fuel : Nat)
    (s : ScanState) (f : Frame) (fs : List Frame) (p q content : Bytes)
    (heof : Flex.next T s.sc s.buf.bol s.buf.rest = none) (hst : s.stack = f :: fs)
    (hcur : f.files[f.cur]? = some p) (hnext : f.files[f.cur + 1]? = some q)
    (hopen : w.open? q = some content) :
    yylex T acts w ic (fuel + 1) s =
      yylex T acts w ic fuel
        { s with
          buf := { rest := content }
          stack := { f with cur := f.cur + 1 } :: fs
          events := s.events ++ [.fclose p, .fopen q true, .delBuf, .newBuf] } := by
  rw [yylex, heof]
  simp only [hst, nextIncludeFile, hcur, hnext, hopen, Bool.false_eq_true, ↓reduceIte,
    List.append_assoc, List.cons_append, List.nil_append]

/-- **End of the last file of a frame: frames are LIFO and the parent's line counter is
restored** — the innermost frame is popped and scanning resumes in the parent buffer
exactly as it was left behind the directive (rest of the input, line number, BOL flag). -/
theorem C10_pop (T : FlexTables) (acts : List ScanAct) (w : World) (ic : IncludeCfg) (fuel : Nat)
    (s : ScanState) (f : Frame) (fs : List Frame) (p : Bytes)
    (heof : Flex.next T s.sc s.buf.bol s.buf.rest = none) (hst : s.stack = f :: fs)
    (hcur : f.files[f.cur]? = some p) (hnext : f.files[f.cur + 1]? = none) :
    yylex T acts w ic (fuel + 1) s =
      yylex T acts w ic fuel
        { s with buf := f.parent, stack := fs, events := s.events ++ [.fclose p, .delBuf] } := by
  rw [yylex, heof]
  simp only [hst, nextIncludeFile, hcur, hnext, Bool.false_eq_true, ↓reduceIte,
    List.append_assoc, List.cons_append, List.nil_append]

/-- **Missing target (a later file of a multi-path directive) — the recorded deviation
`C10:missing-non-first-file-location`.**  The error text is the documented one, but the
frame stays, so the file reported is the unopenable file itself and the line is the line
counter of the buffer that has just ended (the previous file's line count), not the
position of the directive. -/
theorem C10_missing_later (T : FlexTables) (acts : List ScanAct) (w : World) (ic : IncludeCfg) (fuel : Nat)
    (s : ScanState) (f : Frame) (fs : List Frame) (p q : Bytes)
    (heof : Flex.next T s.sc s.buf.bol s.buf.rest = none) (hst : s.stack = f :: fs)
    (hcur : f.files[f.cur]? = some p) (hnext : f.files[f.cur + 1]? = some q)
    (hopen : w.open? q = none) :
    yylex T acts w ic (fuel + 1) s =
      ({ s with
          stack := { f with cur := f.cur + 1 } :: fs
          events := s.events ++ [.fclose p, .fopen q false] },
       .includeError Generated.tokens.error (bytesOfString "cannot open include file")
         (some q) s.buf.lineno) := by
  rw [yylex, heof, ← bridge_bad_include]
  simp only [hst, nextIncludeFile, hcur, hnext, hopen, Bool.false_eq_true, ↓reduceIte,
    List.append_assoc, List.cons_append, List.nil_append, ScanState.currentFilename]

/-- **One line counter per buffer**: the buffer a frame is pushed with starts at line 1 at
the beginning of a line, whatever the line of the directive … -/
theorem C10_lineno_per_buffer (content : Bytes) :
    ({ rest := content } : Buf).lineno = 1 ∧ ({ rest := content } : Buf).bol = true := ⟨rfl, rfl⟩

/-- … and the directive itself (matched text without a newline, as the closing quote is)
does not advance the line counter that is saved in the frame and restored by `C10_pop`. -/
theorem C10_directive_line (T : FlexTables) (s : ScanState) (rule len : Nat)
    (h : countNl (s.buf.rest.take len) = 0) :
    (consumed T s rule len).buf.lineno = s.buf.lineno ∧
    (consumed T s rule len).currentFilename = s.currentFilename :=
  ⟨consumed_lineno T s rule len h, rfl⟩

/-! ### path resolution of the default include function -/

/-- relative path and an include directory: `dir/path`; absolute path (leading `/`) or no
include directory: the path as written.  Always exactly one file. -/
theorem C10_paths (dir : Option Bytes) (path : Bytes) :
    includeFnEval 0 dir path =
      (some [match dir with
             | some d => if path.head? = some 47 then path else d ++ [47] ++ path
             | none => path], none) := by
  unfold includeFnEval
  simp only [beq_self_eq_true, ↓reduceIte, bridge_separator]
  cases dir with
  | none => rfl
  | some d =>
    by_cases hp : path.head? = some 47 <;> simp [hp]

theorem C10_paths_relative (d path : Bytes) (h : path.head? ≠ some 47) :
    includeFnEval 0 (some d) path = (some [d ++ [47] ++ path], none) := by
  rw [C10_paths]; simp [h]

theorem C10_paths_absolute (dir : Option Bytes) (path : Bytes) (h : path.head? = some 47) :
    includeFnEval 0 dir path = (some [path], none) := by
  rw [C10_paths]; cases dir <;> simp [h]

theorem C10_paths_no_dir (path : Bytes) : includeFnEval 0 none path = (some [path], none) := by
  rw [C10_paths]

/-! ### provenance -/

/-- **Provenance.**  The action run when a setting's name has been read creates the setting
and records on it the line and file it is given — and the parser loop (`yyparseLoop`,
`reduce`) gives it `s.buf.lineno` and `s.currentFilename`, the scanner's current buffer
line and the current file of the innermost frame (or the top file). -/
theorem C10_provenance_step (ctx ctx' : ParseCtx) (v : TokVal) (line : Nat) (file : Option Bytes)
    (h : runAction .settingName ctx v line file = .ok ctx') :
    ∃ sp n, ctx'.setting = some sp ∧ ctx'.cfg.root.get? sp = some n ∧ n.line = line ∧ n.file = file := by
  simp only [runAction] at h
  split at h
  · rename_i pp pn hpp hpn
    split at h
    · rename_i pn' i log hadd
      cases h
      obtain ⟨k, hk⟩ := add_last hadd
      have hroot : ctx.cfg.root.get? pp = some pn := by
        simpa [ParseCtx.nodeAt, hpp] using hpn
      refine ⟨pp ++ [i], { k with line := line, file := file }, rfl, ?_, rfl, rfl⟩
      simp only [ParseCtx.capture, ParseCtx.modify]
      rw [C05P.get?_modify_self, C04.get?_append, C05P.get?_modify_self, hroot]
      simp [C04.get?_cons, C04.get?_nil, hk]
    · cases h
  · cases h

/-- what the parser hands to the actions: the current file is the current entry of the
innermost frame, or the top file outside any include -/
theorem C10_current_file (s : ScanState) :
    s.currentFilename = (match s.stack with
      | f :: _ => f.files[f.cur]?
      | [] => s.topFile) := rfl

/-! ### the end-to-end statement (decided dynamically, not proved) -/

mutual
/-- a tree without source positions -/
def stripPos : Node → Node
  | .mk name ty fmt ival fval sval kids hook _ _ => .mk name ty fmt ival fval sval (stripPosList kids) hook 0 none
def stripPosList : List Node → List Node
  | [] => []
  | k :: ks => stripPos k :: stripPosList ks
end

def skipBlanks (l : Bytes) : Bytes := l.dropWhile fun c => c == 32 || c == 9

/-- A directive line as the documented pattern `^[ \t]*@include[ \t]+"path"` sees it (paths
without backslash escapes): the path and the rest of the line behind the closing quote. -/
def directive? (line : Bytes) : Option (Bytes × Bytes) :=
  let l := skipBlanks line
  if (bytesOfString "@include").isPrefixOf l then
    let r := l.drop 8
    let r' := skipBlanks r
    if r'.length < r.length then
      match r' with
      | 34 :: q =>
        let path := q.takeWhile fun c => c != 34 && c != 92
        match q.drop path.length with
        | 34 :: rest => some (path, rest)
        | _ => none
      | _ => none
    else none
  else none

/-- Textual inlining: every directive line is replaced — from the start of the line to the
closing quote — by the contents of the files the include function names, in order, each
spliced in turn; `fuel` bounds the nesting. -/
def splice (w : World) (ic : IncludeCfg) : Nat → Bytes → Bytes
  | 0, text => text
  | fuel + 1, text =>
    [10].intercalate ((text.splitOn 10).map fun line =>
      match directive? line with
      | some (path, rest) =>
        match includeFnEval ic.fn ic.dir path with
        | (some files, none) => (files.flatMap fun p => splice w ic fuel ((w.open? p).getD [])) ++ rest
        | _ => rest
      | none => line)

/-- no line of the text is a directive any more -/
def noDirective (text : Bytes) : Bool := (text.splitOn 10).all fun line => (directive? line).isNone

/-- Lines on which text-level recognition of directives and the scanner's agree: no string
and no block comment is open across a line end (no `"` outside directives, no `/*`). -/
def hasInfix (a b : Bytes) : Bool := (List.range (b.length + 1)).any fun i => a.isPrefixOf (b.drop i)

def plainLine (line : Bytes) : Bool :=
  match directive? line with
  | some (_, rest) => !rest.contains 34 && !hasInfix (bytesOfString "/*") rest
  | none => !line.contains 34 && !hasInfix (bytesOfString "/*") line

/-- The include tree below `text` is well-formed down to `depth` levels: the include
function reports no error, every named file exists, every file consists of plain lines,
and every file of a multi-path directive except the last is empty or newline-terminated. -/
def IncludeTreeOK (w : World) (ic : IncludeCfg) : Nat → Bytes → Prop
  | 0, text => (text.splitOn 10).all plainLine = true ∧ noDirective text = true
  | depth + 1, text =>
    (text.splitOn 10).all plainLine = true ∧
    ∀ line ∈ text.splitOn 10, ∀ path rest, directive? line = some (path, rest) →
      ∃ files, includeFnEval ic.fn ic.dir path = (some files, none) ∧
        (∀ p ∈ files, ∃ content, w.open? p = some content ∧ IncludeTreeOK w ic depth content) ∧
        (∀ p ∈ files.dropLast, ∀ content, w.open? p = some content →
          content = [] ∨ content.getLast? = some 10)

/-- **@include = textual inlining** (first formulation — refuted, see the header and
Properties/C10Splice.lean; decided dynamically by the direct
oracle of `tools/props_c1011.py`, which compares `config_read_file(top)` with
`config_read_string(spliced text)` on generated include trees — cut at line boundaries,
fan-out 0–5, depth 0–12, more than 32 files, empty files, files without trailing newline,
files ending inside a group opened by the parent, with and without include directory,
default and custom include functions).

For an include tree of at most 10 levels (`IncludeTreeOK`), reading the top file and
reading the spliced text give the same outcome and the same configuration up to the
recorded source positions. -/
def C10_spliceStatement : Prop :=
  ∀ (w : World) (c : Config) (top content : Bytes) (fuel : Nat),
    w.open? top = some content →
    (∀ b ∈ splice w { fn := c.includeFn, dir := c.includeDir } 11 content, b ≠ 0) →
    IncludeTreeOK w { fn := c.includeFn, dir := c.includeDir } 10 content →
    let a := read w c (.file top) fuel
    let b := read w c (.string (splice w { fn := c.includeFn, dir := c.includeDir } 11 content)) fuel
    a.result ≠ .outOfFuel → b.result ≠ .outOfFuel →
    a.ok = b.ok ∧ stripPos a.cfg.root = stripPos b.cfg.root

/-! ### non-vacuity: the laws on a concrete three-file tree, evaluated by the kernel -/

private def wEx : World :=
  { files := [(bytesOfString "t", some (bytesOfString "a = 1;\n@include \"i\"\nc = 3;\n")),
              (bytesOfString "d/i", some (bytesOfString "b = 2;\n  @include \"/j\"\n")),
              (bytesOfString "/j", some (bytesOfString "g = { x = 1; };"))] }

private def cEx : Config := { Config.init with includeDir := some (bytesOfString "d") }

/-- the hypotheses of the one-step theorems are met by the translated tables: on a closing
quote in the INCLUDE start condition the next match is the directive action -/
example : ∃ rule errTok, AtDirective Generated.scanner Generated.scanActions
    { sc := Generated.SC_INCLUDE, buf := { rest := bytesOfString "\"\nx" }, str := bytesOfString "f" }
    rule 1 errTok := ⟨27, 277, by unfold AtDirective; decide +kernel⟩

/-- reading the tree = reading the spliced text (same written form), and the provenance of
each setting is the file and line it was written in -/
example :
    let a := read wEx cEx (.file (bytesOfString "t")) 10000
    let spl := splice wEx { fn := 0, dir := some (bytesOfString "d") } 11
      (bytesOfString "a = 1;\n@include \"i\"\nc = 3;\n")
    let b := read wEx cEx (.string spl) 10000
    spl = bytesOfString "a = 1;\nb = 2;\ng = { x = 1; };\n\nc = 3;\n" ∧
    a.ok = true ∧ b.ok = true ∧
    a.cfg.write Generated.FLOAT_BUF_SIZE = b.cfg.write Generated.FLOAT_BUF_SIZE ∧
    a.cfg.root.kids.map (fun k => (k.name, k.line, k.file)) =
      [(some (bytesOfString "a"), 1, some (bytesOfString "t")),
       (some (bytesOfString "b"), 1, some (bytesOfString "d/i")),
       (some (bytesOfString "g"), 1, some (bytesOfString "/j")),
       (some (bytesOfString "c"), 3, some (bytesOfString "t"))] := by
  decide +kernel

end Libconfig.C10
