import LibconfigModel.Locale
/-
  C15 — reading and writing are locale-independent and leave the caller's locale intact.
-/
namespace Libconfig.C15

/-- Inside a read or write the radix character in effect is `.`, whatever the process-wide
and thread locales are. -/
theorem C15_inside (l : LocaleState) : (localeOverride l).1.effective = 46 := rfl

/-- After the call the process-wide locale and the calling thread's own locale are what
they were before. -/
theorem C15_restore (l : LocaleState) :
    localeRestore (localeOverride l).1 (localeOverride l).2 = l := by
  cases l; rfl

/-- The override never touches the process-wide locale (other threads are unaffected). -/
theorem C15_global_untouched (l : LocaleState) :
    (localeOverride l).1.globalRadix = l.globalRadix ∧
    (localeRestore (localeOverride l).1 (localeOverride l).2).globalRadix = l.globalRadix := ⟨rfl, rfl⟩

/-- Results do not depend on the locale: a computation run between override and restore
sees radix `.` and the locale state comes back unchanged — for any two locale set-ups the
results are equal. -/
theorem C15_results {α : Type} (l : LocaleState) (f : Nat → α) : withCLocale l f = (f 46, l) := by
  cases l; rfl

theorem C15_independent {α : Type} (l₁ l₂ : LocaleState) (f : Nat → α) :
    (withCLocale l₁ f).1 = (withCLocale l₂ f).1 := by
  rw [C15_results, C15_results]

/-- with radix `.` the text `printf` produces is the C-locale text -/
theorem C15_radix_dot (text : Bytes) : applyRadix 46 text = text := by
  unfold applyRadix; induction text with
  | nil => rfl
  | cons c cs ih => simp only [List.map_cons, ih]; split <;> simp_all

/-- Non-vacuity: a comma thread locale over a comma global locale; outside the call the
radix is `,`, inside it is `.`, afterwards `,` again.  Restoring to LC_GLOBAL_LOCALE
instead of the saved locale (the defect repaired in /repo) would lose the thread locale. -/
example : ({ globalRadix := 44, thread := some 44 } : LocaleState).effective = 44 := rfl
example : (withCLocale { globalRadix := 46, thread := some 44 } (fun r => r)) = (46, { globalRadix := 46, thread := some 44 }) := rfl
example : localeRestore (localeOverride { globalRadix := 46, thread := some 44 }).1 none ≠ { globalRadix := 46, thread := some 44 } := by decide

end Libconfig.C15
