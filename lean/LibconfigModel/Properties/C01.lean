import LibconfigModel.Step
namespace Libconfig.C01
end Libconfig.C01
