import LibconfigModel.StringSpec
import LibconfigModel.Scanner
import LibconfigModel.Properties.C08
import LibconfigModel.Proofs.C01
/-
  C01 — written configurations read back as the same configuration: the per-lexeme
  round-trip theorems (every rendering the writer produces for a scalar is read back by the
  rule action of the scanner as the same value).  Statements only; helper lemmas live in
  LibconfigModel/Proofs/C01.lean.  The composition through the compiled scanner and parser
  (token boundaries, grammar) is decided by the write → read → compare oracle of the check.
-/
namespace Libconfig.C01

/-! ### integers: every 32/64-bit value, decimal and hexadecimal rendering -/

/-- `%d` of an int is read back by the `{integer}` rule as the same int -/
theorem C01_int_dec (t32 t64 e : Nat) (v : Int) (h : fits32 v = true) :
    numericTok (.tokInteger t32 t64 e) (intToDec v) = (t32, { ival := v }) := by
  rw [C01P.intToDec_eq, C08.C08_integer t32 t64 e _ _ (C01P.natToDec_ne_nil _) (C01P.natToDec_digits _),
    C01P.literalValue_intToDec]
  simp only [h, if_true]

/-- `%lldL` of a 64-bit int is read back by the `{integer64}` rule as the same value -/
theorem C01_int64_dec (t e : Nat) (v : Int) (h : fits64 v = true) :
    numericTok (.tokInteger64 t e) (intToDec v ++ [76]) = (t, { ival := v }) := by
  rw [C01P.intToDec_eq]
  have hk := C08.C08_integer64 t e (C01P.sgOf v) (natToDec v.natAbs) 1 (Nat.le_refl 1)
    (C01P.natToDec_ne_nil _) (C01P.natToDec_digits _)
  rw [show C08.sufBytes 1 = [76] from rfl] at hk
  rw [hk, C01P.literalValue_intToDec]
  simp only [h, if_true]

/-- `0x%X` of an int (its unsigned 32-bit pattern) is read back by the `{hex}` rule as the same int -/
theorem C01_int_hex (t e : Nat) (v : Int) (h : fits32 v = true) :
    numericTok (.tokHex t e) ([48, 120] ++ hexOfInt 32 v) = (t, { ival := v }) := by
  unfold hexOfInt
  rw [C01P.pow32, C08.C08_hex t e 120 (.inl rfl) _ (C01P.natToHex_ne_nil _) (C01P.natToHex_digits _),
    C01P.digitsVal_natToHex, if_pos (C01P.hex32_lt v), C01P.wrap32_hex v h]

/-- `0x%llXL` is read back by the `{hex64}` rule as the same value -/
theorem C01_int64_hex (t e : Nat) (v : Int) (h : fits64 v = true) :
    numericTok (.tokHex64 t e) ([48, 120] ++ hexOfInt 64 v ++ [76]) = (t, { ival := v }) := by
  unfold hexOfInt
  have hk := C08.C08_hex64 t e 120 (.inl rfl) (natToHexUpper (v % 18446744073709551616).toNat) 1
    (Nat.le_refl 1) (C01P.natToHex_ne_nil _) (C01P.natToHex_digits _)
  rw [show C08.sufBytes 1 = [76] from rfl] at hk
  rw [C01P.pow64, hk, C01P.digitsVal_natToHex, if_pos (C01P.hex64_lt v), C01P.wrap64_hex v h]

/-- what the writer prints for integers is exactly those renderings -/
theorem C01_writer_int (bufLen : Nat) (c : Config) (n : Node) (h : n.ty = T_INT) :
    writeScalar bufLen c n =
      if effFormat c n = FMT_HEX then [48, 120] ++ hexOfInt 32 n.ival else intToDec n.ival := by
  simp [writeScalar, h, T_BOOL, T_INT, FMT_HEX]

theorem C01_writer_int64 (bufLen : Nat) (c : Config) (n : Node) (h : n.ty = T_INT64) :
    writeScalar bufLen c n =
      if effFormat c n = FMT_HEX then [48, 120] ++ hexOfInt 64 n.ival ++ [76] else intToDec n.ival ++ [76] := by
  simp [writeScalar, h, T_BOOL, T_INT, T_INT64, FMT_HEX]

/-! ### strings: escaping is inverted by the documented reading of a literal, byte for byte -/

/-- For every NUL-free byte string `s` (bytes 1..255) the escaped text followed by the closing
quote denotes exactly `s`, and reading stops right after the quote — whatever follows. -/
theorem C01_string (s rest : Bytes) (hs : ∀ b ∈ s, 1 ≤ b ∧ b < 256) :
    unescape ((escapeString s).length + 1) [] (escapeString s ++ [34] ++ rest) = some (s, rest) := by
  have _ := hs
  rw [C01P.unescape_escape s _ [] rest (Nat.le_refl _), List.nil_append]

/-- the writer prints a string setting as quote, escaped bytes, quote (NULL as the empty string) -/
theorem C01_writer_string (bufLen : Nat) (c : Config) (n : Node) (h : n.ty = T_STRING) :
    writeScalar bufLen c n = [34] ++ escapeString (n.sval.getD []) ++ [34] := by
  simp [writeScalar, h, T_BOOL, T_INT, T_INT64, T_FLOAT, T_STRING]

/-! ### booleans -/
theorem C01_writer_bool (bufLen : Nat) (c : Config) (n : Node) (h : n.ty = T_BOOL) :
    writeScalar bufLen c n = if n.ival != 0 then [116, 114, 117, 101] else [102, 97, 108, 115, 101] := by
  simp [writeScalar, h, T_BOOL, C01P.bytes_true, C01P.bytes_false]

/-! ### floats: the text written is a float literal whose value is read back -/

/-- characters of a float rendering: digits, sign, point, exponent marker -/
def floatChar (c : Nat) : Bool := isDigit c || c == 45 || c == 43 || c == 46 || c == 101

/-- For a finite double and a precision within the documented range, the written text consists
of float-literal characters only and contains a decimal point or an exponent (so the scanner
reads it as a float, never as an integer). -/
theorem C01_float_shape (b : Nat) (prec : Nat) (sci : Bool) (hb : F64.isFinite b = true) (hb64 : b < 2 ^ 64)
    (hp : prec ≤ 15) :
    (∀ ch ∈ formatDouble 341 b prec sci, floatChar ch = true) ∧
    ((formatDouble 341 b prec sci).contains 46 = true ∨ (formatDouble 341 b prec sci).contains 101 = true) := by
  have _ := hb64; have _ := hp
  exact C01P.formatDouble_shape 341 b prec sci hb

/-- and the `{float}` rule stores exactly the correctly rounded value of that text -/
theorem C01_float_readback (t e : Nat) (w : Bytes) (h : F64.isInf (F64.strtod w) = false) :
    numericTok (.tokFloat t e) w = (t, { fval := F64.strtod w }) := by
  rw [C08.C08_float, h]; rfl

/-! Non-vacuity -/
example : unescape 100 [] (escapeString [97, 34, 92, 10, 7, 200] ++ [34, 59]) = some ([97, 34, 92, 10, 7, 200], [59]) := by decide
example : numericTok (.tokHex 260 277) ([48, 120] ++ hexOfInt 32 (-1)) = (260, { ival := -1 }) := by decide

end Libconfig.C01
