import LibconfigModel.Generated.Constants
import LibconfigModel.WriteFile
/-
  C12 — config_write_file never reports success for an incomplete file.
  For every configuration and every outcome of the I/O steps (an arbitrary oracle).
-/
namespace Libconfig.C12

/-- every I/O step the call performs succeeded -/
def allOk (c : Config) (io : IOFaults) : Bool :=
  io.openOk && io.writeOk && (!c.opt OPT_FSYNC || io.fsyncOk) && io.closeOk

/-- Success is reported exactly when opening, every write including the final flush, the
requested fsync and the close all succeeded. -/
theorem C12_iff (bufLen : Nat) (c : Config) (io : IOFaults) :
    (writeFile bufLen c io).ret = allOk c io := by
  unfold writeFile allOk
  cases io.openOk <;> cases io.writeOk <;> cases io.fsyncOk <;> cases io.closeOk <;>
    cases c.opt OPT_FSYNC <;> simp

/-- Reported success implies a complete file: its content is exactly what `config_write`
produces for the same configuration. -/
theorem C12_success_complete (bufLen : Nat) (c : Config) (io : IOFaults)
    (h : (writeFile bufLen c io).ret = true) :
    io.openOk = true ∧ io.writeOk = true ∧ (c.opt OPT_FSYNC = true → io.fsyncOk = true) ∧
    io.closeOk = true ∧ (writeFile bufLen c io).fileBytes = some (c.write bufLen) := by
  unfold writeFile at h ⊢
  cases h1 : io.openOk <;> cases h2 : io.writeOk <;> cases h3 : io.fsyncOk <;> cases h4 : io.closeOk <;>
    cases h5 : c.opt OPT_FSYNC <;> simp_all

/-- Any failing step is reported as an I/O failure. -/
theorem C12_failure_reported (bufLen : Nat) (c : Config) (io : IOFaults) (h : allOk c io = false) :
    (writeFile bufLen c io).ret = false ∧ (writeFile bufLen c io).cfg.errType = ERR_FILE_IO ∧
    (writeFile bufLen c io).fileBytes = none := by
  unfold allOk at h; unfold writeFile Config.setError
  cases h1 : io.openOk <;> cases h2 : io.writeOk <;> cases h3 : io.fsyncOk <;> cases h4 : io.closeOk <;>
    cases h5 : c.opt OPT_FSYNC <;> simp_all

/-- The buffered data is flushed before the fsync, and the stream is closed last: on
every path that opened the file, `fclose` is the final call; when fsync is requested and
reached, `fflush` precedes it. -/
theorem C12_call_order (bufLen : Nat) (c : Config) (io : IOFaults) (h : io.openOk = true) :
    (writeFile bufLen c io).calls.getLast? = some .fclose ∧
    (IOCall.fsync ∈ (writeFile bufLen c io).calls →
      (writeFile bufLen c io).calls.take 3 = [.fopen, .write, .fflush]) := by
  unfold writeFile
  cases h2 : io.writeOk <;> cases h3 : io.fsyncOk <;> cases h4 : io.closeOk <;>
    cases h5 : c.opt OPT_FSYNC <;> simp_all

/-- the settings are never modified by writing -/
theorem C12_settings_untouched (bufLen : Nat) (c : Config) (io : IOFaults) :
    (writeFile bufLen c io).cfg.root = c.root := writeFile_root bufLen c io

/-! Non-vacuity: a failing flush with everything else fine is reported -/
example : (writeFile 341 Config.init { writeOk := false }).ret = false := by decide
example : (writeFile 341 Config.init {}).ret = true := by decide

/-- Bridge: the fsync option bit and the I/O error type -/
theorem C12_constants :
    Generated.CONFIG_OPTION_FSYNC = OPT_FSYNC ∧ Generated.CONFIG_ERR_FILE_IO = ERR_FILE_IO ∧ Generated.CONFIG_ERR_NONE = ERR_NONE := by decide

end Libconfig.C12
