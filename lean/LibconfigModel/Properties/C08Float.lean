import LibconfigModel.Properties.C08
import LibconfigModel.Proofs.F64Round
/-
  C08 (continued) — "a float literal is stored as the correctly rounded double": the
  decimal-to-binary conversion of the model (`F64.ofRat`, used by `F64.strtod`) is correctly
  rounded (round to nearest, ties to even), for every positive rational.  Statements only;
  helper lemmas live in LibconfigModel/Proofs/F64Round.lean.
  (glibc's strtod is compared with this function on every run; this theorem is what makes the
  comparison meaningful: the reference itself is proved correct.)
-/
namespace Libconfig.F64

/-- the magnitude of a finite double scaled by 2^1074 (an exact natural number) -/
def scaledMag (b : Nat) : Nat := mant b * 2 ^ (expo b + 1074).toNat

/-- distance (times `den`, times 2^1074) between the rational `num/den` and the magnitude of `b` -/
def err (num den b : Nat) : Nat := Int.natAbs ((num * 2 ^ 1074 : Int) - (scaledMag b * den : Int))

/-- the rounding threshold to infinity: (2 − 2^-53)·2^1023, scaled by 2^1074 -/
def overflowThreshold : Nat := (2 ^ 54 - 1) * 2 ^ (1074 + 970)

/-- `ofRat` is round-to-nearest-even: the result has the requested sign; when it is finite no
other finite double is closer to `num/den`, and a tie is resolved towards the even mantissa;
it is infinite exactly when `num/den` is at or above the overflow threshold. -/
theorem ofRat_nearest (neg : Bool) (num den : Nat) (hn : num > 0) (hd : den > 0) :
    let b := ofRat neg num den
    signBit b = neg ∧ isNaN b = false ∧
    (isFinite b = true →
      ∀ b', b' < 2 ^ 63 → isFinite b' = true →
        err num den b ≤ err num den b' ∧
        (err num den b = err num den b' → scaledMag b' ≠ scaledMag b → mant b % 2 = 0)) ∧
    (isInf b = true ↔ num * 2 ^ 1074 ≥ overflowThreshold * den) := by
  intro b
  obtain ⟨h1, h2, h3, h4⟩ := Libconfig.F64R.ofRat_nearest_R neg num den hn hd
  exact ⟨h1, h2, fun hf b' _ _ => h3 hf b', h4⟩

end Libconfig.F64
