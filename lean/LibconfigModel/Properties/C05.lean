import LibconfigModel.WF
namespace Libconfig.C05
end Libconfig.C05
