import LibconfigModel.Generated.Constants
import LibconfigModel.TreeSpec
import LibconfigModel.WF
import LibconfigModel.Step
import LibconfigModel.Proofs.C05
/-
  C05 — API operations behave as an ordered tree: append, exact removal, no side effects.
  Statements only; helper lemmas live in LibconfigModel/Proofs/C05.lean.
-/
namespace Libconfig.C05

/-! ### refinement of the two operations whose mechanism differs from their meaning -/

/-- `config_setting_remove` (lookup by path, then a second search by the last path
component in the target's parent) deletes exactly the setting the path addresses. -/
theorem C05_remove_refines (dtor : Bool) (parent : Node) (h : parent.WF) (name : Option Bytes) :
    parent.remove dtor name = Spec.remove dtor parent name :=
  C05P.remove_refines dtor parent h name

/-- `config_setting_add` appends at the end, replacing an existing member only when
overrides are enabled. -/
theorem C05_add_refines (dtor overrides : Bool) (parent : Node) (h : parent.WF)
    (name : Option Bytes) (ty : Int) :
    parent.add dtor overrides name ty = Spec.add dtor overrides parent name ty := by
  have _ := h  -- well-formedness is not needed for this direction
  exact C05P.add_refines dtor overrides parent name ty

/-- `config_setting_remove_elem` deletes exactly the addressed child and keeps the order
of the others. -/
theorem C05_removeElem_spec (dtor : Bool) (parent : Node) (idx : Nat) :
    parent.removeElem dtor idx =
      if parent.isAggregate then
        (parent.kids[idx]?).map fun victim =>
          ({ parent with kids := parent.kids.eraseIdx idx }, destroyLog dtor victim)
      else none :=
  C05P.removeElem_spec dtor parent idx

/-! ### failure atomicity -/

/-- an addition, removal or assignment reported failure -/
def failed : Res → Bool
  | .flag false => true
  | .ptr none => true
  | .badOp => true
  | _ => false

def isRead : Op → Bool
  | .read _ => true
  | .writeFile _ => true     -- file I/O: a failing write records the I/O error
  | _ => false

/-- Every operation other than the file-I/O calls (reads, and `config_write_file`, whose
failure is recorded in the error fields) that reports failure leaves the whole state
(configuration and file system) unchanged. -/
theorem C05_failure_atomic (s : State) (op : Op) (hop : isRead op = false)
    (hf : failed (step s op).2.res = true) : (step s op).1 = s :=
  C05P.failure_atomic s op hop hf

/-! ### assignments change only the addressed setting -/

/-- the value-assigning operations on the setting at `p` -/
def assignsAt (op : Op) (p : Path) : Bool :=
  match op with
  | .setInt q _ | .setInt64 q _ | .setFloat q _ | .setBool q _ | .setString q _
  | .setFormat q _ | .setHook q _ => q == p
  | _ => false

/-- An assignment to the setting at `p` leaves every setting that is neither `p` itself,
nor an ancestor, nor a descendant of `p` exactly as it was … -/
theorem C05_frame_disjoint (s : State) (op : Op) (p q : Path) (m : Node) (ha : assignsAt op p = true)
    (hq : s.cfg.root.get? q = some m) (h1 : ¬ p <+: q) (h2 : ¬ q <+: p) :
    (step s op).1.cfg.root.get? q = some m :=
  C05P.frame_disjoint s _ p q m (C05P.step_assign s op p ha) hq h1 h2

/-- … keeps the name, the children and the position of the addressed setting itself, and
changes nothing else in the configuration object. -/
theorem C05_frame_self (s : State) (op : Op) (p : Path) (n : Node) (ha : assignsAt op p = true)
    (hn : s.cfg.root.get? p = some n) :
    ∃ n', (step s op).1.cfg.root.get? p = some n' ∧ n'.name = n.name ∧ n'.kids = n.kids ∧
      (step s op).1.cfg = { s.cfg with root := (step s op).1.cfg.root } ∧
      (step s op).1.world = s.world :=
  C05P.frame_self s _ p n (C05P.step_assign s op p ha) hn

/-- ancestors keep all their own attributes and the number of their children -/
theorem C05_frame_ancestor (s : State) (op : Op) (p q : Path) (m : Node) (ha : assignsAt op p = true)
    (hq : s.cfg.root.get? q = some m) (h : q <+: p) (hne : q ≠ p) :
    ∃ m', (step s op).1.cfg.root.get? q = some m' ∧ m'.name = m.name ∧ m'.ty = m.ty ∧ m'.fmt = m.fmt ∧
      m'.ival = m.ival ∧ m'.fval = m.fval ∧ m'.sval = m.sval ∧ m'.hook = m.hook ∧
      m'.kids.length = m.kids.length :=
  C05P.frame_ancestor s _ p q m (C05P.step_assign s op p ha) hq h hne

/-! ### clearing and re-reading preserve the configuration's attributes -/

/-- options, include directory, tab width, precision, default format, hooks -/
def attrs (c : Config) : Nat × Option Bytes × Nat × Nat × Nat × Nat × Bool × Nat :=
  (c.options, c.includeDir, c.tabWidth, c.floatPrecision, c.defaultFormat, c.hook, c.destructor, c.includeFn)

theorem C05_clear_preserves (s : State) : attrs (step s .clear).1.cfg = attrs s.cfg := rfl

theorem C05_read_preserves (s : State) (src : Source) : attrs (step s (.read src)).1.cfg = attrs s.cfg :=
  C05P.read_attrs s.world s.cfg src readFuel

/-! ### documented argument conventions -/

/-- a NULL include directory resets it -/
theorem C05_include_dir_null (s : State) : (step s (.setIncludeDir none)).1.cfg.includeDir = none := rfl

/-- over-large tab widths act as 15 -/
theorem C05_tab_width (s : State) (w : Nat) : (step s (.setTabWidth w)).1.cfg.tabWidth = min w 15 := by
  show (if w ≤ 15 then w else 15) = min w 15
  split <;> omega

/-- a negative element index appends: on success the new element is the last child and the
previous children are unchanged -/
theorem C05_negative_index_appends (setter : Node → Option Node) (ty : Nat) (n n' : Node) (idx : Int) (i : Nat)
    (hidx : idx < 0) (h : n.setElem setter ty idx = some (n', i)) :
    i = n.kids.length ∧ n'.kids.length = n.kids.length + 1 ∧ n'.kids.take n.kids.length = n.kids :=
  C05P.negative_index_appends setter ty n n' idx i hidx h

/-! Non-vacuity: removing "b.c" from { a = 1; b = { c = 2; d = 3; } } deletes exactly c -/
def sample : Node :=
  { ty := T_GROUP, kids := [
      { name := some [97], ty := T_INT, ival := 1 },
      { name := some [98], ty := T_GROUP, kids := [
          { name := some [99], ty := T_INT, ival := 2 }, { name := some [100], ty := T_INT, ival := 3 }] } ] }

example : (sample.remove false (some [98, 46, 99])).map (fun r => r.1.kids.map fun k => (k.name, k.kids.map (·.name))) =
    some [(some [97], []), (some [98], [some [100]])] := by decide

/-- Bridge: option bits, format codes and `config_init` defaults of this run's sources are the
documented ones the model uses. -/
theorem C05_constants :
    Generated.CONFIG_OPTION_ALLOW_OVERRIDES = OPT_ALLOW_OVERRIDES ∧ Generated.CONFIG_OPTION_AUTOCONVERT = OPT_AUTOCONVERT ∧
    Generated.CONFIG_FORMAT_DEFAULT = FMT_DEFAULT ∧ Generated.CONFIG_FORMAT_HEX = FMT_HEX ∧
    Generated.INIT_OPTIONS = Config.init.options ∧ Generated.INIT_TAB_WIDTH = Config.init.tabWidth ∧
    Generated.INIT_FLOAT_PRECISION = Config.init.floatPrecision ∧ Generated.INIT_DEFAULT_FORMAT = Config.init.defaultFormat := by decide

end Libconfig.C05
