import LibconfigModel.Denote
import LibconfigModel.Properties.C01Parse
import LibconfigModel.Properties.C02Complete
import LibconfigModel.Proofs.C02DenoteMain
import LibconfigModel.Proofs.C02DenoteDeep
import LibconfigModel.Proofs.C02DenoteLex
/-
  C02D — "the parser builds exactly the configuration the text denotes".

  `Denote.lean` is a small recursive-descent reader of the documented grammar over the token
  sequence of a text: it answers with the setting tree the documentation promises, or with one
  of the three documented rejections.  This file states that `libconfig_yyparse` — the bison
  LALR(1) automaton over the TRANSLATED tables `Generated.parser`, with the semantic actions of
  lib/grammar.y operating on the API model (`config_setting_add`, `config_setting_set_*_elem`,
  `ALLOW_OVERRIDES`, the array element type check, the string accumulator of the parse context) —
  computes exactly that function of the tokens its scanner delivers:

      denote o toks = .ok t      →  yyparse accepts          ∧ the tree built is t (positions apart)
      denote o toks = .error k   →  yyparse returns 1 (abort) ∧ config_error_text is the text of k

  for every token sequence whose brackets are not nested deeper than `maxNesting` = 1665 (beyond
  that the parser's stack of `YYMAXDEPTH` = 10000 entries may overflow: "memory exhausted", see
  `C02D_deep_nesting_exhausts` — the choice made here is to RESTRICT the statement to such texts
  rather than to give the interpreter a fourth outcome), whatever the fuel of the model, as long
  as it does not run out; and with enough fuel the parser does return (`…_total`).

  Statements and examples only; the proof is in LibconfigModel/Proofs/C02Denote*.lean:
    C02DenoteStep    input with / without include errors, runs that abort, shift / reduce /
                     reduce-and-abort / syntax-error iterations
    C02DenoteStatic  the kernel-evaluated facts about the compiled tables (beyond C01ParseStatic)
    C02DenoteSpec    unfolding lemmas and simple properties of the interpreter
    C02DenoteSem     what the grammar actions do (duplicates, overrides, strings, mismatches)
    C02DenoteSim     simulation of scalars and arrays
    C02DenoteSim2/3  simulation of values, lists, groups (induction on the interpreter's fuel)
    C02DenoteMain    the whole parse
    C02DenoteDeep    the deep text of the finding about the nesting bound
    C02DenoteLex     what the compiled scanner guarantees about NAME and TOK_ERROR tokens

  Hypotheses about the tokens:
    * no token is numbered 0 (0 is the end marker) — true of every run of the compiled scanner,
      `C02D_scanner_nonzero`, so the theorems for `theEnv` do not mention it;
    * a NAME token carries a valid setting name (`NamesValid`: `__config_validate_name`;
      otherwise `config_setting_add` fails and the parser reports "duplicate setting name" for a
      name that is merely malformed) — true of every run of the compiled scanner on bytes,
      `C02D_scanner_names`;
    * for the error TEXT: the scanner run contains no include error (`LexesToPlain`: an include
      error records its own message first, which then wins — `C02D_include_error_text`) — true
      of every run of the compiled scanner that delivers no TOK_ERROR, `C02D_plain_of_no_error`.
  `C02D_readCore_bytes` / `C02D_read_string_bytes` are the statements with these discharged.

  Findings: the order of offences of the LR parser (with its default reductions and one token
  of lookahead) is the reading order of the interpreter — no discrepancy; the statement is false
  without the nesting bound (`C02D_deep_nesting_exhausts`); the error text is not the denoted one
  when an include error has occurred (`C02D_include_error_text`).
-/
namespace Libconfig.C02Denote
open Libconfig Denote

/-! ### vocabulary -/

/-- the deepest bracket nesting for which the parser's stack (10000 entries) is large enough for
every shape of text: six entries per level in the worst case (a group that is not the first
member of its group: `setting_list NAME $@1 = { $@4`), at most seven more on top:
6·1665 + 7 < 10000.  (The same bound as `C01Parse.maxNesting` = 1666, which counts the root.) -/
def maxNesting : Nat := 1665

/-- no token is numbered 0 -/
def NonZero (toks : List (Nat × TokVal)) : Prop := ∀ tv ∈ toks, tv.1 ≠ 0

/-- every NAME token carries a valid setting name (true of every token the compiled scanner
returns for an input of bytes: `C02D_scanner_names`) -/
def NamesValid (toks : List (Nat × TokVal)) : Prop :=
  ∀ tv ∈ toks, tv.1 = Generated.tokens.name → validName tv.2.sval = true

/-- `C02.LexesTo` without include errors: calling `yylex` repeatedly from `s` returns the tokens
`toks` and then end of input, ending in `s'` -/
inductive LexesToPlain (E : ParserEnv) : ScanState → List (Nat × TokVal) → ScanState → Prop where
  | eof (s s' : ScanState) : yylex E.T E.sacts E.w E.ic E.lexFuel s = (s', .eof) →
      LexesToPlain E s [] s'
  | tok (s s₁ s' : ScanState) (t : Nat) (v : TokVal) (rest : List (Nat × TokVal)) :
      yylex E.T E.sacts E.w E.ic E.lexFuel s = (s₁, .tok t v) → LexesToPlain E s₁ rest s' →
      LexesToPlain E s ((t, v) :: rest) s'

theorem LexesToPlain.lexesTo {E : ParserEnv} {s s' : ScanState} {toks : List (Nat × TokVal)}
    (h : LexesToPlain E s toks s') : C02.LexesTo E s toks s' := by
  induction h with
  | eof s s' hy => exact .eof s s' hy
  | tok s s₁ s' t v rest hy _ ih => exact .tok s s₁ s' t v rest hy ih

/-- the tree without source positions (as in Properties/C01Parse.lean) -/
abbrev stripPos : Node → Node := C01Parse.stripPos

/-! ### M1 — the interpreter at work (evaluated by the kernel)

Each text is scanned by the compiled scanner (`lexText`), the tokens are handed to `denote`, and
the result is displayed as one row per setting in document order (`C01Parse.rows`). -/

/-- the tokens of a text (a C string, as `config_read_string` takes it), by the compiled scanner
(at most 200) -/
def lexTextIn (c₀ : Config) (text : Bytes) : Option (List (Nat × TokVal)) :=
  C01Parse.lexAll (theEnv {} c₀ 1000) 200 (C01Parse.readScanStart none (cstr text))

/-- … in the initial configuration -/
def lexText (text : Bytes) : Option (List (Nat × TokVal)) := lexTextIn Config.init text

/-- a decidable view of a result: the rows of the tree, or the error -/
inductive Shown where
  | ok (rows : List C01Parse.Row)
  | error (k : ErrKind)
deriving DecidableEq, Repr

def view : Result → Shown
  | .ok t => .ok (C01Parse.rows t)
  | .error k => .error k

/-- what the compiled scanner and the interpreter make of a text -/
def denoteText (o : Options) (text : Bytes) : Option Shown :=
  (lexText text).map fun toks => view (denote o toks)

/-- row of a setting: name, type, format, integer value, float bits, string value, number of
children -/
def row (name : Option Bytes) (ty fmt : Nat) (ival : Int) (fval : Nat) (sval : Option Bytes)
    (nkids : Nat) : C01Parse.Row :=
  ⟨name, ty, fmt, ival, fval, sval, nkids, 0, 0, none⟩

/-- 1. every kind of value, `=` and `:`, `;` `,` and no terminator, adjacent strings
concatenated, a hexadecimal literal (format `FMT_HEX`), a 64-bit literal, trailing and doubled
commas, nested empty aggregates:
```
a = 1; b : "x" "y", c = [1,2,,3,]
d = (1, (), {}, [], "s",); e = { f = 0x10; g = 2L }
``` -/
def text1 : Bytes := bytesOfString
  "a = 1; b : \"x\" \"y\", c = [1,2,,3,]\nd = (1, (), {}, [], \"s\",); e = { f = 0x10; g = 2L }"

example : denoteText {} text1 = some (.ok [
    row none T_GROUP 0 0 0 none 5,
    row (some [97]) T_INT 0 1 0 none 0,
    row (some [98]) T_STRING 0 0 0 (some [120, 121]) 0,
    row (some [99]) T_ARRAY 0 0 0 none 3,
    row none T_INT 0 1 0 none 0, row none T_INT 0 2 0 none 0, row none T_INT 0 3 0 none 0,
    row (some [100]) T_LIST 0 0 0 none 5,
    row none T_INT 0 1 0 none 0, row none T_LIST 0 0 0 none 0, row none T_GROUP 0 0 0 none 0,
    row none T_ARRAY 0 0 0 none 0, row none T_STRING 0 0 0 (some [115]) 0,
    row (some [101]) T_GROUP 0 0 0 none 2,
    row (some [102]) T_INT FMT_HEX 16 0 none 0,
    row (some [103]) T_INT64 0 2 0 none 0]) := by decide +kernel

/-- 2. the empty text denotes the empty configuration -/
example : denoteText {} [] = some (.ok [row none T_GROUP 0 0 0 none 0]) := by decide +kernel

/-- 3. a name used twice in a group: "duplicate setting name" … -/
def text3 : Bytes := bytesOfString "a = 1; b = 2; a = 3;"

example : denoteText {} text3 = some (.error .duplicateName) := by decide +kernel

/-- … unless overrides are allowed: the later setting replaces the earlier one and sits at the
end -/
example : denoteText { allowOverrides := true } text3 = some (.ok [
    row none T_GROUP 0 0 0 none 2,
    row (some [98]) T_INT 0 2 0 none 0,
    row (some [97]) T_INT 0 3 0 none 0]) := by decide +kernel

/-- the same name in different groups is no duplicate -/
example : denoteText {} (bytesOfString "a = { a = 1; }; b = ( { a = 2; } );") = some (.ok [
    row none T_GROUP 0 0 0 none 2,
    row (some [97]) T_GROUP 0 0 0 none 1, row (some [97]) T_INT 0 1 0 none 0,
    row (some [98]) T_LIST 0 0 0 none 1, row none T_GROUP 0 0 0 none 1,
    row (some [97]) T_INT 0 2 0 none 0]) := by decide +kernel

/-- 4. an array element of another type: "mismatched element type in array" (`1` and `2L`
differ, too) -/
example : denoteText {} (bytesOfString "a = [1, \"x\"];") = some (.error .arrayElemType) := by
  decide +kernel
example : denoteText {} (bytesOfString "a = [1, 2L];") = some (.error .arrayElemType) := by
  decide +kernel
/-- … but a list may mix types -/
example : denoteText {} (bytesOfString "a = (1, 2L, \"x\");") = some (.ok [
    row none T_GROUP 0 0 0 none 1, row (some [97]) T_LIST 0 0 0 none 3,
    row none T_INT 0 1 0 none 0, row none T_INT64 0 2 0 none 0,
    row none T_STRING 0 0 0 (some [120]) 0]) := by decide +kernel

/-- 5. syntax errors: a list that starts with a comma, a missing value, a stray bracket, a
group in an array, two terminators -/
example : denoteText {} (bytesOfString "a = (,1);") = some (.error .syntax) := by decide +kernel
example : denoteText {} (bytesOfString "a = ;") = some (.error .syntax) := by decide +kernel
example : denoteText {} (bytesOfString "a = 1; }") = some (.error .syntax) := by decide +kernel
example : denoteText {} (bytesOfString "a = [ { } ];") = some (.error .syntax) := by decide +kernel
example : denoteText {} (bytesOfString "a = 1;; b = 2;") = some (.error .syntax) := by decide +kernel

/-- 6. the first offence in reading order is reported: the duplicate name comes before the
missing `=`, the mismatching string before the wrong bracket; the syntax error before a later
duplicate -/
example : denoteText {} (bytesOfString "a = 1; a") = some (.error .duplicateName) := by
  decide +kernel
example : denoteText {} (bytesOfString "a = [1, \"x\" }") = some (.error .arrayElemType) := by
  decide +kernel
example : denoteText {} (bytesOfString "a = 1; b = ; a = 2;") = some (.error .syntax) := by
  decide +kernel

/-- The fuel of the interpreter is never used up: every step consumes a token, so any fuel above
the number of tokens gives the answer that `denote` (with one more than the number of tokens)
gives. -/
theorem C02D_denote_fuel (o : Options) (toks : List (Nat × TokVal)) (fuel : Nat)
    (h : toks.length < fuel) :
    settings o fuel [] (toks.map itemOf) = settings o (toks.length + 1) [] (toks.map itemOf) := by
  have := C02D.settings_fuel o fuel [] (toks.map itemOf) (by rw [List.length_map]; exact h)
  rw [List.length_map] at this
  exact this

/-! ### M2, M3 — the theorems -/

open C02D in
theorem rawOK_of {toks : List (Nat × TokVal)} (h0 : NonZero toks) (hn : NamesValid toks) :
    RawOK toks := by
  intro tv htv
  refine ⟨h0 tv htv, fun s hs => ?_⟩
  obtain ⟨t, v⟩ := tv
  obtain ⟨h1, h2⟩ := itemOf_name hs
  rw [← h2]
  exact hn _ htv h1

theorem lexes_of_lexesTo {E : ParserEnv} {s s' : ScanState} {toks : List (Nat × TokVal)}
    (h : C02.LexesTo E s toks s') : C02P.Lexes E s toks s' := by
  induction h with
  | eof s s' hy => exact .eof s s' hy
  | tok s s₁ s' t v rest hy _ ih => exact .tok s s₁ s' t v rest hy ih
  | incl s s₁ s' t text file line rest hy _ ih => exact .incl s s₁ s' t text file line rest hy ih

open C02D in
theorem lexP_of_lexesTo {E : ParserEnv} {s s' : ScanState} {toks : List (Nat × TokVal)}
    (h : C02.LexesTo E s toks s') : LexP E false s (toks ++ [C01PP.tEOF]) := by
  induction h with
  | eof s s' hy => exact .eof s s' hy
  | tok s s₁ s' t v rest hy _ ih => exact .tok s s₁ t v _ hy ih
  | incl s s₁ s' t text file line rest hy _ ih => exact .incl s s₁ t text file line _ rfl hy ih

open C02D in
theorem lexP_of_plain {E : ParserEnv} {s s' : ScanState} {toks : List (Nat × TokVal)}
    (h : LexesToPlain E s toks s') : LexP E true s (toks ++ [C01PP.tEOF]) := by
  induction h with
  | eof s s' hy => exact .eof s s' hy
  | tok s s₁ s' t v rest hy _ ih => exact .tok s s₁ t v _ hy ih

/-- **M2: the text denotes a configuration ⇒ the parser accepts and has built it.**
Let `E` be a parser environment over the compiled parser tables and actions (any scanner, world
and include configuration: what matters is the token sequence the scanner delivers).  Let its
scanner, started in `s₀`, deliver the tokens `toks` and then end of input (include errors, handed
over as their error token, are allowed).  Let `ctx₀` be a parse context over a cleared
configuration as `__config_read` sets it up (the root an empty group, `ctx->parent` the root,
`ctx->string` empty), and `o` the options of that configuration that matter.  If the reference
interpreter reads `toks` as the tree `t`, then whatever `yyparse` returns with enough fuel is:
accept, with a tree that — source positions apart — is `t`. -/
theorem C02D_accept_env (E : ParserEnv) (hP : E.P = Generated.parser)
    (hA : E.acts = Generated.parseActions) (o : Options) (toks : List (Nat × TokVal))
    (h0 : NonZero toks) (hnames : NamesValid toks) (hnest : nesting toks ≤ maxNesting)
    (fuel : Nat) (s₀ s₁ s' : ScanState) (ctx₀ ctx' : ParseCtx) (r : ParseResult)
    (hlex : C02.LexesTo E s₀ toks s₁)
    (hroot : stripPos ctx₀.cfg.root = { ty := T_GROUP }) (hpar : ctx₀.parent = some [])
    (hstr : ctx₀.str = none) (hopt : ctx₀.cfg.opt OPT_ALLOW_OVERRIDES = o.allowOverrides)
    (h : yyparse E fuel s₀ ctx₀ = (s', ctx', r)) (hr : r ≠ .outOfFuel) (t : Node)
    (hd : denote o toks = .ok t) :
    r = .accept ∧ stripPos ctx'.cfg.root = t := by
  show _ ∧ C01Parse.stripPos _ = _
  rw [C01Parse.stripPos_pp]
  exact C02D.denote_ok_core (plain := false) ⟨hP, hA⟩ toks (rawOK_of h0 hnames) hnest
    (lexP_of_lexesTo hlex) (by rw [← C01Parse.stripPos_pp]; exact hroot) hpar hstr
    ⟨hopt, fun hp => by cases hp⟩ h hr hd

/-- **M3: the text is rejected ⇒ the parser aborts with the denoted message.**  Under the
hypotheses of `C02D_accept_env`, with a scanner run without include errors and no error message
pending: if the reference interpreter rejects `toks` with the error `k` (the first offence in
reading order: a syntax error, a duplicate setting name, a mismatched array element), then
whatever `yyparse` returns with enough fuel is: 1 (`YYABORT`, resp. the abort after a syntax
error), with `config_error_text` = the text of `k`. -/
theorem C02D_error_env (E : ParserEnv) (hP : E.P = Generated.parser)
    (hA : E.acts = Generated.parseActions) (o : Options) (toks : List (Nat × TokVal))
    (h0 : NonZero toks) (hnames : NamesValid toks) (hnest : nesting toks ≤ maxNesting)
    (fuel : Nat) (s₀ s₁ s' : ScanState) (ctx₀ ctx' : ParseCtx) (r : ParseResult)
    (hlex : LexesToPlain E s₀ toks s₁)
    (hroot : stripPos ctx₀.cfg.root = { ty := T_GROUP }) (hpar : ctx₀.parent = some [])
    (hstr : ctx₀.str = none) (hopt : ctx₀.cfg.opt OPT_ALLOW_OVERRIDES = o.allowOverrides)
    (herr : ctx₀.cfg.errText = none)
    (h : yyparse E fuel s₀ ctx₀ = (s', ctx', r)) (hr : r ≠ .outOfFuel) (k : ErrKind)
    (hd : denote o toks = .error k) :
    r = .abort ∧ ctx'.cfg.errText = some k.text := by
  have := C02D.denote_error_core (plain := true) ⟨hP, hA⟩ toks (rawOK_of h0 hnames) hnest
    (lexP_of_plain hlex) (by rw [← C01Parse.stripPos_pp]; exact hroot) hpar hstr
    ⟨hopt, fun _ => herr⟩ h hr hd
  exact ⟨this.1, this.2 rfl⟩

/-- … and when include errors may occur (and whatever message is pending), the parser still
aborts; only the text is not determined by `toks` alone (`C02D_include_error_text`). -/
theorem C02D_rejects_env (E : ParserEnv) (hP : E.P = Generated.parser)
    (hA : E.acts = Generated.parseActions) (o : Options) (toks : List (Nat × TokVal))
    (h0 : NonZero toks) (hnames : NamesValid toks) (hnest : nesting toks ≤ maxNesting)
    (fuel : Nat) (s₀ s₁ s' : ScanState) (ctx₀ ctx' : ParseCtx) (r : ParseResult)
    (hlex : C02.LexesTo E s₀ toks s₁)
    (hroot : stripPos ctx₀.cfg.root = { ty := T_GROUP }) (hpar : ctx₀.parent = some [])
    (hstr : ctx₀.str = none) (hopt : ctx₀.cfg.opt OPT_ALLOW_OVERRIDES = o.allowOverrides)
    (h : yyparse E fuel s₀ ctx₀ = (s', ctx', r)) (hr : r ≠ .outOfFuel) (k : ErrKind)
    (hd : denote o toks = .error k) :
    r = .abort :=
  (C02D.denote_error_core (plain := false) ⟨hP, hA⟩ toks (rawOK_of h0 hnames) hnest
    (lexP_of_lexesTo hlex) (by rw [← C01Parse.stripPos_pp]; exact hroot) hpar hstr
    ⟨hopt, fun hp => by cases hp⟩ h hr hd).1

/-- the compiled scanner never returns the token number 0 -/
theorem C02D_scanner_nonzero (w : World) (c : Config) (lexFuel : Nat) (s s' : ScanState)
    (toks : List (Nat × TokVal)) (h : C02.LexesTo (theEnv w c lexFuel) s toks s') : NonZero toks := by
  have hnz := C02P.tokNZ_theEnv w c lexFuel
  have k0 : ∀ t, translateTok (theEnv w c lexFuel).P t ≠ 0 → t ≠ 0 := by
    intro t ht h0
    subst h0
    exact ht C01PP.kind_eof
  induction h with
  | eof s s' hy => intro tv h; cases h
  | tok s s₁ s' t v rest hy _ ih =>
    intro tv htv
    rcases List.mem_cons.mp htv with rfl | htv
    · exact k0 _ ((hnz s s₁).1 t v hy)
    · exact ih tv htv
  | incl s s₁ s' t text file line rest hy _ ih =>
    intro tv htv
    rcases List.mem_cons.mp htv with rfl | htv
    · exact k0 _ ((hnz s s₁).2 t text file line hy)
    · exact ih tv htv

/-- **C02D (accepting direction)** for the compiled scanner and parser: `theEnv w c₀ lexFuel`
with any world and any reading configuration `c₀`. -/
theorem C02D_accept (w : World) (c₀ : Config) (lexFuel : Nat) (o : Options)
    (toks : List (Nat × TokVal)) (hnames : NamesValid toks) (hnest : nesting toks ≤ maxNesting)
    (fuel : Nat) (s₀ s₁ s' : ScanState) (ctx₀ ctx' : ParseCtx) (r : ParseResult)
    (hlex : C02.LexesTo (theEnv w c₀ lexFuel) s₀ toks s₁)
    (hroot : stripPos ctx₀.cfg.root = { ty := T_GROUP }) (hpar : ctx₀.parent = some [])
    (hstr : ctx₀.str = none) (hopt : ctx₀.cfg.opt OPT_ALLOW_OVERRIDES = o.allowOverrides)
    (h : yyparse (theEnv w c₀ lexFuel) fuel s₀ ctx₀ = (s', ctx', r)) (hr : r ≠ .outOfFuel)
    (t : Node) (hd : denote o toks = .ok t) :
    r = .accept ∧ stripPos ctx'.cfg.root = t :=
  C02D_accept_env (theEnv w c₀ lexFuel) rfl rfl o toks
    (C02D_scanner_nonzero w c₀ lexFuel s₀ s₁ toks hlex) hnames hnest fuel s₀ s₁ s' ctx₀ ctx' r hlex
    hroot hpar hstr hopt h hr t hd

/-- **C02D (rejecting direction)** for the compiled scanner and parser. -/
theorem C02D_error (w : World) (c₀ : Config) (lexFuel : Nat) (o : Options)
    (toks : List (Nat × TokVal)) (hnames : NamesValid toks) (hnest : nesting toks ≤ maxNesting)
    (fuel : Nat) (s₀ s₁ s' : ScanState) (ctx₀ ctx' : ParseCtx) (r : ParseResult)
    (hlex : LexesToPlain (theEnv w c₀ lexFuel) s₀ toks s₁)
    (hroot : stripPos ctx₀.cfg.root = { ty := T_GROUP }) (hpar : ctx₀.parent = some [])
    (hstr : ctx₀.str = none) (hopt : ctx₀.cfg.opt OPT_ALLOW_OVERRIDES = o.allowOverrides)
    (herr : ctx₀.cfg.errText = none)
    (h : yyparse (theEnv w c₀ lexFuel) fuel s₀ ctx₀ = (s', ctx', r)) (hr : r ≠ .outOfFuel)
    (k : ErrKind) (hd : denote o toks = .error k) :
    r = .abort ∧ ctx'.cfg.errText = some k.text :=
  C02D_error_env (theEnv w c₀ lexFuel) rfl rfl o toks
    (C02D_scanner_nonzero w c₀ lexFuel s₀ s₁ toks hlex.lexesTo) hnames hnest fuel s₀ s₁ s' ctx₀
    ctx' r hlex hroot hpar hstr hopt herr h hr k hd

/-- **C02D, both directions in one statement**: the outcome of the parse is a function of the
tokens — the one `denote` computes. -/
theorem C02D_parse_denotes (w : World) (c₀ : Config) (lexFuel : Nat) (o : Options)
    (toks : List (Nat × TokVal)) (hnames : NamesValid toks) (hnest : nesting toks ≤ maxNesting)
    (fuel : Nat) (s₀ s₁ s' : ScanState) (ctx₀ ctx' : ParseCtx) (r : ParseResult)
    (hlex : LexesToPlain (theEnv w c₀ lexFuel) s₀ toks s₁)
    (hroot : stripPos ctx₀.cfg.root = { ty := T_GROUP }) (hpar : ctx₀.parent = some [])
    (hstr : ctx₀.str = none) (hopt : ctx₀.cfg.opt OPT_ALLOW_OVERRIDES = o.allowOverrides)
    (herr : ctx₀.cfg.errText = none)
    (h : yyparse (theEnv w c₀ lexFuel) fuel s₀ ctx₀ = (s', ctx', r)) (hr : r ≠ .outOfFuel) :
    match denote o toks with
    | .ok t => r = .accept ∧ stripPos ctx'.cfg.root = t
    | .error k => r = .abort ∧ ctx'.cfg.errText = some k.text := by
  cases hd : denote o toks with
  | ok t =>
    exact C02D_accept w c₀ lexFuel o toks hnames hnest fuel s₀ s₁ s' ctx₀ ctx' r hlex.lexesTo hroot
      hpar hstr hopt h hr t hd
  | error k =>
    exact C02D_error w c₀ lexFuel o toks hnames hnest fuel s₀ s₁ s' ctx₀ ctx' r hlex hroot hpar
      hstr hopt herr h hr k hd

/-! ### … and the parse does return -/

/-- Termination, accepting direction: there is a bound `N` such that with any fuel ≥ `N` the
parser returns: accept, with the denoted tree. -/
theorem C02D_accept_total (w : World) (c₀ : Config) (lexFuel : Nat) (o : Options)
    (toks : List (Nat × TokVal)) (hnames : NamesValid toks) (hnest : nesting toks ≤ maxNesting)
    (s₀ s₁ : ScanState) (ctx₀ : ParseCtx)
    (hlex : C02.LexesTo (theEnv w c₀ lexFuel) s₀ toks s₁)
    (hroot : stripPos ctx₀.cfg.root = { ty := T_GROUP }) (hpar : ctx₀.parent = some [])
    (hstr : ctx₀.str = none) (hopt : ctx₀.cfg.opt OPT_ALLOW_OVERRIDES = o.allowOverrides)
    (t : Node) (hd : denote o toks = .ok t) :
    ∃ N s' ctx', (∀ fuel, N ≤ fuel →
        yyparse (theEnv w c₀ lexFuel) fuel s₀ ctx₀ = (s', ctx', .accept)) ∧
      stripPos ctx'.cfg.root = t := by
  obtain ⟨N, s', ctx', h1, h2⟩ := C02D.denote_ok_total (plain := false)
    (C01PP.compiled_theEnv w c₀ lexFuel) toks
    (rawOK_of (C02D_scanner_nonzero w c₀ lexFuel s₀ s₁ toks hlex) hnames) hnest
    (lexP_of_lexesTo hlex) (by rw [← C01Parse.stripPos_pp]; exact hroot) hpar hstr
    ⟨hopt, fun hp => by cases hp⟩ hd
  refine ⟨N, s', ctx', h1, ?_⟩
  show C01Parse.stripPos _ = _
  rw [C01Parse.stripPos_pp]
  exact h2

/-- Termination, rejecting direction: there is a bound `N` such that with any fuel ≥ `N` the
parser returns 1. -/
theorem C02D_error_total (w : World) (c₀ : Config) (lexFuel : Nat) (o : Options)
    (toks : List (Nat × TokVal)) (hnames : NamesValid toks) (hnest : nesting toks ≤ maxNesting)
    (s₀ s₁ : ScanState) (ctx₀ : ParseCtx)
    (hlex : C02.LexesTo (theEnv w c₀ lexFuel) s₀ toks s₁)
    (hroot : stripPos ctx₀.cfg.root = { ty := T_GROUP }) (hpar : ctx₀.parent = some [])
    (hstr : ctx₀.str = none) (hopt : ctx₀.cfg.opt OPT_ALLOW_OVERRIDES = o.allowOverrides)
    (k : ErrKind) (hd : denote o toks = .error k) :
    ∃ N, ∀ fuel, N ≤ fuel → (yyparse (theEnv w c₀ lexFuel) fuel s₀ ctx₀).2.2 = .abort :=
  C02D.denote_error_total (plain := false) (C01PP.compiled_theEnv w c₀ lexFuel) toks
    (rawOK_of (C02D_scanner_nonzero w c₀ lexFuel s₀ s₁ toks hlex) hnames) hnest
    (lexP_of_lexesTo hlex) (by rw [← C01Parse.stripPos_pp]; exact hroot) hpar hstr
    ⟨hopt, fun hp => by cases hp⟩ hd

/-! ### `config_read_string` / `config_read` / `config_read_file` -/

theorem finish_errText (p : ScanState × ParseCtx × ParseResult) :
    (C09P.finish p).errText = p.2.1.cfg.errText := by
  unfold C09P.finish; extract_lets c c'; simp only [c']; split <;> rfl

/-- **What `__config_read` answers** (the common core of the three read functions), with the
lexing as an explicit hypothesis: if the compiled scanner, started on the input, delivers the
tokens `toks` and then end of input, without include error, then the read — with enough fuel —
succeeds with the tree `denote` computes from `toks`, or fails with the message `denote`
computes, whatever the configuration `c₀` held before; only its option `ALLOW_OVERRIDES`
matters. -/
theorem C02D_readCore (w : World) (c₀ : Config) (filename : Option Bytes) (inp : Bytes)
    (fuel : Nat) (toks : List (Nat × TokVal)) (s₁ : ScanState)
    (hlex : LexesToPlain (theEnv w c₀ fuel) (C01Parse.readScanStart filename inp) toks s₁)
    (hnames : NamesValid toks) (hnest : nesting toks ≤ maxNesting)
    (hfuel : (readCore w c₀ filename inp fuel).result ≠ .outOfFuel) :
    match denote { allowOverrides := c₀.opt OPT_ALLOW_OVERRIDES } toks with
    | .ok t => (readCore w c₀ filename inp fuel).ok = true ∧
        (readCore w c₀ filename inp fuel).result = .accept ∧
        stripPos (readCore w c₀ filename inp fuel).cfg.root = t
    | .error k => (readCore w c₀ filename inp fuel).ok = false ∧
        (readCore w c₀ filename inp fuel).result = .abort ∧
        (readCore w c₀ filename inp fuel).cfg.errText = some k.text := by
  rw [C09P.readCore_result] at hfuel
  rw [C09P.readCore_ok, C09P.readCore_result, C09P.readCore_cfg, C01Parse.finish_root,
    finish_errText]
  cases hp : C09P.parseOf w (C09P.start c₀ filename) filename inp fuel with
  | mk s' rest =>
    cases rest with
    | mk ctx' r =>
      rw [hp] at hfuel
      have h := C02D_parse_denotes w c₀ fuel { allowOverrides := c₀.opt OPT_ALLOW_OVERRIDES } toks
        hnames hnest fuel (C01Parse.readScanStart filename inp) s₁ s'
        { cfg := C09P.start c₀ filename } ctx' r hlex rfl rfl rfl rfl rfl hp hfuel
      cases hd : denote { allowOverrides := c₀.opt OPT_ALLOW_OVERRIDES } toks with
      | ok t =>
        rw [hd] at h
        simp only
        exact ⟨by rw [h.1]; rfl, h.1, h.2⟩
      | error k =>
        rw [hd] at h
        simp only
        exact ⟨by rw [h.1]; rfl, h.1, h.2⟩

/-- `config_read_string` -/
theorem C02D_read_string (w : World) (c₀ : Config) (text : Bytes) (fuel : Nat)
    (toks : List (Nat × TokVal)) (s₁ : ScanState)
    (hlex : LexesToPlain (theEnv w c₀ fuel) (C01Parse.readScanStart none (cstr text)) toks s₁)
    (hnames : NamesValid toks) (hnest : nesting toks ≤ maxNesting)
    (hfuel : (read w c₀ (.string text) fuel).result ≠ .outOfFuel) :
    match denote { allowOverrides := c₀.opt OPT_ALLOW_OVERRIDES } toks with
    | .ok t => (read w c₀ (.string text) fuel).ok = true ∧
        (read w c₀ (.string text) fuel).result = .accept ∧
        stripPos (read w c₀ (.string text) fuel).cfg.root = t
    | .error k => (read w c₀ (.string text) fuel).ok = false ∧
        (read w c₀ (.string text) fuel).result = .abort ∧
        (read w c₀ (.string text) fuel).cfg.errText = some k.text :=
  C02D_readCore w c₀ none (cstr text) fuel toks s₁ hlex hnames hnest hfuel

/-- `config_read` from a stream -/
theorem C02D_read_stream (w : World) (c₀ : Config) (content : Bytes) (fuel : Nat)
    (toks : List (Nat × TokVal)) (s₁ : ScanState)
    (hlex : LexesToPlain (theEnv w c₀ fuel) (C01Parse.readScanStart none content) toks s₁)
    (hnames : NamesValid toks) (hnest : nesting toks ≤ maxNesting)
    (hfuel : (read w c₀ (.stream content) fuel).result ≠ .outOfFuel) :
    match denote { allowOverrides := c₀.opt OPT_ALLOW_OVERRIDES } toks with
    | .ok t => (read w c₀ (.stream content) fuel).ok = true ∧
        (read w c₀ (.stream content) fuel).result = .accept ∧
        stripPos (read w c₀ (.stream content) fuel).cfg.root = t
    | .error k => (read w c₀ (.stream content) fuel).ok = false ∧
        (read w c₀ (.stream content) fuel).result = .abort ∧
        (read w c₀ (.stream content) fuel).cfg.errText = some k.text :=
  C02D_readCore w c₀ none content fuel toks s₁ hlex hnames hnest hfuel

/-- `config_read_file` of a readable file -/
theorem C02D_read_file (w : World) (c₀ : Config) (path content : Bytes) (fuel : Nat)
    (toks : List (Nat × TokVal)) (s₁ : ScanState) (hfile : w.open? path = some content)
    (hlex : LexesToPlain (theEnv w c₀ fuel) (C01Parse.readScanStart (some path) content) toks s₁)
    (hnames : NamesValid toks) (hnest : nesting toks ≤ maxNesting)
    (hfuel : (read w c₀ (.file path) fuel).result ≠ .outOfFuel) :
    match denote { allowOverrides := c₀.opt OPT_ALLOW_OVERRIDES } toks with
    | .ok t => (read w c₀ (.file path) fuel).ok = true ∧
        (read w c₀ (.file path) fuel).result = .accept ∧
        stripPos (read w c₀ (.file path) fuel).cfg.root = t
    | .error k => (read w c₀ (.file path) fuel).ok = false ∧
        (read w c₀ (.file path) fuel).result = .abort ∧
        (read w c₀ (.file path) fuel).cfg.errText = some k.text := by
  have hread : read w c₀ (.file path) fuel =
      { readCore w c₀ (some path) content fuel with
        events := [.fopen path true] ++ (readCore w c₀ (some path) content fuel).events ++
          [.fclose path] } := by
    unfold read
    simp only [hfile]
  rw [hread] at hfuel ⊢
  exact C02D_readCore w c₀ (some path) content fuel toks s₁ hlex hnames hnest hfuel

/-! ### the side conditions, discharged for reads of bytes

For the compiled scanner the hypotheses `NamesValid` and `LexesToPlain` need not be assumed:
if the input and the files of the world hold bytes (`C03P.ScanOK`, `C03P.WorldOK`), every NAME
token carries a valid name (the rule that returns NAME matches `[A-Za-z\*][-A-Za-z0-9_\*]*`,
no other rule returns NAME — from the bisimulation of the flex tables with the documented
rules, Properties/C18.lean); and a token sequence without TOK_ERROR was delivered without
include error (an include error is handed over as TOK_ERROR). -/

/-- the compiled scanner returns NAME only with a valid setting name -/
theorem C02D_scanner_names (w : World) (hw : C03P.WorldOK w) (c : Config) (lexFuel : Nat)
    (s s' : ScanState) (toks : List (Nat × TokVal)) (hs : C03P.ScanOK s)
    (h : C02.LexesTo (theEnv w c lexFuel) s toks s') : NamesValid toks :=
  C02D.lexes_namesValid w hw c lexFuel s toks s' (lexes_of_lexesTo h) hs

/-- a token sequence without TOK_ERROR was delivered without include error -/
theorem C02D_plain_of_no_error (w : World) (c : Config) (lexFuel : Nat) (s s' : ScanState)
    (toks : List (Nat × TokVal)) (h : C02.LexesTo (theEnv w c lexFuel) s toks s')
    (hne : ∀ tv ∈ toks, tv.1 ≠ Generated.tokens.error) :
    LexesToPlain (theEnv w c lexFuel) s toks s' := by
  induction h with
  | eof s s' hy => exact .eof s s' hy
  | tok s s₁ s' t v rest hy _ ih =>
    exact .tok s s₁ s' t v rest hy (ih (fun tv htv => hne tv (List.mem_cons_of_mem _ htv)))
  | incl s s₁ s' t text file line rest hy _ _ =>
    exfalso
    have hk := C02C.inclKind_theEnv w c lexFuel _ _ _ _ _ _ hy
    exact hne (t, {}) List.mem_cons_self (C02D.kind22_error t hk)

/-- the scan state `__config_read` starts from is well-formed when the input holds bytes -/
theorem scanOK_start (filename : Option Bytes) (inp : Bytes) (hb : C03P.BytesOK inp) :
    C03P.ScanOK (C01Parse.readScanStart filename inp) :=
  ⟨Nat.zero_lt_succ _, hb, fun f hf => by cases hf⟩

/-- **`__config_read` on bytes**: `C02D_readCore` with the side conditions on names and include
errors replaced by "the input and the files of the world hold bytes" and "no token is
TOK_ERROR". -/
theorem C02D_readCore_bytes (w : World) (hw : C03P.WorldOK w) (c₀ : Config)
    (filename : Option Bytes) (inp : Bytes) (hb : C03P.BytesOK inp) (fuel : Nat)
    (toks : List (Nat × TokVal)) (s₁ : ScanState)
    (hlex : C02.LexesTo (theEnv w c₀ fuel) (C01Parse.readScanStart filename inp) toks s₁)
    (hne : ∀ tv ∈ toks, tv.1 ≠ Generated.tokens.error) (hnest : nesting toks ≤ maxNesting)
    (hfuel : (readCore w c₀ filename inp fuel).result ≠ .outOfFuel) :
    match denote { allowOverrides := c₀.opt OPT_ALLOW_OVERRIDES } toks with
    | .ok t => (readCore w c₀ filename inp fuel).ok = true ∧
        (readCore w c₀ filename inp fuel).result = .accept ∧
        stripPos (readCore w c₀ filename inp fuel).cfg.root = t
    | .error k => (readCore w c₀ filename inp fuel).ok = false ∧
        (readCore w c₀ filename inp fuel).result = .abort ∧
        (readCore w c₀ filename inp fuel).cfg.errText = some k.text :=
  C02D_readCore w c₀ filename inp fuel toks s₁
    (C02D_plain_of_no_error w c₀ fuel _ _ toks hlex hne)
    (C02D_scanner_names w hw c₀ fuel _ _ toks (scanOK_start filename inp hb) hlex) hnest hfuel

/-- `config_read_string` on a string of bytes -/
theorem C02D_read_string_bytes (w : World) (hw : C03P.WorldOK w) (c₀ : Config) (text : Bytes)
    (hb : C03P.BytesOK text) (fuel : Nat) (toks : List (Nat × TokVal)) (s₁ : ScanState)
    (hlex : C02.LexesTo (theEnv w c₀ fuel) (C01Parse.readScanStart none (cstr text)) toks s₁)
    (hne : ∀ tv ∈ toks, tv.1 ≠ Generated.tokens.error) (hnest : nesting toks ≤ maxNesting)
    (hfuel : (read w c₀ (.string text) fuel).result ≠ .outOfFuel) :
    match denote { allowOverrides := c₀.opt OPT_ALLOW_OVERRIDES } toks with
    | .ok t => (read w c₀ (.string text) fuel).ok = true ∧
        (read w c₀ (.string text) fuel).result = .accept ∧
        stripPos (read w c₀ (.string text) fuel).cfg.root = t
    | .error k => (read w c₀ (.string text) fuel).ok = false ∧
        (read w c₀ (.string text) fuel).result = .abort ∧
        (read w c₀ (.string text) fuel).cfg.errText = some k.text :=
  C02D_readCore_bytes w hw c₀ none (cstr text)
    (C03P.cstr_bytes hb) fuel toks s₁ hlex hne hnest hfuel

/-! ### the theorems at work (evaluated by the kernel)

The hypotheses of the theorems are satisfiable and their conclusions say something: for the
texts of the examples above the compiled scanner does deliver tokens without include error, the
tokens satisfy the side conditions, so the theorems apply and yield the outcome of the read; the
kernel, running `read` itself, finds the same. -/

theorem lexAll_plain {E : ParserEnv} : ∀ (n : Nat) (s : ScanState) (toks : List (Nat × TokVal)),
    C01Parse.lexAll E n s = some toks → ∃ s', LexesToPlain E s toks s'
  | 0, _, _, h => by cases h
  | n + 1, s, toks, h => by
    rw [C01Parse.lexAll] at h
    split at h
    · rename_i s' hy
      cases h
      exact ⟨s', .eof s s' hy⟩
    · rename_i s' t v hy
      cases hr : C01Parse.lexAll E n s' with
      | none => rw [hr] at h; cases h
      | some ts =>
        rw [hr] at h
        cases h
        obtain ⟨s'', hl⟩ := lexAll_plain n s' ts hr
        exact ⟨s'', .tok s s' s'' t v ts hy hl⟩
    · cases h

/-- the side conditions on the tokens, decidably -/
def checkToks (toks : List (Nat × TokVal)) : Bool :=
  toks.all (fun tv => tv.1 != Generated.tokens.name || validName tv.2.sval) &&
    decide (nesting toks ≤ maxNesting)

theorem checkToks_spec {toks : List (Nat × TokVal)} (h : checkToks toks = true) :
    NamesValid toks ∧ nesting toks ≤ maxNesting := by
  unfold checkToks at h
  simp only [Bool.and_eq_true, List.all_eq_true, Bool.or_eq_true, bne_iff_ne, ne_eq,
    decide_eq_true_eq] at h
  refine ⟨fun tv htv hn => ?_, h.2⟩
  rcases h.1 tv htv with h1 | h1
  · exact absurd hn h1
  · exact h1

/-- how the theorem `C02D_read_string` applies to a text whose scanning the kernel can carry
out -/
theorem read_string_of_lexText (c₀ : Config) (text : Bytes) (toks : List (Nat × TokVal))
    (hlex : lexTextIn c₀ text = some toks) (hck : checkToks toks = true)
    (hfuel : (read {} c₀ (.string text) 1000).result ≠ .outOfFuel) :
    match denote { allowOverrides := c₀.opt OPT_ALLOW_OVERRIDES } toks with
    | .ok t => (read {} c₀ (.string text) 1000).ok = true ∧
        (read {} c₀ (.string text) 1000).result = .accept ∧
        stripPos (read {} c₀ (.string text) 1000).cfg.root = t
    | .error k => (read {} c₀ (.string text) 1000).ok = false ∧
        (read {} c₀ (.string text) 1000).result = .abort ∧
        (read {} c₀ (.string text) 1000).cfg.errText = some k.text := by
  obtain ⟨s₁, hl⟩ := lexAll_plain 200 _ _ hlex
  obtain ⟨hn, hd⟩ := checkToks_spec hck
  exact C02D_read_string {} c₀ text 1000 toks s₁ hl hn hd hfuel

/-- text 1 (accepted): the theorem applies … -/
theorem example1 : ∃ toks, lexText text1 = some toks ∧
    (read {} Config.init (.string text1) 1000).ok = true ∧
    view (denote {} toks) =
      .ok (C01Parse.rows (stripPos (read {} Config.init (.string text1) 1000).cfg.root)) := by
  cases hl : lexText text1 with
  | none => exact absurd hl (by decide +kernel)
  | some toks =>
    have hck : (lexText text1).all checkToks = true := by decide +kernel
    rw [hl] at hck
    have h := read_string_of_lexText Config.init text1 toks hl hck (by decide +kernel)
    have ho : ({ allowOverrides := Config.init.opt OPT_ALLOW_OVERRIDES } : Options) = {} := by
      have : Config.init.opt OPT_ALLOW_OVERRIDES = false := by decide +kernel
      rw [this]
    rw [ho] at h
    have hok : ∃ t, denote {} toks = .ok t := by
      have : (lexText text1).all (fun toks => match denote {} toks with | .ok _ => true | .error _ => false)
          = true := by decide +kernel
      rw [hl] at this
      simp only [Option.all_some] at this
      split at this
      · rename_i t ht; exact ⟨t, ht⟩
      · cases this
    obtain ⟨t, ht⟩ := hok
    rw [ht] at h
    refine ⟨toks, rfl, h.1, ?_⟩
    rw [ht, h.2.2]
    rfl

/-- … and the kernel, running `read` itself, finds the tree of the first example -/
example : (read {} Config.init (.string text1) 1000).ok = true ∧
    (C01Parse.rows (stripPos (read {} Config.init (.string text1) 1000).cfg.root)).map (·.name) =
      [none, some [97], some [98], some [99], none, none, none, some [100], none, none, none, none,
       none, some [101], some [102], some [103]] := by decide +kernel

/-- text 3 (a duplicate name): the theorem applies and yields the failure with its message … -/
theorem example3 : (read {} Config.init (.string text3) 1000).ok = false ∧
    (read {} Config.init (.string text3) 1000).result = .abort ∧
    (read {} Config.init (.string text3) 1000).cfg.errText = some ErrKind.duplicateName.text := by
  cases hl : lexText text3 with
  | none => exact absurd hl (by decide +kernel)
  | some toks =>
    have hck : (lexText text3).all checkToks = true := by decide +kernel
    rw [hl] at hck
    have h := read_string_of_lexText Config.init text3 toks hl hck (by decide +kernel)
    have ho : ({ allowOverrides := Config.init.opt OPT_ALLOW_OVERRIDES } : Options) = {} := by
      have : Config.init.opt OPT_ALLOW_OVERRIDES = false := by decide +kernel
      rw [this]
    rw [ho] at h
    have herr : denote {} toks = .error .duplicateName := by
      have : (lexText text3).all (fun toks => match denote {} toks with
          | .error .duplicateName => true | _ => false) = true := by decide +kernel
      rw [hl] at this
      simp only [Option.all_some] at this
      split at this
      · rename_i ht; exact ht
      · cases this
    rw [herr] at h
    exact h

/-- … which the kernel confirms by running `read` -/
example : (read {} Config.init (.string text3) 1000).cfg.errText =
    some [100, 117, 112, 108, 105, 99, 97, 116, 101, 32, 115, 101, 116, 116, 105, 110, 103, 32, 110, 97,
      109, 101] := by decide +kernel

/-- … and with `ALLOW_OVERRIDES` set in the reading configuration the same text is accepted, the
later `a` at the end (by running `read`; `denoteText { allowOverrides := true } text3` above is
the same tree) -/
example :
    (read {} { Config.init with options := OPT_ALLOW_OVERRIDES } (.string text3) 1000).ok = true ∧
    C01Parse.rows (stripPos
      (read {} { Config.init with options := OPT_ALLOW_OVERRIDES } (.string text3) 1000).cfg.root) =
      [row none T_GROUP 0 0 0 none 2, row (some [98]) T_INT 0 2 0 none 0,
       row (some [97]) T_INT 0 3 0 none 0] := by decide +kernel

/-- how `C02D_read_string` yields a failure, for a text whose scanning the kernel can carry out:
the side conditions and the interpreter's verdict are decidable -/
theorem read_fails_of_lexText (text : Bytes) (k : ErrKind)
    (h : (match lexText text with
      | some toks => checkToks toks &&
          (match denote {} toks with | .error k' => decide (k' = k) | .ok _ => false)
      | none => false) = true)
    (hfuel : (read {} Config.init (.string text) 1000).result ≠ .outOfFuel) :
    (read {} Config.init (.string text) 1000).ok = false ∧
    (read {} Config.init (.string text) 1000).result = .abort ∧
    (read {} Config.init (.string text) 1000).cfg.errText = some k.text := by
  cases hl : lexText text with
  | none => rw [hl] at h; cases h
  | some toks =>
    rw [hl] at h
    simp only [Bool.and_eq_true] at h
    have hr := read_string_of_lexText Config.init text toks hl h.1 hfuel
    have ho : ({ allowOverrides := Config.init.opt OPT_ALLOW_OVERRIDES } : Options) = {} := by
      have : Config.init.opt OPT_ALLOW_OVERRIDES = false := by decide +kernel
      rw [this]
    rw [ho] at hr
    have h2 := h.2
    cases hd : denote {} toks with
    | ok t => rw [hd] at h2; cases h2
    | error k' =>
      rw [hd] at h2 hr
      simp only [decide_eq_true_eq] at h2
      subst h2
      exact hr

/-- a mismatched array element: the theorem yields the failure and its message -/
example : (read {} Config.init (.string (bytesOfString "a = [1, \"x\"];")) 1000).cfg.errText =
    some ErrKind.arrayElemType.text :=
  (read_fails_of_lexText _ .arrayElemType (by decide +kernel) (by decide +kernel)).2.2

/-- a syntax error -/
example : (read {} Config.init (.string (bytesOfString "a = (,1);")) 1000).cfg.errText =
    some ErrKind.syntax.text :=
  (read_fails_of_lexText _ .syntax (by decide +kernel) (by decide +kernel)).2.2

/-- the first offence wins: the duplicate in front of the missing `=` -/
example : (read {} Config.init (.string (bytesOfString "a = 1; a")) 1000).cfg.errText =
    some ErrKind.duplicateName.text :=
  (read_fails_of_lexText _ .duplicateName (by decide +kernel) (by decide +kernel)).2.2

/-! ### the documented grammar

With `C02_sound` / `C02_complete` (soundness and completeness of the compiled tables with respect
to `Grammar.lean`) the theorems above tie the interpreter to the documented BNF, for every token
sequence a scanner run delivers: what it accepts is a sentence of the grammar; what it rejects
as a syntax error is none.  (A sentence of the grammar can still be rejected for a duplicate
name or a mismatched element.) -/

/-- the kinds (`YYTRANSLATE`) of a token sequence -/
def kinds (toks : List (Nat × TokVal)) : List Nat :=
  toks.map fun tv => translateTok Generated.parser tv.1

theorem lexes_det {E : ParserEnv} {s s₁ s₂ : ScanState} {toks₁ toks₂ : List (Nat × TokVal)}
    (h1 : C02P.Lexes E s toks₁ s₁) (h2 : C02P.Lexes E s toks₂ s₂) : toks₁ = toks₂ := by
  induction h1 generalizing toks₂ s₂ with
  | eof s s' hy =>
    cases h2 with
    | eof _ _ hy' => rfl
    | tok _ _ _ _ _ _ hy' _ => rw [hy] at hy'; cases hy'
    | incl _ _ _ _ _ _ _ _ hy' _ => rw [hy] at hy'; cases hy'
  | tok s sa s' t v rest hy _ ih =>
    cases h2 with
    | eof _ _ hy' => rw [hy] at hy'; cases hy'
    | tok _ sb _ t' v' rest' hy' hl' =>
      rw [hy] at hy'
      cases hy'
      rw [ih hl']
    | incl _ _ _ _ _ _ _ _ hy' _ => rw [hy] at hy'; cases hy'
  | incl s sa s' t text file line rest hy _ ih =>
    cases h2 with
    | eof _ _ hy' => rw [hy] at hy'; cases hy'
    | tok _ _ _ _ _ _ hy' _ => rw [hy] at hy'; cases hy'
    | incl _ sb _ t' text' file' line' rest' hy' hl' =>
      rw [hy] at hy'
      cases hy'
      rw [ih hl']

/-- a parse context over a cleared configuration with the option `ALLOW_OVERRIDES` as in `o` -/
def startCtx (o : Options) : ParseCtx :=
  { cfg := { options := if o.allowOverrides then OPT_ALLOW_OVERRIDES else 0 } }

theorem startCtx_opt (o : Options) :
    (startCtx o).cfg.opt OPT_ALLOW_OVERRIDES = o.allowOverrides := by
  cases o with
  | mk ov => cases ov <;> decide

/-- **What the interpreter accepts is a sentence of the documented grammar.** -/
theorem C02D_ok_derivable (w : World) (c₀ : Config) (lexFuel : Nat) (o : Options)
    (toks : List (Nat × TokVal)) (hnames : NamesValid toks) (hnest : nesting toks ≤ maxNesting)
    (s₀ s₁ : ScanState) (hlex : C02.LexesTo (theEnv w c₀ lexFuel) s₀ toks s₁) (t : Node)
    (hd : denote o toks = .ok t) : Grammar.Derivable (kinds toks) := by
  obtain ⟨N, s', ctx', hN, _⟩ := C02D_accept_total w c₀ lexFuel o toks hnames hnest s₀ s₁
    (startCtx o) hlex rfl rfl rfl (startCtx_opt o) t hd
  obtain ⟨toks', hl', hder⟩ := C02P.yyparse_sound (E := theEnv w c₀ lexFuel) C02P.edges_ok
    (C02P.tokNZ_theEnv w c₀ lexFuel) N s₀ s' (startCtx o) ctx' (hN N (Nat.le_refl _))
  rw [lexes_det (lexes_of_lexesTo hlex) hl']
  exact hder

/-- **What the interpreter rejects as a syntax error is no sentence of the documented
grammar.** -/
theorem C02D_syntax_not_derivable (w : World) (c₀ : Config) (lexFuel : Nat) (o : Options)
    (toks : List (Nat × TokVal)) (hnames : NamesValid toks) (hnest : nesting toks ≤ maxNesting)
    (s₀ s₁ : ScanState) (hlex : LexesToPlain (theEnv w c₀ lexFuel) s₀ toks s₁)
    (hd : denote o toks = .error .syntax) : ¬ Grammar.Derivable (kinds toks) := by
  intro hder
  obtain ⟨N, hN⟩ := C02D_error_total w c₀ lexFuel o toks hnames hnest s₀ s₁ (startCtx o)
    hlex.lexesTo rfl rfl rfl (startCtx_opt o) .syntax hd
  cases hp : yyparse (theEnv w c₀ lexFuel) N s₀ (startCtx o) with
  | mk s' rest =>
    cases rest with
    | mk ctx' r =>
      have hr : r = .abort := by
        have := hN N (Nat.le_refl _)
        rw [hp] at this
        exact this
      have h := C02D_error w c₀ lexFuel o toks hnames hnest N s₀ s₁ s' (startCtx o) ctx' r hlex
        rfl rfl rfl (startCtx_opt o) rfl hp (by rw [hr]; decide) .syntax hd
      have hlk : C02C.LexK (theEnv w c₀ lexFuel) s₀ (kinds toks ++ [0]) := by
        clear hd hN hp h hder hnames hnest
        induction hlex with
        | eof s s' hy => exact .eof _ _ hy
        | tok s s₁ s' t v rest hy _ ih => exact .tok _ _ _ _ _ hy ih
      have hbad := C02C.yyparse_complete (E := theEnv w c₀ lexFuel) C02C.cfacts N s₀ (startCtx o)
        (kinds toks) hlk hder (by intro h0; cases h0)
      rw [hp] at hbad
      exact hbad ⟨h.1, by rw [h.2]; rfl⟩

/-- the two theorems at work: the tokens of text 1 (which `denote` accepts) are a sentence of
the documented grammar; those of `a = (,1);` (a syntax error) are not -/
example : ∀ toks, lexText text1 = some toks → Grammar.Derivable (kinds toks) := by
  intro toks hl
  obtain ⟨s₁, h⟩ := lexAll_plain 200 _ _ hl
  have hck : (lexText text1).all checkToks = true := by decide +kernel
  rw [hl] at hck
  obtain ⟨hn, hd⟩ := checkToks_spec hck
  have hok : (lexText text1).all (fun toks => match denote {} toks with | .ok _ => true | .error _ => false)
      = true := by decide +kernel
  rw [hl] at hok
  simp only [Option.all_some] at hok
  split at hok
  · rename_i t ht
    exact C02D_ok_derivable {} Config.init 1000 {} toks hn hd _ s₁ h.lexesTo t ht
  · cases hok

example : ∀ toks, lexText (bytesOfString "a = (,1);") = some toks →
    ¬ Grammar.Derivable (kinds toks) := by
  intro toks hl
  obtain ⟨s₁, h⟩ := lexAll_plain 200 _ _ hl
  have hck : (lexText (bytesOfString "a = (,1);")).all checkToks = true := by decide +kernel
  rw [hl] at hck
  obtain ⟨hn, hd⟩ := checkToks_spec hck
  have herr : (lexText (bytesOfString "a = (,1);")).all (fun toks => match denote {} toks with
      | .error .syntax => true | _ => false) = true := by decide +kernel
  rw [hl] at herr
  simp only [Option.all_some] at herr
  split at herr
  · rename_i ht
    exact C02D_syntax_not_derivable {} Config.init 1000 {} toks hn hd _ s₁ h ht
  · cases herr

/-! ### FINDING: include errors

When the scanner reports an include error (a file that cannot be opened, includes nested too
deeply, an error of the include function) it records its own message and hands the parser the
token TOK_ERROR; `libconfig_yyerror` keeps the first message of a read.  The parser may fetch
that token as lookahead BEFORE it runs the action for the tokens in front of it — so even an
offence that precedes the failing `@include` in the text is then reported with the include
error's message.  Hence the hypothesis `LexesToPlain` of the rejecting direction.  Example:
```
a = [1, "x"
@include "nofile"
];
```
The tokens in front of the include directive already contain the mismatching element `"x"`
(which `denote` reports), but the string is only stored once the token after it has been seen;
the read fails (as `C02D_rejects_env` says) with the message "cannot open include file". -/

/-- the tokens of a text, include errors handed over as their error token -/
def lexAllI (E : ParserEnv) : Nat → ScanState → Option (List (Nat × TokVal))
  | 0, _ => none
  | n + 1, s =>
    match yylex E.T E.sacts E.w E.ic E.lexFuel s with
    | (_, .eof) => some []
    | (s', .tok t v) => (lexAllI E n s').map ((t, v) :: ·)
    | (s', .includeError t _ _ _) => (lexAllI E n s').map ((t, {}) :: ·)
    | _ => none

theorem lexAllI_sound {E : ParserEnv} : ∀ (n : Nat) (s : ScanState) (toks : List (Nat × TokVal)),
    lexAllI E n s = some toks → ∃ s', C02.LexesTo E s toks s'
  | 0, _, _, h => by cases h
  | n + 1, s, toks, h => by
    rw [lexAllI] at h
    split at h
    · rename_i s' hy
      cases h
      exact ⟨s', .eof s s' hy⟩
    · rename_i s' t v hy
      cases hr : lexAllI E n s' with
      | none => rw [hr] at h; cases h
      | some ts =>
        rw [hr] at h
        cases h
        obtain ⟨s'', hl⟩ := lexAllI_sound n s' ts hr
        exact ⟨s'', .tok s s' s'' t v ts hy hl⟩
    · rename_i s' t text file line hy
      cases hr : lexAllI E n s' with
      | none => rw [hr] at h; cases h
      | some ts =>
        rw [hr] at h
        cases h
        obtain ⟨s'', hl⟩ := lexAllI_sound n s' ts hr
        exact ⟨s'', .incl s s' s'' t text file line ts hy hl⟩
    · cases h

def includeText : Bytes := bytesOfString "a = [1, \"x\"\n@include \"nofile\"\n];"

/-- the counterexample to the rejecting direction without `LexesToPlain` -/
theorem C02D_include_error_text :
    (lexAllI (theEnv {} Config.init 1000) 200
        (C01Parse.readScanStart none (cstr includeText))).map (fun toks => view (denote {} toks)) =
      some (.error .arrayElemType) ∧
    (read {} Config.init (.string includeText) 1000).result = .abort ∧
    (read {} Config.init (.string includeText) 1000).cfg.errText = some Generated.ERR_BAD_INCLUDE ∧
    Generated.ERR_BAD_INCLUDE ≠ ErrKind.arrayElemType.text := by decide +kernel

/-! ### FINDING: the statement is false without the bound on the nesting

`libconfig_yyparse` has a stack limit (`YYMAXDEPTH` = 10000 entries) and gives up with "memory
exhausted" (return value 2) when a text nests too deeply — an outcome the documentation of the
file format does not mention and the reference interpreter does not have.  The witness is the
one of `C01Parse.C01_deep_nesting_exhausts`: `a = ( ( … ( ) … ) );` with 4998 nested lists.  The
interpreter reads it as the tree of nested lists; its names are valid; its nesting measure is
4998 > `maxNesting`; the parser answers `exhausted`.  (The kernel cannot evaluate a parse of that
size, so this is proved, not decided.) -/

/-- the deep text: what the interpreter says, and the side conditions it meets and fails -/
theorem C02D_deep_denotes (d bufLen : Nat) (o : Options) :
    denote o (tokensOfConfig Generated.tokens bufLen (C01Parse.deepConfig d)) =
      .ok { ty := T_GROUP, kids := [{ C01Parse.nestedLists d with name := some [97] }] } ∧
    NamesValid (tokensOfConfig Generated.tokens bufLen (C01Parse.deepConfig d)) ∧
    d + 1 ≤ nesting (tokensOfConfig Generated.tokens bufLen (C01Parse.deepConfig d)) := by
  rw [C01Parse.deepConfig_pp, C01Parse.nestedLists_pp]
  refine ⟨?_, ?_, ?_⟩
  · unfold denote
    rw [C02D.items_deep]
    have hlen : (tokensOfConfig Generated.tokens bufLen (C01PP.deepConfig d)).length =
        (C02D.deepItems d).length := by
      rw [← C02D.items_deep bufLen d, List.length_map]
    rw [C02D.settings_deep o d _ (by
      rw [hlen]
      unfold C02D.deepItems
      simp only [List.length_cons, List.length_append, List.length_replicate, List.length_nil]
      omega)]
  · intro tv htv hname
    rcases C02D.mem_tokens_deep bufLen d tv htv with rfl | rfl | rfl | rfl | rfl
    · decide
    all_goals exact absurd hname (by decide)
  · unfold nesting
    rw [C02D.items_deep]
    exact C02D.nesting_deep d

/-- the statement of `C02D_parse_denotes` without the nesting bound -/
def UnboundedStatement : Prop :=
  ∀ (w : World) (c₀ : Config) (lexFuel : Nat) (o : Options) (toks : List (Nat × TokVal)),
    NamesValid toks →
    ∀ (fuel : Nat) (s₀ s₁ s' : ScanState) (ctx₀ ctx' : ParseCtx) (r : ParseResult),
      LexesToPlain (theEnv w c₀ lexFuel) s₀ toks s₁ →
      stripPos ctx₀.cfg.root = { ty := T_GROUP } → ctx₀.parent = some [] → ctx₀.str = none →
      ctx₀.cfg.opt OPT_ALLOW_OVERRIDES = o.allowOverrides → ctx₀.cfg.errText = none →
      yyparse (theEnv w c₀ lexFuel) fuel s₀ ctx₀ = (s', ctx', r) → r ≠ .outOfFuel →
      match denote o toks with
      | .ok t => r = .accept ∧ stripPos ctx'.cfg.root = t
      | .error k => r = .abort ∧ ctx'.cfg.errText = some k.text

/-- **The counterexample**: under exactly the hypotheses of `C02D_accept` except the nesting
bound, for the text `a = ( ( … ( ) … ) );` with at least 4998 nested lists — which `denote` reads
as a configuration — whatever `yyparse` returns with enough fuel is `exhausted`, not
acceptance. -/
theorem C02D_deep_nesting_exhausts (d : Nat) (hd : 4997 ≤ d) (w : World) (c₀ : Config)
    (lexFuel bufLen fuel : Nat) (s₀ s₁ s' : ScanState) (ctx₀ ctx' : ParseCtx) (r : ParseResult)
    (hlex : C02.LexesTo (theEnv w c₀ lexFuel) s₀
      (tokensOfConfig Generated.tokens bufLen (C01Parse.deepConfig d)) s₁)
    (hroot : stripPos ctx₀.cfg.root = { ty := T_GROUP }) (hpar : ctx₀.parent = some [])
    (hstr : ctx₀.str = none)
    (h : yyparse (theEnv w c₀ lexFuel) fuel s₀ ctx₀ = (s', ctx', r)) (hr : r ≠ .outOfFuel) :
    r = .exhausted ∧
    ∃ t, denote {} (tokensOfConfig Generated.tokens bufLen (C01Parse.deepConfig d)) = .ok t :=
  ⟨C01Parse.C01_deep_nesting_exhausts d hd w c₀ lexFuel bufLen fuel s₀ s₁ s' ctx₀ ctx' r hlex hroot
    hpar hstr h hr, _, (C02D_deep_denotes d bufLen {}).1⟩

/-- Hence: as soon as some scanner run delivers the tokens of `a = ( ( … ( ) … ) );` with 4998
nested lists (which the lexing half of C01 establishes for the written form of
`C01Parse.deepConfig 4997`), the statement without the nesting bound is refuted. -/
theorem C02D_unbounded_statement_false (w : World) (c₀ : Config) (lexFuel bufLen : Nat)
    (s₀ s₁ : ScanState)
    (hlex : LexesToPlain (theEnv w c₀ lexFuel) s₀
      (tokensOfConfig Generated.tokens bufLen (C01Parse.deepConfig 4997)) s₁) :
    ¬ UnboundedStatement := by
  intro H
  obtain ⟨N, hN⟩ := C01Parse.C01_deep_nesting_exhausts_total 4997 (Nat.le_refl _) w c₀ lexFuel bufLen
    s₀ s₁ { cfg := {} } hlex.lexesTo rfl rfl rfl
  have hres := hN N (Nat.le_refl _)
  obtain ⟨hden, hnames, _⟩ := C02D_deep_denotes 4997 bufLen {}
  generalize tokensOfConfig Generated.tokens bufLen (C01Parse.deepConfig 4997) = toks at hlex hden hnames
  cases hp : yyparse (theEnv w c₀ lexFuel) N s₀ { cfg := {} } with
  | mk s' rest =>
    cases rest with
    | mk ctx' r =>
      rw [hp] at hres
      simp only at hres
      have hthis := H w c₀ lexFuel {} toks hnames N s₀ s₁ s'
        { cfg := {} } ctx' r hlex rfl rfl rfl (by decide) rfl hp (by rw [hres]; decide)
      rw [hden] at hthis
      rw [hres] at hthis
      exact absurd hthis.1 (by decide)

end Libconfig.C02Denote
