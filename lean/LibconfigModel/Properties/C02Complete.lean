import LibconfigModel.Properties.C02
import LibconfigModel.Proofs.C02Complete
/-
  C02 (continued) — completeness direction: a text whose token kinds are derivable from the
  documented grammar is never rejected with a syntax error by the compiled parser.
  Statements only; helper lemmas live in LibconfigModel/Proofs/C02Complete*.lean.
-/
namespace Libconfig.C02
open Grammar

/-- the message of a syntactic rejection -/
def syntaxErrorText : Bytes := [115, 121, 110, 116, 97, 120, 32, 101, 114, 114, 111, 114]

/-- If the input lexes to a token sequence (ending in end of input) whose kinds are derivable
from the documented grammar, the parser — over the translated tables, with the real scanner
model and the real actions, started with no pending error message — does not report a syntax
error: whatever it returns, it is not the abort with the message "syntax error" (it accepts, or
it stops for a reason that is not syntactic: a semantic action aborted — duplicate name /
mismatched array element —, the stack limit, or the fuel of the model ran out). -/
theorem C02_complete (w : World) (c : Config) (fuel : Nat) (s₀ s₁ s' : ScanState) (ctx₀ ctx' : ParseCtx)
    (toks : List (Nat × TokVal)) (r : ParseResult)
    (hlex : LexesTo (theEnv w c fuel) s₀ toks s₁)
    (hder : Derivable (toks.map fun tv => translateTok Generated.parser tv.1))
    (h0 : ctx₀.cfg.errText = none)
    (h : yyparse (theEnv w c fuel) fuel s₀ ctx₀ = (s', ctx', r)) :
    ¬ (r = .abort ∧ ctx'.cfg.errText = some syntaxErrorText) := by
  have hlex' : C02P.Lexes (theEnv w c fuel) s₀ toks s₁ := by
    clear hder h
    induction hlex with
    | eof s s' hy => exact .eof s s' hy
    | tok s s₁ s' t v rest hy _ ih => exact .tok s s₁ s' t v rest hy ih
    | incl s s₁ s' t text file line rest hy _ ih => exact .incl s s₁ s' t text file line rest hy ih
  have hb := C02C.complete_theEnv w c fuel s₀ s₁ ctx₀ toks hlex' hder h0
  rw [h] at hb
  exact hb

end Libconfig.C02
