import LibconfigModel.Proofs.C18
import LibconfigModel.Generated.ScannerTables
import LibconfigModel.Generated.ParserTables
/-
  C18 — at every position of every input the scanner recognises the longest
  lexeme matching the documented token patterns, preferring the earlier rule on
  ties; a byte that begins no token is reported (rule 47, TOK_GARBAGE), never
  skipped (flex's default ECHO rule 48 is unreachable).

  The compiled automaton (`Flex.next` over the tables regenerated from
  lib/scanner.c) is compared with the rule list `ScanSpec.documented`
  transcribed from the manual / scanner.l, for all byte strings over the full
  256-byte alphabet, in each of the five start conditions, at and away from
  the beginning of a line.  The comparison is a bisimulation check between the
  flex automaton and the derivative automaton of the rule list, evaluated by
  the kernel (`decide +kernel`; no `native_decide`).
-/
namespace Libconfig.C18
open ScanSpec Bisim

/-- candidate bisimulation, found by the untrusted search -/
def cert : Cert := mkCert Generated.scanner documented 100000

/-- the flex rule count is the length of the documented list (47 rules of
scanner.l + flex's default rule) -/
example : Generated.scanner.numRules = documented.length := by decide

/-- **Automaton equivalence.**  In every start condition, at and away from the
beginning of a line, on every byte string, the compiled scanner selects the
same rule and the same lexeme length as the documented rule list. -/
theorem C18_equiv : ∀ sc, sc < 5 → ∀ (bol : Bool) (inp : List Nat), (∀ b ∈ inp, b < 256) →
    Flex.next Generated.scanner sc bol inp = specNext documented sc bol inp :=
  checkCert_sound (R := cert) (by decide +kernel)

/-- **Longest match, earliest rule on ties.**  `specNext documented` returns
`(r, n)` exactly when `inp.take n` is a non-empty prefix matched by the active
rule `r`, no active rule matches a longer prefix, and no earlier active rule
matches the same prefix (booleans before names, floats before integers, …). -/
theorem C18_longest_first (sc : Nat) (bol : Bool) (inp : List Nat) (r n : Nat) :
    specNext documented sc bol inp = some (r, n) ↔ Selects documented sc bol inp r n :=
  specNext_eq_some_iff

/-- … and it returns nothing exactly when no active rule matches any non-empty prefix. -/
theorem C18_longest_first_none (sc : Nat) (bol : Bool) (inp : List Nat) :
    specNext documented sc bol inp = none ↔
      ∀ m, 0 < m → m ≤ inp.length → ∀ i, ¬ RuleMatches documented sc bol i (inp.take m) :=
  specNext_eq_none_iff

/-- The same, stated for the compiled scanner. -/
theorem C18_flex_longest_first (sc : Nat) (hsc : sc < 5) (bol : Bool) (inp : List Nat)
    (hb : ∀ b ∈ inp, b < 256) (r n : Nat) :
    Flex.next Generated.scanner sc bol inp = some (r, n) ↔ Selects documented sc bol inp r n := by
  rw [C18_equiv sc hsc bol inp hb]; exact specNext_eq_some_iff

/-- **Nothing is skipped.**  On non-empty input some rule of scanner.l is
selected; flex's default rule (48, ECHO: copy the byte to stdout and go on) is
never selected, in any start condition. -/
theorem C18_never_skipped : ∀ sc, sc < 5 → ∀ (bol : Bool) (inp : List Nat), inp ≠ [] →
    (∀ b ∈ inp, b < 256) → ∃ r n, specNext documented sc bol inp = some (r, n) ∧ r ≠ 48 := by
  have hcov : coverAll documented 48 5 = true := by decide +kernel
  intro sc hsc bol inp hne hb
  refine never_last (N := 48) ?_ (coverAll_lt hcov sc hsc bol) inp hne hb
  intro rule hget
  have : rule = ⟨.cls cAny, [INITIAL, SINGLE_LINE_COMMENT, MULTI_LINE_COMMENT, STRING, INCLUDE],
      false⟩ := by
    simp [documented] at hget; exact hget.symm
  exact ⟨cAny, by rw [this]⟩

/-- The same, for the compiled scanner. -/
theorem C18_flex_never_skipped (sc : Nat) (hsc : sc < 5) (bol : Bool) (inp : List Nat)
    (hne : inp ≠ []) (hb : ∀ b ∈ inp, b < 256) :
    ∃ r n, Flex.next Generated.scanner sc bol inp = some (r, n) ∧ r ≠ 48 := by
  rw [C18_equiv sc hsc bol inp hb]; exact C18_never_skipped sc hsc bol inp hne hb

/-- rule 47 (the catch-all `.`) returns TOK_GARBAGE; rule 48 is flex's ECHO -/
example : Generated.scanActions[47]? = some (.tok Generated.tokens.garbage) := by decide
example : Generated.scanActions[48]? = some .echo := by decide

/-- **Line counting.**  Every rule of scanner.l whose language contains a word
with a newline is flagged in `yy_rule_can_match_eol`, the table that makes the
generated scanner count the newlines of a lexeme (`%option yylineno`). -/
theorem C18_lineno (r : Nat) (h1 : 1 ≤ r) (h47 : r ≤ 47) (rule : SpecRule)
    (hrule : documented[r - 1]? = some rule) (w : List Nat) (hw : rule.rx.Matches w)
    (hnl : 10 ∈ w) : Generated.scanner.canMatchEol.getN r = 1 := by
  have hflags : eolFlagsOK Generated.scanner 1 (documented.take 47) = true := by decide +kernel
  refine eolFlagsOK_spec hflags r rule h1 ?_ (mentionsNl_of_matches hw hnl)
  rw [List.getElem?_take_of_lt (by omega)]
  exact hrule

/-! ### non-vacuity: concrete lexemes -/
-- "true" is a boolean (rule 34), not a name
example : Flex.next Generated.scanner 0 false [116, 114, 117, 101] = some (34, 4) := by
  decide +kernel
-- "truex" is a name (rule 36), longest match
example : Flex.next Generated.scanner 0 false [116, 114, 117, 101, 120] = some (36, 5) := by
  decide +kernel
-- "1.5" is a float (rule 37), "15" an integer (rule 38), "15L" a 64-bit integer (rule 39)
example : Flex.next Generated.scanner 0 false [49, 46, 53] = some (37, 3) := by decide +kernel
example : Flex.next Generated.scanner 0 false [49, 53] = some (38, 2) := by decide +kernel
example : Flex.next Generated.scanner 0 false [49, 53, 76] = some (39, 3) := by decide +kernel
-- "0x1F" is a hex integer (rule 40), "0x1FL" a 64-bit hex integer (rule 41)
example : Flex.next Generated.scanner 0 false [48, 120, 49, 70] = some (40, 4) := by decide +kernel
example : Flex.next Generated.scanner 0 false [48, 120, 49, 70, 76] = some (41, 5) := by
  decide +kernel
-- BEL is white space in INITIAL (rule 28)
example : Flex.next Generated.scanner 0 false [7] = some (28, 1) := by decide +kernel
-- `\v` in a string (rule 15), `\x41` (rule 19), `\q` is a lone backslash (rule 20)
example : Flex.next Generated.scanner 3 false [92, 118] = some (15, 2) := by decide +kernel
example : Flex.next Generated.scanner 3 false [92, 120, 52, 49] = some (19, 4) := by decide +kernel
example : Flex.next Generated.scanner 3 false [92, 113] = some (20, 1) := by decide +kernel
-- a lone backslash in an include path (rule 26)
example : Flex.next Generated.scanner 4 false [92, 97] = some (26, 1) := by decide +kernel
-- `@include "` only at the beginning of a line (rule 22); elsewhere `@` is garbage (rule 47)
example : Flex.next Generated.scanner 0 true [64, 105, 110, 99, 108, 117, 100, 101, 32, 34, 97]
    = some (22, 10) := by decide +kernel
example : Flex.next Generated.scanner 0 false [64, 105, 110, 99, 108, 117, 100, 101, 32, 34, 97]
    = some (47, 1) := by decide +kernel
-- a NUL byte and a byte ≥ 128 in INITIAL are garbage (rule 47), not skipped
example : Flex.next Generated.scanner 0 false [0] = some (47, 1) := by decide +kernel
example : Flex.next Generated.scanner 0 false [200, 97] = some (47, 1) := by decide +kernel
-- comments: `//` and `#` (rule 1), `/*` (rule 4), `*/` inside (rule 5)
example : Flex.next Generated.scanner 0 false [47, 47, 97] = some (1, 2) := by decide +kernel
example : Flex.next Generated.scanner 0 false [47, 42, 97] = some (4, 2) := by decide +kernel
example : Flex.next Generated.scanner 2 false [42, 47, 97] = some (5, 2) := by decide +kernel
-- the spec side agrees on a sample, and `Selects` is inhabited
example : specNext documented 0 false [116, 114, 117, 101] = some (34, 4) := by decide +kernel
example : Selects documented 0 false [116, 114, 117, 101] 34 4 :=
  (C18_longest_first _ _ _ _ _).mp (by decide +kernel)

/-! ### rule numbers and actions line up (`Generated.scanActions` is indexed by
flex rule number, recognised from the `case N:` bodies of lib/scanner.c) -/
example : Generated.scanActions[1]? = some (.begin Generated.SC_SINGLE_LINE_COMMENT) := by decide
example : Generated.scanActions[4]? = some (.begin Generated.SC_MULTI_LINE_COMMENT) := by decide
example : Generated.scanActions[8]? = some (.begin Generated.SC_STRING) := by decide
example : Generated.scanActions[15]? = some (.appendChar 11) := by decide
example : Generated.scanActions[19]? = some .appendHexChar := by decide
example : Generated.scanActions[22]? = some (.begin Generated.SC_INCLUDE) := by decide
example : Generated.scanActions[34]? = some (.tokBool Generated.tokens.boolean 1) := by decide
example : Generated.scanActions[35]? = some (.tokBool Generated.tokens.boolean 0) := by decide
example : Generated.scanActions[36]? = some (.tokName Generated.tokens.name) := by decide
example : Generated.scanActions[37]? =
    some (.tokFloat Generated.tokens.float Generated.tokens.error) := by decide
example : Generated.scanActions[41]? =
    some (.tokHex64 Generated.tokens.hex64 Generated.tokens.error) := by decide
example : Generated.scanActions.length = documented.length + 1 := by decide

/-! ### the two places where the manual's terminal table differs from scanner.l

* `<hex64>` with an optional `L` (`0[Xx][0-9A-Fa-f]+(L(L)?)?`) changes nothing:
  on a lexeme without `L` the earlier rule 40 (`<hex>`) wins the tie
  (`Bisim.findMismatch` reports no difference for that variant; not part of
  the kernel-checked statement).
* `<float>` as printed (sign mandatory in the second alternative) is not what
  the scanner does: `1e5` is one float for the scanner, but an integer `1`
  followed by a name under the printed pattern.  `documented` follows scanner.l. -/

/-- the manual's `<float>` as printed -/
def rxFloatTexi : Rx :=
  .alt
    (.cat (.opt (.cls cSign)) (.cat (.opt (.star (.cls cDigit)))
      (.cat (.cls cPeriod) (.cat (.star (.cls cDigit)) (.opt rxExponent)))))
    (.cat (.cls cSign) (.cat (.plus (.cls cDigit))
      (.cat (.opt (.cat (.cls cPeriod) (.star (.cls cDigit)))) rxExponent)))

/-- replace the pattern of rule `i` (counting from 1) -/
def setRule : Nat → Rx → List SpecRule → List SpecRule
  | _, _, [] => []
  | 0, _, rs => rs
  | 1, r, x :: rs => { x with rx := r } :: rs
  | i + 1, r, x :: rs => x :: setRule i r rs

example : Flex.next Generated.scanner 0 false [49, 101, 53] = some (37, 3) := by decide +kernel
example : specNext documented 0 false [49, 101, 53] = some (37, 3) := by decide +kernel
example : specNext (setRule 37 rxFloatTexi documented) 0 false [49, 101, 53] = some (38, 1) := by
  decide +kernel

/-- Every scanner rule action of the compiled scanner has its catalogued text (the translator
re-reads the `case N:` bodies of lib/scanner.c on every run; an edited action becomes
`.unknown`), and so has the shared `<<EOF>>` action. -/
theorem C18_actions_known :
    (∀ a ∈ Generated.scanActions.drop 1, a ≠ ScanAct.unknown) ∧ Generated.scanner.eofActionKnown = true ∧
    Generated.scanActions.length = Generated.scanner.numRules + 1 := by decide

end Libconfig.C18
