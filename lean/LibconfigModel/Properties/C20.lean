import LibconfigModel.Read
/-
  C20 — string, stream and file inputs of the same bytes give the same result.
  (1) The matcher is independent of how the input is cut into buffer refills.
  (2) The string and stream entry points are the same function of the bytes.
-/
namespace Libconfig.C20
open Flex

/-- state of the matching loop when the buffer runs out in the middle of a token:
either the match is already decided, or the automaton is suspended -/
inductive Partial where
  | done (r : Option (Nat × Nat))
  | more (s pos : Nat) (last : Option (Nat × Nat))
deriving Repr, DecidableEq

/-- the matching loop without end-of-input handling -/
def scanPartial (T : FlexTables) : Nat → Bytes → Nat → Option (Nat × Nat) → Partial
  | s, [], pos, last => .more s pos last
  | s, c :: cs, pos, last =>
    let last' := if T.accept.getN s != 0 then some (T.accept.getN s, pos) else last
    let s' := step T s c
    if s' == T.jamState then .done last' else scanPartial T s' cs (pos + 1) last'

/-- real end of input: `yy_get_previous_state` + `yy_find_action` -/
def finish (T : FlexTables) : Partial → Option (Nat × Nat)
  | .done r => r
  | .more s pos last => if T.accept.getN s != 0 then some (T.accept.getN s, pos) else last

/-- a refill: the token so far is kept, the next chunk is appended and matching continues
from the state reached (flex recomputes that state from the token start, which gives the
same state because the automaton is deterministic) -/
def resume (T : FlexTables) : Partial → Bytes → Partial
  | .done r, _ => .done r
  | .more s pos last, chunk => scanPartial T s chunk pos last

theorem scan_eq_finish (T : FlexTables) (s : Nat) (inp : Bytes) (pos : Nat) (last : Option (Nat × Nat)) :
    scan T s inp pos last = finish T (scanPartial T s inp pos last) := by
  induction inp generalizing s pos last with
  | nil => simp [scan, scanPartial, finish]
  | cons c cs ih =>
    simp only [scan, scanPartial]
    split
    · simp [finish]
    · exact ih _ _ _

theorem scanPartial_append (T : FlexTables) (s : Nat) (a b : Bytes) (pos : Nat) (last : Option (Nat × Nat)) :
    scanPartial T s (a ++ b) pos last = resume T (scanPartial T s a pos last) b := by
  induction a generalizing s pos last with
  | nil => simp [scanPartial, resume]
  | cons c cs ih =>
    simp only [List.cons_append, scanPartial]
    split
    · simp [resume]
    · exact ih _ _ _

/-- Chunking independence: however the input of a token is delivered in pieces, the rule
matched and the match length are those of the concatenated input. -/
theorem C20_chunking (T : FlexTables) (sc : Nat) (bol : Bool) (chunks : List Bytes) :
    finish T (chunks.foldl (resume T) (.more (startState sc bol) 0 none)) = next T sc bol chunks.flatten := by
  unfold next
  rw [scan_eq_finish]
  congr 1
  have hdone : ∀ (cs : List Bytes) (r : Option (Nat × Nat)), cs.foldl (resume T) (.done r) = .done r := by
    intro cs r
    induction cs with
    | nil => rfl
    | cons d ds ih => simpa [resume] using ih
  have key : ∀ (cs : List Bytes) (s pos : Nat) (last : Option (Nat × Nat)),
      cs.foldl (resume T) (.more s pos last) = scanPartial T s cs.flatten pos last := by
    intro cs
    induction cs with
    | nil => intro s pos last; simp [scanPartial]
    | cons c cs ih =>
      intro s pos last
      simp only [List.foldl_cons, List.flatten_cons, scanPartial_append]
      have hres : resume T (Partial.more s pos last) c = scanPartial T s c pos last := rfl
      rw [hres]
      cases h : scanPartial T s c pos last with
      | done r => rw [hdone]; rfl
      | more s' pos' last' => rw [ih s' pos' last']; rfl
  exact key chunks _ _ _

/-- The string and stream entry points are the same function of the bytes (a NUL-free
text; a C string ends at its first NUL). -/
theorem C20_string_stream (w : World) (c : Config) (s : Bytes) (fuel : Nat) (h : ∀ b ∈ s, b ≠ 0) :
    read w c (.string s) fuel = read w c (.stream s) fuel := by
  have : cstr s = s := by
    unfold cstr
    induction s with
    | nil => rfl
    | cons b bs ih =>
      have hb : b ≠ 0 := h b (by simp)
      simp only [List.takeWhile_cons, bne_iff_ne, ne_eq, hb, not_false_eq_true, ↓reduceIte]
      rw [ih (fun x hx => h x (by simp [hx]))]
  simp only [read, this]

/-- A file is read by the same function as a stream, applied to the file's content (the
only difference is the file name handed to the scan context). -/
theorem C20_file_is_stream_core (w : World) (c : Config) (p s : Bytes) (fuel : Nat) (h : w.open? p = some s) :
    (read w c (.file p) fuel).cfg = (readCore w c (some p) s fuel).cfg ∧
    (read w c (.stream s) fuel).cfg = (readCore w c none s fuel).cfg := by
  simp [read, h]

/-! Non-vacuity: "true" delivered as "tr" + "ue" is still the boolean rule 34, length 4 -/
example : finish Generated.scanner ([[116, 114], [117, 101]].foldl (resume Generated.scanner)
    (.more (startState 0 false) 0 none)) = some (34, 4) := by decide

end Libconfig.C20
