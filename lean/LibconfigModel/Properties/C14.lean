import LibconfigModel.Threads
import LibconfigModel.Generated.Inventory
/-
  C14 — independent configurations can be used from different threads concurrently.
  (i) inventories re-extracted from /repo on every run: the only static object the library
  ever writes is the fatal-error function pointer; no imported libc function is on the
  POSIX list of functions that need not be thread-safe;
  (ii) in the footprint model every interleaving gives each thread exactly the results of
  running alone.
-/
namespace Libconfig.C14
open Generated

/-- Every object with static storage duration outside read-only sections is never written
and never has its address taken — except the fatal-error function pointer, which only
`config_set_fatal_error_func` writes (out of scope of the property). -/
theorem C14_statics : ∀ o ∈ staticObjects,
    (o.written = false ∧ o.addressTaken = false) ∨ o.name = "__libconfig_fatal_error_func" := by decide

/-- functions POSIX does not require to be thread-safe (plus `setlocale`, which changes the
process-wide locale) -/
def mtUnsafe : List String :=
  ["setlocale", "localeconv", "strtok", "rand", "srand", "getenv", "putenv", "setenv", "unsetenv", "strerror",
   "asctime", "ctime", "gmtime", "localtime", "tmpnam", "ttyname", "readdir", "getpwnam", "getpwuid", "getgrnam",
   "getgrgid", "gethostbyname", "basename", "dirname", "getopt", "drand48", "lrand48", "mrand48", "ecvt", "fcvt",
   "gcvt", "crypt", "ptsname", "nl_langinfo", "wcstombs", "wctomb", "mblen", "mbtowc", "strsignal", "catgets",
   "getc_unlocked", "putc_unlocked", "getchar_unlocked", "putchar_unlocked", "system", "l64a", "getlogin"]

/-- The fatal-error function pointer — the one static object that is written — is written by
exactly one function, the setter: no other library code (in particular not the path that
*calls* the handler on an allocation failure) ever changes which handler is installed, so
a failure handled on one thread cannot change what a later failure does on any thread. -/
theorem C14_writers :
    staticWriters = [("util.c", "__libconfig_fatal_error_func", "libconfig_set_fatal_error_func")] := by decide

/-- …and the setter is reached from the public `config_set_fatal_error_func` and — the known
finding `C14:cpp-constructor-writes-global-handler` — from every C++ `Config` constructor; from
nowhere else. -/
theorem C14_setter_calls : ∀ c ∈ handlerSetterCalls,
    c = ("libconfig.c", "config_set_fatal_error_func", "libconfig_set_fatal_error_func") ∨
    c = ("libconfigcpp.c++", "Config::Config", "config_set_fatal_error_func") := by decide

theorem C14_imports : ∀ f ∈ imports, f ∉ mtUnsafe := by decide +kernel

theorem C14_inventory_complete : inventoryErrors = [] := by decide

/-- number of steps thread `t` has been given by the schedule -/
def turns (sched : List Nat) (t : Nat) : Nat := sched.count t

theorem stepThread_other (T : Threads) (t u : Nat) (h : u ≠ t) :
    (T.stepThread t).state u = T.state u ∧ (T.stepThread t).prog u = T.prog u ∧ (T.stepThread t).outs u = T.outs u := by
  unfold Threads.stepThread
  cases T.prog t <;> simp [h]

/-- Serialisability per thread: after ANY schedule, every thread has exactly the state and
the outputs it would have after running the same number of its own operations alone. -/
theorem C14_serial (T : Threads) (sched : List Nat) (t : Nat) :
    ((T.runSchedule sched).state t, (T.runSchedule sched).outs t) =
      runAlone (T.state t) (T.outs t) (T.prog t) (turns sched t) ∧
    (T.runSchedule sched).prog t = (T.prog t).drop (turns sched t) := by
  induction sched generalizing T with
  | nil => simp [Threads.runSchedule, turns, runAlone]
  | cons u us ih =>
    simp only [Threads.runSchedule, List.foldl_cons] at ih ⊢
    have := ih (T.stepThread u)
    by_cases hu : u = t
    · subst hu
      simp only [turns, List.count_cons_self] at this ⊢
      rw [this.1, this.2]
      unfold Threads.stepThread
      cases hp : T.prog u with
      | nil => cases us.count u <;> simp [runAlone, hp]
      | cons op rest => simp [runAlone]
    · have ho := stepThread_other T u t (fun h => hu h.symm)
      have hc : turns (u :: us) t = turns us t := by simp [turns, hu]
      rw [hc, this.1, this.2, ho.1, ho.2.1, ho.2.2]
      exact ⟨rfl, rfl⟩

/-- In particular a thread's final results do not depend on what the other threads do:
two runs in which thread `t` has the same program and the same number of turns agree on `t`. -/
theorem C14_independent (progs₁ progs₂ : Nat → List Op) (s₁ s₂ : List Nat) (t : Nat)
    (hp : progs₁ t = progs₂ t) (ht : turns s₁ t = turns s₂ t) :
    ((Threads.init progs₁).runSchedule s₁).state t = ((Threads.init progs₂).runSchedule s₂).state t ∧
    ((Threads.init progs₁).runSchedule s₁).outs t = ((Threads.init progs₂).runSchedule s₂).outs t := by
  have a := (C14_serial (Threads.init progs₁) s₁ t).1
  have b := (C14_serial (Threads.init progs₂) s₂ t).1
  simp only [Threads.init] at a b
  rw [hp, ht] at a
  have := a.trans b.symm
  exact ⟨congrArg Prod.fst this, congrArg Prod.snd this⟩

/-- Non-vacuity: two threads, interleaved 0,1,1,0: thread 1's add succeeds exactly as alone -/
example : ((((Threads.init (fun t => if t = 0 then [.add [] (some [97]) 2, .setInt [0] 5] else [.add [] (some [98]) 5, .length []])).runSchedule [0, 1, 1, 0]).outs 1).map
      (fun o => match o.res with | .nat n => n | .ptr (some p) => (p.length : Int) | _ => -1)) = [1, 1] := by decide

end Libconfig.C14
