import LibconfigModel.WF
namespace Libconfig.C19
end Libconfig.C19
