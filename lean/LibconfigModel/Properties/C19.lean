import LibconfigModel.Generated.Constants
import LibconfigModel.WriterSpec
import LibconfigModel.Proofs.C19
/-
  C19 — output options change presentation only, exactly as documented.
  Statements only; helper lemmas live in LibconfigModel/Proofs/C19.lean.
-/
namespace Libconfig.C19

/-- The bytes `config_write` produces are exactly the rendering of the item sequence
`wtoksConfig` (so the statements below, which are about items, are about the real output). -/
theorem C19_bytes (bufLen : Nat) (c : Config) :
    c.write bufLen = (wtoksConfig bufLen c).flatMap WTok.bytes := by
  simp [Config.write, writeSetting, wtoksConfig, prefix_bytes, value_bytes, suffix_bytes]

/-- Any two settings of the presentation attributes (all option bits, tab width, float
precision, default format) give the same token sequence up to white space, `;`, the
`=`/`:` choice, float spelling and the hex/decimal spelling of integers. -/
theorem C19_tokens_invariant (bufLen : Nat) (c : Config) (o₁ o₂ : OutOpts) :
    norm (wtoksConfig bufLen (c.withOut o₁)) = norm (wtoksConfig bufLen (c.withOut o₂)) :=
  norm_config bufLen _ _ rfl

/-- what the documentation promises for the indentation of a member at nesting depth `d`
(number of enclosing groups/lists below the root): `d·w` spaces, or `d` tabs when `w = 0` -/
def indentSpec (w d : Nat) : Bytes := if w = 0 then List.replicate d 9 else List.replicate (d * w) 32

theorem C19_indent (w d : Nat) (hd : d ≥ 1) : indent (d + 1) w = indentSpec w d :=
  indent_succ w d hd

/-- Each group member is written as: its indentation (nothing at the top level), its own
items, an optional `;`, a newline — so every member starts on its own line. -/
theorem C19_member_layout (bufLen : Nat) (c : Config) (d : Nat) (k : Node) (ks : List Node) :
    wtoksMembers bufLen c (d + 1) (k :: ks) =
      (if d ≥ 1 then [WTok.ws (indentSpec c.tabWidth d)] else []) ++
      (match k.name with
       | some nm => [WTok.name nm, .ws [32],
           .assign (if k.ty == T_GROUP then (if c.opt OPT_COLON_GROUPS then 58 else 61)
                    else (if c.opt OPT_COLON_NONGROUPS then 58 else 61)), .ws [32]]
       | none => []) ++
      wtoksValue bufLen c (d + 1) k ++
      (if c.opt OPT_SEMICOLON then [WTok.semi] else []) ++ [WTok.ws [10]] ++
      wtoksMembers bufLen c (d + 1) ks := by
  rw [wtoksMembers]; unfold prefixToks suffixToks
  by_cases hd : d ≥ 1
  · have h1 : d + 1 > 1 := by omega
    cases k.name <;> simp [hd, h1, indent_succ c.tabWidth d hd, indentSpec]
  · have h1 : ¬ d + 1 > 1 := by omega
    cases k.name <;> simp [hd, h1]

/-- tab widths above 15 act as 15 -/
theorem C19_clamp (c : Config) (w : Nat) : (c.setTabWidth w).tabWidth = min w 15 := by
  simp only [Config.setTabWidth]; split <;> omega

theorem C19_clamp_same (c : Config) (w : Nat) : c.setTabWidth w = c.setTabWidth (min w 15) := by
  simp only [Config.setTabWidth]; congr 1; split <;> split <;> omega

/-- the semicolon option only adds/removes `;` items, the assignment options only change
the assignment character: with everything else equal the item sequences differ in nothing
but those items -/
theorem C19_semicolon_only (bufLen : Nat) (c : Config) (on : Bool) :
    (wtoksConfig bufLen (c.setOption OPT_SEMICOLON on)).filter (· != WTok.semi) =
    (wtoksConfig bufLen c).filter (· != WTok.semi) :=
  nosemi_config (sameButSemi_setOption c on) rfl bufLen

/-! Non-vacuity: a two-level configuration written with two option vectors -/
def sample : Config :=
  { root := { ty := T_GROUP, kids := [
      { name := some [97], ty := T_GROUP, kids := [{ name := some [98], ty := T_INT, ival := 255 }] } ] } }

example : norm (wtoksConfig 341 (sample.withOut ⟨0, 0, 6, 1⟩)) =
          norm (wtoksConfig 341 (sample.withOut ⟨0x1e, 4, 2, 0⟩)) := by decide
example : (sample.withOut ⟨0x02, 4, 6, 1⟩).write 341 = [97, 32, 61, 32, 123, 10, 32, 32, 32, 32, 98, 32, 61, 32, 48, 120, 70, 70, 59, 10, 125, 59, 10] := by decide

/-- Bridge: the documented option bits, defaults and the clamp bound -/
theorem C19_constants :
    Generated.CONFIG_OPTION_SEMICOLON_SEPARATORS = OPT_SEMICOLON ∧
    Generated.CONFIG_OPTION_COLON_ASSIGNMENT_FOR_GROUPS = OPT_COLON_GROUPS ∧
    Generated.CONFIG_OPTION_COLON_ASSIGNMENT_FOR_NON_GROUPS = OPT_COLON_NONGROUPS ∧
    Generated.CONFIG_OPTION_OPEN_BRACE_ON_SEPARATE_LINE = OPT_BRACE_SEPARATE ∧
    Generated.CONFIG_OPTION_ALLOW_SCIENTIFIC_NOTATION = OPT_SCIENTIFIC ∧
    Generated.DEFAULT_TAB_WIDTH = 2 ∧ Generated.DEFAULT_FLOAT_PRECISION = 6 ∧ Generated.CONFIG_FORMAT_HEX = FMT_HEX := by decide

end Libconfig.C19
