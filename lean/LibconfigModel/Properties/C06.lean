import LibconfigModel.Generated.Constants
import LibconfigModel.LookupSpec
import LibconfigModel.WF
import LibconfigModel.Step
import LibconfigModel.Proofs.C06
/-
  C06 — every setting is reachable by its path, and only existing paths resolve.
  Statements only; helper lemmas live in LibconfigModel/Proofs/C06.lean.
-/
namespace Libconfig.C06

/-- Declarative meaning of a step sequence: each name step is the exact name of a member
of a group, each index step an existing position of an aggregate. -/
inductive Denotes : Node → List PStep → Path → Prop where
  | nil (n : Node) : Denotes n [] []
  | name (n k : Node) (nm : Bytes) (i : Nat) (rest : List PStep) (q : Path) :
      n.ty = T_GROUP → n.kids[i]? = some k → k.name = some nm → Denotes k rest q →
      Denotes n (.name nm :: rest) (i :: q)
  | index (n k : Node) (i : Nat) (rest : List PStep) (q : Path) :
      n.isAggregate = true → n.kids[i]? = some k → Denotes k rest q →
      Denotes n (.index i :: rest) (i :: q)

/-- no member has the empty name (a consequence of well-formedness) -/
def NoEmptyNames (n : Node) : Prop :=
  ∀ p m, n.get? p = some m → ∀ k ∈ m.kids, k.name ≠ some []

theorem noEmptyNames_of_WF (n : Node) (h : n.WF) : NoEmptyNames n :=
  C06P.noEmpty_of_WF n h

/-- The path walker of the library computes exactly the declarative resolution. -/
theorem C06_lookup_eq_resolve (n : Node) (h : NoEmptyNames n) (path : Bytes) :
    lookupFrom n path = resolve n path :=
  C06P.lookupFrom_eq_resolve n h path

/-- `walk` only follows steps that exist. -/
theorem C06_walk_denotes (n : Node) (steps : List PStep) (q : Path) (m : Node)
    (h : walk n steps = some (q, m)) : Denotes n steps q ∧ n.get? q = some m :=
  C06P.walk_denotes_gen Denotes Denotes.nil Denotes.name Denotes.index steps n q m h

/-- Soundness: whatever a lookup returns is a proper descendant of the base, reached by the
steps the path spells, each of which exists.  (So a missing member, an out-of-range index
or a continuation below a scalar resolves to nothing.) -/
theorem C06_sound (n : Node) (hn : NoEmptyNames n) (path : Bytes) (q : Path)
    (h : lookupFrom n path = some q) :
    ∃ steps trailing m, parseSteps (path.length + 1) path = some (steps, trailing) ∧ steps ≠ [] ∧
      Denotes n steps q ∧ n.get? q = some m ∧ q ≠ [] := by
  obtain ⟨steps, trailing, m, hp, hne, hw, hq⟩ := C06P.sound_walk n hn path q h
  obtain ⟨hd, hg⟩ := C06_walk_denotes n steps q m hw
  exact ⟨steps, trailing, m, hp, hne, hd, hg, hq⟩

/-- Completeness: every setting below a base `n` is found by every spelling of its index
path — names or bracketed indices, any of the three separators, with or without a leading
separator. -/
theorem C06_complete (n : Node) (hwf : n.WF) (ip : Path) (m : Node) (hne : ip ≠ [])
    (hv : n.get? ip = some m) (hidx : ∀ i ∈ ip, (i : Int) ≤ INT_MAX)
    (chs : List Choice) (hsep : ∀ c ∈ chs, isPathSep c.sep = true) (lead : Bool)
    (txt : Bytes) (hr : renderPath n ip chs lead = some txt) :
    lookupFrom n txt = some ip := by
  have _ := hv  -- implied by `hr`
  exact C06P.complete n hwf ip hne hidx chs hsep lead txt hr

/-- The path reported by the C++ `getPath()` resolves back to the same setting. -/
theorem C06_getPath (n : Node) (hwf : n.WF) (ip : Path) (m : Node) (hne : ip ≠ [])
    (hv : n.get? ip = some m) (hidx : ∀ i ∈ ip, (i : Int) ≤ INT_MAX) :
    ∃ txt, cppGetPath n ip = some txt ∧ lookupFrom n txt = some ip :=
  C06P.getPath n hwf ip m hne hv hidx

/-- A failing lookup leaves the caller's variable untouched: the typed lookups return
`none` (no value) whenever the path does not resolve. -/
theorem C06_untouched (k : Kind) (c : Config) (path : Bytes) (h : lookupFrom c.root path = none) :
    clookupVal k c path = none := by
  simp [clookupVal, h]

/-! Non-vacuity -/
def sample : Node :=
  { ty := T_GROUP, kids := [
      { name := some [97], ty := T_INT },
      { name := some [97, 98], ty := T_LIST, kids := [{ ty := T_INT },
          { ty := T_GROUP, kids := [{ name := some [120, 45, 121], ty := T_ARRAY, kids := [{ ty := T_INT }, { ty := T_INT }] }] }] } ] }

-- "ab.[1]:x-y/[1]" resolves to /1/1/0/1, "ab.[2]" and "a.[0]" resolve to nothing
example : lookupFrom sample [97, 98, 46, 91, 49, 93, 58, 120, 45, 121, 47, 91, 49, 93] = some [1, 1, 0, 1] := by decide
example : lookupFrom sample [97, 98, 46, 91, 50, 93] = none := by decide
example : lookupFrom sample [97, 46, 91, 48, 93] = none := by decide

/-- Bridge: the path separators of this run's sources are the documented `:`, `.`, `/`. -/
theorem C06_separators :
    Generated.PATH_TOKENS = [58, 46, 47] ∧ ∀ c, c < 256 → (isPathSep c = true ↔ c ∈ Generated.PATH_TOKENS) := by
  refine ⟨by decide, ?_⟩
  intro c _
  simp [isPathSep, Generated.PATH_TOKENS, or_assoc]

end Libconfig.C06
