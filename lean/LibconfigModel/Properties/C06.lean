import LibconfigModel.WF
namespace Libconfig.C06
end Libconfig.C06
