import LibconfigModel.Scanner
namespace Libconfig.C08
end Libconfig.C08
