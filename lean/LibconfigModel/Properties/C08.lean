import LibconfigModel.Scanner
import LibconfigModel.Proofs.C08
/-
  C08 — numeric literals are stored with their exact value or rejected.
  Statements only; helper lemmas live in LibconfigModel/Proofs/C08.lean.

  The languages of the rules are given constructively (sign, digit string, suffix), so
  every spelling is covered: any number of leading zeros and digits, both signs, L / LL.
  `digitsVal b ds` is the positional value of the digit string `ds` in base `b`.
-/
namespace Libconfig.C08

def signBytes : Option Bool → Bytes
  | none => []
  | some true => [45]      -- '-'
  | some false => [43]     -- '+'

def isNeg : Option Bool → Bool
  | some true => true
  | _ => false

/-- 0 = no suffix, 1 = `L`, otherwise `LL` -/
def sufBytes : Nat → Bytes
  | 0 => []
  | 1 => [76]
  | _ => [76, 76]

def signed (neg : Bool) (a : Nat) : Int := if neg then -(a : Int) else (a : Int)

def inRange64 (v : Int) : Option Int := if fits64 v then some v else none

/-- the mathematical value of a decimal/octal integer literal: a leading `0` makes it
octal (and then every digit must be below 8), otherwise decimal -/
def literalValue (sg : Option Bool) (ds : Bytes) : Option Int :=
  if ds.head? = some 48 then
    (if ds.all isOctDigit then some (signed (isNeg sg) (digitsVal 8 ds)) else none)
  else some (signed (isNeg sg) (digitsVal 10 ds))

/-! glue between the spellings above and the lemmas of `Proofs/C08.lean` -/
theorem sufBytes_cases (suf : Nat) : sufBytes suf = [] ∨ sufBytes suf = [76] ∨ sufBytes suf = [76, 76] := by
  match suf with
  | 0 => exact .inl rfl
  | 1 => exact .inr (.inl rfl)
  | _ + 2 => exact .inr (.inr rfl)

theorem splitSign_signBytes (sg : Option Bool) (ds suf : Bytes) (hne : ds ≠ [])
    (hd : ∀ c ∈ ds, isDigit c = true) :
    splitSign (signBytes sg ++ ds ++ suf) = (isNeg sg, ds ++ suf) := by
  match sg with
  | some true => rfl
  | some false => rfl
  | none =>
    show splitSign ([] ++ ds ++ suf) = (false, ds ++ suf)
    rw [List.nil_append]
    cases ds with
    | nil => exact absurd rfl hne
    | cons c t => exact C08P.splitSign_digit _ (by simpa using hd c (by simp)) (by simp)

/-- `libconfig_parse_integer` returns exactly the literal's value when it is representable
in 64 bits and reports failure otherwise — for every spelling `[-+]?[0-9]+(L(L)?)?`. -/
theorem C08_parse_integer (sg : Option Bool) (ds : Bytes) (suf : Nat) (hne : ds ≠ [])
    (hd : ∀ c ∈ ds, isDigit c = true) :
    parseInteger (signBytes sg ++ ds ++ sufBytes suf) = (literalValue sg ds).bind inRange64 := by
  rw [C08P.parseInteger_core _ (isNeg sg) ds (sufBytes suf) hne hd (sufBytes_cases suf)
    (splitSign_signBytes sg ds _ hne hd)]
  unfold literalValue inRange64 signed C08P.sval
  by_cases h0 : ds.head? = some 48
  · by_cases hall : ds.all isOctDigit = true <;> simp [h0, hall]
  · simp [h0]

/-- `{integer}` rule: int when the value fits in 32 bits, else 64-bit int, else rejected. -/
theorem C08_integer (t32 t64 e : Nat) (sg : Option Bool) (ds : Bytes) (hne : ds ≠ [])
    (hd : ∀ c ∈ ds, isDigit c = true) :
    numericTok (.tokInteger t32 t64 e) (signBytes sg ++ ds) =
      match literalValue sg ds with
      | none => (e, {})
      | some v => if fits32 v then (t32, { ival := v }) else if fits64 v then (t64, { ival := v }) else (e, {}) := by
  have h := C08_parse_integer sg ds 0 hne hd
  rw [show sufBytes 0 = [] from rfl, List.append_nil] at h
  unfold numericTok
  simp only [h]
  cases literalValue sg ds with
  | none => rfl
  | some v =>
    simp only [Option.bind_some, inRange64]
    by_cases h64 : fits64 v = true
    · simp [h64]
    · have h32 : fits32 v = false := by
        unfold fits32 fits64 INT_MIN INT_MAX LLONG_MIN LLONG_MAX at *
        simp at *; omega
      simp [h64, h32]

/-- `{integer64}` rule: the same value rule, forced 64-bit, rejected when it does not fit. -/
theorem C08_integer64 (t e : Nat) (sg : Option Bool) (ds : Bytes) (suf : Nat) (hs : suf ≥ 1) (hne : ds ≠ [])
    (hd : ∀ c ∈ ds, isDigit c = true) :
    numericTok (.tokInteger64 t e) (signBytes sg ++ ds ++ sufBytes suf) =
      match literalValue sg ds with
      | none => (e, {})
      | some v => if fits64 v then (t, { ival := v }) else (e, {}) := by
  have _ := hs
  unfold numericTok
  simp only [C08_parse_integer sg ds suf hne hd]
  cases literalValue sg ds with
  | none => rfl
  | some v =>
    simp only [Option.bind_some, inRange64]
    by_cases h64 : fits64 v = true <;> simp [h64]

/-- `libconfig_parse_hex64` on `0[Xx]hexdigits(L(L)?)?` -/
theorem C08_parse_hex (x : Nat) (hx : x = 120 ∨ x = 88) (ds : Bytes) (suf : Nat) (hne : ds ≠ [])
    (hd : ∀ c ∈ ds, isHexDigit c = true) :
    parseHex64 ([48, x] ++ ds ++ sufBytes suf) =
      if digitsVal 16 ds < 18446744073709551616 then some (digitsVal 16 ds) else none := by
  have _ := hx; have _ := hne
  exact C08P.parseHex64_core x ds _ hd (sufBytes_cases suf)

/-- `{hex}` rule: stored as the 32-bit pattern the literal spells, rejected beyond 32 bits. -/
theorem C08_hex (t e : Nat) (x : Nat) (hx : x = 120 ∨ x = 88) (ds : Bytes) (hne : ds ≠ [])
    (hd : ∀ c ∈ ds, isHexDigit c = true) :
    numericTok (.tokHex t e) ([48, x] ++ ds) =
      if digitsVal 16 ds < 4294967296 then (t, { ival := wrap32 (digitsVal 16 ds) }) else (e, {}) := by
  have h := C08_parse_hex x hx ds 0 hne hd
  rw [show sufBytes 0 = [] from rfl, List.append_nil] at h
  unfold numericTok
  simp only [h]
  by_cases h64 : digitsVal 16 ds < 18446744073709551616
  · by_cases h32 : digitsVal 16 ds < 4294967296
    · have : ¬ digitsVal 16 ds > 4294967295 := by omega
      simp [h64, h32, this]
    · have : digitsVal 16 ds > 4294967295 := by omega
      simp [h64, h32, this]
  · have h32 : ¬ digitsVal 16 ds < 4294967296 := by omega
    simp [h64, h32]

/-- `{hex64}` rule: stored as the 64-bit pattern the literal spells, rejected beyond 64 bits. -/
theorem C08_hex64 (t e : Nat) (x : Nat) (hx : x = 120 ∨ x = 88) (ds : Bytes) (suf : Nat) (hs : suf ≥ 1)
    (hne : ds ≠ []) (hd : ∀ c ∈ ds, isHexDigit c = true) :
    numericTok (.tokHex64 t e) ([48, x] ++ ds ++ sufBytes suf) =
      if digitsVal 16 ds < 18446744073709551616 then (t, { ival := wrap64 (digitsVal 16 ds) }) else (e, {}) := by
  have _ := hs
  unfold numericTok
  simp only [C08_parse_hex x hx ds suf hne hd]
  by_cases h64 : digitsVal 16 ds < 18446744073709551616 <;> simp [h64]

/-- the stored signed value has exactly the bit pattern spelled -/
theorem C08_wrap32_pattern (v : Nat) (h : v < 4294967296) :
    wrap32 v % 4294967296 = v ∧ fits32 (wrap32 v) = true := C08P.wrap32_pattern v h

theorem C08_wrap64_pattern (v : Nat) (h : v < 18446744073709551616) :
    wrap64 v % 18446744073709551616 = v ∧ fits64 (wrap64 v) = true := C08P.wrap64_pattern v h

/-- `{float}` rule: the correctly rounded double, rejected exactly when that is infinite. -/
theorem C08_float (t e : Nat) (w : Bytes) :
    numericTok (.tokFloat t e) w =
      if F64.isInf (F64.strtod w) then (e, {}) else (t, { fval := F64.strtod w }) := rfl

/-- `ofRat` (hence `strtod`) never produces a NaN, and every result fits in 64 bits -/
theorem C08_ofRat_not_nan (neg : Bool) (num den : Nat) (hd : den > 0) :
    F64.isNaN (F64.ofRat neg num den) = false ∧ F64.ofRat neg num den < 2 ^ 64 :=
  C08P.ofRat_ok neg num den hd

/-- the translated actions of the numeric rules are the catalogued ones (this ties the
theorems above to the rule numbers of the compiled scanner) -/
theorem C08_actions :
    Generated.scanActions.getD 37 .unknown = .tokFloat Generated.tokens.float Generated.tokens.error ∧
    Generated.scanActions.getD 38 .unknown = .tokInteger Generated.tokens.integer Generated.tokens.integer64 Generated.tokens.error ∧
    Generated.scanActions.getD 39 .unknown = .tokInteger64 Generated.tokens.integer64 Generated.tokens.error ∧
    Generated.scanActions.getD 40 .unknown = .tokHex Generated.tokens.hex Generated.tokens.error ∧
    Generated.scanActions.getD 41 .unknown = .tokHex64 Generated.tokens.hex64 Generated.tokens.error := by
  decide

/-! Non-vacuity -/
example : numericTok (.tokInteger 259 261 277) [48, 49, 48] = (259, { ival := 8 }) := by decide          -- 010 = 8
example : numericTok (.tokInteger64 261 277) [48, 49, 48, 76] = (261, { ival := 8 }) := by decide       -- 010L = 8
example : numericTok (.tokInteger64 261 277) [48, 56, 76] = (277, {}) := by decide                      -- 08L rejected
example : numericTok (.tokHex 260 277) [48, 120, 49, 70, 70, 70, 70, 70, 70, 70, 70] = (277, {}) := by decide  -- 0x1FFFFFFFF
example : numericTok (.tokHex 260 277) [48, 120, 70, 70, 70, 70, 70, 70, 70, 70] = (260, { ival := -1 }) := by decide

end Libconfig.C08
