import LibconfigModel.Cpp
import LibconfigModel.Properties.C06
import LibconfigModel.Properties.C09
import LibconfigModel.Properties.C16
import LibconfigModel.Proofs.C17
import LibconfigModel.Proofs.C04
import LibconfigModel.Properties.C07
/-
  C17 — the C++ API agrees with the C API and honours its exception contract.
-/
namespace Libconfig.C17

open Libconfig.Cpp Libconfig.C17P

/-! ### A. Conversion operators: the C getter, mapped through the documented exception table -/

theorem C17_cast_int (auto : Bool) (n : Node) :
    castVal .int auto n =
      match n.getInt auto with
      | some v => .ok (.int v)
      | none => if n.ty = T_INT64 then .error rangeErr else .error typeErr := by
  simp only [castVal, castInt, cGetInt, cGetInt64, assertType, isNumberTy, Node.getInt, Node.getInt64,
    T_INT, T_INT64, T_FLOAT]
  by_cases h3 : n.ty = 3
  · simp only [h3, fits32, INT_MIN, INT_MAX]
    by_cases h1 : (-2147483648 : Int) ≤ n.ival <;> by_cases h2 : n.ival ≤ (2147483647 : Int) <;>
      simp [h1, h2] <;> omega
  by_cases h2 : n.ty = 2
  · simp [h2]
  by_cases h4 : n.ty = 4
  · cases auto <;> simp [h4]
  · simp [h2, h3, h4]
    intro h; exact absurd h.symm h2


/-- `operator long long` = `config_setting_lookup_int64`; failure is a SettingTypeException -/
theorem C17_cast_int64 (auto : Bool) (n : Node) :
    castVal .int64 auto n =
      match n.getInt64 auto with
      | some v => .ok (.int v)
      | none => .error typeErr := by
  simp only [castVal, castInt64, cGetInt, cGetInt64, assertType, isNumberTy, Node.getInt, Node.getInt64,
    T_INT, T_INT64, T_FLOAT]
  by_cases h2 : n.ty = 2
  · simp [h2]
  by_cases h3 : n.ty = 3
  · simp [h3]
  by_cases h4 : n.ty = 4
  · cases auto <;> simp [h4]
  · simp [h2, h3, h4]
    intro h; exact absurd h.symm h3

/-- `operator unsigned int`: a 64-bit setting must hold a value in [0, UINT_MAX]; anything else
goes through `config_setting_lookup_int` and must not be negative -/
theorem C17_cast_uint (auto : Bool) (n : Node) :
    castVal .uint auto n =
      if n.ty = T_INT64 then
        (if 0 ≤ n.ival ∧ n.ival ≤ 4294967295 then .ok (.int n.ival) else .error rangeErr)
      else
        match n.getInt auto with
        | some v => if v < 0 then .error rangeErr else .ok (.int v)
        | none => .error typeErr := by
  simp only [castVal, castUInt, cGetInt, cGetInt64, assertType, isNumberTy, Node.getInt, Node.getInt64,
    T_INT, T_INT64, T_FLOAT, UINT_MAX]
  by_cases h3 : n.ty = 3
  · simp only [h3]
    by_cases h1 : (0 : Int) ≤ n.ival <;> by_cases h2 : n.ival ≤ (4294967295 : Int) <;>
      simp [h1, h2] <;> omega
  by_cases h2 : n.ty = 2
  · simp [h2]
  by_cases h4 : n.ty = 4
  · cases auto <;> simp [h4]
  · simp [h2, h3, h4]
    intro h; exact absurd h.symm h2

/-- `operator unsigned long long` = `config_setting_lookup_int64`, negative values are out of range -/
theorem C17_cast_uint64 (auto : Bool) (n : Node) :
    castVal .uint64 auto n =
      match n.getInt64 auto with
      | some v => if v < 0 then .error rangeErr else .ok (.int v)
      | none => .error typeErr := by
  simp only [castVal, castUInt64, cGetInt, cGetInt64, assertType, isNumberTy, Node.getInt, Node.getInt64,
    T_INT, T_INT64, T_FLOAT]
  by_cases h2 : n.ty = 2
  · simp [h2]
  by_cases h3 : n.ty = 3
  · simp [h3]
  by_cases h4 : n.ty = 4
  · cases auto <;> simp [h4]
  · simp [h2, h3, h4]
    intro h; exact absurd h.symm h3

/-- on LP64 `long` is `long long` -/
theorem C17_cast_long (auto : Bool) (n : Node) :
    castVal .long auto n = castVal .int64 auto n ∧ castVal .ulong auto n = castVal .uint64 auto n :=
  ⟨rfl, rfl⟩

/-- `operator double` = `config_setting_lookup_float` -/
theorem C17_cast_double (auto : Bool) (n : Node) :
    castVal .double auto n =
      match n.getFloat auto with
      | some b => .ok (.dbl b)
      | none => .error typeErr := by
  simp only [castVal, castDouble, cGetFloat, assertType, isNumberTy, Node.getFloat, T_INT, T_INT64, T_FLOAT]
  by_cases h4 : n.ty = 4
  · simp [h4]
  by_cases h2 : n.ty = 2
  · cases auto <;> simp [h2]
  by_cases h3 : n.ty = 3
  · cases auto <;> simp [h3]
  · simp [h2, h3, h4]
    intro h; exact absurd h.symm h4

/-- `operator float`: the same value rounded to binary32 -/
theorem C17_cast_float (auto : Bool) (n : Node) :
    castVal .float auto n =
      match n.getFloat auto with
      | some b => .ok (.dbl (F64.roundToF32 b))
      | none => .error typeErr := by
  simp only [castVal, castFloat, cGetFloat, assertType, isNumberTy, Node.getFloat, T_INT, T_INT64, T_FLOAT]
  by_cases h4 : n.ty = 4
  · simp [h4]
  by_cases h2 : n.ty = 2
  · cases auto <;> simp [h2]
  by_cases h3 : n.ty = 3
  · cases auto <;> simp [h3]
  · simp [h2, h3, h4]
    intro h; exact absurd h.symm h4

/-- `operator bool` = `config_setting_lookup_bool` (no conversion from numbers, whatever the
auto-convert flag) -/
theorem C17_cast_bool (auto : Bool) (n : Node) :
    castVal .bool auto n =
      match typedGet .bool auto n with
      | some (.int v) => .ok (.bool (v != 0))
      | _ => .error typeErr := by
  simp only [castVal, castBool, assertType, isNumberTy, Node.getBool, typedGet, T_INT, T_INT64, T_FLOAT, T_BOOL]
  by_cases h6 : n.ty = 6
  · simp [h6]
  · have : ¬ (6 = n.ty) := fun h => h6 h.symm
    simp [h6, this]

/-- `operator const char *` = `config_setting_lookup_string` (NULL stays NULL);
`operator std::string` turns NULL into the empty string -/
theorem C17_cast_string (auto : Bool) (n : Node) :
    (castVal .cstr auto n =
      match typedGet .string auto n with
      | some (.str s) => .ok (.cstr s)
      | _ => .error typeErr) ∧
    (castVal .string auto n =
      match typedGet .string auto n with
      | some (.str s) => .ok (.text (s.getD []))
      | _ => .error typeErr) := by
  simp only [castVal, castCStr, castString, assertType, isNumberTy, Node.getString, typedGet, T_INT, T_INT64, T_FLOAT, T_STRING]
  by_cases h5 : n.ty = 5
  · simp [h5]
  · have : ¬ (5 = n.ty) := fun h => h5 h.symm
    simp [h5, this]

/-- a conversion throws nothing but SettingTypeException(setting) or SettingRangeException(setting) -/
theorem C17_cast_exceptions (k : CKind) (auto : Bool) (n : Node) (e : EKind × Where)
    (h : castVal k auto n = .error e) : e = typeErr ∨ e = rangeErr := by
  cases k <;> simp only [castVal, castBool, castInt, castUInt, castInt64, castUInt64, castDouble, castFloat, castCStr, castString] at h <;>
    (repeat' split at h) <;> first | (cases h; simp) | cases h

/-- non-vacuity: 2^31 in a 64-bit setting is out of range for `int`, in range for `unsigned`;
-1 is out of range for every unsigned type; a string does not convert -/
example : castVal .int false { ty := T_INT64, ival := 2147483648 } = .error rangeErr := by rfl
example : castVal .uint false { ty := T_INT64, ival := 2147483648 } = .ok (.int 2147483648) := by rfl
example : castVal .uint64 false { ty := T_INT, ival := -1 } = .error rangeErr := by rfl
example : castVal .double false { ty := T_STRING } = .error typeErr := by rfl
example : castVal .string false { ty := T_STRING } = .ok (.text []) := by rfl
/-- binary32 rounding: 16777217 is a tie and goes to even, 1e300 overflows to +inf, 0.1 gets the
nearest float, 1e-46 underflows to +0, the smallest denormal 2^-149 is kept -/
example : F64.roundToF32 0x4170000010000000 = 0x4170000000000000 := by decide +kernel
example : F64.roundToF32 0x7E37E43C8800759C = 0x7FF0000000000000 := by decide +kernel
example : F64.roundToF32 0x3FB999999999999A = 0x3FB99999A0000000 := by decide +kernel
example : F64.roundToF32 0x366244CE242C5561 = 0 := by decide +kernel
example : F64.roundToF32 0x36A0000000000000 = 0x36A0000000000000 := by decide +kernel


/-! ### B. How a `Setting` member function runs; the path carried by its exceptions -/

/-- Reaching the setting at `p` wraps every setting on the way; the member function then runs on
that setting (the same node, now carrying a wrapper), and an exception is built from the tree as
it is at that moment. -/
theorem C17_settingStep (s : State) (p : Path) (op : SOp) (n : Node) (h : s.cfg.root.get? p = some n) :
    settingStep s p op =
      ((settingBody (s.withRoot (wrapAlong s.cfg.root p)) p (wrapNode n) op).1,
       { res := toRes (wrapAlong s.cfg.root p) p
                  (settingBody (s.withRoot (wrapAlong s.cfg.root p)) p (wrapNode n) op).2.1,
         freed := (settingBody (s.withRoot (wrapAlong s.cfg.root p)) p (wrapNode n) op).2.2 }) := by
  unfold settingStep
  simp only [h]
  have hw : (s.withRoot (wrapAlong s.cfg.root p)).cfg.root.get? p = some (wrapNode n) :=
    C17P.get?_wrapAlong_self p s.cfg.root n h
  simp only [hw]
  rfl

/-- a path that addresses nothing is out of contract -/
theorem C17_settingStep_badOp (s : State) (p : Path) (op : SOp) (h : s.cfg.root.get? p = none) :
    settingStep s p op = (s, { res := .badOp }) := by
  unfold settingStep; simp only [h]

/-- Every exception thrown by a member function of the setting at `p` is one of the four
SettingException classes and carries `getPath()` of that setting plus the suffix of the
constructor used (nothing, `.[idx]`, `.name`) — or the literal text given to
`SettingNotFoundException(const char *)`. -/
theorem C17_exception_path (s : State) (p : Path) (op : SOp) (e : Exc)
    (h : (settingStep s p op).2.res = .exc e) :
    ∃ k w, e = mkExc k (excPath s.cfg.root p w) := by
  cases hn : s.cfg.root.get? p with
  | none => rw [C17_settingStep_badOp s p op hn] at h; cases h
  | some n =>
    rw [C17_settingStep s p op n hn] at h
    simp only at h
    cases hr : (settingBody (s.withRoot (wrapAlong s.cfg.root p)) p (wrapNode n) op).2.1 with
    | ok v => rw [hr] at h; cases h
    | found v => rw [hr] at h; cases h
    | undefined => rw [hr] at h; cases h
    | err k w =>
      rw [hr] at h
      simp only [toRes, Res.exc.injEq] at h
      exact ⟨k, w, by rw [← h, C17P.excPath_wrapAlong]⟩

/-- the text of the four constructors -/
theorem C17_excPath (root : Node) (p : Path) :
    excPath root p .self = constructPath root p ∧
    (∀ i, excPath root p (.idx i) = constructPath root p ++ [46, 91] ++ intToDec i ++ [93]) ∧
    (∀ nm, excPath root p (.name (some nm)) = constructPath root p ++ [46] ++ nm) ∧
    excPath root p (.name none) = constructPath root p ++ [46] ∧
    (∀ q, excPath root p (.rawPath (some q)) = q) ∧
    excPath root p (.rawPath none) = [] := by
  refine ⟨rfl, ?_, ?_, ?_, ?_, ?_⟩ <;> intros <;> simp [excPath]

/-! ### C. `getPath()` -/

/-- `__constructPath` writes the documented path: names where settings have names, `[index]`
otherwise, joined by dots — the `cppGetPath` of property C06 -/
theorem C17_getPath_text (root : Node) (h : C06.NoEmptyNames root) (p : Path) (txt : Bytes)
    (ht : cppGetPath root p = some txt) : constructPath root p = txt :=
  C17P.constructPath_eq_cppGetPath root h p txt ht

/-- … and looking that text up from the root finds the setting again -/
theorem C17_getPath_resolves (root : Node) (hwf : root.WF) (p : Path) (m : Node) (hne : p ≠ [])
    (hv : root.get? p = some m) (hidx : ∀ i ∈ p, (i : Int) ≤ INT_MAX) :
    lookupFrom root (constructPath root p) = some p := by
  obtain ⟨txt, ht, hl⟩ := C06.C06_getPath root hwf p m hne hv hidx
  rw [C17_getPath_text root (C06.noEmptyNames_of_WF root hwf) p txt ht]
  exact hl

/-- `Setting::getPath()` through the API: never throws, wrappers do not change the text -/
theorem C17_getPath_step (s : State) (p : Path) (n : Node) (h : s.cfg.root.get? p = some n) :
    (settingStep s p .getPath).2.res = .ok (.text (constructPath s.cfg.root p)) := by
  rw [C17_settingStep s p .getPath n h]
  simp only [settingBody, toRes, State.withRoot]
  rw [C17P.constructPath_wrapAlong]

/-- the root's path is empty, a member of the root is its name, an element is `[i]` -/
example : constructPath C06.sample [1, 1, 0, 1] = [97, 98, 46, 91, 49, 93, 46, 120, 45, 121, 46, 91, 49, 93] := by decide
example : constructPath C06.sample [] = [] := by decide


/-! ### D. The exception table -/

/-- the documented exceptions of each member function of a setting `n`: class and constructor -/
def documented (n : Node) : SOp → List (EKind × Where)
  | .cast _ => [(.type, .self), (.range, .self)]
  | .assign _ => [(.type, .self), (.range, .self)]
  | .lookup path => [(.type, .self), (.notFound, .name (some path))]
  | .member name => [(.type, .self), (.notFound, .name name)]
  | .elem i => [(.type, .idx i), (.notFound, .idx i)]
  | .lookupValue _ _ => []
  | .exists_ _ => []
  | .add name _ => [(.type, .self), (.type, .name name), (.name, .name name)]
  | .addElem _ => [(.type, .self), (.type, .idx n.length)]
  | .remove name => [(.type, .self), (.notFound, .name name)]
  | .removeIdx idx => [(.type, .idx (wrap32 idx)), (.notFound, .idx (wrap32 idx))]
  | .info => []
  | .getPath => []
  | .getParent => [(.notFound, .rawPath none)]
  | .setFormat _ => []
  | .iterate => [(.type, .self)]

/-- a member function throws only what is documented for it -/
theorem C17_exception_table (s : State) (p : Path) (n : Node) (op : SOp) (k : EKind) (w : Where)
    (h : (settingBody s p n op).2.1 = .err k w) : (k, w) ∈ documented n op := by
  cases op with
  | cast ck =>
    simp only [settingBody] at h
    split at h
    · cases h
    · split at h
      · cases h
      · rename_i e he
        simp only [SRes.err.injEq] at h
        rcases C17_cast_exceptions ck _ n e he with rfl | rfl <;> simp [documented, typeErr, rangeErr, ← h.1, ← h.2]
  | assign v =>
    simp only [settingBody, assignOutcome] at h
    repeat' split at h
    all_goals (cases h <;> simp [documented])
  | lookup path =>
    simp only [settingBody] at h
    repeat' split at h
    all_goals (cases h <;> simp [documented])
  | member name =>
    simp only [settingBody] at h
    split at h
    · rename_i e he
      simp only [SRes.err.injEq] at h
      unfold memberOf at he
      repeat' split at he
      all_goals (cases he <;> (obtain ⟨rfl, rfl⟩ := h; simp [documented, typeErr]))
    · cases h
  | elem i =>
    simp only [settingBody] at h
    split at h
    · rename_i e he
      simp only [SRes.err.injEq] at h
      unfold elemOf at he
      repeat' split at he
      all_goals (cases he <;> (obtain ⟨rfl, rfl⟩ := h; simp [documented]))
    · cases h
  | lookupValue ck name =>
    simp only [settingBody] at h
    repeat' split at h
    all_goals cases h
  | exists_ name => simp only [settingBody] at h; cases h
  | add name ty =>
    simp only [settingBody] at h
    repeat' split at h
    all_goals (cases h <;> simp [documented])
  | addElem ty =>
    simp only [settingBody] at h
    split at h
    · simp only [SRes.err.injEq] at h; simp [documented, ← h.1, ← h.2]
    · split at h
      · rename_i s0 e hpre
        simp only [SRes.err.injEq] at h
        have : e = (.type, .idx n.length) := by
          split at hpre
          · split at hpre
            · rename_i hlen
              rw [elemOf_zero n (by simpa using hlen)] at hpre
              simp only at hpre
              repeat' split at hpre
              all_goals first | (cases hpre; done) | (cases hpre; rfl) | (simp only [Prod.mk.injEq, Option.some.injEq] at hpre; exact hpre.2.symm)
            · split at hpre
              · simp only [Prod.mk.injEq, Option.some.injEq] at hpre; exact hpre.2.symm
              · cases hpre
          · cases hpre
        subst this
        simp [documented, ← h.1, ← h.2]
      · repeat' split at h
        all_goals cases h
  | remove name =>
    simp only [settingBody] at h
    repeat' split at h
    all_goals (cases h <;> simp [documented])
  | removeIdx idx =>
    simp only [settingBody] at h
    repeat' split at h
    all_goals (cases h <;> simp [documented])
  | info => simp only [settingBody] at h; cases h
  | getPath => simp only [settingBody] at h; cases h
  | getParent =>
    simp only [settingBody] at h
    split at h
    · simp only [SRes.err.injEq] at h; simp [documented, ← h.1, ← h.2]
    · cases h
  | setFormat f => simp only [settingBody] at h; cases h
  | iterate =>
    simp only [settingBody] at h
    split at h
    · simp only [SRes.err.injEq] at h; simp [documented, ← h.1, ← h.2]
    · cases h


/-! ### E. Navigation: the C lookup, NULL mapped to SettingNotFoundException -/

/-- `Setting::lookup(path)` = `config_setting_lookup` -/
theorem C17_lookup (s : State) (p : Path) (n : Node) (path : Bytes) :
    (settingBody s p n (.lookup path)).2.1 =
      if n.ty = T_GROUP then
        match lookupFrom n path with
        | some q => .ok (.setting (p ++ q))
        | none => .err .notFound (.name (some path))
      else .err .type .self := by
  simp only [settingBody, assertGroup]
  by_cases h : n.ty = T_GROUP
  · simp only [h, beq_self_eq_true, Bool.not_true, if_true]
    cases lookupFrom n path <;> simp
  · simp [h]

/-- `Setting::operator[](name)` = `config_setting_get_member` -/
theorem C17_member (s : State) (p : Path) (n : Node) (name : Option Bytes) :
    (settingBody s p n (.member name)).2.1 =
      if n.ty = T_GROUP then
        match name.bind (getMember n) with
        | some m => .ok (.setting (p ++ [m.1]))
        | none => .err .notFound (.name name)
      else .err .type .self := by
  simp only [settingBody, memberOf, assertGroup]
  by_cases h : n.ty = T_GROUP
  · simp only [h, beq_self_eq_true, Bool.not_true, if_true]
    cases name with
    | none => simp
    | some nm =>
      simp only [Option.bind_some]
      cases getMember n nm with
      | none => simp
      | some m => obtain ⟨i, m⟩ := m; simp
  · simp [h, typeErr]

/-- `Setting::operator[](int)` = `config_setting_get_elem` with the index converted to unsigned -/
theorem C17_elem (s : State) (p : Path) (n : Node) (i : Int) :
    (settingBody s p n (.elem i)).2.1 =
      if n.isAggregate then
        match getElem n (toUnsigned i) with
        | some _ => .ok (.setting (p ++ [toUnsigned i]))
        | none => .err .notFound (.idx i)
      else .err .type (.idx i) := by
  simp only [settingBody, elemOf]
  cases h : n.isAggregate with
  | false => simp
  | true =>
    simp only [Bool.not_true, if_true]
    cases getElem n (toUnsigned i) <;> simp

/-- `Setting::exists(name)` ⇔ `config_setting_get_member` ≠ NULL; it never throws -/
theorem C17_exists (s : State) (p : Path) (n : Node) (name : Option Bytes) :
    settingBody s p n (.exists_ name) = (s, .ok (.bool (name.bind (getMember n)).isSome), []) := by
  simp only [settingBody, existsIn]
  cases name with
  | none => simp
  | some nm =>
    by_cases h : n.ty = T_GROUP
    · simp [h]
    · simp [h, getMember]

/-- `Config::lookup(path)` = `config_lookup`; `Config::exists(path)` ⇔ `config_lookup` ≠ NULL -/
theorem C17_config_lookup (s : State) (path : Bytes) :
    (cppStep s (.lookup path)).2.res =
      (match lookupFrom s.cfg.root path with
       | some q => .ok (.setting q)
       | none => .exc (.settingNotFound path)) ∧
    cppStep s (.exists_ path) = (asCpp s, { res := .ok (.bool (lookupFrom s.cfg.root path).isSome) }) := by
  constructor
  · simp only [cppStep, cppStepCore, asCpp]
    cases lookupFrom s.cfg.root path <;> rfl
  · rfl

/-- `getParent()` of the root throws SettingNotFoundException (with an empty path); every other
setting has its parent -/
theorem C17_getParent (s : State) (p : Path) (n : Node) (h : s.cfg.root.get? p = some n) :
    (settingStep s p .getParent).2.res =
      if p = [] then .exc (.settingNotFound []) else .ok (.setting p.dropLast) := by
  rw [C17_settingStep s p .getParent n h]
  simp only [settingBody]
  cases p with
  | nil => simp [toRes, mkExc, excPath]
  | cons i p => simp [toRes]

/-! ### F. Iteration -/

/-- `begin() … end()` visits the positions 0 … n-1 in order, each exactly once, and
dereferencing position `i` yields child `i`; a scalar has no iterators -/
theorem C17_iterate (s : State) (p : Path) (n : Node) :
    (settingBody s p n .iterate).2.1 =
      (if n.isAggregate then .ok (.order (List.range n.kids.length) n.kids.length) else .err .type .self) ∧
    (n.isAggregate = true → ∀ i, i < n.kids.length → elemOf n (i : Int) = .ok i ∧ getElem n i = n.kids[i]?) := by
  constructor
  · simp only [settingBody, C17P.cppIsAggregate_eq, Node.length]
    cases h : n.isAggregate with
    | false => simp [Node.isAggregate] at h ⊢; simp [h]
    | true => simp [Node.isAggregate] at h ⊢; simp [h]
  · intro ha i hi
    have hu : toUnsigned (i : Int) = i := by
      unfold toUnsigned; simp; omega
    have hg : getElem n i = n.kids[i]? := by simp [getElem, ha]
    refine ⟨?_, hg⟩
    simp only [elemOf, ha, hu, hg]
    simp [List.getElem?_eq_getElem hi]

example : (settingBody {} [] { ty := T_LIST, kids := [{ ty := T_INT }, { ty := T_STRING }, { ty := T_INT }] } .iterate).2.1 =
    .ok (.order [0, 1, 2] 3) := by decide


/-! ### G. `lookupValue` and `exists`: never an exception; the output is assigned exactly when the
lookup and the conversion both succeed -/

/-- a member function with an empty exception table never throws -/
theorem C17_never_throws (s : State) (p : Path) (op : SOp) (hd : ∀ n, documented n op = []) (e : Exc) :
    (settingStep s p op).2.res ≠ .exc e := by
  intro he
  cases hn : s.cfg.root.get? p with
  | none => rw [C17_settingStep_badOp s p op hn] at he; cases he
  | some n =>
    rw [C17_settingStep s p op n hn] at he
    simp only at he
    cases hr : (settingBody (s.withRoot (wrapAlong s.cfg.root p)) p (wrapNode n) op).2.1 with
    | ok v => rw [hr] at he; cases he
    | found v => rw [hr] at he; cases he
    | undefined => rw [hr] at he; cases he
    | err k w =>
      have := C17_exception_table _ p (wrapNode n) op k w hr
      rw [hd] at this; cases this

/-- `Setting::lookupValue`, `Setting::exists` (and the plain accessors) never throw -/
theorem C17_setting_lookupValue_never_throws (s : State) (p : Path) (e : Exc) :
    (∀ k name, (settingStep s p (.lookupValue k name)).2.res ≠ .exc e) ∧
    (∀ name, (settingStep s p (.exists_ name)).2.res ≠ .exc e) ∧
    (settingStep s p .info).2.res ≠ .exc e ∧ (settingStep s p .getPath).2.res ≠ .exc e :=
  ⟨fun _ _ => C17_never_throws s p _ (fun _ => rfl) e, fun _ => C17_never_throws s p _ (fun _ => rfl) e,
   C17_never_throws s p _ (fun _ => rfl) e, C17_never_throws s p _ (fun _ => rfl) e⟩

theorem cfgLookupValue_res (s : State) (k : CKind) (path : Bytes) :
    (cfgLookupValue s k path).2 =
      match (lookupFrom s.cfg.root path).bind s.cfg.root.get? with
      | none => .found none
      | some m =>
        if castUnspec k (s.cfg.opt OPT_AUTOCONVERT) m then .ok .unspec
        else .found (castVal k (s.cfg.opt OPT_AUTOCONVERT) m).toOption := by
  simp only [cfgLookupValue]
  cases hl : lookupFrom s.cfg.root path with
  | none => simp
  | some q =>
    cases hg : s.cfg.root.get? q with
    | none => simp [hg]
    | some m =>
      simp only [Option.bind_some, hg]
      by_cases hu : castUnspec k (s.cfg.opt OPT_AUTOCONVERT) m = true
      · simp [hu]
      · simp only [hu]
        cases castVal k (s.cfg.opt OPT_AUTOCONVERT) m <;> simp [Except.toOption]

/-- `Config::lookupValue(path, T &)`: false with the output untouched exactly when the path does
not resolve or the conversion of the setting found would throw; otherwise true and the value of
the conversion operator -/
theorem C17_config_lookupValue (s : State) (k : CKind) (path : Bytes) :
    (cppStep s (.lookupValue k path)).2.res =
      match (lookupFrom s.cfg.root path).bind s.cfg.root.get? with
      | none => .found none
      | some m =>
        if castUnspec k (s.cfg.opt OPT_AUTOCONVERT) m then .ok .unspec
        else .found (castVal k (s.cfg.opt OPT_AUTOCONVERT) m).toOption := by
  show (cfgLookupValue (asCpp s) k path).2 = _
  rw [cfgLookupValue_res]
  rfl

/-- `Config::lookupValue` and `Config::exists` never throw -/
theorem C17_config_lookupValue_never_throws (s : State) (k : CKind) (path : Bytes) (e : Exc) :
    (cppStep s (.lookupValue k path)).2.res ≠ .exc e ∧ (cppStep s (.exists_ path)).2.res ≠ .exc e := by
  constructor
  · rw [C17_config_lookupValue]
    repeat' split
    all_goals (intro h; cases h)
  · rw [(C17_config_lookup s path).2]; intro h; cases h

/-- the overloads that have a C counterpart (`config_lookup_int`, `_int64`, `_float`, `_bool`,
`_string`) -/
def counterpart : CKind → Option Kind
  | .int => some .int
  | .int64 => some .int64
  | .long => some .int64
  | .double => some .float
  | .bool => some .bool
  | .cstr => some .string
  | _ => none

/-- the C value as the C++ overload delivers it -/
def ofVal : CKind → Val → CppVal
  | .bool, .int v => .bool (v != 0)
  | _, .int v => .int v
  | _, .float b => .dbl b
  | _, .str s => .cstr s
  | _, .unspec => .unspec

/-- result of a C typed lookup (`none` = CONFIG_FALSE, output untouched) as a `lookupValue` result -/
def lvOfC (k : CKind) : Option Val → SRes
  | none => .found none
  | some .unspec => .ok .unspec
  | some v => .found (some (ofVal k v))

def lvOfCast (k : CKind) (auto : Bool) (m : Node) : SRes :=
  if castUnspec k auto m then .ok .unspec else .found (castVal k auto m).toOption

/-- conversion operator after a successful lookup = the C typed getter -/
theorem cast_agrees (k : CKind) (ck : Kind) (h : counterpart k = some ck) (auto : Bool) (m : Node) :
    lvOfCast k auto m = lvOfC k (typedGet ck auto m) := by
  unfold lvOfCast
  cases k <;> simp only [counterpart, Option.some.injEq] at h <;> (try cases h) <;> subst_vars
  · -- bool
    rw [C17_cast_bool]
    simp only [castUnspec, typedGet]
    by_cases h6 : m.ty = T_BOOL <;> simp [h6, lvOfC, ofVal, Except.toOption]
  · -- int
    rw [C17_cast_int]
    simp only [castUnspec, typedGet]
    by_cases hu : floatUnspec32 auto m = true
    · simp [hu, lvOfC]
    · simp only [hu]
      cases hg : m.getInt auto with
      | none => by_cases h64 : m.ty = T_INT64 <;> simp [h64, lvOfC, Except.toOption]
      | some v => simp [lvOfC, ofVal, Except.toOption]
  · -- long
    show (if castUnspec .int64 auto m then SRes.ok .unspec else .found (castVal .int64 auto m).toOption) = _
    rw [C17_cast_int64]
    simp only [castUnspec, typedGet]
    by_cases hu : floatUnspec64 auto m = true
    · simp [hu, lvOfC]
    · simp only [hu]
      cases hg : m.getInt64 auto with
      | none => simp [lvOfC, Except.toOption]
      | some v => simp [lvOfC, ofVal, Except.toOption]
  · -- int64
    rw [C17_cast_int64]
    simp only [castUnspec, typedGet]
    by_cases hu : floatUnspec64 auto m = true
    · simp [hu, lvOfC]
    · simp only [hu]
      cases hg : m.getInt64 auto with
      | none => simp [lvOfC, Except.toOption]
      | some v => simp [lvOfC, ofVal, Except.toOption]
  · -- double
    rw [C17_cast_double]
    simp only [castUnspec, typedGet]
    cases hg : m.getFloat auto with
    | none => simp [lvOfC, Except.toOption]
    | some v => simp [lvOfC, ofVal, Except.toOption]
  · -- cstr
    rw [(C17_cast_string auto m).1]
    simp only [castUnspec, typedGet]
    by_cases h5 : m.ty = T_STRING <;> simp [h5, lvOfC, ofVal, Except.toOption]

/-- `Config::lookupValue(path, int &)` = `config_lookup_int(config, path, &v)`, and likewise for
`long long`, `double`, `bool` and `const char *` -/
theorem C17_config_lookupValue_agrees (s : State) (k : CKind) (ck : Kind) (h : counterpart k = some ck)
    (path : Bytes) :
    (cppStep s (.lookupValue k path)).2.res = toRes s.cfg.root [] (lvOfC k (clookupVal ck s.cfg path)) := by
  rw [C17_config_lookupValue]
  unfold clookupVal
  cases hl : lookupFrom s.cfg.root path with
  | none => rfl
  | some q =>
    simp only [Option.bind_some]
    cases hg : s.cfg.root.get? q with
    | none => rfl
    | some m =>
      simp only
      rw [← cast_agrees k ck h]
      unfold lvOfCast
      split <;> rfl

/-- `Setting::lookupValue(name, T &)`: the member, then the conversion -/
theorem C17_setting_lookupValue (s : State) (p : Path) (n : Node) (k : CKind) (name : Option Bytes) :
    (settingBody s p n (.lookupValue k name)).2.1 =
      match name.bind (getMember n) with
      | none => .found none
      | some m => lvOfCast k (s.cfg.opt OPT_AUTOCONVERT) m.2 := by
  cases name with
  | none => by_cases hg : n.ty = T_GROUP <;> simp [settingBody, memberOf, assertGroup, hg]
  | some nm =>
    simp only [Option.bind_some]
    cases hm : getMember n nm with
    | none => by_cases hg : n.ty = T_GROUP <;> simp [settingBody, memberOf, assertGroup, hg, hm]
    | some im =>
      obtain ⟨i, m⟩ := im
      obtain ⟨hg, hk, _⟩ := C04.getMember_sound n nm i m hm
      simp only [settingBody, memberOf, assertGroup, hg, hm, hk, beq_self_eq_true, Bool.not_true,
        Bool.false_eq_true, if_false, lvOfCast]
      by_cases hu : castUnspec k (s.cfg.opt OPT_AUTOCONVERT) m = true
      · simp [hu]
      · simp only [hu]
        cases castVal k (s.cfg.opt OPT_AUTOCONVERT) m <;> simp [Except.toOption]

/-- `Setting::lookupValue(name, int &)` = `config_setting_lookup_int(setting, name, &v)`, etc. -/
theorem C17_setting_lookupValue_agrees (s : State) (p : Path) (n : Node) (k : CKind) (ck : Kind)
    (h : counterpart k = some ck) (name : Option Bytes) :
    (settingBody s p n (.lookupValue k name)).2.1 = lvOfC k (lookupVal ck (s.cfg.opt OPT_AUTOCONVERT) n name) := by
  rw [C17_setting_lookupValue]
  unfold lookupVal
  cases name with
  | none => rfl
  | some nm =>
    simp only [Option.bind_some]
    cases hm : getMember n nm with
    | none => rfl
    | some im => obtain ⟨i, m⟩ := im; exact cast_agrees k ck h _ m

/-- non-vacuity: a missing path, a mismatching type, a value out of range leave the output
untouched; a fitting value is delivered -/
def lvSample : State :=
  { cfg := { root := { ty := T_GROUP, kids := [{ name := some [97], ty := T_INT64, ival := 4294967296 },
                                                { name := some [98], ty := T_STRING, sval := none }] } } }
example : (cppStep lvSample (.lookupValue .uint [97])).2.res = .found none := by decide
example : (cppStep lvSample (.lookupValue .uint64 [97])).2.res = .found (some (.int 4294967296)) := by decide
example : (cppStep lvSample (.lookupValue .int [122])).2.res = .found none := by decide
example : (cppStep lvSample (.lookupValue .string [98])).2.res = .found (some (.text [])) := by decide
example : (cppStep lvSample (.lookupValue .cstr [98])).2.res = .found (some (.cstr none)) := by decide


/-! ### H. Reading and writing: an exception exactly when the C call returns false -/

/-- `Config::handleError`: (PARSE, file, line, text) ↦ ParseException(file, line, text);
FILE_IO (and anything else) ↦ FileIOException; no error, no exception -/
theorem C17_handleError (c : Config) :
    handleError c =
      if c.errType = ERR_NONE then none
      else if c.errType = ERR_PARSE then some (.parse c.errFile c.errLine c.errText)
      else some .fileIO := by
  unfold handleError; simp only [beq_iff_eq]

theorem cppStep_read (s : State) (src : Source) :
    cppStep s (.read src) =
      ((asCpp s).withCfg (read s.world (asCpp s).cfg src readFuel).cfg,
       { res := if (read s.world (asCpp s).cfg src readFuel).result = .accept then .ok .unit
                else throwIfError (read s.world (asCpp s).cfg src readFuel).cfg,
         freed := (read s.world (asCpp s).cfg src readFuel).dtorLog }) := by
  show (match step (asCpp s) (.read src) with
    | (s', { res := .readResult .accept, log := log }) => (s', ({ res := .ok .unit, freed := log } : Cpp.Out))
    | (s', { res := _, log := log }) => (s', { res := throwIfError s'.cfg, freed := log })) = _
  simp only [step]
  show (match ((asCpp s).withCfg (read s.world (asCpp s).cfg src readFuel).cfg,
      ({ res := .readResult (read s.world (asCpp s).cfg src readFuel).result,
         log := (read s.world (asCpp s).cfg src readFuel).dtorLog } : Libconfig.Out)) with
    | (s', { res := .readResult .accept, log := log }) => (s', ({ res := .ok .unit, freed := log } : Cpp.Out))
    | (s', { res := _, log := log }) => (s', { res := throwIfError s'.cfg, freed := log })) = _
  cases (read s.world (asCpp s).cfg src readFuel).result <;> rfl

/-- `readString` / `read` / `readFile`: the configuration and the wrappers deleted are those of
the C call; no exception iff it returned true; on failure a ParseException carrying the file,
line and text the C API reports — or, exactly when the file cannot be opened, a FileIOException -/
theorem C17_read (s : State) (src : Source) :
    (cppStep s (.read src)).1.cfg = (read s.world (asCpp s).cfg src readFuel).cfg ∧
    (cppStep s (.read src)).2.freed = (read s.world (asCpp s).cfg src readFuel).dtorLog ∧
    ((read s.world (asCpp s).cfg src readFuel).ok = true → (cppStep s (.read src)).2.res = .ok .unit) ∧
    ((read s.world (asCpp s).cfg src readFuel).ok = false →
      (cppStep s (.read src)).2.res =
          .exc (.parse (read s.world (asCpp s).cfg src readFuel).cfg.errFile
                       (read s.world (asCpp s).cfg src readFuel).cfg.errLine
                       (read s.world (asCpp s).cfg src readFuel).cfg.errText) ∨
      ((cppStep s (.read src)).2.res = .exc .fileIO ∧ ∃ path, src = .file path ∧ s.world.open? path = none)) := by
  rw [cppStep_read]
  refine ⟨rfl, rfl, ?_, ?_⟩
  · intro hok
    rw [read_ok_result, beq_iff_eq] at hok
    simp [hok]
  · intro hok
    have hne : (read s.world (asCpp s).cfg src readFuel).result ≠ .accept := by
      intro h; rw [read_ok_result, h] at hok; simp at hok
    simp only [hne, if_false]
    rcases C09.C09_read_failure s.world (asCpp s).cfg src readFuel hok with hp | ⟨hf, hi⟩
    · left
      simp [throwIfError, handleError, hp, ERR_PARSE, ERR_NONE]
    · right
      refine ⟨?_, hf⟩
      have ht : (read s.world (asCpp s).cfg src readFuel).cfg.errType = ERR_FILE_IO := by
        have := congrArg (·.1) hi; simpa [C09.errInfo] using this
      simp [throwIfError, handleError, ht, ERR_PARSE, ERR_NONE, ERR_FILE_IO]

theorem cppStep_writeFile (s : State) (path : Bytes) :
    (cppStep s (.writeFile path)).2.res =
      if (writeFile Generated.FLOAT_BUF_SIZE (asCpp s).cfg { openOk := s.world.canCreate path }).ret then .ok .unit
      else throwIfError (writeFile Generated.FLOAT_BUF_SIZE (asCpp s).cfg { openOk := s.world.canCreate path }).cfg := by
  show (match step (asCpp s) (.writeFile path) with
    | (s', { res := .flag true, log := _ }) => (s', ({ res := .ok .unit } : Cpp.Out))
    | (s', _) => (s', { res := throwIfError s'.cfg })).2.res = _
  simp only [step]
  show (match ((_ : State), ({ res := .flag (writeFile Generated.FLOAT_BUF_SIZE (asCpp s).cfg { openOk := s.world.canCreate path }).ret } : Libconfig.Out)) with
    | (s', { res := .flag true, log := _ }) => (s', ({ res := .ok .unit } : Cpp.Out))
    | (s', _) => (s', { res := throwIfError s'.cfg })).2.res = _
  cases (writeFile Generated.FLOAT_BUF_SIZE (asCpp s).cfg { openOk := s.world.canCreate path }).ret <;> rfl

/-- `writeFile`: FileIOException exactly when `config_write_file` returns false -/
theorem C17_writeFile (s : State) (path : Bytes) :
    (cppStep s (.writeFile path)).2.res =
      if (writeFile Generated.FLOAT_BUF_SIZE (asCpp s).cfg { openOk := s.world.canCreate path }).ret then .ok .unit
      else .exc .fileIO := by
  rw [cppStep_writeFile]
  cases hr : (writeFile Generated.FLOAT_BUF_SIZE (asCpp s).cfg { openOk := s.world.canCreate path }).ret with
  | true => rfl
  | false =>
    have h := C09.C09_write_result Generated.FLOAT_BUF_SIZE (asCpp s).cfg { openOk := s.world.canCreate path }
    rw [hr] at h
    have ht : (writeFile Generated.FLOAT_BUF_SIZE (asCpp s).cfg { openOk := s.world.canCreate path }).cfg.errType = ERR_FILE_IO := by
      have := congrArg (·.1) h; simpa [C09.errInfo] using this
    simp [throwIfError, handleError, ht, ERR_PARSE, ERR_NONE, ERR_FILE_IO]

/-- non-vacuity: a syntax error in the second line; a file that does not exist -/
example : (cppStep {} (.read (.file [120]))).2.res = .exc .fileIO := by decide


/-! ### I. Wrapper objects are freed together with their settings -/

/-- one wrapper per setting: `wrapSetting` on a wrapped setting returns the wrapper it finds -/
theorem C17_one_wrapper (n : Node) : wrapNode (wrapNode n) = wrapNode n ∧ (wrapNode n).hook ≠ 0 :=
  ⟨C17P.wrapNode_idem n, C17P.wrapNode_hook_ne n⟩

/-- `remove(name)`: the wrappers hanging on the tree before the call are exactly those deleted by
`ConfigDestructor` during the call plus those still hanging on the tree afterwards — nothing
leaks, nothing is deleted while its setting lives, nothing is deleted twice -/
theorem C17_wrappers_remove (s : State) (p : Path) (n : Node) (name : Option Bytes)
    (hd : s.cfg.destructor = true) :
    (C16.hooks s.cfg.root).Perm
      ((settingBody s p n (.remove name)).2.2 ++ C16.hooks (settingBody s p n (.remove name)).1.cfg.root) := by
  have hc := C16.C16_conservation s (.remove p name) hd rfl
  simp only [settingBody]
  split
  · simp
  · revert hc
    cases step s (.remove p name) with
    | mk s' o =>
      cases o with
      | mk res log =>
        intro hc
        cases res with
        | flag b => cases b <;> exact hc
        | _ => exact hc

/-- the same for `remove(idx)` -/
theorem C17_wrappers_removeIdx (s : State) (p : Path) (n : Node) (idx : Nat)
    (hd : s.cfg.destructor = true) :
    (C16.hooks s.cfg.root).Perm
      ((settingBody s p n (.removeIdx idx)).2.2 ++ C16.hooks (settingBody s p n (.removeIdx idx)).1.cfg.root) := by
  have hc := C16.C16_conservation s (.removeElem p idx) hd rfl
  simp only [settingBody]
  split
  · simp
  · revert hc
    cases step s (.removeElem p idx) with
    | mk s' o =>
      cases o with
      | mk res log =>
        intro hc
        cases res with
        | flag b => cases b <;> exact hc
        | _ => exact hc

/-- … and for a read, which destroys the old tree (and overridden duplicates) -/
theorem C17_wrappers_read (s : State) (src : Source) :
    (C16.hooks s.cfg.root).Perm
      ((cppStep s (.read src)).2.freed ++ C16.hooks (cppStep s (.read src)).1.cfg.root) := by
  have hc := C16.C16_conservation_read (asCpp s) src rfl
  rw [cppStep_read]
  exact hc

/-- `clear()` and the destruction of the `Config` delete every wrapper -/
theorem C17_wrappers_clear (s : State) :
    (cppStep s .clear).2.freed = C16.hooks s.cfg.root ∧ wrapperCount (cppStep s .clear).1.cfg.root = 0 ∧
    (cppStep s .init).2.freed = C16.hooks s.cfg.root ∧ wrapperCount (cppStep s .init).1.cfg.root = 0 := by
  refine ⟨rfl, ?_, rfl, ?_⟩ <;> rfl

/-- in numbers: wrappers before = wrappers deleted + wrappers after -/
theorem C17_wrapper_count (s : State) (p : Path) (n : Node) (name : Option Bytes) (idx : Nat)
    (hd : s.cfg.destructor = true) :
    wrapperCount s.cfg.root =
      (settingBody s p n (.remove name)).2.2.length + wrapperCount (settingBody s p n (.remove name)).1.cfg.root ∧
    wrapperCount s.cfg.root =
      (settingBody s p n (.removeIdx idx)).2.2.length + wrapperCount (settingBody s p n (.removeIdx idx)).1.cfg.root := by
  constructor
  · have := (C17_wrappers_remove s p n name hd).length_eq
    simpa [wrapperCount, C16.hooks] using this
  · have := (C17_wrappers_removeIdx s p n idx hd).length_eq
    simpa [wrapperCount, C16.hooks] using this

/-- non-vacuity: the list at /0 and its element are wrapped; removing the list through the API
deletes both wrappers (child first) -/
def wrapSample : State :=
  { cfg := { destructor := true, root := { ty := T_GROUP, hook := 1, kids := [
      { name := some [97], ty := T_LIST, hook := 1, kids := [{ ty := T_INT, hook := 1 }, { ty := T_INT }] } ] } } }
example : (cppStep wrapSample (.setting [] (.remove (some [97])))).2.freed = [1, 1] := by decide
example : wrapperCount (cppStep wrapSample (.setting [] (.remove (some [97])))).1.cfg.root = 1 := by decide


/-! ### J. `add(type)`: after the C++ pre-checks `config_setting_add` cannot return NULL -/

/-- `Setting::add(Type)` passes the result of `config_setting_add` to `wrapSetting` unchecked; the
pre-checks it makes on arrays (element type equal to the first element's, or a scalar type for an
empty array) guarantee the result is not NULL — given that the first element of an array is a
scalar, which well-formedness (C04) provides -/
theorem C17_addElem_never_null (dtor ov : Bool) (n : Node) (ty : Nat)
    (hty : n.ty = T_ARRAY ∨ n.ty = T_LIST)
    (hpre : n.ty = T_ARRAY → match n.kids with
        | [] => isScalarCppType ty = true
        | k0 :: _ => ty = cppType k0.ty ∧ isScalarTy (k0.ty : Int) = true) :
    (n.add dtor ov none (toTypeCode ty : Nat)).isSome = true := by
  rcases hty with ha | hl
  · have hp := hpre ha
    cases hkids : n.kids with
    | nil =>
      rw [hkids] at hp
      simp only [isScalarCppType, Bool.or_eq_true, beq_iff_eq] at hp
      apply add_array dtor ov n _ ha
      · rcases hp with (((h | h) | h) | h) | h <;> subst h <;> decide
      · intro k0 ks hk; rw [hkids] at hk; cases hk
    | cons k0 ks =>
      rw [hkids] at hp
      obtain ⟨ht, hs⟩ := hp
      have hs' := hs
      simp only [isScalarTy, Bool.and_eq_true, decide_eq_true_eq] at hs'
      have hrt : toTypeCode ty = k0.ty := by
        have : k0.ty = 2 ∨ k0.ty = 3 ∨ k0.ty = 4 ∨ k0.ty = 5 ∨ k0.ty = 6 := by omega
        subst ht
        rcases this with h | h | h | h | h <;> rw [h] <;> decide
      apply add_array dtor ov n _ ha
      · rw [hrt]; exact hs
      · intro k0' ks' hk; rw [hkids] at hk; cases hk; exact hrt.symm
  · exact add_list dtor ov n _ hl (toTypeCode_le ty)

/-- the array pre-check in a well-formed tree: the first element is a scalar -/
theorem C17_array_first_scalar (n : Node) (h : n.LocalWF) (ha : n.ty = T_ARRAY) (k0 : Node) (ks : List Node)
    (hk : n.kids = k0 :: ks) : isScalarTy (k0.ty : Int) = true :=
  h.arrayScalar ha k0 (by rw [hk]; exact List.mem_cons_self)

/-! ### K. Assignment -/

/-- `operator=`: the type assertion, then the C setter, whose result is ignored -/
theorem C17_assign (s : State) (p : Path) (n : Node) (v : AVal)
    (hu : v.unspec (s.cfg.opt OPT_AUTOCONVERT) n = false) :
    settingBody s p n (.assign v) =
      if assertType (s.cfg.opt OPT_AUTOCONVERT) n v.want then assignOutcome s p v
      else (s, .err .type .self, []) := by
  simp only [settingBody, hu]
  cases assertType (s.cfg.opt OPT_AUTOCONVERT) n v.want <;> simp

/-- with auto-conversion on, assigning a `long long` that does not fit to an `int` setting passes
the type assertion, `config_setting_set_int64` refuses, and the C++ operator signals the failure
with SettingRangeException, leaving the setting unchanged (the silent variant of this was a
defect of the pinned tree, repaired in /repo) -/
theorem C17_assign_out_of_range (s : State) (p : Path) (n : Node) (v : Int)
    (hn : s.cfg.root.get? p = some n) (hty : n.ty = T_INT) (hauto : s.cfg.opt OPT_AUTOCONVERT = true)
    (hv : fits32 v = false) :
    settingBody s p n (.assign (.int64 v)) = (s, .err .range .self, []) := by
  rw [C17_assign s p n _ rfl]
  have ha : assertType (s.cfg.opt OPT_AUTOCONVERT) n (AVal.int64 v).want = true := by
    simp [assertType, isNumberTy, AVal.want, hty, hauto, T_INT, T_INT64, T_FLOAT]
  rw [ha]
  have hnone : n.setInt64 (s.cfg.opt OPT_AUTOCONVERT) v = none := by
    simp [Node.setInt64, hty, hv, T_INT, T_INT64, T_NONE]
  have hres : (step s ((AVal.int64 v).cOp p)).2.res = .flag false := by
    simp only [AVal.cOp, step, setAt, hn, hnone]
  simp only [if_true, assignOutcome, hres]


/-! ### L. Structure: add / remove are the C calls, failure mapped to the documented exception -/

/-- `add(name, type)` = `config_setting_add`; NULL ↦ SettingNameException -/
theorem C17_add (s : State) (p : Path) (n : Node) (name : Option Bytes) (ty : Nat) :
    (settingBody s p n (.add name ty)).2.1 =
      if n.ty = T_GROUP then
        if toTypeCode ty = T_NONE then .err .type (.name name)
        else
          match (step s (.add p name (toTypeCode ty))).2.res with
          | .ptr (some q) => .ok (.setting q)
          | _ => .err .name (.name name)
      else .err .type .self := by
  simp only [settingBody, assertGroup]
  by_cases hg : n.ty = T_GROUP
  · simp only [hg, beq_self_eq_true, Bool.not_true, Bool.false_eq_true, if_false, if_true, beq_iff_eq]
    by_cases ht : toTypeCode ty = T_NONE
    · simp [ht]
    · simp only [ht, if_false]
      cases step s (.add p name (toTypeCode ty)) with
      | mk s' o =>
        cases o with
        | mk res log =>
          cases res with
          | ptr q => cases q <;> rfl
          | _ => rfl
  · simp [hg]

/-- `remove(name)` = `config_setting_remove`, `remove(idx)` = `config_setting_remove_elem`;
CONFIG_FALSE ↦ SettingNotFoundException; the state is the C call's -/
theorem C17_remove (s : State) (p : Path) (n : Node) (name : Option Bytes) (idx : Nat) :
    ((settingBody s p n (.remove name)).2.1 =
      if n.ty = T_GROUP then
        (match (step s (.remove p name)).2.res with
         | .flag true => .ok .unit
         | _ => .err .notFound (.name name))
      else .err .type .self) ∧
    ((settingBody s p n (.removeIdx idx)).2.1 =
      if n.isAggregate then
        (match (step s (.removeElem p idx)).2.res with
         | .flag true => .ok .unit
         | _ => .err .notFound (.idx (wrap32 idx)))
      else .err .type (.idx (wrap32 idx))) ∧
    (n.ty = T_GROUP → (settingBody s p n (.remove name)).1 = (step s (.remove p name)).1) ∧
    (n.isAggregate = true → (settingBody s p n (.removeIdx idx)).1 = (step s (.removeElem p idx)).1) := by
  refine ⟨?_, ?_, ?_, ?_⟩
  · simp only [settingBody, assertGroup]
    by_cases hg : n.ty = T_GROUP
    · simp only [hg, beq_self_eq_true, Bool.not_true, Bool.false_eq_true, if_false, if_true]
      cases step s (.remove p name) with
      | mk s' o =>
        cases o with
        | mk res log =>
          cases res with
          | flag b => cases b <;> rfl
          | _ => rfl
    · simp [hg]
  · simp only [settingBody]
    cases ha : n.isAggregate with
    | false => simp
    | true =>
      simp only [Bool.not_true, Bool.false_eq_true, if_false, if_true]
      cases step s (.removeElem p idx) with
      | mk s' o =>
        cases o with
        | mk res log =>
          cases res with
          | flag b => cases b <;> rfl
          | _ => rfl
  · intro hg
    simp only [settingBody, assertGroup, hg, beq_self_eq_true, Bool.not_true, Bool.false_eq_true, if_false]
    cases step s (.remove p name) with
    | mk s' o =>
      cases o with
      | mk res log =>
        cases res with
        | flag b => cases b <;> rfl
        | _ => rfl
  · intro ha
    simp only [settingBody, ha, Bool.not_true, Bool.false_eq_true, if_false]
    cases step s (.removeElem p idx) with
    | mk s' o =>
      cases o with
      | mk res log =>
        cases res with
        | flag b => cases b <;> rfl
        | _ => rfl

/-! ### M. Plain accessors and configuration attributes report the C values -/

/-- the two type enumerations are translated faithfully in both directions -/
theorem C17_type_codes (ty : Nat) (h : ty ≤ 8) : toTypeCode (cppType ty) = ty := by
  rcases ty_split ty with h | h | h | h | h | h | h | h | h | h <;> first | (subst h; decide) | omega

/-- `getType`, `getLength`, `getName`, `getIndex`, `isRoot`, `isGroup` … `isNumber`, `getFormat`,
`getSourceLine`, `getSourceFile` are the C accessors -/
theorem C17_info (c : Config) (p : Path) (n : Node) :
    (infoOf c p n).type = cppType n.ty ∧ (infoOf c p n).length = n.length ∧ (infoOf c p n).name = n.name ∧
    (infoOf c p n).index = indexOfPath p ∧ (infoOf c p n).isRoot = p.isEmpty ∧
    (infoOf c p n).isGroup = (n.ty == T_GROUP) ∧ (infoOf c p n).isArray = (n.ty == T_ARRAY) ∧
    (infoOf c p n).isList = (n.ty == T_LIST) ∧ (infoOf c p n).isString = (n.ty == T_STRING) ∧
    (infoOf c p n).isAggregate = n.isAggregate ∧ (infoOf c p n).isScalar = isScalarTy (n.ty : Int) ∧
    (infoOf c p n).isNumber = isNumberTy n.ty ∧
    (infoOf c p n).format = (if effFormat c n = FMT_HEX then FMT_HEX else FMT_DEFAULT) ∧
    (infoOf c p n).line = n.line ∧ (infoOf c p n).file = n.file := by
  refine ⟨rfl, rfl, rfl, rfl, rfl, cpp_isGroup n.ty, cpp_isArray n.ty, cpp_isList n.ty, cpp_isString n.ty, ?_,
    cpp_isScalar n.ty, cpp_isNumber n.ty, ?_, rfl, rfl⟩
  · simp only [infoOf, C17P.cppIsAggregate_eq]; rfl
  · simp only [infoOf, beq_iff_eq]

/-- the configuration attributes: every setter is the C setter (on the `Config` object's state),
every getter reads the C field -/
theorem C17_config_attrs (s : State) :
    (∀ n, (cppStep s (.setOptions n)).1 = (step (asCpp s) (.setOptions n)).1) ∧
    (∀ o f, (cppStep s (.setOption o f)).1 = (step (asCpp s) (.setOption o f)).1) ∧
    (∀ f, (cppStep s (.setAutoConvert f)).1 = (step (asCpp s) (.setOption OPT_AUTOCONVERT f)).1) ∧
    (∀ w, (cppStep s (.setTabWidth w)).1 = (step (asCpp s) (.setTabWidth w)).1) ∧
    (∀ n, (cppStep s (.setFloatPrecision n)).1 = (step (asCpp s) (.setFloatPrecision n)).1) ∧
    (∀ d, (cppStep s (.setIncludeDir d)).1 = (step (asCpp s) (.setIncludeDir d)).1) ∧
    (∀ f, (cppStep s (.setDefaultFormat f)).1 =
          (step (asCpp s) (.setDefaultFormat (if f == FMT_HEX then FMT_HEX else FMT_DEFAULT))).1) ∧
    (cppStep s .getOptions).2.res = .ok (.int s.cfg.options) ∧
    (∀ o, (cppStep s (.getOption o)).2.res = .ok (.bool (s.cfg.opt o))) ∧
    (cppStep s .getAutoConvert).2.res = .ok (.bool (s.cfg.opt OPT_AUTOCONVERT)) ∧
    (cppStep s .getTabWidth).2.res = .ok (.int s.cfg.tabWidth) ∧
    (cppStep s .getFloatPrecision).2.res = .ok (.int s.cfg.floatPrecision) ∧
    (cppStep s .getDefaultFormat).2.res = .ok (.int s.cfg.defaultFormat) ∧
    (cppStep s .getIncludeDir).2.res = .ok (.cstr s.cfg.includeDir) ∧
    (cppStep s .write).2.res = .ok (.text ((asCpp s).cfg.write Generated.FLOAT_BUF_SIZE)) :=
  ⟨fun _ => rfl, fun _ _ => rfl, fun _ => rfl, fun _ => rfl, fun _ => rfl, fun _ => rfl, fun _ => rfl,
    rfl, fun _ => rfl, rfl, rfl, rfl, rfl, rfl, rfl⟩

end Libconfig.C17
