import LibconfigModel.Proofs.C03StackHeap
import LibconfigModel.Proofs.C03StackSim
import LibconfigModel.Proofs.C03StackReplay2
import LibconfigModel.Proofs.C03StackNeed
import LibconfigModel.Proofs.C03StackReplay3
import LibconfigModel.Proofs.C03StackDeep
import LibconfigModel.Properties.C01Parse
/-
  C03S — the memory arithmetic of the parser stacks of the generated parser (`yyss`/`yyssp`,
  `yyvs`/`yyvsp`, `yystacksize`, `YYSTACK_RELOCATE`, `yyreturnlab` in lib/grammar.c) is
  index-safe, loses and duplicates no stack entry, grows as documented and releases what it
  allocates.  The model is `BisonStack.lean`; an execution is any list of `Event`s (a shift of
  any state and value, a reduction popping any number of entries, error pops, the end of the
  parse with any `yylen`; each push with any answer of `YYSTACK_ALLOC`) from `init P ok`.  All
  theorems are parametric in `YYINITDEPTH = P.I > 0` and `YYMAXDEPTH = P.M ≥ P.I`;
  `parserParams_ok` instantiates them with the constants translated from grammar.c (200 and
  10000).  `C03S_parser_drives` connects the model with the loop of `Parser.lean`.

  Findings: none of S1–S4 is violated in a reachable state.  Observations, proved below:
  (1) one slot of every block is never used while the parser runs: after `yysetstate`,
      `yyssp < yyss + yystacksize - 1` (`C03S_spare_slot`).  That slot is what makes the ORDER of
      the generated code safe: `*++yyvsp = v`, `yyssp++` and `*yyssp = yystate` all come BEFORE
      the test `yyss + yystacksize - 1 <= yyssp` (`C03S_push_order`); the incremented pointers
      address the spare slot — an element of the array, never the one-past-the-end position —
      and the test then restores the spare slot or ends the parse.  With the test weakened to `<`
      the spare slot is gone and the very next push stores behind the arrays
      (`C03S_seeded_breaks`, `C03S_seeded_breaks_all`).
  (2) So a block of `n` slots holds `n - 1` entries: the automatic arrays (200 slots) are left when
      the 200th entry is pushed; with `yystacksize = YYMAXDEPTH = 10000` the parser runs with at
      most 9999 entries; the push that creates the 10000th entry still stores it (in bounds, into
      the last slot) and then reports "memory exhausted" (`C03S_exhausted_iff`,
      `C03S_last_depth`).  This is the limit of `Parser.lean` (`stack.length ≥ maxDepth`) and of
      `C03_stack_limit`, at the same moment (`C03S_parser_exhausted_iff`).  REFINEMENT of the recorded
      finding "from 4998 nested lists": already 4997 nested lists need 10000 entries (`2k + 6` for
      `k` lists, the innermost `( )` costs two more than the descent) and are refused
      (`C03S_nested_lists`, proved; confirmed on the compiled library, which accepts 4996).
  (3) The `YYABORT` behind the relocation (`if (yyss + yystacksize - 1 <= yyssp) YYABORT;`) is
      dead code (`C03S_abort_dead`): the new block is always larger than `yysize`.
  (4) `yyval = yyvsp[1-yylen]` with `yylen = 0` (the nine empty rules of grammar.y) loads the
      spare slot ABOVE the top of the value stack — in bounds by (1), but never-written or stale
      memory (`garbageV` in the log; bison: "sets YYVAL to garbage"); `Parser.lean` uses the value
      of the top entry as that garbage.  For `yylen ≥ 1` the slot loaded holds the value of `$1`
      of the idealised stack (`C03S_default_value`).  The bottom slot `yyvs[0]` is never written;
      the relocation copies it, nothing else reads it.
  (5) If `YYSTACK_ALLOC` fails, `yystacksize` has already been doubled while `yyss` still points to
      the old, smaller block; harmless, because `YYNOMEM` leaves the loop and `yyreturnlab` only
      pops (`Inv.top`, `C03S_in_bounds` hold for every answer of the allocator).

  Contents: S1 `C03S_inv`, `C03S_in_bounds` (+ `_store_room`, `_load_room`, `_copy_room`),
  `C03S_same_offset`, `C03S_spare_slot`, `C03S_push_order`, `C03S_abort_dead`, `C03S_copy_loop`,
  `C03S_layout(_slot)`; S2 `C03S_content`, `C03S_relocation`, `C03S_slots`, `C03S_default_value`,
  `C03S_lockstep(_init)`, `C03S_parser_drives`, `C03S_parser_no_fault`; S3 `C03S_growth`,
  `C03S_size_needed`, `C03S_exhausted_iff`, `C03S_last_depth`, `C03S_parser_exhausted_iff`,
  `C03S_exhausted_run`, `C03S_nested_lists`; S4 `C03S_heap`, `C03S_held`, `C03S_freed_once`, `C03S_no_leak`,
  `C03S_returns`, `C03S_parser_returns`; S5 `C03S_seeded_breaks`, `C03S_seeded_breaks_all`; replays
  at 4/16 (full model), at 200/10000 (integer shadow, exact by `ctl_run`), and of the parser on
  real bytes driving the model (`a=((1,2),3);` at 4/16, `a=(((…` through 200 → 400).
-/
namespace Libconfig.C03S

open Libconfig Libconfig.BisonStack Libconfig.C03SP Libconfig.C03P

variable {V : Type}

/-- the constants of grammar.c satisfy the assumptions -/
theorem parserParams_ok : parserParams.OK := C03SP.parserParams_ok

example : parserParams.I = 200 ∧ parserParams.M = 10000 := by decide

/-! ### a step-by-step replay with small constants

`YYINITDEPTH = 4`, `YYMAXDEPTH = 16`, values are numbers.  `view` shows where the stacks are,
`yystacksize`, the two arrays, the two offsets and the status. -/

def P4 : Params := { I := 4, M := 16 }

theorem P4_ok : P4.OK := ⟨by decide, by decide, rfl⟩

structure View where
  loc : Blk
  stacksize : Nat
  ss : List (Option Nat)
  vs : List (Option Nat)
  ssp : Nat
  vsp : Nat
  status : Status
deriving Repr, DecidableEq

def view (s : BisonStack.State Nat) : View :=
  ⟨s.loc, s.stacksize, s.ss, s.vs, s.ssp, s.vsp, s.status⟩

/-- the start of `yyparse`: state 0 in `yyssa[0]`, `yyvsa[0]` stays unwritten -/
example : view (init P4) =
    ⟨.auto, 4, [some 0, none, none, none], [none, none, none, none], 0, 0, .running⟩ := by decide

/-- two shifts: three entries in the automatic arrays, the fourth slot is spare -/
example : view (BisonStack.run P4 [.shift 1 10, .shift 2 20] (init P4)) =
    ⟨.auto, 4, [some 0, some 1, some 2, none], [none, some 10, some 20, none], 2, 2, .running⟩ := by
  decide

/-- the third shift fills the last slot: `yysize = 4`, a block of 8 slots is allocated, both
stacks are copied (4 elements each), nothing is released (the old block is `yyssa`) -/
example :
    view (BisonStack.run P4 [.shift 1 10, .shift 2 20, .shift 3 30] (init P4)) =
      ⟨.heap 0, 8, [some 0, some 1, some 2, some 3, none, none, none, none],
        [none, some 10, some 20, some 30, none, none, none, none], 3, 3, .running⟩ ∧
    (BisonStack.run P4 [.shift 1 10, .shift 2 20, .shift 3 30] (init P4)).trace.drop 5 =
      [.storeV .auto 4 3, .storeS .auto 4 3, .alloc (.heap 0) 8, .copyS .auto 4 (.heap 0) 8 4,
       .copyV .auto 4 (.heap 0) 8 4] := by decide

/-- four more: the 8th entry fills block 0; block 1 (16 slots = `YYMAXDEPTH`) is allocated,
block 0 is released after the copies -/
example :
    (BisonStack.run P4 (List.replicate 7 (.shift 1 10)) (init P4)).loc = .heap 1 ∧
    (BisonStack.run P4 (List.replicate 7 (.shift 1 10)) (init P4)).stacksize = 16 ∧
    (BisonStack.run P4 (List.replicate 7 (.shift 1 10)) (init P4)).ssp = 7 ∧
    (BisonStack.run P4 (List.replicate 7 (.shift 1 10)) (init P4)).trace.drop 16 =
      [.storeV (.heap 0) 8 7, .storeS (.heap 0) 8 7, .alloc (.heap 1) 16,
       .copyS (.heap 0) 8 (.heap 1) 16 8, .copyV (.heap 0) 8 (.heap 1) 16 8, .free (.heap 0)] := by
  decide

/-- 14 shifts: 15 entries, the parser runs; the 15th shift stores the 16th entry into the last
slot and that is "memory exhausted": the stack is emptied (loads of slots 15 … 1) and block 1 is
released -/
example :
    (BisonStack.run P4 (List.replicate 14 (.shift 1 10)) (init P4)).status = .running ∧
    (BisonStack.run P4 (List.replicate 14 (.shift 1 10)) (init P4)).ssp = 14 ∧
    (BisonStack.run P4 (List.replicate 15 (.shift 1 10)) (init P4)).status = .done .nomem ∧
    (BisonStack.run P4 (List.replicate 15 (.shift 1 10)) (init P4)).ssp = 0 ∧
    (BisonStack.run P4 (List.replicate 15 (.shift 1 10)) (init P4)).log.take 3 =
      [.free (.heap 1), .loadV (.heap 1) 16 1 true, .loadS (.heap 1) 16 1 true] ∧
    ((BisonStack.run P4 (List.replicate 15 (.shift 1 10)) (init P4)).trace.drop 36).take 3 =
      [.storeV (.heap 1) 16 15, .storeS (.heap 1) 16 15, .loadS (.heap 1) 16 15 true] := by decide

/-- reductions: an empty rule (`yylen = 0`: the garbage load of the spare slot 3, the goto is
computed from slot 2, the push fills the arrays and moves the stacks), a rule of two symbols
(`yyval = yyvsp[-1]` from slot 2, the goto from slot 1), then `YYACCEPT` -/
example :
    view (BisonStack.run P4 [.shift 1 10, .shift 2 20, .reduce 0 5 50, .reduce 2 7 70, .finish .accept 0]
      (init P4)) =
      ⟨.heap 0, 8, [some 0, some 1, some 7, some 5, none, none, none, none],
        [none, some 10, some 70, some 50, none, none, none, none], 0, 0, .done .accept⟩ ∧
    (BisonStack.run P4 [.shift 1 10, .shift 2 20, .reduce 0 5 50, .reduce 2 7 70, .finish .accept 0]
      (init P4)).trace.drop 5 =
      [.garbageV .auto 4 3, .storeV .auto 4 3, .loadS .auto 4 2 true, .storeS .auto 4 3,
       .alloc (.heap 0) 8, .copyS .auto 4 (.heap 0) 8 4, .copyV .auto 4 (.heap 0) 8 4,
       .loadV (.heap 0) 8 2 true, .storeV (.heap 0) 8 2, .loadS (.heap 0) 8 1 true,
       .storeS (.heap 0) 8 2, .loadS (.heap 0) 8 2 true, .loadV (.heap 0) 8 2 true,
       .loadS (.heap 0) 8 1 true, .loadV (.heap 0) 8 1 true, .free (.heap 0)] := by decide

/-- `YYSTACK_ALLOC` fails at the first extension: `yystacksize` is 8 already, the stacks are
still the automatic arrays of 4 slots; "memory exhausted", nothing to release -/
example :
    view (BisonStack.run P4 [.shift 1 10, .shift 2 20, .shift 3 30 false] (init P4)) =
      ⟨.auto, 8, [some 0, some 1, some 2, some 3], [none, some 10, some 20, some 30], 0, 0,
        .done .nomem⟩ ∧
    (BisonStack.run P4 [.shift 1 10, .shift 2 20, .shift 3 30 false] (init P4)).trace.drop 7 =
      [.allocFail 8, .loadS .auto 4 3 true, .loadV .auto 4 3 true, .loadS .auto 4 2 true,
       .loadV .auto 4 2 true, .loadS .auto 4 1 true, .loadV .auto 4 1 true] := by decide

/-! ## S1 — every access is in bounds -/

/-- What holds after every execution (`Inv`): every access so far was in bounds; `yyssp` and
`yyvsp` have the same offset; both arrays have `yystacksize` slots and one slot is spare while the
parser runs; every state slot up to the top and every value slot but the bottom one has been
written; `yystacksize = min (YYINITDEPTH · 2^k) YYMAXDEPTH` after `k` allocations, each made
below `YYMAXDEPTH`; the stacks are in the automatic arrays until the first allocation and in the
newest block afterwards. -/
theorem C03S_inv (P : Params) (hP : P.OK) (ok : Bool) (es : List (Event V)) :
    Inv P (BisonStack.run P es (init P ok)) :=
  run_inv P hP es _ (init_inv P hP ok)

/-- S1.  Every store `*yyssp = yystate`, `*++yyvsp = …`, every load (`yyvsp[1-yylen]`, the
uncovered state `*yyssp` of a reduction, the loads of `yydestruct` and of the error loop), and
both `YYCOPY`s of every relocation lie inside the block that is current at that moment (for a
copy: `yysize` elements inside the old AND inside the new block); every load except
`yyvsp[1]` of an empty rule reads a slot that has been written; only heap blocks are released —
for every event sequence and every behaviour of the allocator. -/
theorem C03S_in_bounds (P : Params) (hP : P.OK) (ok : Bool) (es : List (Event V)) :
    ∀ a ∈ (BisonStack.run P es (init P ok)).log, a.ok :=
  (C03S_inv P hP ok es).safe

/-- … spelled out for the stores -/
theorem C03S_store_room (P : Params) (hP : P.OK) (ok : Bool) (es : List (Event V)) (b : Blk)
    (cap idx : Nat) :
    (Access.storeS b cap idx ∈ (BisonStack.run P es (init P ok)).log → idx < cap) ∧
    (Access.storeV b cap idx ∈ (BisonStack.run P es (init P ok)).log → idx < cap) :=
  ⟨fun h => C03S_in_bounds P hP ok es _ h, fun h => C03S_in_bounds P hP ok es _ h⟩

/-- … for the loads: in bounds and initialised; the garbage load of an empty rule: in bounds -/
theorem C03S_load_room (P : Params) (hP : P.OK) (ok : Bool) (es : List (Event V)) (b : Blk)
    (cap idx : Nat) (i : Bool) :
    (Access.loadS b cap idx i ∈ (BisonStack.run P es (init P ok)).log → idx < cap ∧ i = true) ∧
    (Access.loadV b cap idx i ∈ (BisonStack.run P es (init P ok)).log → idx < cap ∧ i = true) ∧
    (Access.garbageV b cap idx ∈ (BisonStack.run P es (init P ok)).log → idx < cap) :=
  ⟨fun h => C03S_in_bounds P hP ok es _ h, fun h => C03S_in_bounds P hP ok es _ h,
   fun h => C03S_in_bounds P hP ok es _ h⟩

/-- … and for the relocation: the `yysize` elements copied lie inside both blocks -/
theorem C03S_copy_room (P : Params) (hP : P.OK) (ok : Bool) (es : List (Event V)) (src dst : Blk)
    (sc dc n : Nat) :
    (Access.copyS src sc dst dc n ∈ (BisonStack.run P es (init P ok)).log → n ≤ sc ∧ n ≤ dc) ∧
    (Access.copyV src sc dst dc n ∈ (BisonStack.run P es (init P ok)).log → n ≤ sc ∧ n ≤ dc) :=
  ⟨fun h => C03S_in_bounds P hP ok es _ h, fun h => C03S_in_bounds P hP ok es _ h⟩

/-- non-vacuity: the log of the reduction replay has 21 entries, among them a garbage load, six
initialised loads before the cleanup, two copies — all in bounds (here by evaluation, in general
by the theorem) -/
example :
    (BisonStack.run P4 [.shift 1 10, .shift 2 20, .reduce 0 5 50, .reduce 2 7 70, .finish .accept 0]
      (init P4)).log.length = 21 ∧
    ∀ a ∈ (BisonStack.run P4 [.shift 1 10, .shift 2 20, .reduce 0 5 50, .reduce 2 7 70,
      .finish .accept 0] (init P4)).log, a.ok := by decide

/-- `yyssp` and `yyvsp` always have the same offset (between events; inside a push `yyvsp` is
one ahead from `*++yyvsp = …` until `yyssp++`) -/
theorem C03S_same_offset (P : Params) (hP : P.OK) (ok : Bool) (es : List (Event V)) :
    (BisonStack.run P es (init P ok)).vsp = (BisonStack.run P es (init P ok)).ssp :=
  (C03S_inv P hP ok es).same

/-- **The spare slot.**  While the parser runs, both arrays have exactly `yystacksize` slots and
`yyssp - yyss ≤ yystacksize - 2`: the slot behind the top exists.  Hence `yyssp + 1` and `yyvsp +
1`, the pointers the next push forms with `++`, address an element of their array — not even the
one-past-the-end position is ever formed —, the expression `yyss + yystacksize - 1` of the test is
the address of the last element, and `yyvsp[1]` (the garbage load) is an element too. -/
theorem C03S_spare_slot (P : Params) (hP : P.OK) (ok : Bool) (es : List (Event V))
    (hr : (BisonStack.run P es (init P ok)).status = .running) :
    (BisonStack.run P es (init P ok)).ss.length = (BisonStack.run P es (init P ok)).stacksize ∧
    (BisonStack.run P es (init P ok)).vs.length = (BisonStack.run P es (init P ok)).stacksize ∧
    (BisonStack.run P es (init P ok)).ssp + 2 ≤ (BisonStack.run P es (init P ok)).stacksize := by
  have h := C03S_inv P hP ok es
  exact ⟨h.capS hr, by rw [h.capV, h.capS hr], h.spare hr⟩

/-- **The order of a push**, as in grammar.c: first the value store `*++yyvsp = v` and `yyssp++`
(`pushed`), then `*yyssp = yystate` (`stored`), and only then the test — on the already
incremented `yyssp` —, which extends the stacks or ends the parse (`growStack`).  Both stores go
to slot `yyssp + 1` of the state before the push, which is inside the arrays by
`C03S_spare_slot` (`s`: any running state satisfying the invariant, e.g. `run P es (init P ok)`). -/
theorem C03S_push_order (P : Params) (s : BisonStack.State V) (h : Inv P s)
    (hr : s.status = .running) (st : Nat) (v : V) (ok : Bool) :
    BisonStack.step P s (.shift st v ok) =
      (if P.test s.stacksize (s.ssp + 1) then growStack P ok (stored st (pushed v s))
       else stored st (pushed v s)) ∧
    (stored st (pushed v s)).log =
      .storeS s.loc s.ss.length (s.ssp + 1) :: .storeV s.loc s.vs.length (s.vsp + 1) :: s.log ∧
    s.ssp + 1 < s.ss.length ∧ s.vsp + 1 < s.vs.length := by
  have h1 := h.capS hr
  have h2 := h.capV
  have h3 := h.spare hr
  have h4 := h.same
  refine ⟨?_, rfl, by omega, by omega⟩
  unfold BisonStack.step
  rw [hr]
  rfl

/-- **The `YYABORT` behind the relocation is dead code**, and a push has no outcome but these:
from a running state, a shift or an admissible reduction leaves the parser running or ends it
with "memory exhausted". -/
theorem C03S_abort_dead (P : Params) (hP : P.OK) (ok : Bool) (es : List (Event V)) (e : Event V)
    (hr : (BisonStack.run P es (init P ok)).status = .running)
    (he : pushing (BisonStack.run P es (init P ok)) e) :
    (BisonStack.step P (BisonStack.run P es (init P ok)) e).status = .running ∨
    (BisonStack.step P (BisonStack.run P es (init P ok)) e).status = .done .nomem := by
  obtain ⟨h0, h1, h2, h3⟩ := push_status P hP _ e (C03S_inv P hP ok es) hr he
  rcases Nat.lt_or_ge (entriesAfter (BisonStack.run P es (init P ok)) e)
    (BisonStack.run P es (init P ok)).stacksize with hlt | hge
  · exact .inl (h1 hlt)
  · rcases Nat.lt_or_ge (BisonStack.run P es (init P ok)).stacksize P.M with hM | hM
    · cases hok : allocOk e with
      | true => exact .inl (h2 (by omega) hM hok)
      | false => exact .inr (h3 (by omega) (.inr hok))
    · exact .inr (h3 (by omega) (.inl hM))

/-- non-vacuity of `C03S_copy_loop`: three elements into a fresh array of five -/
example : yycopy 3 0 [some 1, some 2, none, some 4] (List.replicate 5 (none : Option Nat)) =
    [some 1, some 2, none, none, none] := by decide

/-- The element loop of `YYCOPY` (`for (yyi = 0; yyi < yysize; yyi++) yyss_alloc[yyi] =
yyss[yyi];`, what `__builtin_memcpy` does as well) into a fresh array leaves what the model's
`relocate` says, whenever `yysize` elements are inside both arrays. -/
theorem C03S_copy_loop {α : Type} (old : List (Option α)) (n sz : Nat) (h1 : n ≤ old.length)
    (h2 : n ≤ sz) : yycopy n 0 old (List.replicate sz none) = relocate old n sz :=
  yycopy_eq_relocate old n sz h1 h2

/-- **The byte layout of a heap block** (`union yyalloc`; `a = sizeof (yy_state_t)`, `b = sizeof
(YYSTYPE)`, `u = sizeof (union yyalloc) > 0`): the value array starts behind the `n` state
elements, at a multiple of `u`, and its `n` elements end inside the `YYSTACK_BYTES (n)` bytes that
were allocated. -/
theorem C03S_layout (a b u n : Nat) (hu : 0 < u) :
    n * a ≤ vsByteOffset a u n ∧ u ∣ vsByteOffset a u n ∧
    vsByteOffset a u n + n * b ≤ stackBytes a b u n := by
  unfold vsByteOffset stackBytes
  have h1 := Nat.div_add_mod (n * a + (u - 1)) u
  have h2 := Nat.mod_lt (n * a + (u - 1)) hu
  rw [Nat.mul_comm u] at h1
  refine ⟨by omega, Nat.dvd_mul_left _ _, ?_⟩
  rw [Nat.mul_add]
  omega

/-- the layout at the types of grammar.c (`yy_state_t` = `yytype_int8`: 1 byte, `YYSTYPE`: 8,
`union yyalloc`: 8) for the largest block: 90007 bytes, the value array at offset 10000 -/
example : stackBytes 1 8 8 10000 = 90007 ∧ vsByteOffset 1 8 10000 = 10000 ∧
    stackBytes 1 8 8 400 = 3607 ∧ vsByteOffset 1 8 400 = 400 ∧ vsByteOffset 1 8 6 = 8 := by decide

/-- … so every element lies inside the block: the bytes of `yyss[i]` in front of the value
array, the bytes of `yyvs[i]` inside the allocation (`i < n`) -/
theorem C03S_layout_slot (a b u n i : Nat) (hu : 0 < u) (hi : i < n) :
    (i + 1) * a ≤ vsByteOffset a u n ∧ vsByteOffset a u n + (i + 1) * b ≤ stackBytes a b u n := by
  obtain ⟨h1, _, h3⟩ := C03S_layout a b u n hu
  have ha : (i + 1) * a ≤ n * a := Nat.mul_le_mul_right _ hi
  have hb : (i + 1) * b ≤ n * b := Nat.mul_le_mul_right _ hi
  omega

/-! ## S2 — the stacks hold what `Parser.lean` says -/

/-- S2, one push.  `Abs s stack`: the parser runs, the slots `yyssp … yyss` hold the states and the
slots `yyvsp … yyvs + 1` the values of the idealised stack `stack` of `Parser.lean` (top first;
all of them written).  A push `p` that pops fewer entries than `stack` has leads to the idealised
stack `p.apply stack`, which never has more than `yystacksize` entries, and
* if it has fewer, the memory holds it afterwards, in the same block;
* if it has exactly `yystacksize < YYMAXDEPTH`, the stacks are in a new block of `newSize` slots
  and the memory holds it: **growth preserves the contents** — nothing lost, nothing duplicated;
* if it has `yystacksize = YYMAXDEPTH` entries, the parse has ended with "memory exhausted". -/
theorem C03S_content (P : Params) (hP : P.OK) (p : Push V) (s : BisonStack.State V)
    (stack : List (Nat × V)) (h : Inv P s) (ha : Abs s stack) (hp : p.pops < stack.length) :
    (p.apply stack).length ≤ s.stacksize ∧
    ((p.apply stack).length < s.stacksize →
      Abs (BisonStack.step P s p.toEvent) (p.apply stack) ∧
      (BisonStack.step P s p.toEvent).stacksize = s.stacksize ∧
      (BisonStack.step P s p.toEvent).loc = s.loc ∧
      (BisonStack.step P s p.toEvent).nextId = s.nextId) ∧
    ((p.apply stack).length = s.stacksize → s.stacksize < P.M →
      Abs (BisonStack.step P s p.toEvent) (p.apply stack) ∧
      (BisonStack.step P s p.toEvent).stacksize = newSize P s.stacksize ∧
      (BisonStack.step P s p.toEvent).loc = .heap s.nextId ∧
      (BisonStack.step P s p.toEvent).nextId = s.nextId + 1) ∧
    ((p.apply stack).length = s.stacksize → P.M ≤ s.stacksize →
      (BisonStack.step P s p.toEvent).status = .done .nomem) :=
  push_abs P hP p s stack h ha hp

/-- what the relocation leaves in a new array of `sz` slots: the old elements `0 … n-1` in
place, behind them memory as the allocator delivered it -/
theorem C03S_relocation {α : Type} (old : List (Option α)) (n sz : Nat) (h1 : n ≤ old.length)
    (h2 : n ≤ sz) :
    (relocate old n sz).length = sz ∧ (relocate old n sz).take n = old.take n ∧
    (∀ i, i < n → (relocate old n sz)[i]? = old[i]?) ∧
    (∀ i, n ≤ i → i < sz → (relocate old n sz)[i]? = some none) :=
  ⟨length_relocate old n sz h1 h2, take_relocate old n sz h1,
   fun i hi => getElem?_relocate old n sz i h1 hi, fun i hi h3 => getElem?_relocate_ge old n sz i h1 hi h3⟩

/-- what the slots hold: `yyssp[-k]` the state and `yyvsp[-k]` the value of the `k`-th entry from
the top of the idealised stack — the operands `$1 … $n` of a semantic action (`yyvsp[i - n]`) and
the `yyvsp[0]` read by the actions of grammar.y are these -/
theorem C03S_slots (P : Params) (s : BisonStack.State V) (stack : List (Nat × V)) (h : Inv P s)
    (ha : Abs s stack) (k : Nat) :
    (k < stack.length → s.ss[s.ssp - k]? = stack[k]?.map (fun e => some e.1)) ∧
    (k + 1 < stack.length → s.vs[s.vsp - k]? = stack[k]?.map (fun e => some e.2)) :=
  ⟨abs_state_at ha h.top k, abs_value_at ha h.top h.capV k⟩

/-- `yyval = yyvsp[1-yylen]` for `yylen = n ≥ 1`: the slot loaded holds the value of the first
right-hand-side symbol, which is what `Parser.lean` pushes (`$$ = $1`) -/
theorem C03S_default_value (P : Params) (s : BisonStack.State V) (stack : List (Nat × V))
    (h : Inv P s) (ha : Abs s stack) (n : Nat) (h1 : 1 ≤ n) (hn : n < stack.length) :
    s.vs[s.vsp + 1 - n]? = (stack.drop (n - 1)).head?.map (fun e => some e.2) := by
  have := (C03S_slots P s stack h ha (n - 1)).2 (by omega)
  rw [List.head?_drop]
  rw [← this]
  congr 1
  have hl := abs_length ha h.top
  have := ha.2.1
  omega

/-- the rules with an empty right-hand side, whose `yyval = yyvsp[1-yylen]` is the garbage load:
the empty alternatives of `configuration`, `setting_list_optional`, `setting_terminator`,
`value_list_optional`, `simple_value_list_optional` and the mid-rule actions `$@1` … `$@4` — 9 of
the 41 rules -/
example : (List.range 42).filter (fun r => decide (1 ≤ r) && (Generated.parser.r2.get r).toNat == 0) =
    [2, 6, 8, 11, 13, 15, 33, 38, 40] := by decide +kernel

/-- S2, any number of pushes: the memory model and the idealised machine of `Parser.lean` (a
list and the limit) stay in lock step — the same stack as long as the idealised one stays below
`YYMAXDEPTH` entries, "memory exhausted" from the push on that reaches `YYMAXDEPTH` entries, and
the fault status exactly when a reduction underflows the idealised stack. -/
theorem C03S_lockstep (P : Params) (hP : P.OK) (ps : List (Push V)) (s : BisonStack.State V)
    (stack : List (Nat × V)) (h : Inv P s) (ha : Abs s stack) :
    match ideal P.M ps stack with
    | .stack l => Abs (BisonStack.run P (ps.map Push.toEvent) s) l
    | .exhausted => (BisonStack.run P (ps.map Push.toEvent) s).status = .done .nomem
    | .underflow => (BisonStack.run P (ps.map Push.toEvent) s).status = .fault :=
  run_abs P hP ps s stack h ha

/-- … from the start of `yyparse` (with `YYINITDEPTH ≥ 2`; `v0` is the placeholder `Parser.lean`
uses for the value of the bottom entry) -/
theorem C03S_lockstep_init (P : Params) (hP : P.OK) (hI : 1 < P.I) (ps : List (Push V)) (v0 : V) :
    match ideal P.M ps [(0, v0)] with
    | .stack l => Abs (BisonStack.run P (ps.map Push.toEvent) (init P)) l
    | .exhausted => (BisonStack.run P (ps.map Push.toEvent) (init P : BisonStack.State V)).status = .done .nomem
    | .underflow => (BisonStack.run P (ps.map Push.toEvent) (init P : BisonStack.State V)).status = .fault :=
  run_abs P hP ps _ _ (init_inv P hP true) ((init_abs P hP true v0).1 hI).1

/-- non-vacuity: the replay with reductions, on the idealised machine and in memory -/
example :
    ideal (V := Nat) 16 [.shift 1 10, .shift 2 20, .reduce 0 5 50, .reduce 2 7 70] [(0, 0)] =
      .stack [(7, 70), (1, 10), (0, 0)] ∧
    absStates (BisonStack.run P4 [.shift 1 10, .shift 2 20, .reduce 0 5 50, .reduce 2 7 70] (init P4)) =
      [some 7, some 1, some 0] ∧
    absValues (BisonStack.run P4 [.shift 1 10, .shift 2 20, .reduce 0 5 50, .reduce 2 7 70] (init P4)) =
      [some 70, some 10] := by decide

/-- **The parser of `Parser.lean` drives the memory model.**  For every configuration `X` that the
loop (`yystep` over the translated tables, any world, any input) reaches from the start of
`yyparse`, the shifts and reductions of the iterations so far form a list of pushes `ps` — every
reduction popping fewer entries than the stack holds, by `C03_no_underflow` — that builds
`X.stack` on the idealised machine, and the memory model driven by `ps` tracks it: it HOLDS
`X.stack` (`Abs`) while that has fewer than 10000 entries, and has reported "memory exhausted" when
it has 10000. -/
theorem C03S_parser_drives (w : World) (c : Config) (fuel : Nat) (s : ScanState) (ctx : ParseCtx)
    (X : PState) (h : Reach (theEnv w c fuel) (initial s ctx) X) :
    ∃ ps : List (Push TokVal), applyAll ps [(0, {})] = X.stack ∧ Tracks parserParams ps X.stack :=
  reach_tracks w c fuel s ctx X h

/-- … in particular the memory model never faults under the parser (no pop below the bottom of
the arrays), and every access of every such run is in bounds (`C03S_in_bounds` holds for all event
lists, these included) -/
theorem C03S_parser_no_fault (w : World) (c : Config) (fuel : Nat) (s : ScanState) (ctx : ParseCtx)
    (X : PState) (h : Reach (theEnv w c fuel) (initial s ctx) X) :
    ∃ ps : List (Push TokVal), applyAll ps [(0, {})] = X.stack ∧
      ((BisonStack.run parserParams (ps.map Push.toEvent) (init parserParams)).status = .running ∨
       (BisonStack.run parserParams (ps.map Push.toEvent) (init parserParams)).status = .done .nomem) ∧
      ∀ a ∈ (BisonStack.run parserParams (ps.map Push.toEvent) (init parserParams)).log, a.ok := by
  obtain ⟨ps, h1, h2⟩ := reach_tracks w c fuel s ctx X h
  refine ⟨ps, h1, ?_, C03S_in_bounds parserParams parserParams_ok true _⟩
  rcases Nat.lt_or_ge X.stack.length parserParams.M with hlt | hge
  · exact .inl (h2.1 hlt).1
  · exact .inr (h2.2 hge)

/-! ### the parser driving the memory model on a concrete text

`a=((1,2),3);` through the loop of `Parser.lean` over the translated tables; the pushes of the
first 18 iterations (`pushesRun`; shift / reduce with the number of entries popped and the state
pushed) are fed to the memory model WITH THE SMALL CONSTANTS (4 and 16), so that the stacks move
twice on the way to the deepest point of this parse, 10 entries. -/

/-- `a=((1,2),3);` -/
def exText : Bytes := [97, 61, 40, 40, 49, 44, 50, 41, 44, 51, 41, 59]
def exEnv : ParserEnv := theEnv {} Config.init 100
def exStart : PState := initial { buf := { rest := exText } } { cfg := Config.init }

/-- shift or not, entries popped, state pushed -/
def summ : Push TokVal → Bool × Nat × Nat
  | .shift st _ => (true, 0, st)
  | .reduce n st _ => (false, n, st)

set_option synthInstance.maxSize 2000 in
example : ∃ (X : PState) (ps : List (Push TokVal)),
    Reach exEnv exStart X ∧ X.stack.map (·.1) = [43, 37, 26, 17, 26, 17, 8, 5, 1, 0] ∧
    ps.map summ =
      [(true, 0, 1), (false, 0, 5), (true, 0, 8), (true, 0, 17), (false, 0, 26), (true, 0, 17),
       (false, 0, 26), (true, 0, 10), (false, 1, 23), (false, 1, 35), (false, 1, 36), (true, 0, 42),
       (true, 0, 10), (false, 1, 23), (false, 1, 46), (false, 3, 36), (false, 1, 37), (true, 0, 43)] ∧
    applyAll ps [(0, {})] = X.stack ∧
    Abs (BisonStack.run P4 (ps.map Push.toEvent) (init P4)) X.stack ∧
    (BisonStack.run P4 (ps.map Push.toEvent) (init P4 : BisonStack.State TokVal)).nextId = 2 ∧
    (BisonStack.run P4 (ps.map Push.toEvent) (init P4 : BisonStack.State TokVal)).stacksize = 16 := by
  have h : (pushesRun exEnv 18 exStart).map (fun r =>
      (r.2.stack.map (·.1), r.1.map summ, decide (applyAll r.1 [(0, {})] = r.2.stack),
       decide (ideal 16 r.1 [(0, {})] = .stack r.2.stack),
       (BisonStack.run P4 (r.1.map Push.toEvent) (init P4 : BisonStack.State TokVal)).nextId,
       (BisonStack.run P4 (r.1.map Push.toEvent) (init P4 : BisonStack.State TokVal)).stacksize)) =
      some ([43, 37, 26, 17, 26, 17, 8, 5, 1, 0],
        [(true, 0, 1), (false, 0, 5), (true, 0, 8), (true, 0, 17), (false, 0, 26), (true, 0, 17),
         (false, 0, 26), (true, 0, 10), (false, 1, 23), (false, 1, 35), (false, 1, 36), (true, 0, 42),
         (true, 0, 10), (false, 1, 23), (false, 1, 46), (false, 3, 36), (false, 1, 37), (true, 0, 43)],
        true, true, 2, 16) := by decide +kernel
  cases hr : pushesRun exEnv 18 exStart with
  | none => rw [hr] at h; cases h
  | some r =>
    obtain ⟨ps, X⟩ := r
    rw [hr] at h
    simp only [Option.map_some, Option.some.injEq, Prod.mk.injEq, decide_eq_true_eq] at h
    obtain ⟨h1, h2, h3, h4, h5, h6⟩ := h
    refine ⟨X, ps, pushesRun_reach exEnv 18 exStart X ps hr, h1, h2, h3, ?_, h5, h6⟩
    have := C03S_lockstep_init P4 P4_ok (by decide) ps ({} : TokVal)
    rw [show P4.M = 16 from rfl, h4] at this
    exact this

/-- The same at the constants of grammar.c, on real bytes, kernel-evaluated
(`Proofs/C03StackReplay3.lean`): `a=` and 100 opening parentheses.  After 199 iterations the
parser's list has 200 entries; the memory model, fed with the parser's pushes, holds that list —
in a heap block of 400 slots, into which the stacks moved when the 200th entry filled
`yyssa[199]`.  One iteration earlier (199 entries) they were still in the automatic arrays
(`deep_replay_198`). -/
example : ∃ (X : PState) (ps : List (Push TokVal)),
    Reach deepEnv (deepStart 100) X ∧ X.stack.length = 200 ∧
    Abs (BisonStack.run parserParams (ps.map Push.toEvent) (init parserParams)) X.stack ∧
    ctlOf (BisonStack.run parserParams (ps.map Push.toEvent) (init parserParams : BisonStack.State TokVal)) =
      { loc := .heap 0, stacksize := 400, capS := 400, capV := 400, ssp := 199, vsp := 199,
        status := .running, nextId := 1, sizes := [400] } := by
  have h := deep_replay_199
  cases hr : pushesRun deepEnv 199 (deepStart 100) with
  | none => rw [hr] at h; cases h
  | some r =>
    obtain ⟨ps, X⟩ := r
    rw [hr] at h
    simp only [Option.map_some, Option.some.injEq, deepView, Prod.mk.injEq, decide_eq_true_eq] at h
    obtain ⟨h1, _, h3, h4⟩ := h
    refine ⟨X, ps, pushesRun_reach deepEnv 199 (deepStart 100) X ps hr, h1, ?_, ?_⟩
    · have := C03S_lockstep_init parserParams parserParams_ok (by decide) ps ({} : TokVal)
      rw [show parserParams.M = 10000 from by decide, h3] at this
      exact this
    · rw [ctl_run, ctl_init]; exact h4

/-! ## S3 — growth and the limit -/

/-- S3, sizes.  While the parser runs, `yystacksize` is `YYINITDEPTH · 2^k` clamped to
`YYMAXDEPTH`, `k` the number of extensions so far (each one `yystacksize *= 2`, clamped:
`C03S_content`); an extension is only made from a size below `YYMAXDEPTH`, so there are at most
`log2 ((YYMAXDEPTH - 1) / YYINITDEPTH) + 1 = ⌈log2 (YYMAXDEPTH / YYINITDEPTH)⌉` of them (6 for
200 and 10000), whatever the events are. -/
theorem C03S_growth (P : Params) (hP : P.OK) (ok : Bool) (es : List (Event V)) :
    ((BisonStack.run P es (init P ok)).status = .running →
      (BisonStack.run P es (init P ok)).stacksize =
        min (P.I * 2 ^ (BisonStack.run P es (init P ok)).nextId) P.M) ∧
    ((BisonStack.run P es (init P ok)).nextId = 0 ∨
      P.I * 2 ^ ((BisonStack.run P es (init P ok)).nextId - 1) < P.M) ∧
    (BisonStack.run P es (init P ok)).nextId ≤ ((P.M - 1) / P.I).log2 + 1 := by
  have h := C03S_inv P hP ok es
  exact ⟨h.size, h.steps, growth_count P hP _ h.steps⟩

example : ((parserParams.M - 1) / parserParams.I).log2 + 1 = 6 ∧
    (List.range 7).map (fun k => min (parserParams.I * 2 ^ k) parserParams.M) =
      [200, 400, 800, 1600, 3200, 6400, 10000] := by decide

/-- S3, **only as large as needed**: the stacks are extended only when the block in use is
full.  `hwmOf` reads the deepest stack so far off the log (a store `*yyssp = …` into slot `idx`
makes `idx + 1` entries); every allocation was preceded by a stack filling the whole previous
block, so `yystacksize` is `YYINITDEPTH` or at most twice the deepest stack so far. -/
theorem C03S_size_needed (P : Params) (hP : P.OK) (ok : Bool) (es : List (Event V))
    (hr : (BisonStack.run P es (init P ok)).status = .running) :
    ((BisonStack.run P es (init P ok)).nextId = 0 ∨
      P.I * 2 ^ ((BisonStack.run P es (init P ok)).nextId - 1) ≤
        hwmOf (BisonStack.run P es (init P ok)).log) ∧
    (BisonStack.run P es (init P ok)).stacksize ≤
      max P.I (2 * hwmOf (BisonStack.run P es (init P ok)).log) := by
  have h := C03S_inv P hP ok es
  have hn := run_need P hP es _ (init_inv P hP ok) (init_need P hP ok)
  exact ⟨hn, size_needed P _ h hn hr⟩

/-- non-vacuity: after 7 shifts and 5 pops with the small constants the deepest stack had 8
entries, the block has 16 slots (= 2 · 8), two allocations: `4 · 2^1 ≤ 8` -/
example :
    hwmOf (BisonStack.run P4 (List.replicate 7 (.shift 1 10) ++ [.reduce 5 2 20]) (init P4)).log = 8 ∧
    (BisonStack.run P4 (List.replicate 7 (.shift 1 10) ++ [.reduce 5 2 20]) (init P4)).stacksize = 16 ∧
    (BisonStack.run P4 (List.replicate 7 (.shift 1 10) ++ [.reduce 5 2 20]) (init P4)).ssp = 3 ∧
    (BisonStack.run P4 (List.replicate 7 (.shift 1 10) ++ [.reduce 5 2 20]) (init P4)).nextId = 2 := by
  decide

/-- S3, **"memory exhausted" exactly**.  From a running state of any execution, a shift or an
admissible reduction leaves `entriesAfter` ≤ `yystacksize` entries, and the parser reports
"memory exhausted" if and only if the push fills the last slot (`entriesAfter = yystacksize`)
while `yystacksize` is `YYMAXDEPTH` — or the allocator refuses the extension. -/
theorem C03S_exhausted_iff (P : Params) (hP : P.OK) (ok : Bool) (es : List (Event V)) (e : Event V)
    (hr : (BisonStack.run P es (init P ok)).status = .running)
    (he : pushing (BisonStack.run P es (init P ok)) e) :
    (BisonStack.step P (BisonStack.run P es (init P ok)) e).status = .done .nomem ↔
      entriesAfter (BisonStack.run P es (init P ok)) e = (BisonStack.run P es (init P ok)).stacksize ∧
      ((BisonStack.run P es (init P ok)).stacksize = P.M ∨ allocOk e = false) := by
  have hinv := C03S_inv P hP ok es
  obtain ⟨h0, h1, h2, h3⟩ := push_status P hP _ e hinv hr he
  have hsz : (BisonStack.run P es (init P ok)).stacksize ≤ P.M := by
    rw [hinv.size hr]; exact Nat.min_le_right _ _
  constructor
  · intro hd
    rcases Nat.lt_or_ge (entriesAfter (BisonStack.run P es (init P ok)) e)
      (BisonStack.run P es (init P ok)).stacksize with hlt | hge
    · rw [h1 hlt] at hd; cases hd
    · refine ⟨by omega, ?_⟩
      rcases Nat.lt_or_ge (BisonStack.run P es (init P ok)).stacksize P.M with hM | hM
      · cases hok : allocOk e with
        | true => rw [h2 (by omega) hM hok] at hd; cases hd
        | false => exact .inr rfl
      · exact .inl (by omega)
  · intro ⟨heq, hor⟩
    refine h3 heq ?_
    rcases hor with h | h
    · exact .inl (by omega)
    · exact .inr h

/-- S3, **the last depth that works**: after `n` shifts from the start of `yyparse` (allocations
succeeding) the parser runs, its memory holding the `n + 1` entries, if and only if `n + 1 <
YYMAXDEPTH`; the shift that makes the stack `YYMAXDEPTH` entries deep ends with "memory exhausted".
The deepest stack the parser works with has `YYMAXDEPTH - 1` = 9999 entries. -/
theorem C03S_last_depth (P : Params) (hP : P.OK) (st : Nat) (v v0 : V) (n : Nat) :
    (n + 1 < P.M →
      Abs (BisonStack.run P (List.replicate n (.shift st v true)) (init P))
        (List.replicate n (st, v) ++ [(0, v0)])) ∧
    (P.M ≤ n + 1 →
      (BisonStack.run P (List.replicate n (.shift st v true)) (init P : BisonStack.State V)).status =
        .done .nomem) := by
  have hev : List.replicate n (Event.shift st v true) =
      (List.replicate n (Push.shift st v)).map Push.toEvent := by
    rw [List.map_replicate]; rfl
  have hI := hP.I
  have hM := hP.M
  obtain ⟨a1, a2, a3⟩ := init_abs P hP true v0
  by_cases hM1 : P.M = 1
  · have hd : (init P : BisonStack.State V).status = .done .nomem := a3 (by omega) (.inl hM1)
    refine ⟨fun h => by omega, fun _ => ?_⟩
    rw [run_stopped P _ _ (by rw [hd]; intro hh; cases hh)]
    exact hd
  · have ha : Abs (init P : BisonStack.State V) [(0, v0)] := by
      by_cases h1 : 1 < P.I
      · exact (a1 h1).1
      · exact (a2 (by omega) (by omega) rfl).1
    have := run_abs P hP (List.replicate n (Push.shift st v)) _ _ (init_inv P hP true) ha
    rw [ideal_shifts P.M st v n _ (by simp), ← hev] at this
    constructor
    · intro hlt
      rw [if_pos (.inl (by simpa [Nat.add_comm] using hlt))] at this
      exact this
    · intro hge
      rw [if_neg (by
        intro h
        rcases h with h | h
        · simp only [List.length_singleton] at h; omega
        · omega)] at this
      exact this

/-- S3, **the limit of `Parser.lean` and `C03_stack_limit` is this limit, at the same moment**:
for every configuration `X` the loop reaches, the memory model driven by the parser's own pushes
has reported "memory exhausted" if and only if the next iteration of the loop does (`yystep`
returns `exhausted` with the message of `C03_stack_limit`), which is if and only if `X.stack` has
10000 entries. -/
theorem C03S_parser_exhausted_iff (w : World) (c : Config) (fuel : Nat) (s : ScanState)
    (ctx : ParseCtx) (X : PState) (h : Reach (theEnv w c fuel) (initial s ctx) X) :
    ∃ ps : List (Push TokVal), applyAll ps [(0, {})] = X.stack ∧
      ((BisonStack.run parserParams (ps.map Push.toEvent) (init parserParams)).status = .done .nomem ↔
        X.stack.length = 10000) ∧
      (X.stack.length = 10000 ↔
        yystep (theEnv w c fuel) X =
          .inl (X.s, X.ctx.yyerror X.s.buf.lineno Libconfig.C03.memoryExhausted, .exhausted)) := by
  obtain ⟨ps, h1, h2⟩ := reach_tracks w c fuel s ctx X h
  obtain ⟨hne, hle⟩ := Libconfig.C03.C03_stack_bounded w c fuel s ctx X h
  have hM : parserParams.M = 10000 := by decide
  refine ⟨ps, h1, ⟨fun hd => ?_, fun heq => h2.2 (by rw [hM]; omega)⟩, ⟨fun heq => ?_, fun hs => ?_⟩⟩
  · rcases Nat.lt_or_ge X.stack.length 10000 with hlt | hge
    · have := (h2.1 (by rw [hM]; exact hlt)).1
      rw [this] at hd; cases hd
    · omega
  · exact Libconfig.C03.C03_stack_limit w c fuel X hne (by omega)
  · have := Libconfig.C03.C03_exhausted_only_at_limit w c fuel X _ _ hs
    omega

/-- Whenever `yyparse` of `Parser.lean` returns "memory exhausted" (for all sufficiently large
fuel), the loop has reached a configuration whose stack has exactly 10000 entries, and the memory
model, driven by the pushes of that run, has filled the last slot of a block of `YYMAXDEPTH`
slots and reported "memory exhausted" as well. -/
theorem C03S_exhausted_run (w : World) (c₀ : Config) (lexFuel : Nat) (s₀ : ScanState) (ctx₀ : ParseCtx)
    (hex : ∃ N, ∀ fuel, N ≤ fuel → (yyparse (theEnv w c₀ lexFuel) fuel s₀ ctx₀).2.2 = .exhausted) :
    ∃ (X : PState) (ps : List (Push TokVal)),
      Reach (theEnv w c₀ lexFuel) (initial s₀ ctx₀) X ∧ X.stack.length = 10000 ∧
      applyAll ps [(0, {})] = X.stack ∧
      (BisonStack.run parserParams (ps.map Push.toEvent) (init parserParams)).status = .done .nomem := by
  obtain ⟨N, hN⟩ := hex
  have hres := hN N (Nat.le_refl _)
  obtain ⟨Y, hr, hfin⟩ := yyparseLoop_final (theEnv w c₀ lexFuel) N (initial s₀ ctx₀)
  have hloop : yyparseLoop (theEnv w c₀ lexFuel) N (initial s₀ ctx₀).stack (initial s₀ ctx₀).la
      (initial s₀ ctx₀).s (initial s₀ ctx₀).ctx = yyparse (theEnv w c₀ lexFuel) N s₀ ctx₀ := rfl
  rw [hloop] at hfin
  have hge : 10000 ≤ Y.stack.length := by
    rcases hfin with hstep | hout
    · have hst : yystep (theEnv w c₀ lexFuel) Y =
          .inl ((yyparse (theEnv w c₀ lexFuel) N s₀ ctx₀).1,
            (yyparse (theEnv w c₀ lexFuel) N s₀ ctx₀).2.1, .exhausted) := by
        rw [hstep, ← hres]
      exact Libconfig.C03.C03_exhausted_only_at_limit w c₀ lexFuel Y _ _ hst
    · rw [hout] at hres; cases hres
  obtain ⟨_, hle⟩ := Libconfig.C03.C03_stack_bounded w c₀ lexFuel s₀ ctx₀ Y hr
  obtain ⟨ps, h1, h2⟩ := reach_tracks w c₀ lexFuel s₀ ctx₀ Y hr
  have hM : parserParams.M = 10000 := by decide
  have hd := h2.2 (by rw [hM]; exact hge)
  exact ⟨Y, ps, hr, by omega, h1, hd⟩

/-- S3, **the known finding in memory terms, with the exact threshold**: a setting
`a = ( ( … ( ) … ) )` with 4997 or more nested lists makes the parser reach a configuration whose
stack has 10000 entries; the memory model, driven by the parser's pushes up to there, has filled
the last slot of its last block (10000 slots, `replay_9999`) and reported "memory exhausted".
`k` nested lists need `2k + 6` entries at their deepest point: `4 + 2k` after the `k`-th `(` and its
`$@3` (two entries per `(` on top of the four of `NAME $@1 =` and the bottom), one more for the
empty `value_list_optional` of the innermost list, one for its `)`.  For `k ≥ 4998` the limit is
reached while the parentheses are being opened (`C01_deep_nesting_exhausts`, which is where the
recorded figure 4998 comes from); for `k = 4997` at the innermost `)`
(`Proofs/C03StackDeep.lean`).  4996 nested lists need 9998 entries — below the last depth that
works, 9999 (`C03S_last_depth`) — and are accepted by the compiled library (observed, not proved:
grammar.c built with `YYDEBUG` prints stacks of at most 9998 entries for 4996 lists and "memory
exhausted" for 4997; `#eval` of `read` on the compiled model agrees: `accept` / `exhausted`). -/
theorem C03S_nested_lists (d : Nat) (hd : 4996 ≤ d) (w : World) (c₀ : Config) (lexFuel bufLen : Nat)
    (s₀ s₁ : ScanState) (ctx₀ : ParseCtx)
    (hlex : C02.LexesTo (theEnv w c₀ lexFuel) s₀
      (tokensOfConfig Generated.tokens bufLen (C01Parse.deepConfig d)) s₁)
    (hroot : C01Parse.stripPos ctx₀.cfg.root = { ty := T_GROUP }) (hpar : ctx₀.parent = some [])
    (hstr : ctx₀.str = none) :
    ∃ (X : PState) (ps : List (Push TokVal)),
      Reach (theEnv w c₀ lexFuel) (initial s₀ ctx₀) X ∧ X.stack.length = 10000 ∧
      applyAll ps [(0, {})] = X.stack ∧
      (BisonStack.run parserParams (ps.map Push.toEvent) (init parserParams)).status = .done .nomem := by
  apply C03S_exhausted_run
  rcases Nat.lt_or_ge d 4997 with hlt | hge
  · have hd' : d = 4996 := by omega
    subst hd'
    rw [C01Parse.stripPos_pp] at hroot
    rw [C01Parse.deepConfig_pp] at hlex
    exact deep_exhausts_4997 bufLen (C01PP.compiled_theEnv w c₀ lexFuel)
      (C01Parse.lexT_of_lexesTo hlex) hroot hpar hstr
  · exact C01Parse.C01_deep_nesting_exhausts_total d hge w c₀ lexFuel bufLen s₀ s₁ ctx₀ hlex
      hroot hpar hstr

/-! ## S4 — every block is released exactly once -/

/-- S4.  An allocator monitor (`Heap.check`: which heap blocks are allocated, with how many
slots; which have been released) accepts the log of every execution: every load, store and copy
goes to the automatic arrays or to a block that is allocated AT THAT MOMENT and has the number
of slots the access was checked against in S1; every `YYSTACK_FREE` releases an allocated heap
block.  Afterwards the allocator's view is `heapOf`: the blocks `0 … nextId - 1` were handed out;
the parser holds the newest one if it still runs on the heap and none after `yyparse` has
returned; all the others have been released, in the order of their allocation. -/
theorem C03S_heap (P : Params) (hP : P.OK) (ok : Bool) (es : List (Event V)) :
    Heap.check P.I (BisonStack.run P es (init P ok)).log = some (heapOf (BisonStack.run P es (init P ok))) :=
  run_heap P hP es _ (init_inv P hP ok) (init_heap P hP ok)

/-- what the parser holds: nothing after the return or while it uses the automatic arrays,
otherwise exactly the newest block, the one `yyss` points to -/
theorem C03S_held (P : Params) (hP : P.OK) (ok : Bool) (es : List (Event V)) :
    let s := BisonStack.run P es (init P ok)
    ((∃ r, s.status = .done r) → liveOf s = []) ∧ (s.loc = .auto → liveOf s = []) ∧
    (∀ id, s.loc = .heap id → id + 1 = s.nextId ∧
      ((∀ r, s.status ≠ .done r) → liveOf s = [(id, s.ss.length)])) := by
  intro s
  have hw := (C03S_inv P hP ok es).where_
  refine ⟨?_, ?_, ?_⟩
  · intro ⟨r, hr⟩
    unfold liveOf
    rw [hr]
  · intro hl
    unfold liveOf
    rw [hl]
    cases s.status <;> rfl
  · intro id hl
    constructor
    · rcases loc_cases hw with ⟨h1, _⟩ | ⟨k, h1, h2⟩
      · rw [show s.loc = _ from hl] at h1; cases h1
      · rw [show s.loc = _ from hl] at h1
        cases h1
        exact h2.symm
    · intro hnd
      unfold liveOf
      rw [hl]
      cases hs : s.status with
      | running => rfl
      | fault => rfl
      | done r => exact absurd hs (hnd r)

/-- S4, spelled out.  In the log of every execution: the automatic arrays are never released;
block `id` was allocated once if `id < nextId` and never otherwise; it has been released once if
it is not the block the parser holds, and not at all if it is; and no entry after a
`YYSTACK_FREE (b)` — load, store, copy, another release — names `b` again (the log is newest
first: `post` is what came after). -/
theorem C03S_freed_once (P : Params) (hP : P.OK) (ok : Bool) (es : List (Event V)) :
    let s := BisonStack.run P es (init P ok)
    Access.free .auto ∉ s.log ∧
    (∀ id, allocCount id s.log = if id < s.nextId then 1 else 0) ∧
    (∀ id, freeCount id s.log = if id + (liveOf s).length < s.nextId then 1 else 0) ∧
    (∀ post pre b, s.log = post ++ .free b :: pre → ∀ a ∈ post, b ∉ blocksOf a) := by
  intro s
  have hc := C03S_heap P hP ok es
  refine ⟨check_auto P.I _ _ hc, fun id => (check_counts P.I _ _ hc id).1, fun id => ?_,
    fun post pre b hlog => ?_⟩
  · rw [(check_counts P.I _ _ hc id).2]
    have : id ∈ (heapOf s).freed ↔ id + (liveOf s).length < s.nextId := by
      show id ∈ (List.range _).reverse ↔ _
      rw [List.mem_reverse, List.mem_range]
      omega
    by_cases h : id + (liveOf s).length < s.nextId
    · rw [if_pos h, if_pos (this.mpr h)]
    · rw [if_neg h, if_neg (fun hh => h (this.mp hh))]
  · have hc' : Heap.check P.I (post ++ .free b :: pre) = some (heapOf s) := by
      rw [← hlog]; exact hc
    exact check_no_use_after_free P.I post pre b _ hc'

/-- S4, **no leak**: once `yyparse` has returned — by `YYACCEPT`, `YYABORT` or "memory exhausted",
whichever events led there — every block that was allocated has been released exactly once, and
the allocator holds nothing for the parser. -/
theorem C03S_no_leak (P : Params) (hP : P.OK) (ok : Bool) (es : List (Event V)) (r : Result)
    (hd : (BisonStack.run P es (init P ok)).status = .done r) :
    (∀ id, freeCount id (BisonStack.run P es (init P ok)).log =
        allocCount id (BisonStack.run P es (init P ok)).log ∧
      allocCount id (BisonStack.run P es (init P ok)).log ≤ 1) ∧
    ∃ h, Heap.check P.I (BisonStack.run P es (init P ok)).log = some h ∧ h.live = [] := by
  obtain ⟨_, h2, h3, _⟩ := C03S_freed_once P hP ok es
  have hl : liveOf (BisonStack.run P es (init P ok)) = [] := (C03S_held P hP ok es).1 ⟨r, hd⟩
  refine ⟨fun id => ?_, _, C03S_heap P hP ok es, hl⟩
  have a := h2 id
  have b := h3 id
  rw [hl] at b
  simp only [List.length_nil, Nat.add_zero] at b
  rw [a, b]
  constructor
  · rfl
  · split <;> omega

/-- every way out of the loop returns: `YYACCEPT` / `YYABORT` with an admissible `yylen`, and the
error loop when it runs down to the bottom of the stack (which it always does for this grammar:
no state shifts the error token, `C03_no_error_shift`) -/
theorem C03S_returns (P : Params) (hP : P.OK) (ok : Bool) (es : List (Event V))
    (hr : (BisonStack.run P es (init P ok)).status = .running) :
    (∀ r len, len ≤ (BisonStack.run P es (init P ok)).ssp →
      (BisonStack.step P (BisonStack.run P es (init P ok)) (.finish r len)).status = .done r) ∧
    (∀ k, (BisonStack.run P es (init P ok)).ssp < k →
      (BisonStack.step P (BisonStack.run P es (init P ok)) (.errPop k)).status = .done .abort) := by
  have h := C03S_inv P hP ok es
  generalize BisonStack.run P es (init P ok) = s at h hr
  constructor
  · intro r len hlen
    have : BisonStack.step P s (.finish r len) = returnLab r len s := by
      unfold BisonStack.step; rw [hr]
    rw [this]
    obtain ⟨new, he, _⟩ := returnLab_spec r len s hlen h.same h.top h.capV h.initS h.initV
    rw [he]
  · intro k hk
    have : BisonStack.step P s (.errPop k) = errPop k s := by
      unfold BisonStack.step; rw [hr]
    rw [this]
    exact errPop_status P k s h hk

/-- S4 for the parser: from every configuration the loop of `Parser.lean` reaches below the
limit, whichever way it leaves the loop — `YYACCEPT`, `YYABORT` out of an action of a rule with
`len` right-hand-side symbols (fewer than the stack has entries, `C03_no_underflow`), a syntax
error (`len = 0`; the error loop finds no state that shifts `error` and empties the stack, which
is what the cleanup loop does as well) — `yyparse` returns, the allocator holds nothing for it
afterwards, and every block allocated has been released exactly once. -/
theorem C03S_parser_returns (w : World) (c : Config) (fuel : Nat) (s : ScanState) (ctx : ParseCtx)
    (X : PState) (h : Reach (theEnv w c fuel) (initial s ctx) X) (hlt : X.stack.length < 10000) :
    ∃ ps : List (Push TokVal), applyAll ps [(0, {})] = X.stack ∧
      ∀ (r : Result) (len : Nat), len < X.stack.length →
        let m := BisonStack.run parserParams (ps.map Push.toEvent ++ [.finish r len]) (init parserParams)
        m.status = .done r ∧
        (∀ id, freeCount id m.log = allocCount id m.log ∧ allocCount id m.log ≤ 1) ∧
        ∃ hp, Heap.check parserParams.I m.log = some hp ∧ hp.live = [] := by
  obtain ⟨ps, h1, h2⟩ := reach_tracks w c fuel s ctx X h
  refine ⟨ps, h1, fun r len hlen => ?_⟩
  intro m
  have ha := h2.1 (by rw [show parserParams.M = 10000 from by decide]; exact hlt)
  have hinv := C03S_inv parserParams parserParams_ok true (ps.map Push.toEvent)
  have hl := abs_length ha hinv.top
  have hm : m = BisonStack.step parserParams
      (BisonStack.run parserParams (ps.map Push.toEvent) (init parserParams)) (.finish r len) :=
    run_snoc parserParams _ _ _
  have hd : m.status = .done r := by
    rw [hm]
    exact (C03S_returns parserParams parserParams_ok true (ps.map Push.toEvent) ha.1).1 r len (by omega)
  obtain ⟨n1, n2⟩ := C03S_no_leak parserParams parserParams_ok true
    (ps.map Push.toEvent ++ [.finish r len]) r hd
  exact ⟨hd, n1, n2⟩

/-- non-vacuity: 7 shifts and `YYABORT` with the small constants — two blocks allocated (8 and 16
slots), block 0 released by the second extension, block 1 at the return; the monitor ends with
nothing allocated, both released -/
example :
    Heap.check 4 (BisonStack.run P4 (List.replicate 7 (.shift 1 10) ++ [.finish .abort 0]) (init P4)).log =
      some { live := [], freed := [1, 0], next := 2 } ∧
    Heap.check 4 (BisonStack.run P4 (List.replicate 7 (.shift 1 10)) (init P4)).log =
      some { live := [(1, 16)], freed := [0], next := 2 } ∧
    allocCount 0 (BisonStack.run P4 (List.replicate 7 (.shift 1 10)) (init P4)).log = 1 ∧
    freeCount 0 (BisonStack.run P4 (List.replicate 7 (.shift 1 10)) (init P4)).log = 1 ∧
    freeCount 1 (BisonStack.run P4 (List.replicate 7 (.shift 1 10)) (init P4)).log = 0 ∧
    freeCount 1 (BisonStack.run P4 (List.replicate 7 (.shift 1 10) ++ [.finish .abort 0]) (init P4)).log = 1 := by
  decide

/-- the monitor is not vacuous: it rejects a store to a released block, a second release, and a
store checked against the wrong number of slots -/
example :
    Heap.check 4 [.storeS (.heap 0) 8 1, .free (.heap 0), .alloc (.heap 0) 8] = none ∧
    Heap.check 4 [.free (.heap 0), .free (.heap 0), .alloc (.heap 0) 8] = none ∧
    Heap.check 4 [.storeS (.heap 0) 9 1, .alloc (.heap 0) 8] = none ∧
    Heap.check 4 [.free .auto] = none ∧
    Heap.check 4 [.free (.heap 0), .storeS (.heap 0) 8 1, .alloc (.heap 0) 8] =
      some { live := [], freed := [0], next := 1 } := by decide

/-! ## S5 — the seeded change is refuted -/

/-- the small constants with the seeded test `yyss + yystacksize - 1 < yyssp` -/
def P4seeded : Params := { P4 with test := fullTestSeeded }

/-- S5, small constants: three shifts fill the automatic arrays (the real code has left them by
then); the fourth stores to `yyvsa[4]` and `yyssa[4]`, and only then are the stacks extended —
with copies of 5 elements out of arrays of 4 -/
example :
    (BisonStack.run P4seeded (List.replicate 3 (.shift 1 10)) (init P4seeded : BisonStack.State Nat)).ssp = 3 ∧
    (BisonStack.run P4seeded (List.replicate 3 (.shift 1 10)) (init P4seeded : BisonStack.State Nat)).loc = .auto ∧
    (BisonStack.run P4seeded (List.replicate 4 (.shift 1 10)) (init P4seeded : BisonStack.State Nat)).trace.drop 7 =
      [.storeV .auto 4 4, .storeS .auto 4 4, .alloc (.heap 0) 8, .copyS .auto 4 (.heap 0) 8 5,
       .copyV .auto 4 (.heap 0) 8 5] ∧
    ¬ (Access.storeV .auto 4 4).ok ∧ ¬ (Access.copyS .auto 4 (.heap 0) 8 5).ok := by decide

/-- S5 at the constants of grammar.c, kernel-evaluated: with the seeded test 199 shifts leave
`yyssp` at `yyssa + 199`, the last slot, nothing allocated (`replay_seeded_199`, on the integer
shadow); the 200th shift stores to `yyvsa[200]` and `yyssa[200]` (`replay_seeded_200`, on the
full model): S1 fails. -/
theorem C03S_seeded_breaks :
    ¬ ∀ a ∈ (BisonStack.run seededParams (shifts 200) (init seededParams true)).log, a.ok := by
  intro h
  obtain ⟨a, ha, hb⟩ := List.any_eq_true.mp replay_seeded_200.2
  exact oobStore_not_ok a hb (h a ha)

example : ctlOf (BisonStack.run seededParams (shifts 199) (init seededParams true)) =
    { loc := .auto, stacksize := 200, capS := 200, capV := 200, ssp := 199, vsp := 199,
      status := .running, nextId := 0, sizes := [] } := by
  rw [ctl_shifts]; exact replay_seeded_199

/-- S5 for all constants: whatever `YYINITDEPTH > 0` and `YYMAXDEPTH` are, the parser with the
seeded test reaches an out-of-bounds store — after `YYINITDEPTH` shifts from the start of `yyparse`
the log holds the value store to slot `YYINITDEPTH` of the automatic array of `YYINITDEPTH`
slots.  The state before that shift is one the real code never is in: `yyssp` at the last slot
(`C03S_spare_slot`). -/
theorem C03S_seeded_breaks_all (P : Params) (hI : 0 < P.I) (hT : P.test = fullTestSeeded) (st : Nat)
    (v : V) (ok : Bool) :
    Access.storeV .auto P.I P.I ∈
      (BisonStack.run P (List.replicate P.I (.shift st v ok)) (init P ok)).log ∧
    ¬ ∀ a ∈ (BisonStack.run P (List.replicate P.I (.shift st v ok)) (init P ok)).log, a.ok :=
  ⟨seeded_oob_store P hI hT st v ok, seeded_breaks P hI hT st v ok⟩

/-! ## replays at the constants of grammar.c

Kernel-evaluated on the integer shadow `Ctl` (`Proofs/C03StackReplay.lean`), which `ctl_run` proves
exact for every execution: `ctlOf` of the full model's state is what the shadow computes. -/

/-- 198 shifts: 199 entries, still in `yyssa` / `yyvsa` -/
example : ctlOf (BisonStack.run parserParams (shifts 198) (init parserParams true)) =
    { loc := .auto, stacksize := 200, capS := 200, capV := 200, ssp := 198, vsp := 198,
      status := .running, nextId := 0, sizes := [] } := by
  rw [ctl_shifts]; exact replay_198

/-- the 199th shift pushes the 200th entry: 200 → 400 -/
example : ctlOf (BisonStack.run parserParams (shifts 199) (init parserParams true)) =
    { loc := .heap 0, stacksize := 400, capS := 400, capV := 400, ssp := 199, vsp := 199,
      status := .running, nextId := 1, sizes := [400] } := by
  rw [ctl_shifts]; exact replay_199

/-- 9998 shifts: 9999 entries, the parser runs; six blocks: 400, 800, 1600, 3200, 6400, 10000 -/
example : ctlOf (BisonStack.run parserParams (shifts 9998) (init parserParams true)) =
    { loc := .heap 5, stacksize := 10000, capS := 10000, capV := 10000, ssp := 9998, vsp := 9998,
      status := .running, nextId := 6, sizes := [10000, 6400, 3200, 1600, 800, 400] } := by
  rw [ctl_shifts]; exact replay_9998

/-- the 9999th shift pushes the 10000th entry: "memory exhausted" -/
example : ctlOf (BisonStack.run parserParams (shifts 9999) (init parserParams true)) =
    { loc := .heap 5, stacksize := 10000, capS := 10000, capV := 10000, ssp := 0, vsp := 0,
      status := .done .nomem, nextId := 6, sizes := [10000, 6400, 3200, 1600, 800, 400] } := by
  rw [ctl_shifts]; exact replay_9999

/-- … in agreement with `C03S_last_depth` at these constants -/
example :
    Abs (BisonStack.run parserParams (List.replicate 9998 (.shift 1 7 true)) (init parserParams))
      (List.replicate 9998 (1, 7) ++ [(0, 0)]) ∧
    (BisonStack.run parserParams (List.replicate 9999 (.shift 1 7 true))
      (init parserParams : BisonStack.State Nat)).status = .done .nomem :=
  ⟨(C03S_last_depth parserParams parserParams_ok 1 7 0 9998).1 (by decide),
   (C03S_last_depth parserParams parserParams_ok 1 7 0 9999).2 (by decide)⟩

end Libconfig.C03S
