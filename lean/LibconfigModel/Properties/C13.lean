import LibconfigModel.Alloc
import LibconfigModel.Generated.Inventory
/-
  C13 — every allocation failure reaches the fatal-error handler.
  (i) the inventory of raw allocation calls, re-extracted from the preprocessed sources on
  every run, shows that the library's own code allocates only inside the checked wrappers;
  (ii) in the abstract program model a failing request invokes the handler in the very
  action that made the request, and nothing later runs.
-/
namespace Libconfig.C13
open Generated

/-- the functions that may call a raw allocator: the checked wrappers of util.c, and the
checked helper of the C++ layer -/
def checkedWrappers : List String :=
  ["libconfig_malloc", "libconfig_calloc", "libconfig_realloc", "libconfig_strdup", "__strdup_or_throw"]

/-- Every call of malloc/calloc/realloc/strdup/… in the library's translation units
(C and C++, generated scanner and parser included, macros resolved) sits inside a checked
wrapper. -/
theorem C13_sites : ∀ s ∈ allocSites, s.func ∈ checkedWrappers := by decide

/-- the wrappers themselves have the catalogued text: allocate, test, call the handler -/
theorem C13_wrappers : wrappersKnown = true := by decide

/-- the inventory covered every translation unit -/
theorem C13_inventory_complete : inventoryErrors = [] := by decide

/-- If the k-th request fails (k below the number of requests the operation makes), the
handler is invoked at exactly that request and no later action runs. -/
theorem C13_kth (acts : List Act) (k pos : Nat) (h : k < allocCount acts) :
    ∃ p, allocPos acts k pos = some p ∧ runAllocs acts (some k) pos = .fatal p := by
  induction acts generalizing k pos with
  | nil => simp [allocCount] at h
  | cons a rest ih =>
    cases a with
    | work =>
      have : k < allocCount rest := by simpa [allocCount] using h
      simpa [allocPos, runAllocs] using ih k (pos + 1) this
    | alloc =>
      cases k with
      | zero => exact ⟨pos, rfl, rfl⟩
      | succ k =>
        have : k < allocCount rest := by
          simp [allocCount] at h ⊢; omega
        simpa [allocPos, runAllocs] using ih k (pos + 1) this

/-- Without a failing request the operation runs to completion; a failure index beyond the
number of requests changes nothing. -/
theorem C13_nofault (acts : List Act) (pos : Nat) :
    runAllocs acts none pos = .normal (pos + acts.length) := by
  induction acts generalizing pos with
  | nil => rfl
  | cons a rest ih => cases a <;> simp [runAllocs, ih] <;> omega

theorem C13_beyond (acts : List Act) (k pos : Nat) (h : allocCount acts ≤ k) :
    runAllocs acts (some k) pos = .normal (pos + acts.length) := by
  induction acts generalizing k pos with
  | nil => rfl
  | cons a rest ih =>
    cases a with
    | work =>
      have : allocCount rest ≤ k := by simpa [allocCount] using h
      simp [runAllocs, ih k (pos + 1) this]; omega
    | alloc =>
      cases k with
      | zero => simp [allocCount] at h
      | succ k =>
        have : allocCount rest ≤ k := by simp [allocCount] at h ⊢; omega
        simp [runAllocs, ih k (pos + 1) this]; omega

/-- Non-vacuity: the second of three requests fails at action 2 -/
example : runAllocs [.alloc, .work, .alloc, .work, .alloc] (some 1) 0 = .fatal 2 := by decide

end Libconfig.C13
