import LibconfigModel.DenotePos
import LibconfigModel.Properties.C02Denote
import LibconfigModel.Properties.C09
import LibconfigModel.Proofs.C09LineLex
/-
  C09L — "the line (and the file) of the offending token": the position part of the parser's
  error report, as a theorem over the TRANSLATED tables.

  `Properties/C02Denote.lean` proves that `libconfig_yyparse` — the bison LALR(1) automaton over
  `Generated.parser` with the semantic actions of lib/grammar.y — rejects exactly the texts the
  reference interpreter `denote` rejects, with the same message; it says nothing about the LINE
  and the FILE reported with the message.  This file does:

      offence o toks = some (k, i)  →
        after `yyparse`:   config_error_text = the text of k
                           config_error_line = the scanner's line counter right after the token
                                               with index  reportIndex toks (k, i)  was returned
                           config_error_file = the file the scanner was reading at that moment

  where `offence` (DenotePos.lean) is the reference interpreter telling WHICH token it rejects —
  the one the documentation calls the offending one: the first token that cannot continue a
  sentence of the grammar (the end-of-input pseudo token if the text ends too early), the NAME
  token of a duplicate setting, the (last) token of a mismatching array element — and
  `reportIndex toks (k, i)` is `i` in every case but one: a mismatching array element that is a
  STRING is reported at the position of the token that FOLLOWS it (`i + 1`), because adjacent
  string literals are concatenated and the parser therefore knows that the element is complete
  only when it has seen the next token.  That is the project's recorded finding
  `C02:string-element-mismatch-line`; here it is part of the specification (`reportIndex`,
  `reportedLate`), proved in general (`C09L_position`), with the corollary "the reported position
  is the offending token's own in every other case" (`C09L_position_own`) and a kernel-evaluated
  witness that it really is another line in that case (`C09L_string_element_finding`).

  Why the positions come out like this (the proof follows the parser): bison fetches a lookahead
  token only in a state without default reduction.  A syntax error is detected in such a state,
  on the lookahead: the scanner stands right after the offending token.  The mid-rule action
  `$@1` that adds a setting (and finds the duplicate) and the actions for BOOLEAN … FLOAT run by
  default reduction in the state entered by shifting the NAME resp. the literal: the scanner
  stands right after that token.  Only `simple_value: string` needs the lookahead.
  (`Proofs/C09LineStep.lean`: `ninf_1`, `ninf_9` … `ninf_14`, `nn_22`, and `nn_2` … `nn_39` for the
  states that report syntax errors.)

  "The scanner's line counter right after a token was returned" is the line on which the token
  ENDS: white space, comments and newlines in front of a token are consumed by the call of
  `yylex` that returns it, those behind it by the next call.  For every token but a string literal
  with embedded newlines that is the line the token stands on.

  The scanner's side is an explicit hypothesis, as in C02Denote: `LexesToPos E s₀ ptoks s₁` —
  `C02Denote.LexesToPlain` recording, for each token, the scan state right after it was returned
  (line counter `buf.lineno` of the current buffer — per buffer: C10_lineno_per_buffer —, include
  stack, hence `currentFilename`).  Successful `@include`s happen inside `yylex`, so they DO occur
  in such runs: a token's recorded state then names the included file.

  Statements and examples only; the proof is in LibconfigModel/Proofs/C09Line*.lean:
    C09LineSpec   unfolding lemmas for the interpreter of DenotePos.lean; forgetting "where" gives
                  Denote.lean's; what it points at is a suffix of the text
    C09LineStep   the remaining input with positions, aborts at a scan state, single iterations
    C09LineSim, C09LineSim2, C09LineSim3   the simulation of Proofs/C02DenoteSim*.lean with positions
    C09LineMain   the whole parse
    C09LineLex    from positions to token indices; `topFile` is never touched

  Nothing asked for turned out false.
-/
namespace Libconfig.C09Line
open Libconfig Denote C02Denote
open C09L

/-! ### M1 — the specification: which token, and which position is reported

`offence`, `reportIndex`, `reportedLate`, `isStringAt` are defined in DenotePos.lean. -/

/-- `offence` and `denote` agree on whether and why a text is rejected: `offence` only adds
where. -/
theorem C09L_offence_denote (o : Options) (toks : List (Nat × TokVal)) :
    (offence o toks).map (·.1) =
      match denote o toks with
      | .ok _ => none
      | .error k => some k := by
  unfold offence
  rw [Option.map_map]
  exact C09L.offenceAt_denote o toks

/-- in particular: a text with an offence is one `denote` rejects, for the same reason -/
theorem C09L_offence_error (o : Options) (toks : List (Nat × TokVal)) (k : ErrKind) (i : Nat)
    (h : offence o toks = some (k, i)) : denote o toks = .error k := by
  have := C09L_offence_denote o toks
  rw [h] at this
  cases hd : denote o toks with
  | ok t => rw [hd] at this; cases this
  | error k' =>
    rw [hd] at this
    simp only [Option.map_some, Option.some.injEq] at this
    rw [this]

/-- … and a text `denote` rejects has an offence -/
theorem C09L_error_offence (o : Options) (toks : List (Nat × TokVal)) (k : ErrKind)
    (h : denote o toks = .error k) : ∃ i, offence o toks = some (k, i) := by
  have := C09L_offence_denote o toks
  rw [h] at this
  cases ho : offence o toks with
  | none => rw [ho] at this; cases this
  | some p =>
    obtain ⟨k', i⟩ := p
    rw [ho] at this
    simp only [Option.map_some, Option.some.injEq] at this
    exact ⟨i, by rw [this]⟩

/-- the offending token is one of the text, or the end of the input -/
theorem C09L_offence_le (o : Options) (toks : List (Nat × TokVal)) (k : ErrKind) (i : Nat)
    (h : offence o toks = some (k, i)) : i ≤ toks.length := by
  unfold offence at h
  cases ho : offenceAt o toks with
  | none => rw [ho] at h; cases h
  | some p =>
    rw [ho] at h
    simp only [Option.map_some, Option.some.injEq, Prod.mk.injEq] at h
    rw [← h.2]
    exact Nat.sub_le _ _

/-- `reportIndex` differs from the offending token's index in one case only … -/
theorem C09L_reportIndex_own (toks : List (Nat × TokVal)) (k : ErrKind) (i : Nat)
    (h : reportedLate toks (k, i) = false) : reportIndex toks (k, i) = i := by
  unfold reportIndex
  rw [h]
  rfl

/-- … a mismatching array element that is a string literal: then it is the next index -/
theorem C09L_reportIndex_late (toks : List (Nat × TokVal)) (k : ErrKind) (i : Nat) :
    reportedLate toks (k, i) = true ↔
      k = .arrayElemType ∧ ∃ tv, toks[i]? = some tv ∧ tv.1 = Generated.tokens.string := by
  unfold reportedLate isStringAt
  simp only [Bool.and_eq_true]
  constructor
  · intro ⟨h1, h2⟩
    refine ⟨?_, ?_⟩
    · cases k <;> first | rfl | cases h1
    · cases ht : toks[i]? with
      | none => rw [ht] at h2; cases h2
      | some tv =>
        rw [ht] at h2
        exact ⟨tv, rfl, by simpa using h2⟩
  · intro ⟨h1, tv, h2, h3⟩
    subst h1
    rw [h2]
    exact ⟨rfl, by simpa using h3⟩

theorem C09L_reportIndex_late_eq (toks : List (Nat × TokVal)) (k : ErrKind) (i : Nat)
    (h : reportedLate toks (k, i) = true) : reportIndex toks (k, i) = i + 1 := by
  unfold reportIndex
  rw [h]
  rfl

/-- a syntax error and a duplicate name are never reported late -/
theorem C09L_syntax_own (toks : List (Nat × TokVal)) (i : Nat) :
    reportIndex toks (.syntax, i) = i := rfl
theorem C09L_duplicate_own (toks : List (Nat × TokVal)) (i : Nat) :
    reportIndex toks (.duplicateName, i) = i := rfl

/-! #### the specification at work (evaluated by the kernel)

Each text is scanned by the compiled scanner (`C02Denote.lexText`), the tokens are handed to
`offence`; shown are the kind, the index of the offending token and the index of the token whose
position is reported. -/

/-- what the compiled scanner and the interpreter make of a text -/
def offenceText (o : Options) (text : Bytes) : Option (Option (ErrKind × Nat × Nat)) :=
  (lexText text).map fun toks => (offence o toks).map fun p => (p.1, p.2, reportIndex toks p)

/-- a text that denotes a configuration has no offence -/
example : offenceText {} C02Denote.text1 = some none := by decide +kernel

/-- `a = 1; b = ; a = 2;` — tokens `a = 1 ; b = ; a = 2 ;`: the `;` with index 6 cannot continue
`b =` (the later duplicate `a` is not reached) -/
example : offenceText {} (bytesOfString "a = 1; b = ; a = 2;") = some (some (.syntax, 6, 6)) := by
  decide +kernel

/-- `a = (1, 2` — the text ends too early: the offending "token" is the end of the input, index 6
= the number of tokens -/
example : offenceText {} (bytesOfString "a = (1, 2") = some (some (.syntax, 6, 6)) := by
  decide +kernel

/-- `a = 1; b = 2; a = 3;` — the NAME of the second `a`, index 8 -/
example : offenceText {} C02Denote.text3 = some (some (.duplicateName, 8, 8)) := by decide +kernel

/-- `a = [1, 2L, 3];` — the element `2L` (index 5) is reported where it stands -/
example : offenceText {} (bytesOfString "a = [1, 2L, 3];") = some (some (.arrayElemType, 5, 5)) := by
  decide +kernel

/-- `a = [1, "x" "y" , 3];` — the offending token is the LAST literal of the string element
(index 6); reported is the position of the token after it, the comma (index 7) -/
example : offenceText {} (bytesOfString "a = [1, \"x\" \"y\" , 3];") =
    some (some (.arrayElemType, 6, 7)) := by decide +kernel

/-- `a = [1, "x"` — … which may be the end of the input -/
example : offenceText {} (bytesOfString "a = [1, \"x\"") = some (some (.arrayElemType, 5, 6)) := by
  decide +kernel

/-- the first offence in reading order: the mismatching element before the missing bracket -/
example : offenceText {} (bytesOfString "a = [1, 2L }") = some (some (.arrayElemType, 5, 5)) := by
  decide +kernel

/-! ### vocabulary of the theorems

`LexesToPos E s ptoks s'` (Proofs/C09LineLex.lean): calling `yylex` repeatedly from `s` returns
the tokens of `ptoks`, each recorded with the scan state right after it was returned, and then
end of input, ending in `s'`; no include error occurs.  `tokensOf ptoks` are the tokens,
`stateAfter ptoks s' i` the scan state right after the token with index `i` (for the
end-of-input pseudo token: `s'`). -/

/-- forgetting the positions gives a run in the sense of C02Denote … -/
theorem LexesToPos.plain {E : ParserEnv} {s s' : ScanState}
    {ptoks : List ((Nat × TokVal) × ScanState)} (h : LexesToPos E s ptoks s') :
    LexesToPlain E s (tokensOf ptoks) s' := by
  induction h with
  | eof s s' hy => exact .eof s s' hy
  | tok s s₁ s' t v rest hy _ ih => exact .tok s s₁ s' t v (tokensOf rest) hy ih

/-- … and every such run has its positions: the hypothesis `LexesToPos` of the theorems below is
`LexesToPlain` of C02Denote, no more -/
theorem LexesToPos.exists_of_plain {E : ParserEnv} {s s' : ScanState} {toks : List (Nat × TokVal)}
    (h : LexesToPlain E s toks s') : ∃ ptoks, tokensOf ptoks = toks ∧ LexesToPos E s ptoks s' := by
  induction h with
  | eof s s' hy => exact ⟨[], rfl, .eof s s' hy⟩
  | tok s s₁ s' t v rest hy _ ih =>
    obtain ⟨ptoks, h1, h2⟩ := ih
    exact ⟨((t, v), s₁) :: ptoks, by rw [← h1]; rfl, .tok s s₁ s' t v ptoks hy h2⟩

/-- the end-of-input pseudo token: the final state of the scanner -/
theorem stateAfter_end (ptoks : List ((Nat × TokVal) × ScanState)) (sEnd : ScanState) :
    stateAfter ptoks sEnd ptoks.length = sEnd := by
  unfold stateAfter
  rw [List.getElem?_eq_none (Nat.le_refl _)]

/-! ### M2 — the theorem -/

/-- **The position of the offence.**  Let `E` be a parser environment over the compiled parser
tables and actions (any scanner, world and include configuration).  Let its scanner, started in
`s₀`, deliver the tokens of `ptoks` — each recorded with the scan state right after it — and then
end of input in `s₁`, without include error.  Let `ctx₀` be a parse context over a cleared
configuration as `__config_read` sets it up, with no error message pending, and `o` its options
that matter.  If the reference interpreter rejects the tokens for `k` at the token with index `i`
(`offence`), then whatever `yyparse` returns with enough fuel is: 1, with `config_error_text` the
text of `k`, `config_error_line` the line counter of the scan state right after the token with
index `reportIndex toks (k, i)` — and that scan state is the one `yyparse` hands back (from which
`__config_read` takes `config_error_file`). -/
theorem C09L_position_env (E : ParserEnv) (hP : E.P = Generated.parser)
    (hA : E.acts = Generated.parseActions) (o : Options)
    (ptoks : List ((Nat × TokVal) × ScanState)) (h0 : NonZero (tokensOf ptoks))
    (hnames : NamesValid (tokensOf ptoks)) (hnest : nesting (tokensOf ptoks) ≤ maxNesting)
    (fuel : Nat) (s₀ s₁ s' : ScanState) (ctx₀ ctx' : ParseCtx) (r : ParseResult)
    (hlex : LexesToPos E s₀ ptoks s₁)
    (hroot : stripPos ctx₀.cfg.root = { ty := T_GROUP }) (hpar : ctx₀.parent = some [])
    (hstr : ctx₀.str = none) (hopt : ctx₀.cfg.opt OPT_ALLOW_OVERRIDES = o.allowOverrides)
    (herr : ctx₀.cfg.errText = none)
    (h : yyparse E fuel s₀ ctx₀ = (s', ctx', r)) (hr : r ≠ .outOfFuel) (k : ErrKind) (i : Nat)
    (hd : offence o (tokensOf ptoks) = some (k, i)) :
    r = .abort ∧ ctx'.cfg.errText = some k.text ∧
      ctx'.cfg.errLine =
        (stateAfter ptoks s₁ (reportIndex (tokensOf ptoks) (k, i))).buf.lineno ∧
      s' = stateAfter ptoks s₁ (reportIndex (tokensOf ptoks) (k, i)) :=
  C09L.position_core ⟨hP, hA⟩ ptoks (rawOK_of h0 hnames) hnest hlex
    (by rw [← C01Parse.stripPos_pp]; exact hroot) hpar hstr ⟨hopt, fun _ => herr⟩ h hr hd

/-- **Corollary: in every case but the string element, the position reported is the offending
token's own.** -/
theorem C09L_position_own_env (E : ParserEnv) (hP : E.P = Generated.parser)
    (hA : E.acts = Generated.parseActions) (o : Options)
    (ptoks : List ((Nat × TokVal) × ScanState)) (h0 : NonZero (tokensOf ptoks))
    (hnames : NamesValid (tokensOf ptoks)) (hnest : nesting (tokensOf ptoks) ≤ maxNesting)
    (fuel : Nat) (s₀ s₁ s' : ScanState) (ctx₀ ctx' : ParseCtx) (r : ParseResult)
    (hlex : LexesToPos E s₀ ptoks s₁)
    (hroot : stripPos ctx₀.cfg.root = { ty := T_GROUP }) (hpar : ctx₀.parent = some [])
    (hstr : ctx₀.str = none) (hopt : ctx₀.cfg.opt OPT_ALLOW_OVERRIDES = o.allowOverrides)
    (herr : ctx₀.cfg.errText = none)
    (h : yyparse E fuel s₀ ctx₀ = (s', ctx', r)) (hr : r ≠ .outOfFuel) (k : ErrKind) (i : Nat)
    (hd : offence o (tokensOf ptoks) = some (k, i))
    (hown : reportedLate (tokensOf ptoks) (k, i) = false) :
    ctx'.cfg.errLine = (stateAfter ptoks s₁ i).buf.lineno ∧ s' = stateAfter ptoks s₁ i := by
  have := C09L_position_env E hP hA o ptoks h0 hnames hnest fuel s₀ s₁ s' ctx₀ ctx' r hlex hroot hpar
    hstr hopt herr h hr k i hd
  rw [C09L_reportIndex_own _ _ _ hown] at this
  exact this.2.2

/-- **C09L** for the compiled scanner and parser (`theEnv w c₀ lexFuel`, any world and reading
configuration): the tokens are never numbered 0. -/
theorem C09L_position (w : World) (c₀ : Config) (lexFuel : Nat) (o : Options)
    (ptoks : List ((Nat × TokVal) × ScanState)) (hnames : NamesValid (tokensOf ptoks))
    (hnest : nesting (tokensOf ptoks) ≤ maxNesting)
    (fuel : Nat) (s₀ s₁ s' : ScanState) (ctx₀ ctx' : ParseCtx) (r : ParseResult)
    (hlex : LexesToPos (theEnv w c₀ lexFuel) s₀ ptoks s₁)
    (hroot : stripPos ctx₀.cfg.root = { ty := T_GROUP }) (hpar : ctx₀.parent = some [])
    (hstr : ctx₀.str = none) (hopt : ctx₀.cfg.opt OPT_ALLOW_OVERRIDES = o.allowOverrides)
    (herr : ctx₀.cfg.errText = none)
    (h : yyparse (theEnv w c₀ lexFuel) fuel s₀ ctx₀ = (s', ctx', r)) (hr : r ≠ .outOfFuel)
    (k : ErrKind) (i : Nat) (hd : offence o (tokensOf ptoks) = some (k, i)) :
    r = .abort ∧ ctx'.cfg.errText = some k.text ∧
      ctx'.cfg.errLine =
        (stateAfter ptoks s₁ (reportIndex (tokensOf ptoks) (k, i))).buf.lineno ∧
      s' = stateAfter ptoks s₁ (reportIndex (tokensOf ptoks) (k, i)) :=
  C09L_position_env (theEnv w c₀ lexFuel) rfl rfl o ptoks
    (C02D_scanner_nonzero w c₀ lexFuel s₀ s₁ _ (LexesToPos.plain hlex).lexesTo) hnames hnest fuel
    s₀ s₁ s' ctx₀ ctx' r hlex hroot hpar hstr hopt herr h hr k i hd

/-- … and its corollary -/
theorem C09L_position_own (w : World) (c₀ : Config) (lexFuel : Nat) (o : Options)
    (ptoks : List ((Nat × TokVal) × ScanState)) (hnames : NamesValid (tokensOf ptoks))
    (hnest : nesting (tokensOf ptoks) ≤ maxNesting)
    (fuel : Nat) (s₀ s₁ s' : ScanState) (ctx₀ ctx' : ParseCtx) (r : ParseResult)
    (hlex : LexesToPos (theEnv w c₀ lexFuel) s₀ ptoks s₁)
    (hroot : stripPos ctx₀.cfg.root = { ty := T_GROUP }) (hpar : ctx₀.parent = some [])
    (hstr : ctx₀.str = none) (hopt : ctx₀.cfg.opt OPT_ALLOW_OVERRIDES = o.allowOverrides)
    (herr : ctx₀.cfg.errText = none)
    (h : yyparse (theEnv w c₀ lexFuel) fuel s₀ ctx₀ = (s', ctx', r)) (hr : r ≠ .outOfFuel)
    (k : ErrKind) (i : Nat) (hd : offence o (tokensOf ptoks) = some (k, i))
    (hown : reportedLate (tokensOf ptoks) (k, i) = false) :
    ctx'.cfg.errLine = (stateAfter ptoks s₁ i).buf.lineno ∧ s' = stateAfter ptoks s₁ i :=
  C09L_position_own_env (theEnv w c₀ lexFuel) rfl rfl o ptoks
    (C02D_scanner_nonzero w c₀ lexFuel s₀ s₁ _ (LexesToPos.plain hlex).lexesTo) hnames hnest fuel
    s₀ s₁ s' ctx₀ ctx' r hlex hroot hpar hstr hopt herr h hr k i hd hown

/-- … and the parse does return: there is a bound `N` such that with any fuel ≥ `N` the parser
returns 1, in the scan state right after the token `reportIndex` names, with its line recorded. -/
theorem C09L_position_total (w : World) (c₀ : Config) (lexFuel : Nat) (o : Options)
    (ptoks : List ((Nat × TokVal) × ScanState)) (hnames : NamesValid (tokensOf ptoks))
    (hnest : nesting (tokensOf ptoks) ≤ maxNesting)
    (s₀ s₁ : ScanState) (ctx₀ : ParseCtx)
    (hlex : LexesToPos (theEnv w c₀ lexFuel) s₀ ptoks s₁)
    (hroot : stripPos ctx₀.cfg.root = { ty := T_GROUP }) (hpar : ctx₀.parent = some [])
    (hstr : ctx₀.str = none) (hopt : ctx₀.cfg.opt OPT_ALLOW_OVERRIDES = o.allowOverrides)
    (herr : ctx₀.cfg.errText = none)
    (k : ErrKind) (i : Nat) (hd : offence o (tokensOf ptoks) = some (k, i)) :
    ∃ N, ∀ fuel, N ≤ fuel →
      (yyparse (theEnv w c₀ lexFuel) fuel s₀ ctx₀).2.2 = .abort ∧
      (yyparse (theEnv w c₀ lexFuel) fuel s₀ ctx₀).2.1.cfg.errText = some k.text ∧
      (yyparse (theEnv w c₀ lexFuel) fuel s₀ ctx₀).2.1.cfg.errLine =
        (stateAfter ptoks s₁ (reportIndex (tokensOf ptoks) (k, i))).buf.lineno ∧
      (yyparse (theEnv w c₀ lexFuel) fuel s₀ ctx₀).1 =
        stateAfter ptoks s₁ (reportIndex (tokensOf ptoks) (k, i)) := by
  obtain ⟨N, hN⟩ := C02D_error_total w c₀ lexFuel o (tokensOf ptoks) hnames hnest s₀ s₁ ctx₀
    (LexesToPos.plain hlex).lexesTo hroot hpar hstr hopt k (C09L_offence_error o _ k i hd)
  refine ⟨N, fun fuel hf => ?_⟩
  have hab := hN fuel hf
  cases hp : yyparse (theEnv w c₀ lexFuel) fuel s₀ ctx₀ with
  | mk s' rest =>
    cases rest with
    | mk ctx' r =>
      rw [hp] at hab
      have hab : r = .abort := hab
      exact C09L_position w c₀ lexFuel o ptoks hnames hnest fuel s₀ s₁ s' ctx₀ ctx' r hlex hroot
        hpar hstr hopt herr hp (by rw [hab]; decide) k i hd

/-- **Premature end of input**: if the offending "token" is the end of the input, the line
reported is the scanner's final line (and the state handed back its final state). -/
theorem C09L_position_eof (w : World) (c₀ : Config) (lexFuel : Nat) (o : Options)
    (ptoks : List ((Nat × TokVal) × ScanState)) (hnames : NamesValid (tokensOf ptoks))
    (hnest : nesting (tokensOf ptoks) ≤ maxNesting)
    (fuel : Nat) (s₀ s₁ s' : ScanState) (ctx₀ ctx' : ParseCtx) (r : ParseResult)
    (hlex : LexesToPos (theEnv w c₀ lexFuel) s₀ ptoks s₁)
    (hroot : stripPos ctx₀.cfg.root = { ty := T_GROUP }) (hpar : ctx₀.parent = some [])
    (hstr : ctx₀.str = none) (hopt : ctx₀.cfg.opt OPT_ALLOW_OVERRIDES = o.allowOverrides)
    (herr : ctx₀.cfg.errText = none)
    (h : yyparse (theEnv w c₀ lexFuel) fuel s₀ ctx₀ = (s', ctx', r)) (hr : r ≠ .outOfFuel)
    (k : ErrKind) (hd : offence o (tokensOf ptoks) = some (k, ptoks.length)) :
    ctx'.cfg.errLine = s₁.buf.lineno ∧ s' = s₁ := by
  have hown : reportedLate (tokensOf ptoks) (k, ptoks.length) = false := by
    unfold reportedLate isStringAt
    simp only
    rw [List.getElem?_eq_none (by rw [C09L.tokensOf_length]; exact Nat.le_refl _)]
    exact Bool.and_false _
  have := C09L_position_own w c₀ lexFuel o ptoks hnames hnest fuel s₀ s₁ s' ctx₀ ctx' r hlex hroot
    hpar hstr hopt herr h hr k ptoks.length hd hown
  rw [stateAfter_end] at this
  exact this

/-! ### `config_read_string` / `config_read` / `config_read_file` -/

theorem finish_errLine (p : ScanState × ParseCtx × ParseResult) :
    (C09P.finish p).errLine = p.2.1.cfg.errLine := by
  unfold C09P.finish; extract_lets c c'; simp only [c']; split <;> rfl

/-- **What `__config_read` reports** (the common core of the three read functions), with the
lexing as an explicit hypothesis: if the compiled scanner, started on the input, delivers the
tokens of `ptoks` (with their scan states) and then end of input, without include error, and the
reference interpreter rejects them for `k` at the token with index `i`, then the read — with
enough fuel — fails, `config_error_text` is the text of `k`, `config_error_line` the scanner's
line counter right after the token with index `reportIndex … (k, i)`, and `config_error_file` the
file the scanner was reading then: the top-level file's name (none for a string or a stream), or
the name of the included file the token comes from. -/
theorem C09L_readCore (w : World) (c₀ : Config) (filename : Option Bytes) (inp : Bytes)
    (fuel : Nat) (ptoks : List ((Nat × TokVal) × ScanState)) (s₁ : ScanState)
    (hlex : LexesToPos (theEnv w c₀ fuel) (C01Parse.readScanStart filename inp) ptoks s₁)
    (hnames : NamesValid (tokensOf ptoks)) (hnest : nesting (tokensOf ptoks) ≤ maxNesting)
    (hfuel : (readCore w c₀ filename inp fuel).result ≠ .outOfFuel) (k : ErrKind) (i : Nat)
    (hd : offence { allowOverrides := c₀.opt OPT_ALLOW_OVERRIDES } (tokensOf ptoks) = some (k, i)) :
    (readCore w c₀ filename inp fuel).ok = false ∧
    (readCore w c₀ filename inp fuel).cfg.errText = some k.text ∧
    (readCore w c₀ filename inp fuel).cfg.errLine =
      (stateAfter ptoks s₁ (reportIndex (tokensOf ptoks) (k, i))).buf.lineno ∧
    (readCore w c₀ filename inp fuel).cfg.errFile =
      (stateAfter ptoks s₁ (reportIndex (tokensOf ptoks) (k, i))).currentFilename := by
  rw [C09P.readCore_result] at hfuel
  rw [C09P.readCore_ok, C09P.readCore_cfg, C02Denote.finish_errText, finish_errLine]
  cases hp : C09P.parseOf w (C09P.start c₀ filename) filename inp fuel with
  | mk s' rest =>
    cases rest with
    | mk ctx' r =>
      rw [hp] at hfuel
      have h := C09L_position w c₀ fuel { allowOverrides := c₀.opt OPT_ALLOW_OVERRIDES } ptoks
        hnames hnest fuel (C01Parse.readScanStart filename inp) s₁ s'
        { cfg := C09P.start c₀ filename } ctx' r hlex rfl rfl rfl rfl rfl hp hfuel k i hd
      obtain ⟨h1, h2, h3, h4⟩ := h
      have hna : (s', ctx', r).2.2 ≠ ParseResult.accept := by
        show r ≠ .accept
        rw [h1]; decide
      rw [C09P.finish_errFile _ hna]
      refine ⟨by show (r == ParseResult.accept) = false; rw [h1]; rfl, h2, h3, ?_⟩
      show s'.currentFilename = _
      rw [h4]

/-- **`__config_read` on bytes**: `C09L_readCore` with the side condition on the names
replaced by "the input and the files of the world hold bytes" (every NAME token of the compiled
scanner then carries a valid name, `C02D_scanner_names`). -/
theorem C09L_readCore_bytes (w : World) (hw : C03P.WorldOK w) (c₀ : Config)
    (filename : Option Bytes) (inp : Bytes) (hb : C03P.BytesOK inp)
    (fuel : Nat) (ptoks : List ((Nat × TokVal) × ScanState)) (s₁ : ScanState)
    (hlex : LexesToPos (theEnv w c₀ fuel) (C01Parse.readScanStart filename inp) ptoks s₁)
    (hnest : nesting (tokensOf ptoks) ≤ maxNesting)
    (hfuel : (readCore w c₀ filename inp fuel).result ≠ .outOfFuel) (k : ErrKind) (i : Nat)
    (hd : offence { allowOverrides := c₀.opt OPT_ALLOW_OVERRIDES } (tokensOf ptoks) = some (k, i)) :
    (readCore w c₀ filename inp fuel).ok = false ∧
    (readCore w c₀ filename inp fuel).cfg.errText = some k.text ∧
    (readCore w c₀ filename inp fuel).cfg.errLine =
      (stateAfter ptoks s₁ (reportIndex (tokensOf ptoks) (k, i))).buf.lineno ∧
    (readCore w c₀ filename inp fuel).cfg.errFile =
      (stateAfter ptoks s₁ (reportIndex (tokensOf ptoks) (k, i))).currentFilename :=
  C09L_readCore w c₀ filename inp fuel ptoks s₁ hlex
    (C02D_scanner_names w hw c₀ fuel _ _ _ (scanOK_start filename inp hb)
      (LexesToPos.plain hlex).lexesTo) hnest hfuel k i hd

/-- outside included files the file reported is the top-level one: for `__config_read` with the
file name `filename` (none for strings and streams), if the token whose position is reported
was not read from an included file (the include stack is empty right after it), then
`config_error_file` is `filename` -/
theorem C09L_readCore_file_top (w : World) (c₀ : Config) (filename : Option Bytes) (inp : Bytes)
    (fuel : Nat) (ptoks : List ((Nat × TokVal) × ScanState)) (s₁ : ScanState)
    (hlex : LexesToPos (theEnv w c₀ fuel) (C01Parse.readScanStart filename inp) ptoks s₁)
    (j : Nat) (htop : (stateAfter ptoks s₁ j).stack = []) :
    (stateAfter ptoks s₁ j).currentFilename = filename := by
  rw [C09L.currentFilename_top htop, C09L.stateAfter_topFile hlex]
  rfl

/-- `config_read_string` -/
theorem C09L_read_string (w : World) (c₀ : Config) (text : Bytes) (fuel : Nat)
    (ptoks : List ((Nat × TokVal) × ScanState)) (s₁ : ScanState)
    (hlex : LexesToPos (theEnv w c₀ fuel) (C01Parse.readScanStart none (cstr text)) ptoks s₁)
    (hnames : NamesValid (tokensOf ptoks)) (hnest : nesting (tokensOf ptoks) ≤ maxNesting)
    (hfuel : (read w c₀ (.string text) fuel).result ≠ .outOfFuel) (k : ErrKind) (i : Nat)
    (hd : offence { allowOverrides := c₀.opt OPT_ALLOW_OVERRIDES } (tokensOf ptoks) = some (k, i)) :
    (read w c₀ (.string text) fuel).ok = false ∧
    (read w c₀ (.string text) fuel).cfg.errText = some k.text ∧
    (read w c₀ (.string text) fuel).cfg.errLine =
      (stateAfter ptoks s₁ (reportIndex (tokensOf ptoks) (k, i))).buf.lineno ∧
    (read w c₀ (.string text) fuel).cfg.errFile =
      (stateAfter ptoks s₁ (reportIndex (tokensOf ptoks) (k, i))).currentFilename :=
  C09L_readCore w c₀ none (cstr text) fuel ptoks s₁ hlex hnames hnest hfuel k i hd

/-- … for a string (or a stream) the file reported is none — unless the token whose position is
reported was read from an included file -/
theorem C09L_read_string_no_file (w : World) (c₀ : Config) (text : Bytes) (fuel : Nat)
    (ptoks : List ((Nat × TokVal) × ScanState)) (s₁ : ScanState)
    (hlex : LexesToPos (theEnv w c₀ fuel) (C01Parse.readScanStart none (cstr text)) ptoks s₁)
    (hnames : NamesValid (tokensOf ptoks)) (hnest : nesting (tokensOf ptoks) ≤ maxNesting)
    (hfuel : (read w c₀ (.string text) fuel).result ≠ .outOfFuel) (k : ErrKind) (i : Nat)
    (hd : offence { allowOverrides := c₀.opt OPT_ALLOW_OVERRIDES } (tokensOf ptoks) = some (k, i))
    (htop : (stateAfter ptoks s₁ (reportIndex (tokensOf ptoks) (k, i))).stack = []) :
    (read w c₀ (.string text) fuel).cfg.errFile = none := by
  rw [(C09L_read_string w c₀ text fuel ptoks s₁ hlex hnames hnest hfuel k i hd).2.2.2]
  exact C09L_readCore_file_top w c₀ none (cstr text) fuel ptoks s₁ hlex _ htop

/-- `config_read` from a stream -/
theorem C09L_read_stream (w : World) (c₀ : Config) (content : Bytes) (fuel : Nat)
    (ptoks : List ((Nat × TokVal) × ScanState)) (s₁ : ScanState)
    (hlex : LexesToPos (theEnv w c₀ fuel) (C01Parse.readScanStart none content) ptoks s₁)
    (hnames : NamesValid (tokensOf ptoks)) (hnest : nesting (tokensOf ptoks) ≤ maxNesting)
    (hfuel : (read w c₀ (.stream content) fuel).result ≠ .outOfFuel) (k : ErrKind) (i : Nat)
    (hd : offence { allowOverrides := c₀.opt OPT_ALLOW_OVERRIDES } (tokensOf ptoks) = some (k, i)) :
    (read w c₀ (.stream content) fuel).ok = false ∧
    (read w c₀ (.stream content) fuel).cfg.errText = some k.text ∧
    (read w c₀ (.stream content) fuel).cfg.errLine =
      (stateAfter ptoks s₁ (reportIndex (tokensOf ptoks) (k, i))).buf.lineno ∧
    (read w c₀ (.stream content) fuel).cfg.errFile =
      (stateAfter ptoks s₁ (reportIndex (tokensOf ptoks) (k, i))).currentFilename :=
  C09L_readCore w c₀ none content fuel ptoks s₁ hlex hnames hnest hfuel k i hd

/-- `config_read_file` of a readable file -/
theorem C09L_read_file (w : World) (c₀ : Config) (path content : Bytes) (fuel : Nat)
    (ptoks : List ((Nat × TokVal) × ScanState)) (s₁ : ScanState)
    (hfile : w.open? path = some content)
    (hlex : LexesToPos (theEnv w c₀ fuel) (C01Parse.readScanStart (some path) content) ptoks s₁)
    (hnames : NamesValid (tokensOf ptoks)) (hnest : nesting (tokensOf ptoks) ≤ maxNesting)
    (hfuel : (read w c₀ (.file path) fuel).result ≠ .outOfFuel) (k : ErrKind) (i : Nat)
    (hd : offence { allowOverrides := c₀.opt OPT_ALLOW_OVERRIDES } (tokensOf ptoks) = some (k, i)) :
    (read w c₀ (.file path) fuel).ok = false ∧
    (read w c₀ (.file path) fuel).cfg.errText = some k.text ∧
    (read w c₀ (.file path) fuel).cfg.errLine =
      (stateAfter ptoks s₁ (reportIndex (tokensOf ptoks) (k, i))).buf.lineno ∧
    (read w c₀ (.file path) fuel).cfg.errFile =
      (stateAfter ptoks s₁ (reportIndex (tokensOf ptoks) (k, i))).currentFilename := by
  have hread : read w c₀ (.file path) fuel =
      { readCore w c₀ (some path) content fuel with
        events := [.fopen path true] ++ (readCore w c₀ (some path) content fuel).events ++
          [.fclose path] } := by
    unfold read
    simp only [hfile]
  rw [hread] at hfuel ⊢
  exact C09L_readCore w c₀ (some path) content fuel ptoks s₁ hlex hnames hnest hfuel k i hd

/-! ### M3 — the theorems at work (evaluated by the kernel)

The hypotheses of the theorems are satisfiable and their conclusions say something: for the
inputs below the compiled scanner does deliver tokens without include error (`lexAllPos` runs it,
keeping the scan state after every token), the tokens satisfy the side conditions, so
`C09L_readCore` applies and PREDICTS the line and the file of the error report from the
interpreter's verdict and the scanner's states alone (`predict`); the kernel, running `read`
itself, finds the same. -/

/-- run the scanner to end of input, collecting the tokens with the scan state after each, and
the final state (`n` bounds their number) -/
def lexAllPos (E : ParserEnv) : Nat → ScanState →
    Option (List ((Nat × TokVal) × ScanState) × ScanState)
  | 0, _ => none
  | n + 1, s =>
    match yylex E.T E.sacts E.w E.ic E.lexFuel s with
    | (s', .eof) => some ([], s')
    | (s', .tok t v) => (lexAllPos E n s').map fun p => (((t, v), s') :: p.1, p.2)
    | _ => none

theorem lexAllPos_sound {E : ParserEnv} : ∀ (n : Nat) (s : ScanState)
    (ptoks : List ((Nat × TokVal) × ScanState)) (sEnd : ScanState),
    lexAllPos E n s = some (ptoks, sEnd) → LexesToPos E s ptoks sEnd
  | 0, _, _, _, h => by cases h
  | n + 1, s, ptoks, sEnd, h => by
    rw [lexAllPos] at h
    split at h
    · rename_i s' hy
      simp only [Option.some.injEq, Prod.mk.injEq] at h
      rw [← h.1, ← h.2]
      exact .eof s s' hy
    · rename_i s' t v hy
      cases hr : lexAllPos E n s' with
      | none => rw [hr] at h; cases h
      | some p =>
        obtain ⟨ps, se⟩ := p
        rw [hr] at h
        simp only [Option.map_some, Option.some.injEq, Prod.mk.injEq] at h
        rw [← h.1, ← h.2]
        exact .tok s s' se t v ps hy (lexAllPos_sound n s' ps se hr)
    · cases h

/-- the error report `C09L_readCore` predicts for `__config_read` on an input whose scanning the
kernel can carry out: the kind of the error, the index of the offending token, the scanner's line
right after THAT token, and the line and the file right after the token whose position is reported
(computed from the scanner's states and the interpreter's verdict; the parser is not run) -/
def predict (w : World) (c₀ : Config) (filename : Option Bytes) (inp : Bytes) :
    Option (ErrKind × Nat × Nat × Nat × Option Bytes) :=
  match lexAllPos (theEnv w c₀ 1000) 200 (C01Parse.readScanStart filename inp) with
  | none => none
  | some (ptoks, sEnd) =>
    if checkToks (tokensOf ptoks) then
      match offence { allowOverrides := c₀.opt OPT_ALLOW_OVERRIDES } (tokensOf ptoks) with
      | none => none
      | some p =>
        some (p.1, p.2, (stateAfter ptoks sEnd p.2).buf.lineno,
          (stateAfter ptoks sEnd (reportIndex (tokensOf ptoks) p)).buf.lineno,
          (stateAfter ptoks sEnd (reportIndex (tokensOf ptoks) p)).currentFilename)
    else none

/-- how `C09L_readCore` applies: what `predict` says is what `__config_read` reports -/
theorem readCore_of_predict (w : World) (c₀ : Config) (filename : Option Bytes) (inp : Bytes)
    (k : ErrKind) (i own line : Nat) (file : Option Bytes)
    (h : predict w c₀ filename inp = some (k, i, own, line, file))
    (hfuel : (readCore w c₀ filename inp 1000).result ≠ .outOfFuel) :
    (readCore w c₀ filename inp 1000).ok = false ∧
    (readCore w c₀ filename inp 1000).cfg.errText = some k.text ∧
    (readCore w c₀ filename inp 1000).cfg.errLine = line ∧
    (readCore w c₀ filename inp 1000).cfg.errFile = file := by
  unfold predict at h
  split at h
  · cases h
  · rename_i ptoks sEnd hl
    split at h
    · rename_i hck
      obtain ⟨hn, hd⟩ := checkToks_spec hck
      split at h
      · cases h
      · rename_i p hoff
        obtain ⟨k', i'⟩ := p
        simp only [Option.some.injEq, Prod.mk.injEq] at h
        obtain ⟨rfl, rfl, _, rfl, rfl⟩ := h
        exact C09L_readCore w c₀ filename inp 1000 ptoks sEnd (lexAllPos_sound 200 _ _ _ hl) hn hd
          hfuel _ _ hoff
    · cases h

/-- … for `config_read_string` -/
theorem read_string_of_predict (c₀ : Config) (text : Bytes)
    (k : ErrKind) (i own line : Nat) (file : Option Bytes)
    (h : predict {} c₀ none (cstr text) = some (k, i, own, line, file))
    (hfuel : (read {} c₀ (.string text) 1000).result ≠ .outOfFuel) :
    (read {} c₀ (.string text) 1000).ok = false ∧
    (read {} c₀ (.string text) 1000).cfg.errText = some k.text ∧
    (read {} c₀ (.string text) 1000).cfg.errLine = line ∧
    (read {} c₀ (.string text) 1000).cfg.errFile = file :=
  readCore_of_predict {} c₀ none (cstr text) k i own line file h hfuel

/-- 1. an error on line 3 of a string:
```
a = 1;
b = 2;
c = ;
d = 4;
```
the `;` (token 10) cannot continue `c =`; line 3, no file. -/
def text1 : Bytes := bytesOfString "a = 1;\nb = 2;\nc = ;\nd = 4;\n"

theorem example1 : (read {} Config.init (.string text1) 1000).ok = false ∧
    (read {} Config.init (.string text1) 1000).cfg.errText = some ErrKind.syntax.text ∧
    (read {} Config.init (.string text1) 1000).cfg.errLine = 3 ∧
    (read {} Config.init (.string text1) 1000).cfg.errFile = none :=
  read_string_of_predict Config.init text1 .syntax 10 3 3 none (by decide +kernel) (by decide +kernel)

/-- … which the kernel confirms by running `read` -/
example : (read {} Config.init (.string text1) 1000).cfg.errLine = 3 ∧
    (read {} Config.init (.string text1) 1000).cfg.errFile = none := by decide +kernel

/-- … for `config_read_file` -/
theorem read_file_of_predict (w : World) (c₀ : Config) (path content : Bytes)
    (hfile : w.open? path = some content)
    (k : ErrKind) (i own line : Nat) (file : Option Bytes)
    (h : predict w c₀ (some path) content = some (k, i, own, line, file))
    (hfuel : (read w c₀ (.file path) 1000).result ≠ .outOfFuel) :
    (read w c₀ (.file path) 1000).ok = false ∧
    (read w c₀ (.file path) 1000).cfg.errText = some k.text ∧
    (read w c₀ (.file path) 1000).cfg.errLine = line ∧
    (read w c₀ (.file path) 1000).cfg.errFile = file := by
  have hread : read w c₀ (.file path) 1000 =
      { readCore w c₀ (some path) content 1000 with
        events := [.fopen path true] ++ (readCore w c₀ (some path) content 1000).events ++
          [.fclose path] } := by
    unfold read
    simp only [hfile]
  rw [hread] at hfuel ⊢
  exact readCore_of_predict w c₀ (some path) content k i own line file h hfuel

/-- 2. an error in the 2nd line of an included file: the file `top.cfg`
```
a = 1;
@include "inc.cfg"
b = 2;
```
includes `inc.cfg`
```
x = 1;
y = ;
z = 3;
```
The tokens of the run are `a = 1 ; x = 1 ; y = ;` … (the include is no token); the `;` with index
10 is the offence; reported are line 2 and the file `inc.cfg` — the INCLUDED file's line and
name, not line 2 of `top.cfg` (the directive's line, as it happens) and its name. -/
def top2 : Bytes := bytesOfString "a = 1;\n@include \"inc.cfg\"\nb = 2;\n"
def world2 : World :=
  { files := [(bytesOfString "top.cfg", some top2),
              (bytesOfString "inc.cfg", some (bytesOfString "x = 1;\ny = ;\nz = 3;\n"))] }

theorem example2 :
    (read world2 Config.init (.file (bytesOfString "top.cfg")) 1000).ok = false ∧
    (read world2 Config.init (.file (bytesOfString "top.cfg")) 1000).cfg.errText =
      some ErrKind.syntax.text ∧
    (read world2 Config.init (.file (bytesOfString "top.cfg")) 1000).cfg.errLine = 2 ∧
    (read world2 Config.init (.file (bytesOfString "top.cfg")) 1000).cfg.errFile =
      some (bytesOfString "inc.cfg") :=
  read_file_of_predict world2 Config.init (bytesOfString "top.cfg") top2 (by decide +kernel)
    .syntax 10 2 2 (some (bytesOfString "inc.cfg")) (by decide +kernel) (by decide +kernel)

example : (read world2 Config.init (.file (bytesOfString "top.cfg")) 1000).cfg.errLine = 2 ∧
    (read world2 Config.init (.file (bytesOfString "top.cfg")) 1000).cfg.errFile =
      some (bytesOfString "inc.cfg") := by decide +kernel

/-- … and an error in the top-level file AFTER the include is reported with the top-level file's
name and line again (the line counter is per buffer): `top.cfg` as above, `inc.cfg` without the
error, `b = ;` instead of `b = 2;` -/
def top2' : Bytes := bytesOfString "a = 1;\n@include \"inc.cfg\"\nb = ;\n"
def world2' : World :=
  { files := [(bytesOfString "top.cfg", some top2'),
              (bytesOfString "inc.cfg", some (bytesOfString "x = 1;\ny = 2;\nz = 3;\n"))] }

theorem example2' :
    (read world2' Config.init (.file (bytesOfString "top.cfg")) 1000).cfg.errLine = 3 ∧
    (read world2' Config.init (.file (bytesOfString "top.cfg")) 1000).cfg.errFile =
      some (bytesOfString "top.cfg") :=
  (read_file_of_predict world2' Config.init (bytesOfString "top.cfg") top2' (by decide +kernel)
    .syntax 18 3 3 (some (bytesOfString "top.cfg")) (by decide +kernel) (by decide +kernel)).2.2

/-- 3. a duplicate whose NAME is on another line than its `=` and its value:
```
a = 1;
b = 2;
a
  =
    3;
```
reported is line 3, the line of the NAME (token 8) — the duplicate is found by the mid-rule action
`$@1`, which runs before the parser looks at the `=`. -/
def text3 : Bytes := bytesOfString "a = 1;\nb = 2;\na\n  =\n    3;\n"

theorem example3 : (read {} Config.init (.string text3) 1000).ok = false ∧
    (read {} Config.init (.string text3) 1000).cfg.errText = some ErrKind.duplicateName.text ∧
    (read {} Config.init (.string text3) 1000).cfg.errLine = 3 ∧
    (read {} Config.init (.string text3) 1000).cfg.errFile = none :=
  read_string_of_predict Config.init text3 .duplicateName 8 3 3 none (by decide +kernel)
    (by decide +kernel)

example : (read {} Config.init (.string text3) 1000).cfg.errLine = 3 := by decide +kernel

/-- 4. a mismatching integer element:
```
a = [ 1,
      2L
      , 3 ];
```
reported is line 2, the line of `2L` (token 5) — its action runs by default reduction, before
the parser looks at the comma on line 3. -/
def text4 : Bytes := bytesOfString "a = [ 1,\n      2L\n      , 3 ];\n"

theorem example4 : (read {} Config.init (.string text4) 1000).ok = false ∧
    (read {} Config.init (.string text4) 1000).cfg.errText = some ErrKind.arrayElemType.text ∧
    (read {} Config.init (.string text4) 1000).cfg.errLine = 2 ∧
    (read {} Config.init (.string text4) 1000).cfg.errFile = none :=
  read_string_of_predict Config.init text4 .arrayElemType 5 2 2 none (by decide +kernel)
    (by decide +kernel)

example : (read {} Config.init (.string text4) 1000).cfg.errLine = 2 := by decide +kernel

/-- 5. the string element (finding `C02:string-element-mismatch-line`):
```
a = [ 1,
      "x"
      "y"


      , 3 ];
```
the offending token is the last literal `"y"` (token 6, line 3); reported is line 6: the line of
the comma (token 7), which the parser has had to look at to know that the string ends. -/
def text5 : Bytes := bytesOfString "a = [ 1,\n      \"x\"\n      \"y\"\n\n\n      , 3 ];\n"

theorem example5 : (read {} Config.init (.string text5) 1000).ok = false ∧
    (read {} Config.init (.string text5) 1000).cfg.errText = some ErrKind.arrayElemType.text ∧
    (read {} Config.init (.string text5) 1000).cfg.errLine = 6 ∧
    (read {} Config.init (.string text5) 1000).cfg.errFile = none :=
  read_string_of_predict Config.init text5 .arrayElemType 6 3 6 none (by decide +kernel)
    (by decide +kernel)

example : (read {} Config.init (.string text5) 1000).cfg.errLine = 6 := by decide +kernel

/-- 6. premature end of input:
```
a = ( 1,
      2

```
the offending "token" is the end of the input (index 6 = the number of tokens); reported is the
scanner's final line, 4 (the text ends with two newlines after line 2, an empty line 3 — the
counter stands on line 4). -/
def text6 : Bytes := bytesOfString "a = ( 1,\n      2\n\n"

theorem example6 : (read {} Config.init (.string text6) 1000).ok = false ∧
    (read {} Config.init (.string text6) 1000).cfg.errText = some ErrKind.syntax.text ∧
    (read {} Config.init (.string text6) 1000).cfg.errLine = 4 ∧
    (read {} Config.init (.string text6) 1000).cfg.errFile = none :=
  read_string_of_predict Config.init text6 .syntax 6 4 4 none (by decide +kernel)
    (by decide +kernel)

example : (read {} Config.init (.string text6) 1000).cfg.errLine = 4 := by decide +kernel

/-! ### the recorded finding, as a theorem

The statement one would write down from the documentation alone — "the position reported is the
offending token's own", in ALL cases — is false of `libconfig_yyparse`: text 5 refutes it.  (This
is why `reportIndex` is part of the specification; `C09L_position_own` is the statement with the
one exception removed.) -/

/-- `C09L_position` with the offending token's own position in every case -/
def OwnPositionStatement : Prop :=
  ∀ (w : World) (c₀ : Config) (lexFuel : Nat) (o : Options)
    (ptoks : List ((Nat × TokVal) × ScanState)),
    NamesValid (tokensOf ptoks) → nesting (tokensOf ptoks) ≤ maxNesting →
    ∀ (fuel : Nat) (s₀ s₁ s' : ScanState) (ctx₀ ctx' : ParseCtx) (r : ParseResult),
      LexesToPos (theEnv w c₀ lexFuel) s₀ ptoks s₁ →
      stripPos ctx₀.cfg.root = { ty := T_GROUP } → ctx₀.parent = some [] → ctx₀.str = none →
      ctx₀.cfg.opt OPT_ALLOW_OVERRIDES = o.allowOverrides → ctx₀.cfg.errText = none →
      yyparse (theEnv w c₀ lexFuel) fuel s₀ ctx₀ = (s', ctx', r) → r ≠ .outOfFuel →
      ∀ (k : ErrKind) (i : Nat), offence o (tokensOf ptoks) = some (k, i) →
        ctx'.cfg.errLine = (stateAfter ptoks s₁ i).buf.lineno

/-- **The counterexample** (finding `C02:string-element-mismatch-line`): for text 5 all
hypotheses hold, the offending token — the string literal `"y"`, token 6 — stands on line 3
(the scanner's line right after it is 3), and `yyparse` records line 6. -/
theorem C09L_string_element_finding : ¬ OwnPositionStatement := by
  intro H
  cases hl : lexAllPos (theEnv {} Config.init 1000) 200
      (C01Parse.readScanStart none (cstr text5)) with
  | none =>
    have : (lexAllPos (theEnv {} Config.init 1000) 200
      (C01Parse.readScanStart none (cstr text5))).isSome = true := by decide +kernel
    rw [hl] at this
    cases this
  | some p =>
    obtain ⟨ptoks, sEnd⟩ := p
    have hall : (lexAllPos (theEnv {} Config.init 1000) 200
        (C01Parse.readScanStart none (cstr text5))).all (fun p =>
          checkToks (tokensOf p.1) &&
          (offence {} (tokensOf p.1) == some (ErrKind.arrayElemType, 6)) &&
          ((stateAfter p.1 p.2 6).buf.lineno == 3)) = true := by decide +kernel
    rw [hl] at hall
    simp only [Option.all_some, Bool.and_eq_true, beq_iff_eq] at hall
    obtain ⟨⟨hck, hoff⟩, hown⟩ := hall
    obtain ⟨hn, hd⟩ := checkToks_spec hck
    have hrun : (yyparse (theEnv {} Config.init 1000) 1000
          (C01Parse.readScanStart none (cstr text5)) { cfg := {} }).2.2 ≠ .outOfFuel ∧
        (yyparse (theEnv {} Config.init 1000) 1000
          (C01Parse.readScanStart none (cstr text5)) { cfg := {} }).2.1.cfg.errLine = 6 := by
      decide +kernel
    generalize hout : yyparse (theEnv {} Config.init 1000) 1000
      (C01Parse.readScanStart none (cstr text5)) { cfg := {} } = out at hrun
    obtain ⟨s', ctx', r⟩ := out
    have := H {} Config.init 1000 {} ptoks hn hd 1000 _ sEnd s' { cfg := {} } ctx' r
      (lexAllPos_sound 200 _ _ _ hl) rfl rfl rfl (by decide) rfl hout hrun.1 .arrayElemType 6 hoff
    rw [hrun.2, hown] at this
    exact absurd this (by decide)

end Libconfig.C09Line
