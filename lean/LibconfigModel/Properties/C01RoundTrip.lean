import LibconfigModel.Proofs.C01RoundTrip
/-
  C01RT — the write → read round trip, end to end.

  "A configuration written with `config_write` and read back with `config_read_string` /
  `config_read` / `config_read_file` yields the same settings: same names, order, types, values,
  formats."

  The two halves are proved elsewhere:
    Properties/C01Lex.lean    the scanner cuts the written bytes into exactly the tokens
                              `tokensOfConfig` (hypothesis `LexOK`);
    Properties/C01Parse.lean  fed with those tokens the parser accepts and rebuilds
                              `expectedRoot` (hypothesis `ParseOK`; lexing and "not out of fuel"
                              as explicit hypotheses);
    Properties/C03Term.lean   `8·|tokens| + 10` units of fuel suffice for the parser loop.
  This file composes them.  The glue is `C01_tokens_le_bytes`: the written form denotes at most
  as many tokens as it has bytes (every item the writer emits has at least one byte), so the
  single bound `fuel ≥ 8·|bytes| + 10` serves every `yylex` call (which needs `fuel > |bytes|`)
  and the parser loop.  No hypothesis on the world (files that `@include` could open do not
  matter: the written text contains no `@include`), none on the reading configuration `c₀`
  (its old tree, options, include directory, include function, error record), no `LexesTo`
  hypothesis and no proviso on the outcome remain.

  Hypotheses that do remain, and why they cannot go (findings of the two halves):
    `LexOK`    names that spell `true` / `false` are read as booleans (C01Lex, "Finding"; the
               example at the end of this file); settings of type NONE are written as `???`;
               string values must be NUL-free; float values must be finite and survive the
               `snprintf` limit — under the default float settings finiteness alone is enough
               (`C01_roundtrip_default`);
    `ParseOK`  well-formedness of the tree (C04) and nesting depth ≤ 1666: deeper trees exhaust
               the parser's stack (`C01Parse.C01_deep_nesting_exhausts`).

  Helpers: Proofs/C01RoundTrip.lean.
-/
namespace Libconfig.C01RoundTrip
open Libconfig C01L C01Parse

/-! ## The glue -/

/-- the written form of a configuration satisfying `LexOK` denotes at most as many tokens as it
has bytes -/
theorem C01_tokens_le_bytes (bufLen : Nat) (c : Config) (hl : LexOK bufLen c = true) :
    (tokensOfConfig Generated.tokens bufLen c).length ≤ (c.write bufLen).length :=
  C01RT.tokens_le_bytes bufLen c hl

/-- a good item is not empty; a good item sequence denotes at most as many tokens as it has
bytes -/
theorem C01_goodSeq_tokens_le_bytes (ts : List WTok) (hg : GoodSeq ts) :
    (toksOf ts).length ≤ (bytesOf ts).length :=
  C01RT.goodSeq_toks_le ts hg

/-! ## The round trip -/

/-- `__config_read` (the common core of the three read functions) on the written form, with any
top-level file name -/
theorem C01_roundtrip_readCore (bufLen : Nat) (c : Config) (hl : LexOK bufLen c = true)
    (hp : ParseOK c = true) (w : World) (c₀ : Config) (filename : Option Bytes) (fuel : Nat)
    (hfuel : fuel ≥ 8 * (c.write bufLen).length + 10) :
    let r := readCore w c₀ filename (c.write bufLen) fuel
    r.ok = true ∧ r.result = .accept ∧ stripPos r.cfg.root = expectedRoot bufLen c :=
  C01RT.readCore_written bufLen c hl hp w c₀ filename fuel hfuel

/-- **C01_roundtrip_string.**  `config_read_string(c₀, config_write(c))`: for every
configuration `c` satisfying `LexOK` and `ParseOK`, every world, every reading configuration
`c₀` and every fuel of at least `8·|written bytes| + 10`, the read succeeds
(`CONFIG_TRUE`, the parser accepts) and the tree it leaves is — source positions apart —
`expectedRoot bufLen c`. -/
theorem C01_roundtrip_string (bufLen : Nat) (c : Config) (hl : LexOK bufLen c = true)
    (hp : ParseOK c = true) (w : World) (c₀ : Config) (fuel : Nat)
    (hfuel : fuel ≥ 8 * (c.write bufLen).length + 10) :
    let r := read w c₀ (.string (c.write bufLen)) fuel
    r.ok = true ∧ r.result = .accept ∧ stripPos r.cfg.root = expectedRoot bufLen c := by
  show (readCore w c₀ none (cstr (c.write bufLen)) fuel).ok = true ∧
    (readCore w c₀ none (cstr (c.write bufLen)) fuel).result = .accept ∧
    stripPos (readCore w c₀ none (cstr (c.write bufLen)) fuel).cfg.root = expectedRoot bufLen c
  rw [C01Lex.C01_write_nul_free bufLen c hl]
  exact C01RT.readCore_written bufLen c hl hp w c₀ none fuel hfuel

/-- **C01_roundtrip_stream.**  `config_read` from a stream that holds the written form. -/
theorem C01_roundtrip_stream (bufLen : Nat) (c : Config) (hl : LexOK bufLen c = true)
    (hp : ParseOK c = true) (w : World) (c₀ : Config) (fuel : Nat)
    (hfuel : fuel ≥ 8 * (c.write bufLen).length + 10) :
    let r := read w c₀ (.stream (c.write bufLen)) fuel
    r.ok = true ∧ r.result = .accept ∧ stripPos r.cfg.root = expectedRoot bufLen c :=
  C01RT.readCore_written bufLen c hl hp w c₀ none fuel hfuel

/-- **C01_roundtrip_file.**  `config_read_file` of a file that holds the written form (the file
name becomes the current file of the scanner and the first entry of the file-name vector; the
tree is the same). -/
theorem C01_roundtrip_file (bufLen : Nat) (c : Config) (hl : LexOK bufLen c = true)
    (hp : ParseOK c = true) (w : World) (c₀ : Config) (path : Bytes)
    (hfile : w.open? path = some (c.write bufLen)) (fuel : Nat)
    (hfuel : fuel ≥ 8 * (c.write bufLen).length + 10) :
    let r := read w c₀ (.file path) fuel
    r.ok = true ∧ r.result = .accept ∧ stripPos r.cfg.root = expectedRoot bufLen c := by
  have hread : read w c₀ (.file path) fuel =
      { readCore w c₀ (some path) (c.write bufLen) fuel with
        events := [.fopen path true] ++ (readCore w c₀ (some path) (c.write bufLen) fuel).events ++
          [.fclose path] } := by
    unfold read
    simp only [hfile]
  intro r
  show (read w c₀ (.file path) fuel).ok = true ∧ (read w c₀ (.file path) fuel).result = .accept ∧
    stripPos (read w c₀ (.file path) fuel).cfg.root = expectedRoot bufLen c
  rw [hread]
  exact C01RT.readCore_written bufLen c hl hp w c₀ (some path) fuel hfuel

/-! ## … for the library's buffer and the default float notation

`config_write` formats floats in a buffer of `FLOAT_BUF_SIZE` = 341 bytes.  With
`CONFIG_OPTION_ALLOW_SCIENTIFIC_NOTATION` off (as `config_init` leaves it) and a float
precision of at most 26 (default 6) the float side conditions of `LexOK` reduce to finiteness:
`LexOKfin` asks for readable names (valid, not spelling `true` / `false`), integer values in
range, NUL-free strings, no setting of type NONE, finite floats. -/

/-- **C01_roundtrip_default.** -/
theorem C01_roundtrip_default (c : Config) (hsci : c.opt OPT_SCIENTIFIC = false)
    (hprec : c.floatPrecision ≤ 26) (hl : LexOKfin c = true) (hp : ParseOK c = true)
    (w : World) (c₀ : Config) (fuel : Nat)
    (hfuel : fuel ≥ 8 * (c.write Generated.FLOAT_BUF_SIZE).length + 10) :
    let r := read w c₀ (.string (c.write Generated.FLOAT_BUF_SIZE)) fuel
    r.ok = true ∧ r.result = .accept ∧
      stripPos r.cfg.root = expectedRoot Generated.FLOAT_BUF_SIZE c :=
  C01_roundtrip_string 341 c (lexOK_of_fin c hsci hprec hl) hp w c₀ fuel hfuel

theorem C01_roundtrip_default_stream (c : Config) (hsci : c.opt OPT_SCIENTIFIC = false)
    (hprec : c.floatPrecision ≤ 26) (hl : LexOKfin c = true) (hp : ParseOK c = true)
    (w : World) (c₀ : Config) (fuel : Nat)
    (hfuel : fuel ≥ 8 * (c.write Generated.FLOAT_BUF_SIZE).length + 10) :
    let r := read w c₀ (.stream (c.write Generated.FLOAT_BUF_SIZE)) fuel
    r.ok = true ∧ r.result = .accept ∧
      stripPos r.cfg.root = expectedRoot Generated.FLOAT_BUF_SIZE c :=
  C01_roundtrip_stream 341 c (lexOK_of_fin c hsci hprec hl) hp w c₀ fuel hfuel

theorem C01_roundtrip_default_file (c : Config) (hsci : c.opt OPT_SCIENTIFIC = false)
    (hprec : c.floatPrecision ≤ 26) (hl : LexOKfin c = true) (hp : ParseOK c = true)
    (w : World) (c₀ : Config) (path : Bytes)
    (hfile : w.open? path = some (c.write Generated.FLOAT_BUF_SIZE)) (fuel : Nat)
    (hfuel : fuel ≥ 8 * (c.write Generated.FLOAT_BUF_SIZE).length + 10) :
    let r := read w c₀ (.file path) fuel
    r.ok = true ∧ r.result = .accept ∧
      stripPos r.cfg.root = expectedRoot Generated.FLOAT_BUF_SIZE c :=
  C01_roundtrip_file 341 c (lexOK_of_fin c hsci hprec hl) hp w c₀ path hfile fuel hfuel

/-- `config_init` leaves exactly those settings, and the buffer size is 341 -/
example : Config.init.opt OPT_SCIENTIFIC = false ∧ Config.init.floatPrecision = 6 ∧
    Generated.FLOAT_BUF_SIZE = 341 := by decide +kernel

/-! ## What `expectedRoot` means: same names, order, types, values, formats

`Same bufLen c m m'` (Proofs/C01RoundTrip.lean) relates a written setting `m` to the setting `m'`
read back for it. -/
example (bufLen : Nat) (c : Config) (m m' : Node) : C01RT.Same bufLen c m m' ↔
    (m'.name = m.name ∧ m'.ty = m.ty ∧
     (m.isAggregate = true ∨ m.kids = [] → m'.kids.length = m.kids.length) ∧
     (m.ty = T_BOOL → m'.ival = if m.ival ≠ 0 then 1 else 0) ∧
     (m.ty = T_INT ∨ m.ty = T_INT64 → m'.ival = m.ival) ∧
     (m.ty = T_INT ∨ m.ty = T_INT64 →
        m'.fmt = if effFormat c m = FMT_HEX then FMT_HEX else FMT_DEFAULT) ∧
     (m.ty = T_FLOAT →
        m'.fval = F64.strtod (formatDouble bufLen m.fval c.floatPrecision (c.opt OPT_SCIENTIFIC))) ∧
     (m.ty = T_STRING → m'.sval = some (m.sval.getD [])) ∧
     (m.ty ≠ T_INT → m.ty ≠ T_INT64 → m'.fmt = 0) ∧
     (m.ty ≠ T_INT → m.ty ≠ T_INT64 → m.ty ≠ T_BOOL → m'.ival = 0) ∧
     (m.ty ≠ T_FLOAT → m'.fval = 0) ∧ (m.ty ≠ T_STRING → m'.sval = none) ∧ m'.hook = 0) :=
  ⟨fun h => ⟨h.name, h.ty, h.count, h.bool, h.int, h.fmt, h.float, h.string, h.fmtOther,
      h.ivalOther, h.fvalOther, h.svalOther, h.hook⟩,
   fun ⟨a, b, c, d, e, f, g, h, i, j, k, l, m⟩ => ⟨a, b, c, d, e, f, g, h, i, j, k, l, m⟩⟩

/-- the children of the expected form of a setting are the expected forms of its children, in
the same order -/
theorem C01_expected_children (bufLen : Nat) (c : Config) (n : Node) (hwf : n.WF) :
    (expectedNode bufLen c n).kids = n.kids.map (expectedNode bufLen c) :=
  C01RT.expectedNode_kids bufLen c n (C04.WF.localWF hwf).scalarNoKids

/-- the expected form of one setting: name, type, number of children, value and format -/
theorem C01_expected_setting (bufLen : Nat) (c : Config) (n : Node) (hwf : n.WF) :
    C01RT.Same bufLen c n (expectedNode bufLen c n) :=
  C01RT.same_expectedNode bufLen c n (C04.WF.localWF hwf).scalarNoKids

/-- **C01_expected_shape.**  Path by path: where the written tree has the setting `m` (at index
path `p`: the `p₀`-th child of the root, its `p₁`-th child, …), the expected tree has the expected
form of `m`, and where the written tree has nothing the expected tree has nothing.  So the two
trees have the same shape: the same number of children everywhere, in the same order. -/
theorem C01_expected_shape (bufLen : Nat) (c : Config) (hp : ParseOK c = true) (p : Path) :
    (expectedRoot bufLen c).get? p = (c.root.get? p).map (expectedNode bufLen c) :=
  C01RT.expectedNode_get? bufLen c p c.root (parseOK_spec hp).1.nodes

/-- … and at every path the setting of the expected tree has the name, type, number of children,
value and format that the documentation promises for the written one (`Same`). -/
theorem C01_expected_same (bufLen : Nat) (c : Config) (hp : ParseOK c = true) (p : Path)
    (m : Node) (hm : c.root.get? p = some m) :
    ∃ m', (expectedRoot bufLen c).get? p = some m' ∧ C01RT.Same bufLen c m m' := by
  have hwf : m.WF := C04.WF.get (parseOK_spec hp).1.nodes hm
  refine ⟨expectedNode bufLen c m, ?_, C01_expected_setting bufLen c m hwf⟩
  rw [C01_expected_shape bufLen c hp p, hm]
  rfl

/-- **C01_roundtrip_settings** — the round trip, setting by setting.  After
`config_read_string(c₀, config_write(c))`: at every index path `p`, the tree read back holds a
setting exactly where the written tree `c.root` holds one, and the two are `Same`: same name,
same type, same number of children (hence, with the paths, the same order), booleans as 0 / 1,
integers with their value and `FMT_HEX` exactly when the writer printed them in hexadecimal,
strings with their bytes (NULL as the empty string), floats with the value of the written text,
hook and the unused value fields as in a fresh setting. -/
theorem C01_roundtrip_settings (bufLen : Nat) (c : Config) (hl : LexOK bufLen c = true)
    (hp : ParseOK c = true) (w : World) (c₀ : Config) (fuel : Nat)
    (hfuel : fuel ≥ 8 * (c.write bufLen).length + 10) (p : Path) :
    let r := read w c₀ (.string (c.write bufLen)) fuel
    (c.root.get? p = none → r.cfg.root.get? p = none) ∧
    (∀ m, c.root.get? p = some m →
      ∃ m', r.cfg.root.get? p = some m' ∧ C01RT.Same bufLen c m m') := by
  intro r
  have hr : stripPos r.cfg.root = expectedRoot bufLen c :=
    (C01_roundtrip_string bufLen c hl hp w c₀ fuel hfuel).2.2
  have hget : (r.cfg.root.get? p).map stripPos = (c.root.get? p).map (expectedNode bufLen c) := by
    rw [← C01RT.stripPos_get?, hr, C01_expected_shape bufLen c hp p]
  refine ⟨fun hn => ?_, fun m hm => ?_⟩
  · rw [hn] at hget
    cases h : r.cfg.root.get? p with
    | none => rfl
    | some x => rw [h] at hget; cases hget
  · rw [hm] at hget
    cases h : r.cfg.root.get? p with
    | none => rw [h] at hget; cases hget
    | some m' =>
      rw [h] at hget
      simp only [Option.map_some, Option.some.injEq] at hget
      have hs := C01_expected_setting bufLen c m (C04.WF.get (parseOK_spec hp).1.nodes hm)
      rw [← hget] at hs
      obtain ⟨f1, f2, f3, f4, f5, f6, f7, f8⟩ := C01RT.stripPos_fields m'
      refine ⟨m', rfl, ?_⟩
      exact { name := f1 ▸ hs.name, ty := f2 ▸ hs.ty, count := fun h => f7 ▸ hs.count h,
              bool := fun h => f4 ▸ hs.bool h, int := fun h => f4 ▸ hs.int h,
              fmt := fun h => f3 ▸ hs.fmt h, float := fun h => f5 ▸ hs.float h,
              string := fun h => f6 ▸ hs.string h, fmtOther := fun a b => f3 ▸ hs.fmtOther a b,
              ivalOther := fun a b c => f4 ▸ hs.ivalOther a b c,
              fvalOther := fun h => f5 ▸ hs.fvalOther h,
              svalOther := fun h => f6 ▸ hs.svalOther h, hook := f8 ▸ hs.hook }

/-- the source positions, which `stripPos` erases, are the only thing the statement leaves
open -/
example (n : Node) : (stripPos n).name = n.name ∧ (stripPos n).ty = n.ty ∧ (stripPos n).fmt = n.fmt ∧
    (stripPos n).ival = n.ival ∧ (stripPos n).fval = n.fval ∧ (stripPos n).sval = n.sval ∧
    (stripPos n).kids.length = n.kids.length ∧ (stripPos n).hook = n.hook :=
  C01RT.stripPos_fields n

/-! ## Non-vacuity: concrete instances, evaluated by the kernel -/

/-- `C01Parse.exampleConfig`
```
a = 0x1F;
g :
{
  l = ( true, "x\"\n", ( ), 1.5 );
  v = [ 5L, -7L ];
};
z = "";
```
satisfies both hypotheses; its written form has 82 bytes and denotes 34 tokens -/
example : LexOK 341 exampleConfig = true ∧ ParseOK exampleConfig = true ∧
    (exampleConfig.write 341).length = 82 ∧
    (tokensOfConfig Generated.tokens 341 exampleConfig).length = 34 := by decide +kernel

/-- a reading configuration that is not fresh: an old tree, `ALLOW_OVERRIDES` and `AUTOCONVERT`
set, an include directory, an old error record -/
def oldConfig : Config :=
  { root := { ty := T_GROUP, kids := [{ name := some [97], ty := T_STRING, sval := some [120] }] },
    options := OPT_ALLOW_OVERRIDES ||| OPT_AUTOCONVERT, includeDir := some [47, 116, 109, 112],
    errType := ERR_PARSE, errLine := 3, errText := some [120] }

/-- a world in which files exist (one of them holding the written form) -/
def someWorld : World :=
  { files := [([105, 110, 99], some [120, 32, 61, 32, 49, 59]),
              ([102], some (exampleConfig.write 341))] }

/-- **`C01_roundtrip_string` applied**: all hypotheses discharged by the kernel; fuel
`8·82 + 10 = 666` -/
example :
    let r := read someWorld oldConfig (.string (exampleConfig.write 341)) 666
    r.ok = true ∧ r.result = .accept ∧ stripPos r.cfg.root = expectedRoot 341 exampleConfig :=
  C01_roundtrip_string 341 exampleConfig (by decide +kernel) (by decide +kernel) someWorld oldConfig
    666 (by decide +kernel)

/-- `C01_roundtrip_file` applied -/
example :
    let r := read someWorld oldConfig (.file [102]) 666
    r.ok = true ∧ r.result = .accept ∧ stripPos r.cfg.root = expectedRoot 341 exampleConfig :=
  C01_roundtrip_file 341 exampleConfig (by decide +kernel) (by decide +kernel) someWorld oldConfig
    [102] (by decide +kernel) 666 (by decide +kernel)

/-- `C01_roundtrip_default` applied (`LexOKfin`: the floats only need to be finite) -/
example :
    let r := read {} Config.init (.string (exampleConfig.write Generated.FLOAT_BUF_SIZE)) 1000
    r.ok = true ∧ r.result = .accept ∧
      stripPos r.cfg.root = expectedRoot Generated.FLOAT_BUF_SIZE exampleConfig :=
  C01_roundtrip_default exampleConfig (by decide +kernel) (by decide +kernel) (by decide +kernel)
    (by decide +kernel) {} Config.init 1000 (by decide +kernel)

/-- the conclusion is not trivial: the expected tree has 12 settings (`rows` lists them in document
order: name, type, format, integer value, float bits, string, number of children, hook, line,
file) — the hexadecimal format kept, the boolean 7 read back as 1, the NULL string as the empty
string — and the kernel, running `read` itself with that fuel, world and reading configuration,
finds the same tree -/
example :
    rows (expectedRoot 341 exampleConfig) =
      [⟨none, 1, 0, 0, 0, none, 3, 0, 0, none⟩,
       ⟨some [97], 2, 1, 31, 0, none, 0, 0, 0, none⟩,
       ⟨some [103], 1, 0, 0, 0, none, 2, 0, 0, none⟩,
       ⟨some [108], 8, 0, 0, 0, none, 4, 0, 0, none⟩,
       ⟨none, 6, 0, 1, 0, none, 0, 0, 0, none⟩,
       ⟨none, 5, 0, 0, 0, some [120, 34, 10], 0, 0, 0, none⟩,
       ⟨none, 8, 0, 0, 0, none, 0, 0, 0, none⟩,
       ⟨none, 4, 0, 0, 0x3FF8000000000000, none, 0, 0, 0, none⟩,
       ⟨some [118], 7, 0, 0, 0, none, 2, 0, 0, none⟩,
       ⟨none, 3, 0, 5, 0, none, 0, 0, 0, none⟩,
       ⟨none, 3, 0, -7, 0, none, 0, 0, 0, none⟩,
       ⟨some [122], 5, 0, 0, 0, some [], 0, 0, 0, none⟩] ∧
    rows (stripPos (read someWorld oldConfig (.string (exampleConfig.write 341)) 666).cfg.root) =
      rows (expectedRoot 341 exampleConfig) := by
  decide +kernel

/-- `C01_roundtrip_settings` at a path: the second element of the list `g.l` (path 1, 0, 1) is
the string `x"\n` in both trees; there is nothing at path 1, 0, 4 in either -/
example : (exampleConfig.root.get? [1, 0, 1]).map (·.sval) = some (some [120, 34, 10]) ∧
    ((read someWorld oldConfig (.string (exampleConfig.write 341)) 666).cfg.root.get? [1, 0, 1]).map
      (fun m => (m.ty, m.sval, m.line)) = some (T_STRING, some [120, 34, 10], 4) ∧
    (exampleConfig.root.get? [1, 0, 4]).isNone = true ∧
    ((read someWorld oldConfig (.string (exampleConfig.write 341)) 666).cfg.root.get? [1, 0, 4]).isNone =
      true := by
  decide +kernel

/-- the bound on the fuel is about the model only (its value is not observable: C03Term), but it
is needed: with too little fuel the model reports `.outOfFuel` -/
example : (read someWorld oldConfig (.string (exampleConfig.write 341)) 60).result = .outOfFuel := by
  decide +kernel

/-- **The excluded case is really excluded.**  `C01Lex.sampleTrue` — a group with a member named
`true` — is a well-formed configuration (`ParseOK`) that the API can build (the name passes
`__config_validate_name`); `LexOK` rejects it, and rightly so: its written form `true = 1;` does
not read back (the scanner returns BOOLEAN for the name, the parser reports a syntax error). -/
example : validName [116, 114, 117, 101] = true ∧ ParseOK C01Lex.sampleTrue = true ∧
    LexOK 341 C01Lex.sampleTrue = false ∧ LexOKfin C01Lex.sampleTrue = false ∧
    C01Lex.sampleTrue.write 341 = [116, 114, 117, 101, 32, 61, 32, 49, 59, 10] ∧
    (read {} Config.init (.string (C01Lex.sampleTrue.write 341)) 1000).ok = false ∧
    (read {} Config.init (.string (C01Lex.sampleTrue.write 341)) 1000).result = .abort := by
  decide +kernel

/-- the other hypothesis is needed as well: a tree that is not well-formed (an array holding a
group) satisfies `LexOK`, is written without complaint, and is rejected when read back -/
def badArray : Config :=
  { root := { ty := T_GROUP, kids := [{ name := some [97], ty := T_ARRAY, kids := [{ ty := T_GROUP }] }] } }

example : LexOK 341 badArray = true ∧ ParseOK badArray = false ∧
    (read {} Config.init (.string (badArray.write 341)) 1000).ok = false := by
  decide +kernel

end Libconfig.C01RoundTrip
