import LibconfigModel.Properties.C10
import LibconfigModel.Properties.C02
import LibconfigModel.Proofs.C10SpliceParse
/-
  C10 (continued) — "@include is textual inlining": the splice equivalence of the include
  mechanism, at the token level and at the configuration level.
  Statements only; helper lemmas live in LibconfigModel/Proofs/C10Splice*.lean
  (…Lex: the compiled automaton on directive lines and plain lines; …Text: lines, `directive?`,
  `splice` line by line; …Step: iterations of `yylex` in closed form, fuel; …Sim: the simulation
  between the run with includes and the run over the spliced text; …Parse: the parser loop).

  FINDING.  `C10_spliceStatement` of Properties/C10.lean is FALSE as stated
  (`C10_spliceStatement_false`).  Two independent reasons, both exhibited below as
  kernel-evaluated counterexamples:

  1. *Seams inside a line.*  `IncludeTreeOK` lets the last file of a directive end without a
     newline and lets the directive line continue behind the closing quote.  The run with
     includes ends the last lexeme of the file at the end of its buffer (flex never matches
     across a buffer switch: `<<EOF>>` is only reached after the pending lexeme has been
     returned), the spliced text has no such boundary: `a = 1` + `2;` is the tokens `1` `2`
     with includes and the single token `12` spliced.
  2. *NUL in a path.*  The hypothesis "the spliced text is NUL-free" does not cover the path of
     a directive (it is not part of the spliced text).  `directive?` takes the path up to the
     closing quote, the scanner's string buffer is a C string and stops at the NUL: the two
     open different files.

  The repaired hypothesis `IncludeTreeOK'` adds to `IncludeTreeOK` exactly:
  (a) every text of the tree consists of bytes 1 … 255 (the data invariant of `Bytes`; it makes
      the separate NUL-freeness of the spliced text a consequence, `C10_spliced_bytes`);
  (b) the LAST file of a directive, like the others, is empty or ends in a newline — unless
      nothing follows the directive on its line (`rest = []`).
  Each addition is needed on its own: `wSeam` meets (a) and fails (b), `wNul` meets (b) — every
  file ends in a newline — and fails (a).

  PROVED under `IncludeTreeOK'` (depth ≤ 10, every named file exists, plain lines, (a), (b)):
  * `C10_one_directive`, `C10_splice_line` — one directive: what the include machinery does
    (2–3 silent iterations, push) and what `splice` puts in its place;
  * `C10_yylex_sim` — call by call: from related states the `yylex` call with includes and the
    call on the spliced text return the same token and value, or both end of input; never an
    include error; the spliced run never needs more iterations;
  * G1 `C10_tokens` (both scans reach end of input ⇒ same tokens), `C10_tokens_spliced`
    (one-sided, fuel `f₁ ≤ f₂`), `C10_tokens_exist` (unconditional: both scans DO reach end of
    input, with the same tokens, for every fuel ≥ an explicit bound `mu`);
  * G2 `C10_splice` — `read (.file top)` and `read (.string spliced)` agree on `ok`, on the
    `ParseResult` and on `stripPos root`, assuming only that the FIRST read does not run out of
    fuel (stronger than the original statement, `C10_spliceStatement'_holds`);
    `C10_splice_config` — they agree on the whole configuration up to source positions (error
    text and type included) and on the destructor calls.
  NOT proved: that the reads do not run out of fuel for large fuel (the scanner side is:
  `C10_tokens_exist`; a bound for the iterations of the parser loop is not attempted).

  What really happens at seams (all of it is visible in `Rel`/`yylex_sim'` of
  Proofs/C10SpliceSim.lean, the non-obvious points are kernel-evaluated examples at the end):
  * start condition and string buffer belong to the scanner, not to the buffer: a `#` comment
    left open at the end of a file goes on in the parent buffer up to the next newline — in
    both runs alike;
  * the beginning-of-line flag belongs to the buffer: a fresh buffer starts at the beginning of
    a line, so the first line of an included file can be a directive; in the spliced text that
    position is the start of the including directive line (first file) or follows the newline
    that ends the previous file of a multi-path directive (this is what `IncludeTreeOK`'s
    condition on `files.dropLast` is for);
  * behind the closing quote the parent buffer is NOT at the beginning of a line, in the
    spliced text the same bytes may be (all files empty, or the last file newline-terminated):
    harmless, because the rest of a plain directive line has no quote and the only anchored
    rule, `^[ \t]*@include[ \t]+\"`, needs one (`next_unit`);
  * a last file without final newline followed by the end of the directive line is harmless:
    in INITIAL and SINGLE_LINE_COMMENT no lexeme other than the one-byte `\n` contains a
    newline, so the lexeme that ends at the end of the buffer also ends before the `\n` in
    the spliced text (`next_unit`); this is the case the dynamic oracle generates ("cut at
    line boundaries").
-/
set_option autoImplicit false

namespace Libconfig.C10

open Libconfig.C10S

/-! ### the repaired hypothesis -/

/-- `IncludeTreeOK` strengthened (differences marked NEW): the include tree below `text` is
well-formed down to `depth` levels, every text consists of bytes 1 … 255, every file of a
directive except the last is empty or newline-terminated, and so is the last one unless the
directive line ends behind the closing quote. -/
def IncludeTreeOK' (w : World) (ic : IncludeCfg) : Nat → Bytes → Prop
  | 0, text =>
    (∀ b ∈ text, 1 ≤ b ∧ b < 256) ∧                                            -- NEW
    (text.splitOn 10).all plainLine = true ∧ noDirective text = true
  | depth + 1, text =>
    (∀ b ∈ text, 1 ≤ b ∧ b < 256) ∧                                            -- NEW
    (text.splitOn 10).all plainLine = true ∧
    ∀ line ∈ text.splitOn 10, ∀ path rest, directive? line = some (path, rest) →
      ∃ files, includeFnEval ic.fn ic.dir path = (some files, none) ∧
        (∀ p ∈ files, ∃ content, w.open? p = some content ∧ IncludeTreeOK' w ic depth content) ∧
        (∀ p ∈ files.dropLast, ∀ content, w.open? p = some content →
          content = [] ∨ content.getLast? = some 10) ∧
        (∀ p, files.getLast? = some p → ∀ content, w.open? p = some content →           -- NEW
          content = [] ∨ content.getLast? = some 10 ∨ rest = [])

/-- it is a strengthening -/
theorem IncludeTreeOK'_imp (w : World) (ic : IncludeCfg) :
    ∀ (depth : Nat) (text : Bytes), IncludeTreeOK' w ic depth text → IncludeTreeOK w ic depth text := by
  intro depth
  induction depth with
  | zero => intro text h; exact ⟨h.2.1, h.2.2⟩
  | succ d ih =>
    intro text h
    refine ⟨h.2.1, fun line hl path rest hd => ?_⟩
    obtain ⟨files, hfn, h1, h2, -⟩ := h.2.2 line hl path rest hd
    exact ⟨files, hfn, fun p hp => (h1 p hp).imp fun c hc => ⟨hc.1, ih c hc.2⟩, h2⟩

/-- "down to `depth` levels" means at most `depth` levels: a shallower tree is a tree of 10
levels too -/
theorem IncludeTreeOK'_mono (w : World) (ic : IncludeCfg) :
    ∀ (depth : Nat) (text : Bytes), IncludeTreeOK' w ic depth text → IncludeTreeOK' w ic (depth + 1) text := by
  intro depth
  induction depth with
  | zero =>
    intro text h
    refine ⟨h.1, h.2.1, fun line hl path rest hd => ?_⟩
    have := List.all_eq_true.mp h.2.2 line hl
    rw [hd] at this
    cases this
  | succ d ih =>
    intro text h
    refine ⟨h.1, h.2.1, fun line hl path rest hd => ?_⟩
    obtain ⟨files, hfn, h1, h2, h3⟩ := h.2.2 line hl path rest hd
    exact ⟨files, hfn, fun p hp => (h1 p hp).imp fun c hc => ⟨hc.1, ih c hc.2⟩, h2, h3⟩

theorem IncludeTreeOK'_le (w : World) (ic : IncludeCfg) (text : Bytes) {d : Nat} (hd : d ≤ 10)
    (h : IncludeTreeOK' w ic d text) : IncludeTreeOK' w ic 10 text := by
  have key : ∀ k, IncludeTreeOK' w ic (d + k) text := by
    intro k
    induction k with
    | zero => exact h
    | succ k ih => exact IncludeTreeOK'_mono w ic _ text ih
  have := key (10 - d)
  rwa [show d + (10 - d) = 10 by omega] at this

/-- the internal form used by the helper lemmas -/
theorem treeOK_of (w : World) (ic : IncludeCfg) :
    ∀ (depth : Nat) (text : Bytes), IncludeTreeOK' w ic depth text → TreeOK w ic depth text := by
  intro depth
  induction depth with
  | zero =>
    intro text h
    refine ⟨h.1, fun line hl => ⟨List.all_eq_true.mp h.2.1 line hl, ?_⟩⟩
    have := List.all_eq_true.mp h.2.2 line hl
    simpa using this
  | succ d ih =>
    intro text h
    refine ⟨h.1, fun line hl => ⟨List.all_eq_true.mp h.2.1 line hl, fun path rest hd => ?_⟩⟩
    obtain ⟨files, hfn, h1, h2, h3⟩ := h.2.2 line hl path rest hd
    refine ⟨files, hfn, fun p hp => (h1 p hp).imp fun c hc => ⟨hc.1, ih c hc.2⟩, h2, ?_⟩
    intro p hp c hc
    rcases h3 p hp c hc with h | h | h
    · exact .inl (.inl h)
    · exact .inl (.inr h)
    · exact .inr h

mutual
theorem stripPos_eq : ∀ n : Node, stripPos n = eraseNode n
  | .mk _ _ _ _ _ _ kids _ _ _ => by
    rw [stripPos, eraseNode, stripPosList_eq kids]
theorem stripPosList_eq : ∀ ks : List Node, stripPosList ks = eraseList ks
  | [] => by rw [stripPosList, eraseList]
  | k :: ks => by rw [stripPosList, eraseList, stripPos_eq k, stripPosList_eq ks]
end

/-- **The spliced text of a well-formed tree consists of bytes 1 … 255**: the hypothesis
"the spliced text is NUL-free" of `C10_spliceStatement` follows from the tree hypothesis. -/
theorem C10_spliced_bytes (w : World) (ic : IncludeCfg) (content : Bytes)
    (h : IncludeTreeOK' w ic 10 content) : ∀ b ∈ splice w ic 11 content, 1 ≤ b ∧ b < 256 :=
  splice_bytes w ic 10 content (treeOK_of w ic 10 content h)

/-! ### the one-directive lemma -/

/-- **One directive, with includes.**  At the beginning of a line in INITIAL, on a directive
line `l` (path `path`, rest of the line `rest`, followed by `tail`) whose include function
names the files `p :: ps`, the first of which exists, one call of `yylex` performs 2 or 3
iterations without returning — the directive prefix up to the opening quote (rule 22), the
path if it is not empty (rule 23), the closing quote with the push (rule 27) — and goes on at
the start of the file `p`, in INITIAL, at the beginning of a line, with a frame holding the
file list and the parent buffer standing right behind the closing quote, not at the beginning
of a line.  (The files of the frame are then consumed in order and the frame is popped by the
`<<EOF>>` action: `C10_next_file`, `C10_pop`.) -/
theorem C10_one_directive (w : World) (ic : IncludeCfg) (s : ScanState)
    (l tail path rest p : Bytes) (ps : List Bytes) (content : Bytes)
    (hd : directive? l = some (path, rest)) (hl : 10 ∉ l) (hrest : s.buf.rest = l ++ tail)
    (hb : ∀ b ∈ l ++ tail, 1 ≤ b ∧ b < 256)
    (hsc : s.sc = 0) (hbol : s.buf.bol = true) (hstr : s.str = []) (hdepth : s.stack.length < 10)
    (hfn : includeFnEval ic.fn ic.dir path = (some (p :: ps), none))
    (hopen : w.open? p = some content) :
    ∃ k s', 2 ≤ k ∧ k ≤ 3 ∧
      (∀ fuel, yylex Generated.scanner Generated.scanActions w ic (fuel + k) s =
        yylex Generated.scanner Generated.scanActions w ic fuel s') ∧
      s'.sc = 0 ∧ s'.str = [] ∧ s'.buf.rest = content ∧ s'.buf.bol = true ∧
      ∃ ln, s'.stack = { files := p :: ps, cur := 0, parent := ⟨rest ++ tail, false, ln⟩ } :: s.stack := by
  obtain ⟨sb, k0, hk0, hk2, hsteps, hsbsc, hsbstr, hsbrest, hsbbol, hsbstack, -⟩ :=
    directive_prefix w ic s l tail path rest hd hrest hb hl hsc hbol hstr
  have hbl : ByteText l := (byteText_append.mp hb).1
  have hhead : ∀ c, (rest ++ tail).head? = some c → c < 256 := by
    intro c hc
    rcases List.mem_append.mp (List.mem_of_mem_head? hc) with hm | hm
    · exact (hbl c (rest_sub hd c hm)).2
    · exact ((byteText_append.mp hb).2 c hm).2
  obtain ⟨s', hsteps', hsc', hstr', hrest', hbol', -, ln, hstack'⟩ :=
    directive_close_push w ic sb path (rest ++ tail) hsbsc hsbstr hsbrest hsbbol hhead
      (fun b hbp => hbl b (path_sub hd b hbp)) (by rw [hsbstack]; exact hdepth) p ps content hfn hopen
  exact ⟨k0 + 1, s', by omega, by omega, hsteps.trans hsteps', hsc', hstr', hrest', hbol', ln,
    by rw [hstack', hsbstack]⟩

/-- **One directive, spliced.**  `splice` puts the spliced contents of the named files, in
order, then the rest of the line, in place of the directive line; the lines before and after
are spliced independently. -/
theorem C10_splice_line (w : World) (ic : IncludeCfg) (n : Nat) (l tail path rest : Bytes)
    (files : List Bytes) (hd : directive? l = some (path, rest)) (hl : 10 ∉ l)
    (hfn : includeFnEval ic.fn ic.dir path = (some files, none)) :
    splice w ic (n + 1) (l ++ 10 :: tail) =
      (files.flatMap fun p => splice w ic n ((w.open? p).getD [])) ++ rest ++
        10 :: splice w ic (n + 1) tail := by
  rw [splice_line w ic n hl (follow_cons tail), spliceLine_dir w ic n hd hfn]
  rfl

/-! ### G1 — the token level -/

/-- `Lexes w ic fuel s toks`: calling `yylex` repeatedly from the scan state `s` — every call
with `fuel` iterations at its disposal — returns the tokens `toks` (token number and value,
no source positions) and then end of input: no call runs out of fuel, reports an include
error, or falls into flex's ECHO rule. -/
inductive Lexes (w : World) (ic : IncludeCfg) (fuel : Nat) : ScanState → List (Nat × TokVal) → Prop
  | eof {s : ScanState} :
      (yylex Generated.scanner Generated.scanActions w ic fuel s).2 = .eof → Lexes w ic fuel s []
  | tok {s s' : ScanState} {t : Nat} {v : TokVal} {rest : List (Nat × TokVal)} :
      yylex Generated.scanner Generated.scanActions w ic fuel s = (s', .tok t v) →
      Lexes w ic fuel s' rest → Lexes w ic fuel s ((t, v) :: rest)

/-- `Lexes` is the relation `LexesTo` of Properties/C02.lean (the token sequence handed to the
parser) without its include-error step -/
theorem Lexes.toLexesTo (E : ParserEnv) (hT : E.T = Generated.scanner)
    (hA : E.sacts = Generated.scanActions) (s : ScanState) (toks : List (Nat × TokVal))
    (h : Lexes E.w E.ic E.lexFuel s toks) : ∃ s', C02.LexesTo E s toks s' := by
  induction h with
  | @eof s he =>
    refine ⟨(yylex E.T E.sacts E.w E.ic E.lexFuel s).1, .eof s _ ?_⟩
    rw [hT, hA]
    exact Prod.ext rfl he
  | @tok s s₁ t v rest ht _ ih =>
    obtain ⟨s', hs'⟩ := ih
    exact ⟨s', .tok s s₁ s' t v rest (by rw [hT, hA]; exact ht) hs'⟩

/-- the scan state `__config_read` starts from -/
def scanStart (filename : Option Bytes) (inp : Bytes) : ScanState :=
  { buf := { rest := inp }, topFile := filename,
    filenames := match filename with | some f => [f] | none => [] }

theorem lexes_agree (w : World) (ic : IncludeCfg) (f₁ f₂ : Nat) :
    ∀ (toks₁ : List (Nat × TokVal)) (s₁ s₂ : ScanState) (toks₂ : List (Nat × TokVal)),
      Rel w ic s₁ s₂ → Lexes w ic f₁ s₁ toks₁ → Lexes w ic f₂ s₂ toks₂ → toks₁ = toks₂ := by
  intro toks₁ s₁ s₂ toks₂ hrel h1
  induction h1 generalizing s₂ toks₂ with
  | eof he =>
    intro h2
    cases h2 with
    | eof _ => rfl
    | tok ht _ =>
      have := yylex_sim w ic f₁ f₂ _ _ hrel (by rw [he]; simp) (by rw [ht]; simp)
      rw [he, ht] at this
      simp at this
  | tok ht _ ih =>
    intro h2
    cases h2 with
    | eof he =>
      have := yylex_sim w ic f₁ f₂ _ _ hrel (by rw [ht]; simp) (by rw [he]; simp)
      rw [he, ht] at this
      simp at this
    | tok ht' hrest' =>
      have := yylex_sim w ic f₁ f₂ _ _ hrel (by rw [ht]; simp) (by rw [ht']; simp)
      rw [ht, ht'] at this
      obtain ⟨hrel', h | ⟨t, v, h1, h2⟩⟩ := this
      · simp at h
      · simp only [LexOut.tok.injEq] at h1 h2
        obtain ⟨rfl, rfl⟩ := h1
        obtain ⟨rfl, rfl⟩ := h2
        rw [ih _ _ hrel' hrest']

theorem lexes_transfer (w : World) (ic : IncludeCfg) (f₁ f₂ : Nat) (hf : f₁ ≤ f₂) :
    ∀ (toks : List (Nat × TokVal)) (s₁ s₂ : ScanState),
      Rel w ic s₁ s₂ → Lexes w ic f₁ s₁ toks → Lexes w ic f₂ s₂ toks := by
  intro toks s₁ s₂ hrel h1
  induction h1 generalizing s₂ with
  | eof he =>
    have := yylex_sim' w ic f₁ f₂ _ _ hrel (by rw [he]; simp) (.inl hf)
    rw [he] at this
    obtain ⟨-, h | ⟨t, v, h, -⟩⟩ := this
    · exact .eof h.2
    · simp at h
  | tok ht _ ih =>
    have := yylex_sim' w ic f₁ f₂ _ _ hrel (by rw [ht]; simp) (.inl hf)
    rw [ht] at this
    obtain ⟨hrel', h | ⟨t, v, h1, h2⟩⟩ := this
    · simp at h
    · simp only [LexOut.tok.injEq] at h1
      obtain ⟨rfl, rfl⟩ := h1
      exact .tok (Prod.ext rfl h2) (ih _ hrel')

/-- **G1: @include is textual inlining at the token level.**  For an include tree of at most 10
levels (`IncludeTreeOK'`): if scanning the top-level text with the include machinery (every
`yylex` call with fuel `f₁`) and scanning the spliced text as one string (fuel `f₂`) both reach
end of input, they return the same tokens with the same values. -/
theorem C10_tokens (w : World) (ic : IncludeCfg) (top : Option Bytes) (content : Bytes)
    (f₁ f₂ : Nat) (toks₁ toks₂ : List (Nat × TokVal)) (h : IncludeTreeOK' w ic 10 content)
    (h1 : Lexes w ic f₁ (scanStart top content) toks₁)
    (h2 : Lexes w ic f₂ (scanStart none (splice w ic 11 content)) toks₂) : toks₁ = toks₂ :=
  lexes_agree w ic f₁ f₂ toks₁ _ _ toks₂ (rel_init w ic top (treeOK_of w ic 10 content h)) h1 h2

/-- **G1, one-sided.**  If the scan with includes reaches end of input with fuel `f₁` per call,
returning `toks`, then the scan of the spliced text, with at least as much fuel per call,
reaches end of input too and returns the same `toks` (the spliced run never needs more
iterations per call than the run with includes). -/
theorem C10_tokens_spliced (w : World) (ic : IncludeCfg) (top : Option Bytes) (content : Bytes)
    (f₁ f₂ : Nat) (hf : f₁ ≤ f₂) (toks : List (Nat × TokVal)) (h : IncludeTreeOK' w ic 10 content)
    (h1 : Lexes w ic f₁ (scanStart top content) toks) :
    Lexes w ic f₂ (scanStart none (splice w ic 11 content)) toks :=
  lexes_transfer w ic f₁ f₂ hf toks _ _ (rel_init w ic top (treeOK_of w ic 10 content h)) h1

theorem lexes_mono (w : World) (ic : IncludeCfg) (f : Nat) (k : Nat) :
    ∀ (s : ScanState) (toks : List (Nat × TokVal)), Lexes w ic f s toks → Lexes w ic (f + k) s toks := by
  intro s toks h
  induction h with
  | eof he =>
    apply Lexes.eof
    rw [yylex_mono _ _ w ic f _ (by rw [he]; simp) k, he]
  | tok ht _ ih =>
    refine Lexes.tok ?_ ih
    rw [yylex_mono _ _ w ic f _ (by rw [ht]; simp) k, ht]

theorem lexes_exist (w : World) (ic : IncludeCfg) (fuel : Nat) :
    ∀ (m : Nat) (s₁ s₂ : ScanState), Rel w ic s₁ s₂ → mu w ic s₁ ≤ m → mu w ic s₁ ≤ fuel →
      ∃ toks, Lexes w ic fuel s₁ toks := by
  intro m
  induction m with
  | zero =>
    intro s₁ s₂ hrel hm _
    obtain ⟨D, inv, -⟩ := hrel
    have := mu_pos w ic s₁ inv.depth
    omega
  | succ m ih =>
    intro s₁ s₂ hrel hm hf
    obtain ⟨hne, hdec⟩ := yylex_total w ic (mu w ic s₁) s₁ s₂ fuel hrel (Nat.le_refl _) hf
    obtain ⟨hrel', he | ⟨t, v, ht, -⟩⟩ := yylex_sim' w ic fuel fuel s₁ s₂ hrel hne (.inl (Nat.le_refl _))
    · exact ⟨[], .eof he.1⟩
    · have hlt := hdec t v ht
      obtain ⟨rest, hrest⟩ := ih _ _ hrel' (by omega) (by omega)
      exact ⟨(t, v) :: rest, .tok (Prod.ext rfl ht) hrest⟩

/-- **G1, unconditionally: both scans terminate, without include error, with the same
tokens.**  For an include tree of at most 10 levels (`IncludeTreeOK'`) there are a number `N` of
loop iterations (`mu`, a bound computed from the sizes of the files of the tree) and a token
sequence `toks` such that, with any fuel `≥ N` per `yylex` call, the scan of the top-level
text with the include machinery and the scan of the spliced text as one string both reach end
of input and both return exactly `toks`. -/
theorem C10_tokens_exist (w : World) (ic : IncludeCfg) (top : Option Bytes) (content : Bytes)
    (h : IncludeTreeOK' w ic 10 content) :
    ∃ (N : Nat) (toks : List (Nat × TokVal)), ∀ fuel, N ≤ fuel →
      Lexes w ic fuel (scanStart top content) toks ∧
      Lexes w ic fuel (scanStart none (splice w ic 11 content)) toks := by
  have hrel := rel_init w ic top (treeOK_of w ic 10 content h)
  obtain ⟨toks, htoks⟩ := lexes_exist w ic (mu w ic (scanStart top content)) _ _ _ hrel
    (Nat.le_refl _) (Nat.le_refl _)
  refine ⟨mu w ic (scanStart top content), toks, fun fuel hf => ?_⟩
  obtain ⟨k, rfl⟩ : ∃ k, fuel = mu w ic (scanStart top content) + k := ⟨fuel - mu w ic (scanStart top content), by omega⟩
  have h1 := lexes_mono w ic _ k _ _ htoks
  exact ⟨h1, lexes_transfer w ic _ _ (Nat.le_refl _) toks _ _ hrel h1⟩

/-- **No include error, call by call.**  The simulation behind G1 (`Rel` is the relation
between the two runs, Proofs/C10SpliceSim.lean): from related states, a call of `yylex` with
includes that does not run out of fuel returns a token or end of input — never an include
error (depth, missing file, include function) — and a call on the spliced text with at least
as much fuel returns the same; the states reached are related again. -/
theorem C10_yylex_sim (w : World) (ic : IncludeCfg) (f₁ f₂ : Nat) (s₁ s₂ : ScanState)
    (hrel : Rel w ic s₁ s₂)
    (h1 : (yylex Generated.scanner Generated.scanActions w ic f₁ s₁).2 ≠ .outOfFuel)
    (h2 : f₁ ≤ f₂ ∨ (yylex Generated.scanner Generated.scanActions w ic f₂ s₂).2 ≠ .outOfFuel) :
    Rel w ic (yylex Generated.scanner Generated.scanActions w ic f₁ s₁).1
      (yylex Generated.scanner Generated.scanActions w ic f₂ s₂).1 ∧
    (((yylex Generated.scanner Generated.scanActions w ic f₁ s₁).2 = .eof ∧
      (yylex Generated.scanner Generated.scanActions w ic f₂ s₂).2 = .eof) ∨
     ∃ t v, (yylex Generated.scanner Generated.scanActions w ic f₁ s₁).2 = .tok t v ∧
       (yylex Generated.scanner Generated.scanActions w ic f₂ s₂).2 = .tok t v) :=
  yylex_sim' w ic f₁ f₂ s₁ s₂ hrel h1 h2

/-- the two runs start related -/
theorem C10_rel_init (w : World) (ic : IncludeCfg) (top : Option Bytes) (content : Bytes)
    (h : IncludeTreeOK' w ic 10 content) :
    Rel w ic (scanStart top content) (scanStart none (splice w ic 11 content)) :=
  rel_init w ic top (treeOK_of w ic 10 content h)

/-! ### G2 — the configuration level -/

/-- **@include = textual inlining** — `C10_spliceStatement` with the repaired hypothesis, in a
stronger, one-sided form.  For an include tree of at most 10 levels (`IncludeTreeOK'`), if
reading the top file does not run out of fuel, then reading the spliced text with the same fuel
gives the same outcome (`ok`, and the same `ParseResult`) and the same configuration up to
the recorded source positions.  (No hypothesis on the second read; no separate NUL-freeness
hypothesis: `C10_spliced_bytes`.) -/
theorem C10_splice (w : World) (c : Config) (top content : Bytes) (fuel : Nat)
    (hopen : w.open? top = some content)
    (htree : IncludeTreeOK' w { fn := c.includeFn, dir := c.includeDir } 10 content) :
    let a := read w c (.file top) fuel
    let b := read w c (.string (splice w { fn := c.includeFn, dir := c.includeDir } 11 content)) fuel
    a.result ≠ .outOfFuel →
    a.ok = b.ok ∧ a.result = b.result ∧ stripPos a.cfg.root = stripPos b.cfg.root := by
  intro a b h1
  have h := splice_read w c top content fuel hopen (treeOK_of w _ 10 content htree) h1
  rw [stripPos_eq, stripPos_eq]
  exact h

/-- a configuration without source positions: the settings' lines and files, the error line
and file, the list of file names -/
def erasePositions (c : Config) : Config :=
  { c with root := stripPos c.root, errFile := none, errLine := 0, filenames := [] }

/-- **… and everything else agrees too**: under the hypotheses of `C10_splice` the two reads
leave the same configuration up to source positions — the same settings, the same error text
and error type, the same attributes — and make the same destructor calls. -/
theorem C10_splice_config (w : World) (c : Config) (top content : Bytes) (fuel : Nat)
    (hopen : w.open? top = some content)
    (htree : IncludeTreeOK' w { fn := c.includeFn, dir := c.includeDir } 10 content) :
    let a := read w c (.file top) fuel
    let b := read w c (.string (splice w { fn := c.includeFn, dir := c.includeDir } 11 content)) fuel
    a.result ≠ .outOfFuel →
    erasePositions a.cfg = erasePositions b.cfg ∧ a.dtorLog = b.dtorLog := by
  intro a b h1
  have h := splice_read_cfg w c top content fuel hopen (treeOK_of w _ 10 content htree) h1
  unfold erasePositions
  rw [stripPos_eq, stripPos_eq]
  exact h

/-- the statement of Properties/C10.lean with `IncludeTreeOK'` in place of `IncludeTreeOK` -/
def C10_spliceStatement' : Prop :=
  ∀ (w : World) (c : Config) (top content : Bytes) (fuel : Nat),
    w.open? top = some content →
    (∀ b ∈ splice w { fn := c.includeFn, dir := c.includeDir } 11 content, b ≠ 0) →
    IncludeTreeOK' w { fn := c.includeFn, dir := c.includeDir } 10 content →
    let a := read w c (.file top) fuel
    let b := read w c (.string (splice w { fn := c.includeFn, dir := c.includeDir } 11 content)) fuel
    a.result ≠ .outOfFuel → b.result ≠ .outOfFuel →
    a.ok = b.ok ∧ stripPos a.cfg.root = stripPos b.cfg.root

/-- … holds. -/
theorem C10_spliceStatement'_holds : C10_spliceStatement' := by
  intro w c top content fuel hopen _ htree a b h1 _
  have h := C10_splice w c top content fuel hopen htree h1
  exact ⟨h.1, h.2.2⟩

/-! ### executable forms of the tree hypotheses (for the counterexamples and examples) -/

/-- `IncludeTreeOK`, decided -/
def checkTree (w : World) (ic : IncludeCfg) : Nat → Bytes → Bool
  | 0, text => (text.splitOn 10).all plainLine && noDirective text
  | d + 1, text =>
    (text.splitOn 10).all plainLine &&
    (text.splitOn 10).all fun line =>
      match directive? line with
      | none => true
      | some (path, _) =>
        match includeFnEval ic.fn ic.dir path with
        | (some files, none) =>
          files.all (fun p => match w.open? p with
            | some c => checkTree w ic d c
            | none => false) &&
          files.dropLast.all (fun p => match w.open? p with
            | some c => c.isEmpty || c.getLast? == some 10
            | none => true)
        | _ => false

theorem checkTree_sound (w : World) (ic : IncludeCfg) :
    ∀ (d : Nat) (text : Bytes), checkTree w ic d text = true → IncludeTreeOK w ic d text := by
  intro d
  induction d with
  | zero =>
    intro text h
    simpa [checkTree, IncludeTreeOK] using h
  | succ d ih =>
    intro text h
    simp only [checkTree, Bool.and_eq_true] at h
    refine ⟨h.1, fun line hline path rest hd => ?_⟩
    have hl := List.all_eq_true.mp h.2 line hline
    rw [hd] at hl
    simp only at hl
    split at hl
    · rename_i files heq
      simp only [Bool.and_eq_true] at hl
      refine ⟨files, heq, fun p hp => ?_, fun p hp c hc => ?_⟩
      · have := List.all_eq_true.mp hl.1 p hp
        cases hopen : w.open? p with
        | none => rw [hopen] at this; cases this
        | some c => rw [hopen] at this; exact ⟨c, rfl, ih c this⟩
      · have := List.all_eq_true.mp hl.2 p hp
        rw [hc] at this
        simpa using this
    · cases hl

/-- `IncludeTreeOK'`, decided -/
def checkTree' (w : World) (ic : IncludeCfg) : Nat → Bytes → Bool
  | 0, text => text.all (fun b => Nat.ble 1 b && Nat.blt b 256) &&
      (text.splitOn 10).all plainLine && noDirective text
  | d + 1, text =>
    text.all (fun b => Nat.ble 1 b && Nat.blt b 256) &&
    (text.splitOn 10).all plainLine &&
    (text.splitOn 10).all fun line =>
      match directive? line with
      | none => true
      | some (path, rest) =>
        match includeFnEval ic.fn ic.dir path with
        | (some files, none) =>
          files.all (fun p => match w.open? p with
            | some c => checkTree' w ic d c
            | none => false) &&
          files.dropLast.all (fun p => match w.open? p with
            | some c => c.isEmpty || c.getLast? == some 10
            | none => true) &&
          (match files.getLast? with
            | some p => (match w.open? p with
              | some c => c.isEmpty || c.getLast? == some 10 || rest.isEmpty
              | none => true)
            | none => true)
        | _ => false

theorem bytes_of_all {text : Bytes}
    (h : text.all (fun b => Nat.ble 1 b && Nat.blt b 256) = true) : ∀ b ∈ text, 1 ≤ b ∧ b < 256 := by
  intro b hb
  have := List.all_eq_true.mp h b hb
  simp only [Bool.and_eq_true] at this
  exact ⟨Nat.le_of_ble_eq_true this.1, Nat.le_of_ble_eq_true this.2⟩

theorem checkTree'_sound (w : World) (ic : IncludeCfg) :
    ∀ (d : Nat) (text : Bytes), checkTree' w ic d text = true → IncludeTreeOK' w ic d text := by
  intro d
  induction d with
  | zero =>
    intro text h
    simp only [checkTree', Bool.and_eq_true] at h
    exact ⟨bytes_of_all h.1.1, h.1.2, h.2⟩
  | succ d ih =>
    intro text h
    simp only [checkTree', Bool.and_eq_true] at h
    refine ⟨bytes_of_all h.1.1, h.1.2, fun line hline path rest hd => ?_⟩
    have hl := List.all_eq_true.mp h.2 line hline
    rw [hd] at hl
    simp only at hl
    split at hl
    · rename_i files heq
      simp only [Bool.and_eq_true] at hl
      refine ⟨files, heq, fun p hp => ?_, fun p hp c hc => ?_, fun p hp c hc => ?_⟩
      · have := List.all_eq_true.mp hl.1.1 p hp
        cases hopen : w.open? p with
        | none => rw [hopen] at this; cases this
        | some c => rw [hopen] at this; exact ⟨c, rfl, ih c this⟩
      · have := List.all_eq_true.mp hl.1.2 p hp
        rw [hc] at this
        simpa using this
      · have := hl.2
        rw [hp] at this
        simp only [hc] at this
        simpa [or_assoc] using this
    · cases hl

/-- the token list of a scan, computed: at most `n` calls of `yylex`, `fuel` iterations each -/
def lexList (w : World) (ic : IncludeCfg) (fuel : Nat) : Nat → ScanState → Option (List (Nat × TokVal))
  | 0, _ => none
  | n + 1, s =>
    match yylex Generated.scanner Generated.scanActions w ic fuel s with
    | (s', .tok t v) => (lexList w ic fuel n s').map ((t, v) :: ·)
    | (_, .eof) => some []
    | _ => none

theorem lexList_sound (w : World) (ic : IncludeCfg) (fuel : Nat) :
    ∀ (n : Nat) (s : ScanState) (toks : List (Nat × TokVal)),
      lexList w ic fuel n s = some toks → Lexes w ic fuel s toks := by
  intro n
  induction n with
  | zero => intro s toks h; cases h
  | succ n ih =>
    intro s toks h
    unfold lexList at h
    split at h
    · rename_i s' t v heq
      cases hl : lexList w ic fuel n s' with
      | none => rw [hl] at h; cases h
      | some rest =>
        rw [hl] at h
        simp only [Option.map_some, Option.some.injEq] at h
        subst h
        exact .tok heq (ih s' rest hl)
    · rename_i heq
      simp only [Option.some.injEq] at h
      subst h
      exact .eof (by rw [heq])
    · cases h

/-! ### the finding: `C10_spliceStatement` is false as stated -/

/-- counterexample 1 (a seam inside a line): the file `i` is `a = 1` without final newline, the
top file continues the directive line with `2;` -/
def topSeam : Bytes := bytesOfString "@include \"i\"2;\n"
def wSeam : World :=
  { files := [(bytesOfString "t", some topSeam), (bytesOfString "i", some (bytesOfString "a = 1"))] }

/-- the tree meets every hypothesis of `C10_spliceStatement`; the spliced text is `a = 12;`;
with includes the tokens are NAME `=` INTEGER(1) INTEGER(2) `;` — a syntax error —, spliced they
are NAME `=` INTEGER(12) `;` -/
example :
    IncludeTreeOK wSeam { fn := 0, dir := none } 10 topSeam ∧
    (∀ e ∈ wSeam.files, ∀ c, e.2 = some c → ∀ b ∈ c, 1 ≤ b ∧ b < 256) ∧
    splice wSeam { fn := 0, dir := none } 11 topSeam = bytesOfString "a = 12;\n" ∧
    (lexList wSeam { fn := 0, dir := none } 20 20 (scanStart (some (bytesOfString "t")) topSeam)).map
        (·.map fun tv => (tv.1, tv.2.ival)) = some [(265, 0), (266, 0), (259, 1), (259, 2), (275, 0)] ∧
    (lexList wSeam { fn := 0, dir := none } 20 20
        (scanStart none (splice wSeam { fn := 0, dir := none } 11 topSeam))).map
        (·.map fun tv => (tv.1, tv.2.ival)) = some [(265, 0), (266, 0), (259, 12), (275, 0)] ∧
    (read wSeam Config.init (.file (bytesOfString "t")) 1000).result = .abort ∧
    (read wSeam Config.init (.string (splice wSeam { fn := 0, dir := none } 11 topSeam)) 1000).result
      = .accept :=
  ⟨checkTree_sound _ _ 10 _ (by decide +kernel), by decide +kernel, by decide +kernel,
    by decide +kernel, by decide +kernel, by decide +kernel, by decide +kernel⟩

/-- **FINDING: the end-to-end statement of Properties/C10.lean does not hold.** -/
theorem C10_spliceStatement_false : ¬ C10_spliceStatement := by
  intro h
  have h' := h wSeam Config.init (bytesOfString "t") topSeam 1000 (by decide +kernel)
    (by decide +kernel) (checkTree_sound _ _ 10 _ (by decide +kernel)) (by decide +kernel)
    (by decide +kernel)
  exact absurd h'.1 (by decide +kernel)

/-- counterexample 2 (NUL in a path; every file ends in a newline): the directive names the
file `a\0b`, which exists; the scanner's string buffer is a C string, so the include function
is asked for `a`, which does not exist -/
def topNul : Bytes := bytesOfString "@include \"a" ++ [0] ++ bytesOfString "b\"\n"
def wNul : World :=
  { files := [(bytesOfString "t", some topNul),
              (bytesOfString "a" ++ [0] ++ bytesOfString "b", some (bytesOfString "x = 1;\n"))] }

/-- … every hypothesis of `C10_spliceStatement` holds (the spliced text `x = 1;` has no NUL),
the read of the top file fails with "cannot open include file", the read of the spliced text
succeeds.  Hence hypothesis (a) of `IncludeTreeOK'`. -/
theorem C10_spliceStatement_false_nul :
    wNul.open? (bytesOfString "t") = some topNul ∧
    (∀ b ∈ splice wNul { fn := 0, dir := none } 11 topNul, b ≠ 0) ∧
    IncludeTreeOK wNul { fn := 0, dir := none } 10 topNul ∧
    (∀ e ∈ wNul.files, ∀ c, e.2 = some c → c.getLast? = some 10) ∧
    (read wNul Config.init (.file (bytesOfString "t")) 1000).result = .abort ∧
    (read wNul Config.init (.file (bytesOfString "t")) 1000).cfg.errText
      = some (bytesOfString "cannot open include file") ∧
    (read wNul Config.init (.string (splice wNul { fn := 0, dir := none } 11 topNul)) 1000).result
      = .accept :=
  ⟨by decide +kernel, by decide +kernel, checkTree_sound _ _ 10 _ (by decide +kernel),
    by decide +kernel, by decide +kernel, by decide +kernel, by decide +kernel⟩

/-- both counterexamples are excluded by `IncludeTreeOK'`, each by one of the two additions -/
example : checkTree' wSeam { fn := 0, dir := none } 10 topSeam = false ∧
    checkTree' wNul { fn := 0, dir := none } 10 topNul = false := by decide +kernel

example : ¬ IncludeTreeOK' wSeam { fn := 0, dir := none } 10 topSeam := fun h =>
  absurd (C10_splice wSeam Config.init (bytesOfString "t") topSeam 1000 (by decide +kernel) h
    (by decide +kernel)).1 (by decide +kernel)

/-! ### non-vacuity: the theorems on concrete trees, evaluated by the kernel -/

/-- a three-level tree with an include directory: an open `#` comment before a nested
directive, an indented directive, a last file without final newline included from a line that
ends behind the quote, an empty file included from a line that goes on -/
def topTree : Bytes := bytesOfString "a = 1;\n@include \"i\"\nc = 3;\n"
def wTree : World :=
  { files := [(bytesOfString "t", some topTree),
              (bytesOfString "d/i", some (bytesOfString
                "b = 2; # open comment\n  @include \"/j\"\n@include \"e\" # nothing\n")),
              (bytesOfString "/j", some (bytesOfString "g = { x = 1; };")),
              (bytesOfString "d/e", some [])] }
def cTree : Config := { Config.init with includeDir := some (bytesOfString "d") }
def icTree : IncludeCfg := { fn := 0, dir := some (bytesOfString "d") }

/-- the hypothesis of `C10_splice`, `C10_tokens…` is met -/
theorem wTree_ok : IncludeTreeOK' wTree icTree 10 topTree :=
  checkTree'_sound _ _ 10 _ (by decide +kernel)

/-- `C10_splice` applies, and its conclusion says something: the read succeeds, four settings,
whose recorded positions differ between the two reads -/
example :
    let a := read wTree cTree (.file (bytesOfString "t")) 1000
    let b := read wTree cTree (.string (splice wTree icTree 11 topTree)) 1000
    (a.ok = b.ok ∧ a.result = b.result ∧ stripPos a.cfg.root = stripPos b.cfg.root) ∧
    a.result = .accept ∧
    a.cfg.root.kids.map (fun k => (k.name, k.line, k.file)) =
      [(some (bytesOfString "a"), 1, some (bytesOfString "t")),
       (some (bytesOfString "b"), 1, some (bytesOfString "d/i")),
       (some (bytesOfString "g"), 1, some (bytesOfString "/j")),
       (some (bytesOfString "c"), 3, some (bytesOfString "t"))] ∧
    b.cfg.root.kids.map (fun k => (k.name, k.line, k.file)) =
      [(some (bytesOfString "a"), 1, none), (some (bytesOfString "b"), 2, none),
       (some (bytesOfString "g"), 3, none), (some (bytesOfString "c"), 6, none)] :=
  ⟨C10_splice wTree cTree (bytesOfString "t") topTree 1000 (by decide +kernel) wTree_ok
    (by decide +kernel), by decide +kernel, by decide +kernel, by decide +kernel⟩

/-- `C10_tokens`, `C10_tokens_spliced`: the token sequence of both scans (21 tokens) -/
example :
    ∃ toks, Lexes wTree icTree 50 (scanStart (some (bytesOfString "t")) topTree) toks ∧
      Lexes wTree icTree 50 (scanStart none (splice wTree icTree 11 topTree)) toks ∧
      toks.map (·.1) = [265, 266, 259, 275, 265, 266, 259, 275, 265, 266, 273, 265, 266, 259, 275,
        274, 275, 265, 266, 259, 275] := by
  have h : ∃ toks, lexList wTree icTree 50 50 (scanStart (some (bytesOfString "t")) topTree) = some toks ∧
      toks.map (·.1) = [265, 266, 259, 275, 265, 266, 259, 275, 265, 266, 273, 265, 266, 259, 275,
        274, 275, 265, 266, 259, 275] := by decide +kernel
  obtain ⟨toks, h1, h2⟩ := h
  have hl := lexList_sound _ _ _ _ _ _ h1
  exact ⟨toks, hl, C10_tokens_spliced wTree icTree _ topTree 50 50 (Nat.le_refl _) toks wTree_ok hl, h2⟩

/-- the bound `N` of `C10_tokens_exist` for this tree -/
example : mu wTree icTree (scanStart (some (bytesOfString "t")) topTree) = 77 := by decide +kernel

/-- the scan state at the second line of the top file -/
def sDir : ScanState :=
  { buf := { rest := topTree.drop 7, bol := true, lineno := 2 }, topFile := some (bytesOfString "t") }

/-- `C10_one_directive` on the second line of the top file: its hypotheses are met -/
example :
    ∃ k s', 2 ≤ k ∧ k ≤ 3 ∧
      (∀ fuel, yylex Generated.scanner Generated.scanActions wTree icTree (fuel + k) sDir =
        yylex Generated.scanner Generated.scanActions wTree icTree fuel s') ∧
      s'.sc = 0 ∧ s'.str = [] ∧
      s'.buf.rest = bytesOfString "b = 2; # open comment\n  @include \"/j\"\n@include \"e\" # nothing\n" ∧
      s'.buf.bol = true ∧
      ∃ ln, s'.stack =
        [{ files := [bytesOfString "d/i"], cur := 0, parent := ⟨[] ++ bytesOfString "\nc = 3;\n", false, ln⟩ }] :=
  C10_one_directive wTree icTree sDir (bytesOfString "@include \"i\"") (bytesOfString "\nc = 3;\n")
    (bytesOfString "i") [] (bytesOfString "d/i") [] _ (by decide +kernel) (by decide +kernel)
    (by decide +kernel) (by decide +kernel) rfl rfl rfl (by decide) (by decide +kernel)
    (by decide +kernel)

/-- a multi-path directive of the custom include function, in the middle of a list: three
files, the second empty, the others newline-terminated, the line goes on behind the quote -/
def topMulti : Bytes := bytesOfString "x = ( 1,\n@include \"p|q|r\" 4 );\n"
def wMulti : World :=
  { files := [(bytesOfString "t", some topMulti), (bytesOfString "p", some (bytesOfString "2,\n")),
              (bytesOfString "q", some []), (bytesOfString "r", some (bytesOfString "3,\n"))] }
def cMulti : Config := { Config.init with includeFn := 1 }

example :
    let a := read wMulti cMulti (.file (bytesOfString "t")) 1000
    let b := read wMulti cMulti (.string (splice wMulti { fn := 1, dir := none } 11 topMulti)) 1000
    (a.ok = b.ok ∧ a.result = b.result ∧ stripPos a.cfg.root = stripPos b.cfg.root) ∧
    a.result = .accept ∧
    splice wMulti { fn := 1, dir := none } 11 topMulti = bytesOfString "x = ( 1,\n2,\n3,\n 4 );\n" ∧
    a.cfg.root.kids.map (fun k => k.kids.map fun e => (e.ival, e.line, e.file)) =
      [[(1, 1, some (bytesOfString "t")), (2, 1, some (bytesOfString "p")),
        (3, 1, some (bytesOfString "r")), (4, 2, some (bytesOfString "t"))]] :=
  ⟨C10_splice wMulti cMulti (bytesOfString "t") topMulti 1000 (by decide +kernel)
    (checkTree'_sound _ _ 10 _ (by decide +kernel)) (by decide +kernel),
    by decide +kernel, by decide +kernel, by decide +kernel⟩

/-- a failing read: a syntax error inside an included file.  Both reads abort with "syntax
error" and leave the same two settings (`C10_splice_config`); the error is located at line 2 of
`i` by the read with includes and at line 3 of nothing by the read of the spliced text -/
def topErr : Bytes := bytesOfString "a = 1;\n@include \"i\"\nc = 3;\n"
def wErr : World :=
  { files := [(bytesOfString "t", some topErr), (bytesOfString "i", some (bytesOfString "\nb = ;\n"))] }

example :
    let a := read wErr Config.init (.file (bytesOfString "t")) 1000
    let b := read wErr Config.init (.string (splice wErr { fn := 0, dir := none } 11 topErr)) 1000
    (erasePositions a.cfg = erasePositions b.cfg ∧ a.dtorLog = b.dtorLog) ∧
    a.result = .abort ∧ a.cfg.errText = some (bytesOfString "syntax error") ∧
    (a.cfg.errLine, a.cfg.errFile) = (2, some (bytesOfString "i")) ∧
    (b.cfg.errLine, b.cfg.errFile) = (3, none) ∧
    a.cfg.root.kids.map (·.name) = [some (bytesOfString "a"), some (bytesOfString "b")] :=
  ⟨C10_splice_config wErr Config.init (bytesOfString "t") topErr 1000 (by decide +kernel)
    (checkTree'_sound _ _ 10 _ (by decide +kernel)) (by decide +kernel),
    by decide +kernel, by decide +kernel, by decide +kernel, by decide +kernel, by decide +kernel⟩

/-- the depth limit is met exactly: a chain `t → f1 → … → f10`, ten directives deep, is a tree of
10 levels; the frames pile up to ten and the theorem applies … -/
def chainName (k : Nat) : Bytes := bytesOfString "f" ++ natToDec k
def chainFile (k : Nat) : Bytes :=
  bytesOfString "@include \"" ++ chainName (k + 1) ++ bytesOfString "\"\n"
def wChain (n : Nat) : World :=
  { files := (bytesOfString "t", some (chainFile 0)) ::
      ((List.range n).map fun k => (chainName (k + 1), some (chainFile (k + 1)))) ++
      [(chainName (n + 1), some (bytesOfString "x = 1;\n"))] }

example :
    let a := read (wChain 9) Config.init (.file (bytesOfString "t")) 1000
    let b := read (wChain 9) Config.init
      (.string (splice (wChain 9) { fn := 0, dir := none } 11 (chainFile 0))) 1000
    (a.ok = b.ok ∧ a.result = b.result ∧ stripPos a.cfg.root = stripPos b.cfg.root) ∧
    a.result = .accept ∧
    a.cfg.root.kids.map (fun k => (k.name, k.line, k.file)) =
      [(some (bytesOfString "x"), 1, some (bytesOfString "f10"))] :=
  ⟨C10_splice (wChain 9) Config.init (bytesOfString "t") (chainFile 0) 1000 (by decide +kernel)
    (checkTree'_sound _ _ 10 _ (by decide +kernel)) (by decide +kernel),
    by decide +kernel, by decide +kernel⟩

/-- … while one level more is not a tree of 10 levels, and indeed the read with includes
stops at the limit although the text-level `splice` (11 levels) inlines everything: the depth
hypothesis cannot be dropped -/
example :
    checkTree' (wChain 10) { fn := 0, dir := none } 10 (chainFile 0) = false ∧
    (read (wChain 10) Config.init (.file (bytesOfString "t")) 1000).cfg.errText
      = some (bytesOfString "include file nesting too deep") ∧
    (read (wChain 10) Config.init
      (.string (splice (wChain 10) { fn := 0, dir := none } 11 (chainFile 0))) 1000).result = .accept := by
  decide +kernel

/-! ### seams: what happens at the ends of included files (see the header) -/

/-- a `#` comment left open at the end of an included file goes on in the parent buffer: the
rest of the directive line is swallowed with includes exactly as in the spliced text (this
tree is outside `IncludeTreeOK'` — last file without newline and a non-empty rest — the two
runs agree all the same, here; `wSeam` shows they need not) -/
example :
    let top := bytesOfString "@include \"i\" x = 1;\ny = 2;\n"
    let w : World := { files := [(bytesOfString "t", some top), (bytesOfString "i", some (bytesOfString "# c"))] }
    splice w { fn := 0, dir := none } 11 top = bytesOfString "# c x = 1;\ny = 2;\n" ∧
    (lexList w { fn := 0, dir := none } 50 50 (scanStart none top)).map (·.map (·.1))
      = some [265, 266, 259, 275] ∧
    (lexList w { fn := 0, dir := none } 50 50
      (scanStart none (splice w { fn := 0, dir := none } 11 top))).map (·.map (·.1))
      = some [265, 266, 259, 275] := by decide +kernel

/-- more seams inside a line that `IncludeTreeOK` admits and (b) excludes: a file ending in `/`
followed by `/ x` (two GARBAGE tokens and a NAME with includes, a comment spliced), a file
ending in `tr` followed by `ue;` (two NAMEs with includes, the BOOLEAN `true` spliced) -/
example :
    let top₁ := bytesOfString "@include \"i\"/ x\nb = 2;\n"
    let w₁ : World := { files := [(bytesOfString "t", some top₁), (bytesOfString "i", some (bytesOfString "a = 1;/"))] }
    let top₂ := bytesOfString "@include \"i\"ue;\n"
    let w₂ : World := { files := [(bytesOfString "t", some top₂), (bytesOfString "i", some (bytesOfString "a = tr"))] }
    checkTree w₁ { fn := 0, dir := none } 10 top₁ = true ∧
    (lexList w₁ { fn := 0, dir := none } 50 50 (scanStart none top₁)).map (·.map (·.1))
      = some [265, 266, 259, 275, 276, 276, 265, 265, 266, 259, 275] ∧
    (lexList w₁ { fn := 0, dir := none } 50 50
      (scanStart none (splice w₁ { fn := 0, dir := none } 11 top₁))).map (·.map (·.1))
      = some [265, 266, 259, 275, 265, 266, 259, 275] ∧
    checkTree w₂ { fn := 0, dir := none } 10 top₂ = true ∧
    (lexList w₂ { fn := 0, dir := none } 50 50 (scanStart none top₂)).map (·.map (·.1))
      = some [265, 266, 265, 265, 275] ∧
    (lexList w₂ { fn := 0, dir := none } 50 50
      (scanStart none (splice w₂ { fn := 0, dir := none } 11 top₂))).map (·.map (·.1))
      = some [265, 266, 258, 275] := by decide +kernel

/-- behind the closing quote the parent buffer is not at the beginning of a line, the same
bytes in the spliced text are (the file is empty): `@include` without a quote is GARBAGE `@`
and a NAME in both positions, the anchored rule needs the quote -/
example :
    let top := bytesOfString "@include \"e\"@include\n"
    let w : World := { files := [(bytesOfString "t", some top), (bytesOfString "e", some [])] }
    checkTree' w { fn := 0, dir := none } 10 top = true ∧
    splice w { fn := 0, dir := none } 11 top = bytesOfString "@include\n" ∧
    (lexList w { fn := 0, dir := none } 50 50 (scanStart none top)).map (·.map (·.1))
      = some [276, 265] ∧
    (lexList w { fn := 0, dir := none } 50 50
      (scanStart none (splice w { fn := 0, dir := none } 11 top))).map (·.map (·.1))
      = some [276, 265] := by decide +kernel

end Libconfig.C10
