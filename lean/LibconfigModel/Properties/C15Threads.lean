import LibconfigModel.LocaleThreads
/-
  C15 with several threads: whatever the other threads do — including being in the middle of
  their own reads and writes — a thread inside a library call sees radix `.`, the
  process-wide locale is never changed, and when a thread's calls have returned its own
  locale is what it was.  No bound on the number of threads, the nesting or the schedule.
-/
namespace Libconfig.C15T
open MTLocale (overlapSchedule)

theorem step_global (M : MTLocale) (e : LocEvent) : (M.step e).globalRadix = M.globalRadix := by
  cases e with
  | enter t => rfl
  | leave t => simp only [MTLocale.step]; split <;> rfl

theorem step_inv (M : MTLocale) (e : LocEvent) (h : M.Inv) : (M.step e).Inv := by
  intro u
  cases e with
  | enter t =>
    simp only [MTLocale.step, localeOverride]
    by_cases hu : u = t
    · subst hu
      simp only [if_true]
      refine ⟨by simp, ?_⟩
      intro v hv
      cases hs : M.saved u with
      | nil => simp [hs] at hv
      | cons s rest =>
        rw [hs, List.dropLast_cons_cons] at hv
        rcases List.mem_cons.mp hv with rfl | hv
        · exact (h u).1 (by simp [hs])
        · exact (h u).2 v (by rw [hs]; exact hv)
    · simp only [hu, if_false]; exact h u
  | leave t =>
    simp only [MTLocale.step]
    cases hs : M.saved t with
    | nil => exact h u
    | cons s rest =>
      simp only [localeRestore]
      by_cases hu : u = t
      · subst hu
        simp only [if_true]
        have h2 := (h u).2
        rw [hs] at h2
        refine ⟨fun hne => ?_, fun v hv => ?_⟩
        · cases rest with
          | nil => exact absurd rfl hne
          | cons r rs => exact h2 s (by simp [List.dropLast_cons_cons])
        · cases rest with
          | nil => simp at hv
          | cons r rs => exact h2 v (by rw [List.dropLast_cons_cons]; exact List.mem_cons_of_mem _ hv)
      · simp only [hu, if_false]; exact h u

theorem step_outer (M : MTLocale) (e : LocEvent) (u : Nat) : (M.step e).outer u = M.outer u := by
  cases e with
  | enter t =>
    simp only [MTLocale.step, localeOverride, MTLocale.outer]
    by_cases hu : u = t
    · subst hu
      simp only [if_true]
      cases hs : M.saved u with
      | nil => simp
      | cons s rest =>
        rw [List.getLast?_cons_cons]
        cases hl : (s :: rest).getLast? with
        | none => simp at hl
        | some v => rfl
    · simp only [hu, if_false]
  | leave t =>
    simp only [MTLocale.step]
    cases hs : M.saved t with
    | nil => rfl
    | cons s rest =>
      simp only [localeRestore, MTLocale.outer]
      by_cases hu : u = t
      · subst hu
        simp only [if_true, hs]
        cases rest with
        | nil => simp
        | cons r rs =>
          rw [List.getLast?_cons_cons]
          cases hl : (r :: rs).getLast? with
          | none => simp at hl
          | some v => rfl
      · simp only [hu, if_false]

theorem idle_inv (g : Nat) (th : Nat → Option Nat) : (MTLocale.idle g th).Inv := by
  intro t; simp [MTLocale.idle]

theorem run_inv (M : MTLocale) (es : List LocEvent) (h : M.Inv) : (M.run es).Inv := by
  induction es generalizing M with
  | nil => exact h
  | cons e es ih => exact ih _ (step_inv M e h)

/-- **Inside.** After any schedule of calls of any threads, a thread that is inside a read or
write has radix `.` — independently of the process-wide locale, of its own locale and of
what the other threads are in the middle of. -/
theorem C15T_inside (g : Nat) (th : Nat → Option Nat) (es : List LocEvent) (t : Nat)
    (hin : ((MTLocale.idle g th).run es).saved t ≠ []) :
    ((MTLocale.idle g th).run es).effective t = 46 := by
  have := (run_inv _ es (idle_inv g th) t).1 hin
  simp [MTLocale.effective, this]

/-- **The process-wide locale is never changed.** -/
theorem C15T_global (M : MTLocale) (es : List LocEvent) : (M.run es).globalRadix = M.globalRadix := by
  induction es generalizing M with
  | nil => rfl
  | cons e es ih => exact (ih _).trans (step_global M e)

/-- **Restore.** The locale a thread has outside the library is invariant under every
schedule; in particular a thread none of whose calls is still in progress has exactly the
locale it started with, wherever the other threads are. -/
theorem C15T_outer (g : Nat) (th : Nat → Option Nat) (es : List LocEvent) (t : Nat) :
    ((MTLocale.idle g th).run es).outer t = th t := by
  suffices ∀ M : MTLocale, M.Inv → (M.run es).outer t = M.outer t by
    rw [this _ (idle_inv g th)]; simp [MTLocale.outer, MTLocale.idle]
  intro M h
  induction es generalizing M with
  | nil => rfl
  | cons e es ih => exact (ih _ (step_inv M e h)).trans (step_outer M e t)

theorem C15T_restore (g : Nat) (th : Nat → Option Nat) (es : List LocEvent) (t : Nat)
    (hout : ((MTLocale.idle g th).run es).saved t = []) :
    ((MTLocale.idle g th).run es).thread t = th t := by
  have := C15T_outer g th es t
  simpa [MTLocale.outer, hout] using this

/-- Non-vacuity: comma global locale and comma thread locales; thread 1 is inside its read
(radix `.`) while thread 0 is parked; afterwards both have their comma locale back. -/
example : ((MTLocale.idle 44 (fun _ => some 44)).run (overlapSchedule.take 2)).effective 1 = 46 := by decide
example : ((MTLocale.idle 44 (fun _ => some 44)).run (overlapSchedule.take 2)).saved 1 ≠ [] := by decide
example : ((MTLocale.idle 44 (fun _ => some 44)).run overlapSchedule).thread 1 = some 44 := by decide
example : ((MTLocale.idle 44 (fun _ => some 44)).run overlapSchedule).saved 0 = [] := by decide

/-- The seeded variant (a process-wide nesting counter) is refuted on that very schedule:
thread 1's read runs under the comma radix. -/
theorem C15T_counter_variant_breaks :
    ((MTLocaleCounted.run ⟨MTLocale.idle 44 (fun _ => some 44), 0⟩ (overlapSchedule.take 2)).base.effective 1) = 44 := by decide

end Libconfig.C15T
