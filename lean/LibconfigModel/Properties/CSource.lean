import LibconfigModel.Proofs.CSource
/-
  The scalar accessors of lib/libconfig.c, translated from clang's typed AST on
  every run (`Generated/CSource.lean`), executed by the C-subset semantics of
  `CSrc.lean`, refine the hand-written model functions of `Api.lean` — for
  every setting, every stored bit pattern of the `value` union, every option
  word and every argument.  These are the conversion rules of property C07
  (and the format rules C05/C19 rely on) stated about the SOURCE rather than
  about a model tied to it by sampling: a change of one of these function
  bodies that changes behaviour makes the corresponding theorem fail to check.
-/
namespace Libconfig.CSrc
open Libconfig.Generated.CSource

/-! ### nothing was left untranslated -/

theorem CS_translated : (all.map (fun f => f.body.hasBad)) = all.map (fun _ => false) := by decide

theorem CS_inventory : all.map (·.name) =
    ["__config_setting_get_int", "__config_setting_get_int64", "__config_setting_get_float",
     "config_setting_set_int", "config_setting_set_int64", "config_setting_set_float",
     "config_setting_get_bool", "config_setting_set_bool",
     "config_setting_set_format", "config_setting_get_format",
     "config_setting_is_scalar", "config_setting_is_aggregate", "__config_type_is_scalar",
     "config_get_option", "config_set_option", "config_set_options", "config_get_options",
     "config_set_tab_width", "config_get_tab_width",
     "config_set_float_precision", "config_get_float_precision",
     "__config_list_checktype", "config_setting_length"] := by decide

/-! ### getters: `(ok, *value)`; a failing getter leaves `*value` alone -/

theorem CS_get_int (n : Node) (c : Config) (st : St) (h : Rep n c st) :
    exec src_config_setting_get_int.body st =
      match n.getInt (c.opt OPT_AUTOCONVERT) with
      | some v => .returned (some (.i 1)) { st with outs := upd st.outs 1 (.i v) }
      | none => retI 0 st := p_get_int n c st h

theorem CS_get_int64 (n : Node) (c : Config) (st : St) (h : Rep n c st) :
    exec src_config_setting_get_int64.body st =
      match n.getInt64 (c.opt OPT_AUTOCONVERT) with
      | some v => .returned (some (.i 1)) { st with outs := upd st.outs 1 (.i v) }
      | none => retI 0 st := p_get_int64 n c st h

theorem CS_get_float (n : Node) (c : Config) (st : St) (h : Rep n c st) :
    exec src_config_setting_get_float.body st =
      match n.getFloat (c.opt OPT_AUTOCONVERT) with
      | some b => .returned (some (.i 1)) { st with outs := upd st.outs 1 (.f b) }
      | none => retI 0 st := p_get_float n c st h

theorem CS_get_bool (n : Node) (c : Config) (st : St) (h : Rep n c st) :
    exec src_config_setting_get_bool.body st = retI n.getBool st := p_get_bool n c st h

theorem CS_get_format (n : Node) (c : Config) (st : St) (h : Rep n c st)
    (hf : n.fmt < 65536 ∧ c.defaultFormat < 65536) :
    exec src_config_setting_get_format.body st = retI (effFormat c n) st := p_get_format n c st h hf

/-! ### setters: success stores exactly the model's new setting and nothing else; failure changes nothing -/

theorem CS_set_int (n : Node) (c : Config) (st : St) (h : Rep n c st) (v : Int)
    (hv : fits32 v = true) (harg : st.vars 1 = .i v) :
    match n.setInt (c.opt OPT_AUTOCONVERT) v with
    | some n' => ∃ st', exec src_config_setting_set_int.body st = retI 1 st' ∧ Rep n' c st' ∧ Frame st st'
    | none => exec src_config_setting_set_int.body st = retI 0 st := p_set_int n c st h v hv harg

theorem CS_set_int64 (n : Node) (c : Config) (st : St) (h : Rep n c st) (v : Int)
    (hv : fits64 v = true) (harg : st.vars 1 = .i v) :
    match n.setInt64 (c.opt OPT_AUTOCONVERT) v with
    | some n' => ∃ st', exec src_config_setting_set_int64.body st = retI 1 st' ∧ Rep n' c st' ∧ Frame st st'
    | none => exec src_config_setting_set_int64.body st = retI 0 st := p_set_int64 n c st h v hv harg

theorem CS_set_float (n : Node) (c : Config) (st : St) (h : Rep n c st) (b : Nat)
    (harg : st.vars 1 = .f b) :
    match n.setFloat (c.opt OPT_AUTOCONVERT) b with
    | some n' => ∃ st', exec src_config_setting_set_float.body st = retI 1 st' ∧ Rep n' c st' ∧ Frame st st'
    | none => exec src_config_setting_set_float.body st = retI 0 st := p_set_float n c st h b harg

theorem CS_set_bool (n : Node) (c : Config) (st : St) (h : Rep n c st) (v : Int)
    (hv : fits32 v = true) (harg : st.vars 1 = .i v) :
    match n.setBool v with
    | some n' => ∃ st', exec src_config_setting_set_bool.body st = retI 1 st' ∧ Rep n' c st' ∧ Frame st st'
    | none => exec src_config_setting_set_bool.body st = retI 0 st := p_set_bool n c st h v hv harg

theorem CS_set_format (n : Node) (c : Config) (st : St) (h : Rep n c st) (f : Nat)
    (hf : f < 65536) (harg : st.vars 1 = .i f) :
    match n.setFormat f with
    | some n' => ∃ st', exec src_config_setting_set_format.body st = retI 1 st' ∧ Rep n' c st' ∧ Frame st st'
    | none => exec src_config_setting_set_format.body st = retI 0 st := p_set_format n c st h f hf harg

/-! ### classification -/

theorem CS_type_is_scalar (st : St) (t : Int) (harg : st.vars 0 = .i t) :
    exec src_config_type_is_scalar.body st = retI (if isScalarTy t then 1 else 0) st :=
  p_type_is_scalar st t harg

theorem CS_is_scalar (n : Node) (c : Config) (st : St) (h : Rep n c st) :
    exec src_config_setting_is_scalar.body st = retI (if isScalarTy n.ty then 1 else 0) st :=
  p_is_scalar n c st h

theorem CS_is_aggregate (n : Node) (c : Config) (st : St) (h : Rep n c st) :
    exec src_config_setting_is_aggregate.body st = retI (if isAggregateTy n.ty then 1 else 0) st :=
  p_is_aggregate n c st h

/-! ### the child list: the guard of array homogeneity, and the length

Both functions dereference `setting->value.list` and `elements[0]`; the semantics answers `stuck`
for a NULL pointer or an index beyond `length`, so these equations also say that the guards in
front of those accesses are sufficient — for every setting, with a NULL list or not. -/

/-- `__config_list_checktype(setting, type)` is `checkType`: true for an empty (or NULL) list and
for a list; otherwise exactly when the FIRST child has that type. `config_setting_add`, the
`set_*_elem` appends and the grammar's array action all go through this one test (C04). -/
theorem CS_list_checktype (n : Node) (st : St) (h : RepKids n st) (t : Nat) (ht : t < 2147483648)
    (harg : st.vars 1 = .i t) :
    exec src_config_list_checktype.body st = retI (if checkType n t then 1 else 0) st :=
  p_list_checktype n st h t ht harg

theorem CS_length (n : Node) (st : St) (h : RepKids n st) :
    exec src_config_setting_length.body st = retI n.length st := p_length n st h

/-! ### configuration attributes -/

/-- the body of `config_get_option` computes what the primitive `.call .getOption`
of the semantics assumes (and what `Config.opt` says) -/
theorem CS_get_option (st : St) (k : Int) (hk : fits32 k = true) (ho : st.opts < 4294967296)
    (harg : st.vars 1 = .i k) :
    exec src_config_get_option.body st = retI (if optGet st.opts (u32 k) then 1 else 0) st :=
  p_get_option st k hk ho harg

theorem CS_set_option (c : Config) (st : St) (ho : st.opts = c.options) (hr : c.options < 4294967296)
    (k fl : Int) (hk : fits32 k = true) (harg : st.vars 1 = .i k) (hfl : st.vars 2 = .i fl) :
    exec src_config_set_option.body st =
      .normal { st with opts := (c.setOption (u32 k) (fl != 0)).options } :=
  p_set_option c st ho hr k fl hk harg hfl

theorem CS_set_options (st : St) (k : Int) (hk : fits32 k = true) (harg : st.vars 1 = .i k) :
    exec src_config_set_options.body st = .normal { st with opts := u32 k } := p_set_options st k hk harg

theorem CS_get_options (st : St) (ho : st.opts < 4294967296) :
    exec src_config_get_options.body st = retI (sint32 st.opts) st := p_get_options st ho

theorem CS_set_tab_width (c : Config) (st : St) (w : Nat) (hw : w < 65536) (harg : st.vars 1 = .i w) :
    exec src_config_set_tab_width.body st = .normal { st with tabw := (c.setTabWidth w).tabWidth } :=
  p_set_tab_width c st w hw harg

theorem CS_get_tab_width (st : St) : exec src_config_get_tab_width.body st = retI st.tabw st :=
  p_get_tab_width st

theorem CS_set_float_precision (st : St) (d : Nat) (hd : d < 65536) (harg : st.vars 1 = .i d) :
    exec src_config_set_float_precision.body st = .normal { st with prec := d } :=
  p_set_float_precision st d hd harg

theorem CS_get_float_precision (st : St) : exec src_config_get_float_precision.body st = retI st.prec st :=
  p_get_float_precision st

/-! ### the hypotheses are satisfiable, the statements are not vacuous -/

/-- what a run returned and what `*value` holds afterwards -/
def outcome : Res → Option (Int × Val)
  | .returned (some (.i k)) st => some (k, st.outs 1)
  | _ => none

/-- an INT64 setting holding 2^40, auto-conversion off: the translated
`__config_setting_get_int` refuses and leaves `*value` (7) alone, the translated
`__config_setting_get_int64` delivers 2^40 -/
example : outcome (exec src_config_setting_get_int.body
    { sty := 3, raw := 1099511627776, opts := 22, outs := fun _ => .i 7 }) = some (0, .i 7) := by decide
example : outcome (exec src_config_setting_get_int64.body
    { sty := 3, raw := 1099511627776, opts := 22, outs := fun _ => .i 7 }) = some (1, .i 1099511627776) := by decide
example : Rep { ty := T_INT64, ival := 1099511627776 } { options := 22 }
    { sty := 3, raw := 1099511627776, opts := 22, outs := fun _ => .i 7 } := by
  constructor <;> decide

/-- an array holding two ints: an int64 (type 3) is refused, an int (2) accepted; a NULL list accepts anything -/
example : outcome (exec src_config_list_checktype.body
    { sty := 7, kids := some [2, 2], vars := fun _ => .i 3, outs := fun _ => .i 7 }) = some (0, .i 7) := by decide
example : outcome (exec src_config_list_checktype.body
    { sty := 7, kids := some [2, 2], vars := fun _ => .i 2, outs := fun _ => .i 7 }) = some (1, .i 7) := by decide
example : outcome (exec src_config_list_checktype.body
    { sty := 7, kids := none, vars := fun _ => .i 3, outs := fun _ => .i 7 }) = some (1, .i 7) := by decide
example : RepKids { ty := T_ARRAY, kids := [{ ty := T_INT }, { ty := T_INT }] } { sty := 7, kids := some [2, 2] } := by
  constructor <;> simp [T_ARRAY, T_INT]

end Libconfig.CSrc
