import LibconfigModel.Generated.Constants
import LibconfigModel.WF
import LibconfigModel.Step
import LibconfigModel.Proofs.C04
/-
  C04 — the setting tree stays well-formed under every sequence of API calls.
  Statements only; helper lemmas live in LibconfigModel/Proofs/C04.lean.
-/
namespace Libconfig.C04

def isRead : Op → Bool
  | .read _ => true
  | _ => false

/-- `config_init` yields a well-formed configuration. -/
theorem C04_init : Config.init.WF := init_wf

/-- Every API operation other than a read — with arbitrary arguments, succeeding or
failing — preserves well-formedness. -/
theorem C04_step (s : State) (op : Op) (h : s.cfg.WF) (hop : isRead op = false) :
    (step s op).1.cfg.WF :=
  step_wf s op h (by rintro src rfl; simp [isRead] at hop)

/-- Every history of such operations from `config_init` ends in a well-formed state. -/
theorem C04_history (ops : List Op) (hops : ∀ op ∈ ops, isRead op = false) :
    (run ops).cfg.WF :=
  run_wf ops (by rintro op hop src rfl; simpa [isRead] using hops _ hop)

/-- The executable check used by the driver's `wf` op decides the proposition. -/
theorem C04_wfb_iff (c : Config) : c.wfb = true ↔ c.WF := cfg_wfb_iff c

/-! Query agreement: length, element-by-index and member-by-name agree with the actual
children, in order. -/

theorem C04_length (n : Node) (h : n.LocalWF) : n.length = n.kids.length := length_eq n h

theorem C04_getElem (n : Node) (h : n.LocalWF) (i : Nat) : getElem n i = n.kids[i]? := getElem_eq n h i

theorem C04_getMember (n : Node) (h : n.LocalWF) (hg : n.ty = T_GROUP) (i : Nat) (k : Node)
    (hk : n.kids[i]? = some k) (nm : Bytes) (hn : k.name = some nm) :
    getMember n nm = some (i, k) := getMember_eq n h hg i k hk nm hn

theorem C04_getMember_sound (n : Node) (nm : Bytes) (i : Nat) (k : Node)
    (h : getMember n nm = some (i, k)) : n.ty = T_GROUP ∧ n.kids[i]? = some k ∧ k.name = some nm :=
  getMember_sound n nm i k h

/-- Non-vacuity: a concrete non-trivial configuration (a group with an int, an array of
two ints and a list holding a string and a nested group) is well-formed. -/
def sample : Config :=
  { root := { ty := T_GROUP, kids := [
      { name := some [97], ty := T_INT, ival := 1 },
      { name := some [98], ty := T_ARRAY, kids := [{ ty := T_INT, ival := 1 }, { ty := T_INT, ival := 2 }] },
      { name := some [99], ty := T_LIST, kids := [{ ty := T_STRING, sval := some [120] },
          { ty := T_GROUP, kids := [{ name := some [100], ty := T_BOOL, ival := 1 }] }] } ] } }

example : sample.WF := (C04_wfb_iff sample).mp (by decide)

/-- Bridge: the type codes the model uses are the ones of lib/libconfig.h as evaluated by the C
compiler on this run. -/
theorem C04_type_codes :
    Generated.CONFIG_TYPE_NONE = T_NONE ∧ Generated.CONFIG_TYPE_GROUP = T_GROUP ∧ Generated.CONFIG_TYPE_INT = T_INT ∧
    Generated.CONFIG_TYPE_INT64 = T_INT64 ∧ Generated.CONFIG_TYPE_FLOAT = T_FLOAT ∧ Generated.CONFIG_TYPE_STRING = T_STRING ∧
    Generated.CONFIG_TYPE_BOOL = T_BOOL ∧ Generated.CONFIG_TYPE_ARRAY = T_ARRAY ∧ Generated.CONFIG_TYPE_LIST = T_LIST := by decide

end Libconfig.C04
