import LibconfigModel.WF
namespace Libconfig.C04
end Libconfig.C04
