import LibconfigModel.Properties.C20
import LibconfigModel.Proofs.C20File
/-
  C20 (continued) — the file entry point gives the same result as the string/stream entry
  points on the same bytes: same success, same configuration, same error message and line;
  only the reported file names differ.  Statements only; helper lemmas live in
  LibconfigModel/Proofs/C20File.lean.
-/
namespace Libconfig.C20

mutual
/-- forget where settings were read from -/
def eraseNodeFiles : Node → Node
  | .mk name ty fmt ival fval sval kids hook line _ =>
    .mk name ty fmt ival fval sval (eraseListFiles kids) hook line none
def eraseListFiles : List Node → List Node
  | [] => []
  | k :: ks => eraseNodeFiles k :: eraseListFiles ks
end

/-- a configuration with every file name forgotten (settings' source files, the error file,
the list of file names owned by the configuration) -/
def eraseFiles (c : Config) : Config :=
  { c with root := eraseNodeFiles c.root, errFile := none, filenames := [] }

mutual
/-- the erasure used by the helper lemmas is this one -/
theorem eraseNodeFiles_eq : ∀ n : Node, eraseNodeFiles n = C20FP.eraseNode n
  | .mk _ _ _ _ _ _ kids _ _ _ => by
    rw [eraseNodeFiles, C20FP.eraseNode, eraseListFiles_eq kids]
theorem eraseListFiles_eq : ∀ ks : List Node, eraseListFiles ks = C20FP.eraseList ks
  | [] => by rw [eraseListFiles, C20FP.eraseList]
  | k :: ks => by
    rw [eraseListFiles, C20FP.eraseList, eraseNodeFiles_eq k, eraseListFiles_eq ks]
end

theorem eraseFiles_eq (c : Config) : eraseFiles c = C20FP.eraseCfg c := by
  unfold eraseFiles C20FP.eraseCfg
  rw [eraseNodeFiles_eq]

/-- Reading a file is reading its content as a stream, up to file names: same result, same
settings (types, names, values, formats, source LINES), same error type, text and line. -/
theorem C20_file_stream (w : World) (c : Config) (p s : Bytes) (fuel : Nat) (h : w.open? p = some s) :
    (read w c (.file p) fuel).ok = (read w c (.stream s) fuel).ok ∧
    (read w c (.file p) fuel).result = (read w c (.stream s) fuel).result ∧
    eraseFiles (read w c (.file p) fuel).cfg = eraseFiles (read w c (.stream s) fuel).cfg := by
  rw [eraseFiles_eq, eraseFiles_eq]
  exact C20FP.file_stream w c p s fuel h

/-- and therefore (with `C20_string_stream`) all three entry points agree on a NUL-free text -/
theorem C20_three_entries (w : World) (c : Config) (p s : Bytes) (fuel : Nat) (h : w.open? p = some s)
    (hs : ∀ b ∈ s, b ≠ 0) :
    eraseFiles (read w c (.file p) fuel).cfg = eraseFiles (read w c (.string s) fuel).cfg ∧
    (read w c (.file p) fuel).ok = (read w c (.string s) fuel).ok := by
  rw [C20_string_stream w c s fuel hs]
  have h3 := C20_file_stream w c p s fuel h
  exact ⟨h3.2.2, h3.1⟩

end Libconfig.C20
