import LibconfigModel.Proofs.C03
import LibconfigModel.Proofs.C03Tables
import LibconfigModel.Proofs.C03Lex
import LibconfigModel.Proofs.C03Parse
import LibconfigModel.Proofs.C03States
import LibconfigModel.ReadFault
import LibconfigModel.Properties.C04Read
/-
  C03 — reading arbitrary bytes is memory-safe, terminates and never kills the
  process.  PARTIAL: what follows is the part of the property that is logic.

  * no stray output: flex's default rule (ECHO, the only action that writes to the
    program's stdout) is never executed, for any bytes, through any include files;
  * no process exit: the outcome type of a read has no "exit" case (the one path to
    flex's `exit(2)`, `@include` of a directory, was repaired in scanctx.c and the
    model refuses directories in `World.open?`); every scanner and parser action is
    recognised; `crash` can only come out of a semantic action;
  * every access of the generated flex and bison tables that the skeleton loops make
    is in range and the flex default chain ends within its fuel — by kernel
    evaluation over the tables re-translated from scanner.c / grammar.c on every run;
  * bounded recursion: the parser stack never exceeds YYMAXDEPTH (10000) entries and
    reaching the limit ends the parse with "memory exhausted";
  * container arithmetic of strbuf.c, strvec.c, the child vectors and
    `libconfig_format_double`: every store is inside its allocation, for every
    sequence of operations, parametric in the chunk constants;
  * termination: every match consumes at least one byte; without readable include
    files `yylex` needs at most (bytes left + 1) iterations.

  Out-of-bounds / use-after-free / leaks in the C code itself (flex buffer pointer
  arithmetic, `memmove`, `realloc` results, `isalpha` on `char`) are NOT decided here;
  `tools/props_c03.py` observes them with ASan/UBSan/LSan on the real library —
  validation, not proof.
-/
namespace Libconfig.C03

open Libconfig Libconfig.C03P Libconfig.Containers

/-! ## 1. No stray output: ECHO is never executed -/

/-- among the translated scanner actions only rule 48 (flex's default rule) is ECHO … -/
theorem C03_echo_only_default : ∀ r, r < Generated.scanActions.length →
    Generated.scanActions.getD r .unknown = .echo → r = 48 := by decide

/-- … and `yylex` never reports it: for every fuel, every world whose readable files hold
bytes, every scan state whose buffers hold bytes (`ScanOK`: start condition one of the five of
scanner.l; current buffer and every parent buffer on the include stack are bytes).  The
invariant is preserved, so this holds for every later call as well. -/
theorem C03_no_echo (w : World) (hw : WorldOK w) (ic : IncludeCfg) (fuel : Nat) (s : ScanState)
    (hs : ScanOK s) :
    (∀ b, (yylex Generated.scanner Generated.scanActions w ic fuel s).2 ≠ .echo b) ∧
    ScanOK (yylex Generated.scanner Generated.scanActions w ic fuel s).1 :=
  ⟨yylex_no_echo w hw ic fuel s hs, yylex_scanOK w hw ic fuel s hs⟩

/-- A read — from a string, a stream or a file, with any include files — never ends in the
`echo` outcome. -/
theorem C03_read_no_echo (w : World) (hw : WorldOK w) (c : Config) (src : Source)
    (hs : SourceOK src) (fuel : Nat) (b : Nat) : (read w c src fuel).result ≠ .echo b :=
  read_no_echo w hw c src hs fuel b

/-! ## 2. No process exit; where `crash` can come from -/

/-- The outcomes of a read.  There is no "the process exited" case: the model of
`libconfig_scanctx_next_include_file` refuses a directory (it is not readable in
`World.open?`), as the repaired C code does, so flex's `YY_FATAL_ERROR` → `exit(2)` on a
failing `fread` is not reachable. -/
theorem C03_outcomes (w : World) (c : Config) (src : Source) (fuel : Nat) :
    (read w c src fuel).result = .accept ∨ (read w c src fuel).result = .abort ∨
    (read w c src fuel).result = .exhausted ∨ (read w c src fuel).result = .crash ∨
    (∃ b, (read w c src fuel).result = .echo b) ∨ (read w c src fuel).result = .outOfFuel := by
  cases (read w c src fuel).result
  · exact .inl rfl
  · exact .inr (.inl rfl)
  · exact .inr (.inr (.inl rfl))
  · exact .inr (.inr (.inr (.inl rfl)))
  · exact .inr (.inr (.inr (.inr (.inl ⟨_, rfl⟩))))
  · exact .inr (.inr (.inr (.inr (.inr rfl))))

/-! ### a failing `fread` is an ordinary failure

flex's default `YY_INPUT` calls `YY_FATAL_ERROR` → `exit(2)` with a message on stderr when a
read from the input stream fails (`config_read` on a stream opened on a directory,
`config_read_file` / `@include` of a file whose read fails).  The repaired scanner.l overrides
it; the translator checks on every run that scanner.c carries the override and that
`__config_read` turns the recorded failure into the I/O error (`inputErrorHandled`).  The
model of such a read is `ReadFault.lean`. -/

theorem C03_input_override : Generated.inputErrorHandled = true := by decide

/-- A read during which a stream fails — the caller's stream after delivering any bytes, the
top-level file or an included file — returns failure with the whole file-I/O error record
(the outcome is a return value like any other: no exit), and leaves the tree that the
parser built from what was delivered. -/
theorem C03_failing_read (r : ReadOut) :
    (failRead r).ok = false ∧ (failRead r).cfg.errType = ERR_FILE_IO ∧
    (failRead r).cfg.errText = some (bytesOfString "file I/O error") ∧
    (failRead r).cfg.errFile = none ∧ (failRead r).cfg.errLine = 0 ∧
    (failRead r).cfg.root = r.cfg.root ∧ (failRead r).result = r.result ∧
    (failRead r).events = r.events ∧ (failRead r).dtorLog = r.dtorLog :=
  ⟨rfl, rfl, by show some Generated.IO_ERROR_TEXT = _; decide +kernel, rfl, rfl, rfl, rfl, rfl, rfl⟩

/-- … and the configuration left behind is well-formed, hence usable by every operation
(`C04_read` carries over: the error record is not part of the invariant). -/
theorem C03_failing_stream_wf (w : World) (c : Config) (delivered : Bytes) (fuel : Nat) (h : c.WF) :
    (readFailingStream w c delivered fuel).cfg.WF := by
  have h' := Libconfig.C04.C04_read w c (.stream delivered) fuel h
  exact ⟨h'.1, h'.2, h'.3⟩

theorem C03_failing_file_wf (w : World) (c : Config) (src : Source) (path delivered : Bytes) (fuel : Nat)
    (h : c.WF) : (readWithFailingFile w c src path delivered fuel).cfg.WF := by
  have h' := Libconfig.C04.C04_read (w.truncate path delivered) c src fuel h
  exact ⟨h'.1, h'.2, h'.3⟩

/-- the read returns success exactly for `accept`; every other outcome is a plain failure
return -/
theorem C03_ok_iff_accept (w : World) (c : Config) (src : Source) (fuel : Nat) :
    (read w c src fuel).ok = true ↔ (read w c src fuel).result = .accept := by
  have core : ∀ fn inp, (readCore w c fn inp fuel).ok = true ↔
      (readCore w c fn inp fuel).result = .accept := by
    intro fn inp
    rw [C09P.readCore_ok, C09P.readCore_result]
    exact beq_iff_eq
  unfold read
  split
  · exact core _ _
  · exact core _ _
  · split
    · simp
    · exact core _ _

/-- every action of the generated scanner (rules 1 … 48, and the shared `<<EOF>>` action) and
of the generated parser (rules 0 … 41, and the helper macros they use) was recognised by the
translator: no `.unknown` entry, which is what `runAction` turns into `crash` and `yylex` into
a refusal -/
theorem C03_actions_known :
    (∀ r, r < 49 → 1 ≤ r → Generated.scanActions.getD r .unknown ≠ .unknown) ∧
    Generated.scanActions.length = Generated.scanner.numRules + 1 ∧
    Generated.scanner.eofActionKnown = true ∧
    (∀ r, r < 42 → Generated.parseActions.getD r .unknown ≠ .unknown) ∧
    Generated.parseActions.length = Generated.parser.nrules + 1 ∧
    Generated.parseHelpersKnown = true := by decide

/-- `crash` (the model's marker for "the C code would dereference NULL here") can only be the
result of a semantic action: the skeleton has no crashing exit of its own along a run
(the stack is never empty, a lookahead is always present when it is used). -/
theorem C03_crash_only_from_actions (E : ParserEnv) (fuel : Nat) (s : ScanState) (ctx : ParseCtx)
    (h : (yyparse E fuel s ctx).2.2 = .crash) :
    ∃ rule c v line file c', runAction (E.acts.getD rule .unknown) c v line file = .crash c' := by
  obtain ⟨Y, hr, hfin⟩ := yyparseLoop_final E fuel (initial s ctx)
  have hres : yyparseLoop E fuel (initial s ctx).stack (initial s ctx).la (initial s ctx).s
      (initial s ctx).ctx = yyparse E fuel s ctx := rfl
  rw [hres] at hfin
  rcases hfin with hstep | hout
  · have hstep' : yystep E Y = .inl ((yyparse E fuel s ctx).1, (yyparse E fuel s ctx).2.1, .crash) := by
      rw [hstep, ← h]
    rcases yystep_crash E Y _ _ hstep' with hempty | ⟨rule, c, v, line, file, hc⟩
    · exact absurd hempty (reach_stack E s ctx Y hr).1
    · exact ⟨rule, c, v, line, file, _, hc⟩
  · rw [hout] at h; cases h

/-! ## 3. The generated tables: no out-of-range access, the default chain terminates -/

/-- documented shape of the scanner tables: 107 is the jam state (states are 1 … 107), there
are 55 equivalence classes (0 … 54), `yy_base`/`yy_def` have 118 entries (10 template states) -/
theorem C03_flex_shape :
    Generated.scanner.jamState = 107 ∧ Generated.scanner.metaT.len = 55 ∧
    Generated.scanner.base.len = 118 ∧ Generated.scanner.metaThreshold = 108 := by decide

/-- **flex.**  For every state 1 … 107 and every class 0 … 54, with the fuel `Flex.step`
supplies (number of `yy_base` entries + 1): every index `yy_base[s] + c` used along the
`yy_chk / yy_def / yy_meta` chase is inside `yy_chk` and `yy_nxt`, every state on the chain
indexes `yy_base` and `yy_def`, the class indexes `yy_meta` when it is translated, the state
delivered is one of 1 … 107, and the chase ends before the fuel does (`transSafe`, the
checked mirror of `Flex.trans`, is `false` in its fuel-exhausted case). -/
theorem C03_flex_bounds : ∀ s c, 1 ≤ s → s ≤ 107 → c < 55 →
    transSafe Generated.scanner (Generated.scanner.base.len + 1) s c = true := by
  have h : flexTransOK Generated.scanner 108 55 = true := by decide +kernel
  intro s c h1 hs hc
  exact flexTransOK_spec h s c h1 (by omega) hc

/-- `yy_ec` has 256 entries with classes below 55, the class of an embedded NUL is one of
them, `yy_meta` maps classes to classes, `yy_accept` has an entry for each of the states
0 … 107 and names a rule 1 … 48 or the end-of-buffer action 49 -/
theorem C03_flex_classes : flexClassesOK Generated.scanner 55 = true := by decide +kernel

/-- consequence for the matching loop: from a state of the automaton, on any byte, the step
made by `Flex.scan` delivers a state of the automaton (so the next `yy_accept`, `yy_base`,
`yy_def` accesses are in range too), and the result does not depend on the fuel: the `0`-fuel
branch of `Flex.trans` is never the one that returns -/
theorem C03_flex_step (s b : Nat) (h1 : 1 ≤ s) (hs : s ≤ 107) (hb : b < 256) :
    1 ≤ Flex.step Generated.scanner s b ∧ Flex.step Generated.scanner s b ≤ 107 ∧
    Flex.step Generated.scanner s b < Generated.scanner.accept.len ∧
    ∀ k, Flex.trans Generated.scanner (Generated.scanner.base.len + 1 + k) s
      (Flex.classOf Generated.scanner b) = Flex.step Generated.scanner s b :=
  step_safe (T := Generated.scanner) (nClasses := 55) (by decide +kernel) C03_flex_classes s b h1 hs hb

/-- the start states (1 … 10) are states of the automaton -/
theorem C03_flex_start (sc : Nat) (hsc : sc < 5) (bol : Bool) :
    1 ≤ Flex.startState sc bol ∧ Flex.startState sc bol ≤ 107 := by
  unfold Flex.startState; cases bol <;> simp <;> omega

/-- documented shape of the parser tables -/
theorem C03_lalr_shape :
    Generated.parser.nstates = 47 ∧ Generated.parser.ntokens = 23 ∧ Generated.parser.nrules = 41 ∧
    Generated.parser.last = 35 ∧ Generated.parser.maxutok = 277 := by decide

/-- **bison.**  Over the translated tables, for every state below 47 and every token kind below
23: `yypact[state]`, `yydefact[state]` exist; `yypact[state] + kind`, when within 0 … YYLAST,
indexes `yycheck` and `yytable`; a positive matching entry is a shift to a state below 47, a
non-positive one a reduction by a rule 1 … 41; the default reduction is 0 or a rule ≤ 41.
For every rule 1 … 41 and every uncovered state below 47: `yyr1`, `yyr2`, `yypgoto`,
`yydefgoto` exist, `yypgoto[lhs] + state`, when within 0 … YYLAST, indexes `yycheck` and
`yytable`, and the state pushed is below 47.  `yytranslate` has an entry for each token number
0 … 277 and yields a kind below 23.  (`actionOK`, `defactOK`, `gotoOK`, `translateOK` in
Proofs/C03Tables.lean spell out the accesses of `yyparseLoop`.) -/
theorem C03_lalr_bounds : lalrBoundsOK Generated.parser = true := by decide +kernel

theorem C03_lalr_action (state tok : Nat) (hs : state < 47) (ht : tok < 23) :
    actionOK Generated.parser state tok = true ∧ defactOK Generated.parser state = true :=
  lalrBoundsOK_action C03_lalr_bounds state tok hs ht

theorem C03_lalr_goto (rule top : Nat) (h1 : 1 ≤ rule) (hr : rule ≤ 41) (ht : top < 47) :
    gotoOK Generated.parser rule top = true :=
  lalrBoundsOK_goto C03_lalr_bounds rule top h1 hr ht

/-- whatever number `yylex` returns, `YYTRANSLATE` yields a token kind below 23 -/
theorem C03_lalr_translate (t : Nat) : translateTok Generated.parser t < 23 :=
  translateTok_lt C03_lalr_bounds t

/-- **No state shifts the `error` token** (symbol kind 1): after a syntax error bison's
`yyerrlab1` pops states until one shifts `error`; none does, so the stack is emptied and
`yyparse` returns 1 — the model's immediate `abort`. -/
theorem C03_no_error_shift (state : Nat) (hs : state < 47) :
    Generated.parser.pact.get state = Generated.parser.pactNinf ∨
    Generated.parser.pact.get state + 1 < 0 ∨
    Generated.parser.pact.get state + 1 > Generated.parser.last ∨
    Generated.parser.check.get (Generated.parser.pact.get state + 1).toNat ≠ 1 :=
  noErrorShift_spec (P := Generated.parser) (by decide +kernel) state hs

/-- **The states on the stack stay in range along every run**: every parser state pushed by
a shift or a goto is below 47, so — by `C03_lalr_bounds` — every `yypact`, `yydefact`,
`yycheck`, `yytable`, `yypgoto`, `yydefgoto` access the loop makes with it is in range. -/
theorem C03_lalr_states (w : World) (c : Config) (fuel : Nat) (s : ScanState) (ctx : ParseCtx)
    (X : PState) (h : Reach (theEnv w c fuel) (initial s ctx) X) : ∀ e ∈ X.stack, e.1 < 47 :=
  reach_states (theEnv w c fuel) C03_lalr_bounds s ctx X h

/-! ## 4. Bounded recursion: the parser stack -/

theorem C03_maxDepth : Generated.parser.maxDepth = 10000 := by decide

/-- the bytes of "memory exhausted", the text bison reports at the limit -/
def memoryExhausted : Bytes := [109, 101, 109, 111, 114, 121, 32, 101, 120, 104, 97, 117, 115, 116, 101, 100]

theorem C03_exhausted_text : Generated.ERR_EXHAUSTED = memoryExhausted := by decide

/-- **The stack bound.**  `yyparseLoop` is the iteration of the one-step function `yystep`
(`yyparseLoop_succ`); `Reach E (initial s ctx) X` are the argument tuples the loop started by
`yyparse` passes through.  Every one of them has a non-empty stack of at most 10000 entries … -/
theorem C03_stack_bounded (w : World) (c : Config) (fuel : Nat) (s : ScanState) (ctx : ParseCtx)
    (X : PState) (h : Reach (theEnv w c fuel) (initial s ctx) X) :
    X.stack ≠ [] ∧ X.stack.length ≤ 10000 := by
  have := reach_stack (theEnv w c fuel) s ctx X h
  have hd : (theEnv w c fuel).P.maxDepth = 10000 := C03_maxDepth
  rw [hd] at this
  exact ⟨this.1, by have := this.2; omega⟩

/-- … the loop is indeed that iteration … -/
theorem C03_loop_is_iteration (E : ParserEnv) (fuel : Nat) (X : PState) :
    yyparseLoop E (fuel + 1) X.stack X.la X.s X.ctx =
      match yystep E X with
      | .inl r => r
      | .inr Y => yyparseLoop E fuel Y.stack Y.la Y.s Y.ctx :=
  yyparseLoop_succ E fuel X

/-- … a step grows the stack by at most one entry and is only taken below the limit … -/
theorem C03_step_stack (w : World) (c : Config) (fuel : Nat) (X Y : PState)
    (h : yystep (theEnv w c fuel) X = .inr Y) :
    X.stack.length < 10000 ∧ Y.stack.length ≤ X.stack.length + 1 := by
  have := yystep_stack (theEnv w c fuel) X Y h
  have hd : (theEnv w c fuel).P.maxDepth = 10000 := C03_maxDepth
  rw [hd] at this
  exact ⟨this.1, this.2.1⟩

/-- … and reaching 10000 entries ends the parse at once with the outcome `exhausted`
(`yyparse` returns 2, the read fails) and the message "memory exhausted" (unless an earlier
message of the same read is already recorded: `libconfig_yyerror` keeps the first). -/
theorem C03_stack_limit (w : World) (c : Config) (fuel : Nat) (X : PState) (hne : X.stack ≠ [])
    (h : 10000 ≤ X.stack.length) :
    yystep (theEnv w c fuel) X =
      .inl (X.s, X.ctx.yyerror X.s.buf.lineno memoryExhausted, .exhausted) := by
  rw [← C03_exhausted_text]
  exact yystep_limit (theEnv w c fuel) X hne (by rw [show (theEnv w c fuel).P.maxDepth = 10000 from C03_maxDepth]; exact h)

theorem C03_exhausted_message (ctx : ParseCtx) (line : Nat) (h : ctx.cfg.errText = none) :
    (ctx.yyerror line memoryExhausted).cfg.errText =
      some memoryExhausted := by
  unfold ParseCtx.yyerror
  simp [h]

/-- conversely `exhausted` is reported only at the limit -/
theorem C03_exhausted_only_at_limit (w : World) (c : Config) (fuel : Nat) (X : PState)
    (s : ScanState) (ctx : ParseCtx) (h : yystep (theEnv w c fuel) X = .inl (s, ctx, .exhausted)) :
    10000 ≤ X.stack.length := by
  have := yystep_exhausted (theEnv w c fuel) X s ctx h
  rw [show (theEnv w c fuel).P.maxDepth = 10000 from C03_maxDepth] at this
  exact this

/-! ## 5. Container arithmetic -/

/-- the translated constants satisfy the hypotheses of the container theorems -/
theorem C03_constants :
    Generated.STRING_BLOCK_SIZE = 64 ∧ Generated.STRVEC_CHUNK_SIZE = 32 ∧
    Generated.LIST_CHUNK_SIZE = 16 ∧ 0 < Generated.STRING_BLOCK_SIZE ∧
    0 < Generated.STRVEC_CHUNK_SIZE ∧ 0 < Generated.LIST_CHUNK_SIZE ∧
    4 ≤ Generated.FLOAT_BUF_SIZE := by decide

/-- **strbuf.**  After any sequence of `append_string` / `append_char` / `release` calls on a
zeroed `strbuf_t`, with any block size `B > 0`: the capacity is a whole number of blocks and
the text with its terminating NUL lies inside it (or nothing is allocated and the length is 0);
and whatever the next operation is, all the bytes it stores (`len + 1` for `strcpy`, 2 for
`append_char`) lie inside the buffer it stores into (after its own `ensure_capacity`). -/
theorem C03_strbuf (B : Nat) (hB : 0 < B) (ops : List StrBufOp) (op : StrBufOp) :
    StrBuf.Inv B (StrBuf.run B ops) ∧
    (StrBuf.run B ops).length + op.stores ≤ ((StrBuf.run B ops).grown B op).capacity ∧
    ((StrBuf.run B ops).grown B op).length = (StrBuf.run B ops).length :=
  ⟨StrBuf.inv_run hB ops, StrBuf.stores_in_bounds hB _ op (StrBuf.inv_run hB ops), StrBuf.grown_length B _ op⟩

/-- `ensure_capacity(buf, len)` in isolation, for any state of the struct: room for `len`
characters and a NUL, never smaller than before, less than one block of slack when it grows -/
theorem C03_strbuf_ensure (B : Nat) (hB : 0 < B) (b : StrBuf) (len : Nat) :
    b.length + len + 1 ≤ (b.ensure B len).capacity ∧ b.capacity ≤ (b.ensure B len).capacity ∧
    ((b.ensure B len).capacity = b.capacity ∨ (b.ensure B len).capacity < b.length + len + 1 + B) :=
  ⟨StrBuf.ensure_room hB b len, StrBuf.ensure_mono hB b len, StrBuf.ensure_tight hB b len⟩

/-- the source computes the rounding with a mask, `(newlen + 63) & ~63`; for the block size
64 and sizes that do not wrap a 64-bit `size_t` this is the arithmetic rounding of the model -/
theorem C03_strbuf_mask (n : Nat) (h : n + 63 < 2 ^ 64) :
    roundUp Generated.STRING_BLOCK_SIZE n = (n + 63) &&& (2 ^ 64 - 64) :=
  roundUp_eq_mask n h

/-- **strvec.**  After any sequence of `append` / `release` calls on a zeroed `strvec_t`, with
any chunk `C > 0`: `length ≤ capacity`, `end` points at slot `length`, and `capacity + 1` slots
are allocated (or none and everything is 0); the store `*(vec->end) = s` of the next `append`
goes to a slot inside the allocation it stores into, and so does the `*(vec->end) = NULL` of
`release` when the vector is allocated. -/
theorem C03_strvec (C : Nat) (hC : 0 < C) (ops : List StrVecOp) :
    StrVec.Inv (StrVec.run C ops) ∧
    ((StrVec.run C ops).grown C).endIdx < ((StrVec.run C ops).grown C).slots ∧
    ((StrVec.run C ops).slots ≠ 0 → (StrVec.run C ops).endIdx < (StrVec.run C ops).slots) := by
  have hinv := StrVec.inv_run hC ops
  obtain ⟨h1, h2, h3, h4⟩ := StrVec.grown_spec hC _ hinv
  refine ⟨hinv, by omega, fun hne => ?_⟩
  have := hinv.le
  have := hinv.endAt
  rcases hinv.alloc with ⟨h0, _⟩ | h5
  · exact absurd h0 hne
  · omega

/-- **Child vectors.**  After EVERY sequence of `__config_list_add` and `__config_list_remove`
calls (removals at any valid index, in any order) on an empty list, with any chunk `C > 0`:
the allocation covers `length` rounded up to whole chunks — although `add` reallocates only
when `length % C == 0` and `remove` never shrinks — hence all `length` elements are inside
it, and the store `elements[length] = setting` of the next `add` is inside the allocation it
stores into. -/
theorem C03_childvec (C : Nat) (hC : 0 < C) (ops : List ChildOp) :
    ChildVec.Inv C (ChildVec.run C ops) ∧
    (ChildVec.run C ops).length ≤ (ChildVec.run C ops).alloc ∧
    (ChildVec.run C ops).length < ((ChildVec.run C ops).grown C).alloc :=
  ⟨ChildVec.inv_run hC ops, ChildVec.length_le_alloc hC _ (ChildVec.inv_run hC ops),
   ChildVec.add_in_bounds hC _ (ChildVec.inv_run hC ops)⟩

/-- **`libconfig_format_double`** (as modelled by `formatDouble`: `snprintf` into `buflen - 3`
bytes, then at most `.0` appended) stores at most `buflen` bytes including the NUL, for every
value, precision and notation. -/
theorem C03_format_double (bufLen : Nat) (h : 4 ≤ bufLen) (b p : Nat) (sci : Bool) :
    (formatDouble bufLen b p sci).length + 1 ≤ bufLen := by
  have := formatDouble_length bufLen b p sci
  omega

/-- … in particular with the buffer `__config_write_value` passes -/
theorem C03_format_double_fbuf (b p : Nat) (sci : Bool) :
    (formatDouble Generated.FLOAT_BUF_SIZE b p sci).length + 1 ≤ Generated.FLOAT_BUF_SIZE :=
  C03_format_double _ C03_constants.2.2.2.2.2.2 b p sci

/-! ## 6. Termination -/

/-- **Every match consumes input**: no start state of the compiled automaton is accepting, so
`Flex.next` never returns an empty match (any input, bytes or not).  Hence every iteration of
`yylex` that continues either consumes at least one byte of the current buffer, or is the
`<<EOF>>` action that pops a frame or advances it to its next file. -/
theorem C03_lex_progress (sc : Nat) (hsc : sc < 5) (bol : Bool) (inp : Bytes) (r n : Nat)
    (h : Flex.next Generated.scanner sc bol inp = some (r, n)) : 0 < n ∧ n ≤ inp.length :=
  next_pos sc hsc bol inp r n h

/-- **Fuel that suffices.**  In a world without readable files (every `@include` fails to
open — e.g. the empty world of `config_read_string` on self-contained text), `yylex` started
with an empty include stack and more fuel than there are bytes left never returns
`outOfFuel`; it leaves the include stack empty and the remaining input no longer than before,
so the same fuel suffices for every later call of the same read.  (`read` passes its `fuel`
argument to every `yylex` call; the parser loop's own fuel is a separate matter, not bounded
here.) -/
theorem C03_lex_fuel (w : World) (hw : NoFiles w) (ic : IncludeCfg) (fuel : Nat) (s : ScanState)
    (hs : ScanOK s) (hstack : s.stack = []) (hfuel : s.buf.rest.length < fuel) :
    (yylex Generated.scanner Generated.scanActions w ic fuel s).2 ≠ .outOfFuel ∧
    (yylex Generated.scanner Generated.scanActions w ic fuel s).1.stack = [] ∧
    (yylex Generated.scanner Generated.scanActions w ic fuel s).1.buf.rest.length ≤ s.buf.rest.length :=
  yylex_fuel w hw ic fuel s hs hstack hfuel

/-- the parser reports `outOfFuel` / `echo` in a step only when that very `yylex` call did -/
theorem C03_step_lex (E : ParserEnv) (X : PState) (s : ScanState) (ctx : ParseCtx)
    (h : yystep E X = .inl (s, ctx, .outOfFuel)) :
    X.la = none ∧ yylex E.T E.sacts E.w E.ic E.lexFuel X.s = (s, .outOfFuel) :=
  (yystep_lex E X s ctx .outOfFuel h).1 rfl

/-! ## non-vacuity -/

/-- the hypotheses are satisfiable: the empty world, a text with an `@include`, … -/
example : WorldOK {} := fun _ _ h => by cases h
example : NoFiles {} := fun _ => rfl
/-- `a=1;` newline `@include "x"` newline -/
example : SourceOK (.string [97, 61, 49, 59, 10, 64, 105, 110, 99, 108, 117, 100, 101, 32, 34, 120, 34, 10]) := by
  intro x hx; revert x; decide
/-- `a=(1,2);` -/
example : ScanOK { buf := { rest := [97, 61, 40, 49, 44, 50, 41, 59] } } :=
  ⟨by decide, by intro x hx; revert x; decide, by intro f hf; cases hf⟩
/-- a concrete store sequence: 70 characters then one more: 128 bytes, two blocks -/
example : StrBuf.run 64 [.appendString 70, .appendChar] = { length := 71, capacity := 128 } := by decide
/-- 17 adds, 17 removes, 1 add: the last add reallocates down to one chunk and stores at 0 -/
example : ChildVec.run 16 (List.replicate 17 .add ++ List.replicate 17 (.remove 0) ++ [.add]) =
    { length := 1, alloc := 16 } := by decide
/-- the checked chase really runs: state 1 on the class of `a` -/
example : transSafe Generated.scanner 119 1 (Flex.classOf Generated.scanner 97) = true := by decide +kernel
end Libconfig.C03
