import LibconfigModel.Generated.CFlowSource
/-
  What happens on EVERY path through the read and write entry points, decided on the control-flow
  skeletons translated from lib/libconfig.c on every run (`Generated/CFlowSource.lean`).  A statement
  here is about all paths of the real function body: both outcomes of every condition, whatever the
  called functions return.  (Paths on which one condition text is recorded with both outcomes are
  infeasible - nothing between the two evaluations assigns the variables involved - and are excluded
  by `feasible` where a statement needs it.)

  These are the control-flow halves of C09 (the error record is reset first and set on every failing
  exit), C11 (the include stack is unwound and the scanner, scan context and parse context are
  released on every exit; a stream that was opened is closed exactly once), C12 (success is reported
  only after a flush whose result was tested, a tested ferror, a tested fsync when requested and a
  tested fclose), C13/C16 (the new root exists before the old one is destroyed; arguments are copied
  before the old contents are released) and C15 (the locale is overridden once before parsing and
  restored once after it, on every exit).
-/
namespace Libconfig.CFlow
open Libconfig.Generated.CFlowSource

/-- no condition text recorded with both outcomes -/
def feasible (p : List Ev) : Bool :=
  p.all fun e => match e with
    | .yes c => !(p.contains (.no c))
    | _ => true

/-! ### `__config_read` -/

abbrev READ := traces flow_config_read_impl

def setErrNone : Ev := .s "__config_set_error(config,CONFIG_ERR_NONE,NULL)"
def setErrIO : Ev := .s "__config_set_error(config,CONFIG_ERR_FILE_IO,__io_error)"
def scanInit : Ev := .s "libconfig_scanctx_init(&scan_ctx,filename)"
def lexInit : Ev := .s "libconfig_yylex_init_extra(&scan_ctx,&scanner)"
def restart : Ev := .s "libconfig_yyrestart(stream,scanner)"
def scanString : Ev := .s "(void)libconfig_yy_scan_string(str,scanner)"
def clear : Ev := .s "config_clear(config)"
def override : Ev := .s "saved_locale=__config_locale_override()"
def restore : Ev := .s "__config_locale_restore(saved_locale)"
def parse : Ev := .s "r=libconfig_yyparse(scanner,&parse_ctx,&scan_ctx)"
def unwind : Ev := .loop "(buf=(YY_BUFFER_STATE)libconfig_scanctx_pop_include(&scan_ctx))!=NULL" ["libconfig_yy_delete_buffer(buf,scanner)"]
def lexDestroy : Ev := .s "libconfig_yylex_destroy(scanner)"
def scanCleanup : Ev := .s "config->filenames=libconfig_scanctx_cleanup(&scan_ctx)"
def parseCleanup : Ev := .s "libconfig_parsectx_cleanup(&parse_ctx)"
def readReturn : Ev := .ret "(r==0?CONFIG_TRUE:CONFIG_FALSE)"

/-- the whole body was translated, and there is one exit: the `return` at the end -/
theorem CF_read_single_exit :
    (paths flow_config_read_impl).all (fun p => p.2 && !hasOther p.1 && p.1.getLast? == some readReturn && count readReturn p.1 == 1) = true := by
  decide

/-- C15: on every path the thread locale is overridden exactly once, before the parser runs, and restored exactly once,
after it - whatever the parser and the scanner report -/
theorem CF_read_locale :
    ∀ p ∈ READ, count override p = 1 ∧ count restore p = 1 ∧ before override parse p = true ∧ before parse restore p = true := by
  decide

/-- C11: on every path the scanner, the scan context (which hands over the file names) and the parse context are
released exactly once, after the parse -/
theorem CF_read_cleanup :
    ∀ p ∈ READ, count parse p = 1 ∧ count lexDestroy p = 1 ∧ count scanCleanup p = 1 ∧ count parseCleanup p = 1 ∧
      before parse lexDestroy p = true ∧ before parse scanCleanup p = true ∧ before parse parseCleanup p = true := by
  decide

/-- C11: whenever the parser failed, the include stack is unwound (buffers deleted, files closed by the pops) before the
scanner is destroyed - also when the input error is reported instead of the parser's message -/
theorem CF_read_unwind :
    ∀ p ∈ READ, p.contains (.yes "r!=0") = true → before parse unwind p = true ∧ before unwind lexDestroy p = true := by
  decide

/-- C09: the error record is reset before anything else can fail, once -/
theorem CF_read_error_reset :
    ∀ p ∈ READ, count setErrNone p = 1 ∧ before setErrNone scanInit p = true ∧ before setErrNone clear p = true ∧
      before setErrNone parse p = true := by
  decide

/-- C03/C09: an input error seen by the scanner always ends in the I/O error record and a failing result, after whatever
the parser's failure branch recorded -/
theorem CF_read_input_error :
    ∀ p ∈ READ, p.contains (.yes "scan_ctx.input_error") = true →
      count setErrIO p = 1 ∧ before parse setErrIO p = true ∧ before setErrIO (.s "r=1") p = true ∧
      before (.s "r=1") lexDestroy p = true := by
  decide

theorem CF_read_no_input_error :
    ∀ p ∈ READ, p.contains (.no "scan_ctx.input_error") = true → count setErrIO p = 0 ∧ count (.s "r=1") p = 0 := by
  decide

/-- C16 (fix a042870): the file name (`libconfig_scanctx_init` duplicates it) and the text (`yy_scan_string` copies it)
are taken before the previous contents - which may own them - are released; and the old tree is gone before parsing -/
theorem CF_read_copy_before_clear :
    ∀ p ∈ READ, count clear p = 1 ∧ before scanInit clear p = true ∧ before lexInit clear p = true ∧ before clear parse p = true ∧
      (p.contains (.yes "stream") = true → before restart clear p = true) ∧
      (p.contains (.no "stream") = true → before scanString clear p = true) := by
  decide

/-- the entry points are `__config_read` and nothing else -/
theorem CF_read_entries :
    traces flow_config_read = [[.ret "(__config_read(config,stream,NULL,NULL))"]] ∧
    traces flow_config_read_string = [[.ret "(__config_read(config,NULL,NULL,str))"]] := by
  decide

/-! ### `config_read_file` -/

/-- The flag `ok` is 0 at its declaration (`int ret,ok=0`, an event of every path: `CF_read_file_flag`) and only the
statement `ok=1` assigns it, so `!ok` fails exactly on the paths that executed `ok=1`; other paths are infeasible. -/
def okFlag (p : List Ev) : Bool := p.contains (.s "ok=1") == p.contains (.no "!ok")

abbrev RFILE := (traces flow_config_read_file).filter (fun p => feasible p && okFlag p)

theorem CF_read_file_flag :
    ∀ p ∈ traces flow_config_read_file, p.head? = some (.s "int ret,ok=0") ∧ hasOther p = false := by
  decide

def closeStream : Ev := .s "fclose(stream)"
def callRead : Ev := .s "ret=__config_read(config,stream,filename,NULL)"

/-- C11: a stream that was opened is closed exactly once on every path; nothing is closed when `fopen` failed -/
theorem CF_read_file_close :
    ∀ p ∈ RFILE, (p.contains (.yes "stream!=NULL") = true → count closeStream p = 1) ∧
                 (p.contains (.no "stream!=NULL") = true → count closeStream p = 0) := by
  decide

/-- either the file is read (only after the directory test, and closed afterwards) or the I/O error is recorded and
the call fails -/
theorem CF_read_file_outcomes :
    ∀ p ∈ RFILE,
      (count callRead p = 1 ∧ p.contains (.no "!ok") = true ∧ before callRead closeStream p = true ∧ p.getLast? = some (.ret "(ret)") ∧ count setErrIO p = 0) ∨
      (count callRead p = 0 ∧ p.contains (.yes "!ok") = true ∧ count setErrIO p = 1 ∧ p.getLast? = some (.ret "(CONFIG_FALSE)")) := by
  decide

theorem CF_read_file_dir_test :
    ∀ p ∈ RFILE, p.contains (.s "ok=1") = true →
      p.contains (.yes "stream!=NULL") = true ∧ p.contains (.yes "fstat(fd,&statbuf)==0") = true ∧ p.contains (.yes "!S_ISDIR(statbuf.st_mode)") = true := by
  decide

/-! ### `config_write_file` (C12) -/

abbrev WFILE := (traces flow_config_write_file).filter feasible

def doWrite : Ev := .s "config_write(config,stream)"
def flushFailed : String := "(fflush(stream)!=0)||ferror(stream)"
def wantSync : String := "config_get_option(config,CONFIG_OPTION_FSYNC)"
def syncFailed : String := "posix_fsync(fd)!=0"
def closeFailed : String := "fclose(stream)!=0"

/-- success is reported only when the file was opened, everything was written, the flush succeeded AND `ferror` is clear
(tested after the write), `fsync` - when requested and applicable - succeeded, and `fclose` succeeded; in that order -/
theorem CF_write_success :
    ∀ p ∈ WFILE, p.getLast? = some (.ret "(CONFIG_TRUE)") →
      p.contains (.no "stream==NULL") = true ∧ count doWrite p = 1 ∧
      before doWrite (.no flushFailed) p = true ∧ before (.no flushFailed) (.no closeFailed) p = true ∧
      (p.contains (.yes wantSync) = true → p.contains (.yes "fd>=0") = true →
        before (.no flushFailed) (.no syncFailed) p = true ∧ before (.no syncFailed) (.no closeFailed) p = true) ∧
      count setErrNone p = 1 ∧ count setErrIO p = 0 := by
  decide

/-- every other path reports failure with the I/O error record (once) and never clears it -/
theorem CF_write_failure :
    ∀ p ∈ WFILE, p.getLast? ≠ some (.ret "(CONFIG_TRUE)") →
      p.getLast? = some (.ret "(CONFIG_FALSE)") ∧ count setErrIO p = 1 ∧ count setErrNone p = 0 ∧
      (p.contains (.yes "stream==NULL") = true ∨ p.contains (.yes flushFailed) = true ∨ p.contains (.yes syncFailed) = true ∨
       p.contains (.yes closeFailed) = true) := by
  decide

/-- an opened stream is closed exactly once on every path (as a statement or as the tested final close) -/
theorem CF_write_close :
    ∀ p ∈ WFILE, p.contains (.no "stream==NULL") = true →
      count closeStream p + count (.yes closeFailed) p + count (.no closeFailed) p = 1 := by
  decide

theorem CF_write_translated : (traces flow_config_write_file).all (fun p => !hasOther p) = true := by decide

/-! ### `config_clear`, `config_destroy` (C13, C16) -/

/-- fix 59201b9: the new root is allocated before the old one is destroyed, and installed last -/
theorem CF_clear_order :
    traces flow_config_clear =
      [[.s "config_setting_t*root=__new(config_setting_t)", .s "root->type=CONFIG_TYPE_GROUP", .s "root->config=config",
        .s "__config_setting_destroy(config->root)", .s "libconfig_strvec_delete(config->filenames)", .s "config->filenames=NULL",
        .s "config->root=root"]] := by
  decide

/-- everything the configuration owns is released, then the structure is zeroed -/
theorem CF_destroy_order :
    traces flow_config_destroy =
      [[.s "__config_setting_destroy(config->root)", .s "libconfig_strvec_delete(config->filenames)",
        .s "__delete(config->include_dir)", .s "__zero(config)"]] := by
  decide

/-! ### `config_setting_add`, `config_setting_remove_elem`: the guards in front of every structural change (C04, C05, C16) -/

abbrev ADD := traces flow_config_setting_add

def create : Ev := .s "setting=config_setting_create(parent,name,type)"
def dropOld : Ev := .s "config_setting_remove_elem(parent,config_setting_index(existing))"
def lookupExisting : Ev := .s "existing=config_setting_get_member(parent,name)"

/-- a setting is created only behind ALL the guards, each evaluated and passed, in this order: type code in range,
parent present, only scalars into arrays, the array's element type (`__config_list_checktype`, `CS_list_checktype`),
a valid name where a name is used / a name at all in a group, no namesake unless overrides are allowed -/
theorem CF_add_guards :
    ∀ p ∈ ADD, p.contains create = true →
      before (.no "(type<CONFIG_TYPE_NONE)||(type>CONFIG_TYPE_LIST)") (.no "!parent") p = true ∧
      before (.no "!parent") (.no "(parent->type==CONFIG_TYPE_ARRAY)&&!__config_type_is_scalar(type)") p = true ∧
      before (.no "(parent->type==CONFIG_TYPE_ARRAY)&&!__config_type_is_scalar(type)")
             (.no "(parent->type==CONFIG_TYPE_ARRAY)&&!__config_list_checktype(parent,type)") p = true ∧
      (p.contains (.yes "name") = true → p.contains (.no "!__config_validate_name(name)") = true) ∧
      (p.contains (.no "name") = true → p.contains (.no "parent->type==CONFIG_TYPE_GROUP") = true) ∧
      before lookupExisting (.no "(existing!=NULL)&&!config_get_option(parent->config,CONFIG_OPTION_ALLOW_OVERRIDES)") p = true ∧
      before (.no "(existing!=NULL)&&!config_get_option(parent->config,CONFIG_OPTION_ALLOW_OVERRIDES)") create p = true ∧
      count create p = 1 ∧ p.getLast? = some (.ret "(setting)") := by
  decide

/-- every refusal returns NULL having changed nothing: nothing created, nothing removed -/
theorem CF_add_refusal :
    ∀ p ∈ ADD, p.contains create = false → p.getLast? = some (.ret "(NULL)") ∧ count dropOld p = 0 := by
  decide

/-- the name passed for an array or list element is dropped BEFORE it is looked at (documented: it is ignored) -/
theorem CF_add_name_ignored :
    ∀ p ∈ ADD, p.contains (.yes "(parent->type==CONFIG_TYPE_ARRAY)||(parent->type==CONFIG_TYPE_LIST)") = true →
      (p.contains (.yes "name") = true → before (.s "name=NULL") (.yes "name") p = true) ∧
      (p.contains (.no "name") = true → before (.s "name=NULL") (.no "name") p = true) ∧
      (p.contains create = true → before (.s "name=NULL") create p = true) := by
  decide

/-- fix 6140860: the overridden member goes only AFTER its replacement exists (the name may be its own), and only then -/
theorem CF_add_override_order :
    ∀ p ∈ ADD, (p.contains dropOld = true → before create dropOld p = true ∧ p.contains (.yes "(existing!=NULL)&&(setting!=NULL)") = true) ∧
      (p.contains (.yes "(existing!=NULL)&&(setting!=NULL)") = true → count dropOld p = 1) := by
  decide

/-- `config_setting_remove_elem`: destroyed is exactly what was unlinked, behind the four guards; a refusal touches nothing -/
theorem CF_remove_elem :
    ∀ p ∈ traces flow_config_setting_remove_elem,
      (p.getLast? = some (.ret "(CONFIG_TRUE)") →
        before (.no "!parent") (.no "!config_setting_is_aggregate(parent)") p = true ∧
        before (.no "!config_setting_is_aggregate(parent)") (.no "!list") p = true ∧ before (.no "!list") (.no "idx>=list->length") p = true ∧
        before (.no "idx>=list->length") (.s "removed=__config_list_remove(list,idx)") p = true ∧
        before (.s "removed=__config_list_remove(list,idx)") (.s "__config_setting_destroy(removed)") p = true) ∧
      (p.getLast? ≠ some (.ret "(CONFIG_TRUE)") →
        p.getLast? = some (.ret "(CONFIG_FALSE)") ∧ count (.s "removed=__config_list_remove(list,idx)") p = 0 ∧
        count (.s "__config_setting_destroy(removed)") p = 0) := by
  decide

/-! ### finding settings: by name, by index, by path (C04 queries, C06) -/

def nameMatches : String := "(strlen((*found)->name)==namelen)&&!strncmp(name,(*found)->name,namelen)"

/-- `__config_list_search` hands back a child only when that child HAS a name whose length equals the requested length AND
whose bytes equal the requested ones (an exact match: no prefix in either direction); a child without a name is skipped;
a NULL list or name finds nothing -/
theorem CF_list_search :
    ∀ p ∈ traces flow_config_list_search_impl,
      (p.getLast? = some (.ret "(*found)") →
        p.contains (.no "!list||!name") = true ∧ before (.no "!(*found)->name") (.yes nameMatches) p = true ∧
        (p.contains (.yes "idx") = true → p.contains (.s "*idx=i") = true)) ∧
      (p.getLast? ≠ some (.ret "(*found)") → p.getLast? = some (.ret "(NULL)")) ∧
      (p.contains (.yes "!(*found)->name") = true → p.contains .cont = true ∧ p.contains (.yes nameMatches) = false) ∧
      hasOther p = false := by
  decide

def getElemStep : Ev := .s "found=config_setting_get_elem(found,index)"
def searchStep : Ev := .s "found=__config_list_search(found->value.list,p,(size_t)(q-p),NULL)"

/-- one step of the path walker `config_setting_lookup_const`: an index step reaches `config_setting_get_elem` only after
the bracket syntax test AND the range test (no truncation: fix 402ea9d) passed, each failure ending the whole lookup with
NULL; a name step searches the children of a GROUP only, by the exact component between separators; anything else stops
the walk; the result is NULL when text is left over or nothing was walked -/
theorem CF_lookup_step :
    ∀ p ∈ traces flow_config_setting_lookup_const,
      (p.contains getElemStep = true →
        before (.yes "*p=='['") (.s "long index=strtol(++p,&q,10)") p = true ∧
        before (.s "long index=strtol(++p,&q,10)") (.no "(q==p)||(*q!=']')") p = true ∧
        before (.no "(q==p)||(*q!=']')") (.no "(index<0)||(index>INT_MAX)") p = true ∧
        before (.no "(index<0)||(index>INT_MAX)") getElemStep p = true) ∧
      (p.contains (.yes "(q==p)||(*q!=']')") = true ∨ p.contains (.yes "(index<0)||(index>INT_MAX)") = true →
        p.getLast? = some (.ret "NULL") ∧ p.contains getElemStep = false) ∧
      (p.contains searchStep = true →
        before (.no "*p=='['") (.yes "found->type==CONFIG_TYPE_GROUP") p = true ∧ before (.yes "found->type==CONFIG_TYPE_GROUP") searchStep p = true ∧
        before (.s "const char*q=p") (.loop "*q&&!strchr(PATH_TOKENS,*q)" ["++q"]) p = true ∧
        before (.loop "*q&&!strchr(PATH_TOKENS,*q)" ["++q"]) searchStep p = true ∧ before searchStep (.s "p=q") p = true) ∧
      (p.contains (.no "found->type==CONFIG_TYPE_GROUP") = true → p.contains .brk = true ∧ p.contains searchStep = false) ∧
      (p.getLast? = some (.ret "NULL") ∨ p.getLast? = some (.ret "((*p||(found==setting))?NULL:found)")) ∧ hasOther p = false := by
  decide

/-- `config_setting_get_elem` and `config_setting_get_member`: the guards in front of the child vector -/
theorem CF_get_elem :
    ∀ p ∈ traces flow_config_setting_get_elem,
      (p.getLast? ≠ some (.ret "(NULL)") →
        p.contains (.no "!config_setting_is_aggregate(setting)") = true ∧ p.contains (.no "!list") = true ∧
        p.contains (.no "idx>=list->length") = true ∧ p.getLast? = some (.ret "(list->elements[idx])")) ∧ hasOther p = false := by
  decide

theorem CF_get_member :
    ∀ p ∈ traces flow_config_setting_get_member,
      (p.getLast? ≠ some (.ret "(NULL)") →
        p.contains (.no "setting->type!=CONFIG_TYPE_GROUP") = true ∧ p.contains (.no "!name") = true ∧
        p.getLast? = some (.ret "(__config_list_search(setting->value.list,name,strlen(name),NULL))")) ∧ hasOther p = false := by
  decide

/-- `config_setting_index`: -1 for the root; otherwise the position at which the parent's vector holds this very setting -/
theorem CF_index :
    ∀ p ∈ traces flow_config_setting_index,
      (p.contains (.yes "!setting->parent") = true → p.getLast? = some (.ret "(-1)")) ∧
      (p.getLast? = some (.ret "(i)") → p.contains (.yes "*found==setting") = true ∧ p.contains (.s "list=setting->parent->value.list") = true) ∧
      (p.getLast? = some (.ret "(i)") ∨ p.getLast? = some (.ret "(-1)")) ∧ hasOther p = false := by
  decide

/-! ### creation and the child vector (C04, C05, C13) -/

def storeChild : Ev := .s "list->elements[list->length]=setting"
def growVector : Ev := .s "list->elements=(config_setting_t**)libconfig_realloc(list->elements,(list->length+CHUNK_SIZE)*sizeof(config_setting_t*))"

/-- `__config_list_add`: the vector grows (through the checked allocator wrapper) BEFORE the child is stored, and the
length counts the child only after it is stored - an allocation failure that does not return leaves the list as it was -/
theorem CF_list_add :
    ∀ p ∈ traces flow_config_list_add_impl, p.getLast? = some (.s "list->length++") ∧ count (.s "list->length++") p = 1 ∧
      before storeChild (.s "list->length++") p = true ∧
      (p.contains (.yes "(list->length%CHUNK_SIZE)==0") = true → before growVector storeChild p = true) ∧
      (p.contains (.no "(list->length%CHUNK_SIZE)==0") = true → count growVector p = 0) := by
  decide

/-- `config_setting_create`: nothing is allocated under a parent that is not an aggregate; otherwise the new setting is
completely filled in (parent, a COPY of the name, type, config, hook, line) before it is linked into the parent's list,
which is the last thing that happens -/
theorem CF_create :
    ∀ p ∈ traces flow_config_setting_create,
      (p.contains (.yes "!config_setting_is_aggregate(parent)") = true → p.getLast? = some (.ret "(NULL)") ∧ count (.s "setting=__new(config_setting_t)") p = 0) ∧
      (p.contains (.no "!config_setting_is_aggregate(parent)") = true →
        p.getLast? = some (.ret "(setting)") ∧ (p.dropLast).getLast? = some (.s "__config_list_add(list,setting)") ∧
        before (.s "setting=__new(config_setting_t)") (.s "setting->parent=parent") p = true ∧
        before (.s "setting->name=(name==NULL)?NULL:libconfig_strdup(name)") (.s "__config_list_add(list,setting)") p = true ∧
        before (.s "setting->type=type") (.s "__config_list_add(list,setting)") p = true ∧
        before (.s "setting->config=parent->config") (.s "__config_list_add(list,setting)") p = true ∧
        before (.s "setting->hook=NULL") (.s "__config_list_add(list,setting)") p = true ∧
        (p.contains (.yes "!list") = true → before (.s "list=parent->value.list=__new(config_list_t)") (.s "__config_list_add(list,setting)") p = true)) := by
  decide

/-- the shape the five element setters share, for the type constant `ty` and the scalar setter `setter` -/
def elemSetterOK (f : Flow) (ty setter : String) : Bool :=
  (traces f).all fun p =>
    let onAggregate := Ev.no "(setting->type!=CONFIG_TYPE_ARRAY)&&(setting->type!=CONFIG_TYPE_LIST)"
    let guard := Ev.no ("!__config_list_checktype(setting," ++ ty ++ ")")
    let mk := Ev.s ("element=config_setting_create(setting,NULL," ++ ty ++ ")")
    let get := Ev.s "element=config_setting_get_elem(setting,idx)"
    let assigned := Ev.no ("!" ++ setter ++ "(element,value)")
    !hasOther p &&
    -- an element is created only for a negative index, on an array or list, behind the element-type guard for THIS type
    (!(p.contains mk) || (p.contains (.yes "idx<0") && before onAggregate guard p && before guard mk p)) &&
    -- an existing element is addressed only for a non-negative index, on an array or list
    (!(p.contains get) || (p.contains (.no "idx<0") && before onAggregate get p)) &&
    !(p.contains mk && p.contains get) &&
    -- the element is handed back only when one was created (never NULL under an array or list: `CF_create`) or an existing
    -- one was found (tested), and the setter of THIS type accepted the value
    (!(p.getLast? == some (.ret "(element)")) || ((p.contains mk || (p.contains get && p.contains (.no "!element"))) && p.contains assigned)) &&
    (p.getLast? == some (.ret "(element)") || p.getLast? == some (.ret "(NULL)"))

theorem CF_set_int_elem : elemSetterOK flow_config_setting_set_int_elem "CONFIG_TYPE_INT" "config_setting_set_int" = true := by decide
theorem CF_set_int64_elem : elemSetterOK flow_config_setting_set_int64_elem "CONFIG_TYPE_INT64" "config_setting_set_int64" = true := by decide
theorem CF_set_float_elem : elemSetterOK flow_config_setting_set_float_elem "CONFIG_TYPE_FLOAT" "config_setting_set_float" = true := by decide
theorem CF_set_bool_elem : elemSetterOK flow_config_setting_set_bool_elem "CONFIG_TYPE_BOOL" "config_setting_set_bool" = true := by decide
theorem CF_set_string_elem : elemSetterOK flow_config_setting_set_string_elem "CONFIG_TYPE_STRING" "config_setting_set_string" = true := by decide

/-! ### destruction and string ownership (C16) -/

def callDestructor : Ev := .s "setting->config->destructor(setting->hook)"
def freeSetting : Ev := .s "__delete(setting)"
def destroyKids : Ev := .s "__config_list_destroy(setting->value.list)"

/-- `__config_setting_destroy`: the registered destructor is called for the setting's hook exactly when there is a hook and
a destructor, exactly once, AFTER the children have been destroyed (post-order) and BEFORE the setting itself is freed,
which is the last thing that happens; the name is freed when there is one, the string value only of a string, the child
list only of an aggregate that has one; a NULL setting is left alone -/
theorem CF_setting_destroy :
    ∀ p ∈ traces flow_config_setting_destroy_impl,
      (p.contains (.no "setting") = true → p = [.no "setting"]) ∧
      (p.contains (.yes "setting") = true →
        p.getLast? = some freeSetting ∧ count freeSetting p = 1 ∧
        (p.contains callDestructor = true ↔ p.contains (.yes "setting->hook&&setting->config->destructor") = true) ∧
        count callDestructor p ≤ 1 ∧
        (p.contains callDestructor = true → before callDestructor freeSetting p = true) ∧
        (p.contains callDestructor = true → p.contains destroyKids = true → before destroyKids callDestructor p = true) ∧
        (p.contains destroyKids = true → p.contains (.yes "config_setting_is_aggregate(setting)") = true ∧ p.contains (.yes "setting->value.list") = true ∧
          p.contains (.no "setting->type==CONFIG_TYPE_STRING") = true) ∧
        (p.contains (.s "__delete(setting->value.sval)") = true ↔ p.contains (.yes "setting->type==CONFIG_TYPE_STRING") = true) ∧
        (p.contains (.s "__delete(setting->name)") = true ↔ p.contains (.yes "setting->name") = true)) ∧
      hasOther p = false := by
  decide

/-- `__config_list_destroy`: every element is destroyed, then the vector, then the list; a NULL list is left alone -/
theorem CF_list_destroy :
    ∀ p ∈ traces flow_config_list_destroy_impl,
      (p.contains (.yes "!list") = true → p.getLast? = some (.ret "") ∧ count (.s "__delete(list)") p = 0) ∧
      (p.contains (.no "!list") = true → p.getLast? = some (.s "__delete(list)") ∧
        (p.contains (.yes "list->elements") = true →
          before (.loop "for(p=list->elements,i=0;i<list->length;p++,i++)" ["__config_setting_destroy(*p)"]) (.s "__delete(list->elements)") p = true ∧
          before (.s "__delete(list->elements)") (.s "__delete(list)") p = true)) ∧
      hasOther p = false := by
  decide

/-- `config_setting_set_string` (fix 6140860): a mismatching setting is refused before anything is copied or freed; otherwise
the argument is COPIED first, then the old value released, then the copy installed -/
theorem CF_set_string :
    ∀ p ∈ traces flow_config_setting_set_string,
      (p.contains (.yes "setting->type!=CONFIG_TYPE_STRING") = true →
        p.getLast? = some (.ret "(CONFIG_FALSE)") ∧ count (.s "copy=(value==NULL)?NULL:libconfig_strdup(value)") p = 0 ∧
        count (.s "__delete(setting->value.sval)") p = 0 ∧ count (.s "setting->value.sval=copy") p = 0) ∧
      (p.getLast? = some (.ret "(CONFIG_TRUE)") →
        before (.s "copy=(value==NULL)?NULL:libconfig_strdup(value)") (.s "setting->value.sval=copy") p = true ∧
        (p.contains (.s "__delete(setting->value.sval)") = true →
          before (.s "copy=(value==NULL)?NULL:libconfig_strdup(value)") (.s "__delete(setting->value.sval)") p = true ∧
          before (.s "__delete(setting->value.sval)") (.s "setting->value.sval=copy") p = true)) ∧
      (p.getLast? = some (.ret "(CONFIG_TRUE)") ∨ p.getLast? = some (.ret "(CONFIG_FALSE)")) := by
  decide

theorem CF_set_include_dir :
    traces flow_config_set_include_dir =
      [[.s "char*copy=(include_dir==NULL)?NULL:libconfig_strdup(include_dir)", .s "__delete(config->include_dir)",
        .s "config->include_dir=copy"]] := by
  decide

/-! ### the locale switch itself and the writer's use of it (C15) -/

/-- writing happens between exactly one override and one restore of what that override returned -/
theorem CF_write_locale :
    traces flow_config_write =
      [[.s "config_saved_locale_t saved_locale=__config_locale_override()", .s "__config_write_setting(config,config->root,stream,0)",
        .s "__config_locale_restore(saved_locale)"]] := by
  decide

/-- the override makes a NEW locale object and switches only the calling THREAD to it (`uselocale`, never `setlocale`),
returning what the thread had; when no locale object can be made nothing is switched and 0 is returned -/
theorem CF_locale_override :
    traces flow_config_locale_override_impl =
      [[.s "locale_t loc=newlocale(LC_NUMERIC,\"C\",NULL)", .ret "(loc?uselocale(loc):(locale_t)0)"]] := by
  decide

/-- the restore reinstates exactly the saved locale (which may be LC_GLOBAL_LOCALE) and frees the temporary one that
`uselocale` hands back; after a failed override (saved = 0) it does nothing (fix 366676a) -/
theorem CF_locale_restore :
    traces flow_config_locale_restore_impl =
      [[.yes "saved", .s "locale_t loc=uselocale(saved)", .s "freelocale(loc)"], [.no "saved"]] := by
  decide

/-! ### the include stack (lib/scanctx.c): C10 depth limit, C11 release of files and lists -/

/-- the part of a path in front of the first occurrence of `e` (the whole path if there is none) -/
def upTo (e : Ev) : List Ev → List Ev
  | [] => []
  | x :: xs => if x == e then [] else x :: upTo e xs

/-- the part of a path after the first occurrence of `e` -/
def after (e : Ev) : List Ev → List Ev
  | [] => []
  | x :: xs => if x == e then xs else after e xs

abbrev PUSH := traces flow_libconfig_scanctx_push_include
abbrev NEXT := traces flow_libconfig_scanctx_next_include_file
abbrev POP := traces flow_libconfig_scanctx_pop_include
abbrev CLEANUP := traces flow_libconfig_scanctx_cleanup

def callIncludeFn : Ev := .s "files=ctx->config->include_fn(ctx->config,ctx->config->include_dir,path,error)"
def deleteFiles : Ev := .s "libconfig_strvec_delete(files)"
def pushDepth : Ev := .s "++(ctx->stack_depth)"
def callNext : Ev := .s "fp=libconfig_scanctx_next_include_file(ctx,error)"
def callPop : Ev := .s "(void)libconfig_scanctx_pop_include(ctx)"

/-- C10: the depth limit is tested before anything else happens; at the limit nothing is pushed, the include function is
not called, the error text is the documented one -/
theorem CF_push_depth_limit :
    ∀ p ∈ PUSH, p.contains (.yes "ctx->stack_depth==MAX_INCLUDE_DEPTH") = true →
      p.contains (.s "*error=err_include_too_deep") = true ∧ p.getLast? = some (.ret "(NULL)") ∧
      count callIncludeFn p = 0 ∧ count pushDepth p = 0 := by
  decide

/-- C11: whatever the include function answered (an error, an error AND a list, NULL, an empty list), a list that is not
installed in a frame is released exactly once and nothing is pushed -/
theorem CF_push_refused_list_released :
    ∀ p ∈ PUSH, p.contains (.no "ctx->stack_depth==MAX_INCLUDE_DEPTH") = true → count pushDepth p = 0 →
      count deleteFiles p = 1 ∧ p.getLast? = some (.ret "(NULL)") ∧ count (.s "frame->files=files") p = 0 := by
  decide

/-- a frame that was pushed owns the list, its file names are recorded, the first file is opened through
`next_include_file`, and when that fails the frame is popped again (which releases list and stream) -/
theorem CF_push_installed :
    ∀ p ∈ PUSH, count pushDepth p = 1 →
      count deleteFiles p = 0 ∧ before (.s "frame->files=files") pushDepth p = true ∧ before pushDepth callNext p = true ∧
      p.contains (.loop "for(f=files;*f;++f)" ["libconfig_strvec_append(&(ctx->filenames),*f)"]) = true ∧
      (p.contains (.yes "!fp") = true → before callNext callPop p = true) ∧
      (p.contains (.no "!fp") = true → count callPop p = 0) ∧ p.getLast? = some (.ret "(fp)") := by
  decide

def openNext : Ev := .s "include_frame->current_stream=fopen(*(include_frame->current_file),\"rt\")"
def closeCur : Ev := .s "fclose(include_frame->current_stream)"
def resetCur : Ev := .s "include_frame->current_stream=NULL"
def curStream : String := "include_frame->current_stream"

/-- C11: the stream of the file just finished is closed, and forgotten, BEFORE the next file is opened or the end of the
list is reported - on every path on which there was one -/
theorem CF_next_closes_previous :
    ∀ p ∈ NEXT, (upTo openNext p).contains (.yes curStream) = true →
      before (.yes curStream) closeCur (upTo openNext p) = true ∧ before closeCur resetCur (upTo openNext p) = true := by
  decide

/-- C03/C11: a file that opened but is a directory (or cannot be examined) is closed again and forgotten, and the error
is the documented one exactly on the paths that end without a stream -/
theorem CF_next_directory :
    ∀ p ∈ NEXT, p.contains (.yes "(fstat(fd,&statbuf)!=0)||S_ISDIR(statbuf.st_mode)") = true →
      before openNext closeCur (openNext :: after openNext p) = true ∧ (after openNext p).contains resetCur = true := by
  decide

theorem CF_next_error_text :
    ∀ p ∈ NEXT, (p.contains (.s "*error=err_bad_include") = true ↔ p.contains (.yes "!include_frame->current_stream") = true) ∧
      p.head? = some (.s "struct include_stack_frame*include_frame") ∧ (p.drop 1).head? = some (.s "*error=NULL") ∧
      (p.getLast? = some (.ret "(NULL)") ∨ p.getLast? = some (.ret "(include_frame->current_stream)")) := by
  decide

/-- LIFO release: a pop gives back the parent buffer after releasing the frame's list and closing its stream -/
theorem CF_pop :
    ∀ p ∈ POP, (p.contains (.yes "ctx->stack_depth==0") = true → p = [.yes "ctx->stack_depth==0", .ret "(NULL)"] ∨ p.getLast? = some (.ret "(NULL)")) ∧
      (p.contains (.no "ctx->stack_depth==0") = true →
        count (.s "frame=&(ctx->include_stack[--(ctx->stack_depth)])") p = 1 ∧ count (.s "__delete(frame->files)") p = 1 ∧
        (p.contains (.yes "frame->current_stream") = true → p.contains (.s "fclose(frame->current_stream)") = true) ∧
        p.getLast? = some (.ret "(frame->parent_buffer)")) := by
  decide

/-- the final clean-up visits every frame still on the stack: closes its stream if it has one, releases its list; then
releases the string buffer and hands over the file names -/
theorem CF_cleanup :
    ∀ p ∈ CLEANUP, p.getLast? = some (.ret "(libconfig_strvec_release(&(ctx->filenames)))") ∧
      count (.s "__delete(libconfig_strbuf_release(&(ctx->string)))") p = 1 ∧
      (p.contains (.loopIter "for(i=0;i<ctx->stack_depth;++i)") = true →
        count (.s "__delete(frame->files)") p = 1 ∧
        (p.contains (.yes "frame->current_stream") = true → p.contains (.s "fclose(frame->current_stream)") = true)) := by
  decide

theorem CF_scanctx_translated :
    (PUSH ++ NEXT ++ POP ++ CLEANUP ++ traces flow_libconfig_scanctx_init ++ traces flow_libconfig_scanctx_current_filename).all
      (fun p => !hasOther p) = true := by
  decide

/-- the file a setting or an error is attributed to: the CURRENT file of the innermost frame, the top file outside includes -/
theorem CF_current_filename :
    traces flow_libconfig_scanctx_current_filename =
      [[.yes "ctx->stack_depth>0", .ret "(*(ctx->include_stack[ctx->stack_depth-1].current_file))"],
       [.no "ctx->stack_depth>0", .ret "(ctx->top_filename)"]] := by
  decide

/-! ### the statements are not vacuous -/

example : PUSH.length = 9 ∧ NEXT.length = 29 ∧ POP.length = 3 ∧ CLEANUP.length = 3 := by decide
example : (PUSH.filter (fun p => count pushDepth p == 1)).length = 4 := by decide


example : READ.length = 8 ∧ RFILE.length = 4 ∧ WFILE.length = 9 := by decide
example : (WFILE.filter (fun p => p.getLast? == some (.ret "(CONFIG_TRUE)"))).length = 3 := by decide
example : (READ.filter (fun p => p.contains (.yes "scan_ctx.input_error"))).length = 4 := by decide

end Libconfig.CFlow
