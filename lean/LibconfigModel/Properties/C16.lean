import LibconfigModel.WF
namespace Libconfig.C16
end Libconfig.C16
