import LibconfigModel.Step
import LibconfigModel.Proofs.C16
/-
  C16 — hooks are released exactly once, when their setting is destroyed, never for a
  setting that is still alive.  Statements only; helper lemmas live in
  LibconfigModel/Proofs/C16.lean.

  `destroyLog true n` lists the non-null hooks of every setting of the subtree `n` in
  destruction order (children before their parent), so it serves as "the multiset of
  hooks currently attached to live settings".  The conservation law below says that the
  destructor log of an operation is exactly what disappears from that multiset — hence a
  hook is logged once (it cannot disappear twice), only when its setting goes away, and
  never while the setting is alive.
-/
namespace Libconfig.C16

/-- non-null hooks attached to the live settings below (and including) `n` -/
def hooks (n : Node) : List Nat := destroyLog true n

/-- operations that attach hooks or (un)register the destructor, and reads -/
def special : Op → Bool
  | .setHook .. => true
  | .setDestructor _ => true
  | .read _ => true
  | _ => false

/-- Conservation: with a destructor registered, every operation logs exactly the hooks
that leave the tree. -/
theorem C16_conservation (s : State) (op : Op) (hd : s.cfg.destructor = true)
    (hop : special op = false) :
    (hooks s.cfg.root).Perm ((step s op).2.log ++ hooks (step s op).1.cfg.root) := by
  have h := C16P.step_conserves s op (by cases op <;> first | rfl | exact hop)
  rw [hd] at h; exact h

/-- The same for reads (the old tree is destroyed, the parser attaches no hooks, an
overridden duplicate is destroyed like any other setting). -/
theorem C16_conservation_read (s : State) (src : Source) (hd : s.cfg.destructor = true) :
    (hooks s.cfg.root).Perm ((step s (.read src)).2.log ++ hooks (step s (.read src)).1.cfg.root) := by
  have h := C16P.step_read_conserves s src
  rw [hd] at h; exact h

/-- Exactly once: if the live hooks are pairwise distinct, no hook is logged twice … -/
theorem C16_once (s : State) (op : Op) (hd : s.cfg.destructor = true) (hop : special op = false)
    (hn : (hooks s.cfg.root).Nodup) : (step s op).2.log.Nodup :=
  (C16P.perm_nodup_parts (C16_conservation s op hd hop) hn).1

/-- … and never for a setting that is still alive after the operation. -/
theorem C16_alive (s : State) (op : Op) (hd : s.cfg.destructor = true) (hop : special op = false)
    (hn : (hooks s.cfg.root).Nodup) : ∀ h ∈ (step s op).2.log, h ∉ hooks (step s op).1.cfg.root :=
  (C16P.perm_nodup_parts (C16_conservation s op hd hop) hn).2.2

/-- Distinctness of the live hooks is itself preserved (so the two statements above apply
along a whole history in which `set_hook` always attaches fresh hooks). -/
theorem C16_nodup_preserved (s : State) (op : Op) (hd : s.cfg.destructor = true) (hop : special op = false)
    (hn : (hooks s.cfg.root).Nodup) : (hooks (step s op).1.cfg.root).Nodup :=
  (C16P.perm_nodup_parts (C16_conservation s op hd hop) hn).2.1

/-- Attaching a hook logs nothing. -/
theorem C16_setHook_silent (s : State) (p : Path) (h : Nat) : (step s (.setHook p h)).2.log = [] :=
  C16P.setHook_silent s p h

/-- Without a registered destructor nothing is ever logged (non-read operations). -/
theorem C16_no_destructor (s : State) (op : Op) (hd : s.cfg.destructor = false)
    (hop : ∀ src, op ≠ .read src) : (step s op).2.log = [] :=
  C16P.no_destructor s op hd hop

/-- `config_destroy` releases everything: every live hook is logged, in destruction order. -/
theorem C16_destroy (s : State) :
    (step s .destroy).2.log = destroyLog s.cfg.destructor s.cfg.root ∧
    hooks (step s .destroy).1.cfg.root = [] :=
  C16P.destroy_log s

/-- Children are destroyed before their parent. -/
theorem C16_children_first (d : Bool) (n : Node) :
    destroyLog d n = destroyLogList d n.kids ++ (if n.hook != 0 && d then [n.hook] else []) :=
  C16P.destroyLog_eq d n

/-- Removing an element logs exactly the hooks of the removed subtree. -/
theorem C16_removeElem (s : State) (p : Path) (i : Nat) (n victim : Node)
    (hn : s.cfg.root.get? p = some n) (ha : n.isAggregate = true) (hv : n.kids[i]? = some victim) :
    (step s (.removeElem p i)).2.log = destroyLog s.cfg.destructor victim :=
  C16P.removeElem_log s p i n victim hn ha hv

/-- Non-vacuity: a tree with hooks 7 (on an element) and 9 (on its list); removing the
list logs 7 then 9. -/
def sample : State :=
  { cfg := { destructor := true, root := { ty := T_GROUP, kids := [
      { name := some [97], ty := T_LIST, hook := 9, kids := [{ ty := T_INT, hook := 7 }] } ] } } }

example : (step sample (.removeElem [] 0)).2.log = [7, 9] := by decide

end Libconfig.C16
