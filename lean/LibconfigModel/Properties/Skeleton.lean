import LibconfigModel.Generated.Skeleton
/-
  The hand-written models of generated control code — Flex.lean (flex's matching loop and
  last-accepting-state backup), Scanner.lean (buffer switching), Parser.lean (bison's yyparse
  loop) — were written against one specific text of that code.  tools/translate.py compares,
  on every run, the normalised text of those parts of lib/scanner.c and lib/grammar.c
  (everything except the tables, the rule actions and YY_INPUT, which are translated
  separately) with the catalogued one.  An edit of the generated skeleton makes these
  theorems false: the models are then models of some other code, and the correspondence
  runs are what searches for a failing input.
-/
namespace Libconfig.Skeleton

theorem scanner_skeleton_known : Generated.scannerSkeletonKnown = true := by decide
theorem parser_skeleton_known : Generated.parserSkeletonKnown = true := by decide

end Libconfig.Skeleton
