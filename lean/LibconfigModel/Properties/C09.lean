import LibconfigModel.Generated.Constants
import LibconfigModel.Step
import LibconfigModel.Proofs.C09
/-
  C09 — error information always describes the most recent read or write.
  Statements only; helper lemmas live in LibconfigModel/Proofs/C09.lean.

  The strongest form of "describes the most recent call" is history independence: the
  error record after a read or write is a function of the call, the file system and the
  configuration's attributes only — not of the settings or the error record left by
  earlier calls.
-/
namespace Libconfig.C09

open Libconfig.C09P

/-- the four error fields of `config_t` -/
def errInfo (c : Config) : Nat × Option Bytes × Option Bytes × Int :=
  (c.errType, c.errText, c.errFile, c.errLine)

/-- everything else a read or write can depend on -/
def attrs (c : Config) : Nat × Option Bytes × Nat × Nat × Nat × Nat × Bool × Nat :=
  (c.options, c.includeDir, c.tabWidth, c.floatPrecision, c.defaultFormat, c.hook, c.destructor, c.includeFn)

/-- A read's error record and success do not depend on the configuration's previous
contents or previous error record. -/
theorem C09_read_independent (w : World) (c₁ c₂ : Config) (h : attrs c₁ = attrs c₂)
    (src : Source) (fuel : Nat) :
    errInfo (read w c₁ src fuel).cfg = errInfo (read w c₂ src fuel).cfg ∧
    (read w c₁ src fuel).ok = (read w c₂ src fuel).ok := by
  have hs : ∀ fn, start c₁ fn = start c₂ fn := fun fn => start_congr fn (prep_congr h)
  cases src with
  | string s => simp only [read, readCore_cfg, readCore_ok, hs, and_self]
  | stream s => simp only [read, readCore_cfg, readCore_ok, hs, and_self]
  | file path =>
    simp only [read]
    cases w.open? path with
    | none => exact ⟨rfl, rfl⟩
    | some content => simp only [readCore_cfg, readCore_ok, hs, and_self]

/-- … and when the input was actually parsed the whole resulting configuration is the same. -/
theorem C09_readCore_independent (w : World) (c₁ c₂ : Config) (h : attrs c₁ = attrs c₂)
    (filename : Option Bytes) (inp : Bytes) (fuel : Nat) :
    (readCore w c₁ filename inp fuel).cfg = (readCore w c₂ filename inp fuel).cfg := by
  rw [readCore_cfg, readCore_cfg, start_congr filename (prep_congr h)]

/-- The same for `config_write_file`. -/
theorem C09_write_independent (bufLen : Nat) (c₁ c₂ : Config) (h : attrs c₁ = attrs c₂) (io : IOFaults) :
    errInfo (writeFile bufLen c₁ io).cfg = errInfo (writeFile bufLen c₂ io).cfg ∧
    (writeFile bufLen c₁ io).ret = (writeFile bufLen c₂ io).ret := by
  have ho : c₁.options = c₂.options := congrArg (·.1) h
  unfold writeFile Config.setError Config.opt
  rw [ho]
  repeat' split
  all_goals exact ⟨rfl, rfl⟩

/-- a successful read leaves the error type at "none" -/
theorem C09_read_success (w : World) (c : Config) (src : Source) (fuel : Nat)
    (h : (read w c src fuel).ok = true) : (read w c src fuel).cfg.errType = ERR_NONE := by
  have core : ∀ fn inp, (readCore w c fn inp fuel).ok = true →
      (readCore w c fn inp fuel).cfg.errType = ERR_NONE := by
    intro fn inp h
    rw [readCore_ok, beq_iff_eq] at h
    rw [readCore_cfg, finish_errType, if_pos h, parseOf_errType, start_errType]
  cases src with
  | string s => exact core _ _ h
  | stream s => exact core _ _ h
  | file path =>
    simp only [read] at h ⊢
    cases hw : w.open? path with
    | none => rw [hw] at h; cases h
    | some content => rw [hw] at h; exact core _ _ h

/-- a failing read is reported as a parse error, or — exactly when the file cannot be
opened — as the I/O error record -/
theorem C09_read_failure (w : World) (c : Config) (src : Source) (fuel : Nat)
    (h : (read w c src fuel).ok = false) :
    (read w c src fuel).cfg.errType = ERR_PARSE ∨
    ((∃ path, src = .file path ∧ w.open? path = none) ∧
      errInfo (read w c src fuel).cfg = (ERR_FILE_IO, some Generated.IO_ERROR_TEXT, none, 0)) := by
  have core : ∀ fn inp, (readCore w c fn inp fuel).ok = false →
      (readCore w c fn inp fuel).cfg.errType = ERR_PARSE := by
    intro fn inp h
    rw [readCore_ok, beq_eq_false_iff_ne] at h
    rw [readCore_cfg, finish_errType, if_neg h]
  cases src with
  | string s => exact .inl (core _ _ h)
  | stream s => exact .inl (core _ _ h)
  | file path =>
    simp only [read] at h ⊢
    cases hw : w.open? path with
    | none => exact .inr ⟨⟨path, rfl, hw⟩, rfl⟩
    | some content => rw [hw] at h; exact .inl (core _ _ h)

/-- a read that fails in the parser (syntax error, duplicate, mismatched element, include
error, stack exhaustion) always carries a message -/
theorem C09_parse_failure_text (w : World) (c : Config) (filename : Option Bytes) (inp : Bytes) (fuel : Nat)
    (h : (readCore w c filename inp fuel).result = .abort ∨ (readCore w c filename inp fuel).result = .exhausted) :
    (readCore w c filename inp fuel).cfg.errText.isSome = true := by
  rw [readCore_result] at h
  rw [readCore_cfg, finish_errText]
  exact parseOf_text _ _ _ _ _ h

/-- the reported file is the file being scanned when the read failed (NULL for strings and
streams outside any include) -/
theorem C09_string_no_include_file (w : World) (c : Config) (inp : Bytes) (fuel : Nat)
    (h : (readCore w c none inp fuel).ok = false)
    (hs : (readCore w c none inp fuel).cfg.filenames = []) :
    (readCore w c none inp fuel).cfg.errFile = none := by
  rw [readCore_ok, beq_eq_false_iff_ne] at h
  rw [readCore_cfg, finish_filenames] at hs
  rw [readCore_cfg, finish_errFile _ h]
  have hn := parseOf_noFile w (start c none) inp fuel
  rw [ScanState.currentFilename, hn.2 hs]
  exact hn.1

/-- `config_write_file`: success ⇒ "none", failure ⇒ the I/O error record -/
theorem C09_write_result (bufLen : Nat) (c : Config) (io : IOFaults) :
    errInfo (writeFile bufLen c io).cfg =
      if (writeFile bufLen c io).ret then (ERR_NONE, none, none, 0)
      else (ERR_FILE_IO, some Generated.IO_ERROR_TEXT, none, 0) := by
  unfold writeFile Config.setError
  repeat' split
  all_goals first | rfl | contradiction

/-! Non-vacuity: two configurations with different contents and different stale error
records, same attributes -/
def stale : Config := { root := { ty := T_GROUP, kids := [{ name := some [97], ty := T_INT }] },
                        errType := ERR_PARSE, errText := some [120], errLine := 7 }
example : attrs stale = attrs Config.init := by rfl

/-- Bridge: error type codes and the I/O error text of this run's sources -/
theorem C09_constants :
    Generated.CONFIG_ERR_NONE = ERR_NONE ∧ Generated.CONFIG_ERR_FILE_IO = ERR_FILE_IO ∧ Generated.CONFIG_ERR_PARSE = ERR_PARSE ∧
    Generated.IO_ERROR_TEXT = [102, 105, 108, 101, 32, 73, 47, 79, 32, 101, 114, 114, 111, 114] := by decide

end Libconfig.C09
