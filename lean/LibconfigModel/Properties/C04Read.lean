import LibconfigModel.Properties.C04
import LibconfigModel.Properties.C02
import LibconfigModel.Proofs.C04Read
/-
  C04 (continued) — reads preserve well-formedness too, so the invariant holds along EVERY
  history of the public API.  Statements only; helper lemmas live in
  LibconfigModel/Proofs/C04Read.lean.
-/
namespace Libconfig.C04

/-- Whatever bytes are read, from whatever source, succeeding or failing (syntax error,
duplicate, mismatched element, include error, stack exhaustion, …), the configuration left
behind is well-formed. -/
theorem C04_read (w : World) (c : Config) (src : Source) (fuel : Nat) (h : c.WF) :
    (read w c src fuel).cfg.WF := C04R.read_wf w c src fuel h

/-- Every operation of the API alphabet preserves well-formedness. -/
theorem C04_step_all (s : State) (op : Op) (h : s.cfg.WF) : (step s op).1.cfg.WF := by
  cases hop : isRead op with
  | false => exact C04_step s op h hop
  | true =>
    cases op <;> simp only [isRead, Bool.false_eq_true] at hop
    case read src => exact C04_read s.world s.cfg src readFuel h

/-- Every history from `config_init` ends in a well-formed state. -/
theorem C04_history_all (ops : List Op) : (run ops).cfg.WF := by
  have key : ∀ (ops : List Op) (s : State), s.cfg.WF →
      (ops.foldl (fun s o => (step s o).1) s).cfg.WF := by
    intro ops
    induction ops with
    | nil => intro s h; exact h
    | cons o os ih =>
      intro s h
      simp only [List.foldl_cons]
      exact ih _ (C04_step_all s o h)
  exact key ops State.init C04_init

end Libconfig.C04
