import LibconfigModel.Proofs.C20BufferRun
import LibconfigModel.Proofs.C20BufferFlex
import LibconfigModel.Proofs.C20BufferSeeded
import LibconfigModel.Proofs.C20BufferReplay
import LibconfigModel.Proofs.C20BufferReplay2
import LibconfigModel.Proofs.C20BufferReplay3
/-
  C20B — the buffer refill arithmetic of the generated scanner (`yy_get_next_buffer` and
  its callers in lib/scanner.c) is index-safe, loses and duplicates no byte, and makes
  progress.  The model is `FlexBuffer.lean`; an execution is any list of `Event`s (the
  matcher consuming a token of any admissible length, or running into the end-of-buffer
  sentinel with the stream offering any number of bytes to the read), from
  `create P stream`.  All theorems are parametric in `YY_BUF_SIZE = P.B > 0` and
  `YY_READ_BUF_SIZE = P.R > 0`; `scannerParams_ok` instantiates them with the constants
  translated from scanner.c (16384 and 8192).

  Findings: none of B1–B3 is violated in a reachable state.  Three observations, proved
  below: (1) one byte of `yy_buf_size` is never used (`yy_n_chars < yy_buf_size`, `C20B_inv`),
  so a token of `YY_BUF_SIZE - 1` bytes already doubles the buffer (`replay_read3`); (2) the
  growth loop runs at most once per refill: the new size is the old one or exactly twice it
  (`C20B_progress`, field `grow`; `C20BP.growLoop_eq`); (3) the last `yyrealloc` of
  `yy_get_next_buffer` is dead code for a file-backed buffer (`C20B_extend_dead`) —
  fortunately, because taken with `yy_n_chars < 4` it would allocate fewer bytes than the two
  sentinel stores behind it need.
  The seeded change `while ( num_to_read < 0 )` is refuted by `C20B_seeded_breaks` (constants
  of scanner.c, kernel-evaluated) and `C20B_seeded_breaks_all` (all constants).

  Contents: B1 `C20B_inv`, `C20B_in_bounds` (+ `_input_room`, `_copy_room`, `_store_room`,
  `C20B_never_fatal`, `C20B_extend_dead`, `C20B_move_loop`); B2 `C20B_content`,
  `C20B_refill_invariant`, `C20B_token`, `C20B_window_prefix`; B3 `C20B_progress`,
  `C20B_eof_complete`, `C20B_size_bound`, `C20B_no_overflow(_int32)`, `C20B_no_livelock`;
  B4 `C20B_flex_step`, `C20B_flex`, `C20B_flex_many`.
-/
namespace Libconfig.C20B

open Libconfig Libconfig.FlexBuffer Libconfig.C20BP

/-- the constants of scanner.c satisfy the assumptions -/
theorem scannerParams_ok : scannerParams.OK := ⟨by decide, by decide, rfl⟩

example : scannerParams.B = 16384 ∧ scannerParams.R = 8192 := by decide

/-! ### a step-by-step replay with small constants

`YY_BUF_SIZE = 8`, `YY_READ_BUF_SIZE = 4`, fresh memory holds 9, the stream is
"abcdefghijklmnopqrst" and offers 4 bytes per read.  `view` shows `yy_ch_buf`, `yy_buf_size`,
`yy_n_chars`, `yytext_ptr`, `yy_c_buf_p` (as offsets) and what the stream still holds. -/

def P8 : Params := { B := 8, R := 4, junk := 9 }

theorem P8_ok : P8.OK := ⟨by decide, by decide, rfl⟩

def abc : Bytes := [97, 98, 99, 100, 101, 102, 103, 104, 105, 106, 107, 108, 109, 110, 111, 112, 113,
  114, 115, 116]

def view (s : State) : Bytes × Nat × Nat × Nat × Nat × Bytes :=
  (s.ch, s.bufSize, s.nChars, s.textPtr, s.cBufP, s.rest)

/-- `yy_create_buffer`: 10 bytes, the two sentinels -/
example : view (create P8 abc) = ([0, 0, 9, 9, 9, 9, 9, 9, 9, 9], 8, 0, 0, 0, abc) := by decide

/-- first refill: `num_to_read = 8 - 0 - 1 = 7`, clamped to 4 -/
example : view (run P8 [.eob 4] (create P8 abc)) =
    ([97, 98, 99, 100, 0, 0, 9, 9, 9, 9], 8, 4, 0, 0, abc.drop 4) := by decide

/-- second refill, still inside the first token: `number_to_move = 4`, `num_to_read = 3` -/
example : view (run P8 [.eob 4, .eob 4] (create P8 abc)) =
    ([97, 98, 99, 100, 101, 102, 103, 0, 0, 9], 8, 7, 0, 4, abc.drop 7) := by decide

/-- third refill: the token in progress (7 = `YY_BUF_SIZE - 1` bytes) fills the buffer,
`num_to_read = 0`: the buffer is doubled, 18 bytes are allocated, 4 more bytes are read -/
example : view (run P8 [.eob 4, .eob 4, .eob 4] (create P8 abc)) =
    ([97, 98, 99, 100, 101, 102, 103, 104, 105, 106, 107, 0, 0, 9, 9, 9, 9, 9], 16, 11, 0, 7,
      abc.drop 11) := by decide

/-- … and the accesses that refill logged: the matcher's loads up to the second sentinel, the
hold character, the move of 7 bytes, the `yyrealloc`, `YY_INPUT( &yy_ch_buf[7], …, 4 )`, the
two sentinels -/
example : (run P8 [.eob 4, .eob 4, .eob 4] (create P8 abc)).log.drop 19 =
    [.scan 10 0 9, .load 10 8, .store 10 8, .store 10 8, .copy 10 0 0 7, .realloc 10 18,
     .input 18 7 4, .store 18 11, .store 18 12] := by decide

/-- the matcher takes a token of 9 bytes: nothing moves, `yytext_ptr` advances -/
example : view (run P8 [.eob 4, .eob 4, .eob 4, .tok 9] (create P8 abc)) =
    ([97, 98, 99, 100, 101, 102, 103, 104, 105, 106, 107, 0, 0, 9, 9, 9, 9, 9], 16, 11, 9, 9,
      abc.drop 11) ∧
    (run P8 [.eob 4, .eob 4, .eob 4, .tok 9] (create P8 abc)).tokens = [abc.take 9] := by decide

/-- next refill: the 2 unscanned bytes "jk" move to the front, 4 bytes follow them -/
example : view (run P8 [.eob 4, .eob 4, .eob 4, .tok 9, .eob 100] (create P8 abc)) =
    ([106, 107, 108, 109, 110, 111, 0, 0, 105, 106, 107, 0, 0, 9, 9, 9, 9, 9], 16, 6, 0, 2,
      abc.drop 15) := by decide

/-- two more refills exhaust the stream; the next one reads nothing: `EOB_ACT_LAST_MATCH`,
`YY_BUFFER_EOF_PENDING`, `yy_c_buf_p` at the sentinel -/
example :
    view (run P8 [.eob 4, .eob 4, .eob 4, .tok 9, .eob 100, .eob 100, .eob 100] (create P8 abc)) =
      ([106, 107, 108, 109, 110, 111, 112, 113, 114, 115, 116, 0, 0, 9, 9, 9, 9, 9], 16, 11, 0, 10, []) ∧
    (run P8 [.eob 4, .eob 4, .eob 4, .tok 9, .eob 100, .eob 100, .eob 100] (create P8 abc)).status = .normal ∧
    (eobStep P8 7 (run P8 [.eob 4, .eob 4, .eob 4, .tok 9, .eob 100, .eob 100, .eob 100]
      (create P8 abc))).2 = .lastMatch ∧
    (eobStep P8 7 (run P8 [.eob 4, .eob 4, .eob 4, .tok 9, .eob 100, .eob 100, .eob 100]
      (create P8 abc))).1.status = .eofPending ∧
    (eobStep P8 7 (run P8 [.eob 4, .eob 4, .eob 4, .tok 9, .eob 100, .eob 100, .eob 100]
      (create P8 abc))).1.cBufP = 11 := by decide

/-- two tokens consume the rest; the refill after them finds nothing to move and does not
read (`YY_BUFFER_EOF_PENDING`): `EOB_ACT_END_OF_FILE`, `yyrestart` flushes the buffer; the
actions have seen the whole stream -/
example :
    (run P8 [.eob 4, .eob 4, .eob 4, .tok 9, .eob 100, .eob 100, .eob 100, .eob 7, .tok 5, .tok 6]
      (create P8 abc)).tokens = [abc.take 9, (abc.drop 9).take 5, abc.drop 14] ∧
    (eobStep P8 7 (run P8 [.eob 4, .eob 4, .eob 4, .tok 9, .eob 100, .eob 100, .eob 100, .eob 7, .tok 5,
      .tok 6] (create P8 abc))).2 = .endOfFile ∧
    (eobStep P8 7 (run P8 [.eob 4, .eob 4, .eob 4, .tok 9, .eob 100, .eob 100, .eob 100, .eob 7, .tok 5,
      .tok 6] (create P8 abc))).1.status = .new ∧
    view (eobStep P8 7 (run P8 [.eob 4, .eob 4, .eob 4, .tok 9, .eob 100, .eob 100, .eob 100, .eob 7,
      .tok 5, .tok 6] (create P8 abc))).1 =
      ([0, 0, 108, 109, 110, 111, 112, 113, 114, 115, 116, 0, 0, 9, 9, 9, 9, 9], 16, 0, 0, 0, []) := by
  decide

/-! ### the same scenario at the constants of scanner.c

8192-byte reads, a token of 16383 bytes, growth to 32768 (kernel-evaluated in
`Proofs/C20BufferReplay*.lean`; `longTok` is 16382 × `a`, `b`, `c`, `d`, 20000 × `e`). -/

example : sizes (run scannerParams [.eob 8192] (create scannerParams longTok)) =
    (16384, 8192, 0, 0, 28193) := replay_read1
example : sizes (run scannerParams [.eob 8192, .eob 8192] (create scannerParams longTok)) =
    (16384, 16383, 0, 8192, 20002) := replay_read2
example : sizes (run scannerParams [.eob 8192, .eob 8192, .eob 8192] (create scannerParams longTok)) =
    (32768, 24575, 0, 16383, 11810) := replay_read3
example : window (run scannerParams [.eob 8192, .eob 8192, .eob 8192] (create scannerParams longTok)) =
    List.replicate 16382 97 ++ [98, 99, 100] ++ List.replicate 8190 101 := replay_window3
example :
    sizes (run scannerParams [.eob 8192, .eob 8192, .eob 8192, .tok 16383, .eob 8192]
      (create scannerParams longTok)) = (32768, 16384, 0, 8192, 3618) ∧
    (window (run scannerParams [.eob 8192, .eob 8192, .eob 8192, .tok 16383, .eob 8192]
      (create scannerParams longTok))).take 3 = [99, 100, 101] ∧
    beqBytes (run scannerParams [.eob 8192, .eob 8192, .eob 8192, .tok 16383, .eob 8192]
      (create scannerParams longTok)).tokens.flatten (List.replicate 16382 97 ++ [98]) = true :=
  replay_token

/-! ## B1 — every access is in bounds -/

/-- What holds after every execution (`Inv`): the allocation is `yy_buf_size + 2` bytes,
`yy_n_chars < yy_buf_size`, `yytext_ptr ≤ yy_c_buf_p ≤ yy_n_chars`, both end-of-buffer
sentinels are in place at `[yy_n_chars]` and `[yy_n_chars + 1]` (so the matcher, which
cannot get past two NULs, loads nothing beyond `yy_n_chars + 1 < yy_buf_size + 2`), the
buffer size is `YY_BUF_SIZE · 2^j`, and every access so far was in bounds. -/
theorem C20B_inv (P : Params) (hP : P.OK) (stream : Bytes) (es : List Event) :
    Inv P (run P es (create P stream)) :=
  run_inv P hP es _ (create_inv P hP.B stream)

/-- B1.  Every load and every store of every execution — the move loop (source and
destination), the destination `[number_to_move, number_to_move + num_to_read)` handed to
`YY_INPUT`, the two sentinel stores, the hold-character load and stores of
`YY_DO_BEFORE_ACTION`, the stores of `yy_flush_buffer`, the loads of the matching loop —
lies inside the allocation that is current at that moment, and `YY_INPUT` is never asked
for fewer than one byte. -/
theorem C20B_in_bounds (P : Params) (hP : P.OK) (stream : Bytes) (es : List Event) :
    ∀ a ∈ (run P es (create P stream)).log, a.ok :=
  (C20B_inv P hP stream es).safe

/-- … spelled out for the read: `1 ≤ num_to_read` and the destination fits -/
theorem C20B_input_room (P : Params) (hP : P.OK) (stream : Bytes) (es : List Event)
    (alloc dst : Nat) (max : Int)
    (h : Access.input alloc dst max ∈ (run P es (create P stream)).log) :
    1 ≤ max ∧ (dst : Int) + max ≤ alloc :=
  C20B_in_bounds P hP stream es _ h

/-- … for the move loop -/
theorem C20B_copy_room (P : Params) (hP : P.OK) (stream : Bytes) (es : List Event)
    (alloc src dst n : Nat) (h : Access.copy alloc src dst n ∈ (run P es (create P stream)).log) :
    src + n ≤ alloc ∧ dst + n ≤ alloc :=
  C20B_in_bounds P hP stream es _ h

/-- … and for single stores (sentinels, hold character, `yy_flush_buffer`) -/
theorem C20B_store_room (P : Params) (hP : P.OK) (stream : Bytes) (es : List Event)
    (alloc idx : Nat) (h : Access.store alloc idx ∈ (run P es (create P stream)).log) :
    idx < alloc :=
  C20B_in_bounds P hP stream es _ h

/-- non-vacuity: the log of the small replay has 40 entries, among them the reads with
`num_to_read` = 4, 3, 4, 4 — all in bounds (here by evaluation, in general by the theorem) -/
example :
    (run P8 [.eob 4, .eob 4, .eob 4, .tok 9, .eob 100] (create P8 abc)).log.length = 40 ∧
    (run P8 [.eob 4, .eob 4, .eob 4, .tok 9, .eob 100] (create P8 abc)).log.filter
      (fun a => match a with | .input .. => true | _ => false) =
      [.input 10 0 4, .input 10 4 3, .input 18 7 4, .input 18 2 4] ∧
    ∀ a ∈ (run P8 [.eob 4, .eob 4, .eob 4, .tok 9, .eob 100] (create P8 abc)).log, a.ok := by decide

/-- B1 fails for the seeded change `while ( num_to_read < 0 )`: with the constants of
scanner.c, after two reads of 8192 bytes the token in progress has `YY_BUF_SIZE - 1` = 16383
bytes and fills the buffer (`replay_read2`); the third refill computes `num_to_read = 0`,
does not grow, and calls `YY_INPUT` for 0 bytes.  (`fread` then returns 0, which the scanner
takes for end of input: the 16383 bytes become a token of their own and the remaining 20002
bytes of the stream are never read — `replay_seeded`.) -/
theorem C20B_seeded_breaks :
    ¬ ∀ a ∈ (run seededParams [.eob 8192, .eob 8192, .eob 8192] (create seededParams longTok)).log,
      a.ok := by
  have h : run seededParams [.eob 8192, .eob 8192, .eob 8192] (create seededParams longTok) =
      (eobStep seededParams 8192
        (run seededParams [.eob 8192, .eob 8192] (create seededParams longTok))).1 :=
    run_snoc seededParams [.eob 8192, .eob 8192] 8192 _
  rw [h]
  exact any_zeroRead_not_safe _ replay_seeded.1

/-- The same for all constants: whatever `YY_BUF_SIZE > 0` and `YY_READ_BUF_SIZE > 0` are, the
scanner with the seeded test reaches a `YY_INPUT` for 0 bytes — on a stream of `YY_BUF_SIZE`
bytes in which the matcher finds no token end, after enough refills (each offered one byte
or more; `n + 1` of them).  The state before the last refill is one in which scanner.c would
double the buffer: `yytext_ptr` at the start, `yy_n_chars + 1 = yy_buf_size`
(`seeded_zero_read`). -/
theorem C20B_seeded_breaks_all (P : Params) (hB : 0 < P.B) (hR : 0 < P.R)
    (hT : P.test = growTestSeeded) :
    ∃ n, ¬ ∀ a ∈ (run P (List.replicate (n + 1) (.eob 1)) (create P (List.replicate P.B 97))).log,
      a.ok :=
  seeded_breaks P hB hR hT

/-- … and the consequence: end of input is reported to the matcher although the stream was
willing to deliver 8192 of its remaining 20002 bytes (compare `C20B_eof_complete`) -/
example :
    (eobStep seededParams 8192
      (run seededParams [.eob 8192, .eob 8192] (create seededParams longTok))).2 = .lastMatch ∧
    sizes (eobStep seededParams 8192
      (run seededParams [.eob 8192, .eob 8192] (create seededParams longTok))).1 =
      (16384, 16383, 0, 16383, 20002) := replay_seeded.2

/-- the same with small constants: the offending access is `YY_INPUT( &yy_ch_buf[7], …, 0 )` -/
example :
    (eobStep { P8 with test := growTestSeeded } 4
      (run { P8 with test := growTestSeeded } [.eob 4, .eob 4]
        (create { P8 with test := growTestSeeded } abc))).1.log.drop 23 =
      [.copy 10 0 0 7, .input 10 7 0, .store 10 7, .store 10 8] ∧
    ¬ (Access.input 10 7 0).ok ∧
    (eobStep { P8 with test := growTestSeeded } 4
      (run { P8 with test := growTestSeeded } [.eob 4, .eob 4]
        (create { P8 with test := growTestSeeded } abc))).2 = .lastMatch := by decide

/-- "fatal flex scanner internal error--end of buffer missed" is never raised -/
theorem C20B_never_fatal (P : Params) (hP : P.OK) (stream : Bytes) (es : List Event) (k : Nat) :
    (eobStep P k (run P es (create P stream))).2 ≠ .fatal := by
  obtain ⟨data, H⟩ := eobStep_progress P hP k _ (C20B_inv P hP stream es)
  rcases H.result with h | h | h <;> rw [h.1] <;> decide

/-- The last `yyrealloc` of `yy_get_next_buffer` (`if ( yy_n_chars + number_to_move >
yy_buf_size )`, which allocates `new_size` bytes but then needs `yy_n_chars +
number_to_move + 2`) is dead code for a file-backed buffer: from every reachable state the
function is equal to itself with that stage removed. -/
theorem C20B_extend_dead (P : Params) (hP : P.OK) (stream : Bytes) (es : List Event) (k : Nat) :
    let e := eobEnter (run P es (create P stream))
    getNextBuffer P k e =
      (sentinelStage (e.nChars - e.textPtr) (statusStage (e.nChars - e.textPtr)
          (readStage P k (e.nChars - e.textPtr) (moveStage (e.nChars - e.textPtr) e))),
        retVal (e.nChars - e.textPtr)
          (readStage P k (e.nChars - e.textPtr) (moveStage (e.nChars - e.textPtr) e))) := by
  intro e
  have h := C20B_inv P hP stream es
  have h1 : (run P es (create P stream)).nChars + 1 < (run P es (create P stream)).ch.length := by
    have := h.alloc; have := h.room; omega
  have h2 := Nat.le_trans h.text h.cur
  have E := eobEnter_spec _ h1 h2
  exact getNextBuffer_no_extend P hP k e {
    alloc := by rw [E.ch, E.bufSize]; exact h.alloc
    room := by rw [E.nChars, E.bufSize]; exact h.room
    text := by rw [E.nChars, E.textPtr]; exact h2
    cur := by rw [E.cBufP, E.nChars] }

/-- Why it matters that this code is dead: taken with `yy_n_chars < 4` it allocates
`yy_n_chars + number_to_move + (yy_n_chars >> 1)` bytes, fewer than the
`yy_n_chars + number_to_move + 2` that the sentinel stores behind it need.  Here, from an
(unreachable) state with `yy_buf_size = 8`, `yy_n_chars = 1`, `number_to_move = 8`:
9 bytes are allocated and the sentinels go to `[9]` and `[10]`. -/
example :
    (sentinelStage 8 (extendStage P8 8
      { ch := List.replicate 10 7, bufSize := 8, nChars := 1, textPtr := 0, cBufP := 0, holdChar := 0,
        status := .normal, rest := [] })).log = [.realloc 10 9, .store 9 9, .store 9 10] := by decide

/-- non-vacuity of `C20B_move_loop`: an overlapping move of 4 bytes by 2 -/
example : copyLoop 4 0 2 [1, 2, 3, 4, 5, 6, 7] = [3, 4, 5, 6, 5, 6, 7] := by decide

/-- The byte loop `for ( i = 0; i < number_to_move; ++i ) *(dest++) = *(source++)` is a
correct overlapping move (the model's `moveFront`): `dest = yy_ch_buf ≤ source`. -/
theorem C20B_move_loop (ch : Bytes) (src n : Nat) (h : src + n ≤ ch.length) :
    copyLoop n 0 src ch = moveFront ch src n :=
  copyLoop_eq_moveFront ch src n h

/-! ## B2 — nothing lost, nothing duplicated -/

/-- B2.  After every execution, the texts handed to the rule actions, followed by the text
still to be scanned (`pending` = the window from `yytext_ptr` to the sentinel, then what the
stream has not delivered), are exactly the stream — across moves, growth and refills. -/
theorem C20B_content (P : Params) (hP : P.OK) (stream : Bytes) (es : List Event) :
    (run P es (create P stream)).tokens.flatten ++ pending (run P es (create P stream)) = stream := by
  have := run_seen P hP es _ (create_inv P hP.B stream)
  rw [seen_create] at this
  exact this

/-- non-vacuity: in the middle of the small replay one token has been delivered, 6 bytes are in
the window (2 moved, 4 read) and 5 are still in the stream -/
example :
    (run P8 [.eob 4, .eob 4, .eob 4, .tok 9, .eob 100] (create P8 abc)).tokens.flatten = abc.take 9 ∧
    window (run P8 [.eob 4, .eob 4, .eob 4, .tok 9, .eob 100] (create P8 abc)) = (abc.drop 9).take 6 ∧
    (run P8 [.eob 4, .eob 4, .eob 4, .tok 9, .eob 100] (create P8 abc)).rest = abc.drop 15 := by decide

/-- The abstraction function is invariant under the end-of-buffer action (refill) … -/
theorem C20B_refill_invariant (P : Params) (hP : P.OK) (stream : Bytes) (es : List Event) (k : Nat) :
    pending (eobStep P k (run P es (create P stream))).1 = pending (run P es (create P stream)) ∧
    (eobStep P k (run P es (create P stream))).1.tokens = (run P es (create P stream)).tokens :=
  eobStep_pending P hP k _ (C20B_inv P hP stream es)

/-- … and decreases only by consumption: a token of `l` bytes is the first `l` bytes of
the text still to be scanned, and exactly these are removed. -/
theorem C20B_token (P : Params) (hP : P.OK) (stream : Bytes) (es : List Event) (l : Nat)
    (hv : (run P es (create P stream)).textPtr + l ≤ (run P es (create P stream)).nChars) :
    ∃ t, (tokStep l (run P es (create P stream))).tokens = (run P es (create P stream)).tokens ++ [t] ∧
      t = (pending (run P es (create P stream))).take l ∧ t.length = l ∧
      pending (tokStep l (run P es (create P stream))) = (pending (run P es (create P stream))).drop l := by
  obtain ⟨t, h1, h2, h3⟩ := tokStep_pending P l _ (C20B_inv P hP stream es) hv
  refine ⟨t, h1, ?_, h2, ?_⟩
  · rw [h3, ← h2, List.take_left]
  · rw [h3, ← h2, List.drop_left]

/-- what the matcher can look at — the bytes from `yytext_ptr` up to the sentinel — is a
prefix of the text still to be scanned -/
theorem C20B_window_prefix (P : Params) (hP : P.OK) (stream : Bytes) (es : List Event) :
    window (run P es (create P stream)) =
      (pending (run P es (create P stream))).take
        ((run P es (create P stream)).nChars - (run P es (create P stream)).textPtr) := by
  rw [← length_window P _ (C20B_inv P hP stream es)]
  unfold pending
  rw [List.take_left]

/-! ## B3 — progress -/

/-- B3.  One end-of-buffer action from any reachable state, with the stream offering `k`
bytes: the read delivers `data`, the next bytes of the stream, and appends them to the
window; the result is `EOB_ACT_CONTINUE_SCAN` with at least one new byte for the matcher,
or `EOB_ACT_LAST_MATCH` (nothing read, a token in progress; the buffer becomes
`YY_BUFFER_EOF_PENDING`), or `EOB_ACT_END_OF_FILE` (nothing read, nothing in progress).
A stream that has bytes and offers some always delivers some (this needs `num_to_read ≥
1`), so end of input is reported only for a reason.  The buffer grows only when the token
in progress fills it, and then it doubles. -/
theorem C20B_progress (P : Params) (hP : P.OK) (stream : Bytes) (es : List Event) (k : Nat) :
    ∃ data, Progress k (run P es (create P stream)) (eobStep P k (run P es (create P stream))).1
      (eobStep P k (run P es (create P stream))).2 data :=
  eobStep_progress P hP k _ (C20B_inv P hP stream es)

/-- No premature end of input: if the stream never fails (every read of the execution is
offered at least one byte), a refill that does not continue the scan happens only when
the stream is exhausted; `EOB_ACT_END_OF_FILE` then means that every byte of the stream has
been handed to the rule actions. -/
theorem C20B_eof_complete (P : Params) (hP : P.OK) (stream : Bytes) (es : List Event)
    (hw : Willing es) (k : Nat) (hk : 1 ≤ k) :
    ((eobStep P k (run P es (create P stream))).2 ≠ .continueScan →
      (run P es (create P stream)).rest = []) ∧
    ((eobStep P k (run P es (create P stream))).2 = .endOfFile →
      (run P es (create P stream)).tokens.flatten = stream) := by
  have hinv := C20B_inv P hP stream es
  have heof := run_eofOK P hP es hw _ (create_inv P hP.B stream) (create_eofOK P stream)
  obtain ⟨data, H⟩ := eobStep_progress P hP k _ hinv
  have h1 : (eobStep P k (run P es (create P stream))).2 ≠ .continueScan →
      (run P es (create P stream)).rest = [] := fun hne => by
    rcases H.dry hne with h | h | h
    · exact heof h
    · omega
    · exact h
  refine ⟨h1, fun he => ?_⟩
  have hc := C20B_content P hP stream es
  rcases H.result with h | h | h
  · rw [he] at h; exact absurd h.1 (by decide)
  · rw [he] at h; exact absurd h.1 (by decide)
  · have hr := h1 (by rw [he]; decide)
    unfold pending at hc
    rw [h.2.2.1, hr] at hc
    simpa using hc

/-- The size of the buffer: `YY_BUF_SIZE · 2^j`, never more than `YY_BUF_SIZE` or twice
(the length of the stream + 1); hence at most `log2 ((length + 1) / YY_BUF_SIZE) + 1`
growth steps. -/
theorem C20B_size_bound (P : Params) (hP : P.OK) (stream : Bytes) (es : List Event) :
    ∃ j, (run P es (create P stream)).bufSize = P.B * 2 ^ j ∧
      (run P es (create P stream)).bufSize ≤ max P.B (2 * (stream.length + 1)) ∧
      j ≤ ((stream.length + 1) / P.B).log2 + 1 := by
  have hinv := C20B_inv P hP stream es
  obtain ⟨j, hj⟩ := hinv.size
  have hb : (run P es (create P stream)).bufSize ≤ max P.B (2 * (stream.length + 1)) :=
    run_sizeOK P hP es _ (create_inv P hP.B stream) stream.length
      (by rw [seen_create]; exact Nat.le_refl _) (Nat.le_max_left _ _)
  refine ⟨j, hj, hb, ?_⟩
  cases j with
  | zero => omega
  | succ i =>
    have hB := hP.B
    rw [hj] at hb
    have hpow : 2 ^ (i + 1) = 2 * 2 ^ i := by rw [Nat.pow_succ]; omega
    have h2 : 1 ≤ 2 ^ i := Nat.one_le_two_pow
    have hlt : P.B < P.B * 2 ^ (i + 1) := by
      rw [hpow]
      calc P.B < P.B * 2 := by omega
        _ ≤ P.B * (2 * 2 ^ i) := Nat.mul_le_mul_left _ (by omega)
    have h3 : P.B * 2 ^ (i + 1) ≤ 2 * (stream.length + 1) := by
      rcases Nat.le_total P.B (2 * (stream.length + 1)) with hm | hm
      · rwa [Nat.max_eq_right hm] at hb
      · rw [Nat.max_eq_left hm] at hb; omega
    have h4 : 2 ^ i * P.B ≤ stream.length + 1 := by
      rw [hpow] at h3
      have : P.B * (2 * 2 ^ i) = 2 * (2 ^ i * P.B) := by ac_rfl
      omega
    have h5 : 2 ^ i ≤ (stream.length + 1) / P.B := (Nat.le_div_iff_mul_le hB).mpr h4
    have h6 : (stream.length + 1) / P.B ≠ 0 := by omega
    have := (Nat.le_log2 h6).mpr h5
    omega

/-- The no-overflow assumption made explicit: if twice (the length of the stream + 1) and
`YY_BUF_SIZE` fit in an `int` (largest value `M`), then every `yy_buf_size` of every
execution fits, and whenever the buffer grows, the statement of scanner.c
(`new_size = yy_buf_size * 2; if ( new_size <= 0 ) … else yy_buf_size *= 2`, `growC`)
takes its doubling branch and computes the size of the model. -/
theorem C20B_no_overflow (P : Params) (hP : P.OK) (M : Nat) (stream : Bytes) (es : List Event)
    (hB : P.B ≤ M) (hM : 2 * (stream.length + 1) ≤ M) (k : Nat) :
    (run P es (create P stream)).bufSize ≤ M ∧
    ((eobStep P k (run P es (create P stream))).1.bufSize ≠ (run P es (create P stream)).bufSize →
      (eobStep P k (run P es (create P stream))).1.bufSize =
        growC M (run P es (create P stream)).bufSize) := by
  obtain ⟨_, _, hb, _⟩ := C20B_size_bound P hP stream es
  have hb' : (run P es (create P stream)).bufSize ≤ M :=
    Nat.le_trans hb (Nat.max_le.mpr ⟨hB, hM⟩)
  refine ⟨hb', fun hne => ?_⟩
  obtain ⟨_, _, hb2, _⟩ := C20B_size_bound P hP stream (es ++ [.eob k])
  have hrun : run P (es ++ [.eob k]) (create P stream) = (eobStep P k (run P es (create P stream))).1 := by
    rw [run_append]; rfl
  rw [hrun] at hb2
  obtain ⟨data, H⟩ := eobStep_progress P hP k _ (C20B_inv P hP stream es)
  rcases H.grow with h | ⟨h, _⟩
  · exact absurd h hne
  · rw [h, growC_eq_double]
    rw [h] at hb2
    exact Nat.le_trans hb2 (Nat.max_le.mpr ⟨hB, hM⟩)

/-- instance: with `int` of 32 bits and a stream shorter than 2^30 - 1 bytes nothing overflows -/
theorem C20B_no_overflow_int32 (stream : Bytes) (es : List Event) (h : stream.length + 1 < 2 ^ 30)
    (k : Nat) :
    (run scannerParams es (create scannerParams stream)).bufSize ≤ 2 ^ 31 - 1 ∧
    ((eobStep scannerParams k (run scannerParams es (create scannerParams stream))).1.bufSize ≠
        (run scannerParams es (create scannerParams stream)).bufSize →
      (eobStep scannerParams k (run scannerParams es (create scannerParams stream))).1.bufSize =
        growC (2 ^ 31 - 1) (run scannerParams es (create scannerParams stream)).bufSize) :=
  C20B_no_overflow scannerParams scannerParams_ok (2 ^ 31 - 1) stream es (by decide) (by omega) k

/-- non-vacuity of B3: in the small replay the three kinds of result occur, the buffer grows
exactly once (8 → 16, when the 7-byte token fills it), 20 bytes of stream allow at most
`log2 (21 / 8) + 1 = 2` growth steps -/
example :
    (eobStep P8 4 (run P8 [.eob 4, .eob 4] (create P8 abc))).2 = .continueScan ∧
    (run P8 [.eob 4, .eob 4] (create P8 abc)).bufSize = 8 ∧
    (window (run P8 [.eob 4, .eob 4] (create P8 abc))).length + 1 = 8 ∧
    (eobStep P8 4 (run P8 [.eob 4, .eob 4] (create P8 abc))).1.bufSize = 16 ∧
    ((abc.length + 1) / P8.B).log2 + 1 = 2 := by decide

/-! ## B4 — the matcher of `Flex.lean` on the buffered view -/

/-- B4, one call.  From any state satisfying the invariants (`Inv`, and
`YY_BUFFER_EOF_PENDING` only at the end of the stream), with a stream that never fails and
is asked often enough (`oracle` has more entries than the stream has bytes left), the
matching loop run on the buffer — scanning the window, refilling whenever it reaches the
sentinel — reports end of file exactly when no text is left, and otherwise the rule and
length that `Flex.next` computes on the idealised text `pending s`; the action is handed
that prefix, which is removed from the idealised text; the invariants hold again, so the
next call can follow. -/
theorem C20B_flex_step (T : FlexTables) (sc : Nat) (bol : Bool) (P : Params) (hP : P.OK)
    (oracle : List Nat) (s : State) (h : Inv P s) (he : EofOK s) (ho : ∀ k ∈ oracle, 1 ≤ k)
    (hl : s.rest.length + 1 ≤ oracle.length) :
    LexSpec T sc bol P s (lexBuf T sc bol P oracle s) :=
  lexBuf_spec T sc bol P hP oracle s h he ho hl

/-- B4 for reachable states: after any execution in which the stream never failed. -/
theorem C20B_flex (T : FlexTables) (sc : Nat) (bol : Bool) (P : Params) (hP : P.OK)
    (stream : Bytes) (es : List Event) (hw : Willing es)
    (oracle : List Nat) (ho : ∀ k ∈ oracle, 1 ≤ k) (hl : stream.length + 1 ≤ oracle.length) :
    LexSpec T sc bol P (run P es (create P stream))
      (lexBuf T sc bol P oracle (run P es (create P stream))) := by
  have hinv := C20B_inv P hP stream es
  have heof := run_eofOK P hP es hw _ (create_inv P hP.B stream) (create_eofOK P stream)
  refine lexBuf_spec T sc bol P hP oracle _ hinv heof ho ?_
  have hc := C20B_content P hP stream es
  have hc' := congrArg List.length hc
  simp only [pending, List.length_append] at hc'
  omega

/-- non-vacuity: "enabled = true;" through an 8-byte buffer with 4-byte reads.  The name
`enabled` (rule 36, 7 bytes) is found after three refills, the second of which doubles the
buffer; the result is `Flex.next` on the whole text. -/
example :
    (lexBuf Generated.scanner 0 true P8 (List.replicate 16 4)
      (create P8 [101, 110, 97, 98, 108, 101, 100, 32, 61, 32, 116, 114, 117, 101, 59])).2 =
      .rule (some (36, 7)) ∧
    Flex.next Generated.scanner 0 true
      [101, 110, 97, 98, 108, 101, 100, 32, 61, 32, 116, 114, 117, 101, 59] = some (36, 7) ∧
    view (lexBuf Generated.scanner 0 true P8 (List.replicate 16 4)
      (create P8 [101, 110, 97, 98, 108, 101, 100, 32, 61, 32, 116, 114, 117, 101, 59])).1 =
      ([101, 110, 97, 98, 108, 101, 100, 32, 61, 32, 116, 0, 0, 9, 9, 9, 9, 9], 16, 11, 7, 7,
        [114, 117, 101, 59]) := by decide +kernel

/-- … and a name of 20 bytes, longer than the initial buffer, which grows twice (8 → 32) -/
example :
    (lexBuf Generated.scanner 0 true P8 (List.replicate 30 4)
      (create P8 (List.replicate 20 120 ++ [59]))).2 = .rule (some (36, 20)) ∧
    (lexBuf Generated.scanner 0 true P8 (List.replicate 30 4)
      (create P8 (List.replicate 20 120 ++ [59]))).1.bufSize = 32 ∧
    (lexBuf Generated.scanner 0 true P8 (List.replicate 30 4)
      (create P8 (List.replicate 20 120 ++ [59]))).1.tokens = [List.replicate 20 120] := by
  decide +kernel

/-- No livelock in the matching loop: per call it performs at most (bytes left in the
stream + 1) refills — a list of that many read sizes is never used up. -/
theorem C20B_no_livelock (T : FlexTables) (sc : Nat) (bol : Bool) (P : Params) (hP : P.OK)
    (oracle : List Nat) (s : State) (h : Inv P s) (he : EofOK s) (ho : ∀ k ∈ oracle, 1 ≤ k)
    (hl : s.rest.length + 1 ≤ oracle.length) : (lexBuf T sc bol P oracle s).2 ≠ .starved :=
  (lexBuf_spec T sc bol P hP oracle s h he ho hl).fed

/-- B4, any number of calls (each with any start condition and beginning-of-line flag, which
in `yylex` depend on the previous actions): the results and the text left over are those of
the same calls of `Flex.next` on the idealised text — the loop of `Scanner.yylex`. -/
theorem C20B_flex_many (T : FlexTables) (P : Params) (hP : P.OK) (stream : Bytes)
    (calls : List (Nat × Bool × List Nat))
    (hc : ∀ c ∈ calls, (∀ k ∈ c.2.2, 1 ≤ k) ∧ stream.length + 1 ≤ c.2.2.length) :
    (pending (lexMany T P calls (create P stream)).1, (lexMany T P calls (create P stream)).2) =
      nextMany T calls stream := by
  have h := lexMany_spec T P hP calls (create P stream) (create_inv P hP.B stream)
    (create_eofOK P stream) (fun c hc' => by
      have := hc c hc'
      exact ⟨this.1, by
        have : (create P stream).rest = stream := rfl
        rw [this]; omega⟩)
  have hp : pending (create P stream) = stream := by
    have := seen_create P stream
    simpa [seen, create, flush, loadBufferState] using this
  rw [hp] at h
  exact h.1

/-- non-vacuity: the whole of "enabled = true;" through the 8-byte buffer: name, blank, `=`,
blank, boolean, `;`, end of file — and every action saw its text -/
example :
    (lexMany Generated.scanner P8
      ((0, true, List.replicate 16 4) :: List.replicate 7 (0, false, List.replicate 16 4))
      (create P8 [101, 110, 97, 98, 108, 101, 100, 32, 61, 32, 116, 114, 117, 101, 59])).2 =
      [.rule (some (36, 7)), .rule (some (29, 1)), .rule (some (30, 1)), .rule (some (29, 1)),
       .rule (some (34, 4)), .rule (some (46, 1)), .eof, .eof] ∧
    (lexMany Generated.scanner P8
      ((0, true, List.replicate 16 4) :: List.replicate 7 (0, false, List.replicate 16 4))
      (create P8 [101, 110, 97, 98, 108, 101, 100, 32, 61, 32, 116, 114, 117, 101, 59])).1.tokens =
      [[101, 110, 97, 98, 108, 101, 100], [32], [61], [32], [116, 114, 117, 101], [59]] := by
  decide +kernel

end Libconfig.C20B
