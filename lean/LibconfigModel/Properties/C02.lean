import LibconfigModel.Read
namespace Libconfig.C02
end Libconfig.C02
