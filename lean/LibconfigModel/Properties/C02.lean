import LibconfigModel.Read
import LibconfigModel.Grammar
import LibconfigModel.Proofs.C02
/-
  C02 — parsing accepts exactly the documented grammar (soundness direction, proved for the
  compiled tables): whenever `libconfig_yyparse` accepts, the token kinds it consumed form a
  sentence of the documented grammar.  Statements only; helper definitions and lemmas live in
  LibconfigModel/Proofs/C02.lean.
-/
namespace Libconfig.C02
open Grammar

/-- `LexesTo E s toks s'`: calling `yylex` repeatedly from scan state `s` returns the tokens
`toks` (token number and value) and then end of input, ending in state `s'` -/
inductive LexesTo (E : ParserEnv) : ScanState → List (Nat × TokVal) → ScanState → Prop where
  | eof (s s' : ScanState) : yylex E.T E.sacts E.w E.ic E.lexFuel s = (s', .eof) → LexesTo E s [] s'
  | tok (s s₁ s' : ScanState) (t : Nat) (v : TokVal) (rest : List (Nat × TokVal)) :
      yylex E.T E.sacts E.w E.ic E.lexFuel s = (s₁, .tok t v) → LexesTo E s₁ rest s' →
      LexesTo E s ((t, v) :: rest) s'
  /-- an include error is handed to the parser as the token TOK_ERROR (which no rule of the
  grammar contains, so a derivable sequence never has one) -/
  | incl (s s₁ s' : ScanState) (t : Nat) (text : Bytes) (file : Option Bytes) (line : Nat)
      (rest : List (Nat × TokVal)) :
      yylex E.T E.sacts E.w E.ic E.lexFuel s = (s₁, .includeError t text file line) → LexesTo E s₁ rest s' →
      LexesTo E s ((t, {}) :: rest) s'

/-- The hand-written grammar agrees with the compiled tables on every rule's left-hand side
and length (the right-hand sides are validated by the automaton check inside the proof). -/
theorem C02_rules_match :
    ∀ r, 1 ≤ r → r ≤ Generated.parser.nrules →
      (Generated.parser.r1.get r).toNat = (rules.getD r (0, [])).1 ∧
      (Generated.parser.r2.get r).toNat = (rules.getD r (0, [])).2.length := by
  intro r h1 h2
  have h := C02P.allBelow_spec C02P.rulesMatch_ok r (Nat.lt_succ_of_le h2)
  simp only [Bool.or_eq_true, Bool.and_eq_true] at h
  rcases h with h | h
  · have := Nat.eq_of_beq_eq_true h
    omega
  · exact ⟨Nat.eq_of_beq_eq_true h.1, Nat.eq_of_beq_eq_true h.2⟩

/-- Soundness of the compiled parser: if `yyparse` (over the translated tables, with the real
scanner model and the real semantic actions) accepts, then the input lexes to a token sequence
whose kinds (`YYTRANSLATE`) are derivable from the documented grammar. -/
theorem C02_sound (w : World) (c : Config) (fuel : Nat) (s₀ s' : ScanState) (ctx₀ ctx' : ParseCtx)
    (h : yyparse (theEnv w c fuel) fuel s₀ ctx₀ = (s', ctx', .accept)) :
    ∃ toks, LexesTo (theEnv w c fuel) s₀ toks s' ∧
      Derivable (toks.map fun tv => translateTok Generated.parser tv.1) := by
  have hok : C02P.staticOK (theEnv w c fuel).P C02P.edges = true := C02P.edges_ok
  obtain ⟨toks, hlex, hder⟩ :=
    C02P.yyparse_sound hok (C02P.tokNZ_theEnv w c fuel) fuel s₀ s' ctx₀ ctx' h
  refine ⟨toks, ?_, hder⟩
  clear h hder
  induction hlex with
  | eof s s' hy => exact .eof s s' hy
  | tok s s₁ s' t v rest hy _ ih => exact .tok s s₁ s' t v rest hy ih
  | incl s s₁ s' t text file line rest hy _ ih => exact .incl s s₁ s' t text file line rest hy ih

/-- Every grammar action of the compiled parser has its catalogued text (the translator
re-reads lib/grammar.c on every run; an edited action becomes `.unknown`), and so do the
helper macros and functions the actions rely on (`IN_ARRAY`, `IN_LIST`, `CAPTURE_PARSE_POS`,
`capture_parse_pos`, `libconfig_yyerror`). -/
theorem C02_actions_known :
    (∀ a ∈ Generated.parseActions, a ≠ ParseAct.unknown) ∧ Generated.parseHelpersKnown = true ∧
    Generated.parseActions.length = Generated.parser.nrules + 1 := by decide

/-- the documented error texts -/
theorem C02_error_texts :
    Generated.ERR_SYNTAX = [115, 121, 110, 116, 97, 120, 32, 101, 114, 114, 111, 114] ∧
    Generated.ERR_DUPLICATE_SETTING = [100, 117, 112, 108, 105, 99, 97, 116, 101, 32, 115, 101, 116, 116, 105, 110, 103, 32, 110, 97, 109, 101] ∧
    Generated.ERR_ARRAY_ELEM_TYPE = [109, 105, 115, 109, 97, 116, 99, 104, 101, 100, 32, 101, 108, 101, 109, 101, 110, 116, 32, 116, 121, 112, 101, 32, 105, 110, 32, 97, 114, 114, 97, 121] := by decide

end Libconfig.C02
