import LibconfigModel.Basic
import LibconfigModel.Regex
/-
  The documented lexical rules of libconfig, as an ordered list of regular
  expressions, and the meaning of "the scanner's next token": the longest
  non-empty prefix matched by a rule that is active in the current start
  condition, the earliest rule on ties.

  Sources: doc/libconfig.texi (chapter "Configuration Files", the escape
  sequences of "String Values", and the terminals of "Configuration File
  Grammar") and the rule section of lib/scanner.l, which the manual's terminal
  table copies.  Rule `i` of scanner.l is flex rule number `i` (`case i:` in
  lib/scanner.c, entry `i` of `Generated.scanActions`).

  Where the two disagree this file follows scanner.l:
  * the manual's `<float>` prints the second alternative as `[-+]([0-9]+)…`
    (sign mandatory) — a typo for `[-+]?([0-9]+)…`;
  * the manual's `<hex64>` is `0[Xx][0-9A-Fa-f]+(L(L)?)?`, i.e. the union of
    scanner.l's `hex` and `hex64`; scanner.l (and the manual's own `<hex>`
    line) tell them apart by the mandatory `L`.

  flex conventions used in the transcription: `.` is every byte except `\n`;
  a negated class such as `[^\"\\]` contains every other byte, including NUL
  and `\n`; `\a \b \f \n \r \t \v` are the C escapes (7 8 12 10 13 9 11); a
  pattern starting with `^` is active only at the beginning of a line; a
  pattern without `<...>` is active only in INITIAL because all other start
  conditions are exclusive (`%x`).
-/
namespace Libconfig
namespace ScanSpec
open Rx

/-! ### byte classes (bit `b` set ⇔ byte `b` in the class)
Literals printed by a small Python helper (genmasks.py); `classes_ok` at the end
of this file ties every constant to its meaning. -/
/-- every byte (flex default rule) -/
def cAny : Nat := 0xffffffffffffffffffffffffffffffffffffffffffffffffffffffffffffffff
/-- `.` : every byte except \n -/
def cDot : Nat := 0xfffffffffffffffffffffffffffffffffffffffffffffffffffffffffffffbff
/-- `[^\"\\]` : every byte except `"` and `\` -/
def cNotQB : Nat := 0xffffffffffffffffffffffffffffffffffffffffeffffffffffffffbffffffff
/-- `\n` -/
def cNl : Nat := 0x400
/-- `\r` -/
def cCr : Nat := 0x2000
/-- `\f` -/
def cFormFeed : Nat := 0x1000
/-- `\a` -/
def cBel : Nat := 0x80
/-- `\b` -/
def cBs : Nat := 0x100
/-- `\v` -/
def cVt : Nat := 0x800
/-- `[ \t]` -/
def cSpTab : Nat := 0x100000200
/-- `#` -/
def cHash : Nat := 0x800000000
/-- `/` -/
def cSlash : Nat := 0x800000000000
/-- `*` -/
def cStar : Nat := 0x40000000000
/-- `"` -/
def cQuote : Nat := 0x400000000
/-- `\` -/
def cBackslash : Nat := 0x100000000000000000000000
/-- `@` -/
def cAt : Nat := 0x10000000000000000
/-- `=` -/
def cEq : Nat := 0x2000000000000000
/-- `:` -/
def cColon : Nat := 0x400000000000000
/-- `,` -/
def cComma : Nat := 0x100000000000
/-- `{` -/
def cLBrace : Nat := 0x8000000000000000000000000000000
/-- `}` -/
def cRBrace : Nat := 0x20000000000000000000000000000000
/-- `[` -/
def cLBrack : Nat := 0x80000000000000000000000
/-- `]` -/
def cRBrack : Nat := 0x200000000000000000000000
/-- `(` -/
def cLParen : Nat := 0x10000000000
/-- `)` -/
def cRParen : Nat := 0x20000000000
/-- `;` -/
def cSemi : Nat := 0x800000000000000
/-- `\.` (a literal full stop) -/
def cPeriod : Nat := 0x400000000000
/-- `0` -/
def cZero : Nat := 0x1000000000000
/-- `L` -/
def cUpperL : Nat := 0x10000000000000000000
/-- `[-+]` -/
def cSign : Nat := 0x280000000000
/-- `[0-9]` -/
def cDigit : Nat := 0x3ff000000000000
/-- `[0-9A-Fa-f]` -/
def cHexDigit : Nat := 0x7e0000007e03ff000000000000
/-- `[Xx]` -/
def cXx : Nat := 0x1000000010000000000000000000000
/-- `[eE]` -/
def cEe : Nat := 0x20000000200000000000000000
/-- `[A-Za-z\*]` -/
def cNameStart : Nat := 0x7fffffe07fffffe0000040000000000
/-- `[-A-Za-z0-9_\*]` -/
def cNameRest : Nat := 0x7fffffe87fffffe03ff240000000000
/-- `[Tt]` -/
def cTt : Nat := 0x100000001000000000000000000000
/-- `[Rr]` -/
def cRr : Nat := 0x40000000400000000000000000000
/-- `[Uu]` -/
def cUu : Nat := 0x200000002000000000000000000000
/-- `[Ff]` -/
def cFf : Nat := 0x40000000400000000000000000
/-- `[Aa]` -/
def cAa : Nat := 0x2000000020000000000000000
/-- `[Ll]` -/
def cLl : Nat := 0x1000000010000000000000000000
/-- `[Ss]` -/
def cSs : Nat := 0x80000000800000000000000000000
/-- `a` -/
def c_a : Nat := 0x2000000000000000000000000
/-- `b` -/
def c_b : Nat := 0x4000000000000000000000000
/-- `c` -/
def c_c : Nat := 0x8000000000000000000000000
/-- `d` -/
def c_d : Nat := 0x10000000000000000000000000
/-- `e` -/
def c_e : Nat := 0x20000000000000000000000000
/-- `f` -/
def c_f : Nat := 0x40000000000000000000000000
/-- `i` -/
def c_i : Nat := 0x200000000000000000000000000
/-- `l` -/
def c_l : Nat := 0x1000000000000000000000000000
/-- `n` -/
def c_n : Nat := 0x4000000000000000000000000000
/-- `r` -/
def c_r : Nat := 0x40000000000000000000000000000
/-- `t` -/
def c_t : Nat := 0x100000000000000000000000000000
/-- `u` -/
def c_u : Nat := 0x200000000000000000000000000000
/-- `v` -/
def c_v : Nat := 0x400000000000000000000000000000

/-! ### start conditions -/
@[reducible] def INITIAL : Nat := 0
@[reducible] def SINGLE_LINE_COMMENT : Nat := 1
@[reducible] def MULTI_LINE_COMMENT : Nat := 2
@[reducible] def STRING : Nat := 3
@[reducible] def INCLUDE : Nat := 4

structure SpecRule where
  rx : Rx
  /-- start conditions in which the rule is active -/
  scs : List Nat
  /-- `^` : only at the beginning of a line -/
  bol : Bool

/-! ### named definitions of scanner.l -/
/-- `[Tt][Rr][Uu][Ee]` -/
def rxTrue : Rx := .cat (.cls cTt) (.cat (.cls cRr) (.cat (.cls cUu) (.cls cEe)))
/-- `[Ff][Aa][Ll][Ss][Ee]` -/
def rxFalse : Rx :=
  .cat (.cls cFf) (.cat (.cls cAa) (.cat (.cls cLl) (.cat (.cls cSs) (.cls cEe))))
/-- `[A-Za-z\*][-A-Za-z0-9_\*]*` -/
def rxName : Rx := .cat (.cls cNameStart) (.star (.cls cNameRest))
/-- `[-+]?[0-9]+` -/
def rxInteger : Rx := .cat (opt (.cls cSign)) (plus (.cls cDigit))
/-- `[-+]?[0-9]+L(L)?` -/
def rxInteger64 : Rx :=
  .cat (opt (.cls cSign)) (.cat (plus (.cls cDigit)) (.cat (.cls cUpperL) (opt (.cls cUpperL))))
/-- `0[Xx][0-9A-Fa-f]+` -/
def rxHex : Rx := .cat (.cls cZero) (.cat (.cls cXx) (plus (.cls cHexDigit)))
/-- `0[Xx][0-9A-Fa-f]+L(L)?` -/
def rxHex64 : Rx :=
  .cat (.cls cZero) (.cat (.cls cXx) (.cat (plus (.cls cHexDigit))
    (.cat (.cls cUpperL) (opt (.cls cUpperL)))))
/-- `\\[Xx][0-9A-Fa-f]{2}` -/
def rxHexChar : Rx := .cat (.cls cBackslash) (.cat (.cls cXx) (rep 2 (.cls cHexDigit)))
/-- `[eE][-+]?[0-9]+` -/
def rxExponent : Rx := .cat (.cls cEe) (.cat (opt (.cls cSign)) (plus (.cls cDigit)))
/-- `([-+]?([0-9]*)?\.[0-9]*([eE][-+]?[0-9]+)?)|([-+]?([0-9]+)(\.[0-9]*)?[eE][-+]?[0-9]+)` -/
def rxFloat : Rx :=
  .alt
    (.cat (opt (.cls cSign)) (.cat (opt (.star (.cls cDigit)))
      (.cat (.cls cPeriod) (.cat (.star (.cls cDigit)) (opt rxExponent)))))
    (.cat (opt (.cls cSign)) (.cat (plus (.cls cDigit))
      (.cat (opt (.cat (.cls cPeriod) (.star (.cls cDigit)))) rxExponent)))
/-- `^[ \t]*@include[ \t]+\"` (the `^` is the rule's `bol` flag) -/
def rxIncludeOpen : Rx :=
  .cat (.star (.cls cSpTab)) (.cat (.cls cAt) (.cat (.cls c_i) (.cat (.cls c_n) (.cat (.cls c_c)
    (.cat (.cls c_l) (.cat (.cls c_u) (.cat (.cls c_d) (.cat (.cls c_e)
      (.cat (plus (.cls cSpTab)) (.cls cQuote))))))))))
/-- `\\c` for a letter `c` -/
def rxEsc (c : Nat) : Rx := .cat (.cls cBackslash) (.cls c)

/-- The rules of scanner.l in order (rule numbers 1 … 47), followed by the
default rule that flex appends to every scanner (number 48: any single byte,
in every start condition, action ECHO). -/
def documented : List SpecRule := [
  /-  1  (#|\/\/)                 -/ ⟨.alt (.cls cHash) (.cat (.cls cSlash) (.cls cSlash)), [INITIAL], false⟩,
  /-  2  <SINGLE_LINE_COMMENT>\n  -/ ⟨.cls cNl, [SINGLE_LINE_COMMENT], false⟩,
  /-  3  <SINGLE_LINE_COMMENT>.   -/ ⟨.cls cDot, [SINGLE_LINE_COMMENT], false⟩,
  /-  4  \/\*                     -/ ⟨.cat (.cls cSlash) (.cls cStar), [INITIAL], false⟩,
  /-  5  <MULTI_LINE_COMMENT>\*\/ -/ ⟨.cat (.cls cStar) (.cls cSlash), [MULTI_LINE_COMMENT], false⟩,
  /-  6  <MULTI_LINE_COMMENT>.    -/ ⟨.cls cDot, [MULTI_LINE_COMMENT], false⟩,
  /-  7  <MULTI_LINE_COMMENT>\n   -/ ⟨.cls cNl, [MULTI_LINE_COMMENT], false⟩,
  /-  8  \"                       -/ ⟨.cls cQuote, [INITIAL], false⟩,
  /-  9  <STRING>[^\"\\]+         -/ ⟨plus (.cls cNotQB), [STRING], false⟩,
  /- 10  <STRING>\\a              -/ ⟨rxEsc c_a, [STRING], false⟩,
  /- 11  <STRING>\\b              -/ ⟨rxEsc c_b, [STRING], false⟩,
  /- 12  <STRING>\\n              -/ ⟨rxEsc c_n, [STRING], false⟩,
  /- 13  <STRING>\\r              -/ ⟨rxEsc c_r, [STRING], false⟩,
  /- 14  <STRING>\\t              -/ ⟨rxEsc c_t, [STRING], false⟩,
  /- 15  <STRING>\\v              -/ ⟨rxEsc c_v, [STRING], false⟩,
  /- 16  <STRING>\\f              -/ ⟨rxEsc c_f, [STRING], false⟩,
  /- 17  <STRING>\\\\             -/ ⟨rxEsc cBackslash, [STRING], false⟩,
  /- 18  <STRING>\\\"             -/ ⟨rxEsc cQuote, [STRING], false⟩,
  /- 19  <STRING>{hexchar}        -/ ⟨rxHexChar, [STRING], false⟩,
  /- 20  <STRING>\\               -/ ⟨.cls cBackslash, [STRING], false⟩,
  /- 21  <STRING>\"               -/ ⟨.cls cQuote, [STRING], false⟩,
  /- 22  {include_open}           -/ ⟨rxIncludeOpen, [INITIAL], true⟩,
  /- 23  <INCLUDE>[^\"\\]+        -/ ⟨plus (.cls cNotQB), [INCLUDE], false⟩,
  /- 24  <INCLUDE>\\\\            -/ ⟨rxEsc cBackslash, [INCLUDE], false⟩,
  /- 25  <INCLUDE>\\\"            -/ ⟨rxEsc cQuote, [INCLUDE], false⟩,
  /- 26  <INCLUDE>\\              -/ ⟨.cls cBackslash, [INCLUDE], false⟩,
  /- 27  <INCLUDE>\"              -/ ⟨.cls cQuote, [INCLUDE], false⟩,
  /- 28  \n|\r|\f|\a|\b|\v        -/ ⟨.alt (.cls cNl) (.alt (.cls cCr) (.alt (.cls cFormFeed)
                                        (.alt (.cls cBel) (.alt (.cls cBs) (.cls cVt))))), [INITIAL], false⟩,
  /- 29  [ \t]+                   -/ ⟨plus (.cls cSpTab), [INITIAL], false⟩,
  /- 30  \=|\:                    -/ ⟨.alt (.cls cEq) (.cls cColon), [INITIAL], false⟩,
  /- 31  ,                        -/ ⟨.cls cComma, [INITIAL], false⟩,
  /- 32  \{                       -/ ⟨.cls cLBrace, [INITIAL], false⟩,
  /- 33  \}                       -/ ⟨.cls cRBrace, [INITIAL], false⟩,
  /- 34  {true}                   -/ ⟨rxTrue, [INITIAL], false⟩,
  /- 35  {false}                  -/ ⟨rxFalse, [INITIAL], false⟩,
  /- 36  {name}                   -/ ⟨rxName, [INITIAL], false⟩,
  /- 37  {float}                  -/ ⟨rxFloat, [INITIAL], false⟩,
  /- 38  {integer}                -/ ⟨rxInteger, [INITIAL], false⟩,
  /- 39  {integer64}              -/ ⟨rxInteger64, [INITIAL], false⟩,
  /- 40  {hex}                    -/ ⟨rxHex, [INITIAL], false⟩,
  /- 41  {hex64}                  -/ ⟨rxHex64, [INITIAL], false⟩,
  /- 42  \[                       -/ ⟨.cls cLBrack, [INITIAL], false⟩,
  /- 43  \]                       -/ ⟨.cls cRBrack, [INITIAL], false⟩,
  /- 44  \(                       -/ ⟨.cls cLParen, [INITIAL], false⟩,
  /- 45  \)                       -/ ⟨.cls cRParen, [INITIAL], false⟩,
  /- 46  ;                        -/ ⟨.cls cSemi, [INITIAL], false⟩,
  /- 47  .                        -/ ⟨.cls cDot, [INITIAL], false⟩,
  /- 48  flex default rule        -/ ⟨.cls cAny,
      [INITIAL, SINGLE_LINE_COMMENT, MULTI_LINE_COMMENT, STRING, INCLUDE], false⟩
]

/-! ### which rules compete -/
def memNat (x : Nat) : List Nat → Bool
  | [] => false
  | y :: ys => Nat.beq x y || memNat x ys

theorem memNat_iff {x : Nat} {l : List Nat} : memNat x l = true ↔ x ∈ l := by
  induction l with
  | nil => simp [memNat]
  | cons y ys ih => simp [memNat, ih]

/-- the rule competes in start condition `sc`, at (`bol`) or away from the
beginning of a line -/
def SpecRule.active (r : SpecRule) (sc : Nat) (bol : Bool) : Bool :=
  memNat sc r.scs && (!r.bol || bol)

theorem SpecRule.active_iff {r : SpecRule} {sc : Nat} {bol : Bool} :
    r.active sc bol = true ↔ sc ∈ r.scs ∧ (r.bol = true → bol = true) := by
  unfold SpecRule.active
  rw [Bool.and_eq_true, memNat_iff]
  cases r.bol <;> cases bol <;> simp

/-- Rule number `i` (counting from 1) is active in `(sc, bol)` and matches `w`. -/
def RuleMatches (rules : List SpecRule) (sc : Nat) (bol : Bool) (i : Nat) (w : List Nat) : Prop :=
  ∃ rule, 1 ≤ i ∧ rules[i - 1]? = some rule ∧ rule.active sc bol = true ∧ rule.rx.Matches w

/-- The documented choice: `inp.take n` is a non-empty prefix matched by the
active rule `r`; no active rule matches a longer prefix; no earlier active
rule matches the same prefix. -/
structure Selects (rules : List SpecRule) (sc : Nat) (bol : Bool) (inp : List Nat)
    (r n : Nat) : Prop where
  pos : 0 < n
  le : n ≤ inp.length
  matched : RuleMatches rules sc bol r (inp.take n)
  longest : ∀ m, n < m → m ≤ inp.length → ∀ i, ¬ RuleMatches rules sc bol i (inp.take m)
  first : ∀ i, i < r → ¬ RuleMatches rules sc bol i (inp.take n)

/-- `Selects` determines rule and length. -/
theorem Selects.unique {rules : List SpecRule} {sc : Nat} {bol : Bool} {inp : List Nat}
    {r n r' n' : Nat} (h : Selects rules sc bol inp r n) (h' : Selects rules sc bol inp r' n') :
    r = r' ∧ n = n' := by
  have hn : n = n' := by
    apply Nat.le_antisymm
    · apply Nat.le_of_not_lt; intro hlt
      exact h'.longest n hlt h.le r h.matched
    · apply Nat.le_of_not_lt; intro hlt
      exact h.longest n' hlt h'.le r' h'.matched
  subst hn
  refine ⟨?_, rfl⟩
  apply Nat.le_antisymm
  · apply Nat.le_of_not_lt; intro hlt
    exact h.first r' hlt h'.matched
  · apply Nat.le_of_not_lt; intro hlt
    exact h'.first r hlt h.matched

/-! ### executable definition: run all active rules in parallel by derivatives -/

/-- the rules still alive with what remains to be matched -/
abbrev Vec := List (Nat × Rx)

def startVecFrom (sc : Nat) (bol : Bool) : Nat → List SpecRule → Vec
  | _, [] => []
  | i, r :: rs =>
    if r.active sc bol then (i, r.rx) :: startVecFrom sc bol (i + 1) rs
    else startVecFrom sc bol (i + 1) rs

def startVec (rules : List SpecRule) (sc : Nat) (bol : Bool) : Vec :=
  startVecFrom sc bol 1 rules

/-- consume one byte; rules whose derivative is `∅` are dropped -/
def derivVec (b : Nat) : Vec → Vec
  | [] => []
  | (i, r) :: v =>
    match deriv b r with
    | .empty => derivVec b v
    | d => (i, d) :: derivVec b v

/-- smallest rule number whose remainder accepts the empty word -/
def acceptLabel : Vec → Option Nat
  | [] => none
  | (i, d) :: v =>
    match acceptLabel v with
    | none => if nullable d then some i else none
    | some j => if nullable d && Nat.ble i j then some i else some j

/-- remember the match ending here, if there is one -/
def bump (v : Vec) (pos : Nat) (last : Option (Nat × Nat)) : Option (Nat × Nat) :=
  match acceptLabel v with
  | some r => some (r, pos)
  | none => last

/-- `pos` bytes consumed, `last` = best match so far -/
def specScan : Vec → List Nat → Nat → Option (Nat × Nat) → Option (Nat × Nat)
  | v, [], pos, last => bump v pos last
  | v, c :: cs, pos, last =>
    match derivVec c v with
    | [] => bump v pos last
    | x :: v' => specScan (x :: v') cs (pos + 1) (bump v pos last)

/-- Rule number and length of the token at the head of `inp`.  Only non-empty
matches count. -/
def specNext (rules : List SpecRule) (sc : Nat) (bol : Bool) (inp : List Nat) :
    Option (Nat × Nat) :=
  match inp with
  | [] => none
  | c :: cs => specScan (derivVec c (startVec rules sc bol)) cs 1 none

/-! ### the executable definition means `Selects` -/

/-- entry `i` of the vector matches `w` -/
def MatchesAt (v : Vec) (i : Nat) (w : List Nat) : Prop := ∃ d, (i, d) ∈ v ∧ d.Matches w

theorem not_matchesAt_nil {i : Nat} {w : List Nat} : ¬ MatchesAt [] i w := by
  intro ⟨_, h, _⟩; cases h

theorem matchesAt_cons {j : Nat} {r : Rx} {v : Vec} {i : Nat} {w : List Nat} :
    MatchesAt ((j, r) :: v) i w ↔ (i = j ∧ r.Matches w) ∨ MatchesAt v i w := by
  constructor
  · intro ⟨d, hm, hd⟩
    cases hm with
    | head => exact .inl ⟨rfl, hd⟩
    | tail _ hm => exact .inr ⟨d, hm, hd⟩
  · intro h
    cases h with
    | inl h => exact ⟨r, h.1 ▸ List.Mem.head _, h.2⟩
    | inr h => obtain ⟨d, hm, hd⟩ := h; exact ⟨d, List.Mem.tail _ hm, hd⟩

theorem derivVec_iff {b : Nat} {v : Vec} {i : Nat} {w : List Nat} :
    MatchesAt (derivVec b v) i w ↔ MatchesAt v i (b :: w) := by
  induction v with
  | nil => exact ⟨fun h => (not_matchesAt_nil h).elim, fun h => (not_matchesAt_nil h).elim⟩
  | cons x v ih =>
    obtain ⟨j, r⟩ := x
    rw [matchesAt_cons, ← ih, ← deriv_iff]
    simp only [derivVec]
    split
    · next h =>
      rw [h]
      exact ⟨.inr, fun h => h.elim (fun h => (not_matches_empty h.2).elim) id⟩
    · exact matchesAt_cons

theorem startVecFrom_iff {sc : Nat} {bol : Bool} {rules : List SpecRule} :
    ∀ {k i : Nat} {w : List Nat}, MatchesAt (startVecFrom sc bol k rules) i w ↔
      ∃ rule, k ≤ i ∧ rules[i - k]? = some rule ∧ rule.active sc bol = true ∧ rule.rx.Matches w := by
  induction rules with
  | nil =>
    intro k i w
    simp only [startVecFrom]
    exact ⟨fun h => (not_matchesAt_nil h).elim, fun ⟨_, _, h, _⟩ => by simp at h⟩
  | cons r rs ih =>
    intro k i w
    have step : ((i = k ∧ r.active sc bol = true ∧ r.rx.Matches w) ∨
          MatchesAt (startVecFrom sc bol (k + 1) rs) i w) ↔
        ∃ rule, k ≤ i ∧ (r :: rs)[i - k]? = some rule ∧ rule.active sc bol = true ∧
          rule.rx.Matches w := by
      rw [ih]
      constructor
      · intro h
        cases h with
        | inl h =>
          obtain ⟨rfl, ha, hm⟩ := h
          exact ⟨r, Nat.le_refl _, by simp, ha, hm⟩
        | inr h =>
          obtain ⟨rule, hk, hget, ha, hm⟩ := h
          refine ⟨rule, by omega, ?_, ha, hm⟩
          have : i - k = (i - (k + 1)) + 1 := by omega
          rw [this, List.getElem?_cons_succ]; exact hget
      · intro ⟨rule, hk, hget, ha, hm⟩
        by_cases hik : i = k
        · subst hik
          simp only [Nat.sub_self, List.getElem?_cons_zero, Option.some.injEq] at hget
          subst hget
          exact .inl ⟨rfl, ha, hm⟩
        · have : i - k = (i - (k + 1)) + 1 := by omega
          rw [this, List.getElem?_cons_succ] at hget
          exact .inr ⟨rule, by omega, hget, ha, hm⟩
    rw [← step]
    simp only [startVecFrom]
    cases ha : r.active sc bol with
    | true => simp only [if_true, matchesAt_cons, true_and]
    | false =>
      simp only [Bool.false_eq_true, if_false, false_and, and_false, false_or]

theorem startVec_iff {rules : List SpecRule} {sc : Nat} {bol : Bool} {i : Nat} {w : List Nat} :
    MatchesAt (startVec rules sc bol) i w ↔ RuleMatches rules sc bol i w :=
  startVecFrom_iff

theorem acceptLabel_none {v : Vec} (h : acceptLabel v = none) : ∀ i, ¬ MatchesAt v i [] := by
  induction v with
  | nil => intro i; exact not_matchesAt_nil
  | cons x v ih =>
    obtain ⟨j, d⟩ := x
    intro i
    simp only [acceptLabel] at h
    split at h
    · next hv =>
      split at h
      · cases h
      · next hn =>
        rw [matchesAt_cons]
        intro hm
        cases hm with
        | inl hm => exact hn (nullable_iff.mpr hm.2)
        | inr hm => exact ih hv i hm
    · split at h <;> cases h

theorem acceptLabel_some {v : Vec} {r : Nat} (h : acceptLabel v = some r) :
    MatchesAt v r [] ∧ ∀ i, i < r → ¬ MatchesAt v i [] := by
  induction v generalizing r with
  | nil => cases h
  | cons x v ih =>
    obtain ⟨j, d⟩ := x
    simp only [acceptLabel] at h
    split at h
    · next hv =>
      split at h
      · next hn =>
        cases h
        refine ⟨matchesAt_cons.mpr (.inl ⟨rfl, nullable_iff.mp hn⟩), ?_⟩
        intro i hi hm
        cases matchesAt_cons.mp hm with
        | inl hm => omega
        | inr hm => exact acceptLabel_none hv i hm
      · cases h
    · next j' hv =>
      have ⟨ih1, ih2⟩ := ih hv
      split at h
      · next hc =>
        cases h
        simp only [Bool.and_eq_true] at hc
        have hle : r ≤ j' := Nat.le_of_ble_eq_true hc.2
        refine ⟨matchesAt_cons.mpr (.inl ⟨rfl, nullable_iff.mp hc.1⟩), ?_⟩
        intro i hi hm
        cases matchesAt_cons.mp hm with
        | inl hm => omega
        | inr hm => exact ih2 i (by omega) hm
      · next hc =>
        cases h
        refine ⟨matchesAt_cons.mpr (.inr ih1), ?_⟩
        intro i hi hm
        cases matchesAt_cons.mp hm with
        | inl hm =>
          obtain ⟨hij, hd⟩ := hm
          apply hc
          simp only [Bool.and_eq_true]
          exact ⟨nullable_iff.mpr hd, Nat.ble_eq_true_of_le (by omega)⟩
        | inr hm => exact ih2 i hi hm

/-- what `bump` records -/
theorem bump_spec (v : Vec) (pos : Nat) (last : Option (Nat × Nat)) :
    (bump v pos last = last ∧ ∀ i, ¬ MatchesAt v i []) ∨
    (∃ r, bump v pos last = some (r, pos) ∧ MatchesAt v r [] ∧ ∀ i, i < r → ¬ MatchesAt v i []) := by
  unfold bump
  split
  · next r h => exact .inr ⟨r, rfl, acceptLabel_some h⟩
  · next h => exact .inl ⟨rfl, acceptLabel_none h⟩

/-- Result of a scan from vector `v`: either nothing in `v` matches any prefix
and `last` is returned, or the longest prefix matched by an entry of `v`, with
the smallest entry number among those matching it. -/
theorem specScan_spec : ∀ (inp : List Nat) (v : Vec) (pos : Nat) (last : Option (Nat × Nat)),
    (specScan v inp pos last = last ∧ ∀ m, m ≤ inp.length → ∀ i, ¬ MatchesAt v i (inp.take m)) ∨
    (∃ r n, specScan v inp pos last = some (r, pos + n) ∧ n ≤ inp.length ∧
      MatchesAt v r (inp.take n) ∧
      (∀ i, i < r → ¬ MatchesAt v i (inp.take n)) ∧
      (∀ m, n < m → m ≤ inp.length → ∀ i, ¬ MatchesAt v i (inp.take m))) := by
  intro inp
  induction inp with
  | nil =>
    intro v pos last
    simp only [specScan, List.length_nil, List.take_nil]
    cases bump_spec v pos last with
    | inl h => exact .inl ⟨h.1, fun _ _ => h.2⟩
    | inr h =>
      obtain ⟨r, h1, h2, h3⟩ := h
      exact .inr ⟨r, 0, h1, Nat.le_refl _, h2, h3, fun m h1 h2 => by omega⟩
  | cons c cs ih =>
    intro v pos last
    -- what happens at length 0, and that longer prefixes go through the derivative
    have hlong : ∀ m, 0 < m → ∀ i, MatchesAt v i ((c :: cs).take m) ↔
        MatchesAt (derivVec c v) i (cs.take (m - 1)) := by
      intro m hm i
      obtain ⟨m', rfl⟩ : ∃ m', m = m' + 1 := ⟨m - 1, by omega⟩
      simp only [List.take_succ_cons, Nat.add_sub_cancel]
      exact derivVec_iff.symm
    -- the result when nothing longer than the empty prefix matches
    have short : (∀ m, 0 < m → m ≤ (c :: cs).length → ∀ i, ¬ MatchesAt v i ((c :: cs).take m)) →
        (bump v pos last = last ∧
            ∀ m, m ≤ (c :: cs).length → ∀ i, ¬ MatchesAt v i ((c :: cs).take m)) ∨
        (∃ r n, bump v pos last = some (r, pos + n) ∧ n ≤ (c :: cs).length ∧
          MatchesAt v r ((c :: cs).take n) ∧
          (∀ i, i < r → ¬ MatchesAt v i ((c :: cs).take n)) ∧
          (∀ m, n < m → m ≤ (c :: cs).length → ∀ i, ¬ MatchesAt v i ((c :: cs).take m))) := by
      intro hno
      cases bump_spec v pos last with
      | inl h =>
        refine .inl ⟨h.1, ?_⟩
        intro m hm i
        by_cases h0 : m = 0
        · subst h0; exact h.2 i
        · exact hno m (by omega) hm i
      | inr h =>
        obtain ⟨r, h1, h2, h3⟩ := h
        exact .inr ⟨r, 0, h1, Nat.zero_le _, h2, h3, fun m h1 h2 => hno m h1 h2⟩
    simp only [specScan]
    split
    · next hnil =>
      apply short
      intro m hm _ i
      rw [hlong m hm, hnil]
      exact not_matchesAt_nil
    · next x v' hcons =>
      rw [← hcons]
      cases ih (derivVec c v) (pos + 1) (bump v pos last) with
      | inl h =>
        rw [h.1]
        apply short
        intro m hm hle i
        rw [hlong m hm]
        exact h.2 (m - 1) (by simp only [List.length_cons] at hle; omega) i
      | inr h =>
        obtain ⟨r, n, h1, h2, h3, h4, h5⟩ := h
        refine .inr ⟨r, n + 1, ?_, ?_, ?_, ?_, ?_⟩
        · rw [h1]; congr 2; omega
        · simp only [List.length_cons]; omega
        · exact (hlong (n + 1) (by omega) r).mpr h3
        · intro i hi hm
          exact h4 i hi ((hlong (n + 1) (by omega) i).mp hm)
        · intro m hm hle i hmm
          exact h5 (m - 1) (by omega) (by simp only [List.length_cons] at hle; omega) i
            ((hlong m (by omega) i).mp hmm)

/-- The meaning of `specNext`: the documented choice, or nothing matches. -/
theorem specNext_spec (rules : List SpecRule) (sc : Nat) (bol : Bool) (inp : List Nat) :
    match specNext rules sc bol inp with
    | some (r, n) => Selects rules sc bol inp r n
    | none => ∀ m, 0 < m → m ≤ inp.length → ∀ i, ¬ RuleMatches rules sc bol i (inp.take m) := by
  cases inp with
  | nil =>
    simp only [specNext]
    intro m h1 h2
    simp only [List.length_nil] at h2
    omega
  | cons c cs =>
    have hlong : ∀ m, 0 < m → ∀ i, RuleMatches rules sc bol i ((c :: cs).take m) ↔
        MatchesAt (derivVec c (startVec rules sc bol)) i (cs.take (m - 1)) := by
      intro m hm i
      obtain ⟨m', rfl⟩ : ∃ m', m = m' + 1 := ⟨m - 1, by omega⟩
      simp only [List.take_succ_cons, Nat.add_sub_cancel]
      rw [derivVec_iff, startVec_iff]
    simp only [specNext]
    cases specScan_spec cs (derivVec c (startVec rules sc bol)) 1 none with
    | inl h =>
      rw [h.1]
      intro m hm hle i
      rw [hlong m hm]
      exact h.2 (m - 1) (by simp only [List.length_cons] at hle; omega) i
    | inr h =>
      obtain ⟨r, n, h1, h2, h3, h4, h5⟩ := h
      rw [h1]
      have e : 1 + n = n + 1 := Nat.add_comm _ _
      show Selects rules sc bol (c :: cs) r (1 + n)
      rw [e]
      exact {
        pos := by omega
        le := by simp only [List.length_cons]; omega
        matched := (hlong (n + 1) (by omega) r).mpr h3
        longest := fun m hm hle i hmm =>
          h5 (m - 1) (by omega) (by simp only [List.length_cons] at hle; omega) i
            ((hlong m (by omega) i).mp hmm)
        first := fun i hi hm => h4 i hi ((hlong (n + 1) (by omega) i).mp hm) }

/-- `specNext` returns `(r, n)` exactly when `(r, n)` is the documented choice. -/
theorem specNext_eq_some_iff {rules : List SpecRule} {sc : Nat} {bol : Bool} {inp : List Nat}
    {r n : Nat} : specNext rules sc bol inp = some (r, n) ↔ Selects rules sc bol inp r n := by
  have hs := specNext_spec rules sc bol inp
  constructor
  · intro h; rw [h] at hs; exact hs
  · intro h
    cases hn : specNext rules sc bol inp with
    | none =>
      rw [hn] at hs
      exact (hs n h.pos h.le r h.matched).elim
    | some p =>
      obtain ⟨r', n'⟩ := p
      rw [hn] at hs
      obtain ⟨rfl, rfl⟩ := hs.unique h
      rfl

/-- `specNext` returns nothing exactly when no active rule matches a non-empty prefix. -/
theorem specNext_eq_none_iff {rules : List SpecRule} {sc : Nat} {bol : Bool} {inp : List Nat} :
    specNext rules sc bol inp = none ↔
      ∀ m, 0 < m → m ≤ inp.length → ∀ i, ¬ RuleMatches rules sc bol i (inp.take m) := by
  have hs := specNext_spec rules sc bol inp
  constructor
  · intro h; rw [h] at hs; exact hs
  · intro h
    cases hn : specNext rules sc bol inp with
    | none => rfl
    | some p =>
      obtain ⟨r, n⟩ := p
      rw [hn] at hs
      exact (h n hs.pos hs.le r hs.matched).elim

/-! ### the byte classes are what their names say -/
def classesOkAt (b : Nat) : Bool :=
  (mem cAny b == true) && (mem cDot b == (b != 10)) && (mem cNotQB b == (b != 34 && b != 92)) &&
  (mem cNl b == (b == 10)) && (mem cCr b == (b == 13)) && (mem cFormFeed b == (b == 12)) &&
  (mem cBel b == (b == 7)) && (mem cBs b == (b == 8)) && (mem cVt b == (b == 11)) &&
  (mem cSpTab b == (b == 32 || b == 9)) && (mem cHash b == (b == 35)) &&
  (mem cSlash b == (b == 47)) && (mem cStar b == (b == 42)) && (mem cQuote b == (b == 34)) &&
  (mem cBackslash b == (b == 92)) && (mem cAt b == (b == 64)) && (mem cEq b == (b == 61)) &&
  (mem cColon b == (b == 58)) && (mem cComma b == (b == 44)) && (mem cLBrace b == (b == 123)) &&
  (mem cRBrace b == (b == 125)) && (mem cLBrack b == (b == 91)) &&
  (mem cRBrack b == (b == 93)) && (mem cLParen b == (b == 40)) && (mem cRParen b == (b == 41)) &&
  (mem cSemi b == (b == 59)) && (mem cPeriod b == (b == 46)) && (mem cZero b == (b == 48)) &&
  (mem cUpperL b == (b == 76)) && (mem cSign b == (b == 45 || b == 43)) &&
  (mem cDigit b == isDigit b) && (mem cHexDigit b == isHexDigit b) &&
  (mem cXx b == (b == 88 || b == 120)) && (mem cEe b == (b == 69 || b == 101)) &&
  (mem cNameStart b == (isAlpha b || b == 42)) &&
  (mem cNameRest b == (isAlpha b || isDigit b || b == 45 || b == 95 || b == 42)) &&
  (mem cTt b == (b == 84 || b == 116)) && (mem cRr b == (b == 82 || b == 114)) &&
  (mem cUu b == (b == 85 || b == 117)) && (mem cFf b == (b == 70 || b == 102)) &&
  (mem cAa b == (b == 65 || b == 97)) && (mem cLl b == (b == 76 || b == 108)) &&
  (mem cSs b == (b == 83 || b == 115)) && (mem c_a b == (b == 97)) && (mem c_b b == (b == 98)) &&
  (mem c_c b == (b == 99)) && (mem c_d b == (b == 100)) && (mem c_e b == (b == 101)) &&
  (mem c_f b == (b == 102)) && (mem c_i b == (b == 105)) && (mem c_l b == (b == 108)) &&
  (mem c_n b == (b == 110)) && (mem c_r b == (b == 114)) && (mem c_t b == (b == 116)) &&
  (mem c_u b == (b == 117)) && (mem c_v b == (b == 118))

theorem classes_ok : ∀ b, b < 256 → classesOkAt b = true := by decide +kernel

/-- no byte ≥ 256 is in any class: the masks have 256 bits -/
theorem cAny_lt : cAny < 2 ^ 256 := by decide +kernel

end ScanSpec
end Libconfig
