import LibconfigModel.RoundTrip
import LibconfigModel.WF
import LibconfigModel.Proofs.C01ParseStatic
/-
  C01 (parsing half), specification side in the form the proofs use: the token sequence of the
  written form by recursion on the tree (white space already removed), the expected result of
  reading it back, the side conditions on the tree, the nesting depth — and their unfolding
  lemmas for a node given as a variable.
-/
namespace Libconfig.C01PP
open Libconfig

/-! ### the tree without source positions (as in Properties/C10.lean) -/

mutual
def stripPos : Node → Node
  | .mk name ty fmt ival fval sval kids hook _ _ =>
    .mk name ty fmt ival fval sval (stripPosList kids) hook 0 none
def stripPosList : List Node → List Node
  | [] => []
  | k :: ks => stripPos k :: stripPosList ks
end

theorem stripPos_eq (n : Node) :
    stripPos n = { n with kids := stripPosList n.kids, line := 0, file := none } := by
  cases n; rw [stripPos]

theorem stripPosList_append (a b : List Node) :
    stripPosList (a ++ b) = stripPosList a ++ stripPosList b := by
  induction a with
  | nil => simp [stripPosList]
  | cons x xs ih => simp [stripPosList, ih]

theorem stripPosList_map (a : List Node) : stripPosList a = a.map stripPos := by
  induction a with
  | nil => simp [stripPosList]
  | cons x xs ih => simp [stripPosList, ih]

/-! ### tokens of the written form -/

/-- the punctuation tokens -/
def tLS : Nat × TokVal := (tk.listStart, {})
def tLE : Nat × TokVal := (tk.listEnd, {})
def tAS : Nat × TokVal := (tk.arrayStart, {})
def tAE : Nat × TokVal := (tk.arrayEnd, {})
def tGS : Nat × TokVal := (tk.groupStart, {})
def tGE : Nat × TokVal := (tk.groupEnd, {})
def tCO : Nat × TokVal := (tk.comma, {})
def tEQ : Nat × TokVal := (tk.equals, {})
def tSE : Nat × TokVal := (tk.semicolon, {})
def tNAME (nm : Bytes) : Nat × TokVal := (tk.name, { sval := nm })
/-- the end marker as `yyparseLoop` represents it -/
def tEOF : Nat × TokVal := (0, {})

section
variable (bufLen : Nat) (c : Config)

/-- the token of a scalar -/
def scalTok (n : Node) : Option (Nat × TokVal) := (scalarTok bufLen c n).token tk

def tokPrefix (name : Option Bytes) : List (Nat × TokVal) :=
  match name with
  | some nm => [tNAME nm, tEQ]
  | none => []

def tokSuffix : List (Nat × TokVal) :=
  if c.opt OPT_SEMICOLON then [tSE] else []

mutual
/-- tokens of a value -/
def tokValue : Node → List (Nat × TokVal)
  | .mk name ty fmt ival fval sval kids hook line file =>
    if ty == T_LIST then [tLS] ++ tokElems kids ++ [tLE]
    else if ty == T_ARRAY then [tAS] ++ tokElems kids ++ [tAE]
    else if ty == T_GROUP then [tGS] ++ tokMembers kids ++ [tGE]
    else (scalTok bufLen c (.mk name ty fmt ival fval sval [] hook line file)).toList
/-- tokens of the elements of a list or array -/
def tokElems : List Node → List (Nat × TokVal)
  | [] => []
  | k :: ks => tokValue k ++ (if ks.isEmpty then [] else [tCO]) ++ tokElems ks
/-- tokens of the members of a group -/
def tokMembers : List Node → List (Nat × TokVal)
  | [] => []
  | k :: ks => tokPrefix k.name ++ tokValue k ++ tokSuffix c ++ tokMembers ks
end

/-- the elements after the first: each preceded by a comma -/
def tokRest (ks : List Node) : List (Nat × TokVal) :=
  ks.flatMap fun k => tCO :: tokValue bufLen c k

theorem scalTok_kids (name : Option Bytes) (ty fmt : Nat) (ival : Int) (fval : Nat)
    (sval : Option Bytes) (kids : List Node) (hook line : Nat) (file : Option Bytes) :
    scalTok bufLen c (.mk name ty fmt ival fval sval [] hook line file) =
      scalTok bufLen c (.mk name ty fmt ival fval sval kids hook line file) := rfl

theorem tokValue_eq (n : Node) :
    tokValue bufLen c n =
      if n.ty == T_LIST then [tLS] ++ tokElems bufLen c n.kids ++ [tLE]
      else if n.ty == T_ARRAY then [tAS] ++ tokElems bufLen c n.kids ++ [tAE]
      else if n.ty == T_GROUP then [tGS] ++ tokMembers bufLen c n.kids ++ [tGE]
      else (scalTok bufLen c n).toList := by
  cases n; rw [tokValue, scalTok_kids]

theorem tokElems_cons (k : Node) (ks : List Node) :
    tokElems bufLen c (k :: ks) = tokValue bufLen c k ++ tokRest bufLen c ks := by
  induction ks generalizing k with
  | nil => simp [tokElems, tokRest]
  | cons k' ks ih =>
    rw [tokElems, ih k']
    simp [tokRest]

theorem tokRest_cons (k : Node) (ks : List Node) :
    tokRest bufLen c (k :: ks) = tCO :: tokValue bufLen c k ++ tokRest bufLen c ks := by
  simp [tokRest]

theorem tokMembers_cons (k : Node) (ks : List Node) :
    tokMembers bufLen c (k :: ks) =
      tokPrefix k.name ++ tokValue bufLen c k ++ tokSuffix c ++ tokMembers bufLen c ks := by
  rw [tokMembers]

/-! #### agreement with `tokensOfConfig` -/

/-- the tokens of a sequence of items -/
def toks (l : List WTok) : List (Nat × TokVal) := l.filterMap (WTok.token tk)

@[simp] theorem toks_nil : toks [] = [] := rfl
@[simp] theorem toks_append (a b : List WTok) : toks (a ++ b) = toks a ++ toks b :=
  List.filterMap_append
@[simp] theorem toks_ws (b : Bytes) (l : List WTok) : toks (.ws b :: l) = toks l := rfl
@[simp] theorem toks_name (nm : Bytes) (l : List WTok) : toks (.name nm :: l) = tNAME nm :: toks l := rfl
@[simp] theorem toks_assign (a : Nat) (l : List WTok) : toks (.assign a :: l) = tEQ :: toks l := rfl
@[simp] theorem toks_semi (l : List WTok) : toks (.semi :: l) = tSE :: toks l := rfl
@[simp] theorem toks_comma (l : List WTok) : toks (.comma :: l) = tCO :: toks l := rfl
@[simp] theorem toks_40 (l : List WTok) : toks (.punct 40 :: l) = tLS :: toks l := rfl
@[simp] theorem toks_41 (l : List WTok) : toks (.punct 41 :: l) = tLE :: toks l := rfl
@[simp] theorem toks_91 (l : List WTok) : toks (.punct 91 :: l) = tAS :: toks l := rfl
@[simp] theorem toks_93 (l : List WTok) : toks (.punct 93 :: l) = tAE :: toks l := rfl
@[simp] theorem toks_123 (l : List WTok) : toks (.punct 123 :: l) = tGS :: toks l := rfl
@[simp] theorem toks_125 (l : List WTok) : toks (.punct 125 :: l) = tGE :: toks l := rfl

theorem toks_single (t : WTok) : toks [t] = (t.token tk).toList := by
  unfold toks
  rw [List.filterMap_cons]
  cases t.token tk <;> rfl

theorem toks_prefix (d : Nat) (name : Option Bytes) (ty : Nat) :
    toks (prefixToks c d name ty) = tokPrefix name := by
  unfold prefixToks tokPrefix
  cases name <;> by_cases h : d > 1 <;> simp [h]

theorem toks_suffix (d : Nat) (hd : 0 < d) : toks (suffixToks c d) = tokSuffix c := by
  unfold suffixToks tokSuffix
  by_cases h2 : c.opt OPT_SEMICOLON <;> simp [hd, h2]

mutual
theorem toks_value (d : Nat) (hd : 0 < d) :
    (n : Node) → toks (wtoksValue bufLen c d n) = tokValue bufLen c n
  | .mk name ty fmt ival fval sval kids hook line file => by
    unfold wtoksValue
    rw [tokValue]
    split
    · simp [toks_elems (d + 1) (Nat.succ_pos d) kids]
    split
    · simp [toks_elems (d + 1) (Nat.succ_pos d) kids]
    split
    · by_cases h1 : d > 1 <;> by_cases h2 : c.opt OPT_BRACE_SEPARATE <;>
        simp [h1, h2, toks_members (d + 1) (Nat.succ_pos d) kids]
    · rw [toks_single]; rfl
theorem toks_elems (d : Nat) (hd : 0 < d) :
    (ks : List Node) → toks (wtoksElems bufLen c d ks) = tokElems bufLen c ks
  | [] => by simp [wtoksElems, tokElems]
  | k :: ks => by
    unfold wtoksElems
    rw [tokElems]
    cases ks <;> simp [toks_value d hd k, toks_elems d hd _]
theorem toks_members (d : Nat) (hd : 0 < d) :
    (ks : List Node) → toks (wtoksMembers bufLen c d ks) = tokMembers bufLen c ks
  | [] => by simp [wtoksMembers, tokMembers]
  | k :: ks => by
    unfold wtoksMembers
    rw [tokMembers]
    simp [toks_prefix, toks_suffix c d hd, toks_value d hd k, toks_members d hd ks]
end

/-- the token sequence of a configuration whose root is a nameless group: the tokens of the
root's members -/
theorem tokensOfConfig_eq (h1 : c.root.name = none) (h2 : c.root.ty = T_GROUP) :
    tokensOfConfig tk bufLen c = tokMembers bufLen c c.root.kids := by
  unfold tokensOfConfig wtoksConfig
  show toks _ = _
  have hv : toks (wtoksValue bufLen c 0 c.root) = tokMembers bufLen c c.root.kids := by
    cases hr : c.root with
    | mk name ty fmt ival fval sval kids hook line file =>
      rw [hr] at h2
      simp only at h2
      subst h2
      unfold wtoksValue
      simp [T_GROUP, T_LIST, T_ARRAY, toks_members bufLen c 1 (by decide) kids]
  rw [h1]
  simp [hv, prefixToks, suffixToks]

/-! #### the token of a scalar, by type -/

theorem scalTok_bool (n : Node) (h : n.ty = T_BOOL) :
    scalTok bufLen c n = some (tk.boolean, { ival := if n.ival != 0 then 1 else 0 }) := by
  simp [scalTok, scalarTok, h, WTok.token]

theorem scalTok_int (n : Node) (h : n.ty = T_INT) :
    scalTok bufLen c n =
      some (if effFormat c n == FMT_HEX then tk.hex else tk.integer, { ival := n.ival }) := by
  simp [scalTok, scalarTok, h, WTok.token, T_BOOL, T_INT]

theorem scalTok_int64 (n : Node) (h : n.ty = T_INT64) :
    scalTok bufLen c n =
      some (if effFormat c n == FMT_HEX then tk.hex64 else tk.integer64, { ival := n.ival }) := by
  simp [scalTok, scalarTok, h, WTok.token, T_BOOL, T_INT, T_INT64]

theorem scalTok_float (n : Node) (h : n.ty = T_FLOAT) :
    scalTok bufLen c n =
      some (tk.float,
        { fval := F64.strtod (formatDouble bufLen n.fval c.floatPrecision (c.opt OPT_SCIENTIFIC)) }) := by
  simp [scalTok, scalarTok, h, WTok.token, T_BOOL, T_INT, T_INT64, T_FLOAT]

theorem scalTok_string (n : Node) (h : n.ty = T_STRING) :
    scalTok bufLen c n = some (tk.string, { sval := n.sval.getD [] }) := by
  simp [scalTok, scalarTok, h, WTok.token, T_BOOL, T_INT, T_INT64, T_FLOAT, T_STRING]

/-! ### the expected result -/

/-- the setting a written scalar is read back as -/
def expScalar (n : Node) : Node :=
  if n.ty == T_BOOL then { name := n.name, ty := T_BOOL, ival := if n.ival != 0 then 1 else 0 }
  else if n.ty == T_INT then
    { name := n.name, ty := T_INT, ival := n.ival,
      fmt := if effFormat c n == FMT_HEX then FMT_HEX else FMT_DEFAULT }
  else if n.ty == T_INT64 then
    { name := n.name, ty := T_INT64, ival := n.ival,
      fmt := if effFormat c n == FMT_HEX then FMT_HEX else FMT_DEFAULT }
  else if n.ty == T_FLOAT then
    { name := n.name, ty := T_FLOAT,
      fval := F64.strtod (formatDouble bufLen n.fval c.floatPrecision (c.opt OPT_SCIENTIFIC)) }
  else if n.ty == T_STRING then { name := n.name, ty := T_STRING, sval := some (n.sval.getD []) }
  else { name := n.name, ty := n.ty }

mutual
/-- the tree a written tree is read back as (source positions apart) -/
def expNode : Node → Node
  | .mk name ty fmt ival fval sval kids hook line file =>
    if isAggregateTy ty then { name := name, ty := ty, kids := expList kids }
    else expScalar bufLen c (.mk name ty fmt ival fval sval [] hook line file)
def expList : List Node → List Node
  | [] => []
  | k :: ks => expNode k :: expList ks
end

theorem expScalar_kids (name : Option Bytes) (ty fmt : Nat) (ival : Int) (fval : Nat)
    (sval : Option Bytes) (kids : List Node) (hook line : Nat) (file : Option Bytes) :
    expScalar bufLen c (.mk name ty fmt ival fval sval [] hook line file) =
      expScalar bufLen c (.mk name ty fmt ival fval sval kids hook line file) := rfl

theorem expNode_eq (n : Node) :
    expNode bufLen c n =
      if isAggregateTy n.ty then { name := n.name, ty := n.ty, kids := expList bufLen c n.kids }
      else expScalar bufLen c n := by
  cases n; rw [expNode, expScalar_kids]

theorem expList_append (a b : List Node) :
    expList bufLen c (a ++ b) = expList bufLen c a ++ expList bufLen c b := by
  induction a with
  | nil => simp [expList]
  | cons x xs ih => simp [expList, ih]

/-! ### side conditions on the tree -/

/-- a member of a group has a valid name -/
def nameOKB (k : Node) : Bool :=
  match k.name with
  | some nm => validName nm
  | none => false

/-- the local conditions on the children of a node of type `ty` -/
def kidsOKB (ty : Nat) (kids : List Node) : Bool :=
  if ty == T_GROUP then kids.all nameOKB && nodupB (kids.map (·.name))
  else if ty == T_LIST then kids.all (fun k => k.name.isNone)
  else if ty == T_ARRAY then
    kids.all (fun k => k.name.isNone && isScalarTy k.ty) &&
      (match kids with
       | [] => true
       | k0 :: ks => ks.all (fun k => k.ty == k0.ty))
  else kids.isEmpty

mutual
/-- well-formed, and no setting of type NONE -/
def okNode : Node → Bool
  | .mk _ ty _ _ _ _ kids _ _ _ =>
    decide (1 ≤ ty) && decide (ty ≤ 8) && kidsOKB ty kids && okList kids
def okList : List Node → Bool
  | [] => true
  | k :: ks => okNode k && okList ks
end

theorem okNode_eq (n : Node) :
    okNode n = (decide (1 ≤ n.ty) && decide (n.ty ≤ 8) && kidsOKB n.ty n.kids && okList n.kids) := by
  cases n; rw [okNode]

theorem okList_iff (ks : List Node) : okList ks = true ↔ ∀ k ∈ ks, okNode k = true := by
  induction ks with
  | nil => simp [okList]
  | cons k ks ih => simp [okList, ih]

/-! ### nesting depth -/

mutual
/-- the nesting depth below a setting (0 for a scalar or an empty aggregate) -/
def nodeDepth : Node → Nat
  | .mk _ _ _ _ _ _ kids _ _ _ => listDepth kids
def listDepth : List Node → Nat
  | [] => 0
  | k :: ks => max (nodeDepth k + 1) (listDepth ks)
end

theorem nodeDepth_eq (n : Node) : nodeDepth n = listDepth n.kids := by
  cases n; rw [nodeDepth]

theorem listDepth_mem {ks : List Node} {k : Node} (h : k ∈ ks) : nodeDepth k + 1 ≤ listDepth ks := by
  induction ks with
  | nil => cases h
  | cons x xs ih =>
    rw [listDepth]
    rcases List.mem_cons.mp h with rfl | h
    · exact Nat.le_max_left _ _
    · exact Nat.le_trans (ih h) (Nat.le_max_right _ _)

theorem listDepth_cons_le (k : Node) (ks : List Node) : listDepth ks ≤ listDepth (k :: ks) := by
  rw [listDepth]; exact Nat.le_max_right _ _

end

end Libconfig.C01PP
