import LibconfigModel.Proofs.C01IdemFloat
import LibconfigModel.Proofs.C01RoundTrip
import LibconfigModel.Proofs.C05
/-
  C01F, part 2 — lifting the float lemma to trees: writing the expected result of the round trip
  (`C01Parse.expectedRoot`) under the presentation attributes of the written configuration gives
  the same bytes again.
-/
namespace Libconfig.C01I
open Libconfig F64 C01P C01L C01Parse

/-! ### the side conditions, leaf by leaf -/

/-- the text written for the float `b` is a fixed point of read-then-write -/
def floatIdem (bufLen : Nat) (c : Config) (b : Nat) : Bool :=
  formatDouble bufLen (F64.strtod (formatDouble bufLen b c.floatPrecision (c.opt OPT_SCIENTIFIC)))
      c.floatPrecision (c.opt OPT_SCIENTIFIC) ==
    formatDouble bufLen b c.floatPrecision (c.opt OPT_SCIENTIFIC)

/-- the format of an integer setting is one `config_setting_set_format` accepts (DEFAULT = 0 or
HEX = 1) — or else the configuration's default format is not HEX -/
def intFmtOK (c : Config) (fmt : Nat) : Bool := decide (fmt ≤ 1) || c.defaultFormat != FMT_HEX

mutual
/-- every integer leaf has a format that survives, every float leaf a text that is a fixed point -/
def nodeIdem (bufLen : Nat) (c : Config) : Node → Bool
  | .mk _ ty fmt _ fval _ kids _ _ _ =>
    if isAggregateTy ty then nodesIdem bufLen c kids
    else if ty == T_INT || ty == T_INT64 then intFmtOK c fmt
    else if ty == T_FLOAT then floatIdem bufLen c fval
    else true
def nodesIdem (bufLen : Nat) (c : Config) : List Node → Bool
  | [] => true
  | k :: ks => nodeIdem bufLen c k && nodesIdem bufLen c ks
end

mutual
/-- every integer leaf has a format that survives -/
def nodeFmt (c : Config) : Node → Bool
  | .mk _ ty fmt _ _ _ kids _ _ _ =>
    if isAggregateTy ty then nodesFmt c kids
    else if ty == T_INT || ty == T_INT64 then intFmtOK c fmt
    else true
def nodesFmt (c : Config) : List Node → Bool
  | [] => true
  | k :: ks => nodeFmt c k && nodesFmt c ks
end

/-- the presentation attributes `config_write` looks at -/
def SameAttrs (c c' : Config) : Prop :=
  c'.options = c.options ∧ c'.tabWidth = c.tabWidth ∧ c'.floatPrecision = c.floatPrecision ∧
    c'.defaultFormat = c.defaultFormat

theorem SameAttrs.opt {c c' : Config} (h : SameAttrs c c') (o : Nat) : c'.opt o = c.opt o := by
  unfold Config.opt; rw [h.1]

/-! ### scalars -/

/-- the effective format of the integer read back is HEX exactly when that of the written one is -/
theorem effFormat_expected (c c' : Config) (hd : c'.defaultFormat = c.defaultFormat) (n m : Node)
    (hm : m.fmt = if effFormat c n == FMT_HEX then FMT_HEX else FMT_DEFAULT)
    (hok : intFmtOK c n.fmt = true) :
    (effFormat c' m == FMT_HEX) = (effFormat c n == FMT_HEX) := by
  unfold intFmtOK at hok
  simp only [Bool.or_eq_true, decide_eq_true_eq, bne_iff_ne, ne_eq] at hok
  unfold effFormat at *
  simp only [FMT_HEX, FMT_DEFAULT] at *
  rw [hm, hd]
  by_cases h0 : n.fmt = 0
  · simp only [h0, bne_self_eq_false, Bool.false_eq_true, if_false]
    by_cases h1 : c.defaultFormat = 1
    · simp [h1]
    · simp [h1]
  · have hb : (n.fmt != 0) = true := by simpa using h0
    simp only [hb, if_true]
    by_cases h1 : n.fmt = 1
    · simp [h1]
    · have : ¬ c.defaultFormat = 1 := by
        rcases hok with h | h
        · omega
        · exact h
      rw [beq_eq_false_iff_ne.mpr h1]
      simp only [Bool.false_eq_true, if_false, bne_self_eq_false]
      rw [beq_eq_false_iff_ne.mpr this]

/-- the written form of the scalar read back, under the same presentation attributes -/
theorem scalar_idem (bufLen : Nat) (c c' : Config) (ha : SameAttrs c c') (n : Node)
    (hi : n.ty = T_INT ∨ n.ty = T_INT64 → intFmtOK c n.fmt = true)
    (hf : n.ty = T_FLOAT → floatIdem bufLen c n.fval = true) :
    writeScalar bufLen c' (expectedScalar bufLen c n) = writeScalar bufLen c n := by
  have hopt := SameAttrs.opt ha OPT_SCIENTIFIC
  obtain ⟨-, -, hprec, hdef⟩ := ha
  unfold expectedScalar
  by_cases h6 : n.ty = 6
  · simp only [h6, beq_self_eq_true, if_true]
    unfold writeScalar
    simp only [h6, beq_self_eq_true, if_true]
    by_cases hv : n.ival = 0
    · simp [hv]
    · simp [hv]
  by_cases h2 : n.ty = 2
  · have hE := effFormat_expected c c' hdef n
      { name := n.name, ty := T_INT, ival := n.ival,
        fmt := if effFormat c n == FMT_HEX then FMT_HEX else FMT_DEFAULT } rfl (hi (.inl h2))
    simp only [h2, show ((2 : Nat) == 6) = false from rfl, beq_self_eq_true, if_true,
      Bool.false_eq_true, if_false]
    unfold writeScalar
    simp only [h2, show ((2 : Nat) == 6) = false from rfl, beq_self_eq_true, if_true,
      Bool.false_eq_true, if_false, hE]
  by_cases h3 : n.ty = 3
  · have hE := effFormat_expected c c' hdef n
      { name := n.name, ty := T_INT64, ival := n.ival,
        fmt := if effFormat c n == FMT_HEX then FMT_HEX else FMT_DEFAULT } rfl (hi (.inr h3))
    simp only [h3, show ((3 : Nat) == 6) = false from rfl, show ((3 : Nat) == 2) = false from rfl,
      beq_self_eq_true, if_true, Bool.false_eq_true, if_false]
    unfold writeScalar
    simp only [h3, show ((3 : Nat) == 6) = false from rfl, show ((3 : Nat) == 2) = false from rfl,
      beq_self_eq_true, if_true, Bool.false_eq_true, if_false, hE]
  by_cases h4 : n.ty = 4
  · have hF : formatDouble bufLen
        (F64.strtod (formatDouble bufLen n.fval c.floatPrecision (c.opt OPT_SCIENTIFIC)))
        c.floatPrecision (c.opt OPT_SCIENTIFIC) =
        formatDouble bufLen n.fval c.floatPrecision (c.opt OPT_SCIENTIFIC) := by
      have := hf h4
      unfold floatIdem at this
      exact eq_of_beq this
    simp only [h4, show ((4 : Nat) == 6) = false from rfl, show ((4 : Nat) == 2) = false from rfl,
      show ((4 : Nat) == 3) = false from rfl, beq_self_eq_true, if_true, Bool.false_eq_true, if_false]
    unfold writeScalar
    simp only [h4, show ((4 : Nat) == 6) = false from rfl, show ((4 : Nat) == 2) = false from rfl,
      show ((4 : Nat) == 3) = false from rfl, beq_self_eq_true, if_true, Bool.false_eq_true, if_false,
      hprec, hopt, hF]
  by_cases h5 : n.ty = 5
  · simp only [h5, show ((5 : Nat) == 6) = false from rfl, show ((5 : Nat) == 2) = false from rfl,
      show ((5 : Nat) == 3) = false from rfl, show ((5 : Nat) == 4) = false from rfl,
      beq_self_eq_true, if_true, Bool.false_eq_true, if_false]
    unfold writeScalar
    simp only [h5, show ((5 : Nat) == 6) = false from rfl, show ((5 : Nat) == 2) = false from rfl,
      show ((5 : Nat) == 3) = false from rfl, show ((5 : Nat) == 4) = false from rfl,
      beq_self_eq_true, if_true, Bool.false_eq_true, if_false, Option.getD_some]
  · have e6 : (n.ty == 6) = false := by simpa using h6
    have e2 : (n.ty == 2) = false := by simpa using h2
    have e3 : (n.ty == 3) = false := by simpa using h3
    have e4 : (n.ty == 4) = false := by simpa using h4
    have e5 : (n.ty == 5) = false := by simpa using h5
    simp only [e6, e2, e3, e4, e5, Bool.false_eq_true, if_false]
    unfold writeScalar
    simp only [e6, e2, e3, e4, e5, Bool.false_eq_true, if_false]

/-- name, type and (absence of) children of the expected form of a scalar -/
theorem expectedScalar_fields (bufLen : Nat) (c : Config) (n : Node) :
    (expectedScalar bufLen c n).name = n.name ∧ (expectedScalar bufLen c n).ty = n.ty ∧
      (expectedScalar bufLen c n).kids = [] := by
  unfold expectedScalar
  split
  · rename_i h; exact ⟨rfl, (by simpa using h : n.ty = 6).symm, rfl⟩
  split
  · rename_i h; exact ⟨rfl, (by simpa using h : n.ty = 2).symm, rfl⟩
  split
  · rename_i h; exact ⟨rfl, (by simpa using h : n.ty = 3).symm, rfl⟩
  split
  · rename_i h; exact ⟨rfl, (by simpa using h : n.ty = 4).symm, rfl⟩
  split
  · rename_i h; exact ⟨rfl, (by simpa using h : n.ty = 5).symm, rfl⟩
  · exact ⟨rfl, rfl, rfl⟩

theorem expectedNode_name_ty (bufLen : Nat) (c : Config) (n : Node) :
    (expectedNode bufLen c n).name = n.name ∧ (expectedNode bufLen c n).ty = n.ty := by
  cases n with
  | mk name ty fmt ival fval sval kids hook line file =>
    rw [expectedNode]
    split
    · exact ⟨rfl, rfl⟩
    · have := expectedScalar_fields bufLen c (.mk name ty fmt ival fval sval [] hook line file)
      exact ⟨this.1, this.2.1⟩

/-- `__config_write_value` of a childless non-aggregate is the scalar case -/
theorem writeValue_scalar (bufLen : Nat) (c : Config) (d : Nat) (m : Node)
    (hty : isAggregateTy m.ty = false) (hk : m.kids = []) :
    writeValue bufLen c d m = writeScalar bufLen c m := by
  cases m with
  | mk name ty fmt ival fval sval kids hook line file =>
    simp only [isAggregateTy, Bool.or_eq_false_iff] at hty
    obtain ⟨⟨h7, h8⟩, h1⟩ := hty
    have hk' : kids = [] := hk
    subst hk'
    rw [writeValue]
    simp only [h7, h8, h1, Bool.false_eq_true, if_false]

/-! ### prefix and suffix depend on the presentation attributes only -/

theorem prefix_attrs (c c' : Config) (ha : SameAttrs c c') (d : Nat) (name : Option Bytes) (ty : Nat) :
    settingPrefix c' d name ty = settingPrefix c d name ty := by
  unfold settingPrefix
  rw [ha.opt, ha.opt, ha.2.1]

theorem suffix_attrs (c c' : Config) (ha : SameAttrs c c') (d : Nat) :
    settingSuffix c' d = settingSuffix c d := by
  unfold settingSuffix
  rw [ha.opt]

/-! ### the tree -/

mutual
theorem value_idem (bufLen : Nat) (c c' : Config) (ha : SameAttrs c c') (d : Nat) :
    (n : Node) → nodeIdem bufLen c n = true →
      writeValue bufLen c' d (expectedNode bufLen c n) = writeValue bufLen c d n
  | .mk name ty fmt ival fval sval kids hook line file => by
    intro h
    rw [nodeIdem] at h
    rw [expectedNode]
    by_cases hag : isAggregateTy ty = true
    · rw [if_pos hag] at h ⊢
      rw [writeValue, writeValue, elems_idem bufLen c c' ha (d + 1) kids h,
        members_idem bufLen c c' ha (d + 1) kids h, ha.opt, ha.2.1]
      simp only [isAggregateTy, Bool.or_eq_true, beq_iff_eq] at hag
      rcases hag with (e | e) | e <;> subst e <;>
        simp only [T_LIST, T_ARRAY, T_GROUP, Nat.reduceBEq, Bool.false_eq_true, if_false, if_true]
    · rw [if_neg hag] at h ⊢
      have hag' : isAggregateTy ty = false := by simpa using hag
      obtain ⟨-, e2, e3⟩ :=
        expectedScalar_fields bufLen c (.mk name ty fmt ival fval sval [] hook line file)
      rw [writeValue_scalar bufLen c' d _ (by rw [e2]; exact hag') e3]
      have hrhs : writeValue bufLen c d (.mk name ty fmt ival fval sval kids hook line file) =
          writeScalar bufLen c (.mk name ty fmt ival fval sval [] hook line file) := by
        simp only [isAggregateTy, Bool.or_eq_false_iff] at hag'
        obtain ⟨⟨h7, h8⟩, h1⟩ := hag'
        rw [writeValue]
        simp only [h7, h8, h1, Bool.false_eq_true, if_false]
      rw [hrhs]
      apply scalar_idem bufLen c c' ha
      · intro hty
        have hty' : ty = 2 ∨ ty = 3 := hty
        have : (ty == T_INT || ty == T_INT64) = true := by
          rcases hty' with e | e <;> simp [e]
        rw [if_pos this] at h
        exact h
      · intro hty
        have hty' : ty = 4 := hty
        subst hty'
        rw [if_neg (by decide), if_pos (by decide)] at h
        exact h
theorem elems_idem (bufLen : Nat) (c c' : Config) (ha : SameAttrs c c') (d : Nat) :
    (ks : List Node) → nodesIdem bufLen c ks = true →
      writeElems bufLen c' d (expectedList bufLen c ks) = writeElems bufLen c d ks
  | [] => by intro _; rw [expectedList, writeElems, writeElems]
  | k :: ks => by
    intro h
    rw [nodesIdem, Bool.and_eq_true] at h
    rw [expectedList, writeElems, writeElems, value_idem bufLen c c' ha d k h.1,
      elems_idem bufLen c c' ha d ks h.2]
    cases ks with
    | nil => rw [expectedList]
    | cons k2 ks2 => rw [expectedList]; rfl
theorem members_idem (bufLen : Nat) (c c' : Config) (ha : SameAttrs c c') (d : Nat) :
    (ks : List Node) → nodesIdem bufLen c ks = true →
      writeMembers bufLen c' d (expectedList bufLen c ks) = writeMembers bufLen c d ks
  | [] => by intro _; rw [expectedList, writeMembers, writeMembers]
  | k :: ks => by
    intro h
    rw [nodesIdem, Bool.and_eq_true] at h
    obtain ⟨e1, e2⟩ := expectedNode_name_ty bufLen c k
    rw [expectedList, writeMembers, writeMembers, value_idem bufLen c c' ha d k h.1,
      members_idem bufLen c c' ha d ks h.2, e1, e2, prefix_attrs c c' ha, suffix_attrs c c' ha]
end

/-- **the tree lemma**: `config_write` of the expected result of the round trip, under the same
presentation attributes, gives the bytes `config_write` gave for the original -/
theorem write_expected (bufLen : Nat) (c c' : Config) (ha : SameAttrs c c')
    (hroot : c'.root = expectedRoot bufLen c) (h : nodeIdem bufLen c c.root = true) :
    c'.write bufLen = c.write bufLen := by
  obtain ⟨e1, e2⟩ := expectedNode_name_ty bufLen c c.root
  unfold Config.write writeSetting
  rw [hroot]
  unfold expectedRoot
  rw [value_idem bufLen c c' ha 0 c.root h, e1, e2, prefix_attrs c c' ha, suffix_attrs c c' ha]

/-! ### source positions are not written -/

theorem SameAttrs.symm {c c' : Config} (h : SameAttrs c c') : SameAttrs c' c :=
  ⟨h.1.symm, h.2.1.symm, h.2.2.1.symm, h.2.2.2.symm⟩

/-- the scalar case looks at type, format, value and the presentation attributes only -/
theorem scalar_attrs (bufLen : Nat) (c c' : Config) (ha : SameAttrs c c') (m m' : Node)
    (h1 : m'.ty = m.ty) (h2 : m'.fmt = m.fmt) (h3 : m'.ival = m.ival) (h4 : m'.fval = m.fval)
    (h5 : m'.sval = m.sval) : writeScalar bufLen c' m' = writeScalar bufLen c m := by
  unfold writeScalar effFormat
  rw [h1, h2, h3, h4, h5, ha.opt, ha.2.2.1, ha.2.2.2]

mutual
theorem value_stripPos (bufLen : Nat) (c c' : Config) (ha : SameAttrs c c') (d : Nat) :
    (n : Node) → writeValue bufLen c' d (stripPos n) = writeValue bufLen c d n
  | .mk name ty fmt ival fval sval kids hook line file => by
    rw [stripPos, writeValue, writeValue, elems_stripPos bufLen c c' ha (d + 1) kids,
      members_stripPos bufLen c c' ha (d + 1) kids, ha.opt, ha.2.1,
      scalar_attrs bufLen c c' ha (.mk name ty fmt ival fval sval [] hook line file)
        (.mk name ty fmt ival fval sval [] hook 0 none) rfl rfl rfl rfl rfl]
theorem elems_stripPos (bufLen : Nat) (c c' : Config) (ha : SameAttrs c c') (d : Nat) :
    (ks : List Node) → writeElems bufLen c' d (stripPosList ks) = writeElems bufLen c d ks
  | [] => by rw [stripPosList, writeElems, writeElems]
  | k :: ks => by
    rw [stripPosList, writeElems, writeElems, value_stripPos bufLen c c' ha d k,
      elems_stripPos bufLen c c' ha d ks]
    cases ks with
    | nil => rw [stripPosList]
    | cons k2 ks2 => rw [stripPosList]; rfl
theorem members_stripPos (bufLen : Nat) (c c' : Config) (ha : SameAttrs c c') (d : Nat) :
    (ks : List Node) → writeMembers bufLen c' d (stripPosList ks) = writeMembers bufLen c d ks
  | [] => by rw [stripPosList, writeMembers, writeMembers]
  | k :: ks => by
    have e1 : (stripPos k).name = k.name := (C01RT.stripPos_fields k).1
    have e2 : (stripPos k).ty = k.ty := (C01RT.stripPos_fields k).2.1
    rw [stripPosList, writeMembers, writeMembers, value_stripPos bufLen c c' ha d k,
      members_stripPos bufLen c c' ha d ks, e1, e2, prefix_attrs c c' ha, suffix_attrs c c' ha]
end

/-- a configuration writes the same bytes as its position-free copy under the same presentation
attributes -/
theorem write_of_stripPos (bufLen : Nat) (c c' : Config) (ha : SameAttrs c c')
    (hroot : c.root = stripPos c'.root) : c'.write bufLen = c.write bufLen := by
  have e1 : (stripPos c'.root).name = c'.root.name := (C01RT.stripPos_fields c'.root).1
  have e2 : (stripPos c'.root).ty = c'.root.ty := (C01RT.stripPos_fields c'.root).2.1
  unfold Config.write writeSetting
  rw [hroot, value_stripPos bufLen c' c ha.symm 0 c'.root, e1, e2, prefix_attrs c c' ha,
    suffix_attrs c c' ha]

/-! ### discharging the side conditions for the default notation -/

theorem floatIdem_fixed (c : Config) (b : Nat) (hfin : isFinite b = true)
    (hsci : c.opt OPT_SCIENTIFIC = false) (hp : c.floatPrecision ≤ 26) : floatIdem 341 c b = true := by
  unfold floatIdem
  rw [hsci, formatDouble_idem b _ hfin hp]
  exact beq_self_eq_true _

mutual
theorem nodeIdem_of_fin (c : Config) (hsci : c.opt OPT_SCIENTIFIC = false) (hp : c.floatPrecision ≤ 26) :
    (n : Node) → nodeFin n = true → nodeFmt c n = true → nodeIdem 341 c n = true
  | .mk name ty fmt ival fval sval kids hook line file => by
    intro h1 h2
    rw [nodeFin, Bool.and_eq_true] at h1
    rw [nodeFmt] at h2
    rw [nodeIdem]
    have h1' := h1.2
    by_cases hag : isAggregateTy ty = true
    · rw [if_pos hag] at h2 ⊢
      have hk : nodesFin kids = true := by
        simp only [isAggregateTy, Bool.or_eq_true, beq_iff_eq] at hag
        rcases hag with (e | e) | e <;> subst e <;> simpa using h1'
      exact nodesIdem_of_fin c hsci hp kids hk h2
    · rw [if_neg hag] at h2 ⊢
      by_cases hint : (ty == T_INT || ty == T_INT64) = true
      · rw [if_pos hint] at h2 ⊢; exact h2
      · rw [if_neg hint]
        by_cases h4 : ty = 4
        · subst h4
          rw [if_pos (by rfl)]
          have hfin : isFinite fval = true := by
            simpa [scalarFin, T_LIST, T_ARRAY, T_GROUP, T_BOOL, T_INT, T_INT64, T_FLOAT] using h1'
          exact floatIdem_fixed c fval hfin hsci hp
        · rw [if_neg (by simpa using h4)]
theorem nodesIdem_of_fin (c : Config) (hsci : c.opt OPT_SCIENTIFIC = false)
    (hp : c.floatPrecision ≤ 26) :
    (ks : List Node) → nodesFin ks = true → nodesFmt c ks = true → nodesIdem 341 c ks = true
  | [] => by intro _ _; rw [nodesIdem]
  | k :: ks => by
    intro h1 h2
    rw [nodesFin, Bool.and_eq_true] at h1
    rw [nodesFmt, Bool.and_eq_true] at h2
    rw [nodesIdem, nodeIdem_of_fin c hsci hp k h1.1 h2.1, nodesIdem_of_fin c hsci hp ks h1.2 h2.2]
    rfl
end

/-! ### … and for any other way of discharging the float condition -/

mutual
/-- every float leaf satisfies `Q` -/
def nodeFloats (Q : Nat → Bool) : Node → Bool
  | .mk _ ty _ _ fval _ kids _ _ _ =>
    if isAggregateTy ty then nodesFloats Q kids
    else if ty == T_FLOAT then Q fval
    else true
def nodesFloats (Q : Nat → Bool) : List Node → Bool
  | [] => true
  | k :: ks => nodeFloats Q k && nodesFloats Q ks
end

mutual
theorem nodeIdem_of (bufLen : Nat) (c : Config) (Q : Nat → Bool)
    (H : ∀ b, Q b = true → floatIdem bufLen c b = true) :
    (n : Node) → nodeFloats Q n = true → nodeFmt c n = true → nodeIdem bufLen c n = true
  | .mk name ty fmt ival fval sval kids hook line file => by
    intro h1 h2
    rw [nodeFloats] at h1
    rw [nodeFmt] at h2
    rw [nodeIdem]
    by_cases hag : isAggregateTy ty = true
    · rw [if_pos hag] at h1 h2 ⊢
      exact nodesIdem_of bufLen c Q H kids h1 h2
    · rw [if_neg hag] at h1 h2 ⊢
      by_cases hint : (ty == T_INT || ty == T_INT64) = true
      · rw [if_pos hint] at h2 ⊢; exact h2
      · rw [if_neg hint]
        by_cases h4 : (ty == T_FLOAT) = true
        · rw [if_pos h4] at h1 ⊢
          exact H fval h1
        · rw [if_neg h4]
theorem nodesIdem_of (bufLen : Nat) (c : Config) (Q : Nat → Bool)
    (H : ∀ b, Q b = true → floatIdem bufLen c b = true) :
    (ks : List Node) → nodesFloats Q ks = true → nodesFmt c ks = true → nodesIdem bufLen c ks = true
  | [] => by intro _ _; rw [nodesIdem]
  | k :: ks => by
    intro h1 h2
    rw [nodesFloats, Bool.and_eq_true] at h1
    rw [nodesFmt, Bool.and_eq_true] at h2
    rw [nodesIdem, nodeIdem_of bufLen c Q H k h1.1 h2.1, nodesIdem_of bufLen c Q H ks h1.2 h2.2]
    rfl
end

end Libconfig.C01I

